import Rg.Proofs.TypeMatchKComplete
/-!
# The executable spec `specMatch` decides `Denotes`

`specM I R st p t` lists binding tables; each of them extends `st` and makes the pattern denote the type
(`specM_sound`, needs `I` reflexive), and whenever some assignment `σ` consistent with `st` makes the pattern denote
the type, one of the listed tables is consistent with `σ` (`specM_complete`, needs `I` symmetric and transitive).
-/
open XTypes TypeMatch
open SpecC10 (Denotes DenotesSeq Rules specM specSeq specMatch)

namespace TypeMatch

theorem unaliasTarget_eq (R : Rules) (t : Ty) :
    SpecC10.unaliasTarget R t = if R.throughAlias then unalias t else t := by
  induction t using Ty.rec (motive_2 := fun _ => True) <;> simp_all [SpecC10.unaliasTarget, unalias]

theorem w_unaliasTarget {W : Ty → Prop} (C : WClosed W) (R : Rules) (t : Ty) (h : W t) : W (SpecC10.unaliasTarget R t) := by
  rw [unaliasTarget_eq]; split
  · exact C.w_unalias t h
  · exact h

theorem mem_suffixes : ∀ (ts ts' : List Ty), ts' ∈ SpecC10.suffixes ts ↔ ∃ n, ts' = ts.drop n
  | [], ts' => by simp [SpecC10.suffixes]
  | t :: ts, ts' => by
    simp only [SpecC10.suffixes, List.mem_cons, mem_suffixes ts ts']
    constructor
    · rintro (rfl | ⟨n, rfl⟩)
      · exact ⟨0, rfl⟩
      · exact ⟨n + 1, rfl⟩
    · rintro ⟨n, rfl⟩
      cases n with
      | zero => exact Or.inl rfl
      | succ n => exact Or.inr ⟨n, rfl⟩

section
variable {I : Ty → Ty → Bool} {R : Rules} {W : Ty → Prop} {P : MState → Prop}

/-- the conclusion of the soundness lemmas for one listed table -/
def SpecSound (P : MState → Prop) (st s' : MState) (D : MState → Prop) : Prop :=
  MState.le st s' ∧ P s' ∧ ∀ σ, MState.le s' σ → D σ

mutual
theorem specM_sound (C : WClosed W) (T : TablesInv W P) (hrefl : ∀ t, I t t = true) :
    ∀ (p : Pat) (t : Ty) (st s' : MState), W t → P st → s' ∈ specM I R st p t →
      SpecSound P st s' fun σ => Denotes I R σ p t
  | .var name, t, st, s', hw, hp, h => by
    unfold specM at h
    split at h
    · rename_i hn
      have : name = "_" := by simpa using hn
      subst this
      simp only [List.mem_singleton] at h
      subst h
      exact ⟨MState.le_refl _, hp, fun σ _ => .wild t⟩
    · split at h
      · rename_i hl
        simp only [List.mem_singleton] at h
        subst h
        exact ⟨le_bindT t hl, T.bindT st name t hp hw, fun σ hσ =>
          .var name t t (hσ.1 name _ (lookupT_bind_self st name t)) (hrefl t)⟩
      · rename_i y hl
        split at h
        · rename_i hi
          simp only [List.mem_singleton] at h
          subst h
          exact ⟨MState.le_refl _, hp, fun σ hσ => .var name y t (hσ.1 name y hl) hi⟩
        · simp at h
  | .builtin b, t, st, s', hw, hp, h => by
    unfold specM at h
    split at h
    · rename_i hi
      simp only [List.mem_singleton] at h
      subst h
      exact ⟨MState.le_refl _, hp, fun σ _ => .builtin b t hi⟩
    · simp at h
  | .varSeq, t, st, s', hw, hp, h => by
    unfold specM at h
    simp at h
  | .ptr e, t, st, s', hw, hp, h => by
    unfold specM at h
    generalize hu : SpecC10.unaliasTarget R t = u at h
    have hwu : W u := hu ▸ w_unaliasTarget C R t hw
    cases u <;> simp only [List.not_mem_nil] at h
    rename_i a
    obtain ⟨h1, h2, h3⟩ := specM_sound C T hrefl e a st s' (C.w_ptr a hwu) hp h
    exact ⟨h1, h2, fun σ hσ => .ptr e t a hu (h3 σ hσ)⟩
  | .slice e, t, st, s', hw, hp, h => by
    unfold specM at h
    generalize hu : SpecC10.unaliasTarget R t = u at h
    have hwu : W u := hu ▸ w_unaliasTarget C R t hw
    cases u <;> simp only [List.not_mem_nil] at h
    rename_i a
    obtain ⟨h1, h2, h3⟩ := specM_sound C T hrefl e a st s' (C.w_slice a hwu) hp h
    exact ⟨h1, h2, fun σ hσ => .slice e t a hu (h3 σ hσ)⟩
  | .arrayVar v e, t, st, s', hw, hp, h => by
    unfold specM at h
    generalize hu : SpecC10.unaliasTarget R t = u at h
    have hwu : W u := hu ▸ w_unaliasTarget C R t hw
    cases u <;> simp only [List.not_mem_nil] at h
    rename_i n a
    have hwa := C.w_array n a hwu
    split at h
    · rename_i hv
      have : v = "_" := by simpa using hv
      subst this
      obtain ⟨h1, h2, h3⟩ := specM_sound C T hrefl e a st s' hwa hp h
      exact ⟨h1, h2, fun σ hσ => .arrayWild e t n a hu (h3 σ hσ)⟩
    · split at h
      · rename_i len hl
        split at h
        · rename_i hlen
          have : len = n := by simpa using hlen
          subst this
          obtain ⟨h1, h2, h3⟩ := specM_sound C T hrefl e a st s' hwa hp h
          exact ⟨h1, h2, fun σ hσ => .arrayVar v e t len a hu (hσ.2 v len (h1.2 v len hl)) (h3 σ hσ)⟩
        · simp at h
      · rename_i hl
        obtain ⟨h1, h2, h3⟩ := specM_sound C T hrefl e a _ s' hwa (T.bindI st v n hp) h
        exact ⟨MState.le_trans (le_bindI n hl) h1, h2, fun σ hσ =>
          .arrayVar v e t n a hu (hσ.2 v n (h1.2 v n (lookupI_bind_self st v n))) (h3 σ hσ)⟩
  | .arrayLit len e, t, st, s', hw, hp, h => by
    unfold specM at h
    generalize hu : SpecC10.unaliasTarget R t = u at h
    have hwu : W u := hu ▸ w_unaliasTarget C R t hw
    cases u <;> simp only [List.not_mem_nil] at h
    rename_i n a
    split at h
    · rename_i hlen
      have : len = n := by simpa using hlen
      subst this
      obtain ⟨h1, h2, h3⟩ := specM_sound C T hrefl e a st s' (C.w_array len a hwu) hp h
      exact ⟨h1, h2, fun σ hσ => .arrayLit e t len a hu (h3 σ hσ)⟩
    · simp at h
  | .map pk pv, t, st, s', hw, hp, h => by
    unfold specM at h
    generalize hu : SpecC10.unaliasTarget R t = u at h
    have hwu : W u := hu ▸ w_unaliasTarget C R t hw
    cases u <;> simp only [List.not_mem_nil] at h
    rename_i tk tv
    have hwkv := C.w_map tk tv hwu
    simp only [List.mem_flatMap] at h
    obtain ⟨s1, hs1, hs2⟩ := h
    obtain ⟨l1, p1, d1⟩ := specM_sound C T hrefl pk tk st s1 hwkv.1 hp hs1
    obtain ⟨l2, p2, d2⟩ := specM_sound C T hrefl pv tv s1 s' hwkv.2 p1 hs2
    exact ⟨MState.le_trans l1 l2, p2, fun σ hσ => .map pk pv t tk tv hu (d1 σ (MState.le_trans l2 hσ)) (d2 σ hσ)⟩
  | .chan dir e, t, st, s', hw, hp, h => by
    unfold specM at h
    generalize hu : SpecC10.unaliasTarget R t = u at h
    have hwu : W u := hu ▸ w_unaliasTarget C R t hw
    cases u <;> simp only [List.not_mem_nil] at h
    rename_i d a
    split at h
    · rename_i hd
      have : dir = d := by simpa using hd
      subst this
      obtain ⟨h1, h2, h3⟩ := specM_sound C T hrefl e a st s' (C.w_chan dir a hwu) hp h
      exact ⟨h1, h2, fun σ hσ => .chan dir e t a hu (h3 σ hσ)⟩
    · simp at h
  | .named pkgPath typeName, t, st, s', hw, hp, h => by
    unfold specM at h
    generalize hu : SpecC10.unaliasTarget R t = u at h
    cases u <;> first | (simp only [List.not_mem_nil] at h; done) | skip
    rename_i u o pkg name x loc targs
    cases pkg with
    | none => simp at h
    | some objPath =>
    simp only at h
    split at h
    · rename_i hc
      simp only [Bool.and_eq_true, beq_iff_eq, Bool.or_eq_true, Bool.not_eq_true', List.isEmpty_iff] at hc
      obtain ⟨⟨⟨rfl, hs⟩, hi⟩, hl⟩ := hc
      simp only [List.mem_singleton] at h
      subst h
      refine ⟨MState.le_refl _, hp, fun σ _ => .named _ typeName t u o objPath x loc targs hu hs ?_ ?_⟩
      · intro hR; rcases hi with hi | hi
        · rw [hR] at hi; cases hi
        · exact hi
      · intro hR; rcases hl with hl | hl
        · rw [hR] at hl; cases hl
        · exact hl
    · simp at h
  | .funcNoSeq pps prs, t, st, s', hw, hp, h => by
    unfold specM at h
    generalize hu : SpecC10.unaliasTarget R t = u at h
    have hwu : W u := hu ▸ w_unaliasTarget C R t hw
    cases u <;> simp only [List.not_mem_nil] at h
    rename_i v tps params results
    have hws := C.w_sig _ _ _ _ hwu
    split at h
    · simp at h
    · rename_i hvt
      simp only [Bool.or_eq_true, Bool.and_eq_true, Bool.not_eq_true', List.isEmpty_eq_false_iff, not_or, not_and,
        Bool.not_eq_true, ne_eq, Decidable.not_not] at hvt
      simp only [List.mem_flatMap] at h
      obtain ⟨s1, hs1, hs2⟩ := h
      rw [tupleElems_eq] at hs1 hs2
      obtain ⟨l1, p1, d1⟩ := specSeq_sound C T hrefl pps _ st s1 hws.1 hp hs1
      obtain ⟨l2, p2, d2⟩ := specSeq_sound C T hrefl prs _ s1 s' hws.2 p1 hs2
      exact ⟨MState.le_trans l1 l2, p2, fun σ hσ => .funcNoSeq pps prs t v tps params results hu
        (fun hR => by cases v <;> simp_all) (fun hR => by simpa [hR] using hvt.2)
        (by rw [tupleElems_eq]; exact d1 σ (MState.le_trans l2 hσ)) (by rw [tupleElems_eq]; exact d2 σ hσ)⟩
  | .func pps prs, t, st, s', hw, hp, h => by
    unfold specM at h
    generalize hu : SpecC10.unaliasTarget R t = u at h
    have hwu : W u := hu ▸ w_unaliasTarget C R t hw
    cases u <;> simp only [List.not_mem_nil] at h
    rename_i v tps params results
    have hws := C.w_sig _ _ _ _ hwu
    split at h
    · simp at h
    · rename_i hvt
      simp only [Bool.or_eq_true, Bool.and_eq_true, Bool.not_eq_true', List.isEmpty_eq_false_iff, not_or, not_and,
        Bool.not_eq_true, ne_eq, Decidable.not_not] at hvt
      simp only [List.mem_flatMap] at h
      obtain ⟨s1, hs1, hs2⟩ := h
      rw [tupleElems_eq] at hs1 hs2
      obtain ⟨l1, p1, d1⟩ := specSeq_sound C T hrefl pps _ st s1 hws.1 hp hs1
      obtain ⟨l2, p2, d2⟩ := specSeq_sound C T hrefl prs _ s1 s' hws.2 p1 hs2
      exact ⟨MState.le_trans l1 l2, p2, fun σ hσ => .func pps prs t v tps params results hu
        (fun hR => by cases v <;> simp_all) (fun hR => by simpa [hR] using hvt.2)
        (by rw [tupleElems_eq]; exact d1 σ (MState.le_trans l2 hσ)) (by rw [tupleElems_eq]; exact d2 σ hσ)⟩
  | .structNoSeq subs, t, st, s', hw, hp, h => by
    unfold specM at h
    generalize hu : SpecC10.unaliasTarget R t = u at h
    have hwu : W u := hu ▸ w_unaliasTarget C R t hw
    cases u <;> simp only [List.not_mem_nil] at h
    rename_i fs
    rw [fieldTypes_eq] at h
    obtain ⟨h1, h2, h3⟩ := specSeq_sound C T hrefl subs _ st s' (C.w_struct fs hwu) hp h
    exact ⟨h1, h2, fun σ hσ => .structNoSeq subs t fs hu (by rw [fieldTypes_eq]; exact h3 σ hσ)⟩
  | .struct subs, t, st, s', hw, hp, h => by
    unfold specM at h
    generalize hu : SpecC10.unaliasTarget R t = u at h
    have hwu : W u := hu ▸ w_unaliasTarget C R t hw
    cases u <;> simp only [List.not_mem_nil] at h
    rename_i fs
    rw [fieldTypes_eq] at h
    obtain ⟨h1, h2, h3⟩ := specSeq_sound C T hrefl subs _ st s' (C.w_struct fs hwu) hp h
    exact ⟨h1, h2, fun σ hσ => .struct subs t fs hu (by rw [fieldTypes_eq]; exact h3 σ hσ)⟩
  | .anyIface, t, st, s', hw, hp, h => by
    unfold specM at h
    generalize hu : SpecC10.unaliasTarget R t = u at h
    cases u <;> simp only [List.not_mem_nil] at h
    rename_i a c ms es
    simp only [List.mem_singleton] at h
    subst h
    exact ⟨MState.le_refl _, hp, fun σ _ => .anyIface t a c ms es hu⟩
theorem specSeq_sound (C : WClosed W) (T : TablesInv W P) (hrefl : ∀ t, I t t = true) :
    ∀ (ps : List Pat) (ts : List Ty) (st s' : MState), (∀ e ∈ ts, W e) → P st → s' ∈ specSeq I R st ps ts →
      SpecSound P st s' fun σ => DenotesSeq I R σ ps ts
  | [], [], st, s', hw, hp, h => by
    unfold specSeq at h
    simp only [List.mem_singleton] at h
    subst h
    exact ⟨MState.le_refl _, hp, fun σ _ => .nil⟩
  | [], _ :: _, st, s', hw, hp, h => by
    unfold specSeq at h
    simp at h
  | p :: ps, ts, st, s', hw, hp, h => by
    by_cases hs : p = .varSeq
    · subst hs
      unfold specSeq at h
      simp only [List.mem_flatMap] at h
      obtain ⟨ts', hts, hm⟩ := h
      obtain ⟨n, rfl⟩ := (mem_suffixes ts ts').mp hts
      obtain ⟨h1, h2, h3⟩ := specSeq_sound C T hrefl ps _ st s' (fun e he => hw e (List.mem_of_mem_drop he)) hp hm
      exact ⟨h1, h2, fun σ hσ => .run ps ts n (h3 σ hσ)⟩
    · cases ts with
      | nil =>
        unfold specSeq at h
        cases p <;> first | (exact absurd rfl hs) | (simp at h)
      | cons t ts =>
        have h' : s' ∈ (specM I R st p t).flatMap fun st' => specSeq I R st' ps ts := by
          unfold specSeq at h
          cases p <;> first | (exact absurd rfl hs) | exact h
        simp only [List.mem_flatMap] at h'
        obtain ⟨s1, hs1, hs2⟩ := h'
        obtain ⟨l1, p1, d1⟩ := specM_sound C T hrefl p t st s1 (hw t (by simp)) hp hs1
        obtain ⟨l2, p2, d2⟩ := specSeq_sound C T hrefl ps ts s1 s' (fun e he => hw e (by simp [he])) p1 hs2
        exact ⟨MState.le_trans l1 l2, p2, fun σ hσ => .cons p ps t ts (d1 σ (MState.le_trans l2 hσ)) (d2 σ hσ)⟩
end

end

section
variable {fx : Bool} {R : Rules} {W : Ty → Prop}

/-- the conclusion of the completeness lemmas: a listed table consistent with `σ` -/
def SpecComplete (fx : Bool) (W : Ty → Prop) (σ : MState) (l : List MState) : Prop := ∃ s' ∈ l, Compat fx W s' σ

theorem SpecComplete.bind {σ : MState} {l : List MState} {f : MState → List MState}
    (h1 : SpecComplete fx W σ l) (h2 : ∀ s, Compat fx W s σ → SpecComplete fx W σ (f s)) :
    SpecComplete fx W σ (l.flatMap f) := by
  obtain ⟨s1, hs1, hc1⟩ := h1
  obtain ⟨s2, hs2, hc2⟩ := h2 s1 hc1
  exact ⟨s2, List.mem_flatMap.mpr ⟨s1, hs1, hs2⟩, hc2⟩

mutual
theorem specM_complete (L : IdLaws fx W) (σ : MState) (hσW : ValuesIn W σ) :
    ∀ (p : Pat) (t : Ty) (st : MState), W t → Denotes (tid fx) R σ p t → Compat fx W st σ →
      SpecComplete fx W σ (specM (tid fx) R st p t)
  | .var name, t, st, hw, hd, hc => by
    unfold specM
    split
    · exact ⟨st, by simp, hc⟩
    · rename_i hname
      cases hd with
      | wild => simp at hname
      | var _ y _ hy hi =>
        split
        · exact ⟨_, by simp, compat_bindT hc hw hy hi⟩
        · rename_i z hl
          obtain ⟨hwz, y', hy', hz⟩ := hc.1 name z hl
          rw [spec_lookupT] at hy
          rw [hy] at hy'
          cases hy'
          have hwy := hσW name y hy
          have hi' : tid fx t z = true := L.trans t y z hw hwy hwz hi (L.symm z y hwz hwy hz)
          exact ⟨st, by simp [hi'], hc⟩
  | .builtin b, t, st, hw, hd, hc => by
    unfold specM
    cases hd with
    | builtin _ _ hi => exact ⟨st, by simp [hi], hc⟩
  | .varSeq, t, st, hw, hd, hc => by cases hd
  | .ptr e, t, st, hw, hd, hc => by
    unfold specM
    cases hd with
    | ptr _ _ a hu hd =>
      have hwa := L.w_ptr a (hu ▸ w_unaliasTarget L.toWClosed R t hw)
      rw [hu]
      exact specM_complete L σ hσW e a st hwa hd hc
  | .slice e, t, st, hw, hd, hc => by
    unfold specM
    cases hd with
    | slice _ _ a hu hd =>
      have hwa := L.w_slice a (hu ▸ w_unaliasTarget L.toWClosed R t hw)
      rw [hu]
      exact specM_complete L σ hσW e a st hwa hd hc
  | .arrayVar v e, t, st, hw, hd, hc => by
    unfold specM
    cases hd with
    | arrayWild _ _ n a hu hd =>
      have hwa := L.w_array n a (hu ▸ w_unaliasTarget L.toWClosed R t hw)
      rw [hu]
      simp only [beq_self_eq_true, if_true]
      exact specM_complete L σ hσW e a st hwa hd hc
    | arrayVar _ _ _ n a hu hl hd =>
      have hwa := L.w_array n a (hu ▸ w_unaliasTarget L.toWClosed R t hw)
      rw [hu]
      simp only
      split
      · exact specM_complete L σ hσW e a st hwa hd hc
      · split
        · rename_i len hlen
          have := hc.2 v len hlen
          rw [spec_lookupI] at hl
          rw [hl] at this
          cases this
          simp only [beq_self_eq_true, if_true]
          exact specM_complete L σ hσW e a st hwa hd hc
        · exact specM_complete L σ hσW e a _ hwa hd (compat_bindI hc hl)
  | .arrayLit len e, t, st, hw, hd, hc => by
    unfold specM
    cases hd with
    | arrayLit _ _ _ a hu hd =>
      have hwa := L.w_array len a (hu ▸ w_unaliasTarget L.toWClosed R t hw)
      rw [hu]
      simp only [beq_self_eq_true, if_true]
      exact specM_complete L σ hσW e a st hwa hd hc
  | .map pk pv, t, st, hw, hd, hc => by
    unfold specM
    cases hd with
    | map _ _ _ tk tv hu hd1 hd2 =>
      have hwkv := L.w_map tk tv (hu ▸ w_unaliasTarget L.toWClosed R t hw)
      rw [hu]
      exact (specM_complete L σ hσW pk tk st hwkv.1 hd1 hc).bind fun s hs =>
        specM_complete L σ hσW pv tv s hwkv.2 hd2 hs
  | .chan dir e, t, st, hw, hd, hc => by
    unfold specM
    cases hd with
    | chan _ _ _ a hu hd =>
      have hwa := L.w_chan dir a (hu ▸ w_unaliasTarget L.toWClosed R t hw)
      rw [hu]
      simp only [beq_self_eq_true, if_true]
      exact specM_complete L σ hσW e a st hwa hd hc
  | .named pkgPath typeName, t, st, hw, hd, hc => by
    unfold specM
    cases hd with
    | named _ _ _ u o path x l targs hu hs hi hl =>
      rw [hu]
      refine ⟨st, ?_, hc⟩
      have h1 : (!R.instDiffers || targs.isEmpty) = true := by
        cases hR : R.instDiffers
        · rfl
        · simp [hi hR]
      have h2 : (!R.localDiffers || !l) = true := by
        cases hR : R.localDiffers
        · rfl
        · simp [hl hR]
      simp [hs, h1, h2]
  | .funcNoSeq pps prs, t, st, hw, hd, hc => by
    unfold specM
    cases hd with
    | funcNoSeq _ _ _ v tps params results hu hv ht hd1 hd2 =>
      have hws := L.w_sig _ _ _ _ (hu ▸ w_unaliasTarget L.toWClosed R t hw)
      rw [hu]
      have h1 : (R.variadicDiffers && v || R.genericDiffers && !tps.isEmpty) = false := by
        cases hR1 : R.variadicDiffers <;> cases hR2 : R.genericDiffers <;> simp_all
      simp only [h1, Bool.false_eq_true, if_false]
      rw [tupleElems_eq] at hd1 hd2 ⊢
      rw [tupleElems_eq]
      exact (specSeq_complete L σ hσW pps _ st hws.1 hd1 hc).bind fun s hs =>
        specSeq_complete L σ hσW prs _ s hws.2 hd2 hs
  | .func pps prs, t, st, hw, hd, hc => by
    unfold specM
    cases hd with
    | func _ _ _ v tps params results hu hv ht hd1 hd2 =>
      have hws := L.w_sig _ _ _ _ (hu ▸ w_unaliasTarget L.toWClosed R t hw)
      rw [hu]
      have h1 : (R.variadicDiffers && v || R.genericDiffers && !tps.isEmpty) = false := by
        cases hR1 : R.variadicDiffers <;> cases hR2 : R.genericDiffers <;> simp_all
      simp only [h1, Bool.false_eq_true, if_false]
      rw [tupleElems_eq] at hd1 hd2 ⊢
      rw [tupleElems_eq]
      exact (specSeq_complete L σ hσW pps _ st hws.1 hd1 hc).bind fun s hs =>
        specSeq_complete L σ hσW prs _ s hws.2 hd2 hs
  | .structNoSeq subs, t, st, hw, hd, hc => by
    unfold specM
    cases hd with
    | structNoSeq _ _ fs hu hd =>
      have hws := L.w_struct fs (hu ▸ w_unaliasTarget L.toWClosed R t hw)
      rw [hu]
      simp only
      rw [fieldTypes_eq] at hd ⊢
      exact specSeq_complete L σ hσW subs _ st hws hd hc
  | .struct subs, t, st, hw, hd, hc => by
    unfold specM
    cases hd with
    | struct _ _ fs hu hd =>
      have hws := L.w_struct fs (hu ▸ w_unaliasTarget L.toWClosed R t hw)
      rw [hu]
      simp only
      rw [fieldTypes_eq] at hd ⊢
      exact specSeq_complete L σ hσW subs _ st hws hd hc
  | .anyIface, t, st, hw, hd, hc => by
    unfold specM
    cases hd with
    | anyIface _ a c ms es hu =>
      rw [hu]
      exact ⟨st, by simp, hc⟩
theorem specSeq_complete (L : IdLaws fx W) (σ : MState) (hσW : ValuesIn W σ) :
    ∀ (ps : List Pat) (ts : List Ty) (st : MState), (∀ e ∈ ts, W e) → DenotesSeq (tid fx) R σ ps ts →
      Compat fx W st σ → SpecComplete fx W σ (specSeq (tid fx) R st ps ts)
  | [], ts, st, hw, hd, hc => by
    cases hd
    unfold specSeq
    exact ⟨st, by simp, hc⟩
  | p :: ps, ts, st, hw, hd, hc => by
    cases hd with
    | run _ _ n hd =>
      unfold specSeq
      obtain ⟨s', hs', hc'⟩ := specSeq_complete L σ hσW ps _ st (fun e he => hw e (List.mem_of_mem_drop he)) hd hc
      exact ⟨s', List.mem_flatMap.mpr ⟨ts.drop n, (mem_suffixes ts _).mpr ⟨n, rfl⟩, hs'⟩, hc'⟩
    | cons _ _ t ts' hd1 hd2 =>
      have hne : p ≠ .varSeq := by rintro rfl; cases hd1
      have key : SpecComplete fx W σ ((specM (tid fx) R st p t).flatMap fun st' => specSeq (tid fx) R st' ps ts') :=
        (specM_complete L σ hσW p t st (hw t (by simp)) hd1 hc).bind fun s hs =>
          specSeq_complete L σ hσW ps ts' s (fun e he => hw e (by simp [he])) hd2 hs
      unfold specSeq
      cases p <;> first | (exact absurd rfl hne) | exact key
end

end

end TypeMatch
