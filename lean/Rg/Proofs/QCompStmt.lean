import Rg.Proofs.QSimExpr
/-!
# Facts about statement compilation that do not mention execution

`resolve`/size algebra, the locals table under `:=`, and `compS_ext`: compiling a statement only appends
to the constant pools and only adds entries to a well-formed locals table.
-/
namespace Q
open SpecC04 (Val Env lookup tagOf update leave)

/-! ### resolve / sizes -/
theorem ssize_append (a b : List SI) : ssize (a ++ b) = ssize a + ssize b := by
  induction a with
  | nil => simp [ssize]
  | cons x a ih => simp [ssize, ih]; omega

theorem resolve_append (a b : List SI) (d : Nat) : resolve (a ++ b) d = resolve a (d + ssize b) ++ resolve b d := by
  induction a with
  | nil => simp [resolve]
  | cons x a ih =>
    cases x with
    | i ins => simp [resolve, ih]
    | brk => simp [resolve, ih, ssize_append]; omega

theorem isize_resolve (xs : List SI) (d : Nat) : isize (resolve xs d) = ssize xs := by
  induction xs with
  | nil => rfl
  | cons x xs ih => cases x <;> simp [resolve, ssize, SI.width, ih]

theorem resolve_lift (is : List Instr) (d : Nat) : resolve (lift is) d = is := by
  induction is with
  | nil => rfl
  | cons i is ih => simp [lift, resolve] at ih ⊢; exact ih

theorem ssize_lift (is : List Instr) : ssize (lift is) = isize is := by
  induction is with
  | nil => rfl
  | cons i is ih => simp [lift, ssize, SI.width] at ih ⊢; exact ih

theorem mapGet_mapSet_new {m : List (Nat × Nat)} {k v : Nat} (h : mapGet m k = none) (x : Nat) :
    mapGet (mapSet m k v) x = if x = k then some v else mapGet m x := by
  have hany : m.any (·.1 == k) = false := by
    simp only [mapGet, Option.map_eq_none_iff, List.find?_eq_none] at h
    simp only [List.any_eq_false]
    intro p hp; exact h p hp
  simp only [mapSet, hany, Bool.false_eq_true, if_false, mapGet, List.find?_append]
  by_cases hx : x = k
  · subst hx
    have : List.find? (fun p => p.1 == x) m = none := by
      simpa [mapGet] using h
    simp [this]
  · cases hf : List.find? (fun p => p.1 == x) m with
    | some p => simp [hx]
    | none => simp [hx]; intro h'; exact absurd h'.symm hx

theorem mapSet_length_new {m : List (Nat × Nat)} {k v : Nat} (h : mapGet m k = none) :
    (mapSet m k v).length = m.length + 1 := by
  have hany : m.any (·.1 == k) = false := by
    simp only [mapGet, Option.map_eq_none_iff, List.find?_eq_none] at h
    simp only [List.any_eq_false]
    intro p hp; exact h p hp
  simp [mapSet, hany]

/-- statement compilation: pools grow by appending, the locals table only gains entries and stays well formed -/
structure SExt (fn : CFn) (cs cs' : SState) : Prop where
  consts : cs.consts <+: cs'.consts
  intConsts : cs.intConsts <+: cs'.intConsts
  locals : ∀ x i, mapGet cs.locals x = some i → mapGet cs'.locals x = some i
  wf : LocalsWF fn cs.locals → LocalsWF fn cs'.locals

theorem SExt.refl (fn : CFn) (cs : SState) : SExt fn cs cs :=
  ⟨List.prefix_refl _, List.prefix_refl _, fun _ _ h => h, id⟩

theorem SExt.trans {fn : CFn} {a b c : SState} (h1 : SExt fn a b) (h2 : SExt fn b c) : SExt fn a c :=
  ⟨h1.consts.trans h2.consts, h1.intConsts.trans h2.intConsts, fun x i h => h2.locals x i (h1.locals x i h),
   fun h => h2.wf (h1.wf h)⟩

theorem SExt.of_mono {fn : CFn} {a b : SState} (h : SMono a b) : SExt fn a b :=
  ⟨h.2.1, h.2.2, fun x i hx => by rw [h.1]; exact hx, fun hw => by rw [h.1]; exact hw⟩

theorem PoolOK.of_ext {fn : CFn} {cs cs' : SState} {f : CFunc} (h : SExt fn cs cs') (hp : PoolOK cs' f) : PoolOK cs f :=
  ⟨h.consts.trans hp.1, h.intConsts.trans hp.2⟩

theorem localsWF_define {fn : CFn} {l : List (Nat × Nat)} {x : Nat} (hw : LocalsWF fn l) (hn : mapGet l x = none)
    (hl : l.length ≠ 8) (hp : isParamName fn x = false) : LocalsWF fn (mapSet l x l.length) := by
  have hlen := mapSet_length_new (v := l.length) hn
  refine ⟨by have := hw.len; omega, ?_, ?_, ?_⟩
  · intro y i hy
    rw [mapGet_mapSet_new hn] at hy
    split at hy
    · simp at hy; omega
    · have := hw.lt y i hy; omega
  · intro y z i hy hz
    rw [mapGet_mapSet_new hn] at hy hz
    split at hy <;> split at hz
    · simp_all
    · simp at hy; have := hw.lt z i hz; omega
    · simp at hz; have := hw.lt y i hy; omega
    · exact hw.inj y z i hy hz
  · intro y i hy
    rw [mapGet_mapSet_new hn] at hy
    split at hy
    · rename_i h; rw [h]; exact hp
    · exact hw.noParam y i hy

theorem compTargets_ext {fx : Fixes} (hsh : fx.shadow = true) (fn : CFn) (define : Bool) :
    ∀ (lhs : List (Nat × Ty)) (cs : SState) (is : List Instr) (cs' : SState),
      compTargets fx fn define lhs cs = some (is, cs') → SExt fn cs cs' := by
  intro lhs
  induction lhs with
  | nil => intro cs is cs' h; simp [compTargets] at h; obtain ⟨_, rfl⟩ := h; exact SExt.refl _ _
  | cons t rest ih =>
    intro cs is cs' h
    obtain ⟨name, ty⟩ := t
    simp only [compTargets] at h
    cases define with
    | true =>
      simp only [if_true] at h
      split at h
      · simp at h
      · rename_i hnew
        split at h
        · simp at h
        · split at h
          · simp at h
          · rename_i hlen
            split at h
            · simp at h
            · rename_i hsp
              simp only [bind, Option.bind_eq_bind, Option.bind_eq_some_iff, Prod.exists, pure, Option.pure_def,
                Option.some.injEq, Prod.mk.injEq] at h
              obtain ⟨a, _, r, s2, hr, _, rfl⟩ := h
              have hn : mapGet cs.locals name = none := by
                cases hm : mapGet cs.locals name with
                | none => rfl
                | some _ => simp [hm] at hnew
              have hpn : isParamName fn name = false := by
                cases hq : isParamName fn name with
                | false => rfl
                | true => simp [hsh, hq] at hsp
              have hl8 : cs.locals.length ≠ 8 := by
                simpa [Opc.maxLocals] using hlen
              have e1 : SExt fn cs { cs with locals := mapSet cs.locals name cs.locals.length } := by
                refine ⟨List.prefix_refl _, List.prefix_refl _, ?_, ?_⟩
                · intro x i hx
                  show mapGet (mapSet cs.locals name cs.locals.length) x = some i
                  rw [mapGet_mapSet_new hn]
                  split
                  · rename_i hxe; subst hxe; rw [hn] at hx; simp at hx
                  · exact hx
                · intro hw
                  exact localsWF_define hw hn hl8 hpn
              exact e1.trans (ih _ _ _ hr)
    | false =>
      simp only [Bool.false_eq_true, if_false] at h
      split at h
      · simp at h
      · simp only [bind, Option.bind_eq_bind, Option.bind_eq_some_iff, Prod.exists, pure, Option.pure_def,
          Option.some.injEq, Prod.mk.injEq] at h
        obtain ⟨a, _, r, s2, hr, _, rfl⟩ := h
        exact ih _ _ _ hr

mutual
def Stmt.depth : Stmt → Nat
  | .ifThen _ b => b.depth + 1
  | .ifElse _ b e => max b.depth e.depth + 1
  | .ifInit i r => max i.depth r.depth + 1
  | .forCond _ b => b.depth + 1
  | .forEver b => b.depth + 1
  | .forClause _ _ _ i _ p b => max (max i.depth p.depth) b.depth + 1
  | .block ss => depthSL ss + 1
  | _ => 0
def depthSL : List Stmt → Nat
  | [] => 0
  | s :: ss => max s.depth (depthSL ss) + 1
end

macro "ucompS" " at " h:ident : tactic =>
  `(tactic| simp only [compS, compSs, bind, Option.bind_eq_bind, Option.bind_eq_some_iff, pure, Option.pure_def, Option.some.injEq,
      Prod.mk.injEq, Prod.exists] at $h:ident)

variable {fx : Fixes} (hfx : FxOK fx) (cenv : CEnv) (fn : CFn)
include hfx

theorem compS_ext_aux : ∀ k,
    (∀ s inLoop cs lu sis cs' lu', Stmt.depth s < k → compS fx cenv fn inLoop s cs lu = some (sis, cs', lu') → SExt fn cs cs') ∧
    (∀ ss inLoop cs lu sis cs' lu', depthSL ss < k → compSs fx cenv fn inLoop ss cs lu = some (sis, cs', lu') → SExt fn cs cs') := by
  intro k
  induction k with
  | zero => exact ⟨fun _ _ _ _ _ _ _ h => by omega, fun _ _ _ _ _ _ _ h => by omega⟩
  | succ k ih =>
    obtain ⟨ihS, ihB⟩ := ih
    refine ⟨?_, ?_⟩
    · intro s inLoop cs lu sis cs' lu' hd h
      cases s with
      | ret ty e =>
        simp only [compS] at h
        split at h
        · simp at h; obtain ⟨_, rfl, _⟩ := h; exact SExt.refl _ _
        · split at h
          · simp at h; obtain ⟨_, rfl, _⟩ := h; exact SExt.refl _ _
          · simp at h; obtain ⟨_, rfl, _⟩ := h; exact SExt.refl _ _
          · ucompS at h
            obtain ⟨ie, s1, he, _, rfl, _⟩ := h
            exact SExt.of_mono (compE_mono _ _ _ he)
      | retNone =>
        simp only [compS] at h
        split at h
        · simp at h; obtain ⟨_, rfl, _⟩ := h; exact SExt.refl _ _
        · simp at h
      | assign define lhs rhs =>
        ucompS at h
        obtain ⟨ie, s1, he, it, s2, ht, _, rfl, _⟩ := h
        exact (SExt.of_mono (compE_mono _ _ _ he)).trans (compTargets_ext hfx.shadow fn define _ _ _ _ ht)
      | assignBad => simp [compS] at h
      | assignOp op name ty rhs => simp [compS, hfx.assignOp] at h
      | incdec inc name =>
        simp only [compS] at h
        split at h
        · simp at h
        · ucompS at h; obtain ⟨_, _, _, rfl, _⟩ := h; exact SExt.refl _ _
      | incdecBad => simp [compS] at h
      | ifThen c body =>
        simp only [Stmt.depth] at hd
        ucompS at h
        obtain ⟨ic, s1, hc, ib, s2, lu2, hb, _, rfl, _⟩ := h
        exact (SExt.of_mono (compE_mono _ _ _ hc)).trans (ihS body _ _ _ _ _ _ (by omega) hb)
      | ifElse c body els =>
        simp only [Stmt.depth] at hd
        ucompS at h
        obtain ⟨ic, s1, hc, ib, s2, lu2, hb, ie, s3, lu3, he, _, rfl, _⟩ := h
        exact ((SExt.of_mono (compE_mono _ _ _ hc)).trans (ihS body _ _ _ _ _ _ (by omega) hb)).trans
          (ihS els _ _ _ _ _ _ (by omega) he)
      | ifInit i r => simp [compS, hfx.ifInit] at h
      | forCond c body =>
        simp only [Stmt.depth] at hd
        ucompS at h
        obtain ⟨ib, s1, lu1, hb, ic, s2, hc, _, rfl, _⟩ := h
        exact (ihS body _ _ _ _ _ _ (by omega) hb).trans (SExt.of_mono (compE_mono _ _ _ hc))
      | forEver body =>
        simp only [Stmt.depth] at hd
        ucompS at h
        obtain ⟨ib, s1, lu1, hb, _, rfl, _⟩ := h
        exact ihS body _ _ _ _ _ _ (by omega) hb
      | forClause hi hc hp i c p b =>
        simp only [compS, hfx.forClause] at h
        split at h <;> simp at h
      | brk =>
        simp only [compS] at h
        split at h
        · simp at h; obtain ⟨_, rfl, _⟩ := h; exact SExt.refl _ _
        · simp at h
      | exprCall e =>
        ucompS at h
        obtain ⟨ie, s1, he, _, rfl, _⟩ := h
        exact SExt.of_mono (compE_mono _ _ _ he)
      | exprBad => simp [compS] at h
      | block ss =>
        simp only [Stmt.depth] at hd
        simp only [compS] at h
        exact ihB ss _ _ _ _ _ _ (by omega) h
      | bad => simp [compS] at h
    · intro ss inLoop cs lu sis cs' lu' hd h
      cases ss with
      | nil => simp [compSs] at h; obtain ⟨_, rfl, _⟩ := h; exact SExt.refl _ _
      | cons s ss =>
        simp only [depthSL] at hd
        ucompS at h
        obtain ⟨i1, s1, lu1, h1, i2, s2, lu2, h2, _, rfl, _⟩ := h
        exact (ihS s _ _ _ _ _ _ (by omega) h1).trans (ihB ss _ _ _ _ _ _ (by omega) h2)

theorem compS_ext {s : Stmt} {inLoop cs lu sis cs' lu'} (h : compS fx cenv fn inLoop s cs lu = some (sis, cs', lu')) :
    SExt fn cs cs' := (compS_ext_aux hfx cenv fn (s.depth + 1)).1 s _ _ _ _ _ _ (by omega) h

theorem compSs_ext {ss : List Stmt} {inLoop cs lu sis cs' lu'} (h : compSs fx cenv fn inLoop ss cs lu = some (sis, cs', lu')) :
    SExt fn cs cs' := (compS_ext_aux hfx cenv fn (depthSL ss + 1)).2 ss _ _ _ _ _ _ (by omega) h

end Q
