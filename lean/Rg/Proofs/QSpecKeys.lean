import Rg.Spec.C04
/-! # The reference semantics only extends the variable list on the left (pure fact about `SpecC04`) -/
namespace SpecC04
open Q

def KeysExt (env env' : Env) : Prop := ∃ a b, env' = a ++ b ∧ b.map Prod.fst = env.map Prod.fst

theorem KeysExt.refl (env : Env) : KeysExt env env := ⟨[], env, rfl, rfl⟩

theorem KeysExt.trans {a b c : Env} (h1 : KeysExt a b) (h2 : KeysExt b c) : KeysExt a c := by
  obtain ⟨x1, y1, rfl, e1⟩ := h1
  obtain ⟨x2, y2, rfl, e2⟩ := h2
  -- y2 has the keys of x1 ++ y1: split it
  refine ⟨x2 ++ y2.take x1.length, y2.drop x1.length, by simp, ?_⟩
  have hl : y2.length = x1.length + y1.length := by
    have := congrArg List.length e2; simpa using this
  have : (y2.drop x1.length).map Prod.fst = (List.map Prod.fst (x1 ++ y1)).drop x1.length := by
    rw [← e2, List.map_drop]
  rw [this, ← e1]; simp

theorem update_keys : ∀ (env : Env) (x : Nat) (v : Val) (env' : Env), update env x v = some env' →
    env'.map Prod.fst = env.map Prod.fst
  | [], _, _, _, h => by simp [update] at h
  | (y, w) :: rest, x, v, env', h => by
    simp only [update] at h
    split at h
    · simp at h; subst h; rfl
    · cases hu : update rest x v with
      | none => simp [hu] at h
      | some r =>
        simp [hu] at h; subst h
        simp [update_keys rest x v r hu]

theorem KeysExt.of_same {env env' : Env} (h : env'.map Prod.fst = env.map Prod.fst) : KeysExt env env' :=
  ⟨[], env', rfl, h⟩

theorem assignAll_keys : ∀ (lhs : List (Nat × Ty)) (vs : List Val) (env env' : Env), assignAll lhs vs env = some env' →
    env'.map Prod.fst = env.map Prod.fst
  | [], [], env, env', h => by simp [assignAll] at h; subst h; rfl
  | [], _ :: _, _, _, h => by simp [assignAll] at h
  | _ :: _, [], _, _, h => by simp [assignAll] at h
  | (x, t) :: ls, v :: vs, env, env', h => by
    simp only [assignAll] at h
    split at h
    · cases hu : update env x v with
      | none => simp [hu] at h
      | some e1 =>
        simp [hu] at h
        rw [assignAll_keys ls vs e1 env' h, update_keys env x v e1 hu]
    · simp at h

theorem defineAll_keys : ∀ (lhs : List (Nat × Ty)) (vs : List Val) (env env' : Env), defineAll lhs vs env = some env' →
    KeysExt env env'
  | [], [], env, env', h => by simp [defineAll] at h; subst h; exact KeysExt.refl _
  | [], _ :: _, _, _, h => by simp [defineAll] at h
  | _ :: _, [], _, _, h => by simp [defineAll] at h
  | (x, t) :: ls, v :: vs, env, env', h => by
    simp only [defineAll] at h
    split at h
    · exact KeysExt.trans ⟨[(x, v)], env, rfl, rfl⟩ (defineAll_keys ls vs _ env' h)
    · simp at h

theorem leave_of_keysExt {env env' : Env} (h : KeysExt env env') :
    ∃ a, env' = a ++ leave env env' ∧ (leave env env').map Prod.fst = env.map Prod.fst := by
  obtain ⟨a, b, rfl, e⟩ := h
  have hl : b.length = env.length := by have := congrArg List.length e; simpa using this
  refine ⟨a, ?_, ?_⟩ <;> simp [leave, hl, e]

theorem keysExt_leave {env env' : Env} (h : KeysExt env env') : KeysExt env (leave env env') := by
  obtain ⟨a, _, e⟩ := leave_of_keysExt h
  exact KeysExt.of_same e

theorem Out.bind_eq_ok {α β} {x : Out α} {f : α → Out β} {b : β} (h : (x >>= f) = .ok b) :
    ∃ a, x = .ok a ∧ f a = .ok b := by
  cases x with
  | ok a => exact ⟨a, rfl, h⟩
  | _ => simp [bind, Out.bind] at h

theorem inScope_eq_ok {outer : Env} {r : Out (Flow × Env)} {fl : Flow} {env' : Env} (h : inScope outer r = .ok (fl, env')) :
    ∃ e1, r = .ok (fl, e1) ∧ env' = leave outer e1 := by
  cases r with
  | ok p => obtain ⟨f1, e1⟩ := p; simp [inScope] at h; obtain ⟨rfl, rfl⟩ := h; exact ⟨e1, rfl, rfl⟩
  | _ => simp [inScope] at h

theorem exec_keys (P : Prog) (vd : Bool) : ∀ n,
    (∀ env s fl env', execStmt P vd n env s = .ok (fl, env') → KeysExt env env') ∧
    (∀ env ss fl env', execBlock P vd n env ss = .ok (fl, env') → KeysExt env env') ∧
    (∀ env hc c post body fl env', loop P vd n env hc c post body = .ok (fl, env') → KeysExt env env') := by
  intro n
  induction n with
  | zero => refine ⟨?_, ?_, ?_⟩ <;> intros <;> simp_all [execStmt, execBlock, loop]
  | succ n ih =>
    obtain ⟨ihS, ihB, ihL⟩ := ih
    refine ⟨?_, ?_, ?_⟩
    · intro env s fl env' h
      cases s with
      | ret ty e =>
        simp only [execStmt] at h
        split at h
        · simp at h
        obtain ⟨v, _, h⟩ := Out.bind_eq_ok h
        split at h <;> simp at h
        obtain ⟨_, rfl⟩ := h; exact KeysExt.refl _
      | retNone => simp only [execStmt] at h; split at h <;> simp [pure] at h; obtain ⟨_, rfl⟩ := h; exact KeysExt.refl _
      | assign define lhs rhs =>
        simp only [execStmt] at h
        obtain ⟨vs, _, h⟩ := Out.bind_eq_ok h
        cases define with
        | true =>
          simp only [if_true] at h
          cases hd : defineAll lhs vs env with
          | none => simp [hd] at h
          | some e1 => simp [hd, pure] at h; obtain ⟨_, rfl⟩ := h; exact defineAll_keys _ _ _ _ hd
        | false =>
          simp only [Bool.false_eq_true, if_false] at h
          cases hd : assignAll lhs vs env with
          | none => simp [hd] at h
          | some e1 => simp [hd, pure] at h; obtain ⟨_, rfl⟩ := h; exact KeysExt.of_same (assignAll_keys _ _ _ _ hd)
      | assignBad => simp [execStmt] at h
      | assignOp op x ty rhs =>
        simp only [execStmt] at h
        obtain ⟨b, _, h⟩ := Out.bind_eq_ok h
        split at h
        · simp at h
        · split at h
          · simp at h
          · split at h
            · simp at h
            · obtain ⟨v, _, h⟩ := Out.bind_eq_ok h
              cases hu : update env x v with
              | none => simp [hu] at h
              | some e1 => simp [hu, pure] at h; obtain ⟨_, rfl⟩ := h; exact KeysExt.of_same (update_keys _ _ _ _ hu)
      | incdec inc x =>
        simp only [execStmt] at h
        split at h
        · rename_i i _
          cases hu : update env x (Val.int (if inc = true then i + 1 else i - 1)) with
          | none => simp [hu] at h
          | some e1 => simp [hu, pure] at h; obtain ⟨_, rfl⟩ := h; exact KeysExt.of_same (update_keys _ _ _ _ hu)
        · simp at h
      | incdecBad => simp [execStmt] at h
      | ifThen c body =>
        simp only [execStmt] at h
        obtain ⟨v, _, h⟩ := Out.bind_eq_ok h
        split at h
        · obtain ⟨e1, h1, rfl⟩ := inScope_eq_ok h; exact keysExt_leave (ihS _ _ _ _ h1)
        · simp at h; obtain ⟨_, rfl⟩ := h; exact KeysExt.refl _
        · simp at h
      | ifElse c body els =>
        simp only [execStmt] at h
        obtain ⟨v, _, h⟩ := Out.bind_eq_ok h
        split at h
        · obtain ⟨e1, h1, rfl⟩ := inScope_eq_ok h; exact keysExt_leave (ihS _ _ _ _ h1)
        · obtain ⟨e1, h1, rfl⟩ := inScope_eq_ok h; exact keysExt_leave (ihS _ _ _ _ h1)
        · simp at h
      | ifInit i r =>
        simp only [execStmt] at h
        obtain ⟨⟨f1, e1⟩, h1, h⟩ := Out.bind_eq_ok h
        split at h
        · rename_i heq
          simp at heq
          obtain ⟨⟨f2, e2⟩, h2, h⟩ := Out.bind_eq_ok h
          simp at h
          obtain ⟨_, rfl⟩ := h
          obtain ⟨rfl, rfl⟩ := heq
          exact keysExt_leave ((ihS _ _ _ _ h1).trans (ihS _ _ _ _ h2))
        · simp at h
      | forCond c body => simp only [execStmt] at h; exact ihL _ _ _ _ _ _ _ h
      | forEver body => simp only [execStmt] at h; exact ihL _ _ _ _ _ _ _ h
      | forClause hi hc hp i c p b =>
        simp only [execStmt] at h
        obtain ⟨⟨f1, e1⟩, h1, h⟩ := Out.bind_eq_ok h
        have k1 : KeysExt env e1 ∨ f1 ≠ .next := by
          cases hi with
          | true => simp at h1; exact Or.inl (ihS _ _ _ _ h1)
          | false => simp [pure] at h1; obtain ⟨_, rfl⟩ := h1; exact Or.inl (KeysExt.refl _)
        split at h
        · rename_i heq
          simp at heq
          obtain ⟨rfl, rfl⟩ := heq
          obtain ⟨⟨f2, e2⟩, h2, h⟩ := Out.bind_eq_ok h
          simp at h
          obtain ⟨_, rfl⟩ := h
          rcases k1 with k1 | k1
          · exact keysExt_leave (k1.trans (ihL _ _ _ _ _ _ _ h2))
          · exact absurd rfl k1
        · simp at h
      | brk => simp [execStmt] at h; obtain ⟨_, rfl⟩ := h; exact KeysExt.refl _
      | exprCall e =>
        simp only [execStmt] at h
        split at h
        · obtain ⟨vs, _, h⟩ := Out.bind_eq_ok h
          split at h <;> simp at h
          obtain ⟨_, rfl⟩ := h; exact KeysExt.refl _
        · simp at h
      | exprBad => simp [execStmt] at h
      | block ss =>
        simp only [execStmt] at h
        obtain ⟨⟨f1, e1⟩, h1, h⟩ := Out.bind_eq_ok h
        simp at h
        obtain ⟨_, rfl⟩ := h
        exact keysExt_leave (ihB _ _ _ _ h1)
      | bad => simp [execStmt] at h
    · intro env ss fl env' h
      cases ss with
      | nil => simp [execBlock] at h; obtain ⟨_, rfl⟩ := h; exact KeysExt.refl _
      | cons s ss =>
        simp only [execBlock] at h
        obtain ⟨⟨f1, e1⟩, h1, h⟩ := Out.bind_eq_ok h
        split at h
        · rename_i heq; simp at heq; obtain ⟨rfl, rfl⟩ := heq
          exact (ihS _ _ _ _ h1).trans (ihB _ _ _ _ h)
        · simp at h; obtain ⟨rfl, rfl⟩ := h; exact ihS _ _ _ _ h1
    · intro env hc c post body fl env' h
      simp only [loop] at h
      obtain ⟨go, _, h⟩ := Out.bind_eq_ok h
      split at h
      · simp at h; obtain ⟨_, rfl⟩ := h; exact KeysExt.refl _
      · obtain ⟨⟨f1, e1⟩, h1, h⟩ := Out.bind_eq_ok h
        obtain ⟨e0, h0, rfl⟩ := inScope_eq_ok h1
        have k1 := keysExt_leave (ihS _ _ _ _ h0)
        split at h
        · rename_i heq; simp at heq; obtain ⟨rfl, rfl⟩ := heq
          simp at h; obtain ⟨_, rfl⟩ := h; exact k1
        · rename_i heq; simp at heq; obtain ⟨rfl, rfl⟩ := heq
          simp at h; obtain ⟨_, rfl⟩ := h; exact k1
        · rename_i heq; simp at heq; obtain ⟨rfl, rfl⟩ := heq
          obtain ⟨⟨f2, e2⟩, h2, h⟩ := Out.bind_eq_ok h
          split at h
          · rename_i heq2; simp at heq2; obtain ⟨rfl, rfl⟩ := heq2
            exact (k1.trans (ihS _ _ _ _ h2)).trans (ihL _ _ _ _ _ _ _ h)
          · simp at h

end SpecC04
