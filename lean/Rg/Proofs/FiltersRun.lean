import Rg.Proofs.FiltersDispatch
/-! Report sets of a run (`runRule`) when no match makes the filter panic. -/
namespace FIR

theorem runFrom_ok (f : Flt) : ∀ (ms : List Ctx) (i : Nat), (∀ c ∈ ms, ∃ b, evalFlt c f = .ok b) →
    (runFrom f i ms).2 = none ∧
    ∀ j, j ∈ (runFrom f i ms).1 ↔ ∃ k, ∃ h : k < ms.length, j = i + k ∧ evalFlt ms[k] f = .ok true := by
  intro ms
  induction ms with
  | nil => intro i _; simp [runFrom]
  | cons c cs ih =>
    intro i h
    obtain ⟨b, hb⟩ := h c (List.mem_cons_self)
    have ih' := ih (i + 1) (fun c' hc' => h c' (List.mem_cons_of_mem _ hc'))
    cases b with
    | true =>
      simp only [runFrom, hb]
      refine ⟨ih'.1, fun j => ?_⟩
      simp only [List.mem_cons, ih'.2 j]
      constructor
      · rintro (rfl | ⟨k, hk, rfl, he⟩)
        · exact ⟨0, by simp, by simp, by simpa using hb⟩
        · exact ⟨k + 1, by simp; omega, by omega, by simpa using he⟩
      · rintro ⟨k, hk, rfl, he⟩
        cases k with
        | zero => left; rfl
        | succ k => right; exact ⟨k, by simp at hk; omega, by omega, by simpa using he⟩
    | false =>
      simp only [runFrom, hb]
      refine ⟨ih'.1, fun j => ?_⟩
      rw [ih'.2 j]
      constructor
      · rintro ⟨k, hk, rfl, he⟩
        exact ⟨k + 1, by simp; omega, by omega, by simpa using he⟩
      · rintro ⟨k, hk, rfl, he⟩
        cases k with
        | zero => simp [hb] at he
        | succ k => exact ⟨k, by simp at hk; omega, by omega, by simpa using he⟩

/-- the reports of a run that no match makes panic are exactly the accepted matches -/
theorem mem_runRule {f : Flt} {ms : List Ctx} (h : ∀ c ∈ ms, ∃ b, evalFlt c f = .ok b) (j : Nat) :
    j ∈ (runRule f ms).1 ↔ ∃ hj : j < ms.length, evalFlt ms[j] f = .ok true := by
  rw [runRule, (runFrom_ok f ms 0 h).2 j]
  constructor
  · rintro ⟨k, hk, rfl, he⟩; exact ⟨by omega, by simpa using he⟩
  · rintro ⟨hj, he⟩; exact ⟨j, hj, by omega, he⟩

theorem runRule_no_panic {f : Flt} {ms : List Ctx} (h : ∀ c ∈ ms, ∃ b, evalFlt c f = .ok b) :
    (runRule f ms).2 = none := (runFrom_ok f ms 0 h).1

/-- a panic at some match ends the run: nothing after it is reported -/
theorem runFrom_panic (f : Flt) (c : Ctx) (cs : List Ctx) (i : Nat) (p : Panic) (h : evalFlt c f = .panic p) :
    runFrom f i (c :: cs) = ([], some p) := by
  simp [runFrom, h]

end FIR
