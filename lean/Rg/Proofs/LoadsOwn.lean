import Rg.Proofs.LoadsSpec
/-! The repaired loader binds a rule's `Do` / `Filter` names to functions of the rule's own file only (C13,
`verif/fixes/c13-own-funcs.diff`): what a successful load holds, and what a foreign name does. -/
namespace LoadM
open SpecC13

/-! ### the functions the declaration loop has compiled -/

theorem compileFuncs_funcs : ∀ (ds : List FuncDecl) (env env' : Env), compileFuncs env ds = (env', .ok ()) →
    ∀ i d, ds[i]? = some d → ∃ cid, env'.funcs[env.funcs.length + i]? = some ⟨d.kind, d.tag, d.lit, cid⟩
  | [], env, env', _, i, d, hd => by simp at hd
  | d0 :: ds, env, env', h, i, d, hd => by
    -- the function registered for d0
    have key : ∃ cid, compileFuncs (env.addFunc (gorules, d0.name) ⟨d0.kind, d0.tag, d0.lit, cid⟩) ds = (env', .ok ()) := by
      unfold compileFuncs at h
      split at h
      · simp at h
      · split at h
        · exact ⟨none, h⟩
        · split at h
          · simp at h
          · rename_i idc _
            exact ⟨some idc, h⟩
    obtain ⟨cid, hrest⟩ := key
    cases i with
    | zero =>
      simp only [List.getElem?_cons_zero, Option.some.injEq] at hd
      subst hd
      have hx := compileFuncs_ext ds (env.addFunc (gorules, d0.name) ⟨d0.kind, d0.tag, d0.lit, cid⟩)
      rw [hrest] at hx
      obtain ⟨more, hm⟩ := hx.1
      refine ⟨cid, ?_⟩
      rw [hm]
      show ((env.funcs ++ [_]) ++ more)[env.funcs.length + 0]? = _
      rw [List.append_assoc, Nat.add_zero, List.getElem?_append_right (Nat.le_refl _)]
      simp
    | succ j =>
      simp only [List.getElem?_cons_succ] at hd
      obtain ⟨c, hc⟩ := compileFuncs_funcs ds _ env' hrest j d hd
      refine ⟨c, ?_⟩
      have : (env.addFunc (gorules, d0.name) ⟨d0.kind, d0.tag, d0.lit, cid⟩).funcs.length + j = env.funcs.length + (j + 1) := by
        simp [Env.addFunc]; omega
      rw [← this]; exact hc

theorem ownLookup_customFuncs_none {ds : List FuncDecl} {base n : Nat} :
    ownLookup (customFuncs base ds) n = none ↔ ∀ d ∈ ds, d.name ≠ n := by
  constructor
  · intro h d hd hn
    obtain ⟨id, hid⟩ := customFuncs_lookup_some ds base d hd
    rw [hn, h] at hid; cases hid
  · intro h
    cases hl : ownLookup (customFuncs base ds) n with
    | none => rfl
    | some id =>
      obtain ⟨i, d, h1, h2⟩ := customFuncs_mem ds base _ (ownLookup_mem hl)
      exact absurd (Prod.mk.inj h2).1.symm (h d (List.mem_of_getElem? h1))

/-! ### one rule -/

theorem getFuncOpt_true_cases (env : Env) (own : List (Nat × Nat)) (pkg : Nat) (o : Option Nat) :
    (∃ x, getFuncOpt true env own pkg o = .ok x ∧ ∀ id, x = some id → ∃ n, o = some n ∧ ownLookup own n = some id) ∨
    (getFuncOpt true env own pkg o = .err .nofunc ∧ ∃ n, o = some n ∧ ownLookup own n = none) := by
  cases o with
  | none => left; exact ⟨none, rfl, fun id h => (by cases h)⟩
  | some n =>
    cases hl : ownLookup own n with
    | some id =>
      left
      refine ⟨some id, by simp [getFuncOpt, ownFunc, hl], ?_⟩
      intro id' h; cases h; exact ⟨n, rfl, hl⟩
    | none =>
      right
      exact ⟨by simp [getFuncOpt, ownFunc, hl], n, rfl, hl⟩

/-- the rule names a function that is not in the file's own table -/
def Foreign (own : List (Nat × Nat)) (r : RuleDecl) : Prop :=
  ∃ n, (r.doFn = some n ∨ r.filtFn = some n) ∧ ownLookup own n = none

/-- a rule naming a function its file does not declare is refused with "can't find a compiled version of …",
whatever the engine-wide table `env` holds -/
theorem loadRule_foreign {env : Env} {own : List (Nat × Nat)} {pkg : Nat} {g : Nat × Nat} {r : RuleDecl}
    (h : Foreign own r) : loadRule true env own pkg g r = .err .nofunc := by
  obtain ⟨n, hn, hl⟩ := h
  unfold loadRule
  rcases getFuncOpt_true_cases env own pkg r.doFn with ⟨d, hd, hdo⟩ | ⟨hd, _⟩
  · rw [hd]
    simp only
    rcases getFuncOpt_true_cases env own pkg r.filtFn with ⟨f, hf, hfo⟩ | ⟨hf, _⟩
    · exfalso
      rcases hn with hn | hn
      · rw [hn] at hd
        simp [getFuncOpt, ownFunc, hl] at hd
      · rw [hn] at hf
        simp [getFuncOpt, ownFunc, hl] at hf
    · rw [hf]
  · rw [hd]

/-- what a rule the repaired loader accepted holds -/
def Resolved (own : List (Nat × Nat)) (g : Nat × Nat) (rd : RuleDecl) (x : Rule) : Prop :=
  x.shape = declShape g rd ∧
  (∀ id, x.doFn = some id → ∃ n, rd.doFn = some n ∧ ownLookup own n = some id) ∧
  (∀ id, x.filtFn = some id → ∃ n, rd.filtFn = some n ∧ ownLookup own n = some id)

theorem loadRule_resolved {env : Env} {own : List (Nat × Nat)} {pkg : Nat} {g : Nat × Nat} {r : RuleDecl} {x : Rule}
    (h : loadRule true env own pkg g r = .ok x) : Resolved own g r x := by
  refine ⟨loadRule_shape h, ?_⟩
  unfold loadRule at h
  rcases getFuncOpt_true_cases env own pkg r.doFn with ⟨d, hd, hdo⟩ | ⟨hd, _⟩
  · rw [hd] at h
    simp only at h
    rcases getFuncOpt_true_cases env own pkg r.filtFn with ⟨f, hf, hfo⟩ | ⟨hf, _⟩
    · rw [hf] at h
      simp only at h
      split at h
      · cases h
      · cases h
        exact ⟨hdo, hfo⟩
    · rw [hf] at h; cases h
  · rw [hd] at h; cases h

/-- without a rule whose pattern does not load, the only way a rule list fails is a foreign name -/
theorem loadRule_err_nofunc {env : Env} {own : List (Nat × Nat)} {pkg : Nat} {g : Nat × Nat} {r : RuleDecl} {e : LoadErr}
    (hbad : r.bad = false) (h : loadRule true env own pkg g r = .err e) : e = .nofunc := by
  unfold loadRule at h
  rcases getFuncOpt_true_cases env own pkg r.doFn with ⟨d, hd, _⟩ | ⟨hd, _⟩
  · rw [hd] at h
    simp only at h
    rcases getFuncOpt_true_cases env own pkg r.filtFn with ⟨f, hf, _⟩ | ⟨hf, _⟩
    · rw [hf] at h
      simp [hbad] at h
    · rw [hf] at h; cases h; rfl
  · rw [hd] at h; cases h; rfl

/-! ### rule lists, groups -/

theorem loadRules_resolved {env : Env} {own : List (Nat × Nat)} {pkg : Nat} {g : Nat × Nat} :
    ∀ {rs : List RuleDecl} {xs : List Rule}, loadRules true env own pkg g rs = .ok xs →
      (∀ r ∈ rs, ¬ Foreign own r) ∧ ∀ x ∈ xs, ∃ rd ∈ rs, Resolved own g rd x
  | [], xs, h => by
    simp [loadRules] at h; subst h
    exact ⟨fun r hr => (by cases hr), fun x hx => (by cases hx)⟩
  | r :: rs, xs, h => by
    unfold loadRules at h
    split at h <;> try cases h
    rename_i x hx
    split at h
    · rename_i ys hys
      cases h
      obtain ⟨ih1, ih2⟩ := loadRules_resolved hys
      refine ⟨?_, ?_⟩
      · intro q hq
        rcases List.mem_cons.1 hq with rfl | hq
        · intro hf; rw [loadRule_foreign hf] at hx; cases hx
        · exact ih1 q hq
      · intro y hy
        rcases List.mem_cons.1 hy with rfl | hy
        · exact ⟨r, List.mem_cons_self .., loadRule_resolved hx⟩
        · obtain ⟨rd, hrd, hres⟩ := ih2 y hy
          exact ⟨rd, List.mem_cons_of_mem _ hrd, hres⟩
    · rename_i o hne
      cases o <;> simp_all

theorem loadRules_err_nofunc {env : Env} {own : List (Nat × Nat)} {pkg : Nat} {g : Nat × Nat} :
    ∀ {rs : List RuleDecl} {e : LoadErr}, (∀ r ∈ rs, r.bad = false) → loadRules true env own pkg g rs = .err e →
      e = .nofunc
  | [], e, _, h => by simp [loadRules] at h
  | r :: rs, e, hb, h => by
    unfold loadRules at h
    split at h
    · cases h
    · rename_i e' he
      cases h
      exact loadRule_err_nofunc (hb r (List.mem_cons_self ..)) he
    · split at h
      · cases h
      · exact loadRules_err_nofunc (fun q hq => hb q (List.mem_cons_of_mem _ hq)) h

theorem loadRules_foreign_not_ok {env : Env} {own : List (Nat × Nat)} {pkg : Nat} {g : Nat × Nat}
    {rs : List RuleDecl} {xs : List Rule} {r : RuleDecl} (hr : r ∈ rs) (hf : Foreign own r) :
    loadRules true env own pkg g rs ≠ .ok xs :=
  fun h => (loadRules_resolved h).1 r hr hf

/-- what `loadGroups` adds to a rule set: for every accepted group, its rules resolved in `own` -/
theorem loadGroups_resolved {env : Env} {own : List (Nat × Nat)} {pkg pfx file : Nat} {rejected : List (Nat × Nat)} :
    ∀ {gs : List GroupDecl} {res res' : RuleSet}, loadGroups true env own pkg pfx file rejected res gs = .ok res' →
      (∀ g ∈ acceptedDecls pfx rejected gs, ∀ r ∈ g.rules, ¬ Foreign own r) ∧
      ∀ x ∈ res'.rules, x ∈ res.rules ∨
        ∃ g ∈ acceptedDecls pfx rejected gs, ∃ rd ∈ g.rules, Resolved own (pfx, g.name) rd x
  | [], res, res', h => by
    simp [loadGroups] at h; subst h
    exact ⟨fun g hg => (by simp [acceptedDecls] at hg), fun x hx => Or.inl hx⟩
  | g :: gs, res, res', h => by
    unfold loadGroups at h
    split at h
    · rename_i r1 h1
      obtain ⟨ih1, ih2⟩ := loadGroups_resolved h
      unfold loadGroup at h1
      simp only at h1
      split at h1
      · rename_i hrej
        cases h1
        have hrej' : rejected.contains (pfx, g.name) = true := by simpa using hrej
        rw [acceptedDecls_cons_rej hrej']
        exact ⟨ih1, ih2⟩
      · rename_i hrej
        have hrej' : rejected.contains (pfx, g.name) = false := by simpa using hrej
        rw [acceptedDecls_cons_acc hrej']
        split at h1
        · simp at h1
        · split at h1 <;> try cases h1
          rename_i rs hrs
          obtain ⟨l1, l2⟩ := loadRules_resolved hrs
          refine ⟨?_, ?_⟩
          · intro g' hg'
            rcases List.mem_cons.1 hg' with rfl | hg'
            · exact l1
            · exact ih1 g' hg'
          · intro x hx
            rcases ih2 x hx with hx | ⟨g', hg', rd, hrd, hres⟩
            · simp only [List.mem_append] at hx
              rcases hx with hx | hx
              · exact Or.inl hx
              · obtain ⟨rd, hrd, hres⟩ := l2 x hx
                exact Or.inr ⟨g, List.mem_cons_self .., rd, hrd, hres⟩
            · exact Or.inr ⟨g', List.mem_cons_of_mem _ hg', rd, hrd, hres⟩
    · rename_i o hne
      cases o <;> simp_all

/-- with no unloadable rule among the accepted groups, `loadGroups` fails only on a foreign name or a repeated group -/
theorem loadGroups_err {env : Env} {own : List (Nat × Nat)} {pkg pfx file : Nat} {rejected : List (Nat × Nat)} :
    ∀ {gs : List GroupDecl} {res : RuleSet} {e : LoadErr},
      (∀ g ∈ acceptedDecls pfx rejected gs, ∀ r ∈ g.rules, r.bad = false) →
      loadGroups true env own pkg pfx file rejected res gs = .err e → e = .nofunc ∨ e = .redef
  | [], res, e, _, h => by simp [loadGroups] at h
  | g :: gs, res, e, hb, h => by
    unfold loadGroups at h
    split at h
    · rename_i r1 h1
      refine loadGroups_err ?_ h
      intro g' hg'
      by_cases hrej : rejected.contains (pfx, g.name) = true
      · rw [acceptedDecls_cons_rej hrej] at hb; exact hb g' hg'
      · have hrej' : rejected.contains (pfx, g.name) = false := by simpa using hrej
        rw [acceptedDecls_cons_acc hrej'] at hb; exact hb g' (List.mem_cons_of_mem _ hg')
    · unfold loadGroup at h
      simp only at h
      split at h
      · cases h
      · rename_i hrej
        have hrej' : rejected.contains (pfx, g.name) = false := by simpa using hrej
        rw [acceptedDecls_cons_acc hrej'] at hb
        split at h
        · simp at h; exact Or.inr h.symm
        · split at h
          · cases h
          · rename_i e' he
            cases h
            exact Or.inl (loadRules_err_nofunc (hb g (List.mem_cons_self ..)) he)
          · cases h

/-! ### units -/

/-- `id` is the function compiled from the declaration of `n` in unit `u`: the `i`-th declaration of the unit,
compiled when the engine held `base + i` functions -/
def OwnId (env' : Env) (base : Nat) (u : FileUnit) (n id : Nat) : Prop :=
  ∃ i d, u.funcs[i]? = some d ∧ d.name = n ∧ id = base + i ∧
    ∃ cid, env'.funcs[id]? = some ⟨d.kind, d.tag, d.lit, cid⟩

/-- rule `x` was loaded from a rule of an accepted group of unit `u`, and every function it holds was compiled from
the declaration, in `u`, of the name that rule gives -/
def RuleFrom (env' : Env) (base pfx : Nat) (rejected : List (Nat × Nat)) (u : FileUnit) (x : Rule) : Prop :=
  ∃ g ∈ acceptedDecls pfx rejected u.groups, ∃ rd ∈ g.rules, x.shape = declShape (pfx, g.name) rd ∧
    (∀ id, x.doFn = some id → ∃ n, rd.doFn = some n ∧ OwnId env' base u n id) ∧
    (∀ id, x.filtFn = some id → ∃ n, rd.filtFn = some n ∧ OwnId env' base u n id)

/-- some rule of a group the filter accepts names a function the unit does not declare -/
def UnitForeign (pfx : Nat) (rejected : List (Nat × Nat)) (u : FileUnit) : Prop :=
  ∃ g ∈ acceptedDecls pfx rejected u.groups, ∃ r ∈ g.rules, ∃ n, (r.doFn = some n ∨ r.filtFn = some n) ∧
    ∀ d ∈ u.funcs, d.name ≠ n

theorem funcs_ext {env env' : Env} (hx : Ext env env') {id : Nat} {f : Func} (h : env.funcs[id]? = some f) :
    env'.funcs[id]? = some f := by
  obtain ⟨more, hm⟩ := hx.1
  have hid : id < env.funcs.length := by
    rcases Nat.lt_or_ge id env.funcs.length with h' | h'
    · exact h'
    · rw [List.getElem?_eq_none h'] at h; cases h
  rw [hm, List.getElem?_append_left hid]; exact h

theorem OwnId.ext {env env' : Env} (hx : Ext env env') {base : Nat} {u : FileUnit} {n id : Nat}
    (h : OwnId env base u n id) : OwnId env' base u n id := by
  obtain ⟨i, d, h1, h2, h3, cid, h4⟩ := h
  exact ⟨i, d, h1, h2, h3, cid, funcs_ext hx h4⟩

theorem RuleFrom.ext {env env' : Env} (hx : Ext env env') {base pfx : Nat} {rejected : List (Nat × Nat)}
    {u : FileUnit} {x : Rule} (h : RuleFrom env base pfx rejected u x) : RuleFrom env' base pfx rejected u x := by
  obtain ⟨g, hg, rd, hrd, hs, hd, hf⟩ := h
  refine ⟨g, hg, rd, hrd, hs, ?_, ?_⟩
  · intro id hid
    obtain ⟨n, h1, h2⟩ := hd id hid
    exact ⟨n, h1, h2.ext hx⟩
  · intro id hid
    obtain ⟨n, h1, h2⟩ := hf id hid
    exact ⟨n, h1, h2.ext hx⟩

theorem loadUnit_own {env env' : Env} {pkg pfx : Nat} {rejected : List (Nat × Nat)} {u : FileUnit} {rs : RuleSet}
    (h : loadUnit true env pkg pfx rejected u = (env', .ok rs)) :
    ¬ UnitForeign pfx rejected u ∧ ∀ x ∈ rs.rules, RuleFrom env' env.funcs.length pfx rejected u x := by
  unfold loadUnit at h
  split at h
  · rename_i e1 hc
    simp only [Prod.mk.injEq] at h
    obtain ⟨rfl, hg⟩ := h
    unfold compileFilterFuncs at hc
    split at hc
    · simp at hc
    · simp only [if_true] at hc
      have hown : ownOf true env u = customFuncs env.funcs.length u.funcs := by simp [ownOf]
      rw [hown] at hg
      obtain ⟨l1, l2⟩ := loadGroups_resolved hg
      have hfun := compileFuncs_funcs _ _ _ hc
      simp only [Env.forget] at hfun
      have conv : ∀ n id, ownLookup (customFuncs env.funcs.length u.funcs) n = some id →
          OwnId e1 env.funcs.length u n id := by
        intro n id hl
        obtain ⟨i, d, h1, h2⟩ := customFuncs_mem _ _ _ (ownLookup_mem hl)
        obtain ⟨cid, hcid⟩ := hfun i d h1
        have e1' := (Prod.mk.inj h2).1
        have e2' := (Prod.mk.inj h2).2
        exact ⟨i, d, h1, e1'.symm, e2', cid, by rw [e2']; exact hcid⟩
      refine ⟨?_, ?_⟩
      · rintro ⟨g, hg', r, hr, n, hn, hnd⟩
        exact l1 g hg' r hr ⟨n, hn, ownLookup_customFuncs_none.2 hnd⟩
      · intro x hx
        rcases l2 x hx with hx0 | ⟨g, hg', rd, hrd, hs, hd, hf⟩
        · cases hx0
        · refine ⟨g, hg', rd, hrd, hs, ?_, ?_⟩
          · intro id hid
            obtain ⟨n, h1, h2⟩ := hd id hid
            exact ⟨n, h1, conv n id h2⟩
          · intro id hid
            obtain ⟨n, h1, h2⟩ := hf id hid
            exact ⟨n, h1, conv n id h2⟩
  · simp at h
  · simp at h

/-! ### bundles, files -/

theorem loadBundleFiles_own {pfx : Nat} {rejected : List (Nat × Nat)} : ∀ {us : List FileUnit} {env env' : Env}
    {rss : List RuleSet}, loadBundleFiles true env pfx rejected us = (env', .ok rss) →
    (∀ u ∈ us, ¬ UnitForeign pfx rejected u) ∧
    ∀ x ∈ rss.flatMap (·.rules), ∃ u ∈ us, ∃ base, env.funcs.length ≤ base ∧ RuleFrom env' base pfx rejected u x
  | [], env, env', rss, h => by
    simp [loadBundleFiles] at h; obtain ⟨_, rfl⟩ := h
    exact ⟨fun u hu => (by cases hu), fun x hx => (by simp at hx)⟩
  | u :: us, env, env', rss, h => by
    unfold loadBundleFiles at h
    split at h
    · simp at h
    · split at h
      · rename_i e1 rs h1
        have hx1 := loadUnit_ext true env gorules pfx rejected u
        rw [h1] at hx1
        have hx := loadBundleFiles_ext true pfx rejected us e1
        split at h
        · rename_i e2 rss' h2
          simp only [Prod.mk.injEq, Out.ok.injEq] at h
          obtain ⟨rfl, rfl⟩ := h
          rw [h2] at hx
          obtain ⟨u1, u2⟩ := loadUnit_own h1
          obtain ⟨ih1, ih2⟩ := loadBundleFiles_own h2
          refine ⟨?_, ?_⟩
          · intro v hv
            rcases List.mem_cons.1 hv with rfl | hv
            · exact u1
            · exact ih1 v hv
          · intro x hxm
            simp only [List.flatMap_cons, List.mem_append] at hxm
            rcases hxm with hxm | hxm
            · exact ⟨u, List.mem_cons_self .., env.funcs.length, Nat.le_refl _, (u2 x hxm).ext hx⟩
            · obtain ⟨v, hv, base, hb, hr⟩ := ih2 x hxm
              exact ⟨v, List.mem_cons_of_mem _ hv, base, Nat.le_trans hx1.len_le hb, hr⟩
        · rename_i o hne
          rcases o with ⟨e3, o3⟩
          cases o3 <;> simp_all
      · simp at h
      · simp at h

theorem loadBundles_own {rejected : List (Nat × Nat)} : ∀ {bs : List BundleDecl} {env env' : Env}
    {imported : List RuleSet}, loadBundles true env rejected bs = (env', .ok imported) →
    (∀ b ∈ bs, ∀ u ∈ b.files, ¬ UnitForeign b.pfx rejected u) ∧
    ∀ x ∈ imported.flatMap (·.rules), ∃ b ∈ bs, ∃ u ∈ b.files, ∃ base, env.funcs.length ≤ base ∧
      RuleFrom env' base b.pfx rejected u x
  | [], env, env', imported, h => by
    simp [loadBundles] at h; obtain ⟨_, rfl⟩ := h
    exact ⟨fun b hb => (by cases hb), fun x hx => (by simp at hx)⟩
  | b :: bs, env, env', imported, h => by
    unfold loadBundles at h
    split at h
    · simp at h
    · split at h
      · rename_i e1 rss h1
        have hx1 := loadBundleFiles_ext true b.pfx rejected b.files env
        rw [h1] at hx1
        have hx := loadBundles_ext true rejected bs e1
        split at h
        · rename_i e2 more h2
          simp only [Prod.mk.injEq, Out.ok.injEq] at h
          obtain ⟨rfl, rfl⟩ := h
          rw [h2] at hx
          obtain ⟨f1, f2⟩ := loadBundleFiles_own h1
          obtain ⟨ih1, ih2⟩ := loadBundles_own h2
          refine ⟨?_, ?_⟩
          · intro c hc
            rcases List.mem_cons.1 hc with rfl | hc
            · exact f1
            · exact ih1 c hc
          · intro x hxm
            simp only [List.flatMap_append, List.mem_append] at hxm
            rcases hxm with hxm | hxm
            · obtain ⟨u, hu, base, hb, hr⟩ := f2 x hxm
              exact ⟨b, List.mem_cons_self .., u, hu, base, hb, hr.ext hx⟩
            · obtain ⟨c, hc, u, hu, base, hb, hr⟩ := ih2 x hxm
              exact ⟨c, List.mem_cons_of_mem _ hc, u, hu, base, Nat.le_trans hx1.len_le hb, hr⟩
        · rename_i o hne
          rcases o with ⟨e3, o3⟩
          cases o3 <;> simp_all
      · rename_i o hne
        rcases o with ⟨e3, o3⟩
        cases o3 <;> simp_all

/-- the units of a call in the order `LoadFile` handles their rules: (prefix, file) -/
def unitsOf (r : Req) : List (Nat × FileUnit) :=
  (0, r.unit) :: r.bundles.flatMap fun b => b.files.map fun u => (b.pfx, u)

/-- some rule the call would load names a function its own file does not declare -/
def ReqForeign (r : Req) : Prop := ∃ pu ∈ unitsOf r, UnitForeign pu.1 r.rejected pu.2

theorem mem_unitsOf_bundle {r : Req} {b : BundleDecl} {u : FileUnit} (hb : b ∈ r.bundles) (hu : u ∈ b.files) :
    (b.pfx, u) ∈ unitsOf r := by
  unfold unitsOf
  refine List.mem_cons_of_mem _ (List.mem_flatMap.2 ⟨b, hb, List.mem_map_of_mem hu⟩)

theorem loadFile_own {env env' : Env} {r : Req} {rset : RuleSet} (h : loadFile true env r = (env', .ok rset)) :
    ¬ ReqForeign r ∧
    ∀ x ∈ rset.rules, ∃ pu ∈ unitsOf r, ∃ base, env.funcs.length ≤ base ∧
      RuleFrom env' base pu.1 r.rejected pu.2 x := by
  unfold loadFile at h
  split at h
  · simp at h
  · simp at h
  · rename_i env1 imported hb
    obtain ⟨b1, b2⟩ := loadBundles_own hb
    have hx1 := loadBundles_ext true r.rejected r.bundles env
    rw [hb] at hx1
    have hx := loadUnit_ext true env1 r.pkgPath 0 r.rejected r.unit
    split at h
    · rename_i env2 res hu
      rw [hu] at hx
      obtain ⟨u1, u2⟩ := loadUnit_own hu
      have hnf : ¬ ReqForeign r := by
        rintro ⟨pu, hpu, hf⟩
        unfold unitsOf at hpu
        rcases List.mem_cons.1 hpu with rfl | hpu
        · exact u1 hf
        · obtain ⟨b, hbm, hpm⟩ := List.mem_flatMap.1 hpu
          obtain ⟨u, hum, rfl⟩ := List.mem_map.1 hpm
          exact b1 b hbm u hum hf
      have own_unit : ∀ x ∈ res.rules, ∃ pu ∈ unitsOf r, ∃ base, env.funcs.length ≤ base ∧
          RuleFrom env2 base pu.1 r.rejected pu.2 x := fun x hxm =>
        ⟨(0, r.unit), List.mem_cons_self .., env1.funcs.length, hx1.len_le, u2 x hxm⟩
      have own_bundles : ∀ x ∈ imported.flatMap (·.rules), ∃ pu ∈ unitsOf r, ∃ base, env.funcs.length ≤ base ∧
          RuleFrom env2 base pu.1 r.rejected pu.2 x := by
        intro x hxm
        obtain ⟨b, hbm, u, hum, base, hle, hr⟩ := b2 x hxm
        exact ⟨(b.pfx, u), mem_unitsOf_bundle hbm hum, base, hle, hr.ext hx⟩
      split at h
      · simp only [Prod.mk.injEq, Out.ok.injEq] at h
        obtain ⟨rfl, rfl⟩ := h
        exact ⟨hnf, own_unit⟩
      · simp only [Prod.mk.injEq] at h
        obtain ⟨rfl, hm⟩ := h
        obtain ⟨_, mr⟩ := merge_ok hm
        refine ⟨hnf, ?_⟩
        intro x hxm
        rw [mr] at hxm
        simp only [List.flatMap_cons, List.mem_append] at hxm
        rcases hxm with hxm | hxm
        · exact own_unit x hxm
        · exact own_bundles x hxm
    · rename_i o hne
      rcases o with ⟨e3, o3⟩
      cases o3 <;> simp_all

/-! ### the error a foreign name produces -/

/-- once the unit's declarations compiled, with no unloadable rule and no repeated name among its accepted groups,
a foreign name is reported as such -/
theorem loadUnit_foreign_nofunc {env : Env} {pkg pfx : Nat} {rejected : List (Nat × Nat)} {u : FileUnit}
    (hc : (compileFilterFuncs true env u).2 = .ok ())
    (hbad : ∀ g ∈ acceptedDecls pfx rejected u.groups, ∀ r ∈ g.rules, r.bad = false)
    (hnd : (names (acceptedOfUnit pfx rejected u)).Nodup) (hf : UnitForeign pfx rejected u) :
    (loadUnit true env pkg pfx rejected u).2 = .err .nofunc := by
  cases hres : loadUnit true env pkg pfx rejected u with
  | mk env' o =>
    cases o with
    | ok rs => exact absurd hf (loadUnit_own hres).1
    | panic p =>
      have := loadUnit_true_np env pkg pfx rejected u
      rw [hres] at this; exact absurd this (by simp [NoPanic])
    | err e =>
      have he : e = .nofunc ∨ e = .redef := by
        unfold loadUnit at hres
        split at hres
        · simp only [Prod.mk.injEq] at hres
          exact loadGroups_err hbad hres.2
        · rename_i e1 e' hc'
          rw [hc'] at hc; cases hc
        · simp at hres
      rcases he with rfl | rfl
      · rfl
      · exact absurd hnd (loadUnit_redef hres)

theorem load_foreign_nofunc (e : Engine) (r : Req) (hb : r.bundles = [])
    (hconv : (!r.isIR && r.unit.convErr) = false)
    (hc : (compileFilterFuncs true e.env r.unit).2 = .ok ())
    (hbad : ∀ g ∈ acceptedDecls 0 r.rejected r.unit.groups, ∀ rl ∈ g.rules, rl.bad = false)
    (hnd : (names (acceptedOfUnit 0 r.rejected r.unit)).Nodup) (hf : UnitForeign 0 r.rejected r.unit) :
    (load true e r).2 = .err .nofunc := by
  have hu := loadUnit_foreign_nofunc (pkg := r.pkgPath) hc hbad hnd hf
  have hfile : (loadFile true e.env r).2 = .err .nofunc := by
    unfold loadFile
    rw [hb]
    simp only [loadBundles]
    cases hres : loadUnit true e.env r.pkgPath 0 r.rejected r.unit with
    | mk env2 o =>
      rw [hres] at hu
      simp only at hu
      subst hu
      rfl
  unfold load
  rw [hconv]
  simp only [Bool.false_eq_true, if_false]
  cases hres : loadFile true e.env r with
  | mk env' o =>
    rw [hres] at hfile
    simp only at hfile
    subst hfile
    rfl

end LoadM
