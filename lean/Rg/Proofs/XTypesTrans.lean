import Rg.Proofs.XTypesSymm
/-!
# `xtypes.Identical` is transitive (repaired code: all well-formed trees; as it stands: alias-free ones)

`wfT E D t`: `exported` flags are `E name`, named leaves spell what the declaration table `D` records for
their object (so that the same object has one spelling), array lengths are known (`≥ 0`; an unknown
length is identical to every length, in go/types as well).
-/
open XTypes

namespace XTypes

theorem sameDecl_trans {n n' n'' : String} {l l' l'' : Bool} {p p' p'' : Option String}
    (a : sameDecl n l p n' l' p' = true) (b : sameDecl n' l' p' n'' l'' p'' = true) :
    sameDecl n l p n'' l'' p'' = true := by
  unfold sameDecl at *
  cases p <;> cases p' <;> cases p'' <;> simp at a b ⊢
  obtain ⟨⟨⟨rfl, rfl⟩, rfl⟩, rfl⟩ := a
  obtain ⟨⟨⟨rfl, _⟩, rfl⟩, rfl⟩ := b
  simp

theorem sameIdent_trans {E : String → Bool} {n n' n'' : String} {ex ex' : Bool} {p p' p'' : Option String}
    (hx : ex = E n) (hx' : ex' = E n')
    (a : SpecC14.sameIdent n ex p n' p' = true) (b : SpecC14.sameIdent n' ex' p' n'' p'' = true) :
    SpecC14.sameIdent n ex p n'' p'' = true := by
  unfold SpecC14.sameIdent at *
  simp only [Bool.and_eq_true, Bool.or_eq_true, beq_iff_eq] at a b ⊢
  obtain ⟨rfl, a⟩ := a
  obtain ⟨rfl, b⟩ := b
  subst hx hx'
  refine ⟨rfl, ?_⟩
  rcases a with a | rfl
  · exact Or.inl a
  · exact b

theorem namedRule_trans_fix {D : Nat → Decl}
    {u o : Nat} {p : Option String} {n : String} {ex l : Bool}
    {u' o' : Nat} {p' : Option String} {n' : String} {ex' l' : Bool}
    {u'' o'' : Nat} {p'' : Option String} {n'' : String} {ex'' l'' : Bool}
    (h1 : D o = ⟨p, n, ex, l⟩) (h2 : D o' = ⟨p', n', ex', l'⟩) (h3 : D o'' = ⟨p'', n'', ex'', l''⟩)
    (a : ((u == u' && o == o') || sameDecl n l p n' l' p') = true)
    (b : ((u' == u'' && o' == o'') || sameDecl n' l' p' n'' l'' p'') = true) :
    ((u == u'' && o == o'') || sameDecl n l p n'' l'' p'') = true := by
  simp only [Bool.or_eq_true, Bool.and_eq_true, beq_iff_eq] at a b ⊢
  rcases a with ⟨rfl, rfl⟩ | a
  · rw [h1] at h2; injection h2 with e1 e2 e3 e4; subst e1 e2 e3 e4
    exact b
  · rcases b with ⟨rfl, rfl⟩ | b
    · rw [h2] at h3; injection h3 with e1 e2 e3 e4; subst e1 e2 e3 e4
      exact Or.inr a
    · exact Or.inr (sameDecl_trans a b)

theorem namedRule_trans_asis {D : Nat → Decl} {E : String → Bool}
    {u o : Nat} {p : Option String} {n : String} {ex l : Bool}
    {u' o' : Nat} {p' : Option String} {n' : String} {ex' l' : Bool}
    {u'' o'' : Nat} {p'' : Option String} {n'' : String} {ex'' l'' : Bool}
    (h1 : D o = ⟨p, n, ex, l⟩) (h2 : D o' = ⟨p', n', ex', l'⟩) (h3 : D o'' = ⟨p'', n'', ex'', l''⟩)
    (hx : ex = E n) (hx' : ex' = E n')
    (a : ((u == u' && o == o') || sameID n ex p p' n') = true)
    (b : ((u' == u'' && o' == o'') || sameID n' ex' p' p'' n'') = true) :
    ((u == u'' && o == o'') || sameID n ex p p'' n'') = true := by
  rw [sameID_eq_sameIdent] at a b ⊢
  simp only [Bool.or_eq_true, Bool.and_eq_true, beq_iff_eq] at a b ⊢
  rcases a with ⟨rfl, rfl⟩ | a
  · rw [h1] at h2; injection h2 with e1 e2 e3 e4; subst e1 e2 e3 e4
    exact b
  · rcases b with ⟨rfl, rfl⟩ | b
    · rw [h2] at h3; injection h3 with e1 e2 e3 e4; subst e1 e2 e3 e4
      exact Or.inr a
    · exact Or.inr (sameIdent_trans hx hx' a b)

mutual
def wfT (E : String → Bool) (D : Nat → Decl) : Ty → Bool
  | .nil => true
  | .basic _ => true
  | .array n e => decide (0 ≤ n) && wfT E D e
  | .slice e => wfT E D e
  | .ptr e => wfT E D e
  | .map k e => wfT E D k && wfT E D e
  | .chan _ e => wfT E D e
  | .tuple es => wfTList E D es
  | .sig _ tps p r => wfTList E D tps && wfT E D p && wfT E D r
  | .field n _ ex _ _ ty => (ex == E n) && wfT E D ty
  | .struct fs => wfTList E D fs
  | .method _ _ _ ty => wfT E D ty
  | .iface _ _ ms es => wfTList E D ms && wfTList E D es
  | .named _ o p n ex l ts => decide (D o = ⟨p, n, ex, l⟩) && (ex == E n) && wfTList E D ts
  | .alias _ _ t => wfT E D t
  | .tparam _ _ => true
  | .term _ t => wfT E D t
  | .union _ ts => wfTList E D ts
def wfTList (E : String → Bool) (D : Nat → Decl) : List Ty → Bool
  | [] => true
  | a :: as => wfT E D a && wfTList E D as
end

theorem wfT_norm (E D) (fx : Bool) (y : Ty) : wfT E D (norm fx y) = wfT E D y := by
  cases fx
  · rfl
  · exact pred_unalias _ (by intros; simp [wfT]) y

section
variable {fx : Bool} {E : String → Bool} {D : Nat → Decl}

/-- moving between the form the recursion hands on (`tidC fx e (norm fx e')`) and the normalised form
of the induction hypothesis -/
theorem tidC_nl {e e' : Ty} (he : (fx || noAlias e) = true) (he' : (fx || noAlias e') = true) :
    tidC fx e (norm fx e') = tidC fx (norm fx e) (norm fx e') :=
  (tidC_norm_left fx e _ he (notAlias_norm he')).symm

-- prelude of a constructor case of `transC`: reduce the middle and the right operand to their shapes;
-- shapes other than the one of `x` contradict `h1` resp. `h2`.
set_option hygiene false in
macro "trans_cases" x:term : tactic => `(tactic| (
  have hwy' := (wfT_norm E D fx y).trans hwy
  have hwz' := (wfT_norm E D fx z).trans hwz
  have hny := notAlias_norm hay
  have hnz := notAlias_norm haz
  have hay' := noAlias_norm hay
  have haz' := noAlias_norm haz
  have hxx : norm fx $x = $x := by cases fx <;> simp [norm, unalias]
  rw [hxx] at h1 ⊢
  cases hy : norm fx y <;> simp only [hy] at hwy' hny hay' h1 h2
  all_goals try (simp [notAlias] at hny; done)
  all_goals try (unfold tidC at h1; simp at h1; done)
  all_goals (cases hz : norm fx z <;> simp only [hz] at hwz' hnz haz' h2 ⊢)
  all_goals try (simp [notAlias] at hnz; done)
  all_goals try (unfold tidC at h2; simp at h2; done)))

-- the diagonal case: if two of the three trees are equal there is nothing to do; otherwise all three
-- comparisons take their `match` arm
set_option hygiene false in
macro "trans_diag" a:term "," b:term "," c:term : tactic => `(tactic| (
  by_cases e1 : $a = $b
  · rw [e1]; exact h2
  by_cases e2 : $b = $c
  · rw [← e2]; exact h1
  unfold tidC at h1 h2 ⊢
  rw [if_neg e1] at h1; rw [if_neg e2] at h2
  simp only [] at h1 h2
  split
  · rfl
  simp only []))

mutual
theorem transC : ∀ (x y z : Ty), wfT E D x = true → wfT E D y = true → wfT E D z = true →
    (fx || noAlias x) = true → (fx || noAlias y) = true → (fx || noAlias z) = true →
    tidC fx (norm fx x) (norm fx y) = true → tidC fx (norm fx y) (norm fx z) = true →
    tidC fx (norm fx x) (norm fx z) = true
  | .nil, y, z, hwx, hwy, hwz, hax, hay, haz, h1, h2 => by
    trans_cases Ty.nil
    exact h2
  | .basic k, y, z, hwx, hwy, hwz, hax, hay, haz, h1, h2 => by
    trans_cases (Ty.basic k)
    rename_i k' k''
    trans_diag (Ty.basic k), (Ty.basic k'), (Ty.basic k'')
    simp only [beq_iff_eq] at h1 h2 ⊢
    exact h1.trans h2
  | .array n e, y, z, hwx, hwy, hwz, hax, hay, haz, h1, h2 => by
    trans_cases (Ty.array n e)
    rename_i n' e' n'' e''
    trans_diag (Ty.array n e), (Ty.array n' e'), (Ty.array n'' e'')
    simp only [wfT, noAlias, Bool.and_eq_true, decide_eq_true_eq] at hwx hwy' hwz' hax hay' haz'
    simp only [Bool.and_eq_true, Bool.or_eq_true, decide_eq_true_eq, beq_iff_eq] at h1 h2 ⊢
    refine ⟨Or.inr (by omega), ?_⟩
    rw [tidC_nl hax haz']
    exact transC e e' e'' hwx.2 hwy'.2 hwz'.2 hax hay' haz' (by rw [← tidC_nl hax hay']; exact h1.2)
      (by rw [← tidC_nl hay' haz']; exact h2.2)
  | .slice e, y, z, hwx, hwy, hwz, hax, hay, haz, h1, h2 => by
    trans_cases (Ty.slice e)
    rename_i e' e''
    trans_diag (Ty.slice e), (Ty.slice e'), (Ty.slice e'')
    simp only [wfT, noAlias] at hwx hwy' hwz' hax hay' haz'
    rw [tidC_nl hax haz']
    exact transC e e' e'' hwx hwy' hwz' hax hay' haz' (by rw [← tidC_nl hax hay']; exact h1)
      (by rw [← tidC_nl hay' haz']; exact h2)
  | .ptr e, y, z, hwx, hwy, hwz, hax, hay, haz, h1, h2 => by
    trans_cases (Ty.ptr e)
    rename_i e' e''
    trans_diag (Ty.ptr e), (Ty.ptr e'), (Ty.ptr e'')
    simp only [wfT, noAlias] at hwx hwy' hwz' hax hay' haz'
    rw [tidC_nl hax haz']
    exact transC e e' e'' hwx hwy' hwz' hax hay' haz' (by rw [← tidC_nl hax hay']; exact h1)
      (by rw [← tidC_nl hay' haz']; exact h2)
  | .map k e, y, z, hwx, hwy, hwz, hax, hay, haz, h1, h2 => by
    trans_cases (Ty.map k e)
    rename_i k' e' k'' e''
    trans_diag (Ty.map k e), (Ty.map k' e'), (Ty.map k'' e'')
    simp only [wfT, noAlias, Bool.and_eq_true] at hwx hwy' hwz' hax hay' haz'
    obtain ⟨hax1, hax2⟩ := fx_or_and hax
    obtain ⟨hay1, hay2⟩ := fx_or_and hay'
    obtain ⟨haz1, haz2⟩ := fx_or_and haz'
    simp only [Bool.and_eq_true] at h1 h2 ⊢
    rw [tidC_nl hax1 haz1, tidC_nl hax2 haz2]
    exact ⟨transC k k' k'' hwx.1 hwy'.1 hwz'.1 hax1 hay1 haz1 (by rw [← tidC_nl hax1 hay1]; exact h1.1)
        (by rw [← tidC_nl hay1 haz1]; exact h2.1),
      transC e e' e'' hwx.2 hwy'.2 hwz'.2 hax2 hay2 haz2 (by rw [← tidC_nl hax2 hay2]; exact h1.2)
        (by rw [← tidC_nl hay2 haz2]; exact h2.2)⟩
  | .chan d e, y, z, hwx, hwy, hwz, hax, hay, haz, h1, h2 => by
    trans_cases (Ty.chan d e)
    rename_i d' e' d'' e''
    trans_diag (Ty.chan d e), (Ty.chan d' e'), (Ty.chan d'' e'')
    simp only [wfT, noAlias] at hwx hwy' hwz' hax hay' haz'
    simp only [Bool.and_eq_true, beq_iff_eq] at h1 h2 ⊢
    rw [tidC_nl hax haz']
    exact ⟨h1.1.trans h2.1, transC e e' e'' hwx hwy' hwz' hax hay' haz' (by rw [← tidC_nl hax hay']; exact h1.2)
      (by rw [← tidC_nl hay' haz']; exact h2.2)⟩
  | .tuple es, y, z, hwx, hwy, hwz, hax, hay, haz, h1, h2 => by
    trans_cases (Ty.tuple es)
    rename_i es' es''
    trans_diag (Ty.tuple es), (Ty.tuple es'), (Ty.tuple es'')
    simp only [wfT, noAlias] at hwx hwy' hwz' hax hay' haz'
    exact transList es es' es'' hwx hwy' hwz' hax hay' haz' h1 h2
  | .sig v tps p r, y, z, hwx, hwy, hwz, hax, hay, haz, h1, h2 => by
    trans_cases (Ty.sig v tps p r)
    rename_i v' tps' p' r' v'' tps'' p'' r''
    trans_diag (Ty.sig v tps p r), (Ty.sig v' tps' p' r'), (Ty.sig v'' tps'' p'' r'')
    simp only [wfT, noAlias, Bool.and_eq_true] at hwx hwy' hwz' hax hay' haz'
    obtain ⟨hax0, hax2⟩ := fx_or_and hax
    obtain ⟨_, hax1⟩ := fx_or_and hax0
    obtain ⟨hay0, hay2⟩ := fx_or_and hay'
    obtain ⟨_, hay1⟩ := fx_or_and hay0
    obtain ⟨haz0, haz2⟩ := fx_or_and haz'
    obtain ⟨_, haz1⟩ := fx_or_and haz0
    simp only [Bool.and_eq_true, beq_iff_eq] at h1 h2 ⊢
    rw [tidC_nl hax1 haz1, tidC_nl hax2 haz2]
    exact ⟨⟨h1.1.1.trans h2.1.1,
      transC p p' p'' hwx.1.2 hwy'.1.2 hwz'.1.2 hax1 hay1 haz1 (by rw [← tidC_nl hax1 hay1]; exact h1.1.2)
        (by rw [← tidC_nl hay1 haz1]; exact h2.1.2)⟩,
      transC r r' r'' hwx.2 hwy'.2 hwz'.2 hax2 hay2 haz2 (by rw [← tidC_nl hax2 hay2]; exact h1.2)
        (by rw [← tidC_nl hay2 haz2]; exact h2.2)⟩
  | .field n p ex em tg ty, y, z, hwx, hwy, hwz, hax, hay, haz, h1, h2 => by
    trans_cases (Ty.field n p ex em tg ty)
    rename_i n' p' ex' em' tg' ty' n'' p'' ex'' em'' tg'' ty''
    by_cases e1 : Ty.field n p ex em tg ty = Ty.field n' p' ex' em' tg' ty'
    · rw [e1]; exact h2
    · unfold tidC at h1; rw [if_neg e1] at h1; simp at h1
  | .struct fs, y, z, hwx, hwy, hwz, hax, hay, haz, h1, h2 => by
    trans_cases (Ty.struct fs)
    rename_i fs' fs''
    trans_diag (Ty.struct fs), (Ty.struct fs'), (Ty.struct fs'')
    simp only [wfT, noAlias] at hwx hwy' hwz' hax hay' haz'
    exact transFields fs fs' fs'' hwx hwy' hwz' hax hay' haz' h1 h2
  | .method n p ex ty, y, z, hwx, hwy, hwz, hax, hay, haz, h1, h2 => by
    trans_cases (Ty.method n p ex ty)
    rename_i n' p' ex' ty' n'' p'' ex'' ty''
    by_cases e1 : Ty.method n p ex ty = Ty.method n' p' ex' ty'
    · rw [e1]; exact h2
    · unfold tidC at h1; rw [if_neg e1] at h1; simp at h1
  | .iface ms c mths es, y, z, hwx, hwy, hwz, hax, hay, haz, h1, h2 => by
    trans_cases (Ty.iface ms c mths es)
    rename_i ms' c' mths' es' ms'' c'' mths'' es''
    trans_diag (Ty.iface ms c mths es), (Ty.iface ms' c' mths' es'), (Ty.iface ms'' c'' mths'' es'')
    simp only [wfT, noAlias, Bool.and_eq_true] at hwx hwy' hwz' hax hay' haz'
    obtain ⟨hax1, _⟩ := fx_or_and hax
    obtain ⟨hay1, _⟩ := fx_or_and hay'
    obtain ⟨haz1, _⟩ := fx_or_and haz'
    exact transMethods mths mths' mths'' hwx.1 hwy'.1 hwz'.1 hax1 hay1 haz1 h1 h2
  | .named u o p n ex l ts, y, z, hwx, hwy, hwz, hax, hay, haz, h1, h2 => by
    trans_cases (Ty.named u o p n ex l ts)
    rename_i u' o' p' n' ex' l' ts' u'' o'' p'' n'' ex'' l'' ts''
    trans_diag (Ty.named u o p n ex l ts), (Ty.named u' o' p' n' ex' l' ts'), (Ty.named u'' o'' p'' n'' ex'' l'' ts'')
    simp only [wfT, noAlias, Bool.and_eq_true, decide_eq_true_eq, beq_iff_eq] at hwx hwy' hwz' hax hay' haz'
    have hl : tidList fx ts ts' = true → tidList fx ts' ts'' = true → tidList fx ts ts'' = true :=
      transList ts ts' ts'' hwx.2 hwy'.2 hwz'.2 hax hay' haz'
    cases fx
    · simp only [Bool.false_eq_true, if_false] at h1 h2 ⊢
      exact namedRule_trans_asis hwx.1.1 hwy'.1.1 hwz'.1.1 hwx.1.2 hwy'.1.2 h1 h2
    · simp only [if_true, Bool.and_eq_true] at h1 h2 ⊢
      exact ⟨hl h1.1 h2.1, namedRule_trans_fix hwx.1.1 hwy'.1.1 hwz'.1.1 h1.2 h2.2⟩
  | .alias u o t, y, z, hwx, hwy, hwz, hax, hay, haz, h1, h2 => by
    have hfxt : fx = true := by cases fx <;> simp_all [noAlias]
    have hn : norm fx (Ty.alias u o t) = norm fx t := by rw [hfxt]; simp [norm, unalias]
    rw [hn] at h1 ⊢
    exact transC t y z (by simpa [wfT] using hwx) hwy hwz (by simp [hfxt]) hay haz h1 h2
  | .tparam u o, y, z, hwx, hwy, hwz, hax, hay, haz, h1, h2 => by
    trans_cases (Ty.tparam u o)
    rename_i u' o' u'' o''
    by_cases e1 : Ty.tparam u o = Ty.tparam u' o'
    · rw [e1]; exact h2
    · unfold tidC at h1; rw [if_neg e1] at h1; simp at h1
  | .term a t, y, z, hwx, hwy, hwz, hax, hay, haz, h1, h2 => by
    trans_cases (Ty.term a t)
    rename_i a' t' a'' t''
    by_cases e1 : Ty.term a t = Ty.term a' t'
    · rw [e1]; exact h2
    · unfold tidC at h1; rw [if_neg e1] at h1; simp at h1
  | .union i ts, y, z, hwx, hwy, hwz, hax, hay, haz, h1, h2 => by
    trans_cases (Ty.union i ts)
    rename_i i' ts' i'' ts''
    by_cases e1 : Ty.union i ts = Ty.union i' ts'
    · rw [e1]; exact h2
    · unfold tidC at h1; rw [if_neg e1] at h1; simp at h1
theorem transList : ∀ (as bs cs : List Ty), wfTList E D as = true → wfTList E D bs = true → wfTList E D cs = true →
    (fx || noAliasList as) = true → (fx || noAliasList bs) = true → (fx || noAliasList cs) = true →
    tidList fx as bs = true → tidList fx bs cs = true → tidList fx as cs = true
  | [], [], [], _, _, _, _, _, _, _, _ => by simp [tidList]
  | [], [], _ :: _, _, _, _, _, _, _, _, h2 => by simp [tidList] at h2
  | [], _ :: _, _, _, _, _, _, _, _, h1, _ => by simp [tidList] at h1
  | _ :: _, [], _, _, _, _, _, _, _, h1, _ => by simp [tidList] at h1
  | _ :: _, _ :: _, [], _, _, _, _, _, _, _, h2 => by simp [tidList] at h2
  | a :: as, b :: bs, c :: cs, hwa, hwb, hwc, haa, hab, hac, h1, h2 => by
    simp only [wfTList, noAliasList, Bool.and_eq_true] at hwa hwb hwc haa hab hac
    obtain ⟨haa1, haa2⟩ := fx_or_and haa
    obtain ⟨hab1, hab2⟩ := fx_or_and hab
    obtain ⟨hac1, hac2⟩ := fx_or_and hac
    unfold tidList at h1 h2 ⊢
    simp only [Bool.and_eq_true] at h1 h2 ⊢
    rw [tidC_nl haa1 hac1]
    exact ⟨transC a b c hwa.1 hwb.1 hwc.1 haa1 hab1 hac1 (by rw [← tidC_nl haa1 hab1]; exact h1.1)
        (by rw [← tidC_nl hab1 hac1]; exact h2.1),
      transList as bs cs hwa.2 hwb.2 hwc.2 haa2 hab2 hac2 h1.2 h2.2⟩
theorem transFields : ∀ (as bs cs : List Ty), wfTList E D as = true → wfTList E D bs = true → wfTList E D cs = true →
    (fx || noAliasList as) = true → (fx || noAliasList bs) = true → (fx || noAliasList cs) = true →
    tidFields fx as bs = true → tidFields fx bs cs = true → tidFields fx as cs = true
  | [], [], [], _, _, _, _, _, _, _, _ => by simp [tidFields]
  | [], [], c :: _, _, _, _, _, _, _, _, h2 => by cases c <;> simp [tidFields] at h2
  | [], b :: _, _, _, _, _, _, _, _, h1, _ => by cases b <;> simp [tidFields] at h1
  | a :: _, [], _, _, _, _, _, _, _, h1, _ => by cases a <;> simp [tidFields] at h1
  | _ :: _, b :: _, [], _, _, _, _, _, _, _, h2 => by cases b <;> simp [tidFields] at h2
  | .field n p ex em tg ty :: as, b :: bs, c :: cs, hwa, hwb, hwc, haa, hab, hac, h1, h2 => by
    cases b
    case field n' p' ex' em' tg' ty' =>
      cases c
      case field n'' p'' ex'' em'' tg'' ty'' =>
        simp only [wfTList, wfT, noAliasList, noAlias, Bool.and_eq_true, beq_iff_eq] at hwa hwb hwc haa hab hac
        obtain ⟨haa1, haa2⟩ := fx_or_and haa
        obtain ⟨hab1, hab2⟩ := fx_or_and hab
        obtain ⟨hac1, hac2⟩ := fx_or_and hac
        unfold tidFields at h1 h2 ⊢
        simp only [Bool.and_eq_true, beq_iff_eq, Bool.or_eq_true, Bool.not_eq_true'] at h1 h2 ⊢
        rw [tidC_nl haa1 hac1]
        refine ⟨⟨⟨⟨h1.1.1.1.1.trans h2.1.1.1.1, ?_⟩, ?_⟩, ?_⟩, ?_⟩
        · rcases h1.1.1.1.2 with h | h
          · exact Or.inl h
          · rcases h2.1.1.1.2 with h' | h'
            · exact Or.inl h'
            · exact Or.inr (h.trans h')
        · have a := h1.1.1.2
          have b := h2.1.1.2
          rw [sameID_eq_sameIdent] at a b ⊢
          exact sameIdent_trans hwa.1.1 hwb.1.1 a b
        · exact transC ty ty' ty'' hwa.1.2 hwb.1.2 hwc.1.2 haa1 hab1 hac1 (by rw [← tidC_nl haa1 hab1]; exact h1.1.2)
            (by rw [← tidC_nl hab1 hac1]; exact h2.1.2)
        · exact transFields as bs cs hwa.2 hwb.2 hwc.2 haa2 hab2 hac2 h1.2 h2.2
      all_goals simp [tidFields] at h2
    all_goals simp [tidFields] at h1
  | .nil :: _, b :: _, _ :: _, _, _, _, _, _, _, h1, _ | .basic _ :: _, b :: _, _ :: _, _, _, _, _, _, _, h1, _
  | .array .. :: _, b :: _, _ :: _, _, _, _, _, _, _, h1, _ | .slice _ :: _, b :: _, _ :: _, _, _, _, _, _, _, h1, _
  | .ptr _ :: _, b :: _, _ :: _, _, _, _, _, _, _, h1, _ | .map .. :: _, b :: _, _ :: _, _, _, _, _, _, _, h1, _
  | .chan .. :: _, b :: _, _ :: _, _, _, _, _, _, _, h1, _ | .tuple _ :: _, b :: _, _ :: _, _, _, _, _, _, _, h1, _
  | .sig .. :: _, b :: _, _ :: _, _, _, _, _, _, _, h1, _ | .struct _ :: _, b :: _, _ :: _, _, _, _, _, _, _, h1, _
  | .method .. :: _, b :: _, _ :: _, _, _, _, _, _, _, h1, _ | .iface .. :: _, b :: _, _ :: _, _, _, _, _, _, _, h1, _
  | .named .. :: _, b :: _, _ :: _, _, _, _, _, _, _, h1, _ | .alias .. :: _, b :: _, _ :: _, _, _, _, _, _, _, h1, _
  | .tparam .. :: _, b :: _, _ :: _, _, _, _, _, _, _, h1, _ | .term .. :: _, b :: _, _ :: _, _, _, _, _, _, _, h1, _
  | .union .. :: _, b :: _, _ :: _, _, _, _, _, _, _, h1, _ => by cases b <;> simp [tidFields] at h1
theorem transMethods : ∀ (as bs cs : List Ty), wfTList E D as = true → wfTList E D bs = true → wfTList E D cs = true →
    (fx || noAliasList as) = true → (fx || noAliasList bs) = true → (fx || noAliasList cs) = true →
    tidMethods fx as bs = true → tidMethods fx bs cs = true → tidMethods fx as cs = true
  | [], [], [], _, _, _, _, _, _, _, _ => by simp [tidMethods]
  | [], [], c :: _, _, _, _, _, _, _, _, h2 => by cases c <;> simp [tidMethods] at h2
  | [], b :: _, _, _, _, _, _, _, _, h1, _ => by cases b <;> simp [tidMethods] at h1
  | a :: _, [], _, _, _, _, _, _, _, h1, _ => by cases a <;> simp [tidMethods] at h1
  | _ :: _, b :: _, [], _, _, _, _, _, _, _, h2 => by cases b <;> simp [tidMethods] at h2
  | .method n p ex ty :: as, b :: bs, c :: cs, hwa, hwb, hwc, haa, hab, hac, h1, h2 => by
    cases b
    case method n' p' ex' ty' =>
      cases c
      case method n'' p'' ex'' ty'' =>
        simp only [wfTList, wfT, noAliasList, noAlias, Bool.and_eq_true] at hwa hwb hwc haa hab hac
        obtain ⟨haa1, haa2⟩ := fx_or_and haa
        obtain ⟨hab1, hab2⟩ := fx_or_and hab
        obtain ⟨hac1, hac2⟩ := fx_or_and hac
        unfold tidMethods at h1 h2 ⊢
        simp only [Bool.and_eq_true, beq_iff_eq] at h1 h2 ⊢
        rw [tidC_nl haa1 hac1]
        exact ⟨⟨h1.1.1.trans h2.1.1,
          transC ty ty' ty'' hwa.1 hwb.1 hwc.1 haa1 hab1 hac1 (by rw [← tidC_nl haa1 hab1]; exact h1.1.2)
            (by rw [← tidC_nl hab1 hac1]; exact h2.1.2)⟩,
          transMethods as bs cs hwa.2 hwb.2 hwc.2 haa2 hab2 hac2 h1.2 h2.2⟩
      all_goals simp [tidMethods] at h2
    all_goals simp [tidMethods] at h1
  | .nil :: _, b :: _, _ :: _, _, _, _, _, _, _, h1, _ | .basic _ :: _, b :: _, _ :: _, _, _, _, _, _, _, h1, _
  | .array .. :: _, b :: _, _ :: _, _, _, _, _, _, _, h1, _ | .slice _ :: _, b :: _, _ :: _, _, _, _, _, _, _, h1, _
  | .ptr _ :: _, b :: _, _ :: _, _, _, _, _, _, _, h1, _ | .map .. :: _, b :: _, _ :: _, _, _, _, _, _, _, h1, _
  | .chan .. :: _, b :: _, _ :: _, _, _, _, _, _, _, h1, _ | .tuple _ :: _, b :: _, _ :: _, _, _, _, _, _, _, h1, _
  | .sig .. :: _, b :: _, _ :: _, _, _, _, _, _, _, h1, _ | .struct _ :: _, b :: _, _ :: _, _, _, _, _, _, _, h1, _
  | .field .. :: _, b :: _, _ :: _, _, _, _, _, _, _, h1, _ | .iface .. :: _, b :: _, _ :: _, _, _, _, _, _, _, h1, _
  | .named .. :: _, b :: _, _ :: _, _, _, _, _, _, _, h1, _ | .alias .. :: _, b :: _, _ :: _, _, _, _, _, _, _, h1, _
  | .tparam .. :: _, b :: _, _ :: _, _, _, _, _, _, _, h1, _ | .term .. :: _, b :: _, _ :: _, _, _, _, _, _, _, h1, _
  | .union .. :: _, b :: _, _ :: _, _, _, _, _, _, _, h1, _ => by cases b <;> simp [tidMethods] at h1
end

/-- `xtypes.Identical` (variant `fx`) is transitive — for the code as it stands on alias-free trees. -/
theorem tid_trans (x y z : Ty) (hwx : wfT E D x = true) (hwy : wfT E D y = true) (hwz : wfT E D z = true)
    (hax : (fx || noAlias x) = true) (hay : (fx || noAlias y) = true) (haz : (fx || noAlias z) = true)
    (h1 : tid fx x y = true) (h2 : tid fx y z = true) : tid fx x z = true := by
  unfold tid at h1 h2 ⊢
  rw [tidC_nl hax hay] at h1
  rw [tidC_nl hay haz] at h2
  rw [tidC_nl hax haz]
  exact transC x y z hwx hwy hwz hax hay haz h1 h2

end

end XTypes
