import Rg.Model.Filters
import Rg.Spec.C17
/-! Helper lemmas for C17: `constant.Compare` vs. the Go operators, inversion of the loader's
dispatch, the bridge between the spec's operands and the model's accessors. -/
namespace FIR
open SpecC17

/-! ## order on byte strings -/

theorem bytesLt_iff (a b : Bytes) : bytesLt a b = true ↔ a < b := by
  fun_induction bytesLt a b with
  | case1 => simp
  | case2 => simp
  | case3 => simp
  | case4 a as b bs h => simp [List.cons_lt_cons_iff, h]
  | case5 a as b bs h1 h2 =>
    simp [List.cons_lt_cons_iff, h1]
    intro h; subst h; exact absurd h2 (by simp)
  | case6 a as b bs h1 h2 ih =>
    have : a = b := (UInt8.le_antisymm (UInt8.not_lt.mp h1) (UInt8.not_lt.mp h2)).symm
    subst this
    simp [ih]

theorem bytesLt_irrefl (a : Bytes) : bytesLt a a = false := by
  induction a with
  | nil => rfl
  | cons x xs ih => simp [bytesLt, ih]

theorem bytesLt_eq_decide (a b : Bytes) : bytesLt a b = decide (a < b) := by
  by_cases h : a < b
  · simp [h, (bytesLt_iff a b).mpr h]
  · have : bytesLt a b = false := by
      cases hb : bytesLt a b with
      | false => rfl
      | true => exact absurd ((bytesLt_iff a b).mp hb) h
    simp [h, this]

/-! ## the op → token table and `constant.Compare` are the Go operators -/

def vOf : CV → V
  | .int i => .int i
  | .str s => .str s

theorem tokOf_isCmp {op : Op} {t : Tok} (h : tokOf op = some t) : op.isCmp = true := by
  cases op <;> simp_all [tokOf, Op.isCmp]

theorem isCmp_tokOf {op : Op} (h : op.isCmp = true) : ∃ t, tokOf op = some t := by
  cases op <;> simp_all [tokOf, Op.isCmp]

theorem rel_int {op : Op} {t : Tok} {a b : Int} {rb : Bool}
    (ht : tokOf op = some t) (h : relInt op a b = some rb) : cmpInt t a b = rb := by
  cases op <;> simp [tokOf] at ht <;> subst ht <;> simp [relInt] at h <;>
    cases rb <;> simp_all [cmpInt] <;> omega

theorem rel_str {op : Op} {t : Tok} {a b : Bytes} {rb : Bool}
    (ht : tokOf op = some t) (h : relStr op a b = some rb) : cmpStr t a b = rb := by
  cases op <;> simp [tokOf] at ht <;> subst ht <;> simp [relStr] at h <;>
    cases rb <;> simp_all [cmpStr, bytesLt_eq_decide, List.not_lt]

/-- On same-kind operands `constant.Compare` under the token the loader picked is the Go operator
of the same spelling (ill-kinded pairs are excluded by `rel … = some _`). -/
theorem rel_cv {op : Op} {t : Tok} {x y : CV} {rb : Bool}
    (ht : tokOf op = some t) (h : rel op (vOf x) (vOf y) = some rb) : constCompare x t y = rb := by
  cases x <;> cases y <;> simp_all [vOf, rel, constCompare]
  · exact rel_int ht h
  · exact rel_str ht h

theorem rel_unknown_l {op : Op} {v : V} {rb : Bool} (h : rel op .unknown v = some rb) : rb = false := by
  cases v <;> simp_all [rel] <;> (split at h <;> simp_all)

theorem rel_unknown_r {op : Op} {v : V} {rb : Bool} (h : rel op v .unknown = some rb) : rb = false := by
  cases v <;> simp_all [rel] <;> (split at h <;> simp_all)

theorem rel_symm {op : Op} (hop : op = .eq ∨ op = .neq) (u v : V) : rel op u v = rel op v u := by
  rcases hop with rfl | rfl <;> cases u <;> cases v <;> simp [rel, relInt, relStr, Op.isCmp, eq_comm]

/-- negated token -/
def Tok.neg : Tok → Tok
  | .eql => .neq | .neq => .eql | .lss => .geq | .geq => .lss | .gtr => .leq | .leq => .gtr

theorem constCompare_neg (x : CV) (t : Tok) (y : CV) : constCompare x t y = !constCompare x t.neg y := by
  cases x <;> cases y <;> cases t <;> simp [constCompare, cmpInt, cmpStr, Tok.neg, bne] <;>
    (try (rw [Bool.eq_iff_iff]; simp; try omega))

/-! ## inversion of the loader's helpers -/

theorem rhsValueOf_some {r : FE} {k : CV} (h : rhsValueOf r = .ok (some k)) :
    r.op.isBasicLit = true ∧ operand c r = some (.one (vOf k)) := by
  obtain ⟨op, val, args⟩ := r
  cases op <;> simp [rhsValueOf, FE.op, FE.val] at h
  · cases val <;> simp at h
    subst h; simp [Op.isBasicLit, operand, vOf, FE.op]
  · cases val <;> simp at h
    subst h; simp [Op.isBasicLit, operand, vOf, FE.op]

theorem rhsValueOf_none {r : FE} (h : rhsValueOf r = .ok none) : r.op.isBasicLit = false := by
  obtain ⟨op, val, args⟩ := r
  cases op <;> simp [rhsValueOf, FE.op, FE.val, Op.isBasicLit] at h ⊢
  · cases val <;> simp at h
  · cases val <;> simp at h

theorem valString_ok {v : Val} {s : Bytes} (h : valString v = .ok s) : v = .str s := by
  cases v <;> simp_all [valString]

/-! ## the spec's operands vs. the model's accessors -/

theorem operand_line {c : Ctx} {v : Bytes} {as : List FE} {o : Operand}
    (h : operand c (.mk .varLine (.str v) as) = some o) :
    ∃ l, o = .one (.int l) ∧ posLine c v = .ok l := by
  simp only [operand] at h
  split at h <;> simp_all [posLine]

theorem operand_text {c : Ctx} {v : Bytes} {as : List FE} {o : Operand}
    (h : operand c (.mk .varText (.str v) as) = some o) :
    ∃ t, o = .one (.str t) ∧ nodeText c v = .ok t := by
  simp only [operand] at h
  split at h <;> simp_all [nodeText]

theorem operand_isLit_false {c : Ctx} {a : FE} {vs : List V} (h : operand c a = some (.each vs)) :
    a.op.isBasicLit = false := by
  obtain ⟨op, val, args⟩ := a
  cases op <;> simp_all [operand, FE.op, Op.isBasicLit] <;> (cases val <;> simp_all)

end FIR
