import Rg.Model.SrcGroup
import Rg.Proofs.ConvWf
/-!
# The front of irconv (Rg/Model/SrcGroup.lean): totality and well-formedness

1. helper expansion: what `convertM` accepts is `Out` (any fuel, any helper table); it does not panic —
   with the recursion guard for every table (`convertM_noPanic_guard`, fuel ≥ number of helpers), without it
   when the table is acyclic (`convertM_noPanic_acyclic`);
2. the chain walk, `convertRuleExpr`, the statement loop, doc comments, the group;
3. `convertInitFunc`, the declaration loop, the file;
4. the connection with C18's model of helper definitions: `MacroLit.groupLoop` is the statement loop
   instantiated with name resolution; the annotated expansion is an annotation of `Macro.expand`'s.
-/
namespace Grp
open Conv Comp IR Macro MacroLit Loader

/-! ## 1. helper expansion -/

theorem expandC_noPanic (unq : String → Option Bytes) (m : String) (d : MacroDef) (as : List CExpr) (p : Panic) :
    expandC unq m d as ≠ .panic p := by
  unfold expandC; split <;> simp

/-- what a group's hook answers with `ok` is what the recursive conversion answered -/
theorem hookOf_out (cfg : Cfg) (fs : List MacroDef) (active : List String) (conv : List String → CExpr → CRes FilterExpr)
    (hconv : ∀ act e fe, conv act e = .ok fe → Out fe) : HookOut (hookOf cfg fs active conv) := by
  intro n as r h
  unfold hookOf at h
  split at h
  · cases h
  · simp only [Option.some.injEq] at h
    split at h
    · cases h
    · obtain ⟨e', _, he'⟩ := bind_ok h
      exact hconv _ e' r he'

/-- **convertM_out**: with local helpers, at every fuel, what the (arity-repaired) converter accepts is still one
of the shapes of `Out` — an expansion is converted by the same function -/
theorem convertM_out (cfg : Cfg) (har : cfg.ar = true) (fs : List MacroDef) :
    ∀ (fuel : Nat) (active : List String) (e : CExpr) (fe : FilterExpr), convertM cfg fs fuel active e = .ok fe → Out fe
  | 0, active, e, fe, h => by
    rw [convertM, har] at h
    exact convertH_out _ (hookOf_out cfg fs active _ (by intro _ _ _ h; cases h)) e fe h
  | fuel + 1, active, e, fe, h => by
    rw [convertM, har] at h
    exact convertH_out _ (hookOf_out cfg fs active _ (fun act e fe h => convertM_out cfg har fs fuel act e fe h)) e fe h

theorem findMacro_some {fs : List MacroDef} {n : String} {d : MacroDef} (h : findMacro fs n = some d) :
    d ∈ fs ∧ d.name = n := by
  unfold findMacro at h
  have h1 := List.mem_of_find?_eq_some h
  have h2 := List.find?_some h
  exact ⟨h1, by simpa using h2⟩

theorem nodup_subset_length : ∀ {l m : List String}, l.Nodup → (∀ a ∈ l, a ∈ m) → l.length ≤ m.length
  | [], _, _, _ => by simp
  | a :: l, m, hn, hs => by
    have ha : a ∈ m := hs a (by simp)
    have hn' := List.nodup_cons.mp hn
    have hsub : ∀ b ∈ l, b ∈ m.erase a := by
      intro b hb
      have hne : b ≠ a := fun e => hn'.1 (e ▸ hb)
      exact (List.mem_erase_of_ne hne).mpr (hs b (by simp [hb]))
    have ih := nodup_subset_length hn'.2 hsub
    have hl := List.length_erase_of_mem ha
    have hpos : 0 < m.length := List.length_pos_of_mem ha
    simp only [List.length_cons]
    omega

/-- **convertM_noPanic_guard**: with the recursion guard, `fuel ≥ number of recorded helpers` nested expansions
are never exhausted — whatever the helpers' bodies call -/
theorem convertM_noPanic_guard (cfg : Cfg) (hrg : cfg.rg = true) (fs : List MacroDef) :
    ∀ (fuel : Nat) (active : List String), active.Nodup → (∀ a ∈ active, a ∈ fs.map (·.name)) →
      fs.length ≤ fuel + active.length → ∀ (e : CExpr) (p : Panic), convertM cfg fs fuel active e ≠ .panic p
  | 0, active, hnd, hsub, hlen, e, p => by
    rw [convertM]
    apply convertH_noPanic
    intro n _ as q
    unfold hookOf
    split
    · simp
    · rename_i d hd
      have hdn := findMacro_some hd
      by_cases hn : n ∈ active
      · simp [hrg, hn]
      · exfalso
        have h1 : (n :: active).Nodup := List.nodup_cons.mpr ⟨hn, hnd⟩
        have h2 : ∀ a ∈ n :: active, a ∈ fs.map (·.name) := by
          intro a ha
          rcases List.mem_cons.mp ha with rfl | ha
          · exact List.mem_map.mpr ⟨d, hdn.1, hdn.2⟩
          · exact hsub a ha
        have := nodup_subset_length h1 h2
        simp only [List.length_cons, List.length_map] at this
        omega
  | fuel + 1, active, hnd, hsub, hlen, e, p => by
    rw [convertM]
    apply convertH_noPanic
    intro n _ as q
    unfold hookOf
    split
    · simp
    · rename_i d hd
      have hdn := findMacro_some hd
      by_cases hn : n ∈ active
      · simp [hrg, hn]
      · have hg : (cfg.rg && active.contains n) = false := by simp [hn]
        simp only [hg, Bool.false_eq_true, if_false, Option.some.injEq, ne_eq]
        apply bind_noPanic (expandC_noPanic _ _ _ _)
        intro e' q'
        apply convertM_noPanic_guard cfg hrg fs fuel (n :: active) (List.nodup_cons.mpr ⟨hn, hnd⟩)
        · intro a ha
          rcases List.mem_cons.mp ha with rfl | ha
          · exact List.mem_map.mpr ⟨d, hdn.1, hdn.2⟩
          · exact hsub a ha
        · simp only [List.length_cons]; omega

/-! ### without the guard: acyclic helper tables -/

theorem callNames_unparen : ∀ e : CExpr, callNames (Conv.unparen e) = callNames e
  | .paren _ x => by rw [Conv.unparen, callNames_unparen x, callNames]
  | .lit _ _ _ => by rw [Conv.unparen]; intros; contradiction
  | .ident _ _ => by rw [Conv.unparen]; intros; contradiction
  | .sel _ _ _ => by rw [Conv.unparen]; intros; contradiction
  | .index _ _ _ => by rw [Conv.unparen]; intros; contradiction
  | .call _ _ _ => by rw [Conv.unparen]; intros; contradiction
  | .unary _ _ _ => by rw [Conv.unparen]; intros; contradiction
  | .binary _ _ _ _ => by rw [Conv.unparen]; intros; contradiction
  | .other _ => by rw [Conv.unparen]; intros; contradiction

/-- a safe argument contains no call -/
theorem isSafeC_callNames (m : String) (a : CExpr) (h : isSafeC m a = true) : callNames (Conv.unparen a) = [] := by
  unfold isSafeC at h
  split at h
  · rename_i heq; rw [heq, callNames]
  · rename_i heq; rw [heq, callNames]
  · rename_i x i heq
    rw [heq, callNames]
    simp only [Bool.and_eq_true] at h
    obtain ⟨h1, h2⟩ := h
    have hx : callNames x = [] := by
      split at h1
      · rename_i hx; rw [← callNames_unparen x, hx, callNames]
      · cases h1
    have hi : callNames i = [] := by
      split at h2
      · rename_i hi; rw [← callNames_unparen i, hi, callNames]
      · cases h2
    rw [hx, hi]; rfl
  · cases h

theorem bindArgsC_clean (m : String) : ∀ (ps : List String) (as : List CExpr), checkArgsC m ps as = true →
    ∀ p ∈ bindArgsC ps as, callNames p.2 = []
  | [], as, _, p, hp => by cases as <;> simp [bindArgsC] at hp
  | _ :: _, [], _, p, hp => by simp [bindArgsC] at hp
  | q :: ps, a :: as, h, p, hp => by
    simp only [checkArgsC, Bool.and_eq_true] at h
    simp only [bindArgsC, List.mem_append, List.mem_singleton] at hp
    rcases hp with hp | rfl
    · exact bindArgsC_clean m ps as h.2 p hp
    · exact isSafeC_callNames m a h.1

theorem bindArgsC_keys : ∀ (ps : List String) (as : List CExpr), ∀ p ∈ bindArgsC ps as, p.1 ∈ ps
  | [], as, p, hp => by cases as <;> simp [bindArgsC] at hp
  | _ :: _, [], p, hp => by simp [bindArgsC] at hp
  | q :: ps, a :: as, p, hp => by
    simp only [bindArgsC, List.mem_append, List.mem_singleton] at hp
    rcases hp with hp | rfl
    · exact List.mem_cons_of_mem _ (bindArgsC_keys ps as p hp)
    · simp

theorem lookup_none_of_not_key {β} (env : List (String × β)) (n : String) (h : ∀ p ∈ env, p.1 ≠ n) : env.lookup n = none := by
  cases hl : env.lookup n with
  | none => rfl
  | some v => exact absurd rfl (h _ (lookup_mem env n v hl))

/-- the head of `callNames` of a call -/
def headName : CExpr → List String
  | .ident _ n => [n]
  | _ => []
def gheadName : GExpr → List String
  | .ident n => [n]
  | _ => []

theorem callNames_call (a : Ann) (f : CExpr) (args : List CExpr) :
    callNames (.call a f args) = headName f ++ (callNames f ++ callNamesL args) := by
  cases f <;> simp [callNames, headName]

theorem gcallNames_call (f : GExpr) (as : List GExpr) :
    gcallNames (.call f as) = gheadName f ++ (gcallNames f ++ gcallNamesL as) := by
  cases f <;> simp [gcallNames, gheadName]

mutual
/-- the calls of an expansion are the calls of the helper's body, provided no callee is a parameter and the
arguments contain no calls (they are safe) -/
theorem callNames_inst (unq : String → Option Bytes) (env : List (String × CExpr)) (hclean : ∀ p ∈ env, callNames p.2 = []) :
    ∀ (e : GExpr), (∀ n ∈ gcallNames e, env.lookup n = none) → ∀ x ∈ callNames (inst unq env e), x ∈ gcallNames e
  | .ident n, _, x, hx => by
    rw [inst] at hx
    cases hl : env.lookup n with
    | none => rw [hl] at hx; simp [callNames] at hx
    | some v =>
      rw [hl] at hx
      have := hclean _ (lookup_mem env n v hl)
      simp only [Option.getD_some] at hx
      rw [this] at hx; cases hx
  | .lit k t, _, x, hx => by rw [inst, callNames] at hx; cases hx
  | .paren y, h, x, hx => by
    rw [inst, callNames] at hx
    rw [gcallNames]
    exact callNames_inst unq env hclean y (by intro n hn; exact h n (by rw [gcallNames]; exact hn)) x hx
  | .sel y m, h, x, hx => by
    rw [inst, callNames] at hx
    rw [gcallNames]
    exact callNames_inst unq env hclean y (by intro n hn; exact h n (by rw [gcallNames]; exact hn)) x hx
  | .unary o y, h, x, hx => by
    rw [inst, callNames] at hx
    rw [gcallNames]
    exact callNames_inst unq env hclean y (by intro n hn; exact h n (by rw [gcallNames]; exact hn)) x hx
  | .index y i, h, x, hx => by
    rw [inst, callNames] at hx
    rw [gcallNames]
    rcases List.mem_append.mp hx with hx | hx
    · exact List.mem_append.mpr (Or.inl (callNames_inst unq env hclean y
        (by intro n hn; exact h n (by rw [gcallNames]; exact List.mem_append.mpr (Or.inl hn))) x hx))
    · exact List.mem_append.mpr (Or.inr (callNames_inst unq env hclean i
        (by intro n hn; exact h n (by rw [gcallNames]; exact List.mem_append.mpr (Or.inr hn))) x hx))
  | .binary o y z, h, x, hx => by
    rw [inst, callNames] at hx
    rw [gcallNames]
    rcases List.mem_append.mp hx with hx | hx
    · exact List.mem_append.mpr (Or.inl (callNames_inst unq env hclean y
        (by intro n hn; exact h n (by rw [gcallNames]; exact List.mem_append.mpr (Or.inl hn))) x hx))
    · exact List.mem_append.mpr (Or.inr (callNames_inst unq env hclean z
        (by intro n hn; exact h n (by rw [gcallNames]; exact List.mem_append.mpr (Or.inr hn))) x hx))
  | .call f as, h, x, hx => by
    rw [inst, callNames_call] at hx
    rw [gcallNames_call] at h ⊢
    rcases List.mem_append.mp hx with hx | hx
    · -- the callee: an identifier of the body that is not a parameter stays what it was
      apply List.mem_append.mpr; left
      cases f with
      | ident n =>
        have hl : env.lookup n = none := h n (by simp [gheadName])
        rw [inst, hl] at hx
        simpa [headName, gheadName] using hx
      | lit k t => rw [inst] at hx; simp [headName] at hx
      | paren y => rw [inst] at hx; simp [headName] at hx
      | sel y m => rw [inst] at hx; simp [headName] at hx
      | index y i => rw [inst] at hx; simp [headName] at hx
      | call g bs => rw [inst] at hx; simp [headName] at hx
      | unary o y => rw [inst] at hx; simp [headName] at hx
      | binary o y z => rw [inst] at hx; simp [headName] at hx
    · apply List.mem_append.mpr; right
      rcases List.mem_append.mp hx with hx | hx
      · exact List.mem_append.mpr (Or.inl (callNames_inst unq env hclean f
          (by intro n hn; exact h n (by simp [hn])) x hx))
      · exact List.mem_append.mpr (Or.inr (callNamesL_inst unq env hclean as
          (by intro n hn; exact h n (by simp [hn])) x hx))
theorem callNamesL_inst (unq : String → Option Bytes) (env : List (String × CExpr)) (hclean : ∀ p ∈ env, callNames p.2 = []) :
    ∀ (es : List GExpr), (∀ n ∈ gcallNamesL es, env.lookup n = none) → ∀ x ∈ callNamesL (instList unq env es), x ∈ gcallNamesL es
  | [], _, x, hx => by rw [instList, callNamesL] at hx; cases hx
  | a :: as, h, x, hx => by
    rw [instList, callNamesL] at hx
    rw [gcallNamesL]
    rcases List.mem_append.mp hx with hx | hx
    · exact List.mem_append.mpr (Or.inl (callNames_inst unq env hclean a
        (by intro n hn; exact h n (by rw [gcallNamesL]; exact List.mem_append.mpr (Or.inl hn))) x hx))
    · exact List.mem_append.mpr (Or.inr (callNamesL_inst unq env hclean as
        (by intro n hn; exact h n (by rw [gcallNamesL]; exact List.mem_append.mpr (Or.inr hn))) x hx))
end

theorem findMacro_idx : ∀ {fs : List MacroDef} {n : String} {d : MacroDef}, findMacro fs n = some d →
    ∃ j, idxOf fs n = some j ∧ fs[j]? = some d
  | [], _, _, h => by simp [findMacro] at h
  | a :: t, n, d, h => by
    unfold findMacro at h
    unfold idxOf
    rw [List.find?_cons] at h
    rw [List.findIdx?_cons]
    by_cases hp : (a.name == n) = true
    · simp only [hp] at h ⊢
      simp only [Option.some.injEq] at h
      exact ⟨0, by simp, by simp [h]⟩
    · have hp' : (a.name == n) = false := by simpa using hp
      simp only [hp'] at h ⊢
      obtain ⟨j, hj, hd⟩ := findMacro_idx (fs := t) (n := n) (d := d) h
      unfold idxOf at hj
      exact ⟨j + 1, by simp [hj], by simpa using hd⟩

theorem idxOf_lt {fs : List MacroDef} {n : String} {j : Nat} (h : idxOf fs n = some j) : j < fs.length := by
  unfold idxOf at h
  exact (List.findIdx?_eq_some_iff_getElem.mp h).1

theorem acyclicAt_spec {fs : List MacroDef} (h : acyclicAt fs = true) {j : Nat} {d : MacroDef} (hd : fs[j]? = some d) :
    ∀ n ∈ gcallNames d.body, n ∉ d.params ∧ ∀ j', idxOf fs n = some j' → j' < j := by
  intro n hn
  unfold acyclicAt at h
  rw [List.all_eq_true] at h
  have hj : j < fs.length := by
    rcases Nat.lt_or_ge j fs.length with hlt | hge
    · exact hlt
    · rw [List.getElem?_eq_none hge] at hd; cases hd
  have := h j (List.mem_range.mpr hj)
  simp only [hd] at this
  rw [List.all_eq_true] at this
  have := this n hn
  simp only [Bool.and_eq_true, Bool.not_eq_true', List.contains_eq_mem, decide_eq_false_iff_not] at this
  refine ⟨this.1, ?_⟩
  intro j' hj'
  have h2 := this.2
  simp only [hj', decide_eq_true_eq] at h2
  exact h2

/-- **convertM_noPanic_acyclic**: the converter as it is (no recursion guard) does not exhaust `fuel` nested
expansions on an expression whose helper calls sit below `fuel` in an acyclic table -/
theorem convertM_noPanic_acyclic (cfg : Cfg) (fs : List MacroDef) (hac : acyclicAt fs = true) :
    ∀ (fuel : Nat) (active : List String) (e : CExpr), (∀ n ∈ callNames e, ∀ j, idxOf fs n = some j → j < fuel) →
      ∀ p, convertM cfg fs fuel active e ≠ .panic p
  | 0, active, e, hlev, p => by
    rw [convertM]
    apply convertH_noPanic
    intro n hn as q
    unfold hookOf
    split
    · simp
    · rename_i d hd
      obtain ⟨j, hj, _⟩ := findMacro_idx hd
      exact absurd (hlev n hn j hj) (Nat.not_lt_zero j)
  | fuel + 1, active, e, hlev, p => by
    rw [convertM]
    apply convertH_noPanic
    intro n hn as q
    unfold hookOf
    split
    · simp
    · rename_i d hd
      obtain ⟨j, hj, hjd⟩ := findMacro_idx hd
      have hjf : j < fuel + 1 := hlev n hn j hj
      simp only [Option.some.injEq, ne_eq]
      split
      · simp
      · unfold expandC
        by_cases hchk : checkArgsC cfg.matcher d.params as = true
        · simp only [hchk, if_true, CRes.bind]
          have hspec := acyclicAt_spec hac hjd
          have hclean := bindArgsC_clean cfg.matcher d.params as hchk
          have hnone : ∀ n' ∈ gcallNames d.body, (bindArgsC d.params as).lookup n' = none := by
            intro n' hn'
            apply lookup_none_of_not_key
            intro p hp heq
            exact (hspec n' hn').1 (heq ▸ bindArgsC_keys d.params as p hp)
          refine convertM_noPanic_acyclic cfg fs hac fuel (n :: active)
            (inst cfg.unq (bindArgsC d.params as) d.body) ?_ q
          intro n' hn' j' hj'
          have h1 := callNames_inst cfg.unq _ hclean d.body hnone n' hn'
          have h2 := (hspec n' h1).2 j' hj'
          omega
        · simp [hchk, CRes.bind]

/-! ## 2. the chain walk, rules, the statement loop, the group -/

theorem link_noPanic (c : Chain) (name : String) (args : List (Nat × CExpr)) (p : Panic) : link c name args ≠ .panic p := by
  unfold link
  repeat' split
  all_goals simp

/-- the walk itself never panics: whatever the receivers, the names, the arities -/
theorem walk_noPanic : ∀ (c : Chain) (e : RExpr) (p : Panic), walk c e ≠ .panic p
  | c, .call (.sel x name) args, p => by
    rw [walk]
    apply bind_noPanic (link_noPanic c name args)
    intro c' q
    split
    · exact walk_noPanic c' x q
    · simp
  | c, .call (.ident _) _, p => by rw [walk]; simp; intro _ _ _ h; cases h
  | c, .call (.call _ _) _, p => by rw [walk]; simp; intro _ _ _ h; cases h
  | c, .call .other _, p => by rw [walk]; simp; intro _ _ _ h; cases h
  | c, .ident _, p => by rw [walk]; simp; intros; contradiction
  | c, .sel _ _, p => by rw [walk]; simp; intros; contradiction
  | c, .other, p => by rw [walk]; simp; intros; contradiction

theorem ruleExpr_noPanic (dec : Bytes → String) (cfg : Cfg) (har : cfg.ar = true) (fuel : Nat) (fs : List MacroDef)
    (hconv : ∀ e p, convertM cfg fs fuel [] e ≠ .panic p) (line : Nat) (x : RExpr) :
    ∀ p, ruleExpr dec cfg fuel fs line x ≠ .panic p := by
  unfold ruleExpr
  apply bind_noPanic (walk_noPanic _ x)
  intro c
  rw [har]
  exact convertRuleW_noPanic _ hconv dec c

theorem ruleExpr_wf (dec : Bytes → String) (cfg : Cfg) (har : cfg.ar = true) (fuel : Nat) (fs : List MacroDef)
    (line : Nat) (x : RExpr) (r : Loader.Rule) (h : ruleExpr dec cfg fuel fs line x = .ok r) : wfRule r = true := by
  unfold ruleExpr at h
  obtain ⟨c, _, h⟩ := bind_ok h
  rw [har] at h
  exact convertRuleW_wf _ (convertM_out cfg har fs fuel []) dec c r h

theorem localDefine_noPanic (lhs : List Lhs) (rhs : List Rhs) (p : Panic) : localDefine lhs rhs ≠ .panic p := by
  unfold localDefine
  repeat' split
  all_goals simp

theorem doImport_noPanic (x : RExpr) (h : x.hasArg = true) (p : Panic) : doImport x ≠ .panic p := by
  unfold doImport
  split
  · exact parseStringArg_noPanic _ p
  · simp [RExpr.hasArg] at h
  · simp

/-- the statement loop does not panic as long as an invariant that is kept along the loop makes the rule
conversion panic-free and the `Import` calls well-typed -/
theorem stmtLoopG_noPanic {ρ : Type} (matcher : String) (cr : List MacroDef → Nat → RExpr → CRes ρ)
    (Inv : List MacroDef → List Stmt → Prop)
    (hdef : ∀ fs l r rest d, Inv fs (.assign true l r :: rest) → localDefine l r = .ok d → Inv (fs ++ [d]) rest)
    (hdecl : ∀ fs rest, Inv fs (.decl :: rest) → Inv fs rest)
    (hexpr : ∀ fs line x rest, Inv fs (.expr line x :: rest) → Inv fs rest ∧ (∀ p, cr fs line x ≠ .panic p) ∧
      (matcherMethodName matcher x = "Import" → x.hasArg = true)) :
    ∀ (stmts : List Stmt) (fs : List MacroDef) (seen : Bool), Inv fs stmts → ∀ p, stmtLoopG matcher cr fs seen stmts ≠ .panic p
  | [], fs, seen, _, p => by simp [stmtLoopG]
  | .assign true l r :: rest, fs, seen, hinv, p => by
    rw [stmtLoopG]
    intro h
    cases hd : localDefine l r with
    | ok d =>
      rw [hd] at h
      exact stmtLoopG_noPanic matcher cr Inv hdef hdecl hexpr rest (fs ++ [d]) seen (hdef fs l r rest d hinv hd) p h
    | err => rw [hd] at h; simp [CRes.bind] at h
    | panic q => exact localDefine_noPanic l r q hd
  | .assign false l r :: rest, fs, seen, _, p => by simp [stmtLoopG]
  | .decl :: rest, fs, seen, hinv, p => by
    rw [stmtLoopG]
    exact stmtLoopG_noPanic matcher cr Inv hdef hdecl hexpr rest fs seen (hdecl fs rest hinv) p
  | .other :: rest, fs, seen, _, p => by simp [stmtLoopG]
  | .expr line x :: rest, fs, seen, hinv, p => by
    rw [stmtLoopG]
    obtain ⟨hrest, hcr, himp⟩ := hexpr fs line x rest hinv
    split
    · simp
    · split
      · rename_i hm
        split
        · simp
        · revert p
          apply bind_noPanic (doImport_noPanic x (himp (by simpa using hm)))
          intro pth
          apply bind_noPanic (stmtLoopG_noPanic matcher cr Inv hdef hdecl hexpr rest fs seen hrest)
          intro out q; simp
      · revert p
        apply bind_noPanic hcr
        intro r
        apply bind_noPanic (stmtLoopG_noPanic matcher cr Inv hdef hdecl hexpr rest fs true hrest)
        intro out q; simp

/-- everything the statement loop returns was returned by the rule conversion, under some helper table -/
theorem stmtLoopG_all {ρ : Type} (matcher : String) (cr : List MacroDef → Nat → RExpr → CRes ρ) (Q : ρ → Prop)
    (hcr : ∀ fs line x r, cr fs line x = .ok r → Q r) :
    ∀ (stmts : List Stmt) (fs : List MacroDef) (seen : Bool) (out : List Bytes × List ρ),
      stmtLoopG matcher cr fs seen stmts = .ok out → ∀ r ∈ out.2, Q r
  | [], fs, seen, out, h, r, hr => by
    simp only [stmtLoopG] at h; have := cres_ok_inj h; subst this; simp at hr
  | .assign true l rh :: rest, fs, seen, out, h, r, hr => by
    rw [stmtLoopG] at h
    obtain ⟨d, _, h⟩ := bind_ok h
    exact stmtLoopG_all matcher cr Q hcr rest _ seen out h r hr
  | .assign false l rh :: rest, fs, seen, out, h, r, hr => by simp [stmtLoopG] at h
  | .decl :: rest, fs, seen, out, h, r, hr => by
    rw [stmtLoopG] at h
    exact stmtLoopG_all matcher cr Q hcr rest _ seen out h r hr
  | .other :: rest, fs, seen, out, h, r, hr => by simp [stmtLoopG] at h
  | .expr line x :: rest, fs, seen, out, h, r, hr => by
    rw [stmtLoopG] at h
    split at h
    · cases h
    · split at h
      · split at h
        · cases h
        · obtain ⟨pth, _, h⟩ := bind_ok h
          obtain ⟨out', hout', h⟩ := bind_ok h
          have := cres_ok_inj h; subst this
          exact stmtLoopG_all matcher cr Q hcr rest _ seen out' hout' r hr
      · obtain ⟨r0, hr0, h⟩ := bind_ok h
        obtain ⟨out', hout', h⟩ := bind_ok h
        have := cres_ok_inj h; subst this
        rcases List.mem_cons.mp hr with rfl | hr
        · exact hcr fs line x _ hr0
        · exact stmtLoopG_all matcher cr Q hcr rest _ true out' hout' r hr

/-- every pragma the search can return is one the final `switch` handles: `panic("unhandled 'doc' pragma")` is dead code -/
theorem pragmas_handled : ∀ p ∈ knownPragmas, handledPragmas.contains p = true := by decide

theorem docComment_noPanic (t : Bytes) (p : Panic) : docComment t ≠ .panic p := by
  unfold docComment
  split
  · simp
  · simp only
    split
    · simp
    · rename_i pragma hf
      have hm : pragma ∈ knownPragmas := List.mem_of_find?_eq_some hf
      have := pragmas_handled pragma hm
      simp only [List.contains_eq_mem, decide_eq_true_eq] at this
      simp [this]

theorem docComments_noPanic : ∀ (ts : List Bytes) (p : Panic), docComments ts ≠ .panic p
  | [], p => by simp [docComments]
  | t :: ts, p => by
    rw [docComments]
    revert p
    apply bind_noPanic (docComment_noPanic t)
    intro d
    apply bind_noPanic (docComments_noPanic ts)
    intro ds q; simp

/-- the loop invariant for the code as it is: `Import` calls typed, the helper tables acyclic, fuel for every helper -/
def InvAsIs (matcher : String) (fuel : Nat) (fs : List MacroDef) (stmts : List Stmt) : Prop :=
  importTyped matcher stmts = true ∧ acyclicBody fs stmts = true ∧ fs.length + stmts.length ≤ fuel

/-- … with the recursion guard: no condition on the helpers -/
def InvGuard (matcher : String) (fuel : Nat) (fs : List MacroDef) (stmts : List Stmt) : Prop :=
  importTyped matcher stmts = true ∧ fs.length + stmts.length ≤ fuel

theorem importTyped_expr {matcher : String} {line : Nat} {x : RExpr} {rest : List Stmt}
    (h : importTyped matcher (.expr line x :: rest) = true) :
    importTyped matcher rest = true ∧ (matcherMethodName matcher x = "Import" → x.hasArg = true) := by
  simp only [importTyped, Bool.and_eq_true] at h
  refine ⟨h.2, ?_⟩
  intro hm
  have h1 := h.1
  rw [hm] at h1
  simpa using h1

theorem importTyped_assign {matcher : String} {b : Bool} {l : List Lhs} {r : List Rhs} {rest : List Stmt}
    (h : importTyped matcher (.assign b l r :: rest) = true) : importTyped matcher rest = true := by
  simpa [importTyped] using h

theorem importTyped_decl {matcher : String} {rest : List Stmt}
    (h : importTyped matcher (.decl :: rest) = true) : importTyped matcher rest = true := by
  simpa [importTyped] using h

theorem acyclicBody_decl {fs : List MacroDef} {rest : List Stmt}
    (h : acyclicBody fs (.decl :: rest) = true) : acyclicBody fs rest = true := by
  simpa [acyclicBody] using h

theorem stmtLoop_noPanic_asis (dec : Bytes → String) (cfg : Cfg) (har : cfg.ar = true) (fuel : Nat)
    (stmts : List Stmt) (fs : List MacroDef) (seen : Bool) (h : InvAsIs cfg.matcher fuel fs stmts) :
    ∀ p, stmtLoopG cfg.matcher (ruleExpr dec cfg fuel) fs seen stmts ≠ .panic p := by
  apply stmtLoopG_noPanic cfg.matcher _ (InvAsIs cfg.matcher fuel) _ _ _ stmts fs seen h
  · intro fs l r rest d hinv hd
    obtain ⟨h1, h2, h3⟩ := hinv
    refine ⟨importTyped_assign h1, ?_, by simp only [List.length_append, List.length_cons, List.length_nil] at h3 ⊢; omega⟩
    simp only [acyclicBody, hd] at h2; exact h2
  · intro fs rest hinv
    obtain ⟨h1, h2, h3⟩ := hinv
    exact ⟨importTyped_decl h1, acyclicBody_decl h2, by simp only [List.length_cons] at h3; omega⟩
  · intro fs line x rest hinv
    obtain ⟨h1, h2, h3⟩ := hinv
    obtain ⟨hi1, hi2⟩ := importTyped_expr h1
    simp only [acyclicBody, Bool.and_eq_true] at h2
    refine ⟨⟨hi1, h2.2, by simp only [List.length_cons] at h3; omega⟩, ?_, hi2⟩
    apply ruleExpr_noPanic dec cfg har fuel fs
    intro e
    apply convertM_noPanic_acyclic cfg fs h2.1 fuel [] e
    intro n _ j hj
    have := idxOf_lt hj
    simp only [List.length_cons] at h3
    omega

theorem stmtLoop_noPanic_guard (dec : Bytes → String) (cfg : Cfg) (har : cfg.ar = true) (hrg : cfg.rg = true) (fuel : Nat)
    (stmts : List Stmt) (fs : List MacroDef) (seen : Bool) (h : InvGuard cfg.matcher fuel fs stmts) :
    ∀ p, stmtLoopG cfg.matcher (ruleExpr dec cfg fuel) fs seen stmts ≠ .panic p := by
  apply stmtLoopG_noPanic cfg.matcher _ (InvGuard cfg.matcher fuel) _ _ _ stmts fs seen h
  · intro fs l r rest d hinv hd
    obtain ⟨h1, h3⟩ := hinv
    exact ⟨importTyped_assign h1, by simp only [List.length_append, List.length_cons, List.length_nil] at h3 ⊢; omega⟩
  · intro fs rest hinv
    obtain ⟨h1, h3⟩ := hinv
    exact ⟨importTyped_decl h1, by simp only [List.length_cons] at h3; omega⟩
  · intro fs line x rest hinv
    obtain ⟨h1, h3⟩ := hinv
    obtain ⟨hi1, hi2⟩ := importTyped_expr h1
    refine ⟨⟨hi1, by simp only [List.length_cons] at h3; omega⟩, ?_, hi2⟩
    apply ruleExpr_noPanic dec cfg har fuel fs
    intro e
    apply convertM_noPanic_guard cfg hrg fs fuel [] List.nodup_nil (by intro a ha; cases ha)
    simp only [List.length_cons, List.length_nil] at h3 ⊢
    omega

theorem convertGroupM_noPanic (dec : Bytes → String) (env : Env) (har : env.ar = true) (fuel : Nat) (g : Group)
    (hfuel : g.body.length ≤ fuel) (htyped : g.importTyped = true) (hh : env.rg = true ∨ g.acyclic = true) :
    ∀ p, convertGroupM dec env fuel g ≠ .panic p := by
  unfold convertGroupM
  cases hpn : g.paramNames with
  | nil => simp
  | cons matcher _ =>
    simp only
    apply bind_noPanic
    · cases g.doc with
      | none => simp
      | some cs => exact docComments_noPanic cs
    intro docs
    apply bind_noPanic
    · have htyped' : importTyped matcher g.body = true := by
        unfold Group.importTyped at htyped; rw [hpn] at htyped; exact htyped
      rcases hh with hrg | hac
      · exact stmtLoop_noPanic_guard dec (env.cfg matcher) har hrg fuel g.body [] false
          ⟨htyped', by simpa using hfuel⟩
      · exact stmtLoop_noPanic_asis dec (env.cfg matcher) har fuel g.body [] false
          ⟨htyped', hac, by simpa using hfuel⟩
    · intro out q; simp

theorem convertGroupM_wf (dec : Bytes → String) (env : Env) (har : env.ar = true) (fuel : Nat) (g : Group) (out : GroupOut)
    (h : convertGroupM dec env fuel g = .ok out) : ∀ r ∈ out.group.rules, wfRule r = true := by
  unfold convertGroupM at h
  cases hpn : g.paramNames with
  | nil => simp [hpn] at h
  | cons matcher _ =>
    simp only [hpn] at h
    obtain ⟨docs, _, h⟩ := bind_ok h
    obtain ⟨o, ho, h⟩ := bind_ok h
    have := cres_ok_inj h; subst this
    intro r hr
    exact stmtLoopG_all matcher _ (fun r => wfRule r = true)
      (fun fs line x r h => ruleExpr_wf dec (env.cfg matcher) har fuel fs line x r h) g.body [] false o ho r hr

/-! ## 3. `convertInitFunc`, the declaration loop -/

theorem initStmt_noPanic_fixed (dn : String) (s : IStmt) (p : Panic) : initStmt true dn s ≠ .panic p := by
  unfold initStmt
  split
  · simp
  · simp
  · split
    · simp
    · split
      · simp
      · split
        · simp
        · split
          · split
            · simp
            · rename_i args hlen
              split
              · simp at hlen
              · rename_i a0 rest
                apply bind_noPanic (parseStringArg_noPanic _) _ p
                intro pfx q
                split
                · simp at hlen
                · split
                  · split <;> simp
                  · simp
          · simp

theorem initStmt_noPanic_safe (dn : String) (s : IStmt)
    (h : ∀ line pkg name args, s = .call line (.sel (.ident pkg) name) args → pkg = dn → name = "ImportRules" →
      importRulesSafe args = true) (p : Panic) : initStmt false dn s ≠ .panic p := by
  unfold initStmt
  split
  · simp
  · simp
  · rename_i line fn args
    split
    · simp
    · rename_i x name
      split
      · simp
      · rename_i pkg
        split
        · simp
        · rename_i hpkg
          split
          · rename_i hname
            have hsafe := h line pkg name args rfl (by simpa using hpkg) (by simpa using hname)
            simp only [Bool.false_and, Bool.false_eq_true, if_false]
            split
            · simp [importRulesSafe] at hsafe
            · rename_i a0 rest'
              apply bind_noPanic (parseStringArg_noPanic _) _ p
              intro pfx q
              split
              · simp [importRulesSafe] at hsafe
              · rename_i a1 _
                simp only [importRulesSafe] at hsafe
                split
                · rename_i hsel
                  rw [hsel] at hsafe
                  simp only at hsafe
                  split
                  · simp
                  · rename_i hobj
                    split at hsafe
                    · rename_i pth hpk; exact absurd hpk (hobj pth)
                    · cases hsafe
                · simp
          · simp

theorem initSafe_cons {dn : String} {s : IStmt} {rest : List IStmt} (h : initSafe dn (s :: rest) = true) :
    initSafe dn rest = true ∧
    (∀ line pkg name args, s = .call line (.sel (.ident pkg) name) args → pkg = dn → name = "ImportRules" →
      importRulesSafe args = true) := by
  cases s with
  | call line fn args =>
    cases fn with
    | sel x name =>
      cases x with
      | ident pkg =>
        simp only [initSafe, Bool.and_eq_true] at h
        refine ⟨h.2, ?_⟩
        intro line' pkg' name' args' heq hp hn
        cases heq
        have h1 := h.1
        rw [hp, hn] at h1
        simpa using h1
      | other => exact ⟨by simpa [initSafe] using h, by intro _ _ _ _ heq; cases heq⟩
    | other => exact ⟨by simpa [initSafe] using h, by intro _ _ _ _ heq; cases heq⟩
  | exprOther => exact ⟨by simpa [initSafe] using h, by intro _ _ _ _ heq; cases heq⟩
  | other => exact ⟨by simpa [initSafe] using h, by intro _ _ _ _ heq; cases heq⟩

theorem initStmts_noPanic_asis (dn : String) : ∀ (body : List IStmt), initSafe dn body = true →
    ∀ p, seqC (initStmt false dn) body ≠ .panic p
  | [], _, p => by simp [seqC]
  | s :: rest, h, p => by
    rw [seqC]
    obtain ⟨hrest, hs⟩ := initSafe_cons h
    revert p
    apply bind_noPanic (initStmt_noPanic_safe dn s hs)
    intro b
    apply bind_noPanic (initStmts_noPanic_asis dn rest hrest)
    intro bs q; simp

theorem initStmts_noPanic_fixed (dn : String) (body : List IStmt) : ∀ p, seqC (initStmt true dn) body ≠ .panic p :=
  seqC_noPanic _ body (fun s _ => initStmt_noPanic_fixed dn s)

theorem declLoop_noPanic (dec : Bytes → String) (env : Env) (ifx : Bool) (fuel : Nat) (dn : String) :
    ∀ (ds : List Decl),
      (∀ g, Decl.group g ∈ ds → ∀ p, convertGroupM dec env fuel g ≠ .panic p) →
      (∀ b, Decl.init b ∈ ds → ∀ p, seqC (initStmt ifx dn) b ≠ .panic p) →
      ∀ p, declLoop dec env ifx fuel dn ds ≠ .panic p
  | [], _, _, p => by simp [declLoop]
  | .gen :: ds, hg, hi, p => by
    rw [declLoop]
    exact declLoop_noPanic dec env ifx fuel dn ds (fun g h => hg g (by simp [h])) (fun b h => hi b (by simp [h])) p
  | .custom :: ds, hg, hi, p => by
    rw [declLoop]
    exact declLoop_noPanic dec env ifx fuel dn ds (fun g h => hg g (by simp [h])) (fun b h => hi b (by simp [h])) p
  | .bodyless :: ds, _, _, p => by simp [declLoop]
  | .init body :: ds, hg, hi, p => by
    rw [declLoop]
    revert p
    apply bind_noPanic (hi body (by simp))
    intro bs
    apply bind_noPanic (declLoop_noPanic dec env ifx fuel dn ds (fun g h => hg g (by simp [h])) (fun b h => hi b (by simp [h])))
    intro out q; simp
  | .group g :: ds, hg, hi, p => by
    rw [declLoop]
    revert p
    apply bind_noPanic (hg g (by simp))
    intro go
    apply bind_noPanic (declLoop_noPanic dec env ifx fuel dn ds (fun g h => hg g (by simp [h])) (fun b h => hi b (by simp [h])))
    intro out q; simp

theorem declLoop_groups (dec : Bytes → String) (env : Env) (ifx : Bool) (fuel : Nat) (dn : String) :
    ∀ (ds : List Decl) (out : List GroupOut × List Bundle), declLoop dec env ifx fuel dn ds = .ok out →
      ∀ go ∈ out.1, ∃ g, Decl.group g ∈ ds ∧ convertGroupM dec env fuel g = .ok go
  | [], out, h, go, hgo => by
    simp only [declLoop] at h; have := cres_ok_inj h; subst this; simp at hgo
  | .gen :: ds, out, h, go, hgo => by
    rw [declLoop] at h
    obtain ⟨g, hg, hc⟩ := declLoop_groups dec env ifx fuel dn ds out h go hgo
    exact ⟨g, by simp [hg], hc⟩
  | .custom :: ds, out, h, go, hgo => by
    rw [declLoop] at h
    obtain ⟨g, hg, hc⟩ := declLoop_groups dec env ifx fuel dn ds out h go hgo
    exact ⟨g, by simp [hg], hc⟩
  | .bodyless :: ds, out, h, go, hgo => by simp [declLoop] at h
  | .init body :: ds, out, h, go, hgo => by
    rw [declLoop] at h
    obtain ⟨bs, _, h⟩ := bind_ok h
    obtain ⟨out', hout', h⟩ := bind_ok h
    have := cres_ok_inj h; subst this
    obtain ⟨g, hg, hc⟩ := declLoop_groups dec env ifx fuel dn ds out' hout' go hgo
    exact ⟨g, by simp [hg], hc⟩
  | .group g0 :: ds, out, h, go, hgo => by
    rw [declLoop] at h
    obtain ⟨go0, hgo0, h⟩ := bind_ok h
    obtain ⟨out', hout', h⟩ := bind_ok h
    have := cres_ok_inj h; subst this
    rcases List.mem_cons.mp hgo with rfl | hgo
    · exact ⟨g0, by simp, hgo0⟩
    · obtain ⟨g, hg, hc⟩ := declLoop_groups dec env ifx fuel dn ds out' hout' go hgo
      exact ⟨g, by simp [hg], hc⟩

theorem dslPkgname_noPanic : ∀ (cur : String) (is : List Imp) (p : Panic), dslPkgname cur is ≠ .panic p
  | _, [], p => by simp [dslPkgname]
  | cur, i :: is, p => by
    rw [dslPkgname]
    split
    · simp
    · exact dslPkgname_noPanic _ is p

/-! ## 4. the connection with C18's model of helper definitions -/

theorem macroDef_eta (d : MacroDef) : (⟨d.name, d.params, d.body⟩ : MacroDef) = d := by cases d; rfl

/-- **the statement loop is `MacroLit.groupLoop`**: instantiated with name resolution instead of rule conversion, what
it returns is what C18's loop returns — the helper table a rule statement is converted with is the table C18's theorems
(`group_calls_see_go_binding`) are about -/
theorem stmtLoop_groupLoop (matcher : String) : ∀ (stmts : List Stmt) (fs : List MacroDef) (seen : Bool)
    (out : List Bytes × List (List (Option MacroDef))), stmtLoopG matcher resolveCalls fs seen stmts = .ok out →
      groupLoop fs (stmts.map (toMacroStmt matcher)) = some out.2
  | [], fs, seen, out, h => by
    simp only [stmtLoopG] at h; have := cres_ok_inj h; subst this; simp [groupLoop]
  | .assign true l r :: rest, fs, seen, out, h => by
    rw [stmtLoopG] at h
    obtain ⟨d, hd, h⟩ := bind_ok h
    simp only [List.map_cons, toMacroStmt, hd, groupLoop, macroDef_eta]
    exact stmtLoop_groupLoop matcher rest _ seen out h
  | .assign false l r :: rest, fs, seen, out, h => by simp [stmtLoopG] at h
  | .other :: rest, fs, seen, out, h => by simp [stmtLoopG] at h
  | .decl :: rest, fs, seen, out, h => by
    rw [stmtLoopG] at h
    simp only [List.map_cons, toMacroStmt, groupLoop]
    exact stmtLoop_groupLoop matcher rest fs seen out h
  | .expr line x :: rest, fs, seen, out, h => by
    rw [stmtLoopG] at h
    split at h
    · cases h
    · rename_i hcall
      split at h
      · rename_i himp
        split at h
        · cases h
        · obtain ⟨pth, _, h⟩ := bind_ok h
          obtain ⟨out', hout', h⟩ := bind_ok h
          have := cres_ok_inj h; subst this
          simp only [List.map_cons, toMacroStmt, hcall, himp, if_true, Bool.false_eq_true, if_false, groupLoop]
          exact stmtLoop_groupLoop matcher rest fs seen out' hout'
      · rename_i himp
        obtain ⟨r0, hr0, h⟩ := bind_ok h
        obtain ⟨out', hout', h⟩ := bind_ok h
        have := cres_ok_inj h; subst this
        have ih := stmtLoop_groupLoop matcher rest fs true out' hout'
        simp only [resolveCalls] at hr0
        have := cres_ok_inj hr0; subst this
        simp only [List.map_cons, toMacroStmt, hcall, himp, Bool.false_eq_true, if_false, groupLoop, ih]

/-- … and what `MacroLit.groupLoop` refuses, the statement loop refuses whatever the rule conversion does -/
theorem groupLoop_refusal {ρ : Type} (matcher : String) (cr : List MacroDef → Nat → RExpr → CRes ρ) :
    ∀ (stmts : List Stmt) (fs : List MacroDef) (seen : Bool), groupLoop fs (stmts.map (toMacroStmt matcher)) = none →
      ∀ out, stmtLoopG matcher cr fs seen stmts ≠ .ok out
  | [], fs, seen, h, out => by simp [groupLoop] at h
  | .assign true l r :: rest, fs, seen, h, out => by
    rw [stmtLoopG]
    intro hok
    obtain ⟨d, hd, hok⟩ := bind_ok hok
    simp only [List.map_cons, toMacroStmt, hd, groupLoop, macroDef_eta] at h
    exact groupLoop_refusal matcher cr rest _ seen h out hok
  | .assign false l r :: rest, fs, seen, h, out => by simp [stmtLoopG]
  | .other :: rest, fs, seen, h, out => by simp [stmtLoopG]
  | .decl :: rest, fs, seen, h, out => by
    rw [stmtLoopG]
    simp only [List.map_cons, toMacroStmt, groupLoop] at h
    exact groupLoop_refusal matcher cr rest fs seen h out
  | .expr line x :: rest, fs, seen, h, out => by
    rw [stmtLoopG]
    intro hok
    split at hok
    · cases hok
    · rename_i hcall
      split at hok
      · rename_i himp
        split at hok
        · cases hok
        · obtain ⟨pth, _, hok⟩ := bind_ok hok
          obtain ⟨out', hout', hok⟩ := bind_ok hok
          simp only [List.map_cons, toMacroStmt, hcall, himp, if_true, Bool.false_eq_true, if_false, groupLoop] at h
          exact groupLoop_refusal matcher cr rest fs seen h out' hout'
      · rename_i himp
        obtain ⟨r0, _, hok⟩ := bind_ok hok
        obtain ⟨out', hout', hok⟩ := bind_ok hok
        simp only [List.map_cons, toMacroStmt, hcall, himp, Bool.false_eq_true, if_false, groupLoop] at h
        have hrest : groupLoop fs (rest.map (toMacroStmt matcher)) = none := by
          cases hg : groupLoop fs (rest.map (toMacroStmt matcher)) with
          | none => rfl
          | some o => rw [hg] at h; cases h
        exact groupLoop_refusal matcher cr rest fs true hrest out' hout'

/-! ### the annotated expansion is an annotation of `Macro.expand`'s -/

mutual
/-- `c` is the expression `g` with what `types.Info` says about its nodes (a literal keeps only whether its
token kind is STRING: that is all `isSafe` and `toStringValue` ask) -/
inductive Shape : CExpr → GExpr → Prop
  | ident (a : Ann) (n : String) : Shape (.ident a n) (.ident n)
  | lit (a : Ann) (isStr : Bool) (u : Option Bytes) (k t : String) : isStr = (k == "STRING") → Shape (.lit a isStr u) (.lit k t)
  | paren (a : Ann) {x : CExpr} {g : GExpr} : Shape x g → Shape (.paren a x) (.paren g)
  | sel (a : Ann) (n : String) {x : CExpr} {g : GExpr} : Shape x g → Shape (.sel a x n) (.sel g n)
  | index (a : Ann) {x i : CExpr} {g j : GExpr} : Shape x g → Shape i j → Shape (.index a x i) (.index g j)
  | call (a : Ann) {f : CExpr} {g : GExpr} {as : List CExpr} {gs : List GExpr} :
      Shape f g → ShapeL as gs → Shape (.call a f as) (.call g gs)
  | unary (a : Ann) (o : String) {x : CExpr} {g : GExpr} : Shape x g → Shape (.unary a o x) (.unary o g)
  | binary (a : Ann) (o : String) {x y : CExpr} {g h : GExpr} : Shape x g → Shape y h → Shape (.binary a o x y) (.binary o g h)
inductive ShapeL : List CExpr → List GExpr → Prop
  | nil : ShapeL [] []
  | cons {c : CExpr} {g : GExpr} {cs : List CExpr} {gs : List GExpr} : Shape c g → ShapeL cs gs → ShapeL (c :: cs) (g :: gs)
end

theorem shape_unparen : ∀ {c : CExpr} {g : GExpr}, Shape c g → Shape (Conv.unparen c) (Macro.unparen g)
  | _, _, .paren a h => by rw [Conv.unparen, Macro.unparen]; exact shape_unparen h
  | _, _, .ident a n => by simp only [Conv.unparen, Macro.unparen]; exact .ident a n
  | _, _, .lit a b u k t e => by simp only [Conv.unparen, Macro.unparen]; exact .lit a b u k t e
  | _, _, .sel a n h => by simp only [Conv.unparen, Macro.unparen]; exact .sel a n h
  | _, _, .index a h1 h2 => by simp only [Conv.unparen, Macro.unparen]; exact .index a h1 h2
  | _, _, .call a h1 h2 => by simp only [Conv.unparen, Macro.unparen]; exact .call a h1 h2
  | _, _, .unary a o h => by simp only [Conv.unparen, Macro.unparen]; exact .unary a o h
  | _, _, .binary a o h1 h2 => by simp only [Conv.unparen, Macro.unparen]; exact .binary a o h1 h2

/-- `isSafeC` is `Macro.isSafe` -/
theorem isSafe_shape (m : String) {c : CExpr} {g : GExpr} (h : Shape c g) : isSafeC m c = Macro.isSafe m g := by
  unfold isSafeC Macro.isSafe
  have hu := shape_unparen h
  generalize Conv.unparen c = c' at hu
  generalize Macro.unparen g = g' at hu
  cases hu with
  | ident a n => rfl
  | lit a b u k t e => rfl
  | paren a h => rfl
  | sel a n h => rfl
  | call a h1 h2 => rfl
  | unary a o h => rfl
  | binary a o h1 h2 => rfl
  | index a hx hi =>
    simp only
    have hux := shape_unparen hx
    have hui := shape_unparen hi
    rename_i x i gx gi
    generalize Conv.unparen x = x' at hux
    generalize Macro.unparen gx = gx' at hux
    generalize Conv.unparen i = i' at hui
    generalize Macro.unparen gi = gi' at hui
    cases hux <;> cases hui <;> simp_all

theorem checkArgs_shape (m : String) : ∀ (ps : List String) {as : List CExpr} {gs : List GExpr} (i : Nat), ShapeL as gs →
    checkArgsC m ps as = (Macro.checkArgs true m ps gs i).isNone
  | ps, _, _, i, .nil => by cases ps <;> simp [checkArgsC, Macro.checkArgs]
  | [], _, _, i, .cons h hs => by simp [checkArgsC, Macro.checkArgs]
  | p :: ps, _, _, i, .cons h hs => by
    simp only [checkArgsC, Macro.checkArgs, isSafe_shape m h]
    cases Macro.isSafe m _ with
    | true => simpa using checkArgs_shape m ps (i + 1) hs
    | false => simp

/-- two environments that bind the same names to related values -/
def EnvRel (ec : List (String × CExpr)) (eg : List (String × GExpr)) : Prop :=
  ∀ n, match ec.lookup n, eg.lookup n with
    | some c, some g => Shape c g
    | none, none => True
    | _, _ => False

theorem bindArgs_shape : ∀ (ps : List String) {as : List CExpr} {gs : List GExpr}, ShapeL as gs →
    EnvRel (bindArgsC ps as) (Macro.bindArgs ps gs)
  | ps, _, _, .nil => by intro n; cases ps <;> simp [bindArgsC, Macro.bindArgs]
  | [], _, _, .cons h hs => by intro n; simp [bindArgsC, Macro.bindArgs]
  | p :: ps, _, _, .cons h hs => by
    intro n
    have ih := bindArgs_shape ps hs n
    simp only [bindArgsC, Macro.bindArgs, List.lookup_append]
    revert ih
    cases List.lookup n (bindArgsC ps _) <;> cases List.lookup n (Macro.bindArgs ps _) <;> intro ih
    · simp only [Option.none_or, List.lookup_cons, List.lookup_nil]
      cases n == p
      · trivial
      · exact shape_unparen h
    · exact ih.elim
    · exact ih.elim
    · simpa using ih

mutual
theorem inst_shape (unq : String → Option Bytes) {ec : List (String × CExpr)} {eg : List (String × GExpr)} (he : EnvRel ec eg) :
    ∀ (e : GExpr), Shape (inst unq ec e) (Macro.subst eg e)
  | .ident n => by
    rw [inst, Macro.subst, Macro.lookupArg]
    have := he n
    revert this
    cases List.lookup n ec <;> cases List.lookup n eg <;> intro h
    · exact .ident _ n
    · exact h.elim
    · exact h.elim
    · exact h
  | .lit k t => by rw [inst, Macro.subst]; exact .lit _ _ _ k t rfl
  | .paren x => by rw [inst, Macro.subst]; exact .paren _ (inst_shape unq he x)
  | .sel x n => by rw [inst, Macro.subst]; exact .sel _ n (inst_shape unq he x)
  | .index x i => by rw [inst, Macro.subst]; exact .index _ (inst_shape unq he x) (inst_shape unq he i)
  | .call f as => by rw [inst, Macro.subst]; exact .call _ (inst_shape unq he f) (instList_shape unq he as)
  | .unary o x => by rw [inst, Macro.subst]; exact .unary _ o (inst_shape unq he x)
  | .binary o x y => by rw [inst, Macro.subst]; exact .binary _ o (inst_shape unq he x) (inst_shape unq he y)
theorem instList_shape (unq : String → Option Bytes) {ec : List (String × CExpr)} {eg : List (String × GExpr)} (he : EnvRel ec eg) :
    ∀ (es : List GExpr), ShapeL (instList unq ec es) (Macro.substList eg es)
  | [] => by rw [instList, Macro.substList]; exact .nil
  | a :: as => by rw [instList, Macro.substList]; exact .cons (inst_shape unq he a) (instList_shape unq he as)
end

/-- **expandC_shape**: on arguments that are annotations of `gs`, the model's `expandMacro` refuses exactly when
`Macro.expand` does (`Macro.checkArgs`), and otherwise its expansion is an annotation of `Macro.expand`'s result
(`Macro.inline`: by `C18.macro_transparent` the helper's body with the arguments substituted) -/
theorem expandC_shape (unq : String → Option Bytes) (m : String) (d : MacroDef) {as : List CExpr} {gs : List GExpr}
    (h : ShapeL as gs) :
    match Macro.checkArgs true m d.params gs 0 with
    | some _ => expandC unq m d as = .err
    | none => ∃ e', expandC unq m d as = .ok e' ∧ Shape e' (Macro.inline d.params gs d.body) := by
  have hc := checkArgs_shape m d.params 0 h
  unfold expandC
  cases hk : Macro.checkArgs true m d.params gs 0 with
  | some o => simp [hc, hk]
  | none =>
    simp only [hc, hk, Option.isNone_none, if_true]
    exact ⟨_, rfl, inst_shape unq (bindArgs_shape d.params h) d.body⟩

/-- … in terms of `Macro.expand` itself -/
theorem expandC_ok_shape (unq : String → Option Bytes) (m : String) (d : MacroDef) {as : List CExpr} {gs : List GExpr}
    (h : ShapeL as gs) (e' : CExpr) (hok : expandC unq m d as = .ok e') :
    Macro.expand m d.params gs d.body = .ok (Macro.inline d.params gs d.body) ∧ Shape e' (Macro.inline d.params gs d.body) := by
  have hs := expandC_shape unq m d h
  unfold Macro.expand
  cases hk : Macro.checkArgs true m d.params gs 0 with
  | some o => rw [hk] at hs; simp only at hs; rw [hs] at hok; cases hok
  | none =>
    rw [hk] at hs
    obtain ⟨e'', he'', hsh⟩ := hs
    rw [he''] at hok
    have := cres_ok_inj hok; subst this
    exact ⟨rfl, hsh⟩

end Grp
