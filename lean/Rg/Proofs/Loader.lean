import Rg.Spec.C06
/-! Lemmas for C06: no partial operation of the loader fires on well-formed IR; an accepted
alternative is structurally sound. -/
namespace Loader
open Gen.Op

/-- "did not panic" -/
def NoPanic {α} (x : Res α) : Prop := ∃ r, x = .ok r

theorem noPanic_lok {α} (a : α) : NoPanic (lok a) := ⟨_, rfl⟩
theorem noPanic_lerr {α} (l : Nat) (w : String) : NoPanic (lerr (α := α) l w) := ⟨_, rfl⟩

theorem noPanic_lbind {α β} {x : LRes α} {f : α → LRes β} (hx : NoPanic x) (hf : ∀ a, NoPanic (f a)) :
    NoPanic (lbind x f) := by
  obtain ⟨r, rfl⟩ := hx
  cases r with
  | error e => exact ⟨_, rfl⟩
  | ok a => exact hf a

theorem noPanic_ite {α} {c : Prop} [Decidable c] {x y : Res α} (hx : NoPanic x) (hy : NoPanic y) :
    NoPanic (if c then x else y) := by
  split <;> assumption

theorem asString_of_isStr {v : Val} (h : valIsStr v = true) : ∃ s, asString v = .ok s := by
  cases v <;> simp [valIsStr] at h
  exact ⟨_, rfl⟩

theorem argAt_of_get {args : List FE} {i : Nat} {a : FE} (h : args[i]? = some a) : argAt args i = .ok a := by
  simp [argAt, h]

theorem getFunc_strict (o : Oracles) (h : o.strict = true) (name : String) : NoPanic (getFunc o name) := by
  simp [getFunc, h, NoPanic]

theorem argCheck_noPanic (o : Oracles) (h : o.strict = true) (k : ArgCheck) (s : String) :
    NoPanic (argCheck o k s) := by
  cases k
  · exact ⟨_, rfl⟩
  · exact ⟨_, rfl⟩
  · simp only [argCheck]
    obtain ⟨b, hb⟩ := getFunc_strict o h s
    rw [hb]; cases b <;> exact ⟨_, rfl⟩

theorem stringArg0_noPanic (e a : FE) (emptyAt : ErrAt) (h0 : e.args[0]? = some a)
    (ha : (a.op != fString || valIsStr a.value) = true) : NoPanic (stringArg0 e emptyAt) := by
  simp only [stringArg0, argAt_of_get h0]
  by_cases hop : a.op = fString
  · have hv : valIsStr a.value = true := by simpa [hop] using ha
    obtain ⟨s, hs⟩ := asString_of_isStr hv
    simp only [unwrapString, hop, if_true, hs]
    split <;> first | exact ⟨_, rfl⟩ | simp_all
  · simp only [unwrapString, hop, if_false]
    exact ⟨_, rfl⟩

theorem leafFilter_noPanic (o : Oracles) (hs : o.strict = true) (e : FE) (hw : wfLeaf e = true) :
    NoPanic (leafFilter o e) := by
  unfold leafFilter
  unfold wfLeaf at hw
  cases hk : leafKind e.op with
  | strArg check needVar emptyAt =>
    simp only [hk] at hw
    cases h0 : e.args[0]? with
    | none => simp [h0] at hw
    | some a =>
      simp only [h0, Bool.and_eq_true] at hw
      apply noPanic_lbind (stringArg0_noPanic e a emptyAt h0 hw.1)
      intro ls
      cases check o ls.2 with
      | some msg => exact ⟨_, rfl⟩
      | none =>
        cases needVar with
        | false => exact ⟨_, rfl⟩
        | true =>
          have hv : valIsStr e.value = true := by simpa using hw.2
          obtain ⟨v, hv'⟩ := asString_of_isStr hv
          simp only [if_true, hv']; exact ⟨_, rfl⟩
  | varOnly =>
    simp only [hk] at hw
    obtain ⟨v, hv'⟩ := asString_of_isStr hw
    simp only [hv']; exact ⟨_, rfl⟩
  | noArgs => exact ⟨_, rfl⟩
  | valueStr check =>
    simp only [hk] at hw
    obtain ⟨v, hv'⟩ := asString_of_isStr hw
    simp only [hv']
    cases check o v <;> exact ⟨_, rfl⟩
  | varAndArgValue check =>
    simp only [hk, Bool.and_eq_true] at hw
    cases h0 : e.args[0]? with
    | none => simp [h0] at hw
    | some a =>
      simp only [h0] at hw
      obtain ⟨s, hs'⟩ := asString_of_isStr hw.2
      obtain ⟨v, hv'⟩ := asString_of_isStr hw.1
      simp only [argAt_of_get h0, hs']
      obtain ⟨r, hr⟩ := argCheck_noPanic o hs check s
      rw [hr]
      cases r with
      | some msg => exact ⟨_, rfl⟩
      | none => simp only [hv']; exact ⟨_, rfl⟩
  | unsupported => exact ⟨_, rfl⟩

theorem operand_cases (a : FE) (h : wfOperand a = true) :
    (a.op = fString ∧ valIsStr a.value = true) ∨ (a.op = fInt ∧ valIsInt a.value = true) ∨
    (a.op ≠ fString ∧ a.op ≠ fInt ∧ (!hasVar a.op || valIsStr a.value) = true) := by
  unfold wfOperand at h
  by_cases h1 : a.op = fString
  · simp [h1] at h; exact Or.inl ⟨h1, h⟩
  · by_cases h2 : a.op = fInt
    · simp [h2] at h; exact Or.inr (Or.inl ⟨h2, h⟩)
    · simp only [h1, h2, if_false] at h; exact Or.inr (Or.inr ⟨h1, h2, h⟩)

theorem rhsConstOf_ok (a : FE) (h : wfOperand a = true) :
    rhsConstOf a = .ok (decide (a.op = fString ∨ a.op = fInt)) := by
  rcases operand_cases a h with ⟨ho, hv⟩ | ⟨ho, hv⟩ | ⟨h1, h2, _⟩
  · cases hval : a.value <;> simp [valIsStr, hval] at hv
    simp [rhsConstOf, ho, hval]
  · cases hval : a.value <;> simp [valIsInt, hval] at hv
    have hne : ¬ (fInt = fString) := by decide
    simp [rhsConstOf, ho, hval, hne]
  · simp [rhsConstOf, h1, h2]

theorem strOnly_noPanic (a : FE) (h : valIsStr a.value = true) : NoPanic (strOnly a) := by
  obtain ⟨s, hs⟩ := asString_of_isStr h
  simp only [strOnly, hs]; exact ⟨_, rfl⟩

theorem strBoth_noPanic (a b : FE) (ha : valIsStr a.value = true) (hb : valIsStr b.value = true) :
    NoPanic (strBoth a b) := by
  obtain ⟨s, hs⟩ := asString_of_isStr ha
  obtain ⟨t, ht⟩ := asString_of_isStr hb
  simp only [strBoth, hs, ht]; exact ⟨_, rfl⟩

theorem operand_str_of_nonlit (a : FE) (h : wfOperand a = true) (h1 : a.op ≠ fString) (h2 : a.op ≠ fInt)
    (hv : hasVar a.op = true) : valIsStr a.value = true := by
  rcases operand_cases a h with ⟨ho, _⟩ | ⟨ho, _⟩ | ⟨_, _, hs⟩
  · exact absurd ho h1
  · exact absurd ho h2
  · simpa [hv] using hs

theorem operandVars_noPanic (strict : Bool) (lhs rhs : FE)
    (w0 : wfOperand lhs = true) (w1 : wfOperand rhs = true)
    (h0 : (!hasVar lhs.op || valIsStr lhs.value) = true) (h1 : (!hasVar rhs.op || valIsStr rhs.value) = true) :
    NoPanic (operandVars strict lhs rhs) := by
  unfold operandVars
  cases strict with
  | false => exact ⟨_, rfl⟩
  | true =>
    simp only [Bool.not_true, Bool.false_eq_true, if_false]
    have one : ∀ a : FE, (!hasVar a.op || valIsStr a.value) = true → NoPanic (operandVar1 a) := by
      intro a ha
      unfold operandVar1
      by_cases hv : hasVar a.op = true
      · have : valIsStr a.value = true := by simpa [hv] using ha
        obtain ⟨s, hs⟩ := asString_of_isStr this
        simp only [hv, if_true, hs]; exact ⟨_, rfl⟩
      · have hv' : hasVar a.op = false := by cases h : hasVar a.op <;> simp_all
        simp only [hv', Bool.false_eq_true, if_false]; exact ⟨_, rfl⟩
    obtain ⟨v0, e0⟩ := one lhs h0
    obtain ⟨v1, e1⟩ := one rhs h1
    simp only [e0, e1]; exact ⟨_, rfl⟩

theorem cmpCore_noPanic (strict : Bool) (hstrict : strict = true) (op line : Nat) (lhs rhs : FE)
    (w0 : wfOperand lhs = true) (w1 : wfOperand rhs = true)
    (h0 : (!hasVar lhs.op || valIsStr lhs.value) = true) (h1 : (!hasVar rhs.op || valIsStr rhs.value) = true) :
    NoPanic (cmpCore strict op line lhs rhs) := by
  unfold cmpCore
  split
  · exact ⟨_, rfl⟩
  · obtain ⟨ovs, hov⟩ := operandVars_noPanic strict lhs rhs w0 w1 h0 h1
    rw [hov, rhsConstOf_ok rhs w1]
    simp only []
    apply noPanic_lbind
    · by_cases hl : lhs.op = fVarLine ∨ lhs.op = fVarValueInt ∨ lhs.op = fVarText
      · have hlv : hasVar lhs.op = true := by rcases hl with h | h | h <;> (rw [h]; decide)
        have hls : valIsStr lhs.value = true := by
          apply operand_str_of_nonlit lhs w0 _ _ hlv
          · rcases hl with h | h | h <;> (rw [h]; decide)
          · rcases hl with h | h | h <;> (rw [h]; decide)
        simp only [hl, if_true]
        by_cases hc : rhs.op = fString ∨ rhs.op = fInt
        · simp only [hc, decide_true, if_true]; exact strOnly_noPanic lhs hls
        · simp only [hc, decide_false, Bool.false_eq_true, if_false]
          split
          · rename_i heq
            exact strBoth_noPanic lhs rhs hls
              (operand_str_of_nonlit rhs w1 (fun h => hc (Or.inl h)) (fun h => hc (Or.inr h)) (heq ▸ hlv))
          · exact ⟨_, rfl⟩
      · simp only [hl, if_false]
        by_cases hs : lhs.op = fVarTypeSize
        · have hlv : hasVar lhs.op = true := by rw [hs]; decide
          have hls : valIsStr lhs.value = true := by
            apply operand_str_of_nonlit lhs w0 _ _ hlv <;> (rw [hs]; decide)
          simp only [hs, if_true]
          by_cases hc : rhs.op = fString ∨ rhs.op = fInt
          · simp only [hc, decide_true, if_true]; exact strOnly_noPanic lhs hls
          · simp only [hc, decide_false, Bool.false_eq_true, if_false]
            split
            · rename_i heq
              have hrv : hasVar rhs.op = true := by
                subst hstrict
                have h : rhs.op = fVarTypeSize := by simpa [hs] using heq
                rw [h]; decide
              exact strBoth_noPanic lhs rhs hls
                (operand_str_of_nonlit rhs w1 (fun h => hc (Or.inl h)) (fun h => hc (Or.inr h)) hrv)
            · exact ⟨_, rfl⟩
        · simp only [hs, if_false]; exact ⟨_, rfl⟩
    · intro _; exact ⟨_, rfl⟩

/-- a well-formed operand that has a variable carries it as a string -/
theorem operand_var_str (a : FE) (h : wfOperand a = true) : (!hasVar a.op || valIsStr a.value) = true := by
  rcases operand_cases a h with ⟨ho, _⟩ | ⟨ho, _⟩ | ⟨_, _, hv⟩
  · have : hasVar a.op = false := by rw [ho]; decide
    simp [this]
  · have : hasVar a.op = false := by rw [ho]; decide
    simp [this]
  · exact hv

theorem newFilter_noPanic (o : Oracles) (hs : o.strict = true) :
    ∀ (fuel : Nat) (e : FE), wfFE fuel e = true → NoPanic (newFilter o fuel e) := by
  intro fuel
  induction fuel with
  | zero => intro e _; exact ⟨_, rfl⟩
  | succ n ih =>
    intro e hw
    rw [wfFE] at hw
    simp only [Bool.and_eq_true, Bool.or_eq_true, Bool.not_eq_true'] at hw
    obtain ⟨hvar, hrest⟩ := hw
    rw [newFilter]
    -- the variable record
    by_cases hv : hasVar e.op = true
    · have hstr : valIsStr e.value = true := by
        rcases hvar with h | h
        · rw [hv] at h; cases h
        · exact h
      obtain ⟨s, hs'⟩ := asString_of_isStr hstr
      simp only [hv, if_true, hs']
      revert hrest
      generalize ([s] : List String) = vs
      intro hrest
      exact newFilter_tail o hs n ih e vs hrest
    · have hv' : hasVar e.op = false := by cases h : hasVar e.op <;> simp_all
      simp only [hv', Bool.false_eq_true, if_false]
      exact newFilter_tail o hs n ih e [] hrest
where
  newFilter_tail (o : Oracles) (hs : o.strict = true) (n : Nat)
      (ih : ∀ e, wfFE n e = true → NoPanic (newFilter o n e)) (e : FE) (vs : List String)
      (hrest : (if isBinaryExpr e.op = true then
          (match e.args[0]?, e.args[1]? with
           | some a0, some a1 =>
             if e.op = fAnd ∨ e.op = fOr then wfFE n a0 && wfFE n a1 else wfOperand a0 && wfOperand a1
           | _, _ => false)
        else if e.op = fNot then
          (match e.args[0]? with | some a0 => wfFE n a0 | none => false)
        else wfLeaf e) = true) :
      NoPanic
        (if isBinaryExpr e.op = true then
          if e.op = fAnd ∨ e.op = fOr then
            match argAt e.args 0 with
            | .panic p => .panic p
            | .ok a0 =>
              lbind (newFilter o n a0) fun v0 =>
                match argAt e.args 1 with
                | .panic p => .panic p
                | .ok a1 => lbind (newFilter o n a1) fun v1 => lok (vs ++ v0 ++ v1)
          else
            match argAt e.args 0, argAt e.args 1 with
            | .panic p, _ => .panic p
            | _, .panic p => .panic p
            | .ok a0, .ok a1 =>
              let swap := isBasicLit a0.op && !isBasicLit a1.op &&
                (match a0.value with | .str _ => true | .int _ => true | _ => false) &&
                (e.op == fEq || e.op == fNeq)
              lbind (if swap then cmpCore o.strict e.op e.line a1 a0 else cmpCore o.strict e.op e.line a0 a1) fun ovs => lok (vs ++ ovs)
        else if e.op = fNot then
          match argAt e.args 0 with
          | .panic p => .panic p
          | .ok a0 => lbind (newFilter o n a0) fun v0 => lok (vs ++ v0)
        else lbind (leafFilter o e) fun _ => lok (vs ++ leafVars o e)) := by
    by_cases hb : isBinaryExpr e.op = true
    · simp only [hb, if_true] at hrest ⊢
      cases h0 : e.args[0]? with
      | none => simp [h0] at hrest
      | some a0 =>
        cases h1 : e.args[1]? with
        | none => simp [h0, h1] at hrest
        | some a1 =>
          simp only [h0, h1] at hrest
          by_cases hao : e.op = fAnd ∨ e.op = fOr
          · simp only [hao, if_true, Bool.and_eq_true] at hrest ⊢
            simp only [argAt_of_get h0, argAt_of_get h1]
            apply noPanic_lbind (ih a0 hrest.1)
            intro v0
            apply noPanic_lbind (ih a1 hrest.2)
            intro v1; exact ⟨_, rfl⟩
          · simp only [hao, if_false, Bool.and_eq_true] at hrest ⊢
            simp only [argAt_of_get h0, argAt_of_get h1]
            apply noPanic_lbind
            · exact noPanic_ite
                (cmpCore_noPanic _ hs _ _ a1 a0 hrest.2 hrest.1 (operand_var_str a1 hrest.2) (operand_var_str a0 hrest.1))
                (cmpCore_noPanic _ hs _ _ a0 a1 hrest.1 hrest.2 (operand_var_str a0 hrest.1) (operand_var_str a1 hrest.2))
            · intro _; exact ⟨_, rfl⟩
    · have hb' : isBinaryExpr e.op = false := by cases h : isBinaryExpr e.op <;> simp_all
      simp only [hb', Bool.false_eq_true, if_false] at hrest ⊢
      by_cases hn : e.op = fNot
      · simp only [hn, if_true] at hrest ⊢
        cases h0 : e.args[0]? with
        | none => simp [h0] at hrest
        | some a0 =>
          simp only [h0] at hrest
          simp only [argAt_of_get h0]
          apply noPanic_lbind (ih a0 hrest)
          intro v0; exact ⟨_, rfl⟩
      · simp only [hn, if_false] at hrest ⊢
        apply noPanic_lbind (leafFilter_noPanic o hs e hrest)
        intro _; exact ⟨_, rfl⟩

theorem seqL_noPanic {α β} (f : α → LRes β) (l : List α) (h : ∀ a ∈ l, NoPanic (f a)) : NoPanic (seqL f l) := by
  induction l with
  | nil => exact ⟨_, rfl⟩
  | cons a as ih =>
    simp only [seqL]
    apply noPanic_lbind (h a (by simp))
    intro b
    apply noPanic_lbind (ih (fun x hx => h x (by simp [hx])))
    intro bs; exact ⟨_, rfl⟩

/-- elements of a successful `seqL` come from successful calls -/
theorem seqL_ok {α β} (f : α → LRes β) : ∀ (l : List α) (bs : List β), seqL f l = lok bs →
    ∀ b ∈ bs, ∃ a ∈ l, f a = lok b := by
  intro l
  induction l with
  | nil => intro bs h b hb; simp [seqL, lok] at h; subst h; simp at hb
  | cons a as ih =>
    intro bs h b hb
    simp only [seqL] at h
    cases hfa : f a with
    | panic p => simp [hfa, lbind, lok] at h
    | ok r =>
      cases r with
      | error e => simp [hfa, lbind, lok] at h
      | ok b0 =>
        simp only [hfa, lbind] at h
        cases hrest : seqL f as with
        | panic p => simp [hrest, lok] at h
        | ok r2 =>
          cases r2 with
          | error e => simp [hrest, lok] at h
          | ok bs0 =>
            simp only [hrest, lok, Res.ok.injEq, Except.ok.injEq] at h
            subst h
            rcases List.mem_cons.mp hb with rfl | hb
            · exact ⟨a, by simp, hfa⟩
            · obtain ⟨a', ha', hfa'⟩ := ih bs0 hrest b hb
              exact ⟨a', by simp [ha'], hfa'⟩

end Loader
