import Rg.Model.SrcLoad
import Rg.Proofs.Loader
/-!
# `convert_wf`: what the converter accepts lies inside the loader's well-formedness domain

1. `tables_agree` — the two regenerated op tables number and flag the ops identically (a `decide`
   obligation on the generated tables).
2. `Out` — the shapes `convertFilterExpr` can return, as an inductive predicate on the IR.
3. `convertG_out` — mutual induction over `convert / convertImpl / convertStruct / convertList`:
   a successful conversion (with the arity check of fixes/c06-predicate-arity.diff) is `Out`.
4. `out_wf` — `Out fe → ∀ n, wfFE n (toFE dec fe)`, by induction on `Out`, the per-op facts being
   `decide` obligations on the generated tables.
-/
namespace Comp
open Conv IR Gen.Op Loader

/-! ## 1. the tables -/

/-- `Gen/IROpNames.lean` and `Gen/FilterOps.lean` describe the same enumeration -/
theorem tables_agree :
    Gen.irOpNames = (List.range Gen.Op.names.length).zip Gen.Op.names ∧
    Gen.irOpFlags = (List.range Gen.Op.flags.length).zip
      (Gen.Op.flags.map fun f => (if f.1 then 1 else 0) + (if f.2.1 then 2 else 0) + (if f.2.2 then 4 else 0)) := by
  decide

/-! ## 2. the shapes the converter returns -/

def binNames : List String := ["And", "Or", "Neq", "Eq", "Gt", "Lt", "GtEq", "LtEq"]

inductive Out : FilterExpr → Prop
  | str (s : Bytes) : Out (mkOp "String" (.str s) [])
  | int (n : Int) : Out (mkOp "Int" (.int64 n) [])
  | not (x : FilterExpr) : Out x → Out (mkOp "Not" .nil [x])
  | bin (name : String) (x y : FilterExpr) : name ∈ binNames → Out x → Out y → Out (mkOp name .nil [x, y])
  | sel (path : List String) (name : String) (v : Bytes) : (path, name) ∈ selectorOps → Out (mkOp name (.str v) [])
  | deadcode : Out (mkOp "Deadcode" .nil [])
  | strCall (path : List String) (name : String) (v : Bytes) : (path, name) ∈ stringValueCalls → Out (mkOp name (.str v) [])
  | contains (v p : Bytes) : Out (mkOp "VarContains" (.str v) [mkOp "String" (.str p) []])
  | identical (v p : Bytes) : Out (mkOp "VarTypeIdenticalTo" (.str v) [mkOp "String" (.str p) []])
  | filter (v n : Bytes) : Out (mkOp "VarFilter" (.str v) [mkOp "FilterFuncRef" (.str n) []])
  | list (path : List String) (name : String) (kv ka : Bool) (v : Bytes) (args : List FilterExpr) :
      (path, name, kv, ka) ∈ listCalls → (∀ a ∈ args, Out a) → (path ∈ argCalls → args ≠ []) →
      Out (mkOp name (.str v) (if ka then args else []))
  | parentIs (args : List FilterExpr) : (∀ a ∈ args, Out a) → args ≠ [] → Out (mkOp "RootNodeParentIs" .nil args)
  | sinkIs (v : Bytes) (args : List FilterExpr) : (∀ a ∈ args, Out a) → args ≠ [] → Out (mkOp "RootSinkTypeIs" (.str v) args)

theorem lookup_mem {α β} [BEq α] [LawfulBEq α] : ∀ (l : List (α × β)) (k : α) (v : β), l.lookup k = some v → (k, v) ∈ l
  | [], _, _, h => by simp at h
  | (k', v') :: l, k, v, h => by
    simp only [List.lookup_cons] at h
    by_cases hk : (k == k') = true
    · simp only [hk] at h
      have : k = k' := by simpa using hk
      simp only [Option.some.injEq] at h
      subst this h; simp
    · have hk' : (k == k') = false := by simpa using hk
      simp only [hk'] at h
      exact List.mem_cons_of_mem _ (lookup_mem l k v h)

theorem binaryOp_mem (op name : String) (h : binaryOp op = some name) : name ∈ binNames := by
  unfold binaryOp at h
  repeat (first | (split at h; · (simp only [Option.some.injEq] at h; subst h; decide)) | (simp at h))

/-! ## 3. a successful conversion is `Out` -/

theorem cres_ok_inj {α} {a b : α} (h : CRes.ok a = CRes.ok b) : a = b := by cases h; rfl

/-- what a hook may answer with `ok`: only shapes `convertFilterExpr` returns -/
def HookOut (hk : Hook) : Prop := ∀ n as r, hk n as = some (.ok r) → Out r

theorem hookOut_noHook : HookOut noHook := by intro n as r h; simp [noHook] at h

mutual
theorem convertH_out (hk : Hook) (hh : HookOut hk) (e : CExpr) (fe : FilterExpr) (h : convertG hk true e = .ok fe) : Out fe := by
  rw [convertG] at h
  cases hi : convertImplG hk true e with
  | err => simp [hi] at h
  | panic p => simp [hi] at h
  | ok r =>
    simp only [hi] at h
    split at h
    · cases h
    · rename_i hop
      have := cres_ok_inj h
      subst this
      rcases convertImplH_out hk hh e r hi with rfl | ho
      · exact absurd rfl hop
      · exact ho
termination_by (sizeOf e, 2)
theorem convertImplH_out (hk : Hook) (hh : HookOut hk) (e : CExpr) (fe : FilterExpr) (h : convertImplG hk true e = .ok fe) : fe = invalid ∨ Out fe := by
  rw [convertImplG] at h
  split at h
  · have := cres_ok_inj h; subst this; exact Or.inr (Out.str _)
  · have := cres_ok_inj h; subst this; exact Or.inr (Out.int _)
  · exact convertStructH_out hk hh e fe h
termination_by (sizeOf e, 1)
theorem convertStructH_out (hk : Hook) (hh : HookOut hk) : (e : CExpr) → (fe : FilterExpr) → convertStructG hk true e = .ok fe → fe = invalid ∨ Out fe
  | .paren _ x, fe, h => by
    rw [convertStructG] at h
    exact Or.inr (convertH_out hk hh x fe h)
  | .unary _ op x, fe, h => by
    rw [convertStructG] at h
    cases hx : convertG hk true x with
    | err => simp [hx] at h
    | panic p => simp [hx] at h
    | ok x' =>
      simp only [hx] at h
      split at h
      · have := cres_ok_inj h; subst this
        exact Or.inr (Out.not _ (convertH_out hk hh x x' hx))
      · have := cres_ok_inj h; subst this; exact Or.inl rfl
  | .binary _ op x y, fe, h => by
    rw [convertStructG] at h
    cases hx : convertG hk true x with
    | err => simp [hx] at h
    | panic p => simp [hx] at h
    | ok x' =>
      cases hy : convertG hk true y with
      | err => simp [hx, hy] at h
      | panic p => simp [hx, hy] at h
      | ok y' =>
        simp only [hx, hy] at h
        cases hb : binaryOp op with
        | none => simp [hb] at h
        | some name =>
          simp only [hb] at h
          have := cres_ok_inj h; subst this
          exact Or.inr (Out.bin name x' y' (binaryOp_mem op name hb) (convertH_out hk hh x x' hx) (convertH_out hk hh y y' hy))
  | .sel a x n, fe, h => by
    rw [convertStructG] at h
    cases hs : inspect (.sel a x n) with
    | err => simp [hs] at h
    | panic p => simp [hs] at h
    | ok s =>
      simp only [hs] at h
      cases hl : selectorOps.lookup s.path with
      | none => simp only [hl] at h; have := cres_ok_inj h; subst this; exact Or.inl rfl
      | some name =>
        simp only [hl] at h; have := cres_ok_inj h; subst this
        exact Or.inr (Out.sel s.path name _ (lookup_mem _ _ _ hl))
  | .call a f args, fe, h => by
    rw [convertStructG] at h
    cases hs : inspect (.call a f args) with
    | err => simp [hs] at h
    | panic p => simp [hs] at h
    | ok s =>
      simp only [hs] at h
      split at h
      · have := cres_ok_inj h; subst this; exact Or.inr Out.deadcode
      · split at h
        · -- string-valued calls
          rename_i name hl
          split at h
          · split at h
            · have := cres_ok_inj h; subst this
              exact Or.inr (Out.strCall s.path name _ (lookup_mem _ _ _ hl))
            · cases h
            · cases h
          · cases h
        · split at h
          · -- Contains
            split at h
            · split at h
              · have := cres_ok_inj h; subst this; exact Or.inr (Out.contains _ _)
              · cases h
              · cases h
            · cases h
          · split at h
            · -- Type.IdenticalTo
              split at h
              · split at h
                · have := cres_ok_inj h; subst this; exact Or.inr (Out.identical _ _)
                · cases h
                · cases h
              · cases h
              · cases h
            · split at h
              · -- Filter
                split at h
                · have := cres_ok_inj h; subst this; exact Or.inr (Out.filter _ _)
                · cases h
                · cases h
              · -- a local helper: `expandMacro`'s result is `convertFilterExpr`'s
                cases hq : askHook hk f args with
                | some r =>
                  simp only [hq] at h
                  subst h
                  unfold askHook at hq
                  split at hq
                  · exact Or.inr (hh _ _ _ hq)
                  · cases hq
                | none =>
                simp only [hq] at h
                -- the calls converted after convertExprList
                cases hl : convertListG hk true args with
                | err => simp [hl] at h
                | panic p => simp [hl] at h
                | ok args' =>
                  simp only [hl] at h
                  have hargs := convertListH_out hk hh args args' hl
                  split at h
                  · cases h
                  · rename_i har
                    have hne : s.path ∈ argCalls → args' ≠ [] := by
                      intro hm
                      apply hargs.2
                      intro he
                      apply har
                      simp [he, hm]
                    split at h
                    · rename_i name kv ka hlk
                      have := cres_ok_inj h; subst this
                      exact Or.inr (Out.list s.path name kv ka _ args' (lookup_mem _ _ _ hlk) hargs.1 hne)
                    · split at h
                      · split at h
                        · have := cres_ok_inj h; subst this
                          rename_i hp _
                          exact Or.inr (Out.parentIs args' hargs.1 (hne (by
                            have : s.path = ["Node", "Parent", "Is"] := by simpa using hp
                            rw [this]; decide)))
                        · cases h
                      · split at h
                        · split at h
                          · have := cres_ok_inj h; subst this
                            rename_i hp _
                            exact Or.inr (Out.sinkIs _ args' hargs.1 (hne (by
                              have : s.path = ["SinkType", "Is"] := by simpa using hp
                              rw [this]; decide)))
                          · cases h
                        · have := cres_ok_inj h; subst this; exact Or.inl rfl
  | .lit _ _ _, fe, h => by
    rw [convertStructG] at h
    · have := cres_ok_inj h; subst this; exact Or.inl rfl
    all_goals (intros; contradiction)
  | .ident _ _, fe, h => by
    rw [convertStructG] at h
    · have := cres_ok_inj h; subst this; exact Or.inl rfl
    all_goals (intros; contradiction)
  | .index _ _ _, fe, h => by
    rw [convertStructG] at h
    · have := cres_ok_inj h; subst this; exact Or.inl rfl
    all_goals (intros; contradiction)
  | .other _, fe, h => by
    rw [convertStructG] at h
    · have := cres_ok_inj h; subst this; exact Or.inl rfl
    all_goals (intros; contradiction)
termination_by e => (sizeOf e, 0)
theorem convertListH_out (hk : Hook) (hh : HookOut hk) : (es : List CExpr) → (fes : List FilterExpr) → convertListG hk true es = .ok fes →
    (∀ a ∈ fes, Out a) ∧ (es ≠ [] → fes ≠ [])
  | [], fes, h => by
    rw [convertListG] at h; have := cres_ok_inj h; subst this; simp
  | a :: as, fes, h => by
    rw [convertListG] at h
    cases ha : convertG hk true a with
    | err => simp [ha] at h
    | panic p => simp [ha] at h
    | ok a' =>
      cases hr : convertListG hk true as with
      | err => simp [ha, hr] at h
      | panic p => simp [ha, hr] at h
      | ok as' =>
        simp only [ha, hr] at h
        have := cres_ok_inj h; subst this
        refine ⟨?_, by simp⟩
        intro b hb
        rcases List.mem_cons.mp hb with rfl | hb
        · exact convertH_out hk hh a _ ha
        · exact (convertListH_out hk hh as as' hr).1 b hb
termination_by es => (sizeOf es, 0)
end


theorem convertG_out (e : CExpr) (fe : FilterExpr) (h : convertG noHook true e = .ok fe) : Out fe :=
  convertH_out noHook hookOut_noHook e fe h

/-- the converter model never panics (before and after the arity repair): every partial operation of
`convertFilterExpr` outside helper bodies is guarded -/
theorem toStringValue_ok (e : CExpr) : ∃ r, toStringValue e = .ok r := by
  cases e with
  | lit a b u => exact ⟨_, rfl⟩
  | _ =>
    simp only [toStringValue]
    split
    · split <;> exact ⟨_, rfl⟩
    · exact ⟨_, rfl⟩

theorem parseStringArg_noPanic (e : CExpr) (p : Panic) : parseStringArg e ≠ .panic p := by
  unfold parseStringArg
  obtain ⟨r, hr⟩ := toStringValue_ok e
  rw [hr]
  cases r <;> simp

theorem toStringValue_noPanic (e : CExpr) (p : Panic) : toStringValue e ≠ .panic p := by
  obtain ⟨r, hr⟩ := toStringValue_ok e
  rw [hr]; simp

theorem inspect_noPanic (e : CExpr) (p : Panic) : inspect e ≠ .panic p := by
  unfold inspect
  simp only
  split
  · split
    · split
      · simp
      · simp
      · rename_i heq
        exact absurd heq (toStringValue_noPanic _ _)
    · simp
  · simp

/-- a hook that does not panic on the names an expression calls -/
def HookQuiet (hk : Hook) (names : List String) : Prop := ∀ n ∈ names, ∀ as p, hk n as ≠ some (.panic p)

theorem hookQuiet_noHook (names : List String) : HookQuiet noHook names := by intro n _ as p; simp [noHook]

theorem HookQuiet.mono {hk : Hook} {l l' : List String} (h : HookQuiet hk l) (hs : ∀ n ∈ l', n ∈ l) : HookQuiet hk l' :=
  fun n hn => h n (hs n hn)

mutual
theorem convertH_noPanic (hk : Hook) (ar : Bool) (e : CExpr) (hh : HookQuiet hk (callNames e)) (p : Panic) : convertG hk ar e ≠ .panic p := by
  rw [convertG]
  cases hi : convertImplG hk ar e with
  | err => simp
  | panic q => exact absurd hi (convertImplH_noPanic hk ar e hh q)
  | ok r => simp only; split <;> simp
termination_by (sizeOf e, 2)
theorem convertImplH_noPanic (hk : Hook) (ar : Bool) (e : CExpr) (hh : HookQuiet hk (callNames e)) (p : Panic) : convertImplG hk ar e ≠ .panic p := by
  rw [convertImplG]
  split
  · simp
  · simp
  · exact convertStructH_noPanic hk ar e hh p
termination_by (sizeOf e, 1)
theorem convertStructH_noPanic (hk : Hook) (ar : Bool) : (e : CExpr) → HookQuiet hk (callNames e) → (p : Panic) → convertStructG hk ar e ≠ .panic p
  | .paren _ x, hh, p => by
    rw [convertStructG]; exact convertH_noPanic hk ar x (hh.mono (by intro n hn; simpa [callNames] using hn)) p
  | .unary _ op x, hh, p => by
    rw [convertStructG]
    cases hx : convertG hk ar x with
    | err => simp
    | panic q => exact absurd hx (convertH_noPanic hk ar x (hh.mono (by intro n hn; simpa [callNames] using hn)) q)
    | ok x' => simp only; split <;> simp
  | .binary _ op x y, hh, p => by
    rw [convertStructG]
    cases hx : convertG hk ar x with
    | err => simp
    | panic q => exact absurd hx (convertH_noPanic hk ar x (hh.mono (by intro n hn; simp [callNames, hn])) q)
    | ok x' =>
      cases hy : convertG hk ar y with
      | err => simp
      | panic q => exact absurd hy (convertH_noPanic hk ar y (hh.mono (by intro n hn; simp [callNames, hn])) q)
      | ok y' => simp only; split <;> simp
  | .sel a x n, _, p => by
    rw [convertStructG]
    cases hs : inspect (.sel a x n) with
    | err => simp
    | panic q => exact absurd hs (inspect_noPanic _ q)
    | ok s => simp only; split <;> simp
  | .call a f args, hh, p => by
    rw [convertStructG]
    cases hs : inspect (.call a f args) with
    | err => simp
    | panic q => exact absurd hs (inspect_noPanic _ q)
    | ok s =>
      simp only
      split
      · simp
      · split
        · split
          · rename_i a0 _
            cases hp : parseStringArg a0 with
            | panic q => exact absurd hp (parseStringArg_noPanic a0 q)
            | _ => simp
          · simp
        · split
          · split
            · rename_i a0 _
              cases hp : parseStringArg a0 with
              | panic q => exact absurd hp (parseStringArg_noPanic a0 q)
              | _ => simp
            · simp
          · split
            · split
              · rename_i i _
                cases hp : parseStringArg i with
                | panic q => exact absurd hp (parseStringArg_noPanic i q)
                | _ => simp
              · simp
              · simp
            · split
              · split <;> simp
              · cases hq : askHook hk f args with
                | some r =>
                  simp only
                  unfold askHook at hq
                  split at hq
                  · rename_i name
                    intro he
                    subst he
                    exact hh name (by simp [callNames]) _ _ hq
                  · cases hq
                | none =>
                  simp only
                  cases hl : convertListG hk ar args with
                  | err => simp
                  | panic q => exact absurd hl (convertListH_noPanic hk ar args (hh.mono (by intro n hn; simp [callNames, hn])) q)
                  | ok args' =>
                    simp only
                    split
                    · simp
                    · split
                      · simp
                      · split
                        · split <;> simp
                        · split
                          · split <;> simp
                          · simp
  | .lit _ _ _, _, p => by
    rw [convertStructG]
    · simp
    all_goals (intros; contradiction)
  | .ident _ _, _, p => by
    rw [convertStructG]
    · simp
    all_goals (intros; contradiction)
  | .index _ _ _, _, p => by
    rw [convertStructG]
    · simp
    all_goals (intros; contradiction)
  | .other _, _, p => by
    rw [convertStructG]
    · simp
    all_goals (intros; contradiction)
termination_by e => (sizeOf e, 0)
theorem convertListH_noPanic (hk : Hook) (ar : Bool) : (es : List CExpr) → HookQuiet hk (callNamesL es) → (p : Panic) → convertListG hk ar es ≠ .panic p
  | [], _, p => by rw [convertListG]; simp
  | a :: as, hh, p => by
    rw [convertListG]
    cases ha : convertG hk ar a with
    | err => simp
    | panic q => exact absurd ha (convertH_noPanic hk ar a (hh.mono (by intro n hn; simp [callNamesL, hn])) q)
    | ok a' =>
      cases hr : convertListG hk ar as with
      | err => simp
      | panic q => exact absurd hr (convertListH_noPanic hk ar as (hh.mono (by intro n hn; simp [callNamesL, hn])) q)
      | ok as' => simp
termination_by es => (sizeOf es, 0)
end

theorem convertG_noPanic (ar : Bool) (e : CExpr) (p : Panic) : convertG noHook ar e ≠ .panic p :=
  convertH_noPanic noHook ar e (hookQuiet_noHook _) p

/-! ## 4. `Out` lies inside `wfFE` -/

/-- how many leading arguments `leafFilter` reads: 1 = through `unwrapStringExpr`, 2 = `.Value.(string)` directly -/
def leafArity (op : Nat) : Nat :=
  match leafKind op with
  | .strArg _ _ _ => 1
  | .varAndArgValue _ => 2
  | _ => 0

/-- does the case read `filter.Value.(string)` -/
def leafNeedVar (op : Nat) : Bool :=
  match leafKind op with
  | .strArg _ nv _ => nv
  | .varOnly => true
  | .valueStr _ => true
  | .varAndArgValue _ => true
  | _ => false

/-- a non-connective op that is not a literal -/
def plainOp (op : Nat) : Bool := !isBinaryExpr op && op != fNot && op != fString && op != fInt

theorem argOK_of_operand (a : FE) (h : wfOperand a = true) : (a.op != fString || valIsStr a.value) = true := by
  unfold wfOperand at h
  by_cases h1 : a.op = fString
  · simp [h1] at h; simp [h]
  · simp [h1]

/-- the leaf cases of `wfFE`, in terms of what the case reads -/
theorem wfFE_leaf (n op line : Nat) (v : Loader.Val) (args : List FE)
    (hb : isBinaryExpr op = false) (hn : op ≠ fNot)
    (hv : valIsStr v = true ∨ (hasVar op = false ∧ leafNeedVar op = false))
    (ha : leafArity op = 0 ∨ (leafArity op = 1 ∧ ∃ a as, args = a :: as ∧ wfOperand a = true) ∨
          (leafArity op = 2 ∧ ∃ a as, args = a :: as ∧ valIsStr a.value = true)) :
    wfFE (n + 1) (.mk op line v args) = true := by
  rw [wfFE]
  simp only [FE.op, FE.value, FE.args, hb, hn, Bool.false_eq_true, if_false, Bool.and_eq_true]
  constructor
  · rcases hv with hv | ⟨hv, _⟩ <;> simp [hv]
  · unfold wfLeaf
    simp only [FE.op, FE.value, FE.args]
    unfold leafArity leafNeedVar at *
    cases hk : leafKind op with
    | strArg c nv ea =>
      simp only [hk] at ha hv
      rcases ha with ha | ⟨_, a, as, rfl, hw⟩ | ⟨ha, _⟩
      · cases ha
      · simp only [List.getElem?_cons_zero, Bool.and_eq_true]
        refine ⟨argOK_of_operand a hw, ?_⟩
        rcases hv with hv | ⟨_, hv⟩ <;> simp [hv]
      · cases ha
    | varOnly => simp only [hk] at hv; rcases hv with hv | ⟨_, hv⟩ <;> simp_all
    | noArgs => rfl
    | valueStr c => simp only [hk] at hv; rcases hv with hv | ⟨_, hv⟩ <;> simp_all
    | varAndArgValue c =>
      simp only [hk] at ha hv
      rcases ha with ha | ⟨ha, _⟩ | ⟨_, a, as, rfl, hw⟩
      · cases ha
      · cases ha
      · obtain ⟨ao, al, av, aa⟩ := a
        simp only [FE.value] at hw
        rcases hv with hv | ⟨_, hv⟩ <;> simp_all
    | unsupported => rfl

theorem wfOperand_plain (op line : Nat) (v : Loader.Val) (args : List FE)
    (h1 : op ≠ fString) (h2 : op ≠ fInt) (hv : valIsStr v = true ∨ hasVar op = false) :
    wfOperand (.mk op line v args) = true := by
  unfold wfOperand
  simp only [FE.op, FE.value, h1, h2, if_false]
  rcases hv with hv | hv <;> simp [hv]

theorem wfFE_bin (n op line : Nat) (a0 a1 : FE) (hb : isBinaryExpr op = true) (hv : hasVar op = false)
    (h0 : ∀ n, wfFE n a0 = true) (h1 : ∀ n, wfFE n a1 = true)
    (w0 : wfOperand a0 = true) (w1 : wfOperand a1 = true) :
    wfFE (n + 1) (.mk op line .nil [a0, a1]) = true := by
  rw [wfFE]
  simp only [FE.op, FE.value, FE.args, hb, hv, if_true, List.getElem?_cons_zero, List.getElem?_cons_succ,
    Bool.not_false, Bool.true_or, Bool.true_and]
  by_cases hc : op = fAnd ∨ op = fOr
  · simp [hc, h0 n, h1 n]
  · simp [hc, w0, w1]

theorem wfFE_not (n line : Nat) (a0 : FE) (h0 : ∀ n, wfFE n a0 = true) :
    wfFE (n + 1) (.mk fNot line .nil [a0]) = true := by
  rw [wfFE]
  have hb : isBinaryExpr fNot = false := by decide
  have hv : hasVar fNot = false := by decide
  simp [FE.op, FE.value, FE.args, hb, hv, h0 n]

/-! the per-op facts: `decide` obligations on the regenerated tables -/

theorem bin_facts : ∀ name ∈ binNames, isBinaryExpr (opNamed name) = true ∧ hasVar (opNamed name) = false ∧
    opNamed name ≠ fString ∧ opNamed name ≠ fInt := by decide

theorem sel_facts : ∀ p ∈ selectorOps, plainOp (opNamed p.2) = true ∧ leafArity (opNamed p.2) = 0 := by decide

theorem strCall_facts : ∀ p ∈ stringValueCalls, plainOp (opNamed p.2) = true ∧ leafArity (opNamed p.2) = 0 := by decide

theorem list_facts : ∀ p ∈ listCalls, plainOp (opNamed p.2.1) = true ∧ leafArity (opNamed p.2.1) ≠ 2 ∧
    (leafArity (opNamed p.2.1) = 1 → p.2.2.2 = true ∧ p.1 ∈ argCalls) := by decide

theorem op_String : opNamed "String" = fString := by decide
theorem op_Int : opNamed "Int" = fInt := by decide
theorem op_Not : opNamed "Not" = fNot := by decide

theorem single_facts :
    (plainOp (opNamed "Deadcode") = true ∧ leafArity (opNamed "Deadcode") = 0 ∧ hasVar (opNamed "Deadcode") = false ∧
      leafNeedVar (opNamed "Deadcode") = false) ∧
    (plainOp (opNamed "VarContains") = true ∧ leafArity (opNamed "VarContains") = 2) ∧
    (plainOp (opNamed "VarTypeIdenticalTo") = true ∧ leafArity (opNamed "VarTypeIdenticalTo") = 2) ∧
    (plainOp (opNamed "VarFilter") = true ∧ leafArity (opNamed "VarFilter") = 2) ∧
    (plainOp (opNamed "RootNodeParentIs") = true ∧ leafArity (opNamed "RootNodeParentIs") = 1 ∧
      hasVar (opNamed "RootNodeParentIs") = false ∧ leafNeedVar (opNamed "RootNodeParentIs") = false) ∧
    (plainOp (opNamed "RootSinkTypeIs") = true ∧ leafArity (opNamed "RootSinkTypeIs") = 1) ∧
    (isBinaryExpr fString = false ∧ leafArity fString = 0 ∧ hasVar fString = false) ∧
    (isBinaryExpr fInt = false ∧ leafArity fInt = 0 ∧ hasVar fInt = false ∧ leafNeedVar fInt = false ∧ fInt ≠ fNot ∧ fString ≠ fNot) := by
  decide

theorem plainOp_iff (op : Nat) (h : plainOp op = true) :
    isBinaryExpr op = false ∧ op ≠ fNot ∧ op ≠ fString ∧ op ≠ fInt := by
  simp only [plainOp, Bool.and_eq_true, Bool.not_eq_true', bne_iff_ne, ne_eq] at h
  exact ⟨h.1.1.1, h.1.1.2, h.1.2, h.2⟩

theorem toFE_mkOp (dec : Bytes → String) (name : String) (v : IR.Val) (args : List FilterExpr) :
    toFE dec (mkOp name v args) = .mk (opNamed name) 0 (toVal dec v) (toFEList dec args) := by
  simp [mkOp, toFE]

theorem toFEList_ne (dec : Bytes → String) : ∀ (args : List FilterExpr), args ≠ [] →
    ∃ a as, args = a :: as ∧ toFEList dec args = toFE dec a :: toFEList dec as
  | [], h => absurd rfl h
  | a :: as, _ => ⟨a, as, rfl, by simp [toFEList]⟩

/-- every node the converter returns: well-formed at every fuel, and a well-formed comparison operand -/
theorem out_good (dec : Bytes → String) (fe : FilterExpr) (h : Out fe) :
    (∀ n, wfFE n (toFE dec fe) = true) ∧ wfOperand (toFE dec fe) = true := by
  obtain ⟨⟨dP, dA, dV, dN⟩, ⟨cP, cA⟩, ⟨iP, iA⟩, ⟨fP, fA⟩, ⟨pP, pA, pV, pN⟩, ⟨kP, kA⟩, ⟨sB, sA, sV⟩, ⟨nB, nA, nV, nN, nNot, sNot⟩⟩ := single_facts
  induction h with
  | str s =>
    rw [toFE_mkOp, op_String]
    refine ⟨fun n => ?_, by simp [wfOperand, FE.op, FE.value, toVal, valIsStr]⟩
    cases n with
    | zero => rfl
    | succ n => exact wfFE_leaf n _ _ _ _ sB sNot (Or.inl rfl) (Or.inl sA)
  | int k =>
    rw [toFE_mkOp, op_Int]
    refine ⟨fun n => ?_, ?_⟩
    · cases n with
      | zero => rfl
      | succ n => exact wfFE_leaf n _ _ _ _ nB nNot (Or.inr ⟨nV, nN⟩) (Or.inl nA)
    · have : (fInt = fString) = False := by decide
      simp [wfOperand, FE.op, FE.value, toVal, valIsInt, this]
  | not x _ ih =>
    rw [toFE_mkOp, op_Not]
    simp only [toFEList]
    refine ⟨fun n => ?_, ?_⟩
    · cases n with
      | zero => rfl
      | succ n => exact wfFE_not n 0 _ ih.1
    · exact wfOperand_plain _ _ _ _ (by decide) (by decide) (Or.inr (by decide))
  | bin name x y hm _ _ ihx ihy =>
    rw [toFE_mkOp]
    simp only [toFEList]
    obtain ⟨hb, hv, h1, h2⟩ := bin_facts name hm
    refine ⟨fun n => ?_, ?_⟩
    · cases n with
      | zero => rfl
      | succ n => exact wfFE_bin n _ 0 _ _ hb hv ihx.1 ihy.1 ihx.2 ihy.2
    · exact wfOperand_plain _ _ _ _ h1 h2 (Or.inr hv)
  | sel path name v hm =>
    rw [toFE_mkOp]
    obtain ⟨hp, ha⟩ := sel_facts (path, name) hm
    obtain ⟨hb, hn, h1, h2⟩ := plainOp_iff _ hp
    refine ⟨fun n => ?_, wfOperand_plain _ _ _ _ h1 h2 (Or.inl rfl)⟩
    cases n with
    | zero => rfl
    | succ n => exact wfFE_leaf n _ _ _ _ hb hn (Or.inl rfl) (Or.inl ha)
  | deadcode =>
    rw [toFE_mkOp]
    obtain ⟨hb, hn, h1, h2⟩ := plainOp_iff _ dP
    refine ⟨fun n => ?_, wfOperand_plain _ _ _ _ h1 h2 (Or.inr dV)⟩
    cases n with
    | zero => rfl
    | succ n => exact wfFE_leaf n _ _ _ _ hb hn (Or.inr ⟨dV, dN⟩) (Or.inl dA)
  | strCall path name v hm =>
    rw [toFE_mkOp]
    obtain ⟨hp, ha⟩ := strCall_facts (path, name) hm
    obtain ⟨hb, hn, h1, h2⟩ := plainOp_iff _ hp
    refine ⟨fun n => ?_, wfOperand_plain _ _ _ _ h1 h2 (Or.inl rfl)⟩
    cases n with
    | zero => rfl
    | succ n => exact wfFE_leaf n _ _ _ _ hb hn (Or.inl rfl) (Or.inl ha)
  | contains v p =>
    rw [toFE_mkOp]
    obtain ⟨hb, hn, h1, h2⟩ := plainOp_iff _ cP
    refine ⟨fun n => ?_, wfOperand_plain _ _ _ _ h1 h2 (Or.inl rfl)⟩
    cases n with
    | zero => rfl
    | succ n =>
      exact wfFE_leaf n _ _ _ _ hb hn (Or.inl rfl) (Or.inr (Or.inr ⟨cA, _, _, by simp only [toFEList, toFE_mkOp]; rfl, rfl⟩))
  | identical v p =>
    rw [toFE_mkOp]
    obtain ⟨hb, hn, h1, h2⟩ := plainOp_iff _ iP
    refine ⟨fun n => ?_, wfOperand_plain _ _ _ _ h1 h2 (Or.inl rfl)⟩
    cases n with
    | zero => rfl
    | succ n =>
      exact wfFE_leaf n _ _ _ _ hb hn (Or.inl rfl) (Or.inr (Or.inr ⟨iA, _, _, by simp only [toFEList, toFE_mkOp]; rfl, rfl⟩))
  | filter v k =>
    rw [toFE_mkOp]
    obtain ⟨hb, hn, h1, h2⟩ := plainOp_iff _ fP
    refine ⟨fun n => ?_, wfOperand_plain _ _ _ _ h1 h2 (Or.inl rfl)⟩
    cases n with
    | zero => rfl
    | succ n =>
      exact wfFE_leaf n _ _ _ _ hb hn (Or.inl rfl) (Or.inr (Or.inr ⟨fA, _, _, by simp only [toFEList, toFE_mkOp]; rfl, rfl⟩))
  | list path name kv ka v args hm _ hne ih =>
    rw [toFE_mkOp]
    obtain ⟨hp, hA2, hA1⟩ := list_facts (path, name, kv, ka) hm
    simp only at hp hA2 hA1
    obtain ⟨hb, hn, h1, h2⟩ := plainOp_iff _ hp
    refine ⟨fun n => ?_, wfOperand_plain _ _ _ _ h1 h2 (Or.inl rfl)⟩
    cases n with
    | zero => rfl
    | succ n =>
      apply wfFE_leaf n _ _ _ _ hb hn (Or.inl rfl)
      by_cases h0 : leafArity (opNamed name) = 0
      · exact Or.inl h0
      · have hone : leafArity (opNamed name) = 1 := by
          have : leafArity (opNamed name) ≤ 2 := by
            unfold leafArity; split <;> omega
          omega
        obtain ⟨hka, hpm⟩ := hA1 hone
        subst hka
        obtain ⟨a, as, rfl, hl⟩ := toFEList_ne dec args (hne hpm)
        exact Or.inr (Or.inl ⟨hone, toFE dec a, toFEList dec as, by simpa using hl, (ih a (by simp)).2⟩)
  | parentIs args _ hne ih =>
    rw [toFE_mkOp]
    obtain ⟨hb, hn, h1, h2⟩ := plainOp_iff _ pP
    refine ⟨fun n => ?_, wfOperand_plain _ _ _ _ h1 h2 (Or.inr pV)⟩
    cases n with
    | zero => rfl
    | succ n =>
      obtain ⟨a, as, rfl, hl⟩ := toFEList_ne dec args hne
      exact wfFE_leaf n _ _ _ _ hb hn (Or.inr ⟨pV, pN⟩) (Or.inr (Or.inl ⟨pA, _, _, hl, (ih a (by simp)).2⟩))
  | sinkIs v args _ hne ih =>
    rw [toFE_mkOp]
    obtain ⟨hb, hn, h1, h2⟩ := plainOp_iff _ kP
    refine ⟨fun n => ?_, wfOperand_plain _ _ _ _ h1 h2 (Or.inl rfl)⟩
    cases n with
    | zero => rfl
    | succ n =>
      obtain ⟨a, as, rfl, hl⟩ := toFEList_ne dec args hne
      exact wfFE_leaf n _ _ _ _ hb hn (Or.inl rfl) (Or.inr (Or.inl ⟨kA, _, _, hl, (ih a (by simp)).2⟩))

/-! ## 5. rules, groups, files -/

theorem bind_ok {α β} {x : CRes α} {f : α → CRes β} {b : β} (h : x.bind f = .ok b) : ∃ a, x = .ok a ∧ f a = .ok b := by
  cases x with
  | ok a => exact ⟨a, rfl, h⟩
  | err => simp [CRes.bind] at h
  | panic p => simp [CRes.bind] at h

theorem bind_noPanic {α β} {x : CRes α} {f : α → CRes β} (hx : ∀ p, x ≠ .panic p) (hf : ∀ a p, f a ≠ .panic p) :
    ∀ p, x.bind f ≠ .panic p := by
  intro p
  cases x with
  | ok a => exact hf a p
  | err => simp [CRes.bind]
  | panic q => exact absurd rfl (hx q)

theorem seqC_ok {α β} (f : α → CRes β) : ∀ (l : List α) (bs : List β), seqC f l = .ok bs → ∀ b ∈ bs, ∃ a ∈ l, f a = .ok b
  | [], bs, h, b, hb => by simp [seqC] at h; subst h; simp at hb
  | a :: as, bs, h, b, hb => by
    simp only [seqC] at h
    obtain ⟨b0, hb0, h⟩ := bind_ok h
    obtain ⟨bs0, hbs0, h⟩ := bind_ok h
    have := cres_ok_inj h; subst this
    rcases List.mem_cons.mp hb with rfl | hb
    · exact ⟨a, by simp, hb0⟩
    · obtain ⟨a', ha', hfa'⟩ := seqC_ok f as bs0 hbs0 b hb
      exact ⟨a', by simp [ha'], hfa'⟩

theorem seqC_noPanic {α β} (f : α → CRes β) : ∀ (l : List α), (∀ a ∈ l, ∀ p, f a ≠ .panic p) → ∀ p, seqC f l ≠ .panic p
  | [], _, p => by simp [seqC]
  | a :: as, h, p => by
    simp only [seqC]
    apply bind_noPanic (h a (by simp))
    intro b
    apply bind_noPanic (seqC_noPanic f as (fun x hx => h x (by simp [hx])))
    intro bs q; simp

theorem parsePatterns_noPanic (dec : Bytes → String) : ∀ (l : List (Nat × CExpr)) (p : Panic), parsePatterns dec l ≠ .panic p
  | [], p => by simp [parsePatterns]
  | (l, a) :: as, p => by
    simp only [parsePatterns]
    apply bind_noPanic (parseStringArg_noPanic a)
    intro s
    apply bind_noPanic (parsePatterns_noPanic dec as)
    intro ps q; simp

theorem chainArg0_noPanic (as : List CExpr) (p : Panic) : chainArg0 true as ≠ .panic p := by
  cases as <;> simp [chainArg0]

/-- `convertRuleExpr` after fixes/c06-chain-arity.diff: no clause of the chain can make it panic -/
theorem convertRuleW_noPanic (conv : CExpr → CRes FilterExpr) (hconv : ∀ e p, conv e ≠ .panic p)
    (dec : Bytes → String) (c : Chain) : ∀ p, convertRuleW conv true dec c ≠ .panic p := by
  unfold convertRuleW
  intro p
  split
  · simp
  · revert p
    apply bind_noPanic (parsePatterns_noPanic dec _)
    intro alts
    apply bind_noPanic
    · cases c.atArgs with
      | none => simp
      | some as =>
        apply bind_noPanic (chainArg0_noPanic as)
        intro a p
        split
        · rename_i i
          revert p
          apply bind_noPanic (parseStringArg_noPanic i)
          intro s q; simp
        · simp
    intro loc
    apply bind_noPanic
    · cases c.whereArgs with
      | none => simp
      | some as =>
        apply bind_noPanic (chainArg0_noPanic as)
        intro a
        exact hconv a
    intro wh
    apply bind_noPanic
    · cases c.suggestArgs with
      | none => simp
      | some as =>
        apply bind_noPanic (chainArg0_noPanic as)
        intro a
        apply bind_noPanic (parseStringArg_noPanic a)
        intro s q; simp
    intro sugg p
    split
    · simp
    · revert p
      apply bind_noPanic
      · cases c.doArgs with
        | some as =>
          simp only
          intro p
          split
          · simp
          · split
            · simp
            · revert p
              apply bind_noPanic (chainArg0_noPanic as)
              intro a p
              split <;> simp
        | none =>
          simp only
          cases c.reportArgs with
          | none => simp
          | some as =>
            apply bind_noPanic (chainArg0_noPanic as)
            intro a
            apply bind_noPanic (parseStringArg_noPanic a)
            intro s q; simp
      · intro dr q; simp

theorem convertRuleG_noPanic (dec : Bytes → String) (c : Chain) : ∀ p, convertRuleG true dec c ≠ .panic p :=
  convertRuleW_noPanic _ (convertG_noPanic true) dec c

theorem toFE_zero (dec : Bytes → String) : (toFE dec FilterExpr.zero).op = fInvalid := rfl

/-- a rule the repaired converter produces has a Where clause inside the loader's domain -/
theorem convertRuleW_wf (conv : CExpr → CRes FilterExpr) (hconv : ∀ e fe, conv e = .ok fe → Out fe)
    (dec : Bytes → String) (c : Chain) (r : Loader.Rule) (h : convertRuleW conv true dec c = .ok r) :
    wfRule r = true := by
  unfold convertRuleW at h
  split at h
  · cases h
  · obtain ⟨alts, _, h⟩ := bind_ok h
    obtain ⟨loc, _, h⟩ := bind_ok h
    obtain ⟨wh, hwh, h⟩ := bind_ok h
    obtain ⟨sugg, _, h⟩ := bind_ok h
    split at h
    · cases h
    · obtain ⟨dr, _, h⟩ := bind_ok h
      have := cres_ok_inj h; subst this
      simp only [wfRule, Bool.or_eq_true, decide_eq_true_eq]
      cases hw : c.whereArgs with
      | none =>
        simp only [hw] at hwh
        have := cres_ok_inj hwh; subst this
        exact Or.inl rfl
      | some as =>
        simp only [hw] at hwh
        obtain ⟨a, _, hconv'⟩ := bind_ok hwh
        exact Or.inr ((out_good dec wh (hconv a wh hconv')).1 _)

theorem convertRuleG_wf (dec : Bytes → String) (c : Chain) (r : Loader.Rule) (h : convertRuleG true dec c = .ok r) :
    wfRule r = true :=
  convertRuleW_wf _ convertG_out dec c r h

theorem convertFileG_wf (dec : Bytes → String) (gs : List SrcGroup) (f : Loader.File) (h : convertFileG true dec gs = .ok f) :
    Loader.wfFile f = true := by
  unfold convertFileG at h
  obtain ⟨gs', hgs, h⟩ := bind_ok h
  have := cres_ok_inj h; subst this
  simp only [Loader.wfFile, List.all_eq_true]
  intro g hg r hr
  obtain ⟨sg, _, hsg⟩ := seqC_ok _ _ _ hgs g hg
  unfold convertGroupG at hsg
  obtain ⟨rs, hrs, hsg⟩ := bind_ok hsg
  have := cres_ok_inj hsg; subst this
  obtain ⟨c, _, hc⟩ := seqC_ok _ _ _ hrs r hr
  exact convertRuleG_wf dec c r hc

theorem convertFileG_noPanic (dec : Bytes → String) (gs : List SrcGroup) : ∀ p, convertFileG true dec gs ≠ .panic p := by
  unfold convertFileG
  apply bind_noPanic
  · apply seqC_noPanic
    intro g _
    unfold convertGroupG
    apply bind_noPanic
    · apply seqC_noPanic
      intro c _
      exact convertRuleG_noPanic dec c
    · intro rs q; simp
  · intro gs' q; simp

end Comp
