import Rg.Model.MacroLit
/-!
# `parseInt0` reads Go integer literals as the language defines them

The specification side is the Go spec's own description of an integer literal: an optional base prefix
(`0b`, `0o`, `0x`, either case; a bare leading `0` means octal), then digits of that base with `_`
allowed only after the prefix or between digits; its value is the digits read in that base, `_` ignored.
A literal is given abstractly (`Item`s: a digit with its letter case, or `_`) and *rendered* to text;
the theorems say that the transcribed `strconv.ParseInt(·, 0, 64)` returns exactly that value for every
such literal below 2^63 — legacy octal (`0777`, `0_7`), prefixed (`0x1F`, `0b_1`, `0O17`), decimal (`1_000`).
-/
namespace MacroLit

/-- a digit as written (value, upper case?) or `none` = `_` -/
abbrev Item := Option (Nat × Bool)

def renderDigit (d : Nat) (upper : Bool) : Nat := if d < 10 then 48 + d else if upper then 55 + d else 87 + d

def renderItem : Item → Nat
  | none => 95
  | some (d, u) => renderDigit d u

def digitsOf : List Item → List Nat
  | [] => []
  | none :: r => digitsOf r
  | some (d, _) :: r => d :: digitsOf r

/-- the digits `ds` read in `base`, continuing from `n` -/
def digitsVal (base : Nat) : Nat → List Nat → Nat
  | n, [] => n
  | n, d :: ds => digitsVal base (n * base + d) ds

def hasUs : List Item → Bool
  | [] => false
  | none :: _ => true
  | some _ :: r => hasUs r

/-- `_` only directly after a digit (or the base prefix: `p` = "the previous character counts as a digit")
and directly before a digit -/
def sep : Bool → List Item → Bool
  | p, [] => p
  | _, some _ :: r => sep true r
  | p, none :: r => p && sep false r

def digitsBelow (base : Nat) (l : List Item) : Prop := ∀ d u, some (d, u) ∈ l → d < base

/-- letters are digits only in a hexadecimal literal -/
def okDigits (hex : Bool) (l : List Item) : Prop := ∀ d u, some (d, u) ∈ l → d < 10 ∨ (hex = true ∧ d < 16)

theorem char_facts : ∀ d, d < 16 → ∀ u : Bool,
    digitOf (renderDigit d u) = some d ∧ renderDigit d u ≠ 95 ∧ renderDigit d u ≠ 43 ∧ renderDigit d u ≠ 45 ∧
    ((48 ≤ renderDigit d u ∧ renderDigit d u ≤ 57) ∨ (97 ≤ lower (renderDigit d u) ∧ lower (renderDigit d u) ≤ 102)) ∧
    (d < 10 → 48 ≤ renderDigit d u ∧ renderDigit d u ≤ 57) ∧
    (d < 10 → isPrefixLetter (renderDigit d u) = false) ∧
    (d < 10 → d ≠ 0 → renderDigit d u ≠ 48) := by decide

theorem us_facts : isPrefixLetter 95 = false ∧ ¬ (48 ≤ 95 ∧ 95 ≤ 57) ∧ ¬ (97 ≤ lower 95 ∧ lower 95 ≤ 102) := by decide

theorem digitsVal_ge (base : Nat) : ∀ (ds : List Nat) (n : Nat), n ≤ digitsVal base n ds ∨ base = 0
  | [], n => Or.inl (Nat.le_refl _)
  | d :: ds, n => by
    cases base with
    | zero => exact Or.inr rfl
    | succ b =>
      left
      rcases digitsVal_ge (b + 1) ds (n * (b + 1) + d) with h | h
      · simp only [digitsVal]
        have h0 : n ≤ n * (b + 1) := Nat.le_mul_of_pos_right n (Nat.succ_pos b)
        omega
      · omega

theorem uloop_items (base : Nat) (hb2 : 2 ≤ base) (hb16 : base ≤ 16) :
    ∀ (l : List Item) (n : Nat) (us : Bool), digitsBelow base l → digitsVal base n (digitsOf l) ≤ maxU64 →
      uloop base (maxU64 / base + 1) (l.map renderItem) n us = some (digitsVal base n (digitsOf l), us || hasUs l)
  | [], n, us, _, _ => by simp [uloop, digitsVal, digitsOf, hasUs]
  | none :: r, n, us, hd, hv => by
    have ih := uloop_items base hb2 hb16 r n true (fun d u h => hd d u (List.mem_cons_of_mem _ h)) (by simpa [digitsOf] using hv)
    simp [uloop, renderItem, digitsOf, hasUs, ih]
  | some (d, u) :: r, n, us, hd, hv => by
    have hdb : d < base := hd d u (by simp)
    have hd16 : d < 16 := by omega
    obtain ⟨h1, h2, _, _, _, _, _, _⟩ := char_facts d hd16 u
    have hv' : digitsVal base (n * base + d) (digitsOf r) ≤ maxU64 := by simpa [digitsOf, digitsVal] using hv
    have hge : n * base + d ≤ digitsVal base (n * base + d) (digitsOf r) := by
      rcases digitsVal_ge base (digitsOf r) (n * base + d) with h | h
      · exact h
      · omega
    have hn : n * base ≤ maxU64 := by omega
    have hcut : ¬ n ≥ maxU64 / base + 1 := by
      have : n ≤ maxU64 / base := (Nat.le_div_iff_mul_le (by omega)).2 hn
      omega
    have ih := uloop_items base hb2 hb16 r (n * base + d) us (fun d u h => hd d u (List.mem_cons_of_mem _ h)) hv'
    have hnb : ¬ d ≥ base := by omega
    have hov : ¬ n * base + d > maxU64 := by omega
    simp only [List.map_cons, renderItem, uloop, h2, if_false, h1, hnb, hcut, hov, ih, digitsOf, digitsVal, hasUs]

theorem usLoop_sep (hex : Bool) : ∀ (l : List Item) (saw : Nat) (p : Bool), (p = true → saw = 1) → okDigits hex l →
    sep p l = true → usLoop hex (l.map renderItem) saw = true
  | [], saw, p, hp, _, hs => by
    have : saw = 1 := hp (by simpa [sep] using hs)
    simp [usLoop, this]
  | none :: r, saw, p, hp, hok, hs => by
    simp only [sep, Bool.and_eq_true] at hs
    have hsaw : saw = 1 := hp hs.1
    have ih := usLoop_sep hex r 2 false (by simp) (fun d u h => hok d u (List.mem_cons_of_mem _ h)) hs.2
    obtain ⟨_, h2, h3⟩ := us_facts
    simp only [List.map_cons, renderItem, usLoop]
    rw [if_neg (by
      intro h
      rcases h with h | ⟨_, h⟩
      · exact h2 h
      · exact h3 h)]
    simp [hsaw, ih]
  | some (d, u) :: r, saw, p, _, hok, hs => by
    have ih := usLoop_sep hex r 1 true (by simp) (fun d u h => hok d u (List.mem_cons_of_mem _ h)) (by simpa [sep] using hs)
    have hdig : (48 ≤ renderDigit d u ∧ renderDigit d u ≤ 57) ∨ (hex = true ∧ 97 ≤ lower (renderDigit d u) ∧ lower (renderDigit d u) ≤ 102) := by
      rcases hok d u (by simp) with h | ⟨hh, h⟩
      · exact Or.inl ((char_facts d (by omega) u).2.2.2.2.2.1 h)
      · rcases (char_facts d h u).2.2.2.2.1 with h' | h'
        · exact Or.inl h'
        · exact Or.inr ⟨hh, h'⟩
    simp only [List.map_cons, renderItem, usLoop]
    rw [if_pos hdig]
    exact ih

/-- the first character of a rendered item list is not a base-prefix letter when its digits are decimal digits -/
theorem head_not_prefix (l : List Item) (h : ∀ d u, some (d, u) ∈ l → d < 10) :
    ∀ c t, l.map renderItem = c :: t → isPrefixLetter c = false := by
  intro c t hc
  cases l with
  | nil => simp at hc
  | cons i r =>
    simp only [List.map_cons, List.cons.injEq] at hc
    cases i with
    | none => rw [← hc.1]; exact us_facts.1
    | some du =>
      obtain ⟨d, u⟩ := du
      rw [← hc.1]
      exact (char_facts d (by have := h d u (by simp); omega) u).2.2.2.2.2.2.1 (h d u (by simp))

theorem splitBase_octal (cs : List Nat) (h : ∀ c t, cs = c :: t → isPrefixLetter c = false) :
    splitBase (48 :: cs) = (8, cs) := by
  cases cs with
  | nil => simp [splitBase]
  | cons c1 t =>
    have hp := h c1 t rfl
    simp only [isPrefixLetter, decide_eq_false_iff_not, not_or] at hp
    cases t with
    | nil => simp [splitBase]
    | cons c2 r => simp [splitBase, hp.1, hp.2.1, hp.2.2]

theorem underscoreOK_octal (cs : List Nat) (h : ∀ c t, cs = c :: t → isPrefixLetter c = false) :
    underscoreOK (48 :: cs) = usLoop false cs 1 := by
  cases cs with
  | nil => simp [underscoreOK, stripSign, usLoop]
  | cons c1 t =>
    have hp := h c1 t rfl
    simp [underscoreOK, stripSign, hp, usLoop]

/-- the three shapes of a Go integer literal, rendered -/
inductive LitForm
  | legacyOctal (l : List Item)                      -- `0` digits…            (also the literal `0` itself)
  | prefixed (base : Nat) (letter : Nat) (l : List Item)  -- `0` letter digits…
  | decimal (d0 : Nat) (l : List Item)               -- a non-zero digit, then digits…

def LitForm.text : LitForm → List Nat
  | .legacyOctal l => 48 :: l.map renderItem
  | .prefixed _ letter l => 48 :: letter :: l.map renderItem
  | .decimal d0 l => renderDigit d0 false :: l.map renderItem

/-- Go's value of the literal -/
def LitForm.value : LitForm → Nat
  | .legacyOctal l => digitsVal 8 0 (digitsOf l)
  | .prefixed base _ l => digitsVal base 0 (digitsOf l)
  | .decimal d0 l => digitsVal 10 d0 (digitsOf l)

/-- well-formedness per the Go grammar -/
def LitForm.wf : LitForm → Prop
  | .legacyOctal l => digitsBelow 8 l ∧ sep true l = true
  | .prefixed base letter l =>
    ((base = 2 ∧ lower letter = 98) ∨ (base = 8 ∧ lower letter = 111) ∨ (base = 16 ∧ lower letter = 120)) ∧
    l ≠ [] ∧ digitsBelow base l ∧ sep true l = true
  | .decimal d0 l => 1 ≤ d0 ∧ d0 ≤ 9 ∧ digitsBelow 10 l ∧ sep true l = true

theorem parseUint0_legacyOctal (l : List Item) (hd : digitsBelow 8 l) (hs : sep true l = true)
    (hv : digitsVal 8 0 (digitsOf l) ≤ maxU64) :
    parseUint0 (48 :: l.map renderItem) = some (digitsVal 8 0 (digitsOf l)) := by
  have hhead := head_not_prefix l (fun d u h => by have := hd d u h; omega)
  have hloop := uloop_items 8 (by omega) (by omega) l 0 false hd hv
  have hus : underscoreOK (48 :: l.map renderItem) = true := by
    rw [underscoreOK_octal _ hhead]
    exact usLoop_sep false l 1 true (by simp) (fun d u h => Or.inl (by have := hd d u h; omega)) hs
  simp only [parseUint0, splitBase_octal _ hhead, hloop, hus]
  simp

theorem parseUint0_prefixed (base letter : Nat) (l : List Item)
    (hb : (base = 2 ∧ lower letter = 98) ∨ (base = 8 ∧ lower letter = 111) ∨ (base = 16 ∧ lower letter = 120))
    (hne : l ≠ []) (hd : digitsBelow base l) (hs : sep true l = true) (hv : digitsVal base 0 (digitsOf l) ≤ maxU64) :
    parseUint0 (48 :: letter :: l.map renderItem) = some (digitsVal base 0 (digitsOf l)) := by
  have hb2 : 2 ≤ base ∧ base ≤ 16 := by omega
  have hloop := uloop_items base hb2.1 hb2.2 l 0 false hd hv
  cases hl : l.map renderItem with
  | nil => cases l with
    | nil => exact absurd rfl hne
    | cons _ _ => simp at hl
  | cons c2 r =>
    rw [hl] at hloop
    have hsplit : splitBase (48 :: letter :: c2 :: r) = (base, c2 :: r) := by
      rcases hb with ⟨h1, h2⟩ | ⟨h1, h2⟩ | ⟨h1, h2⟩ <;> simp [splitBase, h1, h2]
    have hus : underscoreOK (48 :: letter :: c2 :: r) = true := by
      have hpl : isPrefixLetter letter = true := by
        rcases hb with ⟨_, h2⟩ | ⟨_, h2⟩ | ⟨_, h2⟩ <;> simp [isPrefixLetter, h2]
      have hok : okDigits (decide (lower letter = 120)) l := by
        intro d u h
        have hdb := hd d u h
        rcases hb with ⟨h1, h2⟩ | ⟨h1, h2⟩ | ⟨h1, h2⟩
        · left; omega
        · left; omega
        · right; exact ⟨by simp [h2], by omega⟩
      have := usLoop_sep (decide (lower letter = 120)) l 1 true (by simp) hok hs
      rw [hl] at this
      simp [underscoreOK, stripSign, hpl, this]
    simp only [parseUint0, hsplit, hloop, hus]
    simp

theorem parseUint0_decimal (d0 : Nat) (l : List Item) (h1 : 1 ≤ d0) (h9 : d0 ≤ 9) (hd : digitsBelow 10 l)
    (hs : sep true l = true) (hv : digitsVal 10 d0 (digitsOf l) ≤ maxU64) :
    parseUint0 (renderDigit d0 false :: l.map renderItem) = some (digitsVal 10 d0 (digitsOf l)) := by
  obtain ⟨_, _, hp, hm, _, _, _, h48⟩ := char_facts d0 (by omega) false
  have hne : renderDigit d0 false ≠ 48 := h48 (by omega) (by omega)
  have hd' : digitsBelow 10 (some (d0, false) :: l) := by
    intro d u h
    simp only [List.mem_cons, Option.some.injEq, Prod.mk.injEq] at h
    rcases h with ⟨h, _⟩ | h
    · omega
    · exact hd d u h
  have hloop := uloop_items 10 (by omega) (by omega) (some (d0, false) :: l) 0 false hd'
    (by simpa [digitsOf, digitsVal] using hv)
  simp only [List.map_cons, renderItem, digitsOf, digitsVal, Nat.zero_mul, Nat.zero_add] at hloop
  have hsplit : splitBase (renderDigit d0 false :: l.map renderItem) = (10, renderDigit d0 false :: l.map renderItem) := by
    cases l.map renderItem with
    | nil => simp [splitBase, hne]
    | cons c1 t => cases t <;> simp [splitBase, hne]
  have hus : underscoreOK (renderDigit d0 false :: l.map renderItem) = true := by
    have hok : okDigits false (some (d0, false) :: l) := by
      intro d u h
      left
      exact hd' d u h
    have := usLoop_sep false (some (d0, false) :: l) 0 false (by simp) hok (by simpa [sep] using hs)
    simp only [List.map_cons, renderItem] at this
    cases hl : l.map renderItem with
    | nil => rw [hl] at this; simp [underscoreOK, stripSign, hp, hm, this]
    | cons c1 t => rw [hl] at this; simp [underscoreOK, stripSign, hp, hm, hne, this]
  simp only [parseUint0, hsplit, hloop, hus]
  simp

/-- **`ParseInt(text, 0, 64)` is Go's value of the literal**, for every well-formed integer literal below 2^63 -/
theorem parseInt0_is_go_value (f : LitForm) (hwf : f.wf) (hv : f.value < 2 ^ 63) :
    parseInt0 f.text = some (Int.ofNat f.value) := by
  have hmax : f.value ≤ maxU64 := by
    have : (2 : Nat) ^ 63 ≤ maxU64 := by decide
    omega
  have hu : parseUint0 f.text = some f.value := by
    cases f with
    | legacyOctal l => exact parseUint0_legacyOctal l hwf.1 hwf.2 hmax
    | prefixed base letter l => exact parseUint0_prefixed base letter l hwf.1 hwf.2.1 hwf.2.2.1 hwf.2.2.2 hmax
    | decimal d0 l => exact parseUint0_decimal d0 l hwf.1 hwf.2.1 hwf.2.2.1 hwf.2.2.2 hmax
  have hfirst : ∃ c r, f.text = c :: r ∧ c ≠ 43 ∧ c ≠ 45 := by
    cases f with
    | legacyOctal l => exact ⟨48, _, rfl, by decide, by decide⟩
    | prefixed base letter l => exact ⟨48, _, rfl, by decide, by decide⟩
    | decimal d0 l =>
      obtain ⟨_, _, hp, hm, _⟩ := char_facts d0 (by have := hwf.2.1; omega) false
      exact ⟨_, _, rfl, hp, hm⟩
  obtain ⟨c, r, hcr, hp, hm⟩ := hfirst
  rw [hcr] at hu ⊢
  simp only [parseInt0, hp, hm, if_false, hu]
  have : ¬ f.value ≥ 2 ^ 63 := by omega
  simp [this]

end MacroLit
