import Rg.Model.SinkFixed
import Rg.Proofs.Sink
/-!
# Proofs for the repaired sink model (`Sink.findSinkR`, after `fixes/c02-sink-contexts.diff`)

`AgreesR c fs` for every shape of the innermost context, with the facts contract as the only hypothesis:
no condition on the match (parenthesised or not) and none on the context.
-/
namespace SinkProofs
open Sink SpecSink

def sinkAtR (c : Ctx) (fs : List Frame) : Res Ty :=
  match findSinkRoot fs with
  | .panic p => .panic p
  | .ok (parent, kv) => findSinkTypeR c parent kv

def AgreesR (c : Ctx) (fs : List Frame) : Prop := ∃ t, sinkAtR c fs = .ok t ∧ tyId t = expectedAt fs

theorem findSinkR_eq_sinkAtR (c : Ctx) : findSinkR c = sinkAtR c (context c.frames) := by
  unfold findSinkR sinkAtR
  rw [findSinkRoot_context]
  cases findSinkRoot (context c.frames) <;> rfl

theorem anyIdx_slot {i n : Nat} (h : i < n) : anyIdx (fun j => i == j) n = true := by
  unfold anyIdx
  simp [firstIdx_eq' h]

theorem anyIdx_none (n : Nat) : anyIdx (fun _ => false) n = false := by
  unfold anyIdx
  simp [firstIdx_false]

theorem derefElided_eq (u : Under) (el : Bool) : derefElided u el = litUnder u el := by
  cases u <;> cases el <;> rfl

theorem arityFits_eq_arityOk (s : Sig) (ell : Bool) (n : Nat) : arityFits s ell n = arityOk s ell n := by
  unfold arityFits arityOk
  cases s.variadic <;> cases ell <;> simp
  by_cases h : s.params.length ≤ n + 1
  · have : ¬ ((n : Int) < (s.params.length : Int) - 1) := by omega
    simp [h, this]
  · have : ((n : Int) < (s.params.length : Int) - 1) := by omega
    simp [h, this]

theorem argExpects_none {s : Sig} {ell : Bool} {n i : Nat} (h : arityOk s ell n = false) : argExpects s ell n i = none := by
  unfold arityOk at h
  unfold argExpects
  cases hv : s.variadic <;> simp [hv] at h ⊢
  · simp [h]
  · cases ell <;> simp at h ⊢
    · intro h'; omega
    · simp [h]

theorem agreesR_valueSpec (c : Ctx) (slot dt up) : AgreesR c (.valueSpec slot dt :: up) := by
  unfold AgreesR sinkAtR
  cases slot <;> cases dt <;> simp [findSinkRoot, findSinkTypeR, expectedAt, tyId]

theorem agreesR_ret (c : Ctx) (b a up) (hctx : context c.frames = .ret b a :: up)
    (hwf : wfFrames (.ret b a :: up) = true) : AgreesR c (.ret b a :: up) := by
  unfold AgreesR sinkAtR
  simp only [wfFrames, adjOk, Bool.and_eq_true] at hwf
  obtain ⟨⟨_, hadj⟩, _⟩ := hwf
  have hfi : firstIdx (fun j => j == b) (b + 1 + a) = some b := firstIdx_eq (by omega)
  cases he : enclosingFunc up with
  | none => simp [he] at hadj
  | some os =>
    cases os with
    | none => simp [he] at hadj
    | some s =>
      simp [he] at hadj
      have hcf : findContainingFunc c.frames = some s := by
        rw [findContainingFunc_context hctx]; exact containingFunc_of_enclosing he
      by_cases hlen : s.results.length = b + 1 + a
      · cases hr : s.results[b]? with
        | none => simp at hr; omega
        | some t => exact ⟨t, by simp [findSinkRoot, findSinkTypeR, hfi, hcf, hlen, hr], by simp [expectedAt, he, hlen, hr]⟩
      · exact ⟨.invalid, by simp [findSinkRoot, findSinkTypeR, hfi, hcf, hlen], by simp [expectedAt, he, hlen, tyId]⟩

theorem agreesR_send (c : Ctx) (v ct u up) (hwf : wfFrames (.send v ct u :: up) = true) : AgreesR c (.send v ct u :: up) := by
  unfold AgreesR sinkAtR
  simp only [wfFrames, frameOk, Bool.and_eq_true, bne_iff_ne, ne_eq] at hwf
  obtain ⟨⟨hct, _⟩, _⟩ := hwf
  cases v <;> cases u <;> simp [findSinkRoot, findSinkTypeR, hct, expectedAt, tyId]

theorem agreesR_index (c : Ctx) (inIndex xt xu up) (hwf : wfFrames (.index inIndex xt xu :: up) = true) :
    AgreesR c (.index inIndex xt xu :: up) := by
  unfold AgreesR sinkAtR
  simp only [wfFrames, frameOk, Bool.and_eq_true, bne_iff_ne, ne_eq] at hwf
  obtain ⟨⟨hx, _⟩, _⟩ := hwf
  cases inIndex <;> cases xu <;> simp [findSinkRoot, findSinkTypeR, hx, expectedAt, tyId]

theorem agreesR_assign (c : Ctx) (tok onRhs pos lhs nRhs up) (hwf : wfFrames (.assign tok onRhs pos lhs nRhs :: up) = true) :
    AgreesR c (.assign tok onRhs pos lhs nRhs :: up) := by
  unfold AgreesR sinkAtR
  simp only [wfFrames, frameOk, Bool.and_eq_true] at hwf
  obtain ⟨⟨hpos, _⟩, _⟩ := hwf
  by_cases htok : tok = .assign
  · subst htok
    by_cases hlen : lhs.length = nRhs
    · cases onRhs with
      | false => exact ⟨.invalid, by simp [findSinkRoot, findSinkTypeR, hlen, firstIdx_false], by simp [expectedAt, tyId]⟩
      | true =>
        simp at hpos
        have hfi := firstIdx_eq hpos
        cases hl : lhs[pos]? with
        | none => simp at hl; omega
        | some t => exact ⟨t, by simp [findSinkRoot, findSinkTypeR, hlen, hfi, hl], by simp [expectedAt, hlen, hl]⟩
    · refine ⟨.invalid, by simp [findSinkRoot, findSinkTypeR, hlen], ?_⟩
      cases onRhs <;> simp [expectedAt, hlen, tyId]
  · refine ⟨.invalid, by simp [findSinkRoot, findSinkTypeR, htok], ?_⟩
    cases tok <;> simp_all [expectedAt, tyId]

theorem agreesR_misc (c : Ctx) (f up) (h : (∃ s, f = .funcLit s) ∨ (∃ s, f = .funcDecl s) ∨ (∃ e, f = .other e)) :
    AgreesR c (f :: up) := by
  unfold AgreesR sinkAtR
  rcases h with ⟨s, rfl⟩ | ⟨s, rfl⟩ | ⟨e, rfl⟩ <;>
    exact ⟨.invalid, by simp [findSinkRoot, findSinkTypeR], by simp [expectedAt, tyId]⟩

theorem firstIdx_field' {i n len : Nat} (hi : i < n) :
    firstIdx (fun j => (i == j) && decide (j < len)) n = if i < len then some i else none := by
  rw [firstIdx_unique _ i]
  · simp [hi]
  · intro j hj; simp at hj; omega

theorem agreesR_composite (c : Ctx) (slot n lt u el up) (hwf : wfFrames (.composite slot n lt u el :: up) = true) :
    AgreesR c (.composite slot n lt u el :: up) := by
  unfold AgreesR sinkAtR
  simp only [wfFrames, frameOk, Bool.and_eq_true, bne_iff_ne, ne_eq] at hwf
  obtain ⟨⟨⟨hlt, hslot⟩, _⟩, _⟩ := hwf
  cases slot with
  | none => exact ⟨.invalid, by simp [findSinkRoot, findSinkTypeR, anyIdx_none], by simp [expectedAt, tyId]⟩
  | some i =>
    simp at hslot
    have hany := anyIdx_slot hslot
    simp [findSinkRoot, findSinkTypeR, hany, hlt, expectedAt, derefElided_eq]
    generalize litUnder u el = typ
    cases typ <;> simp [elemExpects, tyId]
    rename_i fields
    rw [firstIdx_field' hslot]
    by_cases hi : i < fields.length
    · have : fields[i]? = some fields[i] := by simp [hi]
      simp [hi]
    · have : fields[i]? = none := by simp; omega
      simp [hi]

theorem agreesR_keyValue (c : Ctx) (k id up) (hwf : wfFrames (.keyValue k id :: up) = true) :
    AgreesR c (.keyValue k id :: up) := by
  unfold AgreesR sinkAtR
  simp only [wfFrames, Bool.and_eq_true] at hwf
  obtain ⟨⟨_, hadj⟩, hup⟩ := hwf
  cases up with
  | nil => simp [adjOk] at hadj
  | cons f up =>
    cases f <;> simp [adjOk] at hadj
    rename_i slot n lt u el
    cases slot with
    | none => simp at hadj
    | some i =>
      simp only [wfFrames, frameOk, Bool.and_eq_true, bne_iff_ne, ne_eq] at hup
      obtain ⟨⟨⟨hlt, _⟩, _⟩, _⟩ := hup
      simp [findSinkRoot, Frame.isExpr, findSinkTypeR, hlt, expectedAt, derefElided_eq]
      generalize litUnder u el = typ
      cases typ <;> cases k <;> simp [keyExpects, valueExpects, tyId, fieldByName_eq_lookup]
      all_goals
        cases id with
        | none => simp
        | some name =>
          rename_i fields _
          cases hl : List.lookup name fields <;> simp [hl, tyId]

theorem agreesR_call (c : Ctx) (slot n fn ell up) (hwf : wfFrames (.call slot n fn ell :: up) = true) :
    AgreesR c (.call slot n fn ell :: up) := by
  unfold AgreesR sinkAtR
  simp only [wfFrames, frameOk, Bool.and_eq_true] at hwf
  obtain ⟨⟨⟨hslot, hfn⟩, _⟩, _⟩ := hwf
  cases fn with
  | notSig t isType =>
    cases slot with
    | none => exact ⟨.invalid, by simp [findSinkRoot, findSinkTypeR, anyIdx_none], by cases isType <;> simp [expectedAt, tyId]⟩
    | some i =>
      simp at hslot
      cases isType with
      | false => exact ⟨.invalid, by simp [findSinkRoot, findSinkTypeR], by simp [expectedAt, tyId]⟩
      | true => exact ⟨t, by simp [findSinkRoot, findSinkTypeR, anyIdx_slot hslot], by simp [expectedAt]⟩
  | sig s =>
    cases slot with
    | none => exact ⟨.invalid, by simp [findSinkRoot, findSinkTypeR, firstIdx_false], by simp [expectedAt, tyId]⟩
    | some i =>
      simp at hslot
      have hfi : firstIdx (fun j => i == j) n = some i := firstIdx_eq' hslot
      simp [findSinkRoot, findSinkTypeR, hfi, expectedAt, arityFits_eq_arityOk]
      cases ha : arityOk s ell n with
      | true => simpa using callArg_spec s ell n i hslot hfn ha
      | false => simp [argExpects_none ha, tyId]

theorem agreesR (c : Ctx) (fs : List Frame) (hctx : context c.frames = fs) (hwf : wfFrames fs = true) : AgreesR c fs := by
  cases fs with
  | nil => exact ⟨.invalid, by simp [sinkAtR, findSinkRoot, findSinkTypeR], by simp [expectedAt, tyId]⟩
  | cons f up =>
    cases f with
    | paren => exact absurd hctx (context_not_paren _ _)
    | keyValue k id => exact agreesR_keyValue c k id up hwf
    | valueSpec slot dt => exact agreesR_valueSpec c slot dt up
    | ret b a => exact agreesR_ret c b a up hctx hwf
    | index i xt xu => exact agreesR_index c i xt xu up hwf
    | assign tok r pos lhs n => exact agreesR_assign c tok r pos lhs n up hwf
    | composite slot n lt u el => exact agreesR_composite c slot n lt u el up hwf
    | call slot n fn ell => exact agreesR_call c slot n fn ell up hwf
    | funcLit s => exact agreesR_misc c _ up (Or.inl ⟨s, rfl⟩)
    | funcDecl s => exact agreesR_misc c _ up (Or.inr (Or.inl ⟨s, rfl⟩))
    | send v ct u => exact agreesR_send c v ct u up hwf
    | other e => exact agreesR_misc c _ up (Or.inr (Or.inr ⟨e, rfl⟩))

end SinkProofs
