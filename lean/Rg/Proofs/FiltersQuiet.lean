import Rg.Proofs.FiltersDispatch
/-! A loaded filter does not panic at a calm match when nothing it mentions can fail (`SpecC17.quiet`). -/
namespace FIR
open SpecC17

/-- no capture is an empty `$*xs` list and `Sizes.Sizeof` answers for every captured expression -/
def capCalm : Cap → Bool
  | .node _ _ (some e) => e.size.isSome
  | .node _ _ none => true
  | .list _ _ es => !es.isEmpty && es.all (fun e => e.size.isSome)

def calm (c : Ctx) : Bool := c.vars.all (fun p => capCalm p.2)

theorem calm_lookup {c : Ctx} {v : Bytes} {cap : Cap} (hc : calm c = true) (h : c.lookup v = some cap) :
    capCalm cap = true := by
  unfold Ctx.lookup at h
  cases hf : c.vars.find? (fun p => p.1 == v) with
  | none => simp [hf] at h
  | some p =>
    simp [hf] at h; subst h
    have hm := List.mem_of_find?_eq_some hf
    simp only [calm, List.all_eq_true] at hc
    exact hc p hm

theorem subExprFacts_size {c : Ctx} (hc : calm c = true) (v : Bytes) : ∃ s, (subExprFacts c v).size = some s := by
  unfold subExprFacts
  split
  · rename_i l t e hl
    have := calm_lookup hc hl
    simp [capCalm] at this
    exact Option.isSome_iff_exists.mp this
  · exact ⟨c.invSize, rfl⟩

theorem sizeAll_ok (t : Tok) (k : CV) : ∀ es : List EF, es.all (fun e => e.size.isSome) = true →
    ∃ b, sizeAll t k es = .ok b := by
  intro es
  induction es with
  | nil => intro _; exact ⟨true, rfl⟩
  | cons e es ih =>
    intro h
    simp only [List.all_cons, Bool.and_eq_true] at h
    obtain ⟨s, hs⟩ := Option.isSome_iff_exists.mp h.1
    obtain ⟨b, hb⟩ := ih h.2
    unfold sizeAll
    by_cases htp : e.tparam = true
    · exact ⟨false, by simp [htp]⟩
    · by_cases hcmp : constCompare (.int s) t k = true
      · exact ⟨b, by simp [htp, hs, hcmp, hb]⟩
      · exact ⟨false, by simp [htp, hs, hcmp]⟩

theorem posLine_ok {c : Ctx} (hc : calm c = true) {v : Bytes} (hb : (c.lookup v).isSome = true) :
    ∃ l, posLine c v = .ok (some l) := by
  obtain ⟨cap, hl⟩ := Option.isSome_iff_exists.mp hb
  have hcc := calm_lookup hc hl
  unfold posLine
  cases cap with
  | node l t e => exact ⟨l, by simp [hl]⟩
  | list l t es =>
    simp [capCalm] at hcc
    exact ⟨l, by simp [hl, hcc.1]⟩

theorem nodeText_ok {c : Ctx} {v : Bytes} (hb : (c.lookup v).isSome = true) :
    ∃ t, nodeText c v = .ok t := by
  obtain ⟨cap, hl⟩ := Option.isSome_iff_exists.mp hb
  unfold nodeText
  cases cap with
  | node l t e => exact ⟨t, by simp [hl]⟩
  | list l t es =>
    by_cases he : es.isEmpty = true
    · exact ⟨[], by simp [hl, he]⟩
    · exact ⟨t, by simp [hl, he]⟩

/-- `quiet` on a value operand whose op is one of the four variable ops: the variable is bound -/
theorem quiet_var {c : Ctx} {op : Op} {v : Bytes} {as : List FE} (hop : op.hasVar = true)
    (h : quietV c (.mk op (.str v) as) = true) : (c.lookup v).isSome = true := by
  cases op <;> simp_all [quietV, Op.hasVar]

theorem core_quiet {c : Ctx} {fx : Bool} {op : Op} {l r : FE} {f : Flt} (hc : calm c = true)
    (hl : newCmpCore fx op l r = .ok f) (ql : quietV c l = true) (qr : quietV c r = true) :
    ∃ b, evalFlt c f = .ok b := by
  unfold newCmpCore at hl
  cases ht : tokOf op with
  | none => simp [ht] at hl
  | some t =>
    simp only [ht] at hl
    cases hrv : rhsValueOf r with
    | err e => simp [hrv] at hl
    | panic p => simp [hrv] at hl
    | ok rv =>
      simp only [hrv, LRes.bind_ok] at hl
      obtain ⟨lop, lval, largs⟩ := l
      obtain ⟨rop, rval, rargs⟩ := r
      cases rv with
      | some k =>
        cases lop <;> simp only [FE.op, FE.val] at hl <;> (try (simp at hl; done)) <;>
          obtain ⟨v, rfl, rfl⟩ := bind_valString_ok hl
        · obtain ⟨tx, htx⟩ := nodeText_ok (quiet_var (by rfl) ql)
          exact ⟨constCompare (.str tx) t k, by simp [evalFlt, htx]⟩
        · obtain ⟨ln, hln⟩ := posLine_ok hc (quiet_var (by rfl) ql)
          exact ⟨constCompare (.int ln) t k, by simp [evalFlt, hln]⟩
        · simp only [evalFlt]
          split
          · exact ⟨_, rfl⟩
          · split <;> exact ⟨_, rfl⟩
        · simp only [evalFlt]
          split
          · rename_i ln tx es hlk
            have := calm_lookup hc hlk
            simp [capCalm] at this
            exact sizeAll_ok t k es (by simpa using this.2)
          · obtain ⟨s, hs⟩ := subExprFacts_size hc v
            by_cases htp : (subExprFacts c v).tparam = true
            · exact ⟨false, by simp [htp]⟩
            · exact ⟨constCompare (.int s) t k, by simp [htp, hs]⟩
      | none =>
        cases lop <;> simp only [FE.op, FE.val] at hl <;> (try (simp at hl; done))
        · obtain ⟨heq, hl⟩ := ite_ok hl; subst heq
          obtain ⟨v, w, rfl, rfl, rfl⟩ := bind2_valString_ok hl
          obtain ⟨t1, h1⟩ := nodeText_ok (quiet_var (by rfl) ql)
          obtain ⟨t2, h2⟩ := nodeText_ok (quiet_var (by rfl) qr)
          exact ⟨constCompare (.str t1) t (.str t2), by simp [evalFlt, h1, h2]⟩
        · obtain ⟨heq, hl⟩ := ite_ok hl; subst heq
          obtain ⟨v, w, rfl, rfl, rfl⟩ := bind2_valString_ok hl
          obtain ⟨l1, h1⟩ := posLine_ok hc (quiet_var (by rfl) ql)
          obtain ⟨l2, h2⟩ := posLine_ok hc (quiet_var (by rfl) qr)
          exact ⟨constCompare (.int l1) t (.int l2), by simp [evalFlt, h1, h2]⟩
        · obtain ⟨heq, hl⟩ := ite_ok hl; subst heq
          obtain ⟨v, w, rfl, rfl, rfl⟩ := bind2_valString_ok hl
          simp only [evalFlt]
          split
          · exact ⟨_, rfl⟩
          · split <;> exact ⟨_, rfl⟩
        · obtain ⟨_, hl⟩ := ite_ok hl
          obtain ⟨v, w, rfl, rfl, rfl⟩ := bind2_valString_ok hl
          obtain ⟨s1, hs1⟩ := subExprFacts_size hc v
          obtain ⟨s2, hs2⟩ := subExprFacts_size hc w
          simp only [evalFlt]
          by_cases htp : ((subExprFacts c v).tparam || (subExprFacts c w).tparam) = true
          · exact ⟨false, by simp [htp]⟩
          · exact ⟨constCompare (.int s1) t (.int s2), by simp [htp, hs1, hs2]⟩

theorem quiet_ok (c : Ctx) (fx : Bool) (hc : calm c = true) (e : FE) : ∀ (f : Flt),
    newFilter fx e = .ok f → quiet c e = true → ∃ b, evalFlt c f = .ok b := by
  fun_induction newFilter fx e with
  | case1 v a b rest iha ihb =>
    intro f hl hq
    obtain ⟨fa, ha, hl⟩ := bind_ok_inv hl
    obtain ⟨fb, hb, hl⟩ := bind_ok_inv hl
    simp at hl; subst hl
    cases rest with
    | cons x xs => simp [quiet] at hq
    | nil =>
      simp [quiet] at hq
      obtain ⟨ba, hba⟩ := iha fa ha hq.1
      obtain ⟨bb, hbb⟩ := ihb fb hb hq.2
      rw [evalFlt_and, hba, hbb]
      cases ba <;> simp [andR]
  | case2 v a iha => intro f hl; obtain ⟨fa, ha, hl⟩ := bind_ok_inv hl; simp at hl
  | case3 v => intro f hl; simp at hl
  | case4 v a b rest iha ihb =>
    intro f hl hq
    obtain ⟨fa, ha, hl⟩ := bind_ok_inv hl
    obtain ⟨fb, hb, hl⟩ := bind_ok_inv hl
    simp at hl; subst hl
    cases rest with
    | cons x xs => simp [quiet] at hq
    | nil =>
      simp [quiet] at hq
      obtain ⟨ba, hba⟩ := iha fa ha hq.1
      obtain ⟨bb, hbb⟩ := ihb fb hb hq.2
      rw [evalFlt_or, hba, hbb]
      cases ba <;> simp [orR]
  | case5 v a iha => intro f hl; obtain ⟨fa, ha, hl⟩ := bind_ok_inv hl; simp at hl
  | case6 v => intro f hl; simp at hl
  | case7 v a rest iha =>
    intro f hl hq
    obtain ⟨fa, ha, hl⟩ := bind_ok_inv hl
    simp at hl; subst hl
    cases rest with
    | cons x xs =>
      cases xs with
      | nil => simp [quiet, Op.isCmp] at hq
      | cons y ys => simp [quiet] at hq
    | nil =>
      simp [quiet] at hq
      obtain ⟨ba, hba⟩ := iha fa ha hq
      rw [evalFlt_not, hba]
      exact ⟨!ba, rfl⟩
  | case8 v => intro f hl; simp at hl
  | case9 id v args =>
    intro f hl hq
    simp at hl; subst hl
    simp only [quiet] at hq
    simp only [evalFlt]
    cases h : c.atoms[id]? with
    | none => simp [h] at hq
    | some r =>
      cases r with
      | panic p => simp [h] at hq
      | ok b => exact ⟨b, rfl⟩
  | case10 id loads v args hload => intro f hl; simp at hl
  | case11 op v args _ _ _ _ _ _ _ _ _ hcmp =>
    intro f hl hq
    cases args with
    | nil => simp [newCmp] at hl
    | cons a rest =>
      cases rest with
      | nil => cases op <;> simp_all [quiet, Op.isCmp]
      | cons b rest2 =>
        cases rest2 with
        | cons x xs => cases op <;> simp_all [quiet, Op.isCmp]
        | nil =>
          have hq' : quietV c a = true ∧ quietV c b = true := by
            cases op <;> simp_all [quiet, Op.isCmp]
          simp only [newCmp] at hl
          split at hl
          · exact core_quiet hc hl hq'.2 hq'.1
          · exact core_quiet hc hl hq'.1 hq'.2
  | case12 op v args _ _ _ _ _ _ _ _ _ hcmp hv => intro f hl; simp at hl
  | case13 op v args _ _ _ _ _ _ _ _ _ hcmp hv => intro f hl; simp at hl

end FIR
