import Rg.Model.QStruct
/-!
# decode ∘ encode for quasigo instructions

`At code p is`: the instructions `is` sit in `code` from byte `p` on, as the VM's decoder reads them.
`at_enc`: that is the case for `pre ++ enc is ++ post` at `|pre|` when every operand fits its field.
-/
namespace Q

/-- one named sample per instruction constructor, with the name the Go code gives the opcode -/
def instrSamples : List (String × Instr) := [
  ("Pop", .pop), ("Dup", .dup), ("PushParam", .pushParam 0), ("PushIntParam", .pushIntParam 0),
  ("PushLocal", .pushLocal 0), ("PushIntLocal", .pushIntLocal 0), ("PushFalse", .pushFalse), ("PushTrue", .pushTrue),
  ("PushConst", .pushConst 0), ("PushIntConst", .pushIntConst 0), ("ConvIntToIface", .convIntToIface),
  ("SetLocal", .setLocal 0), ("SetIntLocal", .setIntLocal 0), ("IncLocal", .incLocal 0), ("DecLocal", .decLocal 0),
  ("ReturnTop", .returnTop), ("ReturnIntTop", .returnIntTop), ("ReturnFalse", .returnFalse), ("ReturnTrue", .returnTrue),
  ("Return", .ret), ("Jump", .jump 0), ("JumpFalse", .jumpFalse 0), ("JumpTrue", .jumpTrue 0),
  ("SetVariadicLen", .setVariadicLen 0), ("CallNative", .callNative 0), ("Call", .call 0), ("IntCall", .intCall 0),
  ("VoidCall", .voidCall 0), ("IsNil", .isNil), ("IsNotNil", .isNotNil), ("Not", .not),
  ("EqInt", .eqInt), ("NotEqInt", .notEqInt), ("GtInt", .gtInt), ("GtEqInt", .gtEqInt), ("LtInt", .ltInt), ("LtEqInt", .ltEqInt),
  ("EqString", .eqString), ("NotEqString", .notEqString), ("Concat", .concat), ("Add", .add), ("Sub", .sub),
  ("StringSlice", .stringSlice), ("StringSliceFrom", .stringSliceFrom), ("StringSliceTo", .stringSliceTo), ("StringLen", .stringLen)]

/-- the regenerated opcode table agrees with the model: every instruction's number and width are the
table's, numbers are pairwise distinct bytes, and the table has no opcode the model does not know -/
def OpcodeTableOK (table : List (String × Nat × Nat)) : Bool :=
  instrSamples.all (fun (n, i) => table.contains (n, i.opcode, i.width)) &&
  (table.map (·.2.1)).Nodup && table.all (fun r => r.2.1 < 256) &&
  table.length == instrSamples.length + 1 && table.contains ("Invalid", 0, 1) && Opc.maxLocals == 8

theorem opcode_table_ok : OpcodeTableOK Opc.table = true := by decide

end Q

namespace Q

/-- `is` sits in `code` at byte `p` -/
def At (code : Bytes) : Int → List Instr → Prop
  | _, [] => True
  | p, i :: is => decodeAt code p = .ok i ∧ At code (p + i.width) is

/-- every operand fits its field (8-bit unsigned, 16-bit signed; function ids are read back signed) -/
def Instr.wf : Instr → Prop
  | .pushParam a | .pushIntParam a | .pushLocal a | .pushIntLocal a | .pushConst a | .pushIntConst a
  | .setLocal a | .setIntLocal a | .incLocal a | .decLocal a | .setVariadicLen a => a < 256
  | .jump o | .jumpFalse o | .jumpTrue o => -32768 ≤ o ∧ o ≤ 32767
  | .callNative o | .call o | .intCall o | .voidCall o => 0 ≤ o ∧ o ≤ 32767
  | _ => True

theorem byte_toNat (n : Nat) (h : n < 256) : (byte n).toNat = n := by
  simp [byte, UInt8.toNat_ofNat']; omega

theorem byteAt_here (pre rest : Bytes) (b : UInt8) :
    byteAt (pre ++ b :: rest) (pre.length : Int) = .ok b.toNat := by
  simp [byteAt]

theorem byteAt_next (pre rest : Bytes) (b c : UInt8) :
    byteAt (pre ++ b :: c :: rest) ((pre.length : Int) + 1) = .ok c.toNat := by
  have h : ¬ ((pre.length : Int) + 1 < 0) := by omega
  have e : ((pre.length : Int) + 1).toNat = pre.length + 1 := by omega
  simp [byteAt, h, e]

theorem le16_dec (v : Int) (h1 : -32768 ≤ v) (h2 : v ≤ 32767) :
    ∃ a b : UInt8, le16 v = [a, b] ∧
      (if a.toNat + 256 * b.toNat ≥ 32768 then ((a.toNat + 256 * b.toNat : Nat) : Int) - 65536
       else ((a.toNat + 256 * b.toNat : Nat) : Int)) = v := by
  refine ⟨_, _, rfl, ?_⟩
  have hu : (v % 65536).toNat < 65536 := by omega
  rw [byte_toNat _ (by omega), byte_toNat _ (by omega)]
  have e : (v % 65536).toNat % 256 + 256 * ((v % 65536).toNat / 256) = (v % 65536).toNat := by omega
  rw [e]
  split <;> omega

theorem decode16_here (pre rest : Bytes) (op : UInt8) (v : Int) (h1 : -32768 ≤ v) (h2 : v ≤ 32767) :
    decode16 (pre ++ op :: (le16 v ++ rest)) ((pre.length : Int) + 1) = .ok v := by
  obtain ⟨a, b, hab, hv⟩ := le16_dec v h1 h2
  have h : ¬ ((pre.length : Int) + 1 < 0) := by omega
  have e : ((pre.length : Int) + 1).toNat = pre.length + 1 := by omega
  have hl : ¬ (pre.length + 1 > (pre ++ op :: (le16 v ++ rest)).length) := by simp
  rw [hab] at hl ⊢
  simp only [decode16, h, e, if_false, hl]
  have g0 : (pre ++ op :: ([a, b] ++ rest))[pre.length + 1]? = some a := by simp
  have g1 : (pre ++ op :: ([a, b] ++ rest))[pre.length + 1 + 1]? = some b := by
    rw [List.getElem?_append_right (by omega)]
    have : pre.length + 1 + 1 - pre.length = 2 := by omega
    rw [this]; rfl
  rw [g0, g1]
  simp only []
  rw [← hv]

theorem decodeAt_encI (pre post : Bytes) (i : Instr) (h : i.wf) :
    decodeAt (pre ++ (encI i ++ post)) (pre.length : Int) = .ok i := by
  cases i <;>
  simp only [encI, Instr.opcode, Instr.wf, List.cons_append, List.nil_append] at h ⊢ <;>
  simp [decodeAt, bind, Res.bind, byteAt_here, byteAt_next, byte_toNat, h, decode16_here,
    Opc.Pop, Opc.Dup, Opc.PushParam, Opc.PushIntParam, Opc.PushLocal, Opc.PushIntLocal, Opc.PushFalse, Opc.PushTrue,
    Opc.PushConst, Opc.PushIntConst, Opc.ConvIntToIface, Opc.SetLocal, Opc.SetIntLocal, Opc.IncLocal, Opc.DecLocal,
    Opc.ReturnTop, Opc.ReturnIntTop, Opc.ReturnFalse, Opc.ReturnTrue, Opc.Return, Opc.Jump, Opc.JumpFalse, Opc.JumpTrue,
    Opc.SetVariadicLen, Opc.CallNative, Opc.Call, Opc.IntCall, Opc.VoidCall, Opc.IsNil, Opc.IsNotNil, Opc.Not,
    Opc.EqInt, Opc.NotEqInt, Opc.GtInt, Opc.GtEqInt, Opc.LtInt, Opc.LtEqInt, Opc.EqString, Opc.NotEqString, Opc.Concat,
    Opc.Add, Opc.Sub, Opc.StringSlice, Opc.StringSliceFrom, Opc.StringSliceTo, Opc.StringLen]
  all_goals (rw [decode16_here _ _ _ _ (by omega) (by omega)])

theorem encI_length (i : Instr) : (encI i).length = i.width := by
  cases i <;> simp [encI, Instr.width, le16]

theorem enc_length (is : List Instr) : (enc is).length = isize is := by
  induction is with
  | nil => rfl
  | cons i is ih => simp [enc, isize, encI_length, ih]

/-- the decode/encode layer: an encoded instruction list is found where it was put -/
theorem at_enc (is : List Instr) (h : ∀ i ∈ is, i.wf) (pre post : Bytes) :
    At (pre ++ (enc is ++ post)) (pre.length : Int) is := by
  induction is generalizing pre with
  | nil => trivial
  | cons i is ih =>
    refine ⟨?_, ?_⟩
    · have := decodeAt_encI pre (enc is ++ post) i (h i (by simp))
      simpa [enc, List.append_assoc] using this
    · have := ih (fun j hj => h j (by simp [hj])) (pre ++ encI i)
      simpa [enc, List.append_assoc, encI_length] using this

theorem isize_append (a b : List Instr) : isize (a ++ b) = isize a + isize b := by
  induction a with
  | nil => simp [isize]
  | cons i a ih => simp [isize, ih]; omega

theorem at_append (code : Bytes) (p : Int) (a b : List Instr) :
    At code p (a ++ b) ↔ At code p a ∧ At code (p + isize a) b := by
  induction a generalizing p with
  | nil => simp [At, isize]
  | cons i a ih =>
    simp only [List.cons_append, At, isize, ih, and_assoc]
    have : p + ↑i.width + ↑(isize a) = p + ↑(i.width + isize a) := by omega
    rw [this]

end Q

namespace Q
/-! width of each instruction, as simp lemmas (so that `Instr.width` need not be unfolded) -/
@[simp] theorem Instr.w_pop : Instr.pop.width = 1 := rfl
@[simp] theorem Instr.w_dup : Instr.dup.width = 1 := rfl
@[simp] theorem Instr.w_pushFalse : Instr.pushFalse.width = 1 := rfl
@[simp] theorem Instr.w_pushTrue : Instr.pushTrue.width = 1 := rfl
@[simp] theorem Instr.w_convIntToIface : Instr.convIntToIface.width = 1 := rfl
@[simp] theorem Instr.w_returnTop : Instr.returnTop.width = 1 := rfl
@[simp] theorem Instr.w_returnIntTop : Instr.returnIntTop.width = 1 := rfl
@[simp] theorem Instr.w_returnFalse : Instr.returnFalse.width = 1 := rfl
@[simp] theorem Instr.w_returnTrue : Instr.returnTrue.width = 1 := rfl
@[simp] theorem Instr.w_ret : Instr.ret.width = 1 := rfl
@[simp] theorem Instr.w_isNil : Instr.isNil.width = 1 := rfl
@[simp] theorem Instr.w_isNotNil : Instr.isNotNil.width = 1 := rfl
@[simp] theorem Instr.w_not : Instr.not.width = 1 := rfl
@[simp] theorem Instr.w_eqInt : Instr.eqInt.width = 1 := rfl
@[simp] theorem Instr.w_notEqInt : Instr.notEqInt.width = 1 := rfl
@[simp] theorem Instr.w_gtInt : Instr.gtInt.width = 1 := rfl
@[simp] theorem Instr.w_gtEqInt : Instr.gtEqInt.width = 1 := rfl
@[simp] theorem Instr.w_ltInt : Instr.ltInt.width = 1 := rfl
@[simp] theorem Instr.w_ltEqInt : Instr.ltEqInt.width = 1 := rfl
@[simp] theorem Instr.w_eqString : Instr.eqString.width = 1 := rfl
@[simp] theorem Instr.w_notEqString : Instr.notEqString.width = 1 := rfl
@[simp] theorem Instr.w_concat : Instr.concat.width = 1 := rfl
@[simp] theorem Instr.w_add : Instr.add.width = 1 := rfl
@[simp] theorem Instr.w_sub : Instr.sub.width = 1 := rfl
@[simp] theorem Instr.w_stringSlice : Instr.stringSlice.width = 1 := rfl
@[simp] theorem Instr.w_stringSliceFrom : Instr.stringSliceFrom.width = 1 := rfl
@[simp] theorem Instr.w_stringSliceTo : Instr.stringSliceTo.width = 1 := rfl
@[simp] theorem Instr.w_stringLen : Instr.stringLen.width = 1 := rfl
@[simp] theorem Instr.w_pushParam (a : Nat) : (Instr.pushParam a).width = 2 := rfl
@[simp] theorem Instr.w_pushIntParam (a : Nat) : (Instr.pushIntParam a).width = 2 := rfl
@[simp] theorem Instr.w_pushLocal (a : Nat) : (Instr.pushLocal a).width = 2 := rfl
@[simp] theorem Instr.w_pushIntLocal (a : Nat) : (Instr.pushIntLocal a).width = 2 := rfl
@[simp] theorem Instr.w_pushConst (a : Nat) : (Instr.pushConst a).width = 2 := rfl
@[simp] theorem Instr.w_pushIntConst (a : Nat) : (Instr.pushIntConst a).width = 2 := rfl
@[simp] theorem Instr.w_setLocal (a : Nat) : (Instr.setLocal a).width = 2 := rfl
@[simp] theorem Instr.w_setIntLocal (a : Nat) : (Instr.setIntLocal a).width = 2 := rfl
@[simp] theorem Instr.w_incLocal (a : Nat) : (Instr.incLocal a).width = 2 := rfl
@[simp] theorem Instr.w_decLocal (a : Nat) : (Instr.decLocal a).width = 2 := rfl
@[simp] theorem Instr.w_setVariadicLen (a : Nat) : (Instr.setVariadicLen a).width = 2 := rfl
@[simp] theorem Instr.w_jump (o : Int) : (Instr.jump o).width = 3 := rfl
@[simp] theorem Instr.w_jumpFalse (o : Int) : (Instr.jumpFalse o).width = 3 := rfl
@[simp] theorem Instr.w_jumpTrue (o : Int) : (Instr.jumpTrue o).width = 3 := rfl
@[simp] theorem Instr.w_callNative (o : Int) : (Instr.callNative o).width = 3 := rfl
@[simp] theorem Instr.w_call (o : Int) : (Instr.call o).width = 3 := rfl
@[simp] theorem Instr.w_intCall (o : Int) : (Instr.intCall o).width = 3 := rfl
@[simp] theorem Instr.w_voidCall (o : Int) : (Instr.voidCall o).width = 3 := rfl
@[simp] theorem Instr.w_ite_jump (b : Bool) (o : Int) : ((if b then Instr.jumpTrue else Instr.jumpFalse) o).width = 3 := by cases b <;> rfl
@[simp] theorem Instr.w_ite_nil (b : Bool) : (if b then Instr.isNotNil else Instr.isNil).width = 1 := by cases b <;> rfl
@[simp] theorem Instr.w_ite_bool (b : Bool) : (if b then Instr.pushTrue else Instr.pushFalse).width = 1 := by cases b <;> rfl
@[simp] theorem isize_nil : isize [] = 0 := rfl
@[simp] theorem isize_cons (i : Instr) (is : List Instr) : isize (i :: is) = i.width + isize is := rfl
end Q
