import Rg.Model.IRLoad
import Rg.Proofs.ConvWf
import Rg.Proofs.IRCanon
import Rg.Proofs.IRAsIs
/-!
# Proofs for the precompiled-IR path (`Rg/Model/IRLoad.lean`)

1. `toLoaderFile_normalize` — the loader's view of an IR value does not contain the nil/empty bits.
2. `precompiledLoad_eq` — print, read back, load = load (from `IRProofs.roundtrip_fixed` and 1).
3. `out_schema` — every shape the converter returns (`Comp.Out`) is inside the IR schema (`IR.FilterExpr.wf`:
   the hypothesis of the round trip), so `convertFileIR`'s result is (`convertFileIR_schema`).
4. `convertFileIR_loaderWf` — and inside the loader's domain (`Loader.wfFile`, hypothesis of `C06.load_total`).
5. `toLoaderFile_convertFileIR` — the IR-valued transcription followed by `toLoaderFile` is the
   `Loader.File`-valued transcription of `Rg/Model/SrcLoad.lean` (for decodings that are homomorphic where
   the converter builds a string: `DecHom`).
-/
namespace Comp
open Conv IR

/-! ## 1. `toLoaderFile` forgets the nil/empty bits -/

mutual
theorem toFE_norm (dec : Bytes → String) : ∀ e : FilterExpr, toFE dec e.norm = toFE dec e
  | .mk l o s v as nn => by
    simp only [FilterExpr.norm, toFE]
    rw [toFEList_norm dec as]
theorem toFEList_norm (dec : Bytes → String) : ∀ as : List FilterExpr, toFEList dec (FilterExpr.normList as) = toFEList dec as
  | [] => rfl
  | a :: as => by
    simp only [FilterExpr.normList, toFEList]
    rw [toFE_norm dec a, toFEList_norm dec as]
end

theorem toRule_norm (dec : Bytes → String) (r : Rule) : toRule dec r.norm = toRule dec r := by
  simp [toRule, Rule.norm, Sl.norm, toFE_norm]

theorem toGroup_norm (dec : Bytes → String) (g : RuleGroup) : toGroup dec g.norm = toGroup dec g := by
  simp only [toGroup, RuleGroup.norm, Sl.norm, Sl.map, List.map_map]
  congr 1
  apply List.map_congr_left
  intro r _
  exact toRule_norm dec r

/-- the loader's view of an IR value is the same before and after `normalize` -/
theorem toLoaderFile_normalize (dec : Bytes → String) (f : File) : toLoaderFile dec (normalize f) = toLoaderFile dec f := by
  simp only [toLoaderFile, normalize, Sl.norm, Sl.map, List.map_map]
  congr 1
  apply List.map_congr_left
  intro g _
  exact toGroup_norm dec g

theorem loadIR_normalize (env : Env) (tc : Loader.TagCfg) (dec : Bytes → String) (f : File) :
    loadIR env tc dec (normalize f) = loadIR env tc dec f := by
  unfold loadIR
  rw [toLoaderFile_normalize]
  rfl

/-! ## 2. print, read back, load -/

theorem precompiledLoad_eq (o : Loader.Oracles) (tc : Loader.TagCfg) (dec : Bytes → String) (f : File)
    (h : wfFile f = true) : precompiledLoad o tc dec f = some (Loader.loadFile o tc (toLoaderFile dec f)) := by
  obtain ⟨ts, hp, he⟩ := IRProofs.roundtrip_fixed f h
  unfold precompiledLoad
  rw [hp]
  simp only [he, toLoaderFile_normalize]

theorem precompiledLoadIR_eq (env : Env) (tc : Loader.TagCfg) (dec : Bytes → String) (f : File)
    (h : wfFile f = true) : precompiledLoadIR env tc dec f = some (loadIR env tc dec f) := by
  obtain ⟨ts, hp, he⟩ := IRProofs.roundtrip_fixed f h
  unfold precompiledLoadIR
  rw [hp]
  simp only [he, loadIR_normalize]

theorem precompiledLoad_asis_eq (o : Loader.Oracles) (tc : Loader.TagCfg) (dec : Bytes → String) (f : File)
    (h : wfFile f = true) (hz : noZeroElemsFile f = true) (hb : f.bundleImports.elems = []) :
    precompiledLoad_asis o tc dec f = some (Loader.loadFile o tc (toLoaderFile dec f)) := by
  have := precompiledLoad_eq o tc dec f h
  unfold precompiledLoad at this
  unfold precompiledLoad_asis
  rw [IRProofs.printFile_asis_eq f hz hb]
  exact this

/-! ## 3. the converter's output is inside the IR schema -/

theorem wfList_of_forall : ∀ (as : List FilterExpr), (∀ a ∈ as, a.wf = true) → FilterExpr.wfList as = true
  | [], _ => rfl
  | a :: as, h => by
    simp only [FilterExpr.wfList, Bool.and_eq_true]
    exact ⟨h a (by simp), wfList_of_forall as (fun x hx => h x (by simp [hx]))⟩

/-- a node built by `mkOp`: in the schema when the name is in the table and a one-line op carries a string
and no arguments -/
theorem wf_mkOp (name : String) (v : Val) (args : List FilterExpr)
    (h1 : (Gen.irOpNames.lookup (opNamed name)).isSome = true)
    (h2 : isCompactOp (opNamed name) = true → (∃ s, v = .str s) ∧ args = [])
    (h3 : ∀ a ∈ args, a.wf = true) : (mkOp name v args).wf = true := by
  simp only [mkOp, FilterExpr.wf, Bool.and_eq_true]
  refine ⟨⟨h1, ?_⟩, wfList_of_forall args h3⟩
  split
  · rename_i hc
    obtain ⟨⟨s, rfl⟩, rfl⟩ := h2 hc
    rfl
  · rfl

/-- every name the converter uses is in the table; which of them are printed in the one-line form -/
theorem name_facts :
    (∀ n ∈ binNames, (Gen.irOpNames.lookup (opNamed n)).isSome = true ∧ isCompactOp (opNamed n) = false) ∧
    (∀ p ∈ selectorOps, (Gen.irOpNames.lookup (opNamed p.2)).isSome = true) ∧
    (∀ p ∈ stringValueCalls, (Gen.irOpNames.lookup (opNamed p.2)).isSome = true) ∧
    (∀ p ∈ listCalls, (Gen.irOpNames.lookup (opNamed p.2.1)).isSome = true ∧ isCompactOp (opNamed p.2.1) = false) ∧
    (∀ n ∈ ["String", "Int", "Not", "Deadcode", "VarContains", "VarTypeIdenticalTo", "VarFilter", "FilterFuncRef",
        "RootNodeParentIs", "RootSinkTypeIs"], (Gen.irOpNames.lookup (opNamed n)).isSome = true) ∧
    (∀ n ∈ ["Int", "Not", "Deadcode", "VarContains", "VarTypeIdenticalTo", "VarFilter", "FilterFuncRef",
        "RootNodeParentIs", "RootSinkTypeIs"], isCompactOp (opNamed n) = false) := by
  decide

theorem zero_schema : FilterExpr.zero.wf = true := by decide

/-- **out_schema**: the shapes `convertFilterExpr` returns are values of the IR schema -/
theorem out_schema (fe : FilterExpr) (h : Out fe) : fe.wf = true := by
  obtain ⟨hbin, hsel, hstr, hlist, hin, hnc⟩ := name_facts
  have nc : ∀ n, isCompactOp (opNamed n) = false → ∀ {P : Prop}, isCompactOp (opNamed n) = true → P := by
    intro n h P h'; rw [h] at h'; cases h'
  induction h with
  | str s => exact wf_mkOp _ _ _ (hin _ (by simp)) (fun _ => ⟨⟨s, rfl⟩, rfl⟩) (by simp)
  | int n => exact wf_mkOp _ _ _ (hin _ (by simp)) (nc _ (hnc _ (by simp))) (by simp)
  | not x _ ih => exact wf_mkOp _ _ _ (hin _ (by simp)) (nc _ (hnc _ (by simp))) (by simpa using ih)
  | bin name x y hm _ _ ihx ihy =>
    exact wf_mkOp _ _ _ (hbin name hm).1 (nc _ (hbin name hm).2) (by
      intro a ha
      simp only [List.mem_cons, List.mem_nil_iff, or_false] at ha
      rcases ha with rfl | rfl
      · exact ihx
      · exact ihy)
  | sel path name v hm => exact wf_mkOp _ _ _ (hsel _ hm) (fun _ => ⟨⟨v, rfl⟩, rfl⟩) (by simp)
  | deadcode => exact wf_mkOp _ _ _ (hin _ (by simp)) (nc _ (hnc _ (by simp))) (by simp)
  | strCall path name v hm => exact wf_mkOp _ _ _ (hstr _ hm) (fun _ => ⟨⟨v, rfl⟩, rfl⟩) (by simp)
  | contains v p =>
    refine wf_mkOp _ _ _ (hin _ (by simp)) (nc _ (hnc _ (by simp))) ?_
    intro a ha
    simp only [List.mem_cons, List.mem_nil_iff, or_false] at ha
    subst ha
    exact wf_mkOp _ _ _ (hin _ (by simp)) (fun _ => ⟨⟨p, rfl⟩, rfl⟩) (by simp)
  | identical v p =>
    refine wf_mkOp _ _ _ (hin _ (by simp)) (nc _ (hnc _ (by simp))) ?_
    intro a ha
    simp only [List.mem_cons, List.mem_nil_iff, or_false] at ha
    subst ha
    exact wf_mkOp _ _ _ (hin _ (by simp)) (fun _ => ⟨⟨p, rfl⟩, rfl⟩) (by simp)
  | filter v n =>
    refine wf_mkOp _ _ _ (hin _ (by simp)) (nc _ (hnc _ (by simp))) ?_
    intro a ha
    simp only [List.mem_cons, List.mem_nil_iff, or_false] at ha
    subst ha
    exact wf_mkOp _ _ _ (hin _ (by simp)) (nc _ (hnc _ (by simp))) (by simp)
  | list path name kv ka v args hm _ _ ih =>
    have hf := hlist (path, name, kv, ka) hm
    refine wf_mkOp _ _ _ hf.1 (nc _ hf.2) ?_
    intro a ha
    cases ka with
    | true => exact ih a (by simpa using ha)
    | false => simp at ha
  | parentIs args _ _ ih => exact wf_mkOp _ _ _ (hin _ (by simp)) (nc _ (hnc _ (by simp))) ih
  | sinkIs v args _ _ ih => exact wf_mkOp _ _ _ (hin _ (by simp)) (nc _ (hnc _ (by simp))) ih

/-- what `convertRuleExpr` needs from `convertFilterExpr` -/
def ConvOut (conv : CExpr → CRes FilterExpr) : Prop := ∀ a fe, conv a = .ok fe → Out fe

theorem convFilter_out : ConvOut (convFilter true) := fun a fe h => convertG_out a fe h

theorem convFilter_noPanic (ar : Bool) (a : CExpr) (p : Panic) : convFilter ar a ≠ .panic p := convertG_noPanic ar a p

/-- the Where clause of a rule the converter produces: the zero value or an `Out` shape -/
theorem convertRuleIRW_where (conv : CExpr → CRes FilterExpr) (hc : ConvOut conv) (ar : Bool) (c : Chain) (r : Rule)
    (h : convertRuleIRW conv ar c = .ok r) : r.whereExpr = FilterExpr.zero ∨ Out r.whereExpr := by
  unfold convertRuleIRW at h
  split at h
  · cases h
  · obtain ⟨alts, _, h⟩ := bind_ok h
    obtain ⟨loc, _, h⟩ := bind_ok h
    obtain ⟨wh, hwh, h⟩ := bind_ok h
    obtain ⟨sugg, _, h⟩ := bind_ok h
    split at h
    · cases h
    · obtain ⟨dr, _, h⟩ := bind_ok h
      have := cres_ok_inj h; subst this
      cases hw : c.whereArgs with
      | none =>
        simp only [hw] at hwh
        have := cres_ok_inj hwh; subst this
        exact Or.inl rfl
      | some as =>
        simp only [hw] at hwh
        obtain ⟨a, _, hconv⟩ := bind_ok hwh
        exact Or.inr (hc a wh hconv)

theorem convertRuleIR_schema (c : Chain) (r : Rule) (h : convertRuleIR true c = .ok r) : r.wf = true := by
  rcases convertRuleIRW_where _ convFilter_out true c r h with hz | ho
  · unfold Rule.wf; rw [hz]; exact zero_schema
  · exact out_schema _ ho

theorem convertGroupIR_rules (ar : Bool) (g : SrcRuleGroup) (g' : RuleGroup) (h : convertGroupIR ar g = .ok g') :
    ∀ r ∈ g'.rules.elems, ∃ c ∈ g.chains, convertRuleIR ar c = .ok r := by
  unfold convertGroupIR at h
  obtain ⟨rs, hrs, h⟩ := bind_ok h
  have := cres_ok_inj h; subst this
  exact fun r hr => seqC_ok _ _ _ hrs r hr

theorem convertFileIR_groups (ar : Bool) (s : SrcFile) (f : File) (h : convertFileIR ar s = .ok f) :
    ∀ g' ∈ f.ruleGroups.elems, ∃ g ∈ s.groups, convertGroupIR ar g = .ok g' := by
  unfold convertFileIR at h
  obtain ⟨gs, hgs, h⟩ := bind_ok h
  have := cres_ok_inj h; subst this
  exact fun g' hg' => seqC_ok _ _ _ hgs g' hg'

/-- **convertFileIR_schema**: what `irconv.ConvertFile` returns (repaired converter, modelled fragment) is a
value of the IR schema — the hypothesis of the printer round trip -/
theorem convertFileIR_schema (s : SrcFile) (f : File) (h : convertFileIR true s = .ok f) : wfFile f = true := by
  simp only [wfFile, RuleGroup.wf, List.all_eq_true]
  intro g' hg' r hr
  obtain ⟨g, _, hg⟩ := convertFileIR_groups true s f h g' hg'
  obtain ⟨c, _, hc⟩ := convertGroupIR_rules true g g' hg r hr
  exact convertRuleIR_schema c r hc

/-! ## 4. … and inside the loader's domain -/

theorem convertFileIR_loaderWf (dec : Bytes → String) (s : SrcFile) (f : File) (h : convertFileIR true s = .ok f) :
    Loader.wfFile (toLoaderFile dec f) = true := by
  simp only [Loader.wfFile, toLoaderFile, List.all_eq_true]
  intro G hG R hR
  obtain ⟨g', hg', rfl⟩ := List.mem_map.mp hG
  simp only [toGroup] at hR
  obtain ⟨r, hr, rfl⟩ := List.mem_map.mp hR
  obtain ⟨g, _, hg⟩ := convertFileIR_groups true s f h g' hg'
  obtain ⟨c, _, hc⟩ := convertGroupIR_rules true g g' hg r hr
  simp only [Loader.wfRule, Bool.or_eq_true, decide_eq_true_eq]
  show (toFE dec r.whereExpr).op = Gen.Op.fInvalid ∨ _
  rcases convertRuleIRW_where _ convFilter_out true c r hc with hz | ho
  · left; rw [hz]; rfl
  · exact Or.inr ((out_good dec _ ho).1 _)

theorem parsePatternsIR_noPanic : ∀ (l : List (Nat × CExpr)) (p : Panic), parsePatternsIR l ≠ .panic p
  | [], p => by simp [parsePatternsIR]
  | (l, a) :: as, p => by
    simp only [parsePatternsIR]
    apply bind_noPanic (parseStringArg_noPanic a)
    intro s
    apply bind_noPanic (parsePatternsIR_noPanic as)
    intro ps q; simp

/-- `convertRuleExpr` after fixes/c06-chain-arity.diff never panics (IR-valued transcription) -/
theorem convertRuleIR_noPanic (c : Chain) : ∀ p, convertRuleIR true c ≠ .panic p := by
  unfold convertRuleIR convertRuleIRW
  intro p
  split
  · simp
  · revert p
    apply bind_noPanic (parsePatternsIR_noPanic _)
    intro alts
    apply bind_noPanic
    · cases c.atArgs with
      | none => simp
      | some as =>
        apply bind_noPanic (chainArg0_noPanic as)
        intro a p
        split
        · exact parseStringArg_noPanic _ p
        · simp
    intro loc
    apply bind_noPanic
    · cases c.whereArgs with
      | none => simp
      | some as =>
        apply bind_noPanic (chainArg0_noPanic as)
        intro a
        exact convFilter_noPanic true a
    intro wh
    apply bind_noPanic
    · cases c.suggestArgs with
      | none => simp
      | some as =>
        apply bind_noPanic (chainArg0_noPanic as)
        intro a
        exact parseStringArg_noPanic a
    intro sugg p
    split
    · simp
    · revert p
      apply bind_noPanic
      · cases c.doArgs with
        | some as =>
          simp only
          intro p
          split
          · simp
          · split
            · simp
            · revert p
              apply bind_noPanic (chainArg0_noPanic as)
              intro a p
              split <;> simp
        | none =>
          simp only
          cases c.reportArgs with
          | none => simp
          | some as =>
            apply bind_noPanic (chainArg0_noPanic as)
            intro a
            apply bind_noPanic (parseStringArg_noPanic a)
            intro s q; simp
      · intro dr q; simp

theorem convertFileIR_noPanic (s : SrcFile) : ∀ p, convertFileIR true s ≠ .panic p := by
  unfold convertFileIR
  apply bind_noPanic
  · apply seqC_noPanic
    intro g _
    unfold convertGroupIR
    apply bind_noPanic
    · apply seqC_noPanic
      intro c _
      exact convertRuleIR_noPanic c
    · intro rs q; simp
  · intro gs' q; simp

/-! ## 5. the two transcriptions of `convertRuleExpr` are one function

`Comp.convertRuleG` (Rg/Model/SrcLoad.lean, result `Loader.Rule`, strings decoded on the way) and
`Comp.convertRuleIR` (result `ir.Rule`) followed by `toRule`.  Both are first rewritten (by `rfl`) into the
same sequence of named stages. -/

def altsOf (c : Chain) : List (Nat × CExpr) :=
  match c.matchArgs with | some as => as | none => c.matchCommentArgs.getD []

def atIR (ar : Bool) : Option (List CExpr) → CRes Bytes
  | none => .ok []
  | some as => (chainArg0 ar as).bind fun a =>
    match a with
    | .index _ _ i => parseStringArg i
    | _ => .err
def atG (ar : Bool) (dec : Bytes → String) : Option (List CExpr) → CRes String
  | none => .ok ""
  | some as => (chainArg0 ar as).bind fun a =>
    match a with
    | .index _ _ i => (parseStringArg i).bind fun s => .ok (dec s)
    | _ => .err

def whS (conv : CExpr → CRes FilterExpr) (ar : Bool) : Option (List CExpr) → CRes FilterExpr
  | none => .ok FilterExpr.zero
  | some as => (chainArg0 ar as).bind fun a => conv a

def sgIR (ar : Bool) : Option (List CExpr) → CRes Bytes
  | none => .ok []
  | some as => (chainArg0 ar as).bind fun a => parseStringArg a
def sgG (ar : Bool) (dec : Bytes → String) : Option (List CExpr) → CRes String
  | none => .ok ""
  | some as => (chainArg0 ar as).bind fun a => (parseStringArg a).bind fun s => .ok (dec s)

def doIR (ar : Bool) (c : Chain) (sugg : Bytes) : CRes (Bytes × Bytes) :=
  match c.doArgs with
  | some as =>
    (if c.suggestArgs.isSome || c.reportArgs.isSome then .err
     else if c.matchCommentArgs.isSome then .err
     else (chainArg0 ar as).bind fun a =>
       match a with
       | .ident _ name => .ok (identBytes name, [])
       | _ => .err : CRes (Bytes × Bytes))
  | none =>
    match c.reportArgs with
    | none => .ok ([], suggPrefix ++ sugg)
    | some as => (chainArg0 ar as).bind fun a => (parseStringArg a).bind fun s => .ok ([], s)
def doG (ar : Bool) (dec : Bytes → String) (c : Chain) (sugg : String) : CRes (String × String) :=
  match c.doArgs with
  | some as =>
    (if c.suggestArgs.isSome || c.reportArgs.isSome then .err
     else if c.matchCommentArgs.isSome then .err
     else (chainArg0 ar as).bind fun a =>
       match a with
       | .ident _ name => .ok (name, "")
       | _ => .err : CRes (String × String))
  | none =>
    match c.reportArgs with
    | none => .ok ("", "suggestion: " ++ sugg)
    | some as => (chainArg0 ar as).bind fun a => (parseStringArg a).bind fun s => .ok ("", dec s)

theorem convertRuleIRW_stages (conv : CExpr → CRes FilterExpr) (ar : Bool) (c : Chain) :
    convertRuleIRW conv ar c =
      if c.matchArgs.isNone && c.matchCommentArgs.isNone then .err else
      (parsePatternsIR (altsOf c)).bind fun alts => (atIR ar c.atArgs).bind fun loc =>
      (whS conv ar c.whereArgs).bind fun wh => (sgIR ar c.suggestArgs).bind fun sugg =>
      if c.suggestArgs.isNone && c.reportArgs.isNone && c.doArgs.isNone then .err else
      (doIR ar c sugg).bind fun dr =>
      .ok { line := c.line,
            syntaxPatterns := ⟨if c.matchArgs.isSome then alts else [], false⟩,
            commentPatterns := ⟨if c.matchArgs.isSome then [] else alts, false⟩,
            reportTemplate := dr.2, suggestTemplate := sugg, doFuncName := dr.1,
            whereExpr := wh, locationVar := loc } := rfl

theorem convertRuleG_stages (ar : Bool) (dec : Bytes → String) (c : Chain) :
    convertRuleG ar dec c =
      if c.matchArgs.isNone && c.matchCommentArgs.isNone then .err else
      (parsePatterns dec (altsOf c)).bind fun alts => (atG ar dec c.atArgs).bind fun loc =>
      (whS (convFilter ar) ar c.whereArgs).bind fun wh => (sgG ar dec c.suggestArgs).bind fun sugg =>
      if c.suggestArgs.isNone && c.reportArgs.isNone && c.doArgs.isNone then .err else
      (doG ar dec c sugg).bind fun dr =>
      .ok { line := c.line,
            syntaxPatterns := if c.matchArgs.isSome then alts else [],
            commentPatterns := if c.matchArgs.isSome then [] else alts,
            reportTemplate := dr.2, suggestTemplate := sugg, doFuncName := dr.1,
            whereExpr := toFE dec wh, locationVar := loc } := rfl

theorem map_bind {α β γ} (x : CRes α) (f : α → CRes β) (g : β → γ) :
    (x.bind f).map g = x.bind fun a => (f a).map g := by
  cases x <;> rfl

theorem bind_map {α β γ} (x : CRes α) (m : α → β) (f : β → CRes γ) :
    (x.map m).bind f = x.bind fun a => f (m a) := by
  cases x <;> rfl

theorem bind_congr {α β} (x : CRes α) (f g : α → CRes β) (h : ∀ a, f a = g a) : x.bind f = x.bind g := by
  cases x <;> simp [CRes.bind, h]

theorem parsePatterns_eq (dec : Bytes → String) : ∀ l : List (Nat × CExpr),
    parsePatterns dec l = (parsePatternsIR l).map (List.map (toPat dec))
  | [] => rfl
  | (l, a) :: as => by
    simp only [parsePatterns, parsePatternsIR, map_bind]
    apply bind_congr
    intro s
    rw [parsePatterns_eq dec as, bind_map]
    apply bind_congr
    intro ps
    simp [CRes.map, toPat]

theorem atG_eq (ar : Bool) (dec : Bytes → String) (h0 : dec [] = "") (o : Option (List CExpr)) :
    atG ar dec o = (atIR ar o).map dec := by
  cases o with
  | none => simp [atG, atIR, CRes.map, h0]
  | some as =>
    simp only [atG, atIR, map_bind]
    apply bind_congr
    intro a
    split
    · rename_i i; cases parseStringArg i <;> rfl
    · rfl

theorem sgG_eq (ar : Bool) (dec : Bytes → String) (h0 : dec [] = "") (o : Option (List CExpr)) :
    sgG ar dec o = (sgIR ar o).map dec := by
  cases o with
  | none => simp [sgG, sgIR, CRes.map, h0]
  | some as =>
    simp only [sgG, sgIR, map_bind]
    apply bind_congr
    intro a
    cases parseStringArg a <;> rfl

/-- the name `Do()` is given, when it is an identifier -/
def Chain.doName (c : Chain) : Option String :=
  match c.doArgs with
  | some (.ident _ n :: _) => some n
  | _ => none

/-- decodings that commute with the two places where the converter builds a string itself
(`"suggestion: " + s`, `ident.String()`) and with the empty string -/
structure DecHom (dec : Bytes → String) (c : Chain) : Prop where
  nil : dec [] = ""
  sugg : ∀ s, dec (suggPrefix ++ s) = "suggestion: " ++ dec s
  ident : ∀ n, c.doName = some n → dec (identBytes n) = n

theorem doG_eq (ar : Bool) (dec : Bytes → String) (c : Chain) (hd : DecHom dec c) (sugg : Bytes) :
    doG ar dec c (dec sugg) = (doIR ar c sugg).map fun p => (dec p.1, dec p.2) := by
  unfold doG doIR
  cases hdo : c.doArgs with
  | some as =>
    simp only
    split
    · rfl
    · split
      · rfl
      · cases as with
        | nil => cases ar <;> rfl
        | cons a rest =>
          simp only [chainArg0, CRes.bind]
          split
          · rename_i an name
            have := hd.ident name (by simp [Chain.doName, hdo])
            show CRes.ok (name, "") = CRes.ok (dec (identBytes name), dec [])
            rw [this, hd.nil]
          · rfl
  | none =>
    simp only
    cases c.reportArgs with
    | none => simp [CRes.map, hd.nil, hd.sugg]
    | some as =>
      simp only [map_bind]
      apply bind_congr
      intro a
      cases parseStringArg a <;> simp [CRes.bind, CRes.map, hd.nil]

/-- **the two transcriptions agree**: `convertRuleExpr` with `Loader.Rule` as its result is
`convertRuleExpr` with `ir.Rule` as its result followed by the forgetful map -/
theorem convertRuleG_eq (ar : Bool) (dec : Bytes → String) (c : Chain) (hd : DecHom dec c) :
    convertRuleG ar dec c = (convertRuleIR ar c).map (toRule dec) := by
  rw [convertRuleG_stages, convertRuleIR, convertRuleIRW_stages]
  split
  · rfl
  · rw [parsePatterns_eq, bind_map, map_bind]
    apply bind_congr; intro alts
    rw [atG_eq ar dec hd.nil, bind_map, map_bind]
    apply bind_congr; intro loc
    rw [map_bind]
    apply bind_congr; intro wh
    rw [sgG_eq ar dec hd.nil, bind_map, map_bind]
    apply bind_congr; intro sugg
    split
    · rfl
    · rw [doG_eq ar dec c hd, bind_map, map_bind]
      apply bind_congr; intro dr
      simp only [CRes.map, toRule]
      congr 2
      · split <;> simp
      · split <;> simp

theorem seqC_map {α β γ} (f : α → CRes β) (g : α → CRes γ) (m : γ → β) (l : List α)
    (h : ∀ a ∈ l, f a = (g a).map m) : seqC f l = (seqC g l).map (List.map m) := by
  induction l with
  | nil => rfl
  | cons a as ih =>
    simp only [seqC]
    rw [h a (by simp), bind_map, map_bind]
    apply bind_congr; intro b
    rw [ih (fun x hx => h x (by simp [hx])), bind_map, map_bind]
    apply bind_congr; intro bs
    rfl

theorem convertGroupG_eq (ar : Bool) (dec : Bytes → String) (g : SrcRuleGroup) (hd : ∀ c ∈ g.chains, DecHom dec c) :
    convertGroupG ar dec (g.toSrcGroup dec) = (convertGroupIR ar g).map (toGroup dec) := by
  unfold convertGroupG convertGroupIR
  rw [show (g.toSrcGroup dec).chains = g.chains from rfl,
    seqC_map _ (convertRuleIR ar) (toRule dec) g.chains (fun c hc => convertRuleG_eq ar dec c (hd c hc)), bind_map, map_bind]
  apply bind_congr; intro rs
  simp [CRes.map, toGroup, SrcRuleGroup.toSrcGroup]

/-- **toLoaderFile_convertFileIR**: the source-to-`Loader.File` model of the C06 composition factors through
the IR value: `convertFileG = toLoaderFile ∘ convertFileIR` -/
theorem convertFileG_eq (ar : Bool) (dec : Bytes → String) (s : SrcFile)
    (hd : ∀ g ∈ s.groups, ∀ c ∈ g.chains, DecHom dec c) :
    convertFileG ar dec (s.groups.map (SrcRuleGroup.toSrcGroup dec)) = (convertFileIR ar s).map (toLoaderFile dec) := by
  unfold convertFileG convertFileIR
  have : seqC (convertGroupG ar dec) (s.groups.map (SrcRuleGroup.toSrcGroup dec)) =
      (seqC (convertGroupIR ar) s.groups).map (List.map (toGroup dec)) := by
    have hm : ∀ (l : List SrcRuleGroup), seqC (convertGroupG ar dec) (l.map (SrcRuleGroup.toSrcGroup dec)) =
        seqC (fun g => convertGroupG ar dec (g.toSrcGroup dec)) l := by
      intro l
      induction l with
      | nil => rfl
      | cons a as ih => simp only [List.map, seqC, ih]
    rw [hm]
    exact seqC_map _ _ _ _ (fun g hg => convertGroupG_eq ar dec g (hd g hg))
  rw [this, bind_map, map_bind]
  apply bind_congr; intro gs
  simp [CRes.map, toLoaderFile]

/-- the byte-per-character decoding is such a homomorphism on every chain whose `Do()` name it reads back
(every ASCII name: `by decide` on the name) -/
theorem latin1_decHom (c : Chain) (h : ∀ n, c.doName = some n → latin1 (identBytes n) = n) : DecHom latin1 c where
  nil := rfl
  sugg := fun s => by
    have : latin1 suggPrefix = "suggestion: " := by decide
    rw [← this]
    simp only [latin1, List.map_append, String.ofList_append]
  ident := h

end Comp
