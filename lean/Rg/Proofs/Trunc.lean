import Rg.Model.Trunc
/-! Helper lemmas about `trunc` for an arbitrary limit `L` (C15's theorems instantiate `L := effLen cfg`). -/

theorem trunc_fits (s : Bytes) (L : Int) (h : (s.length : Int) ≤ L) : trunc s L = .ok s := by
  simp [trunc, h]

theorem trunc_elide (s : Bytes) (L : Int) (hL : 5 ≤ L) (h : (s.length : Int) > L) :
    ∃ p q, trunc s L = .ok (p ++ marker ++ q) ∧ p <+: s ∧ q <:+ s ∧
      ((p ++ marker ++ q).length : Int) = L := by
  have hm : ¬ ((s.length : Int) ≤ L) := by omega
  obtain ⟨m, rfl⟩ : ∃ m : Nat, L = (m : Int) + 5 := ⟨(L - 5).toNat, by omega⟩
  have h5 : ¬ ((m:Int) + 5 - 5 < 0) := by omega
  have e0 : ((m:Int) + 5 - 5) = (m : Int) := by omega
  have e1 : Int.tdiv ((m:Int) + 5 - 5) 2 = ((m / 2 : Nat) : Int) := by
    rw [e0]; exact (Int.ofNat_tdiv m 2).symm
  have e2 : Int.tmod ((m:Int) + 5 - 5) 2 = ((m % 2 : Nat) : Int) := by
    rw [e0]; exact (Int.ofNat_tmod m 2).symm
  refine ⟨s.take (m/2), s.drop (s.length - (m % 2 + m / 2)), ?_, List.take_prefix _ _, List.drop_suffix _ _, ?_⟩
  · simp only [trunc, hm, h5, if_false, e1, e2]
    have hlen : m + 5 < s.length := by omega
    have c1 : (0:Int) ≤ 0 ∧ (0:Int) ≤ ((m/2 : Nat) : Int) ∧ ((m/2 : Nat) : Int) ≤ (s.length : Int) := by omega
    have c2 : (0:Int) ≤ (s.length : Int) - (((m % 2 : Nat) : Int) + ((m/2 : Nat):Int)) ∧
        (s.length : Int) - (((m % 2 : Nat) : Int) + ((m/2 : Nat):Int)) ≤ (s.length : Int) ∧
        (s.length : Int) ≤ (s.length : Int) := by omega
    simp only [goSlice, c1, c2, and_self, if_true, bind, pure, Res.bind]
    congr 2
    have : ((s.length : Int) - (((m % 2 : Nat) : Int) + ((m/2 : Nat):Int))).toNat
        = s.length - (m % 2 + m / 2) := by omega
    rw [this]
    apply List.take_of_length_le
    simp; omega
  · simp [marker]; omega

theorem trunc_small (s : Bytes) (L : Int) (hL : L < 5) (h : (s.length : Int) > L) :
    trunc s L = .ok marker := by
  have hm : ¬ ((s.length : Int) ≤ L) := by omega
  have h5 : L - 5 < 0 := by omega
  have c2 : (0:Int) ≤ (s.length : Int) := Int.natCast_nonneg _
  simp [trunc, hm, h5, goSlice, bind, Res.bind, marker]

theorem trunc_total (s : Bytes) (L : Int) : ∃ r, trunc s L = .ok r := by
  by_cases h : (s.length : Int) ≤ L
  · exact ⟨s, trunc_fits s L h⟩
  · by_cases h5 : L < 5
    · exact ⟨marker, trunc_small s L h5 (by omega)⟩
    · obtain ⟨p, q, hpq, _⟩ := trunc_elide s L (by omega) (by omega)
      exact ⟨_, hpq⟩
