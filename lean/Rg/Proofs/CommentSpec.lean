import Rg.Model.Comment
import Rg.Model.CommentBridge
import Rg.Spec.C12
import Rg.Proofs.Comment
import Rg.Proofs.Trunc
/-!
# The model of the comment-rule runner meets `SpecC12.verdict`

(under the hypotheses collected in `WFOracle` / `WFRule` / `View`; see `C12.model_meets_spec`).
-/
namespace CM
open SpecC12 (firstNamed groupOf groupIdx varText varSpan longestName interpolate fileSpan spanBytesOK delCR)

theorem slice_eq (b : Bytes) (lo hi : Nat) : SpecC12.slice b lo hi = slice b lo hi := rfl

/-! ## looking a variable up -/

theorem groupCap_name (src : Bytes) (off : Nat) (text : Bytes) (v : List Int) (i : Nat) (name : Bytes) :
    (groupCap src off text v i name).name = name := by
  unfold groupCap
  split
  · split <;> rfl
  · rfl

theorem find_namedCaps (src : Bytes) (off : Nat) (text : Bytes) (v : List Int) (name : Bytes) (hne : name ≠ []) (i : Nat) (names : List Bytes) :
    (namedCaps src off text v i names).find? (fun c => c.name = name) =
      (firstNamed name i names).map fun j => groupCap src off text v j name := by
  induction names generalizing i with
  | nil => simp [namedCaps, firstNamed]
  | cons n rest ih =>
    unfold namedCaps firstNamed
    by_cases hskip : i = 0 ∨ n = []
    · rw [if_pos hskip]
      have : ¬ (i ≠ 0 ∧ n = name) := by
        rintro ⟨h1, h2⟩
        rcases hskip with h | h
        · exact h1 h
        · rw [h] at h2; exact hne h2.symm
      rw [if_neg this]
      exact ih (i + 1)
    · rw [if_neg hskip]
      have hi : i ≠ 0 := fun h => hskip (.inl h)
      by_cases hn : n = name
      · subst hn
        rw [if_pos ⟨hi, rfl⟩]
        simp [List.find?, groupCap_name]
      · rw [if_neg (fun h => hn h.2)]
        simp only [List.find?, groupCap_name, hn, decide_false]
        exact ih (i + 1)

theorem firstNamed_bounds (name : Bytes) (i : Nat) (names : List Bytes) (j : Nat) (h : firstNamed name i names = some j) :
    i ≤ j ∧ j < i + names.length ∧ j ≠ 0 := by
  induction names generalizing i with
  | nil => simp [firstNamed] at h
  | cons n rest ih =>
    unfold firstNamed at h
    by_cases hc : i ≠ 0 ∧ n = name
    · rw [if_pos hc] at h
      simp only [Option.some.injEq] at h
      subst h
      exact ⟨Nat.le_refl _, by simp, hc.1⟩
    · rw [if_neg hc] at h
      have := ih (i + 1) h
      simp only [List.length_cons]
      omega

theorem firstNamed_of_mem (name : Bytes) (i : Nat) (hi : i ≠ 0) (names : List Bytes) (hm : name ∈ names) :
    ∃ j, firstNamed name i names = some j := by
  induction names generalizing i with
  | nil => simp at hm
  | cons n rest ih =>
    unfold firstNamed
    by_cases hn : n = name
    · exact ⟨i, by rw [if_pos ⟨hi, hn⟩]⟩
    · rw [if_neg (fun h => hn h.2)]
      rcases List.mem_cons.1 hm with h | h
      · exact absurd h.symm hn
      · exact ih (i + 1) (by omega) h

/-! ## a captured group is what the spec says about that group -/

theorem groupCap_spec (src : Bytes) (off : Nat) (text : Bytes) (v : List Int) (j : Nat) (name : Bytes) (hwf : WFGroup text v j) :
    (groupCap src off text v j name).node.text =
        (match groupIdx v j with | some (lo, hi) => SpecC12.slice text lo hi | none => []) ∧
      ((groupCap src off text v j name).node.pos, (groupCap src off text v j name).node.endPos) =
        (match groupIdx v j with | some (lo, hi) => fileSpan src off text lo hi | none => (off, off)) := by
  obtain ⟨b, e, hb, he, hcase⟩ := hwf
  unfold groupCap groupIdx
  simp only [hb, he]
  by_cases hneg : b < 0 ∨ e < 0
  · simp [hneg]
  · rw [if_neg hneg, if_neg hneg]
    exact ⟨rfl, rfl⟩

theorem slice_empty (b : Bytes) (i : Nat) : slice b i i = [] := by simp [slice]

theorem delCR_of_del {s t : Bytes} (h : Del s t) : delCR s t = true := by
  induction s generalizing t with
  | nil => cases h; rfl
  | cons b s ih =>
    cases t with
    | nil =>
      cases h with
      | skip h' => simp [delCR, cr, ih h']
    | cons w ws =>
      by_cases hbw : b = w
      · subst hbw
        have h' : Del s ws := by
          cases h with
          | keep _ h' => exact h'
          | skip h' => exact h'.drop_cr
        simp [delCR, ih h']
      · cases h with
        | keep _ _ => exact absurd rfl hbw
        | skip h' =>
          have hbw' : ¬ ((13 : UInt8) = w) := hbw
          simp [delCR, cr, hbw', ih h']

/-- **the file's bytes at a piece's span are the piece**: equal up to the carriage returns the scanner removed,
and beginning and ending with the piece's first and last byte -/
theorem spanNode_bytes {msrc src : Bytes} {size off : Nat} {text : Bytes} (vw : View msrc src size off text)
    (lo hi : Nat) (hle : lo ≤ hi) (hhi : hi ≤ text.length) :
    spanBytesOK (slice src (spanNode src off text lo hi).pos (spanNode src off text lo hi).endPos) (spanNode src off text lo hi).text = true := by
  obtain ⟨K, hK⟩ := crtext_after vw.cr
  obtain ⟨a, b, he, _, _, _, _, _, _, hdel, hhead, hlast⟩ := spanC_spec hK off lo hi hle hhi
  have hfs := fileSpan_eq src off text lo hi K hle hhi hK
  rw [he] at hfs
  simp only [spanNode, hfs]
  rw [slice_drop, slice_text] at hdel hhead hlast
  unfold spanBytesOK
  have e1 : slice src (off + a) (off + b) = SpecC12.slice src (off + a) (off + b) := rfl
  have e2 : slice text lo hi = SpecC12.slice text lo hi := rfl
  rw [e1, e2, delCR_of_del hdel, hhead, hlast]
  simp

theorem groupCap_bytes {msrc src : Bytes} {size off : Nat} {text : Bytes} (vw : View msrc src size off text)
    (v : List Int) (j : Nat) (name : Bytes) (hwf : WFGroup text v j) :
    spanBytesOK (slice src (groupCap src off text v j name).node.pos (groupCap src off text v j name).node.endPos)
      (groupCap src off text v j name).node.text = true := by
  obtain ⟨b, e, hb, he, hcase⟩ := hwf
  unfold groupCap
  simp only [hb, he]
  by_cases hneg : b < 0 ∨ e < 0
  · simp [hneg, slice_empty, spanBytesOK, delCR]
  · rw [if_neg hneg]
    have hin : InRange text b e := by
      rcases hcase with h | h | h
      · exact absurd (.inl h) hneg
      · exact absurd (.inr h) hneg
      · exact h
    obtain ⟨h0, h1, h2⟩ := hin
    exact spanNode_bytes vw b.toNat e.toNat (by omega) (by omega)

/-! ## hypotheses: what the regexp oracle guarantees, and which rules are in the property's domain -/

/-- what Go's regexp guarantees about its answers for one pattern on `text` -/
structure WFOracle (text : Bytes) (r : CRule) : Prop where
  names0 : ∃ rest, r.names = [] :: rest
  groups : ∀ v, r.sub = some v → (∀ j, j < r.names.length → WFGroup text v j) ∧
    ∃ lo hi, v[0]? = some lo ∧ v[1]? = some hi ∧ InRange text lo hi ∧ r.idx = some (lo, hi)
  noMatch : r.sub = none → r.idx = none
  fast : r.captureGroups = false → ∀ n, n ∈ r.names → n = []

/-- a variable the rule may mention: `$$` or the name of one of its groups -/
def VarOK (names : List Bytes) (var : Bytes) : Prop := var = dollarDollar ∨ (var ≠ [] ∧ var ∈ names)

theorem namedCaps_unnamed (src : Bytes) (off : Nat) (text : Bytes) (v : List Int) (i : Nat) (names : List Bytes)
    (h : ∀ n, n ∈ names → n = []) : namedCaps src off text v i names = [] := by
  induction names generalizing i with
  | nil => rfl
  | cons n rest ih =>
    unfold namedCaps
    rw [if_pos (.inr (h n List.mem_cons_self))]
    exact ih (i + 1) (fun n' hn' => h n' (List.mem_cons_of_mem _ hn'))

/-- the match data the runner builds, in closed form -/
def matchOf (src : Bytes) (off : Nat) (text : Bytes) (names : List Bytes) (v : List Int) (lo hi : Int) : MatchD :=
  ⟨spanNode src off text lo.toNat hi.toNat, namedCaps src off text v 0 names⟩

theorem buildMatch_spec {msrc src : Bytes} {size off : Nat} {text : Bytes} (vw : View msrc src size off text) (r : CRule)
    (hwf : WFOracle text r) :
    (r.sub = none → buildMatch msrc size off text r = .ok none) ∧
    (∀ v, r.sub = some v → ∃ lo hi, v[0]? = some lo ∧ v[1]? = some hi ∧ InRange text lo hi ∧
      buildMatch msrc size off text r = .ok (some (matchOf src off text r.names v lo hi))) := by
  constructor
  · intro hnone
    unfold buildMatch
    split
    · rw [hnone]
    · rw [hwf.noMatch hnone]
  · intro v hv
    obtain ⟨hg, lo, hi, h0, h1, hin, hidx⟩ := hwf.groups v hv
    refine ⟨lo, hi, h0, h1, hin, ?_⟩
    obtain ⟨hl0, hl1, hl2⟩ := hin
    unfold buildMatch matchOf
    by_cases hcg : r.captureGroups = true
    · rw [if_pos hcg, hv]
      simp only
      rw [group_text_core vw v 0 r.names (fun j _ h2 => hg j (by omega))]
      simp only [Res.bind, h0, h1, mkNode_ok vw lo hi hl0 hl1 hl2]
    · rw [if_neg hcg, hidx]
      simp only [mkNode_ok vw lo hi hl0 hl1 hl2, Res.bind]
      rw [namedCaps_unnamed src off text v 0 r.names (hwf.fast (by simpa using hcg))]

/-! ## a variable resolves to the node the spec prescribes -/

theorem groupIdx_zero (v : List Int) (lo hi : Int) (h0 : v[0]? = some lo) (h1 : v[1]? = some hi) (hl : 0 ≤ lo) (hh : 0 ≤ hi) :
    groupIdx v 0 = some (lo.toNat, hi.toNat) := by
  unfold groupIdx
  simp only [Nat.mul_zero, Nat.zero_add, h0, h1]
  rw [if_neg (by omega)]

theorem lookup_spec {msrc src : Bytes} {size off : Nat} {text : Bytes} (vw : View msrc src size off text)
    (names : List Bytes) (v : List Int) (lo hi : Int)
    (hnames : ∃ rest, names = [] :: rest) (hg : ∀ j, j < names.length → WFGroup text v j)
    (h0 : v[0]? = some lo) (h1 : v[1]? = some hi) (hin : InRange text lo hi) (var : Bytes) (hvar : VarOK names var) :
    ∃ n, capturedByName (matchOf src off text names v lo hi) var = some n ∧
      varText text names v var = some n.text ∧ varSpan src off text names v var = some (n.pos, n.endPos) ∧
      spanBytesOK (slice src n.pos n.endPos) n.text = true := by
  obtain ⟨hl0, hl1, hl2⟩ := hin
  by_cases hdd : var = dollarDollar
  · subst hdd
    refine ⟨spanNode src off text lo.toNat hi.toNat, ?_, ?_, ?_, ?_⟩
    · simp [capturedByName, matchOf]
    · simp [varText, groupOf, dollarDollar, groupIdx_zero v lo hi h0 h1 hl0 (by omega), slice_eq, spanNode]
    · simp [varSpan, groupOf, dollarDollar, groupIdx_zero v lo hi h0 h1 hl0 (by omega), spanNode]
    · exact spanNode_bytes vw lo.toNat hi.toNat (by omega) (by omega)
  · rcases hvar with h | ⟨hne, hmem⟩
    · exact absurd h hdd
    obtain ⟨rest, hrest⟩ := hnames
    have hmem' : var ∈ rest := by
      rw [hrest] at hmem
      rcases List.mem_cons.1 hmem with h | h
      · exact absurd h hne
      · exact h
    obtain ⟨j, hj⟩ := firstNamed_of_mem var 1 (by omega) rest hmem'
    have hj0 : firstNamed var 0 names = some j := by
      rw [hrest]; unfold firstNamed; rw [if_neg (by simp)]; exact hj
    have hb := firstNamed_bounds var 0 names j hj0
    have hwfj : WFGroup text v j := hg j (by omega)
    refine ⟨(groupCap src off text v j var).node, ?_, ?_, ?_, ?_⟩
    · simp only [capturedByName, hdd, if_false, matchOf]
      rw [find_namedCaps src off text v var hne 0 names, hj0]
      rfl
    · simp only [varText, groupOf, show ¬ var = [36, 36] from hdd, hne, if_false, hj0, Option.map_some, Option.some.injEq]
      exact (groupCap_spec src off text v j var hwfj).1.symm
    · simp only [varSpan, groupOf, show ¬ var = [36, 36] from hdd, hne, if_false, hj0, Option.map_some, Option.some.injEq]
      exact (groupCap_spec src off text v j var hwfj).2.symm
    · exact groupCap_bytes vw v j var hwfj

/-! ## texts read by filters and templates -/

theorem interp_ok (b : Bool) (t : Bytes) (cfg : Int) : interp b t cfg = .ok (SpecC12.okBytes (interp b t cfg)) := by
  cases b
  · simp [interp, SpecC12.okBytes]
  · simp only [interp, if_true]
    obtain ⟨r, hr⟩ := trunc_total t (effLen cfg)
    rw [hr]; rfl

theorem substText_of (n : Node) (truncate : Bool) (cfg : Int) :
    substText truncate cfg n = .ok (SpecC12.okBytes (interp truncate n.text cfg)) := by
  unfold substText nodeText
  exact interp_ok truncate n.text cfg

/-- the spec's reading of one filter atom -/
def specAtomHolds (text : Bytes) (names : List Bytes) (v : List Int) (a : SpecC12.Atom) : Bool :=
  match varText text names v a.2.1 with
  | some t => (t == a.2.2) == a.1
  | none => false

theorem evalFilter_spec {msrc src : Bytes} {size off : Nat} {text : Bytes} (vw : View msrc src size off text)
    (names : List Bytes) (v : List Int) (lo hi : Int)
    (hnames : ∃ rest, names = [] :: rest) (hg : ∀ j, j < names.length → WFGroup text v j)
    (h0 : v[0]? = some lo) (h1 : v[1]? = some hi) (hin : InRange text lo hi)
    (atoms : List Atom) (hvars : ∀ a, a ∈ atoms → VarOK names (atomVar a)) :
    evalFilter (matchOf src off text names v lo hi) atoms =
      .ok ((atoms.map atomToSpec).all (specAtomHolds text names v)) := by
  induction atoms with
  | nil => rfl
  | cons a rest ih =>
    have ihr := ih (fun a' ha' => hvars a' (List.mem_cons_of_mem _ ha'))
    obtain ⟨n, hc, ht, _, _⟩ := lookup_spec vw names v lo hi hnames hg h0 h1 hin (atomVar a)
      (hvars a List.mem_cons_self)
    unfold evalFilter
    cases a with
    | textEq var lit =>
      simp only [atomVar] at hc ht
      simp only [hc, List.map_cons, List.all_cons, atomToSpec, specAtomHolds, ht]
      by_cases hcmp : ((nodeText n == lit) == true) = true
      · rw [if_pos hcmp, ihr]
        simp only [nodeText] at hcmp
        simp [hcmp]
      · rw [if_neg hcmp]
        simp only [nodeText] at hcmp
        simp [hcmp]
    | textNe var lit =>
      simp only [atomVar] at hc ht
      simp only [hc, List.map_cons, List.all_cons, atomToSpec, specAtomHolds, ht]
      by_cases hcmp : ((nodeText n == lit) == false) = true
      · rw [if_pos hcmp, ihr]
        simp only [nodeText] at hcmp
        simp [hcmp]
      · rw [if_neg hcmp]
        simp only [nodeText] at hcmp
        simp [hcmp]

/-! ## which capture a `$name` in a template picks -/

theorem mem_insertByLen (c x : Cap) (l : List Cap) : x ∈ insertByLen c l ↔ x = c ∨ x ∈ l := by
  induction l with
  | nil => simp [insertByLen]
  | cons d ds ih =>
    unfold insertByLen
    split
    · simp
    · simp only [List.mem_cons, ih]
      constructor
      · rintro (h | h | h)
        · exact .inr (.inl h)
        · exact .inl h
        · exact .inr (.inr h)
      · rintro (h | h | h)
        · exact .inr (.inl h)
        · exact .inl h
        · exact .inr (.inr h)

theorem mem_sortCaps_aux (l acc : List Cap) (x : Cap) :
    x ∈ l.foldl (fun acc c => insertByLen c acc) acc ↔ x ∈ l ∨ x ∈ acc := by
  induction l generalizing acc with
  | nil => simp
  | cons c cs ih =>
    simp only [List.foldl_cons, ih, mem_insertByLen, List.mem_cons]
    constructor
    · rintro (h | h | h)
      · exact .inl (.inr h)
      · exact .inl (.inl h)
      · exact .inr h
    · rintro ((h | h) | h)
      · exact .inr (.inl h)
      · exact .inl h
      · exact .inr (.inr h)

theorem mem_sortCaps (l : List Cap) (x : Cap) : x ∈ sortCaps l ↔ x ∈ l := by
  unfold sortCaps
  rw [mem_sortCaps_aux]
  simp

/-- when at most one element satisfies `p`, `find?` does not depend on the order -/
theorem find_unique {α : Type} (p : α → Bool) (l l' : List α) (hmem : ∀ x, x ∈ l' ↔ x ∈ l)
    (huniq : ∀ c d, c ∈ l → d ∈ l → p c = true → p d = true → c = d) : l'.find? p = l.find? p := by
  cases h : l.find? p with
  | none =>
    rw [List.find?_eq_none] at h ⊢
    intro x hx; exact h x ((hmem x).1 hx)
  | some c =>
    have hc := List.find?_some h
    have hcm := List.mem_of_find?_eq_some h
    cases h' : l'.find? p with
    | none =>
      rw [List.find?_eq_none] at h'
      exact absurd hc (h' c ((hmem c).2 hcm))
    | some d =>
      have hd := List.find?_some h'
      have hdm := (hmem d).1 (List.mem_of_find?_eq_some h')
      rw [huniq d c hdm hcm hd hc]

/-- no group name is a prefix of another group's name (in particular, names are distinct) -/
def NamesOK (names : List Bytes) : Prop :=
  ∀ (j1 j2 : Nat) (a b : Bytes), names[j1]? = some a → names[j2]? = some b → a ≠ [] → b ≠ [] → a <+: b → j1 = j2

theorem mem_namedCaps (src : Bytes) (off : Nat) (text : Bytes) (v : List Int) (i : Nat) (names : List Bytes) (c : Cap) :
    c ∈ namedCaps src off text v i names ↔
      ∃ j a, i ≤ j ∧ j ≠ 0 ∧ names[j - i]? = some a ∧ a ≠ [] ∧ c = groupCap src off text v j a := by
  induction names generalizing i with
  | nil => simp [namedCaps]
  | cons n rest ih =>
    unfold namedCaps
    by_cases hskip : i = 0 ∨ n = []
    · rw [if_pos hskip, ih (i + 1)]
      constructor
      · rintro ⟨j, a, h1, h2, h3, h4, h5⟩
        refine ⟨j, a, by omega, h2, ?_, h4, h5⟩
        have : j - i = (j - (i + 1)) + 1 := by omega
        rw [this]; simpa using h3
      · rintro ⟨j, a, h1, h2, h3, h4, h5⟩
        by_cases hji : j = i
        · subst hji
          simp only [Nat.sub_self, List.getElem?_cons_zero, Option.some.injEq] at h3
          subst h3
          rcases hskip with h | h
          · exact absurd h h2
          · exact absurd h h4
        · refine ⟨j, a, by omega, h2, ?_, h4, h5⟩
          have : j - i = (j - (i + 1)) + 1 := by omega
          rw [this] at h3; simpa using h3
    · rw [if_neg hskip, List.mem_cons, ih (i + 1)]
      have hi : i ≠ 0 := fun h => hskip (.inl h)
      have hn : n ≠ [] := fun h => hskip (.inr h)
      constructor
      · rintro (h | ⟨j, a, h1, h2, h3, h4, h5⟩)
        · exact ⟨i, n, Nat.le_refl _, hi, by simp, hn, h⟩
        · refine ⟨j, a, by omega, h2, ?_, h4, h5⟩
          have : j - i = (j - (i + 1)) + 1 := by omega
          rw [this]; simpa using h3
      · rintro ⟨j, a, h1, h2, h3, h4, h5⟩
        by_cases hji : j = i
        · subst hji
          simp only [Nat.sub_self, List.getElem?_cons_zero, Option.some.injEq] at h3
          subst h3
          exact .inl h5
        · refine .inr ⟨j, a, by omega, h2, ?_, h4, h5⟩
          have : j - i = (j - (i + 1)) + 1 := by omega
          rw [this] at h3; simpa using h3

theorem prefix_comparable {α : Type} {a b l : List α} (ha : a <+: l) (hb : b <+: l) : a <+: b ∨ b <+: a := by
  rcases Nat.le_total a.length b.length with h | h
  · exact .inl (List.prefix_of_prefix_length_le ha hb h)
  · exact .inr (List.prefix_of_prefix_length_le hb ha h)

/-- at most one capture's name is a prefix of what follows the `$` -/
theorem caps_unique (src : Bytes) (off : Nat) (text : Bytes) (v : List Int) (names : List Bytes) (hok : NamesOK names) (rest : Bytes)
    (c d : Cap) (hc : c ∈ namedCaps src off text v 0 names) (hd : d ∈ namedCaps src off text v 0 names)
    (pc : c.name.isPrefixOf rest = true) (pd : d.name.isPrefixOf rest = true) : c = d := by
  rw [mem_namedCaps] at hc hd
  obtain ⟨j1, a, _, _, ha, hane, rfl⟩ := hc
  obtain ⟨j2, b, _, _, hb, hbne, rfl⟩ := hd
  simp only [groupCap_name, List.isPrefixOf_iff_prefix] at pc pd
  simp only [Nat.sub_zero] at ha hb
  rcases prefix_comparable pc pd with h | h
  · have := hok j1 j2 a b ha hb hane hbne h
    subst this
    rw [ha] at hb; simp only [Option.some.injEq] at hb; rw [hb]
  · have := hok j2 j1 b a hb ha hbne hane h
    subst this
    rw [ha] at hb; simp only [Option.some.injEq] at hb; rw [hb]

/-- the list the template loop searches (sorted when longer than one) finds what the unsorted list finds -/
theorem find_sorted (src : Bytes) (off : Nat) (text : Bytes) (v : List Int) (names : List Bytes) (hok : NamesOK names) (rest : Bytes) :
    let caps := namedCaps src off text v 0 names
    (if caps.length > 1 then sortCaps caps else caps).find? (fun c => c.name.isPrefixOf rest) =
      caps.find? (fun c => c.name.isPrefixOf rest) := by
  intro caps
  split
  · exact find_unique _ caps (sortCaps caps) (mem_sortCaps caps)
      (fun c d hc hd pc pd => caps_unique src off text v names hok rest c d hc hd pc pd)
  · rfl

/-! ## the spec's "longest name" is the capture the loop finds -/

theorem longestName_some {ns : List Bytes} {r b : Bytes} (h : longestName ns r = some b) :
    b ∈ ns ∧ b ≠ [] ∧ b.isPrefixOf r = true := by
  induction ns generalizing b with
  | nil => simp [longestName] at h
  | cons n ns ih =>
    unfold longestName at h
    by_cases hc : n ≠ [] ∧ n.isPrefixOf r = true
    · rw [if_pos hc] at h
      cases hl : longestName ns r with
      | none => simp only [hl, Option.some.injEq] at h; subst h; exact ⟨List.mem_cons_self, hc.1, hc.2⟩
      | some b' =>
        simp only [hl] at h
        by_cases hlt : n.length < b'.length
        · rw [if_pos hlt] at h; simp only [Option.some.injEq] at h; subst h
          have := ih hl; exact ⟨List.mem_cons_of_mem _ this.1, this.2⟩
        · rw [if_neg hlt] at h; simp only [Option.some.injEq] at h; subst h
          exact ⟨List.mem_cons_self, hc.1, hc.2⟩
    · rw [if_neg hc] at h
      have := ih h; exact ⟨List.mem_cons_of_mem _ this.1, this.2⟩

theorem longestName_unique {ns : List Bytes} {r n : Bytes} (hu : ∀ a, a ∈ ns → a ≠ [] → a.isPrefixOf r = true → a = n)
    (hm : n ∈ ns) (hne : n ≠ []) (hp : n.isPrefixOf r = true) : longestName ns r = some n := by
  induction ns with
  | nil => simp at hm
  | cons a ns ih =>
    unfold longestName
    by_cases hc : a ≠ [] ∧ a.isPrefixOf r = true
    · rw [if_pos hc]
      have ha : a = n := hu a List.mem_cons_self hc.1 hc.2
      subst ha
      cases hl : longestName ns r with
      | none => rfl
      | some b =>
        have hb := longestName_some hl
        have : b = a := hu b (List.mem_cons_of_mem _ hb.1) hb.2.1 hb.2.2
        subst this
        simp
    · rw [if_neg hc]
      rcases List.mem_cons.1 hm with h | h
      · subst h; exact absurd ⟨hne, hp⟩ hc
      · exact ih (fun a' ha' => hu a' (List.mem_cons_of_mem _ ha')) h

theorem longestName_none {ns : List Bytes} {r : Bytes} (h : ∀ a, a ∈ ns → ¬ (a ≠ [] ∧ a.isPrefixOf r = true)) :
    longestName ns r = none := by
  induction ns with
  | nil => rfl
  | cons a ns ih =>
    unfold longestName
    rw [if_neg (h a List.mem_cons_self)]
    exact ih (fun a' ha' => h a' (List.mem_cons_of_mem _ ha'))

theorem mem_tail_iff (names : List Bytes) (a : Bytes) : a ∈ names.tail ↔ ∃ j, j ≠ 0 ∧ names[j]? = some a := by
  cases names with
  | nil => simp
  | cons n rest =>
    simp only [List.tail_cons, List.mem_iff_getElem?]
    constructor
    · rintro ⟨i, hi⟩; exact ⟨i + 1, by omega, by simpa using hi⟩
    · rintro ⟨j, hj, h⟩
      obtain ⟨i, rfl⟩ : ∃ i, j = i + 1 := ⟨j - 1, by omega⟩
      exact ⟨i, by simpa using h⟩

theorem find_longest (src : Bytes) (off : Nat) (text : Bytes) (v : List Int) (names : List Bytes) (hok : NamesOK names) (r : Bytes) :
    match (namedCaps src off text v 0 names).find? (fun c => c.name.isPrefixOf r) with
    | some c => longestName names.tail r = some c.name ∧ c ∈ namedCaps src off text v 0 names
    | none => longestName names.tail r = none := by
  cases hf : (namedCaps src off text v 0 names).find? (fun c => c.name.isPrefixOf r) with
  | some c =>
    have hcm := List.mem_of_find?_eq_some hf
    have hcp : c.name.isPrefixOf r = true := by simpa using List.find?_some hf
    refine ⟨?_, hcm⟩
    obtain ⟨j, a, _, hj0, ha, hane, rfl⟩ := (mem_namedCaps src off text v 0 names c).1 hcm
    simp only [Nat.sub_zero] at ha
    simp only [groupCap_name] at hcp ⊢
    apply longestName_unique
    · intro a' ha' hne' hp'
      obtain ⟨j', hj', hget'⟩ := (mem_tail_iff names a').1 ha'
      rcases prefix_comparable (List.isPrefixOf_iff_prefix.1 hp') (List.isPrefixOf_iff_prefix.1 hcp) with h | h
      · have := hok j' j a' a hget' ha hne' hane h
        subst this; rw [ha] at hget'; simp only [Option.some.injEq] at hget'; exact hget'.symm
      · have := hok j j' a a' ha hget' hane hne' h
        subst this; rw [ha] at hget'; simp only [Option.some.injEq] at hget'; exact hget'.symm
    · exact (mem_tail_iff names a).2 ⟨j, hj0, ha⟩
    · exact hane
    · exact hcp
  | none =>
    simp only
    apply longestName_none
    rintro a ha ⟨hne, hp⟩
    obtain ⟨j, hj, hget⟩ := (mem_tail_iff names a).1 ha
    have hmem : groupCap src off text v j a ∈ namedCaps src off text v 0 names :=
      (mem_namedCaps src off text v 0 names _).2 ⟨j, a, Nat.zero_le _, hj, by simpa using hget, hne, rfl⟩
    rw [List.find?_eq_none] at hf
    have := hf _ hmem
    simp [groupCap_name, hp] at this

theorem caps_name_unique (src : Bytes) (off : Nat) (text : Bytes) (v : List Int) (names : List Bytes) (hok : NamesOK names)
    (c d : Cap) (hc : c ∈ namedCaps src off text v 0 names) (hd : d ∈ namedCaps src off text v 0 names) (hn : c.name = d.name) : c = d := by
  rw [mem_namedCaps] at hc hd
  obtain ⟨j1, a, _, _, ha, hane, rfl⟩ := hc
  obtain ⟨j2, b, _, _, hb, hbne, rfl⟩ := hd
  simp only [groupCap_name] at hn
  subst hn
  simp only [Nat.sub_zero] at ha hb
  have := hok j1 j2 a a ha hb hane hane (List.prefix_refl a)
  subst this; rfl

/-- everything the rendering lemmas need about one rule's match on one comment -/
structure Ctx (msrc src : Bytes) (size off : Nat) (text : Bytes) (names : List Bytes) (v : List Int) (lo hi : Int) : Prop where
  names0 : ∃ rest, names = [] :: rest
  groups : ∀ j, j < names.length → WFGroup text v j
  h0 : v[0]? = some lo
  h1 : v[1]? = some hi
  inRange : InRange text lo hi
  view : View msrc src size off text
  namesOK : NamesOK names
  noDollar : dollarDollar ∉ names

/-- the text the loop substitutes for a variable that resolves is the text the spec substitutes -/
theorem subst_var {msrc src : Bytes} {size off : Nat} {text : Bytes} {names : List Bytes} {v : List Int} {lo hi : Int}
    (cx : Ctx msrc src size off text names v lo hi) (truncate : Bool) (cfg : Int) (var : Bytes) (hvar : VarOK names var)
    (n : Node) (hn : capturedByName (matchOf src off text names v lo hi) var = some n) :
    substText truncate cfg n =
      .ok (SpecC12.okBytes (interp truncate ((varText text names v var).getD []) cfg)) := by
  obtain ⟨n', hc, ht, _, _⟩ := lookup_spec cx.view names v lo hi cx.names0 cx.groups cx.h0 cx.h1 cx.inRange var hvar
  rw [hn] at hc
  simp only [Option.some.injEq] at hc
  subst hc
  rw [ht]
  exact substText_of n truncate cfg

theorem cap_lookup {msrc src : Bytes} {size off : Nat} {text : Bytes} {names : List Bytes} {v : List Int} {lo hi : Int}
    (cx : Ctx msrc src size off text names v lo hi) (c : Cap) (hc : c ∈ namedCaps src off text v 0 names) :
    VarOK names c.name ∧ capturedByName (matchOf src off text names v lo hi) c.name = some c.node := by
  obtain ⟨j, a, _, hj0, ha, hane, hceq⟩ := (mem_namedCaps src off text v 0 names c).1 hc
  simp only [Nat.sub_zero] at ha
  have hname : c.name = a := by rw [hceq, groupCap_name]
  have hmem : a ∈ names := List.mem_of_getElem? ha
  have hdd : ¬ c.name = dollarDollar := by
    intro h; rw [hname] at h; rw [h] at hmem; exact cx.noDollar hmem
  refine ⟨.inr ⟨by rw [hname]; exact hane, by rw [hname]; exact hmem⟩, ?_⟩
  simp only [capturedByName, hdd, if_false, matchOf]
  cases hf : (namedCaps src off text v 0 names).find? (fun d => d.name = c.name) with
  | none =>
    rw [List.find?_eq_none] at hf
    have := hf c hc
    simp at this
  | some d =>
    have hdm := List.mem_of_find?_eq_some hf
    have hdn : d.name = c.name := by simpa using List.find?_some hf
    rw [caps_name_unique src off text v names cx.namesOK d c hdm hc hdn]
    rfl

theorem interpolate_plain (names : List Bytes) (subst : Bytes → Bytes) (msg : Bytes) (h : msg.contains dollar = false) :
    interpolate names subst 0 msg = msg := by
  induction msg with
  | nil => rfl
  | cons b rest ih =>
    simp only [List.contains_cons, Bool.or_eq_false_iff] at h
    have hb : b ≠ 36 := by
      intro e; subst e; simp [dollar] at h
    unfold interpolate
    rw [if_neg hb, ih h.2]

/-- the template loop computes the spec's interpolation -/
theorem renderLoop_spec {msrc src : Bytes} {size off : Nat} {text : Bytes} {names : List Bytes} {v : List Int} {lo hi : Int}
    (cx : Ctx msrc src size off text names v lo hi) (truncate : Bool) (cfg : Int) (subst : Bytes → Bytes)
    (hsubst : ∀ var, subst var = SpecC12.okBytes (interp truncate ((varText text names v var).getD []) cfg))
    (msg : Bytes) (skip : Nat) :
    renderLoop truncate cfg (matchOf src off text names v lo hi)
        (if (namedCaps src off text v 0 names).length > 1 then sortCaps (namedCaps src off text v 0 names) else namedCaps src off text v 0 names)
        skip msg = .ok (interpolate names subst skip msg) := by
  induction msg generalizing skip with
  | nil => cases skip <;> rfl
  | cons b rest ih =>
    cases skip with
    | succ k => unfold renderLoop interpolate; exact ih k
    | zero =>
      unfold renderLoop interpolate
      by_cases hb : b = 36
      · have hb' : b = dollar := hb
        rw [if_pos hb', if_pos hb]
        have hwhole : capturedByName (matchOf src off text names v lo hi) dollarDollar = some (matchOf src off text names v lo hi).node := by
          simp [capturedByName]
        by_cases hh : rest.head? = some 36
        · have hp : [dollar].isPrefixOf rest = true := by
            cases rest with
            | nil => simp at hh
            | cons c cs => simp only [List.head?_cons, Option.some.injEq] at hh; subst hh; simp [dollar, List.isPrefixOf]
          rw [if_pos hp, if_pos hh]
          simp only [subst_var cx truncate cfg dollarDollar (.inl rfl) _ hwhole, Res.bind, ih 1, hsubst [36, 36]]
          rfl
        · have hp : ¬ ([dollar].isPrefixOf rest = true) := by
            cases rest with
            | nil => simp [List.isPrefixOf]
            | cons c cs =>
              simp only [List.head?_cons, Option.some.injEq] at hh
              simp only [dollar, List.isPrefixOf, Bool.and_true, beq_iff_eq]
              exact fun h => hh h.symm
          rw [if_neg hp, if_neg hh]
          rw [find_sorted src off text v names cx.namesOK rest]
          have := find_longest src off text v names cx.namesOK rest
          cases hf : (namedCaps src off text v 0 names).find? (fun d => d.name.isPrefixOf rest) with
          | some d =>
            rw [hf] at this
            obtain ⟨hl, hdm⟩ := this
            obtain ⟨hv, hcap⟩ := cap_lookup cx d hdm
            simp only [hl, subst_var cx truncate cfg d.name hv d.node hcap, Res.bind, ih d.name.length, hsubst d.name]
          | none =>
            rw [hf] at this
            simp only [this, ih 0, Res.bind, dollar]
      · have hb' : ¬ b = dollar := hb
        rw [if_neg hb', if_neg hb]
        simp only [ih 0, Res.bind]

/-! ## one rule, then the loop -/

/-- rules in the property's domain: `Where` and `At` only mention `$$` or groups of the regexp -/
structure WFRule (r : CRule) : Prop where
  filterVars : ∀ atoms, r.filter = some atoms → ∀ a, a ∈ atoms → VarOK r.names (atomVar a)
  location : r.location = [] ∨ VarOK r.names r.location

def locVar (r : CRule) : Bytes := if r.location = [] then dollarDollar else r.location

theorem reportNode_eq (m : MatchD) (r : CRule) : reportNode m r = capturedByName m (locVar r) := by
  unfold reportNode locVar
  by_cases h : r.location = []
  · simp [h, capturedByName]
  · simp [h]

theorem renderMessage_spec {msrc src : Bytes} {size off : Nat} {text : Bytes} {v : List Int} {lo hi : Int} (r : CRule)
    (cx : Ctx msrc src size off text r.names v lo hi) (truncate : Bool) (cfg : Int) (msg : Bytes) :
    renderMessage cfg msg (matchOf src off text r.names v lo hi) truncate =
      .ok (interpolate r.names (SpecC12.substFor text (toSpecRule r) v truncate cfg) 0 msg) := by
  unfold renderMessage
  by_cases hd : msg.contains dollar = true
  · simp only [hd, Bool.not_true, Bool.false_eq_true, if_false]
    exact renderLoop_spec cx truncate cfg _ (fun _ => rfl) msg 0
  · have hd' : msg.contains dollar = false := by simpa using hd
    simp only [hd', Bool.not_false, if_true]
    rw [interpolate_plain _ _ msg hd']

theorem accepts_eq (text : Bytes) (r : CRule) (v : List Int) :
    SpecC12.accepts text (toSpecRule r) v =
      match r.filter with
      | none => true
      | some atoms => (atoms.map atomToSpec).all (specAtomHolds text r.names v) := by
  unfold SpecC12.accepts toSpecRule
  cases r.filter with
  | none => rfl
  | some atoms =>
    simp only [Option.map_some]
    congr 1

/-- the report the spec expects from rule `r` (index `k`) matched with vector `v` -/
def expectedReport (alt : Bool) (cfg : Int) (text : Bytes) (k : Nat) (r : CRule) (v : List Int) (n : Node) : Report :=
  { rule := k, line := if alt then r.altLine else r.line, node := some n,
    msg := interpolate r.names (SpecC12.substFor text (toSpecRule r) v true cfg) 0 r.msg,
    sugg := if r.suggestion = [] then none
      else some (n.pos, n.endPos, interpolate r.names (SpecC12.substFor text (toSpecRule r) v false cfg) 0 r.suggestion) }

theorem handle_spec {msrc src : Bytes} {size off : Nat} {text : Bytes} {v : List Int} {lo hi : Int} (alt : Bool) (cfg : Int) (k : Nat)
    (r : CRule) (cx : Ctx msrc src size off text r.names v lo hi) (hr : WFRule r) :
    ∃ n, capturedByName (matchOf src off text r.names v lo hi) (locVar r) = some n ∧
      handleCommentMatch alt cfg k r (matchOf src off text r.names v lo hi) =
        .ok (if SpecC12.accepts text (toSpecRule r) v then some (expectedReport alt cfg text k r v n) else none) := by
  have hloc : VarOK r.names (locVar r) := by
    unfold locVar
    rcases hr.location with h | h
    · rw [if_pos h]; exact .inl rfl
    · by_cases he : r.location = []
      · rw [if_pos he]; exact .inl rfl
      · rw [if_neg he]; exact h
  obtain ⟨n, hn, _⟩ := lookup_spec cx.view r.names v lo hi cx.names0 cx.groups cx.h0 cx.h1 cx.inRange (locVar r) hloc
  refine ⟨n, hn, ?_⟩
  unfold handleCommentMatch
  have hfilter : filterResult (matchOf src off text r.names v lo hi) r = .ok (SpecC12.accepts text (toSpecRule r) v) := by
    unfold filterResult
    rw [accepts_eq]
    cases hf : r.filter with
    | none => rfl
    | some atoms =>
      simp only
      exact evalFilter_spec cx.view r.names v lo hi cx.names0 cx.groups cx.h0 cx.h1 cx.inRange atoms (hr.filterVars atoms hf)
  rw [hfilter]
  simp only [Res.bind]
  cases hacc : SpecC12.accepts text (toSpecRule r) v with
  | false => simp
  | true =>
    simp only [Bool.not_true, Bool.false_eq_true, if_false, if_true]
    rw [renderMessage_spec r cx true cfg r.msg]
    simp only
    unfold suggestionOf
    rw [reportNode_eq, hn]
    by_cases hs : r.suggestion = []
    · simp [hs, expectedReport]
    · simp only [ne_eq, hs, not_false_eq_true, if_true, if_false, renderMessage_spec r cx false cfg r.suggestion, Res.bind, expectedReport]

structure RuleOK (text : Bytes) (r : CRule) : Prop where
  oracle : WFOracle text r
  rule : WFRule r
  namesOK : NamesOK r.names
  noDollar : dollarDollar ∉ r.names

/-- the spec's choice of rule, with the rule's index -/
def firstAcc (text : Bytes) : Nat → List CRule → Option (Nat × CRule × List Int)
  | _, [] => none
  | k, r :: rest =>
    match r.sub with
    | some v => if SpecC12.accepts text (toSpecRule r) v then some (k, r, v) else firstAcc text (k + 1) rest
    | none => firstAcc text (k + 1) rest

theorem firstAccepting_eq (text : Bytes) (k : Nat) (rules : List CRule) :
    SpecC12.firstAccepting text (rules.map toSpecRule) = (firstAcc text k rules).map fun x => (toSpecRule x.2.1, x.2.2) := by
  induction rules generalizing k with
  | nil => rfl
  | cons r rest ih =>
    simp only [List.map_cons, SpecC12.firstAccepting, firstAcc]
    have hsub : (toSpecRule r).sub = r.sub := rfl
    rw [hsub]
    cases r.sub with
    | none => exact ih (k + 1)
    | some v =>
      simp only
      by_cases ha : SpecC12.accepts text (toSpecRule r) v = true
      · simp [ha]
      · simp only [ha, Bool.false_eq_true, if_false]; exact ih (k + 1)

theorem ctx_of {msrc src : Bytes} {size off : Nat} {text : Bytes} {r : CRule} (hok : RuleOK text r)
    (vw : View msrc src size off text) (v : List Int) (hv : r.sub = some v) :
    ∃ lo hi, Ctx msrc src size off text r.names v lo hi ∧
      buildMatch msrc size off text r = .ok (some (matchOf src off text r.names v lo hi)) := by
  obtain ⟨lo, hi, h0, h1, hin, hb⟩ := (buildMatch_spec vw r hok.oracle).2 v hv
  exact ⟨lo, hi, ⟨hok.oracle.names0, (hok.oracle.groups v hv).1, h0, h1, hin, vw, hok.namesOK, hok.noDollar⟩, hb⟩

/-- the loop delivers exactly what the spec's first accepting rule prescribes -/
theorem run_spec (alt : Bool) (msrc src : Bytes) (size : Nat) (cfg : Int) (off : Nat) (text : Bytes)
    (vw : View msrc src size off text) (rules : List CRule) (k : Nat)
    (hrules : ∀ r, r ∈ rules → RuleOK text r) :
    match firstAcc text k rules with
    | none => runFrom alt msrc size cfg off text k rules = .ok none
    | some (k', r, v) => ∃ lo hi n, Ctx msrc src size off text r.names v lo hi ∧ WFRule r ∧ r ∈ rules ∧
        capturedByName (matchOf src off text r.names v lo hi) (locVar r) = some n ∧
        runFrom alt msrc size cfg off text k rules = .ok (some (expectedReport alt cfg text k' r v n)) := by
  induction rules generalizing k with
  | nil => rfl
  | cons r rest ih =>
    have hok := hrules r List.mem_cons_self
    have ihr := ih (k + 1) (fun r' hr' => hrules r' (List.mem_cons_of_mem _ hr'))
    unfold firstAcc runFrom
    cases hsub : r.sub with
    | none =>
      simp only
      rw [(buildMatch_spec vw r hok.oracle).1 hsub]
      simp only [Res.bind]
      cases hfa : firstAcc text (k + 1) rest with
      | none => rw [hfa] at ihr; exact ihr
      | some x =>
        rw [hfa] at ihr
        obtain ⟨lo, hi, n, cx, hwr, hmem, hn, hrun⟩ := ihr
        exact ⟨lo, hi, n, cx, hwr, List.mem_cons_of_mem _ hmem, hn, hrun⟩
    | some v =>
      simp only
      obtain ⟨lo, hi, cx, hb⟩ := ctx_of hok vw v hsub
      obtain ⟨n, hn, hh⟩ := handle_spec alt cfg k r cx hok.rule
      rw [hb]
      simp only [Res.bind, hh]
      by_cases ha : SpecC12.accepts text (toSpecRule r) v = true
      · simp only [ha, if_true]
        exact ⟨lo, hi, n, cx, hok.rule, List.mem_cons_self, hn, rfl⟩
      · simp only [ha, Bool.false_eq_true, if_false]
        cases hfa : firstAcc text (k + 1) rest with
        | none => rw [hfa] at ihr; exact ihr
        | some x =>
          rw [hfa] at ihr
          obtain ⟨lo', hi', n', cx', hwr, hmem, hn', hrun⟩ := ihr
          exact ⟨lo', hi', n', cx', hwr, List.mem_cons_of_mem _ hmem, hn', hrun⟩

end CM
