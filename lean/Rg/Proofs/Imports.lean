import Rg.Model.Imports
/-! Helper lemmas for C20: the scoped import table, byte-string search. -/
namespace ImpM

/-! ### the table -/

theorem loadAll_cons (s : Scope) (rest : Itab) : ∀ (imports : List (Bytes × Bytes)),
    Itab.loadAll (s :: rest) imports = .ok ((imports.reverse ++ s) :: rest)
  | [] => by simp [Itab.loadAll]
  | (n, p) :: more => by
    simp only [Itab.loadAll, Itab.load]
    rw [loadAll_cons ((n, p) :: s) rest more]
    simp

theorem scopeGet_append (a b : Scope) (name : Bytes) :
    scopeGet (a ++ b) name = match scopeGet a name with | some p => some p | none => scopeGet b name := by
  unfold scopeGet
  rw [List.find?_append]
  cases h : a.find? (fun x => x.1 == name) <;> simp

theorem lookup_cons (s : Scope) (rest : Itab) (name : Bytes) :
    Itab.lookup (s :: rest) name = match scopeGet s name with | some p => some p | none => Itab.lookup rest name := by
  rfl

/-- what a lookup inside a group sees: its own Import()s, the latest first, then the enclosing table -/
theorem lookup_in_group (t : Itab) (imports : List (Bytes × Bytes)) (name : Bytes) :
    Itab.lookup ((imports.reverse ++ []) :: t) name =
      match scopeGet imports.reverse name with | some p => some p | none => t.lookup name := by
  rw [lookup_cons]; simp

/-! ### strings.LastIndex / strings.Index -/

theorem lastIndexOf_some (sub : Bytes) : ∀ (s : Bytes) (i : Nat), lastIndexOf sub s = some i →
    i ≤ s.length ∧ sub.isPrefixOf (s.drop i) = true ∧
    ∀ j, i < j → j ≤ s.length → sub.isPrefixOf (s.drop j) = false
  | [], i, h => by
    simp only [lastIndexOf] at h
    split at h
    · cases h
      rename_i he
      refine ⟨Nat.le_refl _, ?_, ?_⟩
      · cases sub <;> simp_all
      · intro j hj hle; simp at hle; omega
    · cases h
  | c :: t, i, h => by
    simp only [lastIndexOf] at h
    split at h
    · rename_i k hk
      cases h
      obtain ⟨h1, h2, h3⟩ := lastIndexOf_some sub t k hk
      refine ⟨by simp; omega, by simpa using h2, ?_⟩
      intro j hj hle
      cases j with
      | zero => omega
      | succ j' => simpa using h3 j' (by omega) (by simpa using hle)
    · rename_i hn
      split at h
      · rename_i hp
        cases h
        refine ⟨by simp, by simpa using hp, ?_⟩
        intro j hj hle
        cases j with
        | zero => omega
        | succ j' =>
          have := lastIndexOf_none sub t hn j' (by simpa using hle)
          simpa using this
      · cases h
where
  lastIndexOf_none (sub : Bytes) : ∀ (s : Bytes), lastIndexOf sub s = none →
      ∀ j, j ≤ s.length → sub.isPrefixOf (s.drop j) = false
    | [], h, j, hj => by
      simp only [lastIndexOf] at h
      split at h
      · cases h
      · rename_i he
        have : j = 0 := by simpa using hj
        subst this
        cases sub <;> simp_all
    | c :: t, h, j, hj => by
      simp only [lastIndexOf] at h
      split at h
      · cases h
      · rename_i hn
        split at h
        · cases h
        · rename_i hp
          cases j with
          | zero => simpa using Bool.eq_false_iff.2 hp
          | succ j' => simpa using lastIndexOf_none sub t hn j' (by simpa using hj)

theorem lastIndexOf_none' (sub s : Bytes) (h : lastIndexOf sub s = none) :
    ∀ j, j ≤ s.length → sub.isPrefixOf (s.drop j) = false :=
  lastIndexOf_some.lastIndexOf_none sub s h

/-! ### splitting a fully-qualified name at the last dot -/

theorem lastIndexOf_dot_none : ∀ (name : Bytes), dot ∉ name → lastIndexOf [dot] name = none
  | [], _ => by simp [lastIndexOf]
  | c :: t, h => by
    have hc : c ≠ dot := fun e => h (by simp [e])
    have ht : dot ∉ t := fun m => h (by simp [m])
    have hc' : ¬ dot = c := fun e => hc e.symm
    simp [lastIndexOf, lastIndexOf_dot_none t ht, hc']

theorem lastIndexOf_dot_split : ∀ (path name : Bytes), dot ∉ name →
    lastIndexOf [dot] (path ++ dot :: name) = some path.length
  | [], name, h => by
    simp [lastIndexOf, lastIndexOf_dot_none name h]
  | c :: p, name, h => by
    simp [lastIndexOf, lastIndexOf_dot_split p name h]

end ImpM
