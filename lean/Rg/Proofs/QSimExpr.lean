import Rg.Proofs.QSimStep
/-!
# Simulation of expressions

`simE_step`: if `n` units of source fuel are simulated for expressions and calls, so are `n + 1` for
expressions.  Constants, parameters, locals, `!`, arithmetic, comparisons, string operators, nil
tests, `&&`/`||`, `len`, slicing (including the out-of-range panics).
-/
namespace Q
open SpecC04 (Val Env lookup tagOf evalExpr evalArgs evalCall callFn execStmt execBlock loop Flow binVal nilCmp sliceVal)

macro "ucomp" " at " h:ident : tactic =>
  `(tactic| simp only [compE, compEs, compArgs, bind, Option.bind_eq_bind, Option.bind_eq_some_iff, pure, Option.pure_def, Option.some.injEq,
      Prod.mk.injEq, Prod.exists] at $h:ident)

variable (C : Ctx)

theorem EGoal.of_reaches {o : SpecC04.Out Val} {fr : Frame} {p p1 p' : Int} {st st1 : Stack}
    (h1 : Reaches C.fx C.venv C.f ⟨fr, p, st⟩ ⟨fr, p1, st1⟩)
    (h2 : match o with
          | .ok v => Reaches C.fx C.venv C.f ⟨fr, p1, st1⟩ ⟨fr, p', pushVal v st⟩
          | .panic q => Ends C.fx C.venv C.f ⟨fr, p1, st1⟩ (.panic q)
          | _ => True) :
    EGoal C o fr p p' st := by
  cases o with
  | ok v => exact h1.trans _ _ _ h2
  | panic q => exact Ends.of_reaches _ _ _ h1 (by simp) h2
  | _ => trivial

/-- `EGoal` with the end position rewritten -/
theorem EGoal.cast {o : SpecC04.Out Val} {fr : Frame} {p p' p'' : Int} {st : Stack}
    (h : EGoal C o fr p p' st) (e : p' = p'') : EGoal C o fr p p'' st := e ▸ h

theorem frameOK_locals {fn : CFn} {l l' : List (Nat × Nat)} {env fr bO bI} (e : l' = l)
    (h : FrameOK fn l env fr bO bI) : FrameOK fn l' env fr bO bI := e ▸ h

/-- the result of a sub-expression decides how the rest goes -/
theorem EGoal.bind1 {ox : SpecC04.Out Val} {k : Val → SpecC04.Out Val} {fr : Frame} {p p1 p' : Int} {st : Stack}
    (h1 : EGoal C ox fr p p1 st)
    (h3 : ∀ v, ox = .ok v →
      match k v with
      | .ok r => Reaches C.fx C.venv C.f ⟨fr, p1, pushVal v st⟩ ⟨fr, p', pushVal r st⟩
      | .panic q => Ends C.fx C.venv C.f ⟨fr, p1, pushVal v st⟩ (.panic q)
      | _ => True) :
    EGoal C (ox >>= k) fr p p' st := by
  cases ox with
  | ok v =>
    simp only [EGoal] at h1
    simp only [SpecC04.Out.bind_ok]
    exact EGoal.of_reaches C h1 (h3 v rfl)
  | panic q => simpa [EGoal] using h1
  | _ => simp [bind, SpecC04.Out.bind, EGoal]

/-- two operands, then the rest -/
theorem EGoal.bind2 {ox oy : SpecC04.Out Val} {k : Val → Val → SpecC04.Out Val} {fr : Frame} {p p1 p2 p' : Int} {st : Stack}
    (h1 : EGoal C ox fr p p1 st)
    (h2 : ∀ a, ox = .ok a → EGoal C oy fr p1 p2 (pushVal a st))
    (h3 : ∀ a b, ox = .ok a → oy = .ok b →
      match k a b with
      | .ok r => Reaches C.fx C.venv C.f ⟨fr, p2, pushVal b (pushVal a st)⟩ ⟨fr, p', pushVal r st⟩
      | .panic q => Ends C.fx C.venv C.f ⟨fr, p2, pushVal b (pushVal a st)⟩ (.panic q)
      | _ => True) :
    EGoal C (ox >>= fun a => oy >>= fun b => k a b) fr p p' st := by
  cases ox with
  | ok a =>
    simp only [EGoal] at h1
    simp only [SpecC04.Out.bind_ok]
    have h2' := h2 a rfl
    cases oy with
    | ok b =>
      simp only [EGoal] at h2'
      simp only [SpecC04.Out.bind_ok]
      exact EGoal.of_reaches C (h1.trans _ _ _ h2') (h3 a b rfl rfl)
    | panic q =>
      simp only [EGoal] at h2'
      simpa [EGoal] using Ends.of_reaches _ _ _ h1 (by simp) h2'
    | _ => simp [bind, SpecC04.Out.bind, EGoal]
  | panic q => simpa [EGoal] using h1
  | _ => simp [bind, SpecC04.Out.bind, EGoal]

theorem simE_ident (hfx : FxOK C.fx) (n : Nat) (env : Env) (x : Nat) (ty : Ty) (cs : SState) (is : List Instr) (cs' : SState)
    (hc : compE C.fx C.cenv C.fn (.ident x ty) cs = some (is, cs'))
    (p : Int) (hat : At C.f.code p is) (fr : Frame) (bO : List Obj) (bI : List Int64)
    (hF : FrameOK C.fn cs.locals env fr bO bI) (st : Stack) (hB : BaseOf st bO bI) :
    EGoal C (evalExpr C.P (n + 1) env (.ident x ty)) fr p (p + isize is) st := by
  simp only [evalExpr]
  cases hl : lookup env x with
  | none => simp [EGoal]
  | some v =>
    simp only []
    split
    · rename_i htag
      simp only [EGoal]
      obtain ⟨tO, tI, hO, hI⟩ := hB
      simp only [compE] at hc
      rcases hF x v hl with ⟨i, hp, hnt, hfb⟩ | ⟨hp, i, k, hip, rfl, hfb⟩ | ⟨hp, hip, i, hloc, hslot⟩
      · simp only [hp] at hc
        ucomp at hc
        obtain ⟨a, ha, rfl, rfl⟩ := hc
        obtain ⟨rfl, _⟩ := op8_eq hfx.range ha
        have hfb' : fromBottom st.objs (fr.top + ↑a) = .ok (objOf v) := by rw [hO]; exact fromBottom_append _ _ _ _ hfb
        have := reaches_step C.fx C.venv C.f (fr := fr) (st := st) (hd := hat.1) (hs := step_pushParam hnt hfb')
        simpa [isize, Instr.width] using this
      · simp only [hp, hip] at hc
        ucomp at hc
        obtain ⟨a, ha, rfl, rfl⟩ := hc
        obtain ⟨rfl, _⟩ := op8_eq hfx.range ha
        have hfb' : fromBottom st.ints (fr.intTop + ↑a) = .ok k := by rw [hI]; exact fromBottom_append _ _ _ _ hfb
        have := reaches_step C.fx C.venv C.f (fr := fr) (st := st) (hd := hat.1) (hs := step_pushIntParam hfb')
        simpa [isize, Instr.width] using this
      · simp only [hp, hip, hloc] at hc
        ucomp at hc
        obtain ⟨a, ha, rfl, rfl⟩ := hc
        obtain ⟨rfl, _⟩ := op8_eq hfx.range ha
        have htag' : tagOf v = ty := by simpa using htag
        cases v with
        | int k =>
          have hi : isInt ty = true := by simp [← htag', tagOf, isInt]
          simp only [hi, if_true] at hat
          have := reaches_step C.fx C.venv C.f (fr := fr) (st := st) (hd := hat.1) (hs := step_pushIntLocal hslot)
          simpa [isize, Instr.width, hi] using this
        | _ =>
          all_goals
            have hni : isInt ty = false := by simp [← htag', tagOf, isInt]
            simp only [hni] at hat
            have := reaches_step C.fx C.venv C.f (fr := fr) (st := st) (hd := hat.1)
              (hs := step_pushLocal (by simp [tagOf]) hslot)
            simpa [isize, Instr.width, hni] using this
    · simp [EGoal]

theorem isNilE_true {e : Expr} (h : SpecC04.isNilE e = true) : e = .nil := by
  cases e <;> simp [SpecC04.isNilE] at h; rfl

theorem nilCmp_no_panic (op : BinOp) (v : Val) (q : Panic) : nilCmp op v ≠ .panic q := by
  cases v <;> simp only [nilCmp] <;> (try split) <;> (try split) <;> simp

theorem binVal_no_panic (op : BinOp) (a b : Val) (q : Panic) : binVal op a b ≠ .panic q := by
  cases a <;> cases b <;> simp only [binVal] <;> (try simp) <;> cases op <;> simp [SpecC04.cmpOp]

theorem simE_bin (n : Nat) (ihE : SimE C n) (env : Env) (op : BinOp) (hop : op ≠ .lor ∧ op ≠ .land)
    (ty : Ty) (x y : Expr) (cs : SState) (is : List Instr) (cs' : SState)
    (hc : compE C.fx C.cenv C.fn (.bin op ty x y) cs = some (is, cs'))
    (p : Int) (hat : At C.f.code p is) (hpool : PoolOK cs' C.f) (fr : Frame) (bO : List Obj) (bI : List Int64)
    (hF : FrameOK C.fn cs.locals env fr bO bI) (st : Stack) (hB : BaseOf st bO bI) :
    EGoal C (evalExpr C.P (n + 1) env (.bin op ty x y)) fr p (p + isize is) st := by
  have hev : evalExpr C.P (n + 1) env (.bin op ty x y) =
      (if SpecC04.isNilE x then do let v ← evalExpr C.P n env y; nilCmp op v
       else if SpecC04.isNilE y then do let v ← evalExpr C.P n env x; nilCmp op v
       else do
         let a ← evalExpr C.P n env x
         let b ← evalExpr C.P n env y
         if tagOf a == ty then binVal op a b else .stuck) := by
    cases op <;> first | exact absurd rfl hop.1 | exact absurd rfl hop.2 | simp only [evalExpr]
  rw [hev]
  have hcomp : compE C.fx C.cenv C.fn (.bin op ty x y) cs =
      (if (op == .neq || op == .eql) && isNilIdent x then do
        let (iy, s) ← compE C.fx C.cenv C.fn y cs
        pure (iy ++ [if op == .neq then .isNotNil else .isNil], s)
      else if (op == .neq || op == .eql) && isNilIdent y then do
        let (ix, s) ← compE C.fx C.cenv C.fn x cs
        pure (ix ++ [if op == .neq then .isNotNil else .isNil], s)
      else
        match binInstr op ty with
        | none => none
        | some ins => do
          let (ix, s) ← compE C.fx C.cenv C.fn x cs
          let (iy, s) ← compE C.fx C.cenv C.fn y s
          pure (ix ++ iy ++ [ins], s)) := by
    cases op <;> first | exact absurd rfl hop.1 | exact absurd rfl hop.2 | (simp only [compE]; rfl) | (simp [compE, binInstr])
  rw [hcomp] at hc
  split at hc
  · -- nil on the left
    rename_i hcond
    simp only [Bool.and_eq_true, Bool.or_eq_true, beq_iff_eq] at hcond
    have hnx : SpecC04.isNilE x = true := by rw [← isNilIdent_eq]; exact hcond.2
    simp only [hnx, if_true]
    ucomp at hc
    obtain ⟨iy, s1, hy, rfl, rfl⟩ := hc
    rw [at_append] at hat
    have h1 := ihE env y cs iy _ hy p hat.1 hpool fr bO bI hF st hB
    have hw : (if op == BinOp.neq then Instr.isNotNil else Instr.isNil).width = 1 := by split <;> rfl
    refine (EGoal.bind1 C (p' := p + isize iy + 1) h1 ?_).cast C (by rw [isize_append]; simp only [isize, hw]; omega)
    intro v _
    cases hr : nilCmp op v with
    | ok r =>
      exact reaches_step C.fx C.venv C.f (fr := fr) (hd := hat.2.1)
        (hs := step_nilCmp (st := st) (by rcases hcond.1 with h | h <;> simp [h]) hr)
    | panic q => exact absurd hr (nilCmp_no_panic _ _ _)
    | _ => trivial
  · rename_i hc1
    split at hc
    · -- nil on the right
      rename_i hcond
      simp only [Bool.and_eq_true, Bool.or_eq_true, beq_iff_eq] at hcond
      have hny : SpecC04.isNilE y = true := by rw [← isNilIdent_eq]; exact hcond.2
      ucomp at hc
      obtain ⟨ix, s1, hx, rfl, rfl⟩ := hc
      have hnx : SpecC04.isNilE x = false := by
        cases h : SpecC04.isNilE x with
        | false => rfl
        | true => rw [isNilE_true h] at hx; simp [compE] at hx
      simp only [hnx, hny, if_true, Bool.false_eq_true, if_false]
      rw [at_append] at hat
      have h1 := ihE env x cs ix _ hx p hat.1 hpool fr bO bI hF st hB
      have hw : (if op == BinOp.neq then Instr.isNotNil else Instr.isNil).width = 1 := by split <;> rfl
      refine (EGoal.bind1 C (p' := p + isize ix + 1) h1 ?_).cast C (by rw [isize_append]; simp only [isize, hw]; omega)
      intro v _
      cases hr : nilCmp op v with
      | ok r =>
        exact reaches_step C.fx C.venv C.f (fr := fr) (hd := hat.2.1)
          (hs := step_nilCmp (st := st) (by rcases hcond.1 with h | h <;> simp [h]) hr)
      | panic q => exact absurd hr (nilCmp_no_panic _ _ _)
      | _ => trivial
    · -- two operands and an instruction
      split at hc
      · simp at hc
      · rename_i ins hins
        ucomp at hc
        obtain ⟨ix, s1, hx, iy, s2, hy, rfl, rfl⟩ := hc
        have hnx : SpecC04.isNilE x = false := by
          cases h : SpecC04.isNilE x with
          | false => rfl
          | true => rw [isNilE_true h] at hx; simp [compE] at hx
        have hny : SpecC04.isNilE y = false := by
          cases h : SpecC04.isNilE y with
          | false => rfl
          | true => rw [isNilE_true h] at hy; simp [compE] at hy
        simp only [hnx, hny, Bool.false_eq_true, if_false]
        rw [at_append, at_append] at hat
        obtain ⟨⟨hatx, haty⟩, hati⟩ := hat
        have my := compE_mono _ _ _ hy
        have h1 := ihE env x cs ix _ hx p hatx (hpool.of_mono my) fr bO bI hF st hB
        have hw := binInstr_width hins
        refine (EGoal.bind2 C (p2 := p + isize ix + isize iy) (p' := p + isize ix + isize iy + 1) h1 ?_ ?_).cast C
          (by rw [isize_append, isize_append]; simp only [isize, hw]; omega)
        · intro a _
          have mx := compE_mono _ _ _ hx
          exact ihE env y s1 iy _ hy _ haty hpool fr bO bI (frameOK_locals mx.1 hF) _ (hB.pushVal a)
        · intro a b _ _
          by_cases htag : (tagOf a == ty) = true
          · simp only [htag, if_true]
            cases hr : binVal op a b with
            | ok r =>
              simp only [isize_append] at hati
              have := reaches_step C.fx C.venv C.f (fr := fr) (hd := hati.1)
                (hs := binInstr_sound (st := st) hins (by simpa using htag) hr)
              simpa [Int.add_assoc] using this
            | panic q => exact absurd hr (binVal_no_panic _ _ _ _)
            | _ => trivial
          · simp only [htag]; trivial

/-- `x || y` and `x && y` (with the repaired code shape `X; dup; jump end; pop; Y; end:`) -/
theorem simE_short (hfx : FxOK C.fx) (n : Nat) (ihE : SimE C n) (env : Env) (isOr : Bool)
    (ty : Ty) (x y : Expr) (cs : SState) (is : List Instr) (cs' : SState)
    (hc : compE C.fx C.cenv C.fn (.bin (if isOr then .lor else .land) ty x y) cs = some (is, cs'))
    (p : Int) (hat : At C.f.code p is) (hpool : PoolOK cs' C.f) (fr : Frame) (bO : List Obj) (bI : List Int64)
    (hF : FrameOK C.fn cs.locals env fr bO bI) (st : Stack) (hB : BaseOf st bO bI) :
    EGoal C (evalExpr C.P (n + 1) env (.bin (if isOr then .lor else .land) ty x y)) fr p (p + isize is) st := by
  have hcomp : ∃ ix s1 iy, compE C.fx C.cenv C.fn x cs = some (ix, s1) ∧ compE C.fx C.cenv C.fn y s1 = some (iy, cs') ∧
      is = ix ++ [.dup, (if isOr then Instr.jumpTrue else Instr.jumpFalse) ((3 + isize (Instr.pop :: iy) : Nat) : Int)] ++ (Instr.pop :: iy) := by
    cases isOr <;> simp only [compE, hfx.orPop, if_true, Bool.false_eq_true, if_false] at hc <;> ucomp at hc <;>
      obtain ⟨ix, s1, hx, iy, s2, hy, rfl, rfl⟩ := hc <;> exact ⟨ix, s1, iy, hx, hy, by simp⟩
  obtain ⟨ix, s1, iy, hx, hy, rfl⟩ := hcomp
  have hev : evalExpr C.P (n + 1) env (.bin (if isOr then .lor else .land) ty x y) =
      (evalExpr C.P n env x >>= fun a =>
        match a with
        | .bool b => if b = isOr then .ok (.bool isOr) else
            (evalExpr C.P n env y >>= fun c => match c with | .bool b2 => .ok (.bool b2) | _ => .stuck)
        | _ => .stuck) := by
    cases isOr <;> simp only [evalExpr, Bool.false_eq_true, if_false, if_true] <;> congr 1 <;> funext a <;>
      cases a <;> (try rfl) <;> rename_i b <;> cases b <;> rfl
  rw [hev]
  simp only [List.append_assoc, List.cons_append, List.nil_append] at hat ⊢
  rw [at_append] at hat
  obtain ⟨hatx, hdup, hjmp, hpop, haty⟩ := hat
  simp only [Instr.w_dup, Instr.w_ite_jump, Instr.w_pop] at hjmp hpop haty
  have my := compE_mono _ _ _ hy
  have mx := compE_mono _ _ _ hx
  have h1 := ihE env x cs ix _ hx p hatx (hpool.of_mono my) fr bO bI hF st hB
  refine EGoal.bind1 C h1 ?_
  intro a _
  cases a with
  | bool b =>
    simp only []
    have hdup' := reaches_step C.fx C.venv C.f (fr := fr) (hd := hdup) (hs := step_dup (st := st) b)
    by_cases hb : b = isOr
    · simp only [hb, if_true]
      subst hb
      refine hdup'.trans _ _ _ ?_
      have hj : step C.f fr (pushVal (.bool b) (pushVal (.bool b) st)) (p + isize ix + 1)
          ((if b then Instr.jumpTrue else Instr.jumpFalse) ((3 + isize (Instr.pop :: iy) : Nat) : Int)) =
          .ok (.cont fr (pushVal (.bool b) st) (p + isize ix + 1 + ((3 + isize (Instr.pop :: iy) : Nat) : Int))) := by
        cases b <;> simp [step_jumpTrue, step_jumpFalse]
      have := reaches_step C.fx C.venv C.f (fr := fr) (hd := hjmp) (hs := hj)
      exact this.pc_cast rfl (by pcarith)
    · simp only [hb, if_false]
      have hj : step C.f fr (pushVal (.bool b) (pushVal (.bool b) st)) (p + isize ix + 1)
          ((if isOr then Instr.jumpTrue else Instr.jumpFalse) ((3 + isize (Instr.pop :: iy) : Nat) : Int)) =
          .ok (.cont fr (pushVal (.bool b) st) (p + isize ix + 1 + 3)) := by
        cases b <;> cases isOr <;> simp_all [step_jumpTrue, step_jumpFalse]
      have hj' := reaches_step C.fx C.venv C.f (fr := fr) (hd := hjmp) (hs := hj)
      have hp' := reaches_step C.fx C.venv C.f (fr := fr) (pc := p + isize ix + 1 + 3) (hd := decodeAt_cast hpop (by pcarith)) (hs := step_pop (st := st) b)
      have hpre := (hdup'.trans _ _ _ hj').trans _ _ _ hp'
      have h2 := ihE env y s1 iy _ hy (p + isize ix + 1 + 3 + 1) (haty.pc_cast (by pcarith)) hpool fr bO bI
        (frameOK_locals mx.1 hF) st hB
      cases hv : evalExpr C.P n env y with
      | ok c =>
        simp only [hv, EGoal] at h2
        simp only [SpecC04.Out.bind_ok]
        cases c with
        | bool b2 =>
          simp only []
          exact (hpre.trans _ _ _ h2).pc_cast rfl (by pcarith)
        | _ => trivial
      | panic q =>
        simp only [hv, EGoal] at h2
        simp only [SpecC04.Out.bind_panic]
        exact Ends.of_reaches _ _ _ hpre (by simp) h2
      | _ => simp [bind, SpecC04.Out.bind]
  | _ => trivial

theorem EGoal.bind3 {ox oy oz : SpecC04.Out Val} {k : Val → Val → Val → SpecC04.Out Val} {fr : Frame} {p p1 p2 p3 p' : Int} {st : Stack}
    (h1 : EGoal C ox fr p p1 st)
    (h2 : ∀ a, ox = .ok a → EGoal C oy fr p1 p2 (pushVal a st))
    (h3 : ∀ a b, ox = .ok a → oy = .ok b → EGoal C oz fr p2 p3 (pushVal b (pushVal a st)))
    (h4 : ∀ a b c, ox = .ok a → oy = .ok b → oz = .ok c →
      match k a b c with
      | .ok r => Reaches C.fx C.venv C.f ⟨fr, p3, pushVal c (pushVal b (pushVal a st))⟩ ⟨fr, p', pushVal r st⟩
      | .panic q => Ends C.fx C.venv C.f ⟨fr, p3, pushVal c (pushVal b (pushVal a st))⟩ (.panic q)
      | _ => True) :
    EGoal C (ox >>= fun a => oy >>= fun b => oz >>= fun c => k a b c) fr p p' st := by
  cases ox with
  | ok a =>
    simp only [EGoal] at h1
    simp only [SpecC04.Out.bind_ok]
    have h2' := h2 a rfl
    cases oy with
    | ok b =>
      simp only [EGoal] at h2'
      simp only [SpecC04.Out.bind_ok]
      have h3' := h3 a b rfl rfl
      cases oz with
      | ok c =>
        simp only [EGoal] at h3'
        simp only [SpecC04.Out.bind_ok]
        exact EGoal.of_reaches C ((h1.trans _ _ _ h2').trans _ _ _ h3') (h4 a b c rfl rfl rfl)
      | panic q =>
        simp only [EGoal] at h3'
        simpa [EGoal] using Ends.of_reaches _ _ _ (h1.trans _ _ _ h2') (by simp) h3'
      | _ => simp [bind, SpecC04.Out.bind, EGoal]
    | panic q =>
      simp only [EGoal] at h2'
      simpa [EGoal] using Ends.of_reaches _ _ _ h1 (by simp) h2'
    | _ => simp [bind, SpecC04.Out.bind, EGoal]
  | panic q => simpa [EGoal] using h1
  | _ => simp [bind, SpecC04.Out.bind, EGoal]

theorem sliceVal_goal {s : Bytes} {lo hi : Int64} {fr : Frame} {pc : Int} {st st0 : Stack} {ins : Instr}
    (hd : decodeAt C.f.code pc = .ok ins)
    (hs : step C.f fr st0 pc ins = (match goSlice s lo.toInt hi.toInt with
       | .ok r => .ok (.cont fr (pushVal (.str r) st) (pc + 1))
       | .panic q => .panic q)) :
    match sliceVal s lo hi with
    | .ok r => Reaches C.fx C.venv C.f ⟨fr, pc, st0⟩ ⟨fr, pc + 1, pushVal r st⟩
    | .panic q => Ends C.fx C.venv C.f ⟨fr, pc, st0⟩ (.panic q)
    | _ => True := by
  unfold sliceVal
  cases hg : goSlice s lo.toInt hi.toInt with
  | ok r => simp only [hg] at hs ⊢; exact reaches_step _ _ _ hd hs
  | panic q => simp only [hg] at hs ⊢; exact ⟨1, run_panic _ _ _ hd hs 0⟩

theorem simE_slices (n : Nat) (ihE : SimE C n) : 
    (∀ env x cs is cs', compE C.fx C.cenv C.fn (.sliceAll x) cs = some (is, cs') →
      ∀ p, At C.f.code p is → PoolOK cs' C.f → ∀ fr bO bI, FrameOK C.fn cs.locals env fr bO bI → ∀ st, BaseOf st bO bI →
      EGoal C (evalExpr C.P (n + 1) env (.sliceAll x)) fr p (p + isize is) st) ∧
    (∀ env xty x cs is cs', compE C.fx C.cenv C.fn (.len xty x) cs = some (is, cs') →
      ∀ p, At C.f.code p is → PoolOK cs' C.f → ∀ fr bO bI, FrameOK C.fn cs.locals env fr bO bI → ∀ st, BaseOf st bO bI →
      EGoal C (evalExpr C.P (n + 1) env (.len xty x)) fr p (p + isize is) st) ∧
    (∀ env x cs is cs', compE C.fx C.cenv C.fn (.not x) cs = some (is, cs') →
      ∀ p, At C.f.code p is → PoolOK cs' C.f → ∀ fr bO bI, FrameOK C.fn cs.locals env fr bO bI → ∀ st, BaseOf st bO bI →
      EGoal C (evalExpr C.P (n + 1) env (.not x)) fr p (p + isize is) st) := by
  refine ⟨?_, ?_, ?_⟩
  · intro env x cs is cs' hc p hat hpool fr bO bI hF st hB
    simp only [compE] at hc
    have h1 := ihE env x cs is _ hc p hat hpool fr bO bI hF st hB
    simp only [evalExpr]
    cases hv : evalExpr C.P n env x with
    | ok v =>
      simp only [hv, EGoal] at h1
      cases v <;> simp [EGoal, bind, SpecC04.Out.bind]
      exact h1
    | panic q => simpa [hv, EGoal, bind, SpecC04.Out.bind] using h1
    | _ => simp [EGoal, bind, SpecC04.Out.bind]
  · intro env xty x cs is cs' hc p hat hpool fr bO bI hF st hB
    ucomp at hc
    obtain ⟨ix, s1, hx, hc⟩ := hc
    split at hc
    · simp at hc
    · simp only [Option.some.injEq, Prod.mk.injEq] at hc
      obtain ⟨rfl, rfl⟩ := hc
      rw [at_append] at hat
      have h1 := ihE env x cs ix _ hx p hat.1 hpool fr bO bI hF st hB
      simp only [evalExpr]
      refine (EGoal.bind1 C (p' := p + isize ix + 1) h1 ?_).cast C (by pcarith)
      intro v _
      cases v with
      | str s => exact reaches_step C.fx C.venv C.f (fr := fr) (hd := hat.2.1) (hs := step_len (st := st) s)
      | _ => trivial
  · intro env x cs is cs' hc p hat hpool fr bO bI hF st hB
    ucomp at hc
    obtain ⟨ix, s1, hx, rfl, rfl⟩ := hc
    rw [at_append] at hat
    have h1 := ihE env x cs ix _ hx p hat.1 hpool fr bO bI hF st hB
    simp only [evalExpr]
    refine (EGoal.bind1 C (p' := p + isize ix + 1) h1 ?_).cast C (by pcarith)
    intro v _
    cases v with
    | bool b => exact reaches_step C.fx C.venv C.f (fr := fr) (hd := hat.2.1) (hs := step_not (st := st) b)
    | _ => trivial

theorem simE_slice2 (n : Nat) (ihE : SimE C n) :
    (∀ env xty x hi cs is cs', compE C.fx C.cenv C.fn (.sliceTo xty x hi) cs = some (is, cs') →
      ∀ p, At C.f.code p is → PoolOK cs' C.f → ∀ fr bO bI, FrameOK C.fn cs.locals env fr bO bI → ∀ st, BaseOf st bO bI →
      EGoal C (evalExpr C.P (n + 1) env (.sliceTo xty x hi)) fr p (p + isize is) st) ∧
    (∀ env xty x lo cs is cs', compE C.fx C.cenv C.fn (.sliceFrom xty x lo) cs = some (is, cs') →
      ∀ p, At C.f.code p is → PoolOK cs' C.f → ∀ fr bO bI, FrameOK C.fn cs.locals env fr bO bI → ∀ st, BaseOf st bO bI →
      EGoal C (evalExpr C.P (n + 1) env (.sliceFrom xty x lo)) fr p (p + isize is) st) := by
  refine ⟨?_, ?_⟩
  · intro env xty x hi cs is cs' hc p hat hpool fr bO bI hF st hB
    simp only [compE] at hc
    split at hc
    · simp at hc
    · ucomp at hc
      obtain ⟨ix, s1, hx, iy, s2, hy, rfl, rfl⟩ := hc
      rw [at_append, at_append] at hat
      obtain ⟨⟨hatx, haty⟩, hati⟩ := hat
      have my := compE_mono _ _ _ hy
      have mx := compE_mono _ _ _ hx
      have h1 := ihE env x cs ix _ hx p hatx (hpool.of_mono my) fr bO bI hF st hB
      simp only [evalExpr]
      refine (EGoal.bind2 C (p2 := p + isize ix + isize iy) (p' := p + isize ix + isize iy + 1) h1 ?_ ?_).cast C (by pcarith)
      · intro a _
        exact ihE env hi s1 iy _ hy _ haty hpool fr bO bI (frameOK_locals mx.1 hF) _ (hB.pushVal a)
      · intro a b _ _
        cases a with
        | str s =>
          cases b with
          | int h => exact sliceVal_goal C (hd := decodeAt_cast hati.1 (by pcarith)) (hs := step_sliceTo (st := st) s h)
          | _ => trivial
        | _ => trivial
  · intro env xty x lo cs is cs' hc p hat hpool fr bO bI hF st hB
    simp only [compE] at hc
    split at hc
    · simp at hc
    · ucomp at hc
      obtain ⟨ix, s1, hx, iy, s2, hy, rfl, rfl⟩ := hc
      rw [at_append, at_append] at hat
      obtain ⟨⟨hatx, haty⟩, hati⟩ := hat
      have my := compE_mono _ _ _ hy
      have mx := compE_mono _ _ _ hx
      have h1 := ihE env x cs ix _ hx p hatx (hpool.of_mono my) fr bO bI hF st hB
      simp only [evalExpr]
      refine (EGoal.bind2 C (p2 := p + isize ix + isize iy) (p' := p + isize ix + isize iy + 1) h1 ?_ ?_).cast C (by pcarith)
      · intro a _
        exact ihE env lo s1 iy _ hy _ haty hpool fr bO bI (frameOK_locals mx.1 hF) _ (hB.pushVal a)
      · intro a b _ _
        cases a with
        | str s =>
          cases b with
          | int l => exact sliceVal_goal C (hd := decodeAt_cast hati.1 (by pcarith)) (hs := step_sliceFrom (st := st) s l)
          | _ => trivial
        | _ => trivial

theorem simE_slice3 (n : Nat) (ihE : SimE C n) :
    (∀ env xty x lo hi cs is cs', compE C.fx C.cenv C.fn (.slice xty x lo hi) cs = some (is, cs') →
      ∀ p, At C.f.code p is → PoolOK cs' C.f → ∀ fr bO bI, FrameOK C.fn cs.locals env fr bO bI → ∀ st, BaseOf st bO bI →
      EGoal C (evalExpr C.P (n + 1) env (.slice xty x lo hi)) fr p (p + isize is) st) := by
  intro env xty x lo hi cs is cs' hc p hat hpool fr bO bI hF st hB
  simp only [compE] at hc
  split at hc
  · simp at hc
  · ucomp at hc
    obtain ⟨ix, s1, hx, iy, s2, hy, iz, s3, hz, rfl, rfl⟩ := hc
    rw [at_append, at_append, at_append] at hat
    obtain ⟨⟨⟨hatx, haty⟩, hatz⟩, hati⟩ := hat
    have mz := compE_mono _ _ _ hz
    have my := compE_mono _ _ _ hy
    have mx := compE_mono _ _ _ hx
    have h1 := ihE env x cs ix _ hx p hatx (hpool.of_mono (my.trans mz)) fr bO bI hF st hB
    simp only [evalExpr]
    refine (EGoal.bind3 C (p2 := p + isize ix + isize iy) (p3 := p + isize ix + isize iy + isize iz)
      (p' := p + isize ix + isize iy + isize iz + 1) h1 ?_ ?_ ?_).cast C (by pcarith)
    · intro a _
      exact ihE env lo s1 iy _ hy _ haty (hpool.of_mono mz) fr bO bI (frameOK_locals mx.1 hF) _ (hB.pushVal a)
    · intro a b _ _
      exact ihE env hi s2 iz _ hz _ (hatz.pc_cast (by pcarith)) hpool fr bO bI (frameOK_locals (my.1.trans mx.1) hF) _
        ((hB.pushVal a).pushVal b)
    · intro a b c _ _ _
      cases a with
      | str s =>
        cases b with
        | int l =>
          cases c with
          | int h => exact sliceVal_goal C (hd := decodeAt_cast hati.1 (by pcarith)) (hs := step_slice (st := st) s l h)
          | _ => trivial
        | _ => cases c <;> trivial
      | _ => cases b <;> cases c <;> trivial

/-- expressions: `n + 1` units of fuel, given `n` units for expressions and calls -/
theorem simE_step (hfx : FxOK C.fx) (n : Nat) (ihE : SimE C n) (ihC : SimCall C n) : SimE C (n + 1) := by
  intro env e cs is cs' hc p hat hpool fr bO bI hF st hB
  cases e with
  | cint v =>
    simp only [evalExpr, EGoal]
    ucomp at hc
    obtain ⟨a, ha, rfl, rfl⟩ := hc
    obtain ⟨rfl, _⟩ := op8_eq hfx.range ha
    have hv := prefix_get hpool.2 (internIn_spec v cs.intConsts rfl).2
    exact (reaches_step C.fx C.venv C.f (fr := fr) (st := st) (hd := hat.1) (hs := step_pushIntConst hv)).pc_cast rfl (by pcarith)
  | cstr v =>
    simp only [evalExpr, EGoal]
    ucomp at hc
    obtain ⟨a, ha, rfl, rfl⟩ := hc
    obtain ⟨rfl, _⟩ := op8_eq hfx.range ha
    have hv := prefix_get hpool.1 (internIn_spec v cs.consts rfl).2
    exact (reaches_step C.fx C.venv C.f (fr := fr) (st := st) (hd := hat.1) (hs := step_pushConst hv)).pc_cast rfl (by pcarith)
  | cbool v l =>
    simp only [evalExpr, EGoal]
    ucomp at hc
    obtain ⟨rfl, rfl⟩ := hc
    exact (reaches_step C.fx C.venv C.f (fr := fr) (st := st) (hd := hat.1) (hs := step_pushBool v)).pc_cast rfl (by pcarith)
  | cbad => simp [compE] at hc
  | nil => simp [compE] at hc
  | bad => simp [compE] at hc
  | ident x ty => exact simE_ident C hfx n env x ty cs is cs' hc p hat fr bO bI hF st hB
  | not x => exact (simE_slices C n ihE).2.2 env x cs is cs' hc p hat hpool fr bO bI hF st hB
  | bin op ty x y =>
    by_cases h1 : op = .lor
    · subst h1
      exact simE_short C hfx n ihE env true ty x y cs is cs' hc p hat hpool fr bO bI hF st hB
    · by_cases h2 : op = .land
      · subst h2
        exact simE_short C hfx n ihE env false ty x y cs is cs' hc p hat hpool fr bO bI hF st hB
      · exact simE_bin C n ihE env op ⟨h1, h2⟩ ty x y cs is cs' hc p hat hpool fr bO bI hF st hB
  | sliceAll x => exact (simE_slices C n ihE).1 env x cs is cs' hc p hat hpool fr bO bI hF st hB
  | sliceTo xty x hi => exact (simE_slice2 C n ihE).1 env xty x hi cs is cs' hc p hat hpool fr bO bI hF st hB
  | sliceFrom xty x lo => exact (simE_slice2 C n ihE).2 env xty x lo cs is cs' hc p hat hpool fr bO bI hF st hB
  | slice xty x lo hi => exact simE_slice3 C n ihE env xty x lo hi cs is cs' hc p hat hpool fr bO bI hF st hB
  | len xty x => exact (simE_slices C n ihE).2.1 env xty x cs is cs' hc p hat hpool fr bO bI hF st hB
  | call ci recv args =>
    have h := ihC env ci recv args cs is cs' hc p hat hpool fr bO bI hF st hB
    simp only [evalExpr]
    cases hv : evalCall C.P n env ci recv args with
    | ok vs =>
      simp only [hv, CGoal] at h
      replace h := h.2
      simp only [SpecC04.Out.bind_ok]
      cases vs with
      | nil => simp [SpecC04.one, EGoal]
      | cons v rest =>
        cases rest with
        | nil => simpa [SpecC04.one, EGoal, pushVals] using h
        | cons _ _ => simp [SpecC04.one, EGoal]
    | panic q => simpa [hv, CGoal, EGoal, bind, SpecC04.Out.bind] using h
    | _ => simp [EGoal, bind, SpecC04.Out.bind]

end Q
