import Rg.Proofs.XTypes
/-!
# `xtypes.Identical` is symmetric (repaired code: all trees; code as it stands: alias-free trees)

`flagsOK E t`: every `exported` flag in `t` is `E name` (`E` = `token.IsExported`, a function of the name).
-/
open XTypes

namespace XTypes

mutual
def flagsOK (E : String → Bool) : Ty → Bool
  | .nil => true
  | .basic _ => true
  | .array _ e => flagsOK E e
  | .slice e => flagsOK E e
  | .ptr e => flagsOK E e
  | .map k e => flagsOK E k && flagsOK E e
  | .chan _ e => flagsOK E e
  | .tuple es => flagsOKList E es
  | .sig _ tps p r => flagsOKList E tps && flagsOK E p && flagsOK E r
  | .field n _ ex _ _ ty => (ex == E n) && flagsOK E ty
  | .struct fs => flagsOKList E fs
  | .method n _ ex ty => (ex == E n) && flagsOK E ty
  | .iface _ _ ms es => flagsOKList E ms && flagsOKList E es
  | .named _ _ _ n ex _ ts => (ex == E n) && flagsOKList E ts
  | .alias _ _ t => flagsOK E t
  | .tparam _ _ => true
  | .term _ t => flagsOK E t
  | .union _ ts => flagsOKList E ts
def flagsOKList (E : String → Bool) : List Ty → Bool
  | [] => true
  | a :: as => flagsOK E a && flagsOKList E as
end

theorem flagsOK_unalias (E) (y : Ty) : flagsOK E (unalias y) = flagsOK E y :=
  pred_unalias _ (by intros; simp [flagsOK]) y

theorem flagsOK_norm (E) (fx : Bool) (y : Ty) : flagsOK E (norm fx y) = flagsOK E y := by
  cases fx <;> simp [norm, flagsOK_unalias]

theorem notAlias_norm {fx : Bool} {y : Ty} (h : (fx || noAlias y) = true) : notAlias (norm fx y) = true := by
  rw [norm_eq_unalias h]; exact notAlias_unalias y

theorem noAlias_norm {fx : Bool} {y : Ty} (h : (fx || noAlias y) = true) : (fx || noAlias (norm fx y)) = true := by
  rw [norm_eq_unalias h]; exact noAlias_or_unalias h

/-- the left operand may be unaliased beforehand (after the fix), resp. is alias-free (as it stands) -/
theorem tidC_norm_left (fx : Bool) : ∀ (x y' : Ty), (fx || noAlias x) = true → notAlias y' = true →
    tidC fx (norm fx x) y' = tidC fx x y'
  | .alias u o t, y', hx, hy => by
    cases fx
    · simp [noAlias] at hx
    · have hne : ¬ (Ty.alias u o t = y') := by rintro rfl; simp [notAlias] at hy
      conv => rhs; unfold tidC
      rw [if_neg hne]
      simp only [norm, if_true, unalias]
      have := tidC_norm_left true t y' (by simp) hy
      simpa [norm] using this
  | .nil, _, _, _ | .basic _, _, _, _ | .array .., _, _, _ | .slice _, _, _, _ | .ptr _, _, _, _
  | .map .., _, _, _ | .chan .., _, _, _ | .tuple _, _, _, _ | .sig .., _, _, _ | .field .., _, _, _
  | .struct _, _, _, _ | .method .., _, _, _ | .iface .., _, _, _ | .named .., _, _, _
  | .tparam .., _, _, _ | .term .., _, _, _ | .union .., _, _, _ => by
    cases fx <;> simp [norm, unalias]

theorem beq_comm' {α : Type} [BEq α] [LawfulBEq α] (a b : α) : (a == b) = (b == a) := by
  rw [Bool.eq_iff_iff]; simp only [beq_iff_eq]; exact eq_comm

theorem sameID_symm {E : String → Bool} {n n' : String} {ex ex' : Bool} (p p' : Option String)
    (h : ex = E n) (h' : ex' = E n') : sameID n ex p p' n' = sameID n' ex' p' p n := by
  rw [sameID_eq_sameIdent, sameID_eq_sameIdent]
  unfold SpecC14.sameIdent
  by_cases hn : n = n'
  · subst hn; subst h h'
    rw [beq_comm' p p']
  · have h1 : (n == n') = false := by simpa using hn
    have h2 : (n' == n) = false := by simpa using fun e : n' = n => hn e.symm
    rw [h1, h2]; rfl

theorem sameDecl_symm (n : String) (l : Bool) (p : Option String) (n' : String) (l' : Bool) (p' : Option String) :
    sameDecl n l p n' l' p' = sameDecl n' l' p' n l p := by
  unfold sameDecl
  rw [beq_comm' n n']
  cases p <;> cases p' <;> cases l <;> cases l' <;> simp
  rename_i a b
  rw [beq_comm' a b]

section
variable {fx : Bool} {E : String → Bool}

-- prelude of a constructor case of `symmC`: the right operand is reduced to its shape; the impossible
-- (`alias`) and the off-diagonal shapes are closed, the diagonal one is left.
set_option hygiene false in
macro "symm_cases" x:term : tactic => `(tactic| (
  have hfy' := (flagsOK_norm E fx y).trans hfy
  have hny := notAlias_norm hay
  have hay' := noAlias_norm hay
  have hxx : norm fx $x = $x := by cases fx <;> simp [norm, unalias]
  rw [hxx]
  cases hy : norm fx y <;> simp only [hy] at hfy' hny hay' ⊢
  all_goals try (simp [notAlias] at hny; done)
  all_goals try (unfold tidC; simp; done)))

-- the diagonal case: equal trees are trivially symmetric; otherwise both sides take their `match` arm
set_option hygiene false in
macro "symm_diag" a:term "," b:term : tactic => `(tactic| (
  by_cases h : $a = $b
  · rw [h]
  have h' : ¬ $b = $a := fun e => h e.symm
  unfold tidC
  rw [if_neg h, if_neg h']
  simp only []))

-- the same for shapes without a `match` arm (both sides fall through to `false`)
set_option hygiene false in
macro "symm_diag0" a:term "," b:term : tactic => `(tactic| (
  by_cases h : $a = $b
  · rw [h]
  have h' : ¬ $b = $a := fun e => h e.symm
  unfold tidC
  rw [if_neg h, if_neg h']))

mutual
theorem symmC : ∀ (x y : Ty), flagsOK E x = true → flagsOK E y = true →
    (fx || noAlias x) = true → (fx || noAlias y) = true →
    tidC fx (norm fx x) (norm fx y) = tidC fx (norm fx y) (norm fx x)
  | .nil, y, hfx, hfy, hax, hay => by
    symm_cases Ty.nil
  | .basic k, y, hfx, hfy, hax, hay => by
    symm_cases (Ty.basic k)
    rename_i k'
    symm_diag (Ty.basic k), (Ty.basic k')
    exact beq_comm' k k'
  | .array n e, y, hfx, hfy, hax, hay => by
    symm_cases (Ty.array n e)
    rename_i n' e'
    symm_diag (Ty.array n e), (Ty.array n' e')
    simp only [flagsOK, noAlias] at hfx hfy' hax hay'
    rw [← tidC_norm_left fx e _ hax (notAlias_norm hay'), ← tidC_norm_left fx e' _ hay' (notAlias_norm hax),
      symmC e e' hfx hfy' hax hay', beq_comm' n n', Bool.or_comm (decide (n < 0))]
  | .slice e, y, hfx, hfy, hax, hay => by
    symm_cases (Ty.slice e)
    rename_i e'
    symm_diag (Ty.slice e), (Ty.slice e')
    simp only [flagsOK, noAlias] at hfx hfy' hax hay'
    rw [← tidC_norm_left fx e _ hax (notAlias_norm hay'), ← tidC_norm_left fx e' _ hay' (notAlias_norm hax),
      symmC e e' hfx hfy' hax hay']
  | .ptr e, y, hfx, hfy, hax, hay => by
    symm_cases (Ty.ptr e)
    rename_i e'
    symm_diag (Ty.ptr e), (Ty.ptr e')
    simp only [flagsOK, noAlias] at hfx hfy' hax hay'
    rw [← tidC_norm_left fx e _ hax (notAlias_norm hay'), ← tidC_norm_left fx e' _ hay' (notAlias_norm hax),
      symmC e e' hfx hfy' hax hay']
  | .map k e, y, hfx, hfy, hax, hay => by
    symm_cases (Ty.map k e)
    rename_i k' e'
    symm_diag (Ty.map k e), (Ty.map k' e')
    simp only [flagsOK, noAlias, Bool.and_eq_true] at hfx hfy' hax hay'
    obtain ⟨hax1, hax2⟩ := fx_or_and hax
    obtain ⟨hay1, hay2⟩ := fx_or_and hay'
    rw [← tidC_norm_left fx k _ hax1 (notAlias_norm hay1), ← tidC_norm_left fx k' _ hay1 (notAlias_norm hax1),
      ← tidC_norm_left fx e _ hax2 (notAlias_norm hay2), ← tidC_norm_left fx e' _ hay2 (notAlias_norm hax2),
      symmC k k' hfx.1 hfy'.1 hax1 hay1, symmC e e' hfx.2 hfy'.2 hax2 hay2]
  | .chan d e, y, hfx, hfy, hax, hay => by
    symm_cases (Ty.chan d e)
    rename_i d' e'
    symm_diag (Ty.chan d e), (Ty.chan d' e')
    simp only [flagsOK, noAlias] at hfx hfy' hax hay'
    rw [← tidC_norm_left fx e _ hax (notAlias_norm hay'), ← tidC_norm_left fx e' _ hay' (notAlias_norm hax),
      symmC e e' hfx hfy' hax hay', beq_comm' d d']
  | .tuple es, y, hfx, hfy, hax, hay => by
    symm_cases (Ty.tuple es)
    rename_i es'
    symm_diag (Ty.tuple es), (Ty.tuple es')
    simp only [flagsOK, noAlias] at hfx hfy' hax hay'
    exact symmList es es' hfx hfy' hax hay'
  | .sig v tps p r, y, hfx, hfy, hax, hay => by
    symm_cases (Ty.sig v tps p r)
    rename_i v' tps' p' r'
    symm_diag (Ty.sig v tps p r), (Ty.sig v' tps' p' r')
    simp only [flagsOK, noAlias, Bool.and_eq_true] at hfx hfy' hax hay'
    obtain ⟨hax0, hax2⟩ := fx_or_and hax
    obtain ⟨_, hax1⟩ := fx_or_and hax0
    obtain ⟨hay0, hay2⟩ := fx_or_and hay'
    obtain ⟨_, hay1⟩ := fx_or_and hay0
    rw [← tidC_norm_left fx p _ hax1 (notAlias_norm hay1), ← tidC_norm_left fx p' _ hay1 (notAlias_norm hax1),
      ← tidC_norm_left fx r _ hax2 (notAlias_norm hay2), ← tidC_norm_left fx r' _ hay2 (notAlias_norm hax2),
      symmC p p' hfx.1.2 hfy'.1.2 hax1 hay1, symmC r r' hfx.2 hfy'.2 hax2 hay2, beq_comm' v v']
  | .field n p ex em tg ty, y, hfx, hfy, hax, hay => by
    symm_cases (Ty.field n p ex em tg ty)
    rename_i n' p' ex' em' tg' ty'
    symm_diag0 (Ty.field n p ex em tg ty), (Ty.field n' p' ex' em' tg' ty')
  | .struct fs, y, hfx, hfy, hax, hay => by
    symm_cases (Ty.struct fs)
    rename_i fs'
    symm_diag (Ty.struct fs), (Ty.struct fs')
    simp only [flagsOK, noAlias] at hfx hfy' hax hay'
    exact symmFields fs fs' hfx hfy' hax hay'
  | .method n p ex ty, y, hfx, hfy, hax, hay => by
    symm_cases (Ty.method n p ex ty)
    rename_i n' p' ex' ty'
    symm_diag0 (Ty.method n p ex ty), (Ty.method n' p' ex' ty')
  | .iface ms c mths es, y, hfx, hfy, hax, hay => by
    symm_cases (Ty.iface ms c mths es)
    rename_i ms' c' mths' es'
    symm_diag (Ty.iface ms c mths es), (Ty.iface ms' c' mths' es')
    simp only [flagsOK, noAlias, Bool.and_eq_true] at hfx hfy' hax hay'
    obtain ⟨hax1, _⟩ := fx_or_and hax
    obtain ⟨hay1, _⟩ := fx_or_and hay'
    exact symmMethods mths mths' hfx.1 hfy'.1 hax1 hay1
  | .named u o p n ex l ts, y, hfx, hfy, hax, hay => by
    symm_cases (Ty.named u o p n ex l ts)
    rename_i u' o' p' n' ex' l' ts'
    symm_diag (Ty.named u o p n ex l ts), (Ty.named u' o' p' n' ex' l' ts')
    simp only [flagsOK, noAlias, Bool.and_eq_true, beq_iff_eq] at hfx hfy' hax hay'
    rw [symmList ts ts' hfx.2 hfy'.2 hax hay', sameDecl_symm n l p n' l' p',
      sameID_symm p p' hfx.1 hfy'.1, beq_comm' u u', beq_comm' o o']
  | .alias u o t, y, hfx, hfy, hax, hay => by
    have hfxt : fx = true := by cases fx <;> simp_all [noAlias]
    have ih := symmC t y (by simpa [flagsOK] using hfx) hfy (by simp [hfxt]) hay
    have hn : norm fx (Ty.alias u o t) = norm fx t := by rw [hfxt]; simp [norm, unalias]
    rw [hn]; exact ih
  | .tparam u o, y, hfx, hfy, hax, hay => by
    symm_cases (Ty.tparam u o)
    rename_i u' o'
    symm_diag0 (Ty.tparam u o), (Ty.tparam u' o')
  | .term a t, y, hfx, hfy, hax, hay => by
    symm_cases (Ty.term a t)
    rename_i a' t'
    symm_diag0 (Ty.term a t), (Ty.term a' t')
  | .union i ts, y, hfx, hfy, hax, hay => by
    symm_cases (Ty.union i ts)
    rename_i i' ts'
    symm_diag0 (Ty.union i ts), (Ty.union i' ts')
theorem symmList : ∀ (as bs : List Ty), flagsOKList E as = true → flagsOKList E bs = true →
    (fx || noAliasList as) = true → (fx || noAliasList bs) = true → tidList fx as bs = tidList fx bs as
  | [], [], _, _, _, _ => rfl
  | [], _ :: _, _, _, _, _ => by simp [tidList]
  | _ :: _, [], _, _, _, _ => by simp [tidList]
  | a :: as, b :: bs, hfa, hfb, haa, hab => by
    simp only [flagsOKList, noAliasList, Bool.and_eq_true] at hfa hfb haa hab
    obtain ⟨haa1, haa2⟩ := fx_or_and haa
    obtain ⟨hab1, hab2⟩ := fx_or_and hab
    unfold tidList
    rw [← tidC_norm_left fx a _ haa1 (notAlias_norm hab1), ← tidC_norm_left fx b _ hab1 (notAlias_norm haa1),
      symmC a b hfa.1 hfb.1 haa1 hab1, symmList as bs hfa.2 hfb.2 haa2 hab2]
theorem symmFields : ∀ (fs gs : List Ty), flagsOKList E fs = true → flagsOKList E gs = true →
    (fx || noAliasList fs) = true → (fx || noAliasList gs) = true → tidFields fx fs gs = tidFields fx gs fs
  | [], [], _, _, _, _ => rfl
  | [], g :: _, _, _, _, _ => by cases g <;> simp [tidFields]
  | f :: fs, [], _, _, _, _ => by cases f <;> simp [tidFields]
  | .field n p ex em tg ty :: fs, g :: gs, hff, hfg, haf, hag => by
    cases g
    case field n' p' ex' em' tg' ty' =>
      simp only [flagsOKList, flagsOK, noAliasList, noAlias, Bool.and_eq_true, beq_iff_eq] at hff hfg haf hag
      obtain ⟨haf1, haf2⟩ := fx_or_and haf
      obtain ⟨hag1, hag2⟩ := fx_or_and hag
      unfold tidFields
      rw [← tidC_norm_left fx ty _ haf1 (notAlias_norm hag1), ← tidC_norm_left fx ty' _ hag1 (notAlias_norm haf1),
        symmC ty ty' hff.1.2 hfg.1.2 haf1 hag1, symmFields fs gs hff.2 hfg.2 haf2 hag2,
        sameID_symm p p' hff.1.1 hfg.1.1, beq_comm' em em', beq_comm' tg tg']
    all_goals simp [tidFields]
  | .nil :: _, g :: _, _, _, _, _ | .basic _ :: _, g :: _, _, _, _, _ | .array .. :: _, g :: _, _, _, _, _
  | .slice _ :: _, g :: _, _, _, _, _ | .ptr _ :: _, g :: _, _, _, _, _ | .map .. :: _, g :: _, _, _, _, _
  | .chan .. :: _, g :: _, _, _, _, _ | .tuple _ :: _, g :: _, _, _, _, _ | .sig .. :: _, g :: _, _, _, _, _
  | .struct _ :: _, g :: _, _, _, _, _ | .method .. :: _, g :: _, _, _, _, _ | .iface .. :: _, g :: _, _, _, _, _
  | .named .. :: _, g :: _, _, _, _, _ | .alias .. :: _, g :: _, _, _, _, _ | .tparam .. :: _, g :: _, _, _, _, _
  | .term .. :: _, g :: _, _, _, _, _ | .union .. :: _, g :: _, _, _, _, _ => by cases g <;> simp [tidFields]
theorem symmMethods : ∀ (fs gs : List Ty), flagsOKList E fs = true → flagsOKList E gs = true →
    (fx || noAliasList fs) = true → (fx || noAliasList gs) = true → tidMethods fx fs gs = tidMethods fx gs fs
  | [], [], _, _, _, _ => rfl
  | [], g :: _, _, _, _, _ => by cases g <;> simp [tidMethods]
  | f :: fs, [], _, _, _, _ => by cases f <;> simp [tidMethods]
  | .method n p ex ty :: fs, g :: gs, hff, hfg, haf, hag => by
    cases g
    case method n' p' ex' ty' =>
      simp only [flagsOKList, flagsOK, noAliasList, noAlias, Bool.and_eq_true, beq_iff_eq] at hff hfg haf hag
      obtain ⟨haf1, haf2⟩ := fx_or_and haf
      obtain ⟨hag1, hag2⟩ := fx_or_and hag
      unfold tidMethods
      rw [← tidC_norm_left fx ty _ haf1 (notAlias_norm hag1), ← tidC_norm_left fx ty' _ hag1 (notAlias_norm haf1),
        symmC ty ty' hff.1.2 hfg.1.2 haf1 hag1, symmMethods fs gs hff.2 hfg.2 haf2 hag2,
        beq_comm' (funcId n ex p)]
    all_goals simp [tidMethods]
  | .nil :: _, g :: _, _, _, _, _ | .basic _ :: _, g :: _, _, _, _, _ | .array .. :: _, g :: _, _, _, _, _
  | .slice _ :: _, g :: _, _, _, _, _ | .ptr _ :: _, g :: _, _, _, _, _ | .map .. :: _, g :: _, _, _, _, _
  | .chan .. :: _, g :: _, _, _, _, _ | .tuple _ :: _, g :: _, _, _, _, _ | .sig .. :: _, g :: _, _, _, _, _
  | .struct _ :: _, g :: _, _, _, _, _ | .field .. :: _, g :: _, _, _, _, _ | .iface .. :: _, g :: _, _, _, _, _
  | .named .. :: _, g :: _, _, _, _, _ | .alias .. :: _, g :: _, _, _, _, _ | .tparam .. :: _, g :: _, _, _, _, _
  | .term .. :: _, g :: _, _, _, _, _ | .union .. :: _, g :: _, _, _, _, _ => by cases g <;> simp [tidMethods]
end

/-- `xtypes.Identical` (variant `fx`) is symmetric — for the code as it stands on alias-free trees only. -/
theorem tid_symm (x y : Ty) (hfx : flagsOK E x = true) (hfy : flagsOK E y = true)
    (hax : (fx || noAlias x) = true) (hay : (fx || noAlias y) = true) : tid fx x y = tid fx y x := by
  unfold tid
  rw [← tidC_norm_left fx x _ hax (notAlias_norm hay), ← tidC_norm_left fx y _ hay (notAlias_norm hax)]
  exact symmC x y hfx hfy hax hay

end

end XTypes
