import Rg.Proofs.IRPrintTree
/-!
# The literal trees `L…` are canonical (so that `parseLit` reads their tokens back), and the
final composition `evalLit (printFile f) = some (normalize f)`.
-/
namespace IRProofs
open SpecC05 IR GoLit

def ocanon (o : Option Lit) : Prop := ∀ v, o = some v → canon v = true

theorem ocanon_none : ocanon none := by intro v h; cases h
theorem ocanon_some (v : Lit) (h : canon v = true) : ocanon (some v) := by
  intro w hw; cases hw; exact h

theorem canonElem_of_canon (e : Lit) (h : canon e = true) : canonElem e = true := by
  cases e with
  | keyed k v => simp [canon] at h
  | str b => rfl
  | int n => rfl
  | conv t n => rfl
  | sel p n => simpa [canon, canonElem] using h
  | comp ty es tc => simpa [canon, canonElem] using h

theorem canonEl_ents : ∀ (xs : Spec), (∀ p ∈ xs, ocanon p.2) → canonEl (ents xs) = true
  | [], _ => rfl
  | (k, none) :: xs, h => by
    rw [ents_cons_none]; exact canonEl_ents xs (fun p hp => h p (by simp [hp]))
  | (k, some v) :: xs, h => by
    rw [ents_cons_some]
    have hv : canon v = true := h (k, some v) (by simp) v rfl
    have ih := canonEl_ents xs (fun p hp => h p (by simp [hp]))
    simp [canonEl, canonElem, hv, ih]

theorem canonEl_map {α} (L : α → Lit) : ∀ (l : List α), (∀ a ∈ l, canon (L a) = true) → canonEl (l.map L) = true
  | [], _ => rfl
  | a :: l, h => by
    have h1 := canonElem_of_canon (L a) (h a (by simp))
    have h2 := canonEl_map L l (fun b hb => h b (by simp [hb]))
    simp [canonEl, h1, h2]

theorem canon_struct (ty : Option Ty) (xs : Spec) (h : ∀ p ∈ xs, ocanon p.2) : canon (.comp ty (ents xs) true) = true := by
  simp [canon, canonEl_ents xs h]

theorem ocanon_oInt (n : Int) : ocanon (oInt n) := by
  unfold oInt; split
  · exact ocanon_none
  · exact ocanon_some _ rfl

theorem ocanon_oStr (b : Bytes) : ocanon (oStr b) := by
  unfold oStr; split
  · exact ocanon_none
  · exact ocanon_some _ rfl

theorem ocanon_oOp (o : Nat) : ocanon (oOp o) := by
  unfold oOp; split
  · exact ocanon_none
  · exact ocanon_some _ rfl

theorem ocanon_oVal (v : Val) : ocanon (oVal v) := by
  cases v with
  | nil => exact ocanon_none
  | str b => exact ocanon_some _ rfl
  | int64 n => exact ocanon_some _ rfl

theorem ocanon_oSlice (ty : Ty) (isNil se : Bool) (es : List Lit) (h : canonEl es = true) :
    ocanon (oSlice ty isNil es (sliceTc se es.length)) := by
  unfold oSlice; split
  · exact ocanon_none
  · apply ocanon_some
    cases es with
    | nil => simp [canon, canonEl, sliceTc]
    | cons e r => simp [canon, h]

theorem canon_LPattern (p : PatternString) : canon (LPattern p) = true := by
  simp [LPattern, canon, canonEl, canonElem, ents]

theorem canon_LBundle (b : BundleImport) : canon (LBundle b) = true := by
  simp [LBundle, canon, canonEl, canonElem, ents]

theorem canon_LImport (i : PackageImport) : canon (LImport i) = true := by
  unfold LImport
  apply canon_struct
  intro p hp
  simp only [List.mem_cons, List.mem_nil_iff, or_false] at hp
  rcases hp with rfl | rfl <;> exact ocanon_oStr _

mutual
theorem canon_LFilter : ∀ (e : FilterExpr) (inList : Bool), canon (LFilter inList e) = true
  | .mk l o s v as nn, inList => by
    unfold LFilter
    split
    · simp [canon, canonEl, canonElem, ents]
    · apply canon_struct
      intro p hp
      simp only [List.mem_cons, List.mem_nil_iff, or_false] at hp
      have hl := canonEl_LFilterList as
      rcases hp with rfl | rfl | rfl | rfl | rfl
      · exact ocanon_oInt _
      · exact ocanon_oOp _
      · exact ocanon_oStr _
      · exact ocanon_oVal _
      · have := ocanon_oSlice (irTy "FilterExpr") (as.isEmpty && !nn) false (LFilterList as) hl
        rw [LFilterList_length] at this
        exact this
theorem canonEl_LFilterList : ∀ (as : List FilterExpr), canonEl (LFilterList as) = true
  | [] => by unfold LFilterList; rfl
  | a :: as => by
    have h1 := canonElem_of_canon _ (canon_LFilter a true)
    have h2 := canonEl_LFilterList as
    unfold LFilterList
    simp [canonEl, h1, h2]
end

theorem ocanon_oFilter (e : FilterExpr) : ocanon (oFilter e) := by
  unfold oFilter; split
  · exact ocanon_none
  · exact ocanon_some _ (canon_LFilter e false)

theorem ocanon_mapSlice {α} (ty : Ty) (se : Bool) (s : Sl α) (L : α → Lit) (h : ∀ a, canon (L a) = true) :
    ocanon (oSlice ty s.isNil (s.elems.map L) (sliceTc se s.elems.length)) := by
  have := ocanon_oSlice ty s.isNil se (s.elems.map L) (canonEl_map L _ (fun a _ => h a))
  simpa using this

theorem canon_LRule (r : Rule) : canon (LRule r) = true := by
  unfold LRule
  apply canon_struct
  intro p hp
  simp only [List.mem_cons, List.mem_nil_iff, or_false] at hp
  rcases hp with rfl | rfl | rfl | rfl | rfl | rfl | rfl | rfl
  · exact ocanon_oInt _
  · exact ocanon_mapSlice _ _ _ _ canon_LPattern
  · exact ocanon_mapSlice _ _ _ _ canon_LPattern
  · exact ocanon_oStr _
  · exact ocanon_oStr _
  · exact ocanon_oStr _
  · exact ocanon_oFilter _
  · exact ocanon_oStr _

theorem canon_LGroup (g : RuleGroup) : canon (LGroup g) = true := by
  unfold LGroup
  apply canon_struct
  intro p hp
  simp only [List.mem_cons, List.mem_nil_iff, or_false] at hp
  rcases hp with rfl | rfl | rfl | rfl | rfl | rfl | rfl | rfl | rfl | rfl
  · exact ocanon_oInt _
  · exact ocanon_oStr _
  · exact ocanon_oStr _
  · exact ocanon_mapSlice _ _ _ _ (fun _ => rfl)
  · exact ocanon_oStr _
  · exact ocanon_oStr _
  · exact ocanon_oStr _
  · exact ocanon_oStr _
  · exact ocanon_mapSlice _ _ _ _ canon_LImport
  · exact ocanon_mapSlice _ _ _ _ canon_LRule

theorem canon_LFile (f : File) : canon (LFile f) = true := by
  unfold LFile
  apply canon_struct
  intro p hp
  simp only [List.mem_cons, List.mem_nil_iff, or_false] at hp
  rcases hp with rfl | rfl | rfl | rfl
  · exact ocanon_some _ rfl
  · apply ocanon_some
    simp [canon, canonEl_map LStrElem _ (fun _ _ => rfl)]
  · apply ocanon_some
    simp [canon, canonEl_map LBundle _ (fun a _ => canon_LBundle a)]
  · exact ocanon_mapSlice _ _ _ _ canon_LGroup

/-- **Round trip, fixed printer**: for every IR value of the schema, the printed tokens evaluate
back to the value (nil and empty slices identified). -/
theorem roundtrip_fixed (f : File) (h : wfFile f = true) :
    ∃ ts, printFile f = .ok ts ∧ evalLit ts = some (normalize f) := by
  refine ⟨flatten (LFile f), printFile_eq f h, ?_⟩
  unfold evalLit
  have hp := parse_flatten (LFile f) (canon_LFile f) ((flatten (LFile f)).length + 1) [] (by omega) (by intro r h; cases h)
  rw [List.append_nil] at hp
  rw [hp]
  exact interp_LFile f h

end IRProofs
