import Rg.Proofs.SpecC10
/-!
# `Rules.repaired` and `Rules.strict` read a pattern alike on types without generic instantiations
-/
open XTypes TypeMatch
open SpecC10 (Denotes DenotesSeq Rules)

namespace TypeMatch

mutual
/-- no instantiated generic named type at any position a pattern can reach -/
def noInst : Ty → Bool
  | .named _ _ _ _ _ _ ts => ts.isEmpty
  | .array _ e => noInst e
  | .slice e => noInst e
  | .ptr e => noInst e
  | .chan _ e => noInst e
  | .map k e => noInst k && noInst e
  | .tuple es => noInstList es
  | .sig _ _ p r => noInst p && noInst r
  | .field _ _ _ _ _ ty => noInst ty
  | .struct fs => noInstList fs
  | .alias _ _ t => noInst t
  | _ => true
def noInstList : List Ty → Bool
  | [] => true
  | a :: as => noInst a && noInstList as
end

theorem noInst_unalias (t : Ty) : noInst (unalias t) = noInst t :=
  pred_unalias _ (by intros; simp [noInst]) t

theorem noInst_mem : ∀ {es : List Ty}, noInstList es = true → ∀ e ∈ es, noInst e = true
  | [], _, e, he => by simp at he
  | a :: as, h, e, he => by
    simp only [noInstList, Bool.and_eq_true] at h
    rcases List.mem_cons.mp he with rfl | he
    · exact h.1
    · exact noInst_mem h.2 e he

theorem noInst_tupleElems {t : Ty} (h : noInst t = true) : ∀ e ∈ tupleElems t, noInst e = true := by
  intro e he
  cases t <;> simp only [tupleElems, List.not_mem_nil] at he
  simp only [noInst] at h
  exact noInst_mem h e he

theorem noInst_fieldTypes : ∀ (fs : List Ty), noInstList fs = true → ∀ e ∈ fieldTypes fs, noInst e = true
  | [], _, e, he => by simp [fieldTypes] at he
  | f :: fs, h, e, he => by
    simp only [noInstList, Bool.and_eq_true] at h
    have ih := noInst_fieldTypes fs h.2
    cases f
    case field n p x m tg ty =>
      simp only [fieldTypes, List.mem_cons] at he
      rcases he with rfl | he
      · simpa [noInst] using h.1
      · exact ih e he
    all_goals
      simp only [fieldTypes, List.mem_cons] at he
      rcases he with rfl | he
      · exact h.1
      · exact ih e he

theorem unaliasTarget_strict (t : Ty) : SpecC10.unaliasTarget Rules.strict t = unalias t := by
  rw [unaliasTarget_eq]; rfl

theorem stripVendor_strict (path : String) : SpecC10.stripVendor Rules.strict path = vendorStrip path := by
  unfold SpecC10.stripVendor vendorStrip
  simp only [Rules.strict, if_true]
  rfl

section
variable {I : Ty → Ty → Bool} {σ : MState}

mutual
/-- the strict reading implies the repaired one (it only adds the clause on instantiations) -/
theorem denotes_repaired_of_strict : ∀ (p : Pat) (t : Ty), Denotes I Rules.strict σ p t → Denotes I Rules.repaired σ p t
  | .var name, t, h => by
    cases h with
    | wild => exact .wild t
    | var _ y _ h1 h2 => exact .var name y t h1 h2
  | .builtin b, t, h => by cases h with | builtin _ _ h1 => exact .builtin b t h1
  | .varSeq, t, h => by cases h
  | .ptr e, t, h => by
    cases h with
    | ptr _ _ a hu hd =>
      rw [unaliasTarget_strict] at hu
      exact .ptr e t a (by rw [unaliasTarget_repaired, hu]) (denotes_repaired_of_strict e a hd)
  | .slice e, t, h => by
    cases h with
    | slice _ _ a hu hd =>
      rw [unaliasTarget_strict] at hu
      exact .slice e t a (by rw [unaliasTarget_repaired, hu]) (denotes_repaired_of_strict e a hd)
  | .arrayVar v e, t, h => by
    cases h with
    | arrayWild _ _ n a hu hd =>
      rw [unaliasTarget_strict] at hu
      exact .arrayWild e t n a (by rw [unaliasTarget_repaired, hu]) (denotes_repaired_of_strict e a hd)
    | arrayVar _ _ _ n a hu hl hd =>
      rw [unaliasTarget_strict] at hu
      exact .arrayVar v e t n a (by rw [unaliasTarget_repaired, hu]) hl (denotes_repaired_of_strict e a hd)
  | .arrayLit len e, t, h => by
    cases h with
    | arrayLit _ _ _ a hu hd =>
      rw [unaliasTarget_strict] at hu
      exact .arrayLit e t len a (by rw [unaliasTarget_repaired, hu]) (denotes_repaired_of_strict e a hd)
  | .map k v, t, h => by
    cases h with
    | map _ _ _ tk tv hu h1 h2 =>
      rw [unaliasTarget_strict] at hu
      exact .map k v t tk tv (by rw [unaliasTarget_repaired, hu]) (denotes_repaired_of_strict k tk h1)
        (denotes_repaired_of_strict v tv h2)
  | .chan d e, t, h => by
    cases h with
    | chan _ _ _ a hu hd =>
      rw [unaliasTarget_strict] at hu
      exact .chan d e t a (by rw [unaliasTarget_repaired, hu]) (denotes_repaired_of_strict e a hd)
  | .named pkg name, t, h => by
    cases h with
    | named _ _ _ u o path x l targs hu hs _ hl =>
      rw [unaliasTarget_strict] at hu
      rw [stripVendor_strict] at hs
      exact .named pkg name t u o path x l targs (by rw [unaliasTarget_repaired, hu])
        (by rw [stripVendor_repaired, hs]) (by simp [Rules.repaired]) (fun _ => hl rfl)
  | .funcNoSeq pps prs, t, h => by
    cases h with
    | funcNoSeq _ _ _ v tps params results hu hv ht h1 h2 =>
      rw [unaliasTarget_strict] at hu
      exact .funcNoSeq pps prs t v tps params results (by rw [unaliasTarget_repaired, hu]) (fun _ => hv rfl)
        (fun _ => ht rfl) (denotesSeq_repaired_of_strict pps _ h1) (denotesSeq_repaired_of_strict prs _ h2)
  | .func pps prs, t, h => by
    cases h with
    | func _ _ _ v tps params results hu hv ht h1 h2 =>
      rw [unaliasTarget_strict] at hu
      exact .func pps prs t v tps params results (by rw [unaliasTarget_repaired, hu]) (fun _ => hv rfl)
        (fun _ => ht rfl) (denotesSeq_repaired_of_strict pps _ h1) (denotesSeq_repaired_of_strict prs _ h2)
  | .structNoSeq subs, t, h => by
    cases h with
    | structNoSeq _ _ fs hu hd =>
      rw [unaliasTarget_strict] at hu
      exact .structNoSeq subs t fs (by rw [unaliasTarget_repaired, hu]) (denotesSeq_repaired_of_strict subs _ hd)
  | .struct subs, t, h => by
    cases h with
    | struct _ _ fs hu hd =>
      rw [unaliasTarget_strict] at hu
      exact .struct subs t fs (by rw [unaliasTarget_repaired, hu]) (denotesSeq_repaired_of_strict subs _ hd)
  | .anyIface, t, h => by
    cases h with
    | anyIface _ a c ms es hu =>
      rw [unaliasTarget_strict] at hu
      exact .anyIface t a c ms es (by rw [unaliasTarget_repaired, hu])
theorem denotesSeq_repaired_of_strict : ∀ (ps : List Pat) (ts : List Ty),
    DenotesSeq I Rules.strict σ ps ts → DenotesSeq I Rules.repaired σ ps ts
  | [], ts, h => by cases h; exact .nil
  | p :: ps, ts, h => by
    cases h with
    | run _ _ n hd => exact .run ps ts n (denotesSeq_repaired_of_strict ps _ hd)
    | cons _ _ t ts' h1 h2 =>
      exact .cons p ps t ts' (denotes_repaired_of_strict p t h1) (denotesSeq_repaired_of_strict ps ts' h2)
end

end

section
variable {I : Ty → Ty → Bool} {σ : MState}

theorem noInst_of_unalias {t u : Ty} (h : noInst t = true) (hu : unalias t = u) : noInst u = true := by
  rw [← hu, noInst_unalias]; exact h

mutual
/-- … and on types without instantiations the repaired reading implies the strict one -/
theorem denotes_strict_of_repaired : ∀ (p : Pat) (t : Ty), noInst t = true → Denotes I Rules.repaired σ p t →
    Denotes I Rules.strict σ p t
  | .var name, t, _, h => by
    cases h with
    | wild => exact .wild t
    | var _ y _ h1 h2 => exact .var name y t h1 h2
  | .builtin b, t, _, h => by cases h with | builtin _ _ h1 => exact .builtin b t h1
  | .varSeq, t, _, h => by cases h
  | .ptr e, t, hn, h => by
    cases h with
    | ptr _ _ a hu hd =>
      rw [unaliasTarget_repaired] at hu
      have hn' := noInst_of_unalias hn hu
      exact .ptr e t a (by rw [unaliasTarget_strict, hu]) (denotes_strict_of_repaired e a (by simpa [noInst] using hn') hd)
  | .slice e, t, hn, h => by
    cases h with
    | slice _ _ a hu hd =>
      rw [unaliasTarget_repaired] at hu
      have hn' := noInst_of_unalias hn hu
      exact .slice e t a (by rw [unaliasTarget_strict, hu]) (denotes_strict_of_repaired e a (by simpa [noInst] using hn') hd)
  | .arrayVar v e, t, hn, h => by
    cases h with
    | arrayWild _ _ n a hu hd =>
      rw [unaliasTarget_repaired] at hu
      have hn' := noInst_of_unalias hn hu
      exact .arrayWild e t n a (by rw [unaliasTarget_strict, hu])
        (denotes_strict_of_repaired e a (by simpa [noInst] using hn') hd)
    | arrayVar _ _ _ n a hu hl hd =>
      rw [unaliasTarget_repaired] at hu
      have hn' := noInst_of_unalias hn hu
      exact .arrayVar v e t n a (by rw [unaliasTarget_strict, hu]) hl
        (denotes_strict_of_repaired e a (by simpa [noInst] using hn') hd)
  | .arrayLit len e, t, hn, h => by
    cases h with
    | arrayLit _ _ _ a hu hd =>
      rw [unaliasTarget_repaired] at hu
      have hn' := noInst_of_unalias hn hu
      exact .arrayLit e t len a (by rw [unaliasTarget_strict, hu])
        (denotes_strict_of_repaired e a (by simpa [noInst] using hn') hd)
  | .map k v, t, hn, h => by
    cases h with
    | map _ _ _ tk tv hu h1 h2 =>
      rw [unaliasTarget_repaired] at hu
      have hn' := noInst_of_unalias hn hu
      simp only [noInst, Bool.and_eq_true] at hn'
      exact .map k v t tk tv (by rw [unaliasTarget_strict, hu]) (denotes_strict_of_repaired k tk hn'.1 h1)
        (denotes_strict_of_repaired v tv hn'.2 h2)
  | .chan d e, t, hn, h => by
    cases h with
    | chan _ _ _ a hu hd =>
      rw [unaliasTarget_repaired] at hu
      have hn' := noInst_of_unalias hn hu
      exact .chan d e t a (by rw [unaliasTarget_strict, hu]) (denotes_strict_of_repaired e a (by simpa [noInst] using hn') hd)
  | .named pkg name, t, hn, h => by
    cases h with
    | named _ _ _ u o path x l targs hu hs _ hl =>
      rw [unaliasTarget_repaired] at hu
      rw [stripVendor_repaired] at hs
      have hn' := noInst_of_unalias hn hu
      exact .named pkg name t u o path x l targs (by rw [unaliasTarget_strict, hu])
        (by rw [stripVendor_strict, hs]) (fun _ => by simpa [noInst] using hn') (fun _ => hl rfl)
  | .funcNoSeq pps prs, t, hn, h => by
    cases h with
    | funcNoSeq _ _ _ v tps params results hu hv ht h1 h2 =>
      rw [unaliasTarget_repaired] at hu
      have hn' := noInst_of_unalias hn hu
      simp only [noInst, Bool.and_eq_true] at hn'
      rw [tupleElems_eq] at h1 h2
      exact .funcNoSeq pps prs t v tps params results (by rw [unaliasTarget_strict, hu]) (fun _ => hv rfl)
        (fun _ => ht rfl)
        (by rw [tupleElems_eq]; exact denotesSeq_strict_of_repaired pps _ (noInst_tupleElems hn'.1) h1)
        (by rw [tupleElems_eq]; exact denotesSeq_strict_of_repaired prs _ (noInst_tupleElems hn'.2) h2)
  | .func pps prs, t, hn, h => by
    cases h with
    | func _ _ _ v tps params results hu hv ht h1 h2 =>
      rw [unaliasTarget_repaired] at hu
      have hn' := noInst_of_unalias hn hu
      simp only [noInst, Bool.and_eq_true] at hn'
      rw [tupleElems_eq] at h1 h2
      exact .func pps prs t v tps params results (by rw [unaliasTarget_strict, hu]) (fun _ => hv rfl)
        (fun _ => ht rfl)
        (by rw [tupleElems_eq]; exact denotesSeq_strict_of_repaired pps _ (noInst_tupleElems hn'.1) h1)
        (by rw [tupleElems_eq]; exact denotesSeq_strict_of_repaired prs _ (noInst_tupleElems hn'.2) h2)
  | .structNoSeq subs, t, hn, h => by
    cases h with
    | structNoSeq _ _ fs hu hd =>
      rw [unaliasTarget_repaired] at hu
      have hn' := noInst_of_unalias hn hu
      simp only [noInst] at hn'
      rw [fieldTypes_eq] at hd
      exact .structNoSeq subs t fs (by rw [unaliasTarget_strict, hu])
        (by rw [fieldTypes_eq]; exact denotesSeq_strict_of_repaired subs _ (noInst_fieldTypes fs hn') hd)
  | .struct subs, t, hn, h => by
    cases h with
    | struct _ _ fs hu hd =>
      rw [unaliasTarget_repaired] at hu
      have hn' := noInst_of_unalias hn hu
      simp only [noInst] at hn'
      rw [fieldTypes_eq] at hd
      exact .struct subs t fs (by rw [unaliasTarget_strict, hu])
        (by rw [fieldTypes_eq]; exact denotesSeq_strict_of_repaired subs _ (noInst_fieldTypes fs hn') hd)
  | .anyIface, t, _, h => by
    cases h with
    | anyIface _ a c ms es hu =>
      rw [unaliasTarget_repaired] at hu
      exact .anyIface t a c ms es (by rw [unaliasTarget_strict, hu])
theorem denotesSeq_strict_of_repaired : ∀ (ps : List Pat) (ts : List Ty), (∀ e ∈ ts, noInst e = true) →
    DenotesSeq I Rules.repaired σ ps ts → DenotesSeq I Rules.strict σ ps ts
  | [], ts, _, h => by cases h; exact .nil
  | p :: ps, ts, hn, h => by
    cases h with
    | run _ _ n hd =>
      exact .run ps ts n (denotesSeq_strict_of_repaired ps _ (fun e he => hn e (List.mem_of_mem_drop he)) hd)
    | cons _ _ t ts' h1 h2 =>
      exact .cons p ps t ts' (denotes_strict_of_repaired p t (hn t (by simp)) h1)
        (denotesSeq_strict_of_repaired ps ts' (fun e he => hn e (by simp [he])) h2)
end

end

end TypeMatch
