import Rg.Model.TextMatch
import Rg.Spec.C11
import Rg.Proofs.Utf8
import Rg.Proofs.Regex
/-!
# The matchers of matchers.go against the regexp semantics, shape by shape

`v = string(runes)` for a case-sensitive literal made of faithfully encodable runes (`Lit`):
* `LitAt_iff`        : the literal matches from `i` to `j` iff `v` is a prefix of `s[i:]` and `j = i + |v|`
* `search_contains`  : any `X* lit Y*` (and `lit` alone) is found iff `bytes.Contains(s, v)`
* `search_prefix`    : `^lit` iff `bytes.HasPrefix(s, v)`;  `search_suffix`: `lit$` iff `bytes.HasSuffix(s, v)`
* `search_eq`        : `^lit$` iff `s == v`;  `search_pred`: `^[class]` iff the first rune is in the class
-/
namespace TM
open Rx Utf8 SpecC11

/-! ## prefixes -/

theorem prefix_append_iff {α : Type} (l1 l2 l : List α) :
    l1 ++ l2 <+: l ↔ l1 <+: l ∧ l2 <+: l.drop l1.length := by
  constructor
  · rintro ⟨t, rfl⟩
    refine ⟨⟨l2 ++ t, by simp⟩, ⟨t, ?_⟩⟩
    simp
  · rintro ⟨⟨t, rfl⟩, ⟨u, hu⟩⟩
    simp at hu
    exact ⟨u, by rw [← hu]; simp⟩

theorem containsB_iff (v s : Bytes) : containsB v s = true ↔ ∃ i, i ≤ s.length ∧ v <+: s.drop i := by
  induction s with
  | nil =>
    simp only [containsB, List.isPrefixOf_iff_prefix, List.length_nil, List.drop_nil]
    constructor
    · intro h; exact ⟨0, Nat.le_refl _, h⟩
    · rintro ⟨_, _, h⟩; exact h
  | cons c cs ih =>
    simp only [containsB, Bool.or_eq_true, List.isPrefixOf_iff_prefix, ih]
    constructor
    · rintro (h | ⟨i, hi, h⟩)
      · exact ⟨0, Nat.zero_le _, h⟩
      · exact ⟨i + 1, by simp; omega, by simpa using h⟩
    · rintro ⟨i, hi, h⟩
      cases i with
      | zero => exact .inl h
      | succ i => exact .inr ⟨i, by simp at hi; omega, by simpa using h⟩

/-! ## a plain literal is its bytes -/

theorem encodeRune_ne_nil (r : Nat) : encodeRune r ≠ [] := by
  obtain ⟨c, tl, h, _⟩ := encode_head r
  rw [h]; exact List.cons_ne_nil _ _

theorem faithful_iff (r : Nat) : faithful r = true ↔ validRune r = true ∧ r ≠ runeError := by
  simp [faithful]

theorem stepAt_faithful {r : Nat} (hr : faithful r = true) (s : Bytes) (i k : Nat) :
    stepAt s i = some (r, k) ↔ encodeRune r <+: s.drop i ∧ k = i + (encodeRune r).length := by
  rw [faithful_iff] at hr
  constructor
  · intro h
    have hi := stepAt_lt h
    unfold stepAt at h
    rw [if_pos hi] at h
    simp only [Option.some.injEq, Prod.mk.injEq] at h
    obtain ⟨rest, he, hw, _⟩ := decode_sound (s.drop i) r (decodeRune (s.drop i)).2 (by rw [← h.1]) hr.2
    exact ⟨⟨rest, he.symm⟩, by omega⟩
  · rintro ⟨⟨rest, he⟩, rfl⟩
    have hne := encodeRune_ne_nil r
    have hi : i < s.length := by
      have hl : (s.drop i).length = s.length - i := List.length_drop
      rw [← he] at hl
      have : 0 < (encodeRune r).length := List.length_pos_iff.2 hne
      simp at hl; omega
    unfold stepAt
    rw [if_pos hi, ← he, decode_encode r hr.1 rest]

theorem LitAt_iff (fold : Nat → List Nat) {rs : List Nat} (hrs : rs.all faithful = true) (s : Bytes) (i j : Nat) :
    LitAt fold false rs s i j ↔ encodeRunes rs <+: s.drop i ∧ j = i + (encodeRunes rs).length := by
  induction rs generalizing i with
  | nil => simp [LitAt, encodeRunes, eq_comm]
  | cons r rs ih =>
    simp only [List.all_cons, Bool.and_eq_true] at hrs
    simp only [LitAt, runeEq, Bool.false_and, Bool.or_false, beq_iff_eq]
    have henc : encodeRunes (r :: rs) = encodeRune r ++ encodeRunes rs := by simp [encodeRunes]
    rw [henc, prefix_append_iff, List.drop_drop, List.length_append]
    constructor
    · rintro ⟨c, k, hs, rfl, hl⟩
      rw [stepAt_faithful hrs.1] at hs
      rw [ih hrs.2] at hl
      obtain ⟨hp, rfl⟩ := hs
      exact ⟨⟨hp, hl.1⟩, by omega⟩
    · rintro ⟨⟨hp, hp2⟩, rfl⟩
      refine ⟨r, i + (encodeRune r).length, (stepAt_faithful hrs.1 s i _).2 ⟨hp, rfl⟩, rfl, ?_⟩
      rw [ih hrs.2]
      exact ⟨hp2, by omega⟩

/-! ## where a search can start -/

theorem Boundary_zero (s : Bytes) : Boundary s 0 := ⟨0, rfl⟩

theorem Boundary_step {s : Bytes} {b k : Nat} (hb : Boundary s b) (hk : StepRel s b k) : Boundary s k := by
  obtain ⟨m, hp⟩ := hb
  refine ⟨m + 1, ?_⟩
  exact (Pow_add (R := StepRel s) m 1 0 k).2 ⟨b, hp, k, hk, rfl⟩

/-- a position whose byte is not a continuation byte (or the end of the input) is reached by the decoding steps -/
theorem boundary_reach (s : Bytes) (i : Nat) (hi : i ≤ s.length)
    (hnc : ∀ c, s[i]? = some c → isCont c.toNat = false) :
    ∀ n b, i - b ≤ n → b ≤ i → Boundary s b → Boundary s i := by
  intro n
  induction n with
  | zero =>
    intro b h1 h2 hb
    have : b = i := by omega
    subst this; exact hb
  | succ n ih =>
    intro b h1 h2 hb
    by_cases e : b = i
    · subst e; exact hb
    have hbl : b < s.length := by omega
    have hd : s.drop b = s[b] :: s.drop (b + 1) := List.drop_eq_getElem_cons hbl
    have hsh := decode_shape s[b] (s.drop (b + 1))
    rw [← hd] at hsh
    obtain ⟨hw1, hw2, hint⟩ := hsh
    have hstep : StepRel s b (b + (decodeRune (s.drop b)).2) :=
      ⟨(decodeRune (s.drop b)).1, by unfold stepAt; rw [if_pos hbl]⟩
    have hle : b + (decodeRune (s.drop b)).2 ≤ i := by
      by_cases hgt : b + (decodeRune (s.drop b)).2 ≤ i
      · exact hgt
      · exfalso
        obtain ⟨c, hc, hcont⟩ := hint (i - b) (by omega) (by omega)
        rw [List.getElem?_drop] at hc
        have : b + (i - b) = i := by omega
        rw [this] at hc
        have := hnc c hc
        rw [this] at hcont
        exact Bool.false_ne_true hcont
    exact ih _ (by omega) hle (Boundary_step hb hstep)

theorem Boundary_of_noncont (s : Bytes) (i : Nat) (hi : i ≤ s.length)
    (hnc : ∀ c, s[i]? = some c → isCont c.toNat = false) : Boundary s i :=
  boundary_reach s i hi hnc i 0 (by omega) (Nat.zero_le _) (Boundary_zero s)

theorem Boundary_length (s : Bytes) : Boundary s s.length :=
  Boundary_of_noncont s s.length (Nat.le_refl _) (by intro c hc; simp at hc)

/-- an occurrence of a non-empty encoded literal starts where the decoder can be -/
theorem Boundary_of_prefix {rs : List Nat} (hne : rs ≠ []) (s : Bytes) (i : Nat) (hi : i ≤ s.length)
    (hp : encodeRunes rs <+: s.drop i) : Boundary s i := by
  apply Boundary_of_noncont s i hi
  intro c hc
  cases rs with
  | nil => exact absurd rfl hne
  | cons r rs =>
    obtain ⟨c0, tl, he, hc0⟩ := encode_head r
    obtain ⟨t, ht⟩ := hp
    have : (s.drop i)[0]? = some c0 := by
      rw [← ht]; simp [encodeRunes, he]
    rw [List.getElem?_drop] at this
    simp at this
    rw [hc] at this
    simp only [Option.some.injEq] at this
    rw [this]; exact hc0

/-! ## the recognised shapes -/

theorem isLitFixed_iff (b : Re) :
    isLitFixed b = true ↔ b.op = .literal ∧ foldCase b.flags = false ∧ b.runes.all faithful = true := by
  simp [isLitFixed, and_assoc]

theorem M_lit {b : Re} (hb : isLitFixed b = true) (fold : Nat → List Nat) (s : Bytes) (i j : Nat) :
    M fold b s i j ↔ litValue b <+: s.drop i ∧ j = i + (litValue b).length := by
  obtain ⟨op, fl, rs, subs, mn, mx⟩ := b
  rw [isLitFixed_iff] at hb
  simp only [Re.op, Re.flags, Re.runes] at hb
  obtain ⟨rfl, hf, hr⟩ := hb
  simp only [M, hf, litValue, Re.runes]
  exact LitAt_iff fold hr s i j

theorem M_star_refl {a : Re} (ha : a.op = .star) (fold : Nat → List Nat) (s : Bytes) (k : Nat) : M fold a s k k := by
  obtain ⟨op, fl, rs, subs, mn, mx⟩ := a
  simp only [Re.op] at ha
  subst ha
  simp only [M]
  exact ⟨0, rfl⟩

theorem M_begin {a : Re} (ha : isBegin a = true) (fold : Nat → List Nat) (s : Bytes) (i j : Nat) :
    M fold a s i j ↔ i = j ∧ i = 0 := by
  obtain ⟨op, fl, rs, subs, mn, mx⟩ := a
  simp only [isBegin, Re.op, beq_iff_eq] at ha
  subst ha
  simp only [M]

theorem M_end {a : Re} (ha : isEnd a = true) (fold : Nat → List Nat) (s : Bytes) (i j : Nat) :
    M fold a s i j ↔ i = j ∧ i = s.length := by
  obtain ⟨op, fl, rs, subs, mn, mx⟩ := a
  simp only [isEnd, Re.op, beq_iff_eq] at ha
  subst ha
  simp only [M]

/-- an encoded literal occurs somewhere iff it occurs at a position the search visits -/
theorem occurs_iff (rs : List Nat) (s : Bytes) :
    (∃ k, k ≤ s.length ∧ encodeRunes rs <+: s.drop k) ↔ ∃ i, Boundary s i ∧ encodeRunes rs <+: s.drop i := by
  constructor
  · rintro ⟨k, hk, hp⟩
    cases rs with
    | nil => exact ⟨0, Boundary_zero s, by simp [encodeRunes]⟩
    | cons r rs => exact ⟨k, Boundary_of_prefix (List.cons_ne_nil _ _) s k hk hp, hp⟩
  · rintro ⟨i, hb, hp⟩
    exact ⟨i, Boundary_le hb, hp⟩

theorem search_lit {b : Re} (hb : isLitFixed b = true) (fold : Nat → List Nat) (s : Bytes) :
    search fold b s ↔ containsB (litValue b) s = true := by
  rw [containsB_iff, litValue, occurs_iff]
  unfold search
  constructor
  · rintro ⟨i, j, hi, hm⟩
    exact ⟨i, hi, ((M_lit hb fold s i j).1 hm).1⟩
  · rintro ⟨i, hi, hp⟩
    exact ⟨i, _, hi, (M_lit hb fold s i _).2 ⟨hp, rfl⟩⟩

theorem search_contains3 {a b c : Re} (ha : a.op = .star) (hb : isLitFixed b = true) (hc : c.op = .star)
    (fold : Nat → List Nat) (fl : Nat) (rs : List Nat) (mn mx : Int) (s : Bytes) :
    search fold (.mk .concat fl rs [a, b, c] mn mx) s ↔ containsB (litValue b) s = true := by
  rw [← search_lit hb fold s]
  unfold search
  simp only [M, MSeq]
  constructor
  · rintro ⟨i, j, hi, k, hk, l, hl, _⟩
    have hkb := M_bounds fold a s i k (Boundary_le hi) hk
    -- the literal occurs at `k`; it then also occurs at a boundary
    have hl' := (M_lit hb fold s k l).1 hl
    obtain ⟨i', hi', hp'⟩ := (occurs_iff b.runes s).1 ⟨k, hkb.2, hl'.1⟩
    exact ⟨i', _, hi', (M_lit hb fold s i' _).2 ⟨hp', rfl⟩⟩
  · rintro ⟨i, j, hi, hm⟩
    exact ⟨i, j, hi, i, M_star_refl ha fold s i, j, hm, j, M_star_refl hc fold s j, rfl⟩

theorem search_prefix {a b : Re} (ha : isBegin a = true) (hb : isLitFixed b = true)
    (fold : Nat → List Nat) (fl : Nat) (rs : List Nat) (mn mx : Int) (s : Bytes) :
    search fold (.mk .concat fl rs [a, b] mn mx) s ↔ (litValue b).isPrefixOf s = true := by
  unfold search
  simp only [M, MSeq, M_begin ha, M_lit hb, List.isPrefixOf_iff_prefix]
  constructor
  · rintro ⟨i, j, _, k, ⟨rfl, rfl⟩, l, ⟨hp, _⟩, _⟩
    simpa using hp
  · intro hp
    exact ⟨0, _, Boundary_zero s, 0, ⟨rfl, rfl⟩, _, ⟨by simpa using hp, rfl⟩, rfl⟩

theorem prefix_full {α : Type} {v t : List α} (hp : v <+: t) (hl : t.length = v.length) : t = v := by
  obtain ⟨u, rfl⟩ := hp
  simp at hl
  simp [hl]

theorem search_suffix {a b : Re} (ha : isLitFixed a = true) (hb : isEnd b = true)
    (fold : Nat → List Nat) (fl : Nat) (rs : List Nat) (mn mx : Int) (s : Bytes) :
    search fold (.mk .concat fl rs [a, b] mn mx) s ↔ (litValue a).isSuffixOf s = true := by
  unfold search
  simp only [M, MSeq, M_end hb, M_lit ha, List.isSuffixOf_iff_suffix]
  constructor
  · rintro ⟨i, j, hi, k, ⟨hp, rfl⟩, l, ⟨rfl, hlen⟩, _⟩
    have hil := Boundary_le hi
    have : s.drop i = litValue a := prefix_full hp (by rw [List.length_drop]; omega)
    exact ⟨s.take i, by rw [← this]; simp⟩
  · rintro ⟨t, ht⟩
    have hd : s.drop t.length = litValue a := by rw [← ht]; simp
    have hlen : s.length = t.length + (litValue a).length := by rw [← ht]; simp
    have hb' : Boundary s t.length := by
      by_cases hne : a.runes = []
      · have : litValue a = [] := by simp [litValue, hne, encodeRunes]
        have : t.length = s.length := by rw [hlen, this]; simp
        rw [this]; exact Boundary_length s
      · exact Boundary_of_prefix hne s t.length (by omega) (by rw [hd]; exact List.prefix_refl _)
    exact ⟨t.length, _, hb', _, ⟨by rw [hd]; exact List.prefix_refl _, rfl⟩, _, ⟨rfl, hlen.symm⟩, rfl⟩

theorem search_eq {a b c : Re} (ha : isBegin a = true) (hb : isLitFixed b = true) (hc : isEnd c = true)
    (fold : Nat → List Nat) (fl : Nat) (rs : List Nat) (mn mx : Int) (s : Bytes) :
    search fold (.mk .concat fl rs [a, b, c] mn mx) s ↔ (litValue b == s) = true := by
  unfold search
  simp only [M, MSeq, M_begin ha, M_end hc, M_lit hb, beq_iff_eq]
  constructor
  · rintro ⟨i, j, _, k, ⟨rfl, rfl⟩, l, ⟨hp, rfl⟩, m, ⟨rfl, hlen⟩, _⟩
    simp only [List.drop_zero, Nat.zero_add] at hp hlen
    exact (prefix_full hp hlen.symm).symm
  · intro h
    exact ⟨0, _, Boundary_zero s, 0, ⟨rfl, rfl⟩, _, ⟨by rw [h]; simp, rfl⟩, _, ⟨rfl, by rw [← h]; simp⟩, rfl⟩

theorem stepAt_zero (s : Bytes) (c j : Nat) :
    stepAt s 0 = some (c, j) ↔ s ≠ [] ∧ c = (decodeRune s).1 ∧ j = (decodeRune s).2 := by
  unfold stepAt
  cases s with
  | nil => simp
  | cons b bs =>
    simp only [List.length_cons, Nat.zero_lt_succ, if_true, List.drop_zero, Option.some.injEq, Prod.mk.injEq,
      Nat.zero_add, ne_eq, reduceCtorEq, not_false_eq_true, true_and]
    constructor
    · rintro ⟨rfl, rfl⟩; exact ⟨rfl, rfl⟩
    · rintro ⟨rfl, rfl⟩; exact ⟨rfl, rfl⟩

theorem search_pred {a cls : Re} (ha : isBegin a = true) (hc : cls.op = .charClass)
    (fold : Nat → List Nat) (fl : Nat) (rs : List Nat) (mn mx : Int) (s : Bytes) :
    search fold (.mk .concat fl rs [a, cls] mn mx) s ↔ s ≠ [] ∧ inClass cls.runes (decodeRune s).1 = true := by
  obtain ⟨op, cfl, crs, csubs, cmn, cmx⟩ := cls
  simp only [Re.op] at hc
  subst hc
  unfold search
  simp only [M, MSeq, M_begin ha, Re.runes]
  constructor
  · rintro ⟨i, j, _, k, ⟨rfl, rfl⟩, l, ⟨c, hs, hin⟩, _⟩
    obtain ⟨hne, rfl, _⟩ := (stepAt_zero s c l).1 hs
    exact ⟨hne, hin⟩
  · rintro ⟨hne, hin⟩
    exact ⟨0, _, Boundary_zero s, 0, ⟨rfl, rfl⟩, _, ⟨_, (stepAt_zero s _ _).2 ⟨hne, rfl, rfl⟩, hin⟩, rfl⟩

/-! ## what `compileOptimized` returns, by inversion -/

theorem isAny_true {a : Re} (h : isAny a = .ok true) : a.op = .star := by
  unfold isAny at h
  by_cases ho : a.op = .star
  · exact ho
  · rw [if_neg ho] at h; simp at h

theorem tryContains3_some {isLit : Re → Bool} {re : Re} {m : Matcher} (h : tryContains3 isLit re = .ok (some m)) :
    ∃ fl rs a b c mn mx, re = .mk .concat fl rs [a, b, c] mn mx ∧ a.op = .star ∧ isLit b = true ∧ c.op = .star ∧
      m = .contains (litValue b) := by
  obtain ⟨op, fl, rs, subs, mn, mx⟩ := re
  unfold tryContains3 at h
  simp only [Re.op, Re.subs] at h
  split at h
  · rename_i a b c
    cases hx : isAny a with
    | panic p => simp [hx, Res.bind] at h
    | ok x =>
      simp only [hx, Res.bind] at h
      by_cases hxb : (x && isLit b) = true
      · rw [if_pos hxb] at h
        simp only [Bool.and_eq_true] at hxb
        cases hz : isAny c with
        | panic p => simp [hz] at h
        | ok z =>
          simp only [hz] at h
          cases z with
          | false => simp at h
          | true =>
            simp only [if_true, Res.ok.injEq, Option.some.injEq] at h
            have hxa : isAny a = .ok true := by rw [hx, hxb.1]
            exact ⟨fl, rs, a, b, c, mn, mx, rfl, isAny_true hxa, hxb.2, isAny_true hz, h.symm⟩
      · rw [if_neg hxb] at h; simp at h
  · simp at h

theorem tryPrefix_some {isLit : Re → Bool} {re : Re} {m : Matcher} (h : tryPrefix isLit re = some m) :
    ∃ fl rs a b mn mx, re = .mk .concat fl rs [a, b] mn mx ∧ isBegin a = true ∧ isLit b = true ∧
      m = .hasPrefix (litValue b) := by
  obtain ⟨op, fl, rs, subs, mn, mx⟩ := re
  unfold tryPrefix at h
  simp only [Re.op, Re.subs] at h
  split at h
  · rename_i a b
    by_cases hc : (isBegin a && isLit b) = true
    · rw [if_pos hc] at h
      simp only [Bool.and_eq_true] at hc
      simp only [Option.some.injEq] at h
      exact ⟨fl, rs, a, b, mn, mx, rfl, hc.1, hc.2, h.symm⟩
    · rw [if_neg hc] at h; simp at h
  · simp at h

theorem trySuffix_some {isLit : Re → Bool} {re : Re} {m : Matcher} (h : trySuffix isLit re = some m) :
    ∃ fl rs a b mn mx, re = .mk .concat fl rs [a, b] mn mx ∧ isLit a = true ∧ isEnd b = true ∧
      m = .hasSuffix (litValue a) := by
  obtain ⟨op, fl, rs, subs, mn, mx⟩ := re
  unfold trySuffix at h
  simp only [Re.op, Re.subs] at h
  split at h
  · rename_i a b
    by_cases hc : (isLit a && isEnd b) = true
    · rw [if_pos hc] at h
      simp only [Bool.and_eq_true] at hc
      simp only [Option.some.injEq] at h
      exact ⟨fl, rs, a, b, mn, mx, rfl, hc.1, hc.2, h.symm⟩
    · rw [if_neg hc] at h; simp at h
  · simp at h

theorem tryEq_some {isLit : Re → Bool} {re : Re} {m : Matcher} (h : tryEq isLit re = some m) :
    ∃ fl rs a b c mn mx, re = .mk .concat fl rs [a, b, c] mn mx ∧ isBegin a = true ∧ isLit b = true ∧ isEnd c = true ∧
      m = .eq (litValue b) := by
  obtain ⟨op, fl, rs, subs, mn, mx⟩ := re
  unfold tryEq at h
  simp only [Re.op, Re.subs] at h
  split at h
  · rename_i a b c
    by_cases hc : (isBegin a && isLit b && isEnd c) = true
    · rw [if_pos hc] at h
      simp only [Bool.and_eq_true] at hc
      simp only [Option.some.injEq] at h
      exact ⟨fl, rs, a, b, c, mn, mx, rfl, hc.1.1, hc.1.2, hc.2, h.symm⟩
    · rw [if_neg hc] at h; simp at h
  · simp at h

theorem tryPred_some {src : Bytes} {m : Matcher} (h : tryPred src = some m) :
    (src = patUpper ∧ m = .runePred true) ∨ (src = patLower ∧ m = .runePred false) := by
  unfold tryPred at h
  by_cases h1 : src = patUpper
  · rw [if_pos h1] at h; simp only [Option.some.injEq] at h; exact .inl ⟨h1, h.symm⟩
  · rw [if_neg h1] at h
    by_cases h2 : src = patLower
    · rw [if_pos h2] at h; simp only [Option.some.injEq] at h; exact .inr ⟨h2, h.symm⟩
    · rw [if_neg h2] at h; simp at h

/-- the six ways `compileOptimized` produces a matcher -/
theorem compileOptimizedWith_some {isLit : Re → Bool} {src : Bytes} {re : Re} {m : Matcher}
    (h : compileOptimizedWith isLit src re = .ok (some m)) :
    (isLit re = true ∧ m = .contains (litValue re)) ∨ tryContains3 isLit re = .ok (some m) ∨
      tryPrefix isLit re = some m ∨ trySuffix isLit re = some m ∨ tryEq isLit re = some m ∨ tryPred src = some m := by
  unfold compileOptimizedWith at h
  by_cases h0 : isLit re = true
  · rw [if_pos h0] at h
    simp only [Res.ok.injEq, Option.some.injEq] at h
    exact .inl ⟨h0, h.symm⟩
  rw [if_neg h0] at h
  cases h1 : tryContains3 isLit re with
  | panic p => simp [h1, Res.bind] at h
  | ok r1 =>
    simp only [h1, Res.bind] at h
    cases r1 with
    | some m1 => simp only [Res.ok.injEq, Option.some.injEq] at h; subst h; exact .inr (.inl rfl)
    | none =>
      simp only at h
      cases h2 : tryPrefix isLit re with
      | some m2 => simp only [h2, Res.ok.injEq, Option.some.injEq] at h; subst h; exact .inr (.inr (.inl rfl))
      | none =>
        simp only [h2] at h
        cases h3 : trySuffix isLit re with
        | some m3 => simp only [h3, Res.ok.injEq, Option.some.injEq] at h; subst h; exact .inr (.inr (.inr (.inl rfl)))
        | none =>
          simp only [h3] at h
          cases h4 : tryEq isLit re with
          | some m4 =>
            simp only [h4, Res.ok.injEq, Option.some.injEq] at h; subst h
            exact .inr (.inr (.inr (.inr (.inl rfl))))
          | none =>
            simp only [h4, Res.ok.injEq] at h
            exact .inr (.inr (.inr (.inr (.inr h))))

end TM
