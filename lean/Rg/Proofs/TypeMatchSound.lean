import Rg.Proofs.TypeMatch
/-!
# Soundness of the matcher as it stands

Whenever `matchIdenticalAsIs` answers `true`, the final binding tables are an assignment under which the pattern
denotes the type (`SpecC10.Denotes`, with the code's own reading of types `Rules.code` and identity
`xtypes.Identical`).  Key invariant: the tables only grow (`MState.le`) — also through failed look-aheads,
whose stale bindings can therefore only make later comparisons stricter, never wrong.
-/
open XTypes TypeMatch
open SpecC10 (Denotes DenotesSeq Rules)

namespace TypeMatch

/-- every binding of `a` is a binding of `b` -/
def MState.le (a b : MState) : Prop :=
  (∀ x y, lookupT a x = some y → lookupT b x = some y) ∧ (∀ x n, lookupI a x = some n → lookupI b x = some n)

theorem MState.le_refl (a : MState) : MState.le a a := ⟨fun _ _ h => h, fun _ _ h => h⟩

theorem MState.le_trans {a b c : MState} (h1 : MState.le a b) (h2 : MState.le b c) : MState.le a c :=
  ⟨fun x y h => h2.1 x y (h1.1 x y h), fun x n h => h2.2 x n (h1.2 x n h)⟩

theorem lookupT_bind_self (st : MState) (x : String) (t : Ty) :
    lookupT { st with tm := (x, t) :: st.tm } x = some t := by
  simp [lookupT, List.find?]

theorem le_bindT {st : MState} {x : String} (t : Ty) (h : lookupT st x = none) :
    MState.le st { st with tm := (x, t) :: st.tm } := by
  refine ⟨fun x' y hy => ?_, fun _ _ h => h⟩
  by_cases hx : x = x'
  · subst hx; rw [h] at hy; cases hy
  · have : (x == x') = false := by simpa using hx
    simpa [lookupT, List.find?, this] using hy

theorem lookupI_bind_self (st : MState) (v : String) (n : Int) :
    lookupI { st with im := (v, n) :: st.im } v = some n := by
  simp [lookupI, List.find?]

theorem le_bindI {st : MState} {v : String} (n : Int) (h : lookupI st v = none) :
    MState.le st { st with im := (v, n) :: st.im } := by
  refine ⟨fun _ _ h => h, fun v' m hm => ?_⟩
  by_cases hv : v = v'
  · subst hv; rw [h] at hm; cases hm
  · have : (v == v') = false := by simpa using hv
    simpa [lookupI, List.find?, this] using hm

theorem spec_lookupT (σ : MState) (x : String) : SpecC10.lookupT σ x = lookupT σ x := rfl
theorem spec_lookupI (σ : MState) (x : String) : SpecC10.lookupI σ x = lookupI σ x := rfl

theorem unaliasTarget_code (t : Ty) : SpecC10.unaliasTarget Rules.code t = t := by
  cases t <;> simp [SpecC10.unaliasTarget, Rules.code]

theorem indexOf_ge (pat : List Char) : ∀ (s : List Char) (i j : Nat), indexOf pat s i = some j → i ≤ j
  | [], i, j, h => by
    unfold indexOf at h
    split at h <;> simp_all
  | c :: cs, i, j, h => by
    unfold indexOf at h
    split at h
    · simp_all
    · have := indexOf_ge pat cs (i + 1) j h; omega

/-- the first occurrence, computed the model's way (`strings.Index`) and the spec's way -/
theorem indexOf_head (pat : List Char) (hp : pat ≠ []) : ∀ (s : List Char) (i : Nat),
    (indexOf pat s i).map (fun j => s.drop (j - i + pat.length)) = (TypeMatch.afterOccurrences pat s).head?
  | [], i => by
    have : pat.isEmpty = false := by cases pat <;> simp_all
    simp [indexOf, TypeMatch.afterOccurrences, this]
  | c :: cs, i => by
    unfold indexOf TypeMatch.afterOccurrences
    by_cases h : pat.isPrefixOf (c :: cs) = true
    · simp [h]
    · simp only [h, Bool.false_eq_true, if_false, List.nil_append]
      rw [← indexOf_head pat hp cs (i + 1)]
      cases hj : indexOf pat cs (i + 1) with
      | none => rfl
      | some j =>
        have := indexOf_ge pat cs (i + 1) j hj
        simp only [Option.map_some]
        congr 1
        have e : j - i + pat.length = (j - (i + 1) + pat.length) + 1 := by omega
        rw [e, List.drop_succ_cons]

theorem stripVendor_code (path : String) : SpecC10.stripVendor Rules.code path = vendorStrip path := by
  unfold SpecC10.stripVendor vendorStrip
  simp only [Rules.code, if_true]
  rfl

section
variable {fx : Bool}

theorem allSeq_den (σ : MState) : ∀ ps : List Pat, ps.all Pat.isSeq = true →
    DenotesSeq (tid fx) Rules.code σ ps []
  | [], _ => .nil
  | p :: ps, h => by
    simp only [List.all_cons, Bool.and_eq_true] at h
    obtain ⟨h1, h2⟩ := h
    cases p <;> simp [Pat.isSeq] at h1
    exact .run ps [] 0 (allSeq_den σ ps h2)

/-- the iterations with `matchAny = true`: they end in a successful look-ahead after skipping `k` fields,
or with nothing left -/
theorem scanSeq_sound {look : MState → Ty → Bool × MState} {rest : MState → List Ty → Bool × MState}
    {stop : MState → Bool × MState} {next : Pat} {rest' : List Pat}
    (H1 : ∀ s t b s', look s t = (b, s') → MState.le s s' ∧
      (b = true → ∀ σ, MState.le s' σ → Denotes (tid fx) Rules.code σ next t))
    (H2 : ∀ s fs b s', rest s fs = (b, s') → MState.le s s' ∧
      (b = true → ∀ σ, MState.le s' σ → DenotesSeq (tid fx) Rules.code σ rest' fs))
    (H3 : ∀ s b s', stop s = (b, s') → s' = s ∧
      (b = true → ∀ σ, DenotesSeq (tid fx) Rules.code σ (next :: rest') [])) :
    ∀ (fields : List Ty) (st : MState) (b : Bool) (st' : MState), scanSeq look rest stop st fields = (b, st') →
      MState.le st st' ∧
      (b = true → ∀ σ, MState.le st' σ → ∃ k, DenotesSeq (tid fx) Rules.code σ (next :: rest') (fields.drop k))
  | [], st, b, st', h => by
    unfold scanSeq at h
    obtain ⟨rfl, h3⟩ := H3 st b st' h
    exact ⟨MState.le_refl _, fun hb σ _ => ⟨0, h3 hb σ⟩⟩
  | f :: fs, st, b, st', h => by
    unfold scanSeq at h
    rcases hl : look st f with ⟨bl, s1⟩
    rw [hl] at h
    obtain ⟨le1, d1⟩ := H1 st f bl s1 hl
    cases bl
    · simp only at h
      obtain ⟨le2, d2⟩ := scanSeq_sound H1 H2 H3 fs s1 b st' h
      refine ⟨MState.le_trans le1 le2, fun hb σ hσ => ?_⟩
      obtain ⟨k, hk⟩ := d2 hb σ hσ
      exact ⟨k + 1, by simpa using hk⟩
    · simp only at h
      obtain ⟨le2, d2⟩ := H2 s1 fs b st' h
      refine ⟨MState.le_trans le1 le2, fun hb σ hσ => ⟨0, ?_⟩⟩
      exact .cons next rest' f fs (d1 rfl σ (MState.le_trans le2 hσ)) (d2 hb σ hσ)

-- a branch that answers `(false, st)`
set_option hygiene false in
macro "triv_false" : tactic => `(tactic| (
  simp only [Prod.mk.injEq] at h
  obtain ⟨rfl, rfl⟩ := h
  exact ⟨MState.le_refl _, fun hb => by cases hb⟩))

mutual
theorem sound : ∀ (p : Pat) (st : MState) (t : Ty) (b : Bool) (st' : MState),
    matchIdenticalAsIs fx st p t = (b, st') →
    MState.le st st' ∧ (b = true → ∀ σ, MState.le st' σ → Denotes (tid fx) Rules.code σ p t)
  | .var name, st, t, b, st', h => by
    unfold matchIdenticalAsIs at h
    by_cases hn : name = "_"
    · subst hn
      simp only [beq_self_eq_true, if_true, Prod.mk.injEq] at h
      obtain ⟨rfl, rfl⟩ := h
      exact ⟨MState.le_refl _, fun _ σ _ => .wild t⟩
    · have : (name == "_") = false := by simpa using hn
      simp only [this, Bool.false_eq_true, if_false] at h
      cases hl : lookupT st name with
      | none =>
        rw [hl] at h
        simp only [Prod.mk.injEq] at h
        obtain ⟨rfl, rfl⟩ := h
        refine ⟨le_bindT t hl, fun _ σ hσ => ?_⟩
        exact .var name t t (hσ.1 name t (lookupT_bind_self st name t)) (tid_refl fx t)
      | some y =>
        rw [hl] at h
        simp only at h
        by_cases hy : y = Ty.nil
        · subst hy
          simp only [if_true, Prod.mk.injEq] at h
          obtain ⟨rfl, rfl⟩ := h
          refine ⟨MState.le_refl _, fun hb σ hσ => ?_⟩
          have ht : t = Ty.nil := by simpa using hb
          subst ht
          exact .var name .nil .nil (hσ.1 name _ hl) (tid_refl fx _)
        · simp only [hy, if_false, Prod.mk.injEq] at h
          obtain ⟨rfl, rfl⟩ := h
          exact ⟨MState.le_refl _, fun hb σ hσ => .var name y t (hσ.1 name y hl) hb⟩
  | .builtin bt, st, t, b, st', h => by
    unfold matchIdenticalAsIs at h
    simp only [Prod.mk.injEq] at h
    obtain ⟨rfl, rfl⟩ := h
    exact ⟨MState.le_refl _, fun hb σ _ => .builtin bt t hb⟩
  | .varSeq, st, t, b, st', h => by
    unfold matchIdenticalAsIs at h
    triv_false
  | .ptr e, st, t, b, st', h => by
    unfold matchIdenticalAsIs at h
    cases t <;> simp only at h
    case ptr a =>
      obtain ⟨le1, d1⟩ := sound e st a b st' h
      exact ⟨le1, fun hb σ hσ => .ptr e _ a (unaliasTarget_code _) (d1 hb σ hσ)⟩
    all_goals triv_false
  | .slice e, st, t, b, st', h => by
    unfold matchIdenticalAsIs at h
    cases t <;> simp only at h
    case slice a =>
      obtain ⟨le1, d1⟩ := sound e st a b st' h
      exact ⟨le1, fun hb σ hσ => .slice e _ a (unaliasTarget_code _) (d1 hb σ hσ)⟩
    all_goals triv_false
  | .arrayVar v e, st, t, b, st', h => by
    unfold matchIdenticalAsIs at h
    cases t <;> simp only at h
    case array n a =>
      by_cases hv : v = "_"
      · subst hv
        simp only [beq_self_eq_true, if_true] at h
        obtain ⟨le1, d1⟩ := sound e st a b st' h
        exact ⟨le1, fun hb σ hσ => .arrayWild e _ n a (unaliasTarget_code _) (d1 hb σ hσ)⟩
      · have : (v == "_") = false := by simpa using hv
        simp only [this, Bool.false_eq_true, if_false] at h
        cases hl : lookupI st v with
        | some len =>
          rw [hl] at h
          simp only at h
          by_cases hlen : len = n
          · subst hlen
            simp only [beq_self_eq_true, if_true] at h
            obtain ⟨le1, d1⟩ := sound e st a b st' h
            exact ⟨le1, fun hb σ hσ =>
              .arrayVar v e _ len a (unaliasTarget_code _) (hσ.2 v len (le1.2 v len hl)) (d1 hb σ hσ)⟩
          · have : (len == n) = false := by simpa using hlen
            simp only [this, Bool.false_eq_true, if_false] at h
            triv_false
        | none =>
          rw [hl] at h
          simp only at h
          obtain ⟨le1, d1⟩ := sound e _ a b st' h
          refine ⟨MState.le_trans (le_bindI n hl) le1, fun hb σ hσ => ?_⟩
          exact .arrayVar v e _ n a (unaliasTarget_code _)
            (hσ.2 v n (le1.2 v n (lookupI_bind_self st v n))) (d1 hb σ hσ)
    all_goals triv_false
  | .arrayLit len e, st, t, b, st', h => by
    unfold matchIdenticalAsIs at h
    cases t <;> simp only at h
    case array n a =>
      by_cases hlen : len = n
      · subst hlen
        simp only [beq_self_eq_true, if_true] at h
        obtain ⟨le1, d1⟩ := sound e st a b st' h
        exact ⟨le1, fun hb σ hσ => .arrayLit e _ len a (unaliasTarget_code _) (d1 hb σ hσ)⟩
      · have : (len == n) = false := by simpa using hlen
        simp only [this, Bool.false_eq_true, if_false] at h
        triv_false
    all_goals triv_false
  | .map k v, st, t, b, st', h => by
    unfold matchIdenticalAsIs at h
    cases t <;> simp only at h
    case map tk tv =>
      rcases hk : matchIdenticalAsIs fx st k tk with ⟨bk, s1⟩
      rw [hk] at h
      obtain ⟨le1, d1⟩ := sound k st tk bk s1 hk
      cases bk
      · simp only [Prod.mk.injEq] at h
        obtain ⟨rfl, rfl⟩ := h
        exact ⟨le1, fun hb => by cases hb⟩
      · simp only at h
        obtain ⟨le2, d2⟩ := sound v s1 tv b st' h
        exact ⟨MState.le_trans le1 le2, fun hb σ hσ =>
          .map k v _ tk tv (unaliasTarget_code _) (d1 rfl σ (MState.le_trans le2 hσ)) (d2 hb σ hσ)⟩
    all_goals triv_false
  | .chan dir e, st, t, b, st', h => by
    unfold matchIdenticalAsIs at h
    cases t <;> simp only at h
    case chan d a =>
      by_cases hd : dir = d
      · subst hd
        simp only [beq_self_eq_true, if_true] at h
        obtain ⟨le1, d1⟩ := sound e st a b st' h
        exact ⟨le1, fun hb σ hσ => .chan dir e _ a (unaliasTarget_code _) (d1 hb σ hσ)⟩
      · have : (dir == d) = false := by simpa using hd
        simp only [this, Bool.false_eq_true, if_false] at h
        triv_false
    all_goals triv_false
  | .named pkgPath typeName, st, t, b, st', h => by
    unfold matchIdenticalAsIs at h
    cases t <;> simp only at h
    case named u o p n x l ts =>
      cases p with
      | none => simp only at h; triv_false
      | some path =>
        simp only [Prod.mk.injEq] at h
        obtain ⟨rfl, rfl⟩ := h
        refine ⟨MState.le_refl _, fun hb σ _ => ?_⟩
        simp only [Bool.and_eq_true, beq_iff_eq] at hb
        obtain ⟨rfl, rfl⟩ := hb
        exact .named _ typeName _ u o path x l ts (unaliasTarget_code _) (stripVendor_code path)
          (by simp [Rules.code]) (by simp [Rules.code])
    all_goals triv_false
  | .funcNoSeq pps prs, st, t, b, st', h => by
    unfold matchIdenticalAsIs at h
    cases t <;> simp only at h
    case sig v tps params results =>
      by_cases h1 : (tupleElems params).length = pps.length
      · by_cases h2 : (tupleElems results).length = prs.length
        · simp only [h1, h2, bne_self_eq_false, Bool.false_eq_true, if_false] at h
          rcases hp : matchAllAsIs fx st pps (tupleElems params) with ⟨bp, s1⟩
          rw [hp] at h
          obtain ⟨le1, d1⟩ := soundAll pps st (tupleElems params) bp s1 hp
          cases bp
          · simp only [Prod.mk.injEq] at h
            obtain ⟨rfl, rfl⟩ := h
            exact ⟨le1, fun hb => by cases hb⟩
          · simp only at h
            obtain ⟨le2, d2⟩ := soundAll prs s1 (tupleElems results) b st' h
            refine ⟨MState.le_trans le1 le2, fun hb σ hσ => ?_⟩
            exact .funcNoSeq pps prs _ v tps params results (unaliasTarget_code _) (by simp [Rules.code])
              (by simp [Rules.code])
              (by rw [tupleElems_eq]; exact d1 rfl h1.symm σ (MState.le_trans le2 hσ))
              (by rw [tupleElems_eq]; exact d2 hb h2.symm σ hσ)
        · have : ((tupleElems results).length != prs.length) = true := by simpa using h2
          simp only [h1, bne_self_eq_false, Bool.false_eq_true, if_false, this, if_true] at h
          triv_false
      · have : ((tupleElems params).length != pps.length) = true := by simpa using h1
        simp only [this, if_true] at h
        triv_false
    all_goals triv_false
  | .func pps prs, st, t, b, st', h => by
    unfold matchIdenticalAsIs at h
    cases t <;> simp only at h
    case sig v tps params results =>
      rcases hp : matchSubsAsIs fx st pps (tupleElems params) with ⟨bp, s1⟩
      rw [hp] at h
      obtain ⟨le1, d1⟩ := soundSubs pps st (tupleElems params) bp s1 hp
      cases bp
      · simp only [Prod.mk.injEq] at h
        obtain ⟨rfl, rfl⟩ := h
        exact ⟨le1, fun hb => by cases hb⟩
      · simp only at h
        obtain ⟨le2, d2⟩ := soundSubs prs s1 (tupleElems results) b st' h
        refine ⟨MState.le_trans le1 le2, fun hb σ hσ => ?_⟩
        exact .func pps prs _ v tps params results (unaliasTarget_code _) (by simp [Rules.code])
          (by simp [Rules.code])
          (by rw [tupleElems_eq]; exact d1 rfl σ (MState.le_trans le2 hσ))
          (by rw [tupleElems_eq]; exact d2 hb σ hσ)
    all_goals triv_false
  | .structNoSeq subs, st, t, b, st', h => by
    unfold matchIdenticalAsIs at h
    cases t <;> simp only at h
    case struct fs =>
      by_cases h1 : fs.length = subs.length
      · simp only [h1, bne_self_eq_false, Bool.false_eq_true, if_false] at h
        obtain ⟨le1, d1⟩ := soundAll subs st (fieldTypes fs) b st' h
        refine ⟨le1, fun hb σ hσ => ?_⟩
        exact .structNoSeq subs _ fs (unaliasTarget_code _)
          (by rw [fieldTypes_eq]; exact d1 hb (by rw [fieldTypes_length]; exact h1.symm) σ hσ)
      · have : (fs.length != subs.length) = true := by simpa using h1
        simp only [this, if_true] at h
        triv_false
    all_goals triv_false
  | .struct subs, st, t, b, st', h => by
    unfold matchIdenticalAsIs at h
    cases t <;> simp only at h
    case struct fs =>
      obtain ⟨le1, d1⟩ := soundSubs subs st (fieldTypes fs) b st' h
      exact ⟨le1, fun hb σ hσ => .struct subs _ fs (unaliasTarget_code _) (by rw [fieldTypes_eq]; exact d1 hb σ hσ)⟩
    all_goals triv_false
  | .anyIface, st, t, b, st', h => by
    unfold matchIdenticalAsIs at h
    cases t <;> simp only at h
    case iface a c ms es =>
      simp only [Prod.mk.injEq] at h
      obtain ⟨rfl, rfl⟩ := h
      exact ⟨MState.le_refl _, fun _ σ _ => .anyIface _ a c ms es (unaliasTarget_code _)⟩
    all_goals triv_false
theorem soundAll : ∀ (ps : List Pat) (st : MState) (ts : List Ty) (b : Bool) (st' : MState),
    matchAllAsIs fx st ps ts = (b, st') →
    MState.le st st' ∧ (b = true → ps.length = ts.length → ∀ σ, MState.le st' σ →
      DenotesSeq (tid fx) Rules.code σ ps ts)
  | [], st, ts, b, st', h => by
    unfold matchAllAsIs at h
    simp only [Prod.mk.injEq] at h
    obtain ⟨rfl, rfl⟩ := h
    refine ⟨MState.le_refl _, fun _ hl σ _ => ?_⟩
    cases ts with
    | nil => exact .nil
    | cons _ _ => simp at hl
  | p :: ps, st, [], b, st', h => by
    unfold matchAllAsIs at h
    simp only [Prod.mk.injEq] at h
    obtain ⟨rfl, rfl⟩ := h
    exact ⟨MState.le_refl _, fun _ hl => by simp at hl⟩
  | p :: ps, st, t :: ts, b, st', h => by
    unfold matchAllAsIs at h
    rcases hp : matchIdenticalAsIs fx st p t with ⟨bp, s1⟩
    rw [hp] at h
    obtain ⟨le1, d1⟩ := sound p st t bp s1 hp
    cases bp
    · simp only [Prod.mk.injEq] at h
      obtain ⟨rfl, rfl⟩ := h
      exact ⟨le1, fun hb => by cases hb⟩
    · simp only at h
      obtain ⟨le2, d2⟩ := soundAll ps s1 ts b st' h
      refine ⟨MState.le_trans le1 le2, fun hb hl σ hσ => ?_⟩
      exact .cons p ps t ts (d1 rfl σ (MState.le_trans le2 hσ)) (d2 hb (by simpa using hl) σ hσ)
theorem soundSubs : ∀ (subs : List Pat) (st : MState) (fields : List Ty) (b : Bool) (st' : MState),
    matchSubsAsIs fx st subs fields = (b, st') →
    MState.le st st' ∧ (b = true → ∀ σ, MState.le st' σ → DenotesSeq (tid fx) Rules.code σ subs fields)
  | [], st, fields, b, st', h => by
    unfold matchSubsAsIs at h
    simp only [Prod.mk.injEq] at h
    obtain ⟨rfl, rfl⟩ := h
    refine ⟨MState.le_refl _, fun hb σ _ => ?_⟩
    cases fields with
    | nil => exact .nil
    | cons _ _ => simp at hb
  | [.varSeq], st, fields, b, st', h => by
    unfold matchSubsAsIs at h
    simp only [Prod.mk.injEq] at h
    obtain ⟨rfl, rfl⟩ := h
    refine ⟨MState.le_refl _, fun _ σ _ => .run [] fields fields.length ?_⟩
    simp only [List.drop_length]
    exact .nil
  | .varSeq :: next :: rest', st, fields, b, st', h => by
    unfold matchSubsAsIs at h
    simp only at h
    obtain ⟨le1, d1⟩ := scanSeq_sound (fx := fx) (next := next) (rest' := rest')
      (fun s t b s' hh => sound next s t b s' hh)
      (fun s fs b s' hh => soundSubs rest' s fs b s' hh)
      (fun s b s' hh => by
        simp only [Prod.mk.injEq] at hh
        obtain ⟨rfl, rfl⟩ := hh
        exact ⟨rfl, fun hb σ => allSeq_den σ _ hb⟩)
      fields st b st' h
    refine ⟨le1, fun hb σ hσ => ?_⟩
    obtain ⟨k, hk⟩ := d1 hb σ hσ
    exact .run _ fields k hk
  | .builtin x :: rest, st, fields, b, st', h | .ptr x :: rest, st, fields, b, st', h
  | .var x :: rest, st, fields, b, st', h | .slice x :: rest, st, fields, b, st', h
  | .anyIface :: rest, st, fields, b, st', h
  | .structNoSeq x :: rest, st, fields, b, st', h | .struct x :: rest, st, fields, b, st', h => by
    unfold matchSubsAsIs at h
    cases fields with
    | nil => simp only at h; triv_false
    | cons f fs =>
      simp only at h
      rcases hp : matchIdenticalAsIs fx st _ f with ⟨bp, s1⟩
      rw [hp] at h
      obtain ⟨le1, d1⟩ := sound _ st f bp s1 hp
      cases bp
      · simp only [Prod.mk.injEq] at h
        obtain ⟨rfl, rfl⟩ := h
        exact ⟨le1, fun hb => by cases hb⟩
      · simp only at h
        obtain ⟨le2, d2⟩ := soundSubs rest s1 fs b st' h
        exact ⟨MState.le_trans le1 le2, fun hb σ hσ =>
          .cons _ rest f fs (d1 rfl σ (MState.le_trans le2 hσ)) (d2 hb σ hσ)⟩
  | .arrayVar x y :: rest, st, fields, b, st', h | .arrayLit x y :: rest, st, fields, b, st', h
  | .map x y :: rest, st, fields, b, st', h | .chan x y :: rest, st, fields, b, st', h
  | .funcNoSeq x y :: rest, st, fields, b, st', h | .func x y :: rest, st, fields, b, st', h
  | .named x y :: rest, st, fields, b, st', h => by
    unfold matchSubsAsIs at h
    cases fields with
    | nil => simp only at h; triv_false
    | cons f fs =>
      simp only at h
      rcases hp : matchIdenticalAsIs fx st _ f with ⟨bp, s1⟩
      rw [hp] at h
      obtain ⟨le1, d1⟩ := sound _ st f bp s1 hp
      cases bp
      · simp only [Prod.mk.injEq] at h
        obtain ⟨rfl, rfl⟩ := h
        exact ⟨le1, fun hb => by cases hb⟩
      · simp only at h
        obtain ⟨le2, d2⟩ := soundSubs rest s1 fs b st' h
        exact ⟨MState.le_trans le1 le2, fun hb σ hσ =>
          .cons _ rest f fs (d1 rfl σ (MState.le_trans le2 hσ)) (d2 hb σ hσ)⟩
end

end

end TypeMatch
