import Rg.Proofs.Loads
/-! The repaired loader never panics (C13): every stage answers `ok` or an error. -/
namespace LoadM

def NoPanic {α : Type} : Out α → Prop
  | .panic _ => False
  | _ => True

theorem getFunc_true_np {env : Env} (hw : EnvWF env) (k : Nat × Nat) : NoPanic (getFunc true env k) := by
  unfold getFunc
  split
  · rename_i id hl
    have := lookup_lt hw hl
    simp [this, NoPanic]
  · simp [NoPanic]

/-- the repaired loader looks a rule's function up in a map that holds the functions themselves: nothing is indexed -/
theorem getFuncOpt_true_np (env : Env) (own : List (Nat × Nat)) (pkg : Nat) (o : Option Nat) :
    NoPanic (getFuncOpt true env own pkg o) := by
  unfold getFuncOpt
  split
  · simp [NoPanic]
  · rename_i n
    simp only [if_true, ownFunc]
    cases ownLookup own n <;> simp [NoPanic]

theorem loadRule_true_np (env : Env) (own : List (Nat × Nat)) (pkg : Nat) (g : Nat × Nat) (r : RuleDecl) :
    NoPanic (loadRule true env own pkg g r) := by
  unfold loadRule
  have h1 := getFuncOpt_true_np env own pkg r.doFn
  have h2 := getFuncOpt_true_np env own pkg r.filtFn
  split
  · rename_i p hp; rw [hp] at h1; exact h1
  · simp [NoPanic]
  · split
    · rename_i p hp; rw [hp] at h2; exact h2
    · simp [NoPanic]
    · split <;> simp [NoPanic]

theorem loadRules_true_np (env : Env) (own : List (Nat × Nat)) (pkg : Nat) (g : Nat × Nat) :
    ∀ (rs : List RuleDecl), NoPanic (loadRules true env own pkg g rs)
  | [] => by simp [loadRules, NoPanic]
  | r :: rs => by
    unfold loadRules
    have h1 := loadRule_true_np env own pkg g r
    have h2 := loadRules_true_np env own pkg g rs
    split
    · rename_i p hp; rw [hp] at h1; exact h1
    · simp [NoPanic]
    · split
      · simp [NoPanic]
      · exact h2

theorem loadGroup_true_np (env : Env) (own : List (Nat × Nat)) (pkg pfx file : Nat) (rejected) (res : RuleSet)
    (g : GroupDecl) : NoPanic (loadGroup true env own pkg pfx file rejected res g) := by
  unfold loadGroup
  simp only
  split
  · simp [NoPanic]
  · split
    · simp [NoPanic]
    · have := loadRules_true_np env own pkg (pfx, g.name) g.rules
      split
      · simp [NoPanic]
      · simp [NoPanic]
      · rename_i p hp; rw [hp] at this; exact this

theorem loadGroups_true_np (env : Env) (own : List (Nat × Nat)) (pkg pfx file : Nat) (rejected) :
    ∀ (gs : List GroupDecl) (res : RuleSet), NoPanic (loadGroups true env own pkg pfx file rejected res gs)
  | [], res => by simp [loadGroups, NoPanic]
  | g :: gs, res => by
    unfold loadGroups
    have h1 := loadGroup_true_np env own pkg pfx file rejected res g
    split
    · exact loadGroups_true_np env own pkg pfx file rejected gs _
    · exact h1

theorem compileFuncs_np : ∀ (ds : List FuncDecl) (env : Env), NoPanic (compileFuncs env ds).2
  | [], env => by simp [compileFuncs, NoPanic]
  | d :: ds, env => by
    unfold compileFuncs
    split
    · simp [NoPanic]
    · split
      · exact compileFuncs_np ds _
      · split
        · simp [NoPanic]
        · exact compileFuncs_np ds _

theorem loadUnit_true_np (env : Env) (pkg pfx : Nat) (rejected) (u : FileUnit) :
    NoPanic (loadUnit true env pkg pfx rejected u).2 := by
  have hc : NoPanic (compileFilterFuncs true env u).2 := by
    unfold compileFilterFuncs
    split
    · simp [NoPanic]
    · exact compileFuncs_np _ _
  unfold loadUnit
  split
  · exact loadGroups_true_np _ _ pkg pfx u.file rejected u.groups _
  · simp [NoPanic]
  · rename_i e1 p h1; rw [h1] at hc; exact hc

theorem loadBundleFiles_true_np (pfx : Nat) (rejected) : ∀ (us : List FileUnit) (env : Env),
    NoPanic (loadBundleFiles true env pfx rejected us).2
  | [], env => by simp [loadBundleFiles, NoPanic]
  | u :: us, env => by
    have h1 := loadUnit_true_np env gorules pfx rejected u
    unfold loadBundleFiles
    split
    · simp [NoPanic]
    · split
      · rename_i e1 rs hu
        have h2 := loadBundleFiles_true_np pfx rejected us e1
        split
        · simp [NoPanic]
        · exact h2
      · simp [NoPanic]
      · rename_i e1 p hu; rw [hu] at h1; exact h1

theorem loadBundles_true_np (rejected) : ∀ (bs : List BundleDecl) (env : Env),
    NoPanic (loadBundles true env rejected bs).2
  | [], env => by simp [loadBundles, NoPanic]
  | b :: bs, env => by
    have h1 := loadBundleFiles_true_np b.pfx rejected b.files env
    unfold loadBundles
    split
    · simp [NoPanic]
    · split
      · rename_i e1 rss hb
        have h2 := loadBundles_true_np rejected bs e1
        split
        · simp [NoPanic]
        · exact h2
      · exact h1

theorem loadFile_true_np (env : Env) (r : Req) : NoPanic (loadFile true env r).2 := by
  have h1 := loadBundles_true_np r.rejected r.bundles env
  unfold loadFile
  split
  · simp [NoPanic]
  · rename_i e1 p hb; rw [hb] at h1; exact h1
  · rename_i e1 imported hb
    have h2 := loadUnit_true_np e1 r.pkgPath 0 r.rejected r.unit
    split
    · split
      · simp [NoPanic]
      · simp only
        cases hm : mergeRuleSets (_ :: imported) with
        | ok m => simp [NoPanic]
        | err e => simp [NoPanic]
        | panic p => exact absurd hm mergeFrom_not_panic
    · exact h2

/-- the repaired `Load` / `LoadFromIR` answers `ok` or an error on every engine state -/
theorem load_true_np (e : Engine) (r : Req) : NoPanic (load true e r).2 := by
  have h1 := loadFile_true_np e.env r
  unfold load
  split
  · simp [NoPanic]
  · split
    · simp [NoPanic]
    · rename_i env2 p hf; rw [hf] at h1; exact h1
    · rename_i env2 rset hf
      split
      · simp [NoPanic]
      · rename_i cur hc
        rcases merge_pair cur rset with ⟨_, hm⟩ | ⟨_, hm⟩ <;> simp [hm, NoPanic]

end LoadM
