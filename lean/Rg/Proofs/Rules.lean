import Rg.Spec.Rules
namespace Rules

theorem place_apply (dst : Nat → List Nat) (b : Buckets) (r : Rule) (t : Nat) :
    place dst b r t = b t ++ (if (dst r.rootTag).contains t then [r] else []) := by
  unfold place; split <;> simp

theorem foldl_place (dst : Nat → List Nat) (rules : List Rule) (b : Buckets) (t : Nat) :
    (rules.foldl (place dst) b) t = b t ++ rules.filter (fun r => (dst r.rootTag).contains t) := by
  induction rules generalizing b with
  | nil => simp
  | cons r rs ih =>
    simp only [List.foldl_cons, ih, place_apply, List.filter_cons]
    split <;> simp

theorem loadFile_apply (dst : Nat → List Nat) (rules : List Rule) (t : Nat) :
    loadFile dst rules t = rules.filter (fun r => (dst r.rootTag).contains t) := by
  simp [loadFile, foldl_place, emptyBuckets]

theorem foldl_merge (dst : Nat → List Nat) (fs : List (List Rule)) (acc : Buckets) (t : Nat) :
    (fs.foldl (fun acc g => merge acc (loadFile dst g)) acc) t =
      acc t ++ (fs.flatten).filter (fun r => (dst r.rootTag).contains t) := by
  induction fs generalizing acc with
  | nil => simp
  | cons f fs ih =>
    simp only [List.foldl_cons, ih, merge, loadFile_apply, List.flatten_cons, List.filter_append,
      List.append_assoc]

theorem reportsOf_of_not_accepts (cb : Rule → List Bool) (r : Rule) (h : accepts cb r = false) :
    reportsOf cb r = [] := by
  unfold accepts at h
  unfold reportsOf
  have : (cb r).filter id = [] := by
    rw [List.filter_eq_nil_iff]
    intro b hb
    have := List.any_eq_false.mp h b hb
    simpa using this
  simp [this]

/-- the rule loop (after the repair) is the reference, for every callback sequence -/
theorem runRules_eq_pick (multi : Bool) (cb : Rule → List Bool) (rules : List Rule) :
    runRules multi cb rules = pick multi cb rules := by
  induction rules with
  | nil => cases multi <;> simp [runRules, pick]
  | cons r rs ih =>
    simp only [runRules, ih]
    cases hacc : accepts cb r with
    | false =>
      have h0 := reportsOf_of_not_accepts cb r hacc
      have hany : (cb r).any id = false := hacc
      unfold reportsOf at h0
      cases multi <;> simp [pick, hacc, hany, h0, List.find?_cons, List.filter_cons]
    | true =>
      have hany : (cb r).any id = true := hacc
      cases multi <;> simp [pick, hacc, hany, reportsOf, List.find?_cons, List.filter_cons]

/-- the pinned loop agrees with the repaired one when no rule gets more than one callback per node -/
theorem runRulesAsIs_single (multi : Bool) (cb : Rule → List Bool) (rules : List Rule)
    (h : ∀ r ∈ rules, (cb r).length ≤ 1) : runRulesAsIs multi cb rules = runRules multi cb rules := by
  induction rules with
  | nil => simp [runRules, runRulesAsIs]
  | cons r rs ih =>
    have ih' := ih (fun r hr => h r (by simp [hr]))
    have hr := h r (by simp)
    simp only [runRules, runRulesAsIs, ih']
    match hcb : cb r, hr with
    | [], _ => simp
    | [b], _ => cases b <;> simp

end Rules
