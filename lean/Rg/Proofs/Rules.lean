import Rg.Spec.Rules
namespace Rules

theorem place_apply (dst : Nat → List Nat) (b : Buckets) (r : Rule) (t : Nat) :
    place dst b r t = b t ++ (if (dst r.rootTag).contains t then [r] else []) := by
  unfold place; split <;> simp

theorem foldl_place (dst : Nat → List Nat) (rules : List Rule) (b : Buckets) (t : Nat) :
    (rules.foldl (place dst) b) t = b t ++ rules.filter (fun r => (dst r.rootTag).contains t) := by
  induction rules generalizing b with
  | nil => simp
  | cons r rs ih =>
    simp only [List.foldl_cons, ih, place_apply, List.filter_cons]
    split <;> simp

theorem loadFile_apply (dst : Nat → List Nat) (rules : List Rule) (t : Nat) :
    loadFile dst rules t = rules.filter (fun r => (dst r.rootTag).contains t) := by
  simp [loadFile, foldl_place, emptyBuckets]

theorem foldl_merge (dst : Nat → List Nat) (fs : List (List Rule)) (acc : Buckets) (t : Nat) :
    (fs.foldl (fun acc g => merge acc (loadFile dst g)) acc) t =
      acc t ++ (fs.flatten).filter (fun r => (dst r.rootTag).contains t) := by
  induction fs generalizing acc with
  | nil => simp
  | cons f fs ih =>
    simp only [List.foldl_cons, ih, merge, loadFile_apply, List.flatten_cons, List.filter_append,
      List.append_assoc]

theorem runRules_single (multi : Bool) (cb : Rule → List Bool) (rules : List Rule)
    (h : ∀ r ∈ rules, (cb r).length ≤ 1) : runRules multi cb rules = pick multi cb rules := by
  induction rules with
  | nil => cases multi <;> simp [runRules, pick]
  | cons r rs ih =>
    have ih' := ih (fun r hr => h r (by simp [hr]))
    have hr := h r (by simp)
    simp only [runRules, ih']
    -- the single callback, if any
    match hcb : cb r, hr with
    | [], _ =>
      cases multi <;> simp [pick, accepts, hcb, List.find?_cons, List.filter_cons]
    | [b], _ =>
      cases b <;> cases multi <;> simp [pick, accepts, hcb, List.find?_cons, List.filter_cons]

end Rules
