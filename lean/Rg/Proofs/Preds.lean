import Rg.Model.Preds
import Rg.Spec.C02
/-! Lemmas for C02: the model's recursive helpers against the spec's. -/
namespace PR

mutual
/-- no `*types.Alias` node anywhere the predicates look -/
def noAlias : Ty → Bool
  | .alias _ => false
  | .named u => noAlias u
  | .strct fs => noAliasAll fs
  | .array e => noAlias e
  | _ => true
def noAliasAll : List Ty → Bool
  | [] => true
  | f :: fs => noAlias f && noAliasAll fs
end

theorem unalias_eq : ∀ t : Ty, PR.unalias t = SpecC02.unalias t
  | .alias a => by simp [PR.unalias, SpecC02.unalias, unalias_eq a]
  | .basic _ _ | .named _ | .strct _ | .array _ | .tparam | .other => by simp [PR.unalias, SpecC02.unalias]

theorem unalias_not_alias : ∀ t a : Ty, SpecC02.unalias t ≠ .alias a
  | .alias b, a => by simp only [SpecC02.unalias]; exact unalias_not_alias b a
  | .basic _ _, _ | .named _, _ | .strct _, _ | .array _, _ | .tparam, _ | .other, _ => by simp [SpecC02.unalias]

theorem unalias_underlying : ∀ t : Ty, PR.unalias t.underlying = SpecC02.under t
  | .alias a => by
    simp only [Ty.underlying, SpecC02.under, SpecC02.unalias]
    exact unalias_underlying a
  | .named u => by simp [Ty.underlying, SpecC02.under, SpecC02.unalias, unalias_eq]
  | .basic _ _ | .strct _ | .array _ | .tparam | .other => by
    simp [Ty.underlying, SpecC02.under, SpecC02.unalias, PR.unalias]

theorem unalias_noAlias : ∀ t : Ty, noAlias t = true → PR.unalias t = t
  | .alias a => by simp [noAlias]
  | .basic _ _ | .named _ | .strct _ | .array _ | .tparam | .other => by simp [PR.unalias]

theorem noAlias_underlying : ∀ t : Ty, noAlias t = true → noAlias t.underlying = true
  | .alias a => by simp [noAlias]
  | .named u => by simp [noAlias, Ty.underlying]
  | .basic _ _ | .strct _ | .array _ | .tparam | .other => by simp [Ty.underlying]

theorem asBasic_asis_eq (u : Bool) (t : Ty) (h : noAlias t = true) : asBasic false u t = asBasic true u t := by
  unfold asBasic
  cases u
  · simp [unalias_noAlias t h]
  · simp [unalias_noAlias _ (noAlias_underlying t h)]

/-- the type the fixed filters assert on is the spec's view of the type -/
theorem asBasic_spec (u : Bool) (t : Ty) :
    asBasic true u t = basicView (if u then SpecC02.under t else SpecC02.unalias t) := by
  unfold asBasic
  cases u
  · simp [unalias_eq]
  · simp [unalias_underlying]

mutual
theorem hasPointers_fixed_eq : ∀ t : Ty, typeHasPointers true t = SpecC02.containsPointer t
  | .basic k i => by simp [typeHasPointers, SpecC02.containsPointer, kUnsafePointer, kString, kUntypedNil, kUntypedString]; grind
  | .named u => by simp [typeHasPointers, SpecC02.containsPointer, hasPointers_fixed_eq u]
  | .alias a => by simp [typeHasPointers, SpecC02.containsPointer, hasPointers_fixed_eq a]
  | .strct fs => by simp [typeHasPointers, SpecC02.containsPointer, anyHasPointers_fixed_eq fs]
  | .array e => by simp [typeHasPointers, SpecC02.containsPointer, hasPointers_fixed_eq e]
  | .tparam => by simp [typeHasPointers, SpecC02.containsPointer]
  | .other => by simp [typeHasPointers, SpecC02.containsPointer]
theorem anyHasPointers_fixed_eq : ∀ fs : List Ty, anyHasPointers true fs = SpecC02.anyContainsPointer fs
  | [] => by simp [anyHasPointers, SpecC02.anyContainsPointer]
  | f :: fs => by
    simp only [anyHasPointers, SpecC02.anyContainsPointer, hasPointers_fixed_eq f, anyHasPointers_fixed_eq fs]
    cases SpecC02.containsPointer f <;> simp
end

mutual
theorem hasPointers_asis_ge : ∀ t : Ty, typeHasPointers true t = true → typeHasPointers false t = true
  | .basic k i => by simp [typeHasPointers]
  | .named u => by simp only [typeHasPointers]; exact hasPointers_asis_ge u
  | .alias a => by simp [typeHasPointers]
  | .strct fs => by simp only [typeHasPointers]; exact anyHasPointers_asis_ge fs
  | .array e => by simp only [typeHasPointers]; exact hasPointers_asis_ge e
  | .tparam => by simp [typeHasPointers]
  | .other => by simp [typeHasPointers]
theorem anyHasPointers_asis_ge : ∀ fs : List Ty, anyHasPointers true fs = true → anyHasPointers false fs = true
  | [] => by simp [anyHasPointers]
  | f :: fs => by
    simp only [anyHasPointers]
    intro h
    by_cases hf : typeHasPointers true f = true
    · simp [hasPointers_asis_ge f hf]
    · simp [hf] at h
      by_cases hf' : typeHasPointers false f = true
      · simp [hf']
      · simp [hf']; exact anyHasPointers_asis_ge fs h
end

mutual
theorem hasPointers_asis_eq : ∀ t : Ty, noAlias t = true → typeHasPointers false t = typeHasPointers true t
  | .basic k i => by simp [typeHasPointers]
  | .named u => by simp only [typeHasPointers, noAlias]; exact hasPointers_asis_eq u
  | .alias a => by simp [noAlias]
  | .strct fs => by simp only [typeHasPointers, noAlias]; exact anyHasPointers_asis_eq fs
  | .array e => by simp only [typeHasPointers, noAlias]; exact hasPointers_asis_eq e
  | .tparam => by simp [typeHasPointers]
  | .other => by simp [typeHasPointers]
theorem anyHasPointers_asis_eq : ∀ fs : List Ty, noAliasAll fs = true → anyHasPointers false fs = anyHasPointers true fs
  | [] => by simp [anyHasPointers]
  | f :: fs => by
    simp only [anyHasPointers, noAliasAll, Bool.and_eq_true]
    intro h
    rw [hasPointers_asis_eq f h.1, anyHasPointers_asis_eq fs h.2]
end

/-! ## expressions -/

theorem isTypeName_eq (o : Option Obj) : isTypeName o = SpecC02.isTypeNameObj o := by
  cases o <;> rfl

theorem isTypeExpr_eq : ∀ e : Ex, isTypeExpr e = SpecC02.denotesType e
  | .star x => by simp [isTypeExpr, SpecC02.denotesType, isTypeExpr_eq x]
  | .paren x => by simp [isTypeExpr, SpecC02.denotesType, isTypeExpr_eq x]
  | .selector _ s => by simp [isTypeExpr, SpecC02.denotesType, isTypeName_eq]
  | .ident o => by simp [isTypeExpr, SpecC02.denotesType, isTypeName_eq]
  | .typeLit => by simp [isTypeExpr, SpecC02.denotesType]
  | .binary _ _ | .unary _ _ | .basicLit _ | .funcLit | .index _ _ | .composite _ _ _ | .call _ _ _
  | .keyValue _ _ | .slice _ _ | .typeAssert _ | .other => by simp [isTypeExpr, SpecC02.denotesType]

mutual
/-- no node kind outside `isPure`'s whitelist on which the documented meaning is defined -/
def plain : Ex → Bool
  | .star x => plain x
  | .binary x y => plain x && plain y
  | .unary _ x => plain x
  | .index x i => plain x && plain i
  | .selector x _ => plain x
  | .paren x => plain x
  | .composite elts _ _ => plainAll elts
  | .call _ args _ => plainAll args
  | .keyValue _ _ | .slice _ _ | .typeAssert _ | .typeLit => false
  | _ => true
def plainAll : List Ex → Bool
  | [] => true
  | e :: es => plain e && plainAll es
end

mutual
theorem isPure_sound (ext : Bool) : ∀ e : Ex, isPure ext e = true → SpecC02.pure e = true
  | .star x => by simp only [isPure, SpecC02.pure]; exact isPure_sound ext x
  | .binary x y => by
    simp only [isPure, SpecC02.pure, Bool.and_eq_true]
    exact fun h => ⟨isPure_sound ext x h.1, isPure_sound ext y h.2⟩
  | .unary a x => by
    simp only [isPure, SpecC02.pure, Bool.and_eq_true]
    exact fun h => ⟨h.1, isPure_sound ext x h.2⟩
  | .basicLit _ | .ident _ | .funcLit => by simp [SpecC02.pure]
  | .index x i => by
    simp only [isPure, SpecC02.pure, Bool.and_eq_true]
    exact fun h => ⟨isPure_sound ext x h.1, isPure_sound ext i h.2⟩
  | .selector x _ => by simp only [isPure, SpecC02.pure]; exact isPure_sound ext x
  | .paren x => by simp only [isPure, SpecC02.pure]; exact isPure_sound ext x
  | .composite elts _ _ => by simp only [isPure, SpecC02.pure]; exact isPureList_sound ext elts
  | .call fn args _ => by
    simp only [isPure, SpecC02.pure, Bool.and_eq_true, isTypeExpr_eq]
    exact fun h => ⟨h.1, isPureList_sound ext args h.2⟩
  | .keyValue k v => by
    simp only [isPure, SpecC02.pure, Bool.and_eq_true]
    exact fun h => ⟨isPure_sound ext k h.2.1, isPure_sound ext v h.2.2⟩
  | .slice x idx => by
    simp only [isPure, SpecC02.pure, Bool.and_eq_true]
    exact fun h => ⟨isPure_sound ext x h.2.1, isPureList_sound ext idx h.2.2⟩
  | .typeAssert x => by
    simp only [isPure, SpecC02.pure, Bool.and_eq_true]
    exact fun h => isPure_sound ext x h.2
  | .typeLit => by simp [SpecC02.pure]
  | .other => by simp [isPure]
theorem isPureList_sound (ext : Bool) : ∀ es : List Ex, isPureList ext es = true → SpecC02.pureAll es = true
  | [] => by simp [SpecC02.pureAll]
  | e :: es => by
    simp only [isPureList, SpecC02.pureAll, Bool.and_eq_true]
    intro h
    by_cases he : isPure ext e = true
    · simp [he] at h
      exact ⟨isPure_sound ext e he, isPureList_sound ext es h⟩
    · simp [he] at h
end

mutual
theorem isPure_complete : ∀ e : Ex, plain e = true → SpecC02.pure e = true → isPure false e = true
  | .star x => by simp only [isPure, SpecC02.pure, plain]; exact isPure_complete x
  | .binary x y => by
    simp only [isPure, SpecC02.pure, plain, Bool.and_eq_true]
    exact fun hp h => ⟨isPure_complete x hp.1 h.1, isPure_complete y hp.2 h.2⟩
  | .unary a x => by
    simp only [isPure, SpecC02.pure, plain, Bool.and_eq_true]
    exact fun hp h => ⟨h.1, isPure_complete x hp h.2⟩
  | .basicLit _ | .ident _ | .funcLit => by simp [isPure]
  | .index x i => by
    simp only [isPure, SpecC02.pure, plain, Bool.and_eq_true]
    exact fun hp h => ⟨isPure_complete x hp.1 h.1, isPure_complete i hp.2 h.2⟩
  | .selector x _ => by simp only [isPure, SpecC02.pure, plain]; exact isPure_complete x
  | .paren x => by simp only [isPure, SpecC02.pure, plain]; exact isPure_complete x
  | .composite elts _ _ => by simp only [isPure, SpecC02.pure, plain]; exact isPureList_complete elts
  | .call fn args _ => by
    simp only [isPure, SpecC02.pure, plain, Bool.and_eq_true, isTypeExpr_eq]
    exact fun hp h => ⟨h.1, isPureList_complete args hp h.2⟩
  | .typeLit | .keyValue _ _ | .slice _ _ | .typeAssert _ => by simp [plain]
  | .other => by simp [SpecC02.pure]
theorem isPureList_complete : ∀ es : List Ex, plainAll es = true → SpecC02.pureAll es = true → isPureList false es = true
  | [] => by simp [isPureList]
  | e :: es => by
    simp only [isPureList, SpecC02.pureAll, plainAll, Bool.and_eq_true]
    intro hp h
    simp [isPure_complete e hp.1 h.1, isPureList_complete es hp.2 h.2]
end

mutual
/-- with the extended whitelist `isPure` is the documented meaning on every expression shape -/
theorem isPure_ext_eq : ∀ e : Ex, isPure true e = SpecC02.pure e
  | .star x => by simp only [isPure, SpecC02.pure]; exact isPure_ext_eq x
  | .binary x y => by simp only [isPure, SpecC02.pure, isPure_ext_eq x, isPure_ext_eq y]
  | .unary a x => by simp only [isPure, SpecC02.pure, isPure_ext_eq x]
  | .basicLit _ | .ident _ | .funcLit | .typeLit => by simp [isPure, SpecC02.pure]
  | .index x i => by simp only [isPure, SpecC02.pure, isPure_ext_eq x, isPure_ext_eq i]
  | .selector x _ => by simp only [isPure, SpecC02.pure]; exact isPure_ext_eq x
  | .paren x => by simp only [isPure, SpecC02.pure]; exact isPure_ext_eq x
  | .composite elts _ _ => by simp only [isPure, SpecC02.pure]; exact isPureList_ext_eq elts
  | .call fn args _ => by simp only [isPure, SpecC02.pure, isTypeExpr_eq, isPureList_ext_eq args]
  | .keyValue k v => by simp only [isPure, SpecC02.pure, isPure_ext_eq k, isPure_ext_eq v, Bool.true_and]
  | .slice x idx => by simp only [isPure, SpecC02.pure, isPure_ext_eq x, isPureList_ext_eq idx, Bool.true_and]
  | .typeAssert x => by simp only [isPure, SpecC02.pure, isPure_ext_eq x, Bool.true_and]
  | .other => by simp [isPure, SpecC02.pure]
theorem isPureList_ext_eq : ∀ es : List Ex, isPureList true es = SpecC02.pureAll es
  | [] => by simp [isPureList, SpecC02.pureAll]
  | e :: es => by
    simp only [isPureList, SpecC02.pureAll, isPure_ext_eq e, isPureList_ext_eq es]
    cases SpecC02.pure e <;> simp
end

theorem identOf_eq : ∀ e : Ex, identOf e = SpecC02.identOfExpr e
  | .paren x => by simp [identOf, SpecC02.identOfExpr, identOf_eq x]
  | .ident _ | .selector _ _ => by simp [identOf, SpecC02.identOfExpr]
  | .star _ | .binary _ _ | .unary _ _ | .basicLit _ | .funcLit | .index _ _ | .composite _ _ _ | .call _ _ _
  | .typeLit | .keyValue _ _ | .slice _ _ | .typeAssert _ | .other => by simp [identOf, SpecC02.identOfExpr]

/-- `exprListFilterApply` with a closure that never panics is the conjunction over the elements -/
theorem allRes_ok {α : Type} (p : α → Bool) : ∀ l : List α, allRes (fun a => .ok (p a)) l = .ok (l.all p)
  | [] => rfl
  | a :: as => by
    simp only [allRes, List.all_cons]
    cases h : p a
    · simp
    · simp [allRes_ok p as]

end PR
