import Rg.Proofs.Walk
/-! Every visit of the walker-shaped reference is `visitAt` of the node's own ancestor chain. -/
namespace Walk

/-- all nodes of a tree with their ancestor chains (innermost ancestor first) -/
def chainsOf (chain : List Anc) : Tree → List (Nat × List Anc)
  | .node k id _ attr kids =>
    (id, chain) :: kids.attach.flatMap (fun c => chainsOf (⟨k, id, attr, c.1.slot⟩ :: chain) c.1)
termination_by t => sizeOf t
decreasing_by
  simp_wf; have := List.sizeOf_lt_of_mem c.2; omega

theorem mem_of_mem_orderedKids_attach {kids : List Tree} {order : List Nat}
    {c : { c // c ∈ kids }}
    (_h : c ∈ orderedKids (fun c : { c // c ∈ kids } => c.1.slot) order kids.attach) :
    c ∈ kids.attach := List.mem_attach _ _

theorem specT_visits_have_chains (C : Cfg) (T : Nat → Row) (c0 : Ctx0) :
    ∀ (n : Nat) (t : Tree), sizeOf t < n → ∀ chain, ∀ v ∈ specT C T c0 chain t,
      ∃ ch, (v.id, ch) ∈ chainsOf chain t ∧ v = visitAt C c0 ch v.id v.tag := by
  intro n
  induction n with
  | zero => intro t h; omega
  | succ n ih =>
    intro t hsz chain v hv
    obtain ⟨k, id, slot, attr, kids⟩ := t
    rw [specT] at hv
    rw [chainsOf]
    rcases List.mem_append.mp hv with hself | hkid
    · refine ⟨chain, ?_, ?_⟩
      · cases h : (T k).tag with
        | none => simp [h] at hself
        | some tg =>
          simp only [h, List.mem_singleton] at hself
          subst hself; simp [visitAt]
      · cases h : (T k).tag with
        | none => simp [h] at hself
        | some tg =>
          simp only [h, List.mem_singleton] at hself
          subst hself; simp [visitAt]
    · obtain ⟨c, hc, hvc⟩ := List.mem_flatMap.mp hkid
      have hlt : sizeOf c.1 < n := by
        have := List.sizeOf_lt_of_mem c.2
        simp at hsz; omega
      obtain ⟨ch, hch, hveq⟩ := ih c.1 hlt _ v hvc
      refine ⟨ch, ?_, hveq⟩
      apply List.mem_cons_of_mem
      exact List.mem_flatMap.mpr ⟨c, List.mem_attach _ _, hch⟩

end Walk
