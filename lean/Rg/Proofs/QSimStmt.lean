import Rg.Proofs.QNoFall
/-! # Simulation of statements -/
namespace Q
open SpecC04 (Val Env lookup tagOf evalExpr evalArgs evalCall callFn execStmt execBlock loop Flow Out.bind_eq_ok inScope_eq_ok KeysExt update defineAll assignAll inScope leave)
variable (C : Ctx)

macro "ucompS" " at " h:ident : tactic =>
  `(tactic| simp only [compS, compSs, bind, Option.bind_eq_bind, Option.bind_eq_some_iff, pure, Option.pure_def, Option.some.injEq,
      Prod.mk.injEq, Prod.exists] at $h:ident)

/-- a machine prefix (same stack before and after, frame base unchanged) in front of a statement goal -/
theorem SGoal.of_reaches {o : SpecC04.Out (Flow × Env)} {locals' : List (Nat × Nat)} {fr fr1 : Frame} {p p1 : Int} {sz sz1 d : Nat}
    {st : Stack} {bO bI}
    (h1 : Reaches C.fx C.venv C.f ⟨fr, p, st⟩ ⟨fr1, p1, st⟩)
    (h2 : SGoal C o locals' fr1 p1 sz1 d st bO bI) (e : p1 + sz1 = p + sz)
    (ht : fr1.top = fr.top ∧ fr1.intTop = fr.intTop) :
    SGoal C o locals' fr p sz d st bO bI := by
  cases o with
  | ok r =>
    obtain ⟨fl, env'⟩ := r
    cases fl with
    | next =>
      obtain ⟨fr', hr, hi, t1, t2⟩ := h2
      exact ⟨fr', (h1.trans _ _ _ hr).pc_cast rfl e, hi, t1.trans ht.1, t2.trans ht.2⟩
    | brk =>
      obtain ⟨fr', hr, hi, t1, t2⟩ := h2
      exact ⟨fr', (h1.trans _ _ _ hr).pc_cast rfl (by omega), hi, t1.trans ht.1, t2.trans ht.2⟩
    | ret rv =>
      intro hv
      obtain ⟨st1, he, hb⟩ := h2 hv
      exact ⟨st1, Ends.of_reaches _ _ _ h1 (by simp) he, hb⟩
  | panic q => exact Ends.of_reaches _ _ _ h1 (by simp) h2
  | _ => trivial

/-- the stuck/fuel/unsup outcomes and failed sub-evaluations ask for nothing -/
theorem SGoal.trivial_of {o : SpecC04.Out (Flow × Env)} {locals' fr p sz d st bO bI}
    (h : o = .fuel ∨ o = .stuck ∨ o = .unsup) : SGoal C o locals' fr p sz d st bO bI := by
  rcases h with rfl | rfl | rfl <;> trivial

/-- an expression result in front of a statement continuation -/
theorem SGoal.bindE {ox : SpecC04.Out Val} {k : Val → SpecC04.Out (Flow × Env)} {locals' fr} {p p1 : Int} {sz d : Nat} {st bO bI}
    (h1 : EGoal C ox fr p p1 st)
    (h2 : ∀ v, ox = .ok v →
      match k v with
      | .ok (.next, env') =>
        ∃ fr', Reaches C.fx C.venv C.f ⟨fr, p1, pushVal v st⟩ ⟨fr', p + sz, st⟩ ∧ Inv C.fn locals' env' fr' bO bI ∧
          fr'.top = fr.top ∧ fr'.intTop = fr.intTop
      | .ok (.brk, env') =>
        ∃ fr', Reaches C.fx C.venv C.f ⟨fr, p1, pushVal v st⟩ ⟨fr', p + sz + d, st⟩ ∧ Inv C.fn locals' env' fr' bO bI ∧
          fr'.top = fr.top ∧ fr'.intTop = fr.intTop
      | .ok (.ret rv, _) =>
        (rv.isSome ↔ C.fn.retVoid = false) →
        ∃ st1, Ends C.fx C.venv C.f ⟨fr, p1, pushVal v st⟩ (.done (resOf rv, st1)) ∧ BaseOf st1 bO bI ∧
          st1.variadicLen = st.variadicLen
      | .panic q => Ends C.fx C.venv C.f ⟨fr, p1, pushVal v st⟩ (.panic q)
      | _ => True) :
    SGoal C (ox >>= k) locals' fr p sz d st bO bI := by
  cases ox with
  | ok v =>
    simp only [EGoal] at h1
    simp only [SpecC04.Out.bind_ok]
    have h := h2 v rfl
    cases hk : k v with
    | ok r =>
      obtain ⟨fl, env'⟩ := r
      simp only [hk] at h
      cases fl with
      | next => obtain ⟨fr', hr, rest⟩ := h; exact ⟨fr', h1.trans _ _ _ hr, rest⟩
      | brk => obtain ⟨fr', hr, rest⟩ := h; exact ⟨fr', h1.trans _ _ _ hr, rest⟩
      | ret rv =>
        intro hv
        obtain ⟨st1, he, hb⟩ := h hv
        exact ⟨st1, Ends.of_reaches _ _ _ h1 (by simp) he, hb⟩
    | panic q => simp only [hk] at h; exact Ends.of_reaches _ _ _ h1 (by simp) h
    | _ => trivial
  | panic q => simpa [SGoal, EGoal] using h1
  | _ => simp [bind, SpecC04.Out.bind, SGoal]

theorem step_return_val {f : CFunc} {fr : Frame} {st : Stack} {pc : Int} (v : Val) :
    step f fr (pushVal v st) pc (if isInt (tagOf v) then .returnIntTop else .returnTop) =
      .ok (.ret (resOf (some v)) (pushVal v st)) := by
  cases v <;> simp [step, pushVal, pushInt, pushObj, tagOf, isInt, resOf, objOf]

theorem simS_ret (n : Nat) (ihE : SimE C n) (env : Env) (ty : Ty) (e : Expr) (inLoop : Bool) (cs : SState) (lu : Bool)
    (sis : List SI) (cs' : SState) (lu' : Bool)
    (hc : compS C.fx C.cenv C.fn inLoop (.ret ty e) cs lu = some (sis, cs', lu'))
    (d : Nat) (p : Int) (hat : At C.f.code p (resolve sis d)) (hpool : PoolOK cs' C.f)
    (fr : Frame) (bO : List Obj) (bI : List Int64) (hI : Inv C.fn cs.locals env fr bO bI) (st : Stack) (hB : BaseOf st bO bI) :
    SGoal C (execStmt C.P C.fn.retVoid (n + 1) env (.ret ty e)) cs'.locals fr p (ssize sis) d st bO bI := by
  simp only [execStmt]
  by_cases hvoid : C.fn.retVoid = true
  · simp only [hvoid, if_true]; trivial
  · simp only [hvoid]
    have hv2 : C.fn.retVoid = false := by simpa using hvoid
    simp only [compS, hv2, Bool.false_eq_true, if_false] at hc
    -- all three compile shapes end with an instruction that returns the value on top
    have key : ∀ (ie : List Instr) (ins : Instr), sis = lift (ie ++ [ins]) →
        EGoal C (evalExpr C.P n env e) fr p (p + isize ie) st →
        (∀ v, evalExpr C.P n env e = .ok v → tagOf v = ty →
          step C.f fr (pushVal v st) (p + isize ie) ins = .ok (.ret (resOf (some v)) (pushVal v st))) →
        SGoal C (evalExpr C.P n env e >>= fun v => if tagOf v == ty then pure (Flow.ret (some v), env) else .stuck)
          cs'.locals fr p (ssize sis) d st bO bI := by
      intro ie ins hsis hE hstep
      subst hsis
      rw [resolve_lift, at_append] at hat
      refine SGoal.bindE C hE ?_
      intro v hv
      by_cases ht : (tagOf v == ty) = true
      · simp only [ht, if_true, pure]
        intro _
        refine ⟨pushVal v st, ⟨1, run_ret _ _ _ hat.2.1 (hstep v hv (by simpa using ht)) 0⟩, hB.pushVal v, by cases v <;> rfl⟩
      · simp only [ht]; trivial
    have lit : ∀ (b : Bool), e = .cbool b true → sis = [.i (if b then .returnTrue else .returnFalse)] →
        SGoal C (evalExpr C.P n env e >>= fun v => if tagOf v == ty then pure (Flow.ret (some v), env) else .stuck)
          cs'.locals fr p (ssize sis) d st bO bI := by
      intro b he hs
      subst he
      cases n with
      | zero => simp [evalExpr, bind, SpecC04.Out.bind, SGoal]
      | succ m =>
        simp only [evalExpr, SpecC04.Out.bind_ok]
        by_cases ht : (tagOf (Val.bool b) == ty) = true
        · simp only [ht, if_true, pure]
          intro _
          subst hs
          have hd : decodeAt C.f.code p = .ok (if b then Instr.returnTrue else Instr.returnFalse) := by
            cases b <;> simpa [resolve] using hat.1
          refine ⟨st, ⟨1, run_ret _ _ _ hd (r := resOf (some (.bool b))) (st' := st) ?_ 0⟩, hB, rfl⟩
          cases b <;> simp [step, resOf, objOf]
        · simp only [ht]; trivial
    split at hc
    · simp at hc; obtain ⟨rfl, rfl, rfl⟩ := hc; exact lit true rfl rfl
    · simp at hc; obtain ⟨rfl, rfl, rfl⟩ := hc; exact lit false rfl rfl
    · ucompS at hc
      obtain ⟨ie, s1, he, rfl, rfl, rfl⟩ := hc
      have hat' := hat
      rw [resolve_lift, at_append] at hat'
      refine key ie _ rfl (ihE env e cs ie _ he p hat'.1 hpool fr bO bI hI.frame st hB) ?_
      intro v _ htag
      subst htag
      exact step_return_val v

theorem simS_simple (hfx : FxOK C.fx) (n : Nat) (env : Env) (inLoop : Bool) (cs : SState) (lu : Bool)
    (d : Nat) (p : Int) (fr : Frame) (bO : List Obj) (bI : List Int64) (hI : Inv C.fn cs.locals env fr bO bI) (st : Stack)
    (hB : BaseOf st bO bI) :
    (∀ sis cs' lu', compS C.fx C.cenv C.fn inLoop .retNone cs lu = some (sis, cs', lu') → At C.f.code p (resolve sis d) →
      SGoal C (execStmt C.P C.fn.retVoid (n + 1) env .retNone) cs'.locals fr p (ssize sis) d st bO bI) ∧
    (∀ sis cs' lu', compS C.fx C.cenv C.fn inLoop .brk cs lu = some (sis, cs', lu') → At C.f.code p (resolve sis d) →
      SGoal C (execStmt C.P C.fn.retVoid (n + 1) env .brk) cs'.locals fr p (ssize sis) d st bO bI) ∧
    (∀ inc x sis cs' lu', compS C.fx C.cenv C.fn inLoop (.incdec inc x) cs lu = some (sis, cs', lu') → At C.f.code p (resolve sis d) →
      SGoal C (execStmt C.P C.fn.retVoid (n + 1) env (.incdec inc x)) cs'.locals fr p (ssize sis) d st bO bI) := by
  refine ⟨?_, ?_, ?_⟩
  · intro sis cs' lu' hc hat
    simp only [execStmt]
    simp only [compS] at hc
    split at hc
    · rename_i hv
      simp at hc; obtain ⟨rfl, rfl, rfl⟩ := hc
      simp only [hv, if_true, pure]
      intro _
      exact ⟨st, ⟨1, run_ret _ _ _ (by simpa [resolve] using hat.1) (r := resOf none) (st' := st) (by simp [step, resOf]) 0⟩, hB, rfl⟩
    · simp at hc
  · intro sis cs' lu' hc hat
    simp only [execStmt, pure]
    simp only [compS] at hc
    split at hc
    · simp at hc; obtain ⟨rfl, rfl, rfl⟩ := hc
      simp only [resolve, ssize, SI.width] at hat ⊢
      refine ⟨fr, ?_, hI, rfl, rfl⟩
      exact (reaches_step C.fx C.venv C.f (fr := fr) (st := st) (hd := hat.1) (hs := step_jump _)).pc_cast rfl (by omega)
    · simp at hc
  · intro inc x sis cs' lu' hc hat
    simp only [execStmt]
    simp only [compS] at hc
    cases hm : mapGet cs.locals x with
    | none => simp [hm] at hc
    | some id =>
      simp only [hm] at hc
      ucompS at hc
      obtain ⟨a, ha, rfl, rfl, rfl⟩ := hc
      obtain ⟨rfl, _⟩ := op8_eq hfx.range ha
      cases hl : lookup env x with
      | none => trivial
      | some w =>
        cases w with
        | int i =>
          simp only []
          obtain ⟨env1, hu⟩ := update_isSome_of_lookup env x (.int (if inc then i + 1 else i - 1)) _ hl
          simp only [hu, pure]
          have hlt : a < 8 := by have := hI.lwf.lt x a hm; have := hI.lwf.len; omega
          -- x is a local: its slot holds i
          have hslot : fr.intLocals[a]? = some i := by
            rcases hI.frame x _ hl with ⟨j, hj, _⟩ | ⟨_, j, k, hj, _⟩ | ⟨_, _, j, hj, hs⟩
            · have := hI.lwf.noParam x a hm; simp [isParamName, hj] at this
            · have := hI.lwf.noParam x a hm; simp [isParamName, hj] at this
            · rw [hm] at hj; cases hj; exact hs
          refine ⟨setSlot fr a (.int (if inc then i + 1 else i - 1)), ?_, hI.assign _ hm hu, (setSlot_top _ _ _).1, (setSlot_top _ _ _).2⟩
          have hd : decodeAt C.f.code p = .ok (if inc then Instr.incLocal a else Instr.decLocal a) := by
            cases inc <;> simpa [resolve] using hat.1
          have hs : step C.f fr st p (if inc then Instr.incLocal a else Instr.decLocal a) =
              .ok (.cont (setSlot fr a (.int (if inc then i + 1 else i - 1))) st (p + 2)) := by
            have hget : fr.intLocals[a]'(by rw [hI.fwf.lenI]; exact hlt) = i := by
              have := List.getElem?_eq_some_iff.mp hslot; exact this.2
            cases inc <;> simp [step, getIdx, setIdx, hslot, hI.fwf.lenI, hlt, setSlot, bind, Res.bind, hget]
          refine (reaches_step C.fx C.venv C.f (hd := hd) (hs := hs)).pc_cast rfl ?_
          cases inc <;> simp [ssize, SI.width]
        | _ => trivial

/-- the values of the right-hand side of an assignment / of an expression statement -/
def rhsVals (P : SpecC04.Prog) (n : Nat) (env : Env) (rhs : Expr) : SpecC04.Out (List Val) :=
  match rhs with
  | .call ci recv args => evalCall P n env ci recv args
  | e => do let v ← evalExpr P n env e; pure [v]

theorem rhs_goal (n : Nat) (ihE : SimE C n) (ihC : SimCall C n) (env : Env) (rhs : Expr) (cs : SState) (ie : List Instr)
    (cs' : SState) (hc : compE C.fx C.cenv C.fn rhs cs = some (ie, cs')) (p : Int) (hat : At C.f.code p ie)
    (hpool : PoolOK cs' C.f) (fr : Frame) (bO : List Obj) (bI : List Int64) (hF : FrameOK C.fn cs.locals env fr bO bI)
    (st : Stack) (hB : BaseOf st bO bI) :
    CGoal C (rhsVals C.P n env rhs) fr p (p + isize ie) st := by
  have gen : (∀ ci recv args, rhs ≠ .call ci recv args) →
      CGoal C (do let v ← evalExpr C.P n env rhs; pure [v]) fr p (p + isize ie) st := by
    intro _
    have h := ihE env rhs cs ie cs' hc p hat hpool fr bO bI hF st hB
    cases hv : evalExpr C.P n env rhs with
    | ok v => simp only [hv, EGoal] at h; simpa [CGoal, pushVals, pure] using h
    | panic q => simpa [hv, EGoal, CGoal, bind, SpecC04.Out.bind] using h
    | _ => simp [CGoal, bind, SpecC04.Out.bind]
  cases rhs with
  | call ci recv args => exact ihC env ci recv args cs ie cs' hc p hat hpool fr bO bI hF st hB
  | _ => exact gen (by intros; simp)

/-- a call/expression result list in front of a statement continuation -/
theorem SGoal.bindC {ox : SpecC04.Out (List Val)} {k : List Val → SpecC04.Out (Flow × Env)} {locals' fr} {p p1 : Int} {sz d : Nat}
    {st bO bI}
    (h1 : CGoal C ox fr p p1 st)
    (h2 : ∀ vs, ox = .ok vs → vs.length ≤ 1 →
      match k vs with
      | .ok (.next, env') =>
        ∃ fr', Reaches C.fx C.venv C.f ⟨fr, p1, pushVals vs st⟩ ⟨fr', p + sz, st⟩ ∧ Inv C.fn locals' env' fr' bO bI ∧
          fr'.top = fr.top ∧ fr'.intTop = fr.intTop
      | .ok (.brk, _) => False
      | .ok (.ret _, _) => False
      | .panic _ => False
      | _ => True) :
    SGoal C (ox >>= k) locals' fr p sz d st bO bI := by
  cases ox with
  | ok vs =>
    simp only [CGoal] at h1
    simp only [SpecC04.Out.bind_ok]
    have h := h2 vs rfl h1.1
    cases hk : k vs with
    | ok r =>
      obtain ⟨fl, env'⟩ := r
      simp only [hk] at h
      cases fl with
      | next => obtain ⟨fr', hr, rest⟩ := h; exact ⟨fr', h1.2.trans _ _ _ hr, rest⟩
      | brk => exact h.elim
      | ret rv => exact h.elim
    | panic q => simp only [hk] at h
    | _ => trivial
  | panic q => simpa [SGoal, CGoal] using h1
  | _ => simp [bind, SpecC04.Out.bind, SGoal]

theorem simS_assign (hfx : FxOK C.fx) (n : Nat) (ihE : SimE C n) (ihC : SimCall C n) (env : Env) (define : Bool)
    (lhs : List (Nat × Ty)) (rhs : Expr) (inLoop : Bool) (cs : SState) (lu : Bool)
    (sis : List SI) (cs' : SState) (lu' : Bool)
    (hc : compS C.fx C.cenv C.fn inLoop (.assign define lhs rhs) cs lu = some (sis, cs', lu'))
    (d : Nat) (p : Int) (hat : At C.f.code p (resolve sis d)) (hpool : PoolOK cs' C.f)
    (fr : Frame) (bO : List Obj) (bI : List Int64) (hI : Inv C.fn cs.locals env fr bO bI) (st : Stack) (hB : BaseOf st bO bI) :
    SGoal C (execStmt C.P C.fn.retVoid (n + 1) env (.assign define lhs rhs)) cs'.locals fr p (ssize sis) d st bO bI := by
  ucompS at hc
  obtain ⟨ie, s1, he, it, s2, ht, rfl, rfl, rfl⟩ := hc
  rw [resolve_lift, at_append] at hat
  have m1 := compE_mono _ _ _ he
  have e2 := compTargets_ext hfx.shadow C.fn define _ _ _ _ ht
  have hrhs := rhs_goal C n ihE ihC env rhs cs ie s1 he p hat.1 (hpool.of_ext e2) fr bO bI hI.frame st hB
  have hI1 : Inv C.fn s1.locals env fr bO bI := by rw [m1.1]; exact hI
  show SGoal C (rhsVals C.P n env rhs >>= fun vs =>
      match (if define then defineAll lhs vs env else assignAll lhs vs env) with
      | some env' => pure (Flow.next, env')
      | none => .stuck) _ _ _ _ _ _ _ _
  refine SGoal.bindC C hrhs ?_
  intro vs _ hlen
  cases vs with
  | nil =>
    -- no value: only an empty left-hand side is not stuck
    cases lhs with
    | nil =>
      simp only [List.reverse_nil, compTargets, Option.some.injEq, Prod.mk.injEq] at ht
      obtain ⟨rfl, rfl⟩ := ht
      cases define <;> simp only [defineAll, assignAll, if_true, Bool.false_eq_true, if_false, pure] <;>
        exact ⟨fr, (Reaches.refl _ _ _ _).pc_cast rfl (by simp [ssize_lift, isize_append]), hI1, rfl, rfl⟩
    | cons t ts => cases define <;> simp [defineAll, assignAll]
  | cons v rest =>
    cases rest with
    | cons _ _ => simp at hlen
    | nil =>
      cases lhs with
      | nil => cases define <;> simp [defineAll, assignAll]
      | cons t ts =>
        obtain ⟨x, ty⟩ := t
        cases ts with
        | cons _ _ => cases define <;> simp [defineAll, assignAll] <;> split <;> simp [defineAll, assignAll]
        | nil =>
          simp only [List.reverse_cons, List.reverse_nil, List.nil_append, compTargets] at ht
          by_cases htag : (tagOf v == ty) = true
          · have htag' : tagOf v = ty := by simpa using htag
            cases define with
            | true =>
              simp only [if_true] at ht ⊢
              simp only [defineAll, htag, if_true, pure]
              split at ht
              · simp at ht
              · rename_i hnew
                split at ht
                · simp at ht
                · split at ht
                  · simp at ht
                  · rename_i hlen8
                    split at ht
                    · simp at ht
                    · rename_i hsp
                      simp only [bind, Option.bind_eq_bind, Option.bind_eq_some_iff, pure, Option.pure_def, Option.some.injEq,
                        Prod.mk.injEq, Prod.exists] at ht
                      obtain ⟨a, ha, r, s3, hr, rfl, rfl⟩ := ht
                      simp at hr; obtain ⟨rfl, rfl⟩ := hr
                      obtain ⟨rfl, _⟩ := op8_eq hfx.range ha
                      have hn : mapGet s1.locals x = none := by
                        cases hm : mapGet s1.locals x with
                        | none => rfl
                        | some _ => simp [hm] at hnew
                      have hpn : isParamName C.fn x = false := by
                        cases hq : isParamName C.fn x with
                        | false => rfl
                        | true => simp [hfx.shadow, hq] at hsp
                      have hl8 : s1.locals.length ≠ 8 := by simpa [Opc.maxLocals] using hlen8
                      have hlt : s1.locals.length < 8 := by have := hI1.lwf.len; omega
                      refine ⟨setSlot fr s1.locals.length v, ?_, hI1.define v hn hl8 hpn, (setSlot_top _ _ _).1, (setSlot_top _ _ _).2⟩
                      have hs := step_setSlot (f := C.f) (st := st) (pc := p + isize ie) hI1.fwf hlt v
                      rw [htag'] at hs
                      exact (reaches_step C.fx C.venv C.f (hd := hat.2.1) (hs := hs)).pc_cast rfl
                        (by simp [ssize_lift, isize_append]; split <;> simp <;> omega)
            | false =>
              simp only [Bool.false_eq_true, if_false] at ht ⊢
              cases hm : mapGet s1.locals x with
              | none => simp [hm] at ht
              | some id =>
                simp only [hm, bind, Option.bind_eq_bind, Option.bind_eq_some_iff, pure, Option.pure_def, Option.some.injEq,
                  Prod.mk.injEq, Prod.exists] at ht
                obtain ⟨a, ha, r, s3, hr, rfl, rfl⟩ := ht
                simp at hr; obtain ⟨rfl, rfl⟩ := hr
                obtain ⟨rfl, _⟩ := op8_eq hfx.range ha
                simp only [assignAll, htag, if_true]
                cases hu : update env x v with
                | none => simp
                | some env1 =>
                  simp only [Option.bind_some, assignAll, pure]
                  have hlt : a < 8 := by have := hI1.lwf.lt x a hm; have := hI1.lwf.len; omega
                  refine ⟨setSlot fr a v, ?_, hI1.assign v hm hu, (setSlot_top _ _ _).1, (setSlot_top _ _ _).2⟩
                  have hs := step_setSlot (f := C.f) (st := st) (pc := p + isize ie) hI1.fwf hlt v
                  rw [htag'] at hs
                  exact (reaches_step C.fx C.venv C.f (hd := hat.2.1) (hs := hs)).pc_cast rfl
                    (by simp [ssize_lift, isize_append]; split <;> simp <;> omega)
          · cases define <;> simp [defineAll, assignAll, htag]

theorem simS_exprCall (n : Nat) (ihE : SimE C n) (ihC : SimCall C n) (env : Env) (e : Expr) (inLoop : Bool) (cs : SState) (lu : Bool)
    (sis : List SI) (cs' : SState) (lu' : Bool)
    (hc : compS C.fx C.cenv C.fn inLoop (.exprCall e) cs lu = some (sis, cs', lu'))
    (d : Nat) (p : Int) (hat : At C.f.code p (resolve sis d)) (hpool : PoolOK cs' C.f)
    (fr : Frame) (bO : List Obj) (bI : List Int64) (hI : Inv C.fn cs.locals env fr bO bI) (st : Stack) (hB : BaseOf st bO bI) :
    SGoal C (execStmt C.P C.fn.retVoid (n + 1) env (.exprCall e)) cs'.locals fr p (ssize sis) d st bO bI := by
  ucompS at hc
  obtain ⟨ie, s1, he, rfl, rfl, rfl⟩ := hc
  rw [resolve_lift] at hat
  have m1 := compE_mono _ _ _ he
  cases e with
  | call ci recv args =>
    have hrhs := ihC env ci recv args cs ie s1 he p hat hpool fr bO bI hI.frame st hB
    simp only [execStmt]
    refine SGoal.bindC C hrhs ?_
    intro vs _ _
    cases vs with
    | nil =>
      simp only [pure]
      exact ⟨fr, (Reaches.refl _ _ _ _).pc_cast rfl (by simp [ssize_lift]), by rw [m1.1]; exact hI, rfl, rfl⟩
    | cons _ _ => trivial
  | _ => simp [execStmt, SGoal]

/-- the pieces of an `if` without else -/
theorem at_ifThen {code : Bytes} {p : Int} {ic : List Instr} {j : Instr} {ib : List SI} {d : Nat}
    (h : At code p (resolve (lift ic ++ [SI.i j] ++ ib) d)) :
    At code p ic ∧ decodeAt code (p + isize ic) = .ok j ∧ At code (p + isize ic + j.width) (resolve ib d) := by
  rw [List.append_assoc, resolve_append, resolve_lift, at_append] at h
  simp only [List.cons_append, List.nil_append, resolve, At] at h
  exact ⟨h.1, h.2.1, h.2.2⟩

theorem inv_locals_eq {fn : CFn} {l l' : List (Nat × Nat)} {env fr bO bI} (e : l' = l) (h : Inv fn l env fr bO bI) :
    Inv fn l' env fr bO bI := e ▸ h

/-- a statement result passed through the scope of an `if`/loop body -/
theorem SGoal.inScope {o : SpecC04.Out (Flow × Env)} {locals' fr p sz d st bO bI} {outer : Env}
    (h : SGoal C o locals' fr p sz d st bO bI)
    (hk : ∀ fl env', o = .ok (fl, env') → KeysExt outer env') :
    SGoal C (inScope outer o) locals' fr p sz d st bO bI := by
  cases o with
  | ok r =>
    obtain ⟨fl, env'⟩ := r
    have k := hk fl env' rfl
    cases fl with
    | next => obtain ⟨fr', hr, hi, t⟩ := h; exact ⟨fr', hr, hi.leave k, t⟩
    | brk => obtain ⟨fr', hr, hi, t⟩ := h; exact ⟨fr', hr, hi.leave k, t⟩
    | ret rv => exact h
  | panic q => exact h
  | _ => trivial

/-- a condition in front of a statement goal that starts after the conditional jump consumed it -/
theorem SGoal.bindE' {ox : SpecC04.Out Val} {k : Val → SpecC04.Out (Flow × Env)} {locals' fr} {p p1 : Int} {sz d : Nat} {st bO bI}
    (h1 : EGoal C ox fr p p1 st)
    (h2 : ∀ v, ox = .ok v → (k v = .stuck) ∨ ∃ (p2 : Int) (sz2 : Nat), Reaches C.fx C.venv C.f ⟨fr, p1, pushVal v st⟩ ⟨fr, p2, st⟩ ∧
        SGoal C (k v) locals' fr p2 sz2 d st bO bI ∧ p2 + sz2 = p + sz) :
    SGoal C (ox >>= k) locals' fr p sz d st bO bI := by
  cases ox with
  | ok v =>
    simp only [EGoal] at h1
    simp only [SpecC04.Out.bind_ok]
    rcases h2 v rfl with hs | ⟨p2, sz2, hr, hg, he⟩
    · rw [hs]; trivial
    · exact SGoal.of_reaches C (h1.trans _ _ _ hr) hg he ⟨rfl, rfl⟩
  | panic q => simpa [SGoal, EGoal] using h1
  | _ => simp [bind, SpecC04.Out.bind, SGoal]

theorem SGoal.next_here {locals' : List (Nat × Nat)} {env' : Env} {fr : Frame} {p : Int} {d : Nat} {st bO bI}
    (hi : Inv C.fn locals' env' fr bO bI) : SGoal C (.ok (.next, env')) locals' fr p 0 d st bO bI :=
  ⟨fr, (Reaches.refl _ _ _ _).pc_cast rfl (by simp), hi, rfl, rfl⟩

theorem simS_ifThen (hfx : FxOK C.fx) (n : Nat) (ihE : SimE C n) (ihS : SimS C n) (env : Env) (c : Expr) (body : Stmt) (inLoop : Bool)
    (cs : SState) (lu : Bool) (sis : List SI) (cs' : SState) (lu' : Bool)
    (hc : compS C.fx C.cenv C.fn inLoop (.ifThen c body) cs lu = some (sis, cs', lu'))
    (d : Nat) (p : Int) (hat : At C.f.code p (resolve sis d)) (hpool : PoolOK cs' C.f)
    (fr : Frame) (bO : List Obj) (bI : List Int64) (hI : Inv C.fn cs.locals env fr bO bI) (st : Stack) (hB : BaseOf st bO bI) :
    SGoal C (execStmt C.P C.fn.retVoid (n + 1) env (.ifThen c body)) cs'.locals fr p (ssize sis) d st bO bI := by
  ucompS at hc
  obtain ⟨ic, s1, hcc, ib, s2, lu2, hb, rfl, rfl, rfl⟩ := hc
  obtain ⟨hatc, hatj, hatb⟩ := at_ifThen hat
  have m1 := compE_mono _ _ _ hcc
  have e2 := compS_ext hfx C.cenv C.fn hb
  have hE := ihE env c cs ic s1 hcc p hatc (hpool.of_ext e2) fr bO bI hI.frame st hB
  have hI1 : Inv C.fn s1.locals env fr bO bI := inv_locals_eq m1.1 hI
  simp only [execStmt]
  have hsz : ssize (lift ic ++ [SI.i (Instr.jumpFalse ((3 + ssize ib : Nat) : Int))] ++ ib) = isize ic + 3 + ssize ib := by
    simp [ssize_append, ssize_lift, ssize, SI.width]; omega
  refine SGoal.bindE' C hE ?_
  intro v _
  cases v with
  | bool b =>
    have hj := reaches_step C.fx C.venv C.f (fr := fr) (hd := hatj) (hs := step_jumpFalse (st := st) b _)
    cases b with
    | true =>
      simp only []
      have hS := ihS env body inLoop s1 false ib s2 lu2 hb d (p + isize ic + 3) (hatb.pc_cast (by simp)) hpool fr bO bI hI1 st hB
      have hS' := SGoal.inScope C (outer := env) hS (fun fl env' h => (SpecC04.exec_keys C.P C.fn.retVoid n).1 _ _ _ _ h)
      exact Or.inr ⟨p + isize ic + 3, ssize ib, hj.pc_cast rfl (by simp), hS', by rw [hsz]; omega⟩
    | false =>
      simp only [pure]
      refine Or.inr ⟨p + isize ic + 3 + ssize ib, 0, hj.pc_cast rfl (by simp; omega), ?_, by rw [hsz]; omega⟩
      exact SGoal.next_here C (hI1.ext e2)
  | _ => exact Or.inl rfl

/-- code behind a statement (a jump to the end of the construct) and a different distance to the loop exit -/
theorem SGoal.extend {o : SpecC04.Out (Flow × Env)} {locals' fr} {p : Int} {sz sz2 d d' : Nat} {st bO bI}
    (h : SGoal C o locals' fr p sz d' st bO bI)
    (tail : ∀ env', o = .ok (.next, env') → ∀ fr', Reaches C.fx C.venv C.f ⟨fr', p + sz, st⟩ ⟨fr', p + sz2, st⟩)
    (hd : sz + d' = sz2 + d) : SGoal C o locals' fr p sz2 d st bO bI := by
  cases o with
  | ok r =>
    obtain ⟨fl, env'⟩ := r
    cases fl with
    | next => obtain ⟨fr', hr, rest⟩ := h; exact ⟨fr', hr.trans _ _ _ (tail env' rfl fr'), rest⟩
    | brk => obtain ⟨fr', hr, rest⟩ := h; exact ⟨fr', hr.pc_cast rfl (by omega), rest⟩
    | ret rv => exact h
  | panic q => exact h
  | _ => trivial

theorem SGoal.mono_ext {o : SpecC04.Out (Flow × Env)} {cs2 cs3 : SState} {fr p sz d st bO bI}
    (he : SExt C.fn cs2 cs3) (h : SGoal C o cs2.locals fr p sz d st bO bI) : SGoal C o cs3.locals fr p sz d st bO bI := by
  cases o with
  | ok r =>
    obtain ⟨fl, env'⟩ := r
    cases fl with
    | next => obtain ⟨fr', hr, hi, t⟩ := h; exact ⟨fr', hr, hi.ext he, t⟩
    | brk => obtain ⟨fr', hr, hi, t⟩ := h; exact ⟨fr', hr, hi.ext he, t⟩
    | ret rv => exact h
  | panic q => exact h
  | _ => trivial

theorem at_ifElse {code : Bytes} {p : Int} {ic : List Instr} {j : Instr} {ib jmp ie : List SI} {d : Nat}
    (h : At code p (resolve (lift ic ++ [SI.i j] ++ ib ++ jmp ++ ie) d)) :
    At code p ic ∧ decodeAt code (p + isize ic) = .ok j ∧
      At code (p + isize ic + j.width) (resolve ib (d + ssize ie + ssize jmp)) ∧
      At code (p + isize ic + j.width + ssize ib) (resolve jmp (d + ssize ie)) ∧
      At code (p + isize ic + j.width + ssize ib + ssize jmp) (resolve ie d) := by
  rw [resolve_append, resolve_append, at_append, at_append, isize_resolve] at h
  obtain ⟨⟨h1, h2⟩, h3⟩ := h
  have h1' := at_ifThen h1
  refine ⟨h1'.1, h1'.2.1, h1'.2.2, ?_, ?_⟩
  · refine h2.pc_cast ?_
    simp [ssize_append, ssize_lift, ssize, SI.width]; omega
  · refine h3.pc_cast ?_
    simp [isize_append, isize_resolve, ssize_append, ssize_lift, ssize, SI.width]; omega

theorem simS_ifElse (hfx : FxOK C.fx) (n : Nat) (ihE : SimE C n) (ihS : SimS C n) (env : Env) (c : Expr) (body els : Stmt)
    (inLoop : Bool) (cs : SState) (lu : Bool) (sis : List SI) (cs' : SState) (lu' : Bool)
    (hc : compS C.fx C.cenv C.fn inLoop (.ifElse c body els) cs lu = some (sis, cs', lu'))
    (d : Nat) (p : Int) (hat : At C.f.code p (resolve sis d)) (hpool : PoolOK cs' C.f)
    (fr : Frame) (bO : List Obj) (bI : List Int64) (hI : Inv C.fn cs.locals env fr bO bI) (st : Stack) (hB : BaseOf st bO bI) :
    SGoal C (execStmt C.P C.fn.retVoid (n + 1) env (.ifElse c body els)) cs'.locals fr p (ssize sis) d st bO bI := by
  ucompS at hc
  obtain ⟨ic, s1, hcc, ib, s2, lu2, hb, ie, s3, lu3, he, rfl, rfl, rfl⟩ := hc
  generalize hjmp : (if lu2 = true then ([] : List SI) else [SI.i (Instr.jump ((3 + ssize ie : Nat) : Int))]) = jmp at hat ⊢
  obtain ⟨hatc, hatj, hatb, hatm, hate⟩ := at_ifElse hat
  simp only [Instr.w_jumpFalse] at hatb hatm hate
  have m1 := compE_mono _ _ _ hcc
  have e2 := compS_ext hfx C.cenv C.fn hb
  have e3 := compS_ext hfx C.cenv C.fn he
  have hE := ihE env c cs ic s1 hcc p hatc (hpool.of_ext (e2.trans e3)) fr bO bI hI.frame st hB
  have hI1 : Inv C.fn s1.locals env fr bO bI := inv_locals_eq m1.1 hI
  simp only [execStmt]
  have hsz : ssize (lift ic ++ [SI.i (Instr.jumpFalse ((3 + ssize ib + ssize jmp : Nat) : Int))] ++ ib ++ jmp ++ ie) =
      isize ic + 3 + ssize ib + ssize jmp + ssize ie := by
    simp [ssize_append, ssize_lift, ssize, SI.width]; omega
  refine SGoal.bindE' C hE ?_
  intro v _
  cases v with
  | bool b =>
    have hj := reaches_step C.fx C.venv C.f (fr := fr) (hd := hatj) (hs := step_jumpFalse (st := st) b _)
    cases b with
    | true =>
      simp only []
      have hS := ihS env body inLoop s1 false ib s2 lu2 hb (d + ssize ie + ssize jmp) (p + isize ic + 3) hatb
        (hpool.of_ext e3) fr bO bI hI1 st hB
      have hS' := SGoal.inScope C (outer := env) hS (fun fl env' h => (SpecC04.exec_keys C.P C.fn.retVoid n).1 _ _ _ _ h)
      -- the table of the whole statement extends the one after the then-branch
      have hS'' : SGoal C (inScope env (execStmt C.P C.fn.retVoid n env body)) s3.locals fr (p + isize ic + 3) (ssize ib)
          (d + ssize ie + ssize jmp) st bO bI := SGoal.mono_ext C e3 hS'
      refine Or.inr ⟨p + isize ic + 3, ssize ib + ssize jmp + ssize ie, hj.pc_cast rfl (by simp), ?_, by rw [hsz]; omega⟩
      refine SGoal.extend C hS'' ?_ (by omega)
      intro env' hnext fr'
      by_cases hl : lu2 = true
      · -- the then-branch cannot complete normally
        exfalso
        subst hl
        obtain ⟨e1, h1, _⟩ := inScope_eq_ok hnext
        have := (noFall hfx C.cenv C.fn C.P C.fn.retVoid n).1 env body inLoop s1 false ib s2 e1 hb h1
        exact absurd this (by decide)
      · simp only [hl] at hjmp
        subst hjmp
        simp only [Bool.false_eq_true, if_false, resolve, At] at hatm
        have := reaches_step C.fx C.venv C.f (fr := fr') (st := st) (hd := hatm.1) (hs := step_jump _)
        exact this.pc_cast (by omega) (by simp [ssize, SI.width]; omega)
    | false =>
      simp only []
      have hS := ihS env els inLoop s2 (if C.fx.ifJump = true then false else true) ie s3 lu3 he d
        (p + isize ic + 3 + ssize ib + ssize jmp) hate hpool fr bO bI (hI1.ext e2) st hB
      have hS' := SGoal.inScope C (outer := env) hS (fun fl env' h => (SpecC04.exec_keys C.P C.fn.retVoid n).1 _ _ _ _ h)
      exact Or.inr ⟨p + isize ic + 3 + ssize ib + ssize jmp, ssize ie, hj.pc_cast rfl (by simp; omega), hS', by rw [hsz]; omega⟩
  | _ => exact Or.inl rfl

theorem simS_block (n : Nat) (ihB : SimBlock C n) (env : Env) (ss : List Stmt)
    (inLoop : Bool) (cs : SState) (lu : Bool) (sis : List SI) (cs' : SState) (lu' : Bool)
    (hc : compS C.fx C.cenv C.fn inLoop (.block ss) cs lu = some (sis, cs', lu'))
    (d : Nat) (p : Int) (hat : At C.f.code p (resolve sis d)) (hpool : PoolOK cs' C.f)
    (fr : Frame) (bO : List Obj) (bI : List Int64) (hI : Inv C.fn cs.locals env fr bO bI) (st : Stack) (hB : BaseOf st bO bI) :
    SGoal C (execStmt C.P C.fn.retVoid (n + 1) env (.block ss)) cs'.locals fr p (ssize sis) d st bO bI := by
  simp only [compS] at hc
  have h := ihB env ss inLoop cs lu sis cs' lu' hc d p hat hpool fr bO bI hI st hB
  have e : execStmt C.P C.fn.retVoid (n + 1) env (.block ss) = inScope env (execBlock C.P C.fn.retVoid n env ss) := by
    simp only [execStmt]
    cases execBlock C.P C.fn.retVoid n env ss with
    | ok r => obtain ⟨fl, e1⟩ := r; rfl
    | _ => rfl
  rw [e]
  exact SGoal.inScope C h (fun fl env' hh => (SpecC04.exec_keys C.P C.fn.retVoid n).2.1 _ _ _ _ hh)

theorem simBlock_step (hfx : FxOK C.fx) (n : Nat) (ihS : SimS C n) (ihB : SimBlock C n) : SimBlock C (n + 1) := by
  intro env ss inLoop cs lu sis cs' lu' hc d p hat hpool fr bO bI hI st hB
  cases ss with
  | nil =>
    simp [compSs] at hc
    obtain ⟨rfl, rfl, rfl⟩ := hc
    simp only [execBlock]
    exact SGoal.next_here C hI
  | cons s ss =>
    ucompS at hc
    obtain ⟨i1, s1, lu1, h1, i2, s2, lu2, h2, rfl, rfl, rfl⟩ := hc
    rw [resolve_append, at_append, isize_resolve] at hat
    have e2 := compSs_ext hfx C.cenv C.fn h2
    have hS := ihS env s inLoop cs lu i1 s1 lu1 h1 (d + ssize i2) p hat.1 (hpool.of_ext e2) fr bO bI hI st hB
    simp only [execBlock]
    cases hr : execStmt C.P C.fn.retVoid n env s with
    | ok r =>
      obtain ⟨fl, env1⟩ := r
      simp only [hr, SpecC04.Out.bind_ok] at hS ⊢
      cases fl with
      | next =>
        simp only []
        obtain ⟨fr1, hreach, hI1, t1, t2⟩ := hS
        have hB2 := ihB env1 ss inLoop s1 lu1 i2 s2 lu2 h2 d (p + ssize i1) hat.2 hpool fr1 bO bI hI1 st hB
        exact SGoal.of_reaches C hreach hB2 (by simp [ssize_append]; omega) ⟨t1, t2⟩
      | brk =>
        simp only [pure]
        obtain ⟨fr1, hreach, hI1, t⟩ := hS
        exact ⟨fr1, hreach.pc_cast rfl (by simp [ssize_append]; omega), hI1.ext e2, t⟩
      | ret rv => simp only [pure]; exact hS
    | panic q => simp only [hr, SpecC04.Out.bind_panic] at hS ⊢; exact hS
    | _ => simp [bind, SpecC04.Out.bind, SGoal]

/-- back at a loop head: the table of the body's start state is enough for variables that were visible there -/
theorem Inv.restrict {fn : CFn} {l l' : List (Nat × Nat)} {env env2 : Env} {fr fr2 bO bI}
    (h0 : Inv fn l env fr bO bI) (h : Inv fn l' env2 fr2 bO bI)
    (hl : ∀ x i, mapGet l x = some i → mapGet l' x = some i)
    (hk : env2.map Prod.fst = env.map Prod.fst) : Inv fn l env2 fr2 bO bI := by
  refine ⟨?_, h.nodup, h0.lwf, h.fwf⟩
  intro x v hx
  rcases h.frame x v hx with h1 | h2 | ⟨hp, hip, i', hi', hs⟩
  · exact Or.inl h1
  · exact Or.inr (Or.inl h2)
  · -- x was visible at the loop entry, hence already in the smaller table
    have hxk : x ∈ env.map Prod.fst := by
      rw [← hk, ← Classical.not_not (a := x ∈ _), ← lookup_none_iff]; simp [hx]
    have : lookup env x ≠ none := by rw [Ne, lookup_none_iff]; exact fun hn => hn hxk
    cases hw : lookup env x with
    | none => exact absurd hw this
    | some w =>
      rcases h0.frame x w hw with ⟨i, hi, _⟩ | ⟨_, i, k, hi, _⟩ | ⟨_, _, i, hi, _⟩
      · rw [hp] at hi; simp at hi
      · rw [hip] at hi; simp at hi
      · have e := hl x i hi
        rw [hi'] at e; cases e
        exact Or.inr (Or.inr ⟨hp, hip, i', hi, hs⟩)

theorem exec_empty_block (P : SpecC04.Prog) (vd : Bool) (n : Nat) (env : Env) :
    execStmt P vd n env (.block []) = .fuel ∨ execStmt P vd n env (.block []) = .ok (.next, env) := by
  cases n with
  | zero => left; simp [execStmt]
  | succ m =>
    simp only [execStmt]
    cases m with
    | zero => left; simp [execBlock, bind, SpecC04.Out.bind]
    | succ k => right; simp [execBlock, bind, SpecC04.Out.bind, pure, leave]

def LoopGoal (o : SpecC04.Out (Flow × Env)) (locals' : List (Nat × Nat)) (fr : Frame) (p pend : Int)
    (st : Stack) (bO : List Obj) (bI : List Int64) : Prop :=
  match o with
  | .ok (.next, env') =>
    ∃ fr', Reaches C.fx C.venv C.f ⟨fr, p, st⟩ ⟨fr', pend, st⟩ ∧ Inv C.fn locals' env' fr' bO bI ∧
      fr'.top = fr.top ∧ fr'.intTop = fr.intTop
  | .ok (.brk, _) => True
  | .ok (.ret rv, _) =>
    (rv.isSome ↔ C.fn.retVoid = false) →
    ∃ st1, Ends C.fx C.venv C.f ⟨fr, p, st⟩ (.done (resOf rv, st1)) ∧ BaseOf st1 bO bI ∧ st1.variadicLen = st.variadicLen
  | .panic q => Ends C.fx C.venv C.f ⟨fr, p, st⟩ (.panic q)
  | _ => True

/-- `for { body }` compiled as `body'; jump back` -/
def SimLoopEver (n : Nat) : Prop :=
  ∀ env body cs lu ib cs' lu', compS C.fx C.cenv C.fn true body cs lu = some (ib, cs', lu') →
  ∀ p, At C.f.code p (resolve ib 3 ++ [Instr.jump (-((ssize ib : Nat) : Int))]) → PoolOK cs' C.f →
  ∀ fr bO bI, Inv C.fn cs.locals env fr bO bI →
  ∀ st, BaseOf st bO bI →
    LoopGoal C (loop C.P C.fn.retVoid n env false (.cbool true false) (.block []) body) cs'.locals fr p (p + ssize ib + 3) st bO bI

theorem LoopGoal.of_reaches {o : SpecC04.Out (Flow × Env)} {locals' : List (Nat × Nat)} {fr fr1 : Frame} {p p1 pend : Int}
    {st : Stack} {bO bI}
    (h1 : Reaches C.fx C.venv C.f ⟨fr, p, st⟩ ⟨fr1, p1, st⟩)
    (h2 : LoopGoal C o locals' fr1 p1 pend st bO bI)
    (ht : fr1.top = fr.top ∧ fr1.intTop = fr.intTop) :
    LoopGoal C o locals' fr p pend st bO bI := by
  cases o with
  | ok r =>
    obtain ⟨fl, env'⟩ := r
    cases fl with
    | next =>
      obtain ⟨fr', hr, hi, t1, t2⟩ := h2
      exact ⟨fr', h1.trans _ _ _ hr, hi, t1.trans ht.1, t2.trans ht.2⟩
    | brk => trivial
    | ret rv =>
      intro hv
      obtain ⟨st1, he, hb⟩ := h2 hv
      exact ⟨st1, Ends.of_reaches _ _ _ h1 (by simp) he, hb⟩
  | panic q => exact Ends.of_reaches _ _ _ h1 (by simp) h2
  | _ => trivial

theorem simLoopEver_step (hfx : FxOK C.fx) (n : Nat) (ihS : SimS C n) (ihL : SimLoopEver C n) : SimLoopEver C (n + 1) := by
  intro env body cs lu ib cs' lu' hb p hat hpool fr bO bI hI st hB
  rw [at_append, isize_resolve] at hat
  have e1 := compS_ext hfx C.cenv C.fn hb
  have hS := ihS env body true cs lu ib cs' lu' hb 3 p hat.1 hpool fr bO bI hI st hB
  have hS' := SGoal.inScope C (outer := env) hS (fun fl env' h => (SpecC04.exec_keys C.P C.fn.retVoid n).1 _ _ _ _ h)
  simp only [loop, pure, SpecC04.Out.bind_ok, Bool.not_true, Bool.false_eq_true, if_false]
  cases hr : inScope env (execStmt C.P C.fn.retVoid n env body) with
  | ok r =>
    obtain ⟨fl, env1⟩ := r
    simp only [hr] at hS'
    simp only [SpecC04.Out.bind_ok]
    obtain ⟨e0, he0, hleave⟩ := inScope_eq_ok hr
    have hkeys : env1.map Prod.fst = env.map Prod.fst := by
      rw [hleave]
      exact (SpecC04.leave_of_keysExt ((SpecC04.exec_keys C.P C.fn.retVoid n).1 _ _ _ _ he0)).choose_spec.2
    cases fl with
    | brk =>
      obtain ⟨fr1, hreach, hI1, t⟩ := hS'
      exact ⟨fr1, hreach, hI1, t⟩
    | ret rv => exact hS'
    | next =>
      obtain ⟨fr1, hreach, hI1, t1, t2⟩ := hS'
      simp only []
      rcases exec_empty_block C.P C.fn.retVoid n env1 with hp | hp
      · simp [hp, bind, SpecC04.Out.bind, LoopGoal]
      · simp only [hp, SpecC04.Out.bind_ok]
        have hjump := reaches_step C.fx C.venv C.f (fr := fr1) (st := st) (hd := hat.2.1) (hs := step_jump _)
        have hback : Reaches C.fx C.venv C.f ⟨fr, p, st⟩ ⟨fr1, p, st⟩ :=
          hreach.trans _ _ _ (hjump.pc_cast rfl (by omega))
        have hI2 : Inv C.fn cs.locals env1 fr1 bO bI := Inv.restrict hI hI1 e1.locals hkeys
        have := ihL env1 body cs lu ib cs' lu' hb p ((at_append _ _ _ _).2 (by rw [isize_resolve]; exact hat)) hpool fr1 bO bI hI2 st hB
        exact LoopGoal.of_reaches C hback this ⟨t1, t2⟩
  | panic q => simpa [hr, bind, SpecC04.Out.bind, LoopGoal, SGoal] using hS'
  | _ => simp [bind, SpecC04.Out.bind, LoopGoal]

/-- `for c { body }` compiled as `jump cond; body'; cond; jumpTrue body`: from the condition on -/
def SimLoopCond (n : Nat) : Prop :=
  ∀ env c body cs lu ib cs1 lu1 ic cs', compS C.fx C.cenv C.fn true body cs lu = some (ib, cs1, lu1) →
  compE C.fx C.cenv C.fn c cs1 = some (ic, cs') →
  ∀ pb, At C.f.code pb (resolve ib (isize ic + 3) ++ ic ++ [Instr.jumpTrue (-((ssize ib + isize ic : Nat) : Int))]) →
  PoolOK cs' C.f →
  ∀ fr bO bI, Inv C.fn cs.locals env fr bO bI →
  ∀ st, BaseOf st bO bI →
    LoopGoal C (loop C.P C.fn.retVoid n env true c (.block []) body) cs'.locals fr (pb + ssize ib)
      (pb + ssize ib + isize ic + 3) st bO bI

theorem simLoopCond_step (hfx : FxOK C.fx) (n : Nat) (ihE : SimE C n) (ihS : SimS C n) (ihL : SimLoopCond C n) :
    SimLoopCond C (n + 1) := by
  intro env c body cs lu ib cs1 lu1 ic cs' hb hcc pb hat hpool fr bO bI hI st hB
  have hat0 := hat
  rw [at_append, at_append, isize_resolve] at hat
  obtain ⟨⟨hatb, hatc⟩, hatj⟩ := hat
  have e1 := compS_ext hfx C.cenv C.fn hb
  have m2 := compE_mono _ _ _ hcc
  have e2 : SExt C.fn cs1 cs' := SExt.of_mono m2
  have hI1 : Inv C.fn cs1.locals env fr bO bI := hI.ext e1
  have hE := ihE env c cs1 ic cs' hcc (pb + ssize ib) hatc hpool fr bO bI hI1.frame st hB
  simp only [loop, if_true]
  -- the condition
  cases hv : evalExpr C.P n env c with
  | ok v =>
    simp only [hv, EGoal] at hE
    simp only [SpecC04.Out.bind_ok]
    cases v with
    | bool b =>
      simp only [pure, SpecC04.Out.bind_ok]
      have hj := reaches_step C.fx C.venv C.f (fr := fr) (hd := hatj.1) (hs := step_jumpTrue (st := st) b _)
      cases b with
      | false =>
        simp only [Bool.not_false, if_true]
        refine ⟨fr, hE.trans _ _ _ (hj.pc_cast (by simp [isize_append, isize_resolve] <;> omega) (by simp [isize_append, isize_resolve] <;> omega)),
          hI1.ext e2, rfl, rfl⟩
      | true =>
        simp only [Bool.not_true, Bool.false_eq_true, if_false]
        have hhead : Reaches C.fx C.venv C.f ⟨fr, pb + ssize ib, st⟩ ⟨fr, pb, st⟩ :=
          hE.trans _ _ _ (hj.pc_cast (by simp [isize_append, isize_resolve] <;> omega) (by simp [isize_append, isize_resolve] <;> omega))
        have hS := ihS env body true cs lu ib cs1 lu1 hb (isize ic + 3) pb hatb (hpool.of_ext e2) fr bO bI hI st hB
        have hS' := SGoal.inScope C (outer := env) hS (fun fl env' h => (SpecC04.exec_keys C.P C.fn.retVoid n).1 _ _ _ _ h)
        cases hr : inScope env (execStmt C.P C.fn.retVoid n env body) with
        | ok r =>
          obtain ⟨fl, env1⟩ := r
          simp only [hr] at hS'
          simp only [SpecC04.Out.bind_ok]
          obtain ⟨e0, he0, hleave⟩ := inScope_eq_ok hr
          have hkeys : env1.map Prod.fst = env.map Prod.fst := by
            rw [hleave]
            exact (SpecC04.leave_of_keysExt ((SpecC04.exec_keys C.P C.fn.retVoid n).1 _ _ _ _ he0)).choose_spec.2
          cases fl with
          | brk =>
            obtain ⟨fr1, hreach, hI2, t⟩ := hS'
            exact ⟨fr1, hhead.trans _ _ _ (hreach.pc_cast rfl (by omega)), hI2.ext e2, t⟩
          | ret rv =>
            intro hiff
            obtain ⟨st1, he, hb1⟩ := hS' hiff
            exact ⟨st1, Ends.of_reaches _ _ _ hhead (by simp) he, hb1⟩
          | next =>
            obtain ⟨fr1, hreach, hI2, t1, t2⟩ := hS'
            simp only []
            rcases exec_empty_block C.P C.fn.retVoid n env1 with hp | hp
            · simp [hp, bind, SpecC04.Out.bind, LoopGoal]
            · simp only [hp, SpecC04.Out.bind_ok]
              have hI3 : Inv C.fn cs.locals env1 fr1 bO bI := Inv.restrict hI hI2 e1.locals hkeys
              have := ihL env1 c body cs lu ib cs1 lu1 ic cs' hb hcc pb hat0 hpool fr1 bO bI hI3 st hB
              exact LoopGoal.of_reaches C (hhead.trans _ _ _ hreach) this ⟨t1, t2⟩
        | panic q =>
          simp only [hr, SGoal] at hS'
          simp only [SpecC04.Out.bind_panic, LoopGoal]
          exact Ends.of_reaches _ _ _ hhead (by simp) hS'
        | _ => simp [bind, SpecC04.Out.bind, LoopGoal]
    | _ => simp [bind, SpecC04.Out.bind, LoopGoal]
  | panic q => simpa [hv, EGoal, bind, SpecC04.Out.bind, LoopGoal] using hE
  | _ => simp [bind, SpecC04.Out.bind, LoopGoal]

theorem loop_no_brk (P : SpecC04.Prog) (vd : Bool) : ∀ n env hc c post body e,
    loop P vd n env hc c post body ≠ .ok (.brk, e) := by
  intro n
  induction n with
  | zero => intros; simp [loop]
  | succ n ih =>
    intro env hc c post body e h
    simp only [loop] at h
    obtain ⟨go, _, h⟩ := Out.bind_eq_ok h
    split at h
    · simp [pure] at h
    · obtain ⟨⟨f1, e1⟩, _, h⟩ := Out.bind_eq_ok h
      split at h
      · simp [pure] at h
      · simp [pure] at h
      · obtain ⟨⟨f2, e2⟩, _, h⟩ := Out.bind_eq_ok h
        split at h
        · exact ih _ _ _ _ _ _ h
        · simp at h

theorem SGoal.of_loop {o : SpecC04.Out (Flow × Env)} {locals' fr} {p : Int} {sz d : Nat} {st bO bI}
    (h : LoopGoal C o locals' fr p (p + sz) st bO bI) (hnb : ∀ e, o ≠ .ok (.brk, e)) :
    SGoal C o locals' fr p sz d st bO bI := by
  cases o with
  | ok r =>
    obtain ⟨fl, env'⟩ := r
    cases fl with
    | next => exact h
    | brk => exact absurd rfl (hnb env')
    | ret rv => exact h
  | panic q => exact h
  | _ => trivial

theorem simS_forEver (n : Nat) (ihL : SimLoopEver C n) (env : Env) (body : Stmt)
    (inLoop : Bool) (cs : SState) (lu : Bool) (sis : List SI) (cs' : SState) (lu' : Bool)
    (hc : compS C.fx C.cenv C.fn inLoop (.forEver body) cs lu = some (sis, cs', lu'))
    (d : Nat) (p : Int) (hat : At C.f.code p (resolve sis d)) (hpool : PoolOK cs' C.f)
    (fr : Frame) (bO : List Obj) (bI : List Int64) (hI : Inv C.fn cs.locals env fr bO bI) (st : Stack) (hB : BaseOf st bO bI) :
    SGoal C (execStmt C.P C.fn.retVoid (n + 1) env (.forEver body)) cs'.locals fr p (ssize sis) d st bO bI := by
  ucompS at hc
  obtain ⟨ib, s1, lu1, hb, rfl, rfl, rfl⟩ := hc
  rw [resolve_lift, isize_resolve] at hat
  simp only [execStmt]
  refine SGoal.of_loop C ?_ (fun e => loop_no_brk _ _ _ _ _ _ _ _ e)
  have := ihL env body cs _ ib s1 lu1 hb p hat hpool fr bO bI hI st hB
  have e : (ssize (lift (resolve ib 3 ++ [Instr.jump (-((isize (resolve ib 3) : Nat) : Int))])) : Int) = ssize ib + 3 := by
    simp [ssize_lift, isize_append, isize_resolve]
  rw [e, ← Int.add_assoc]
  exact this

theorem simS_forCond (hfx : FxOK C.fx) (n : Nat) (ihL : SimLoopCond C n) (env : Env) (c : Expr) (body : Stmt)
    (inLoop : Bool) (cs : SState) (lu : Bool) (sis : List SI) (cs' : SState) (lu' : Bool)
    (hc : compS C.fx C.cenv C.fn inLoop (.forCond c body) cs lu = some (sis, cs', lu'))
    (d : Nat) (p : Int) (hat : At C.f.code p (resolve sis d)) (hpool : PoolOK cs' C.f)
    (fr : Frame) (bO : List Obj) (bI : List Int64) (hI : Inv C.fn cs.locals env fr bO bI) (st : Stack) (hB : BaseOf st bO bI) :
    SGoal C (execStmt C.P C.fn.retVoid (n + 1) env (.forCond c body)) cs'.locals fr p (ssize sis) d st bO bI := by
  ucompS at hc
  obtain ⟨ib, s1, lu1, hb, ic, s2, hcc, rfl, rfl, rfl⟩ := hc
  rw [resolve_lift] at hat
  simp only [isize_resolve] at hat
  simp only [List.append_assoc, List.cons_append, List.nil_append, At] at hat
  obtain ⟨hj, hrest⟩ := hat
  simp only [execStmt]
  refine SGoal.of_loop C ?_ (fun e => loop_no_brk _ _ _ _ _ _ _ _ e)
  have hjump := reaches_step C.fx C.venv C.f (fr := fr) (st := st) (hd := hj) (hs := step_jump _)
  have := ihL env c body cs _ ib s1 lu1 ic s2 hb hcc (p + 3)
    (by simpa [List.append_assoc] using hrest) hpool fr bO bI hI st hB
  refine LoopGoal.of_reaches C (p1 := p + 3 + ssize ib) (hjump.pc_cast rfl (by omega)) ?_ ⟨rfl, rfl⟩
  have e : (ssize (lift ([Instr.jump ((3 + ssize ib : Nat) : Int)] ++ resolve ib (isize ic + 3) ++ ic ++
      [Instr.jumpTrue (-((ssize ib + isize ic : Nat) : Int))])) : Int) = 3 + ssize ib + isize ic + 3 := by
    simp [ssize_lift, isize_append, isize_resolve]; omega
  simp only [isize_resolve] at e ⊢
  rw [e]
  have e2 : p + (3 + ↑(ssize ib) + ↑(isize ic) + 3) = p + 3 + ↑(ssize ib) + ↑(isize ic) + 3 := by omega
  rw [e2]
  exact this

/-- statements: `n + 1` units of fuel, given `n` units for everything -/
theorem simS_step (hfx : FxOK C.fx) (n : Nat) (ihE : SimE C n) (ihC : SimCall C n) (ihS : SimS C n) (ihB : SimBlock C n)
    (ihLE : SimLoopEver C n) (ihLC : SimLoopCond C n) : SimS C (n + 1) := by
  intro env s inLoop cs lu sis cs' lu' hc d p hat hpool fr bO bI hI st hB
  cases s with
  | ret ty e => exact simS_ret C n ihE env ty e inLoop cs lu sis cs' lu' hc d p hat hpool fr bO bI hI st hB
  | retNone => exact (simS_simple C hfx n env inLoop cs lu d p fr bO bI hI st hB).1 sis cs' lu' hc hat
  | assign define lhs rhs =>
    exact simS_assign C hfx n ihE ihC env define lhs rhs inLoop cs lu sis cs' lu' hc d p hat hpool fr bO bI hI st hB
  | assignBad => simp [compS] at hc
  | assignOp op name ty rhs => simp [compS, hfx.assignOp] at hc
  | incdec inc x => exact (simS_simple C hfx n env inLoop cs lu d p fr bO bI hI st hB).2.2 inc x sis cs' lu' hc hat
  | incdecBad => simp [compS] at hc
  | ifThen c body => exact simS_ifThen C hfx n ihE ihS env c body inLoop cs lu sis cs' lu' hc d p hat hpool fr bO bI hI st hB
  | ifElse c body els =>
    exact simS_ifElse C hfx n ihE ihS env c body els inLoop cs lu sis cs' lu' hc d p hat hpool fr bO bI hI st hB
  | ifInit i r => simp [compS, hfx.ifInit] at hc
  | forCond c body => exact simS_forCond C hfx n ihLC env c body inLoop cs lu sis cs' lu' hc d p hat hpool fr bO bI hI st hB
  | forEver body => exact simS_forEver C n ihLE env body inLoop cs lu sis cs' lu' hc d p hat hpool fr bO bI hI st hB
  | forClause hi hc' hp i c p' b => simp only [compS, hfx.forClause] at hc; split at hc <;> simp at hc
  | brk => exact (simS_simple C hfx n env inLoop cs lu d p fr bO bI hI st hB).2.1 sis cs' lu' hc hat
  | exprCall e => exact simS_exprCall C n ihE ihC env e inLoop cs lu sis cs' lu' hc d p hat hpool fr bO bI hI st hB
  | exprBad => simp [compS] at hc
  | block ss => exact simS_block C n ihB env ss inLoop cs lu sis cs' lu' hc d p hat hpool fr bO bI hI st hB
  | bad => simp [compS] at hc

end Q
