import Rg.Proofs.TypeMatchKComplete
/-!
# `parseExpr` builds well-formed patterns (`Pat.wf`): the `NoSeq` nodes contain no `$*_` in their lists
-/
open XTypes TypeMatch
namespace TypeMatch

theorem noSeq_of_not_any (f : Pat → Bool) (hf : ∀ p, f p = false → p.isSeq = false) {ps : List Pat}
    (h : ps.any f = false) : noSeq ps = true := by
  induction ps with
  | nil => rfl
  | cons p ps ih =>
    simp only [List.any_cons, Bool.or_eq_false_iff] at h
    simp only [noSeq, List.all_cons, Bool.and_eq_true, Bool.not_eq_true']
    exact ⟨hf p h.1, by simpa [noSeq] using ih h.2⟩


mutual
/-- `parseExpr` builds well-formed patterns: `opFuncNoSeq` / `opStructNoSeq` are chosen only without a `$*_` -/
theorem parseExpr_wf (eo : Nat) (itab : Itab) : ∀ (e : TExpr) (p : Pat), parseExpr eo itab e = some p → p.wf = true
  | .ident name, p, h => by
    unfold parseExpr at h
    split at h
    · cases h; rfl
    · split at h
      · cases h; rfl
      · split at h
        · cases h; rfl
        · split at h
          · split at h
            · cases h; rfl
            · cases h
          · cases h
  | .sel x sel, p, h => by
    unfold parseExpr at h
    split at h
    · split at h
      · cases h; rfl
      · split at h
        · cases h; rfl
        · cases h
    · cases h
  | .star x, p, h => by
    unfold parseExpr at h
    cases hx : parseExpr eo itab x with
    | none => simp [hx] at h
    | some q =>
      simp only [hx, Option.map_some, Option.some.injEq] at h
      subst h
      simpa [Pat.wf] using parseExpr_wf eo itab x q hx
  | .sliceT x, p, h => by
    unfold parseExpr at h
    cases hx : parseExpr eo itab x with
    | none => simp [hx] at h
    | some q =>
      simp only [hx, Option.map_some, Option.some.injEq] at h
      subst h
      simpa [Pat.wf] using parseExpr_wf eo itab x q hx
  | .arrayT len x, p, h => by
    unfold parseExpr at h
    cases hx : parseExpr eo itab x with
    | none => simp [hx] at h
    | some q =>
      have hq := parseExpr_wf eo itab x q hx
      simp only [hx] at h
      split at h
      · split at h
        · cases h; simpa [Pat.wf] using hq
        · cases h
      · rename_i v
        cases hv : parseInt10 v with
        | none => simp [hv] at h
        | some n =>
          simp only [hv, Option.map_some, Option.some.injEq] at h
          subst h
          simpa [Pat.wf] using hq
      · cases h
  | .mapT k v, p, h => by
    unfold parseExpr at h
    cases hk : parseExpr eo itab k with
    | none => simp [hk] at h
    | some pk =>
      cases hv : parseExpr eo itab v with
      | none => simp [hk, hv] at h
      | some pv =>
        simp only [hk, hv, Option.map_some, Option.some.injEq] at h
        subst h
        simp [Pat.wf, parseExpr_wf eo itab k pk hk, parseExpr_wf eo itab v pv hv]
  | .chanT dir v, p, h => by
    unfold parseExpr at h
    cases hv : parseExpr eo itab v with
    | none => simp [hv] at h
    | some q =>
      have hq := parseExpr_wf eo itab v q hv
      simp only [hv] at h
      split at h
      · cases h; simpa [Pat.wf] using hq
      · split at h
        · cases h; simpa [Pat.wf] using hq
        · split at h
          · cases h; simpa [Pat.wf] using hq
          · cases h
  | .paren x, p, h => by
    unfold parseExpr at h
    exact parseExpr_wf eo itab x p h
  | .funcT params results, p, h => by
    unfold parseExpr at h
    cases hp : parseFields eo itab params with
    | none => simp [hp] at h
    | some ps =>
      cases hr : parseFields eo itab results with
      | none => simp [hp, hr] at h
      | some rs =>
        have h1 := parseFields_wf eo itab params ps hp
        have h2 := parseFields_wf eo itab results rs hr
        simp only [hp, hr] at h
        split at h
        · cases h; simp [Pat.wf, h1, h2]
        · rename_i hany
          cases h
          have hany' := (Bool.not_eq_true _).mp hany
          rw [List.any_append, Bool.or_eq_false_iff] at hany'
          have n1 := noSeq_of_not_any _ (fun p hp => by cases p <;> simp_all [Pat.isSeq]) hany'.1
          have n2 := noSeq_of_not_any _ (fun p hp => by cases p <;> simp_all [Pat.isSeq]) hany'.2
          simp [Pat.wf, h1, h2, n1, n2]
  | .structT fields, p, h => by
    unfold parseExpr at h
    cases hp : parseFields eo itab fields with
    | none => simp [hp] at h
    | some ms =>
      have h1 := parseFields_wf eo itab fields ms hp
      simp only [hp] at h
      split at h
      · cases h; simp [Pat.wf, h1]
      · rename_i hany
        cases h
        have hany' := (Bool.not_eq_true _).mp hany
        have n1 := noSeq_of_not_any _ (fun p hp => by cases p <;> simp_all [Pat.isSeq]) hany'
        simp [Pat.wf, h1, n1]
  | .ifaceT methods, p, h => by
    unfold parseExpr at h
    split at h
    · cases h; rfl
    · split at h
      · cases h; rfl
      · cases h
    · cases h
  | .intLit _, p, h | .otherLit, p, h | .field .., p, h | .other, p, h => by
    unfold parseExpr at h
    cases h
theorem parseFields_wf (eo : Nat) (itab : Itab) : ∀ (es : List TExpr) (ps : List Pat),
    parseFields eo itab es = some ps → wfList ps = true
  | [], ps, h => by
    unfold parseFields at h
    cases h; rfl
  | e :: es, ps, h => by
    unfold parseFields at h
    split at h
    · rename_i heq; cases heq
    · rename_i nn t rest heq
      cases heq
      cases ht : parseExpr eo itab t with
      | none => simp [ht] at h
      | some q =>
        simp only [ht] at h
        split at h
        · cases h
        · cases hr : parseFields eo itab es with
          | none => simp [hr] at h
          | some qs =>
            simp only [hr, Option.map_some, Option.some.injEq] at h
            subst h
            simp [wfList, parseExpr_wf eo itab t q ht, parseFields_wf eo itab es qs hr]
    · cases h
end

end TypeMatch
