import Rg.Proofs.QSimSpec
/-! # What single instructions do to stacks that hold source values -/
namespace Q
open SpecC04 (Val Env lookup tagOf binVal)

variable {f : CFunc} {fr : Frame} {st : Stack} {pc : Int}

theorem prefix_get {α} {l1 l2 : List α} (h : l1 <+: l2) {i : Nat} {a : α} (hi : l1[i]? = some a) : l2[i]? = some a := by
  obtain ⟨t, rfl⟩ := h
  rw [List.getElem?_append_left]
  · exact hi
  · exact (List.getElem?_eq_some_iff.mp hi).1

theorem step_pushIntConst {a : Nat} {v : Int64} (h : f.intConsts[a]? = some v) :
    step f fr st pc (.pushIntConst a) = .ok (.cont fr (pushVal (.int v) st) (pc + 2)) := by
  simp [step, getIdx, h, pushVal, bind, Res.bind]

theorem step_pushConst {a : Nat} {v : Bytes} (h : f.consts[a]? = some v) :
    step f fr st pc (.pushConst a) = .ok (.cont fr (pushVal (.str v) st) (pc + 2)) := by
  simp [step, getIdx, h, pushVal, bind, Res.bind, objOf]

theorem step_pushBool (b : Bool) :
    step f fr st pc (if b then .pushTrue else .pushFalse) = .ok (.cont fr (pushVal (.bool b) st) (pc + 1)) := by
  cases b <;> simp [step, pushVal, objOf]

theorem step_pushParam {i : Nat} {v : Val} (ht : tagOf v ≠ .int) (h : fromBottom st.objs (fr.top + i) = .ok (objOf v)) :
    step f fr st pc (.pushParam i) = .ok (.cont fr (pushVal v st) (pc + 2)) := by
  cases v <;> simp_all [step, pushVal, bind, Res.bind, tagOf]

theorem step_pushIntParam {i : Nat} {k : Int64} (h : fromBottom st.ints (fr.intTop + i) = .ok k) :
    step f fr st pc (.pushIntParam i) = .ok (.cont fr (pushVal (.int k) st) (pc + 2)) := by
  simp [step, pushVal, bind, Res.bind, h]

theorem step_pushLocal {i : Nat} {v : Val} (ht : tagOf v ≠ .int) (h : fr.locals[i]? = some (objOf v)) :
    step f fr st pc (.pushLocal i) = .ok (.cont fr (pushVal v st) (pc + 2)) := by
  cases v <;> simp_all [step, pushVal, bind, Res.bind, tagOf, getIdx]

theorem step_pushIntLocal {i : Nat} {k : Int64} (h : fr.intLocals[i]? = some k) :
    step f fr st pc (.pushIntLocal i) = .ok (.cont fr (pushVal (.int k) st) (pc + 2)) := by
  simp [step, pushVal, bind, Res.bind, getIdx, h]

theorem step_not (b : Bool) :
    step f fr (pushVal (.bool b) st) pc .not = .ok (.cont fr (pushVal (.bool (!b)) st) (pc + 1)) := by
  simp [step, pushVal, objOf, popBool, popObj, pushObj, asBool, bind, Res.bind]

theorem step_dup (b : Bool) :
    step f fr (pushVal (.bool b) st) pc .dup = .ok (.cont fr (pushVal (.bool b) (pushVal (.bool b) st)) (pc + 1)) := by
  simp [step, pushVal, objOf, pushObj]

theorem step_pop (b : Bool) :
    step f fr (pushVal (.bool b) st) pc .pop = .ok (.cont fr st (pc + 1)) := by
  simp [step, pushVal, objOf, pushObj]

theorem step_jumpTrue (b : Bool) (off : Int) :
    step f fr (pushVal (.bool b) st) pc (.jumpTrue off) = .ok (.cont fr st (if b then pc + off else pc + 3)) := by
  simp [step, pushVal, objOf, popBool, popObj, pushObj, asBool, bind, Res.bind]

theorem step_jumpFalse (b : Bool) (off : Int) :
    step f fr (pushVal (.bool b) st) pc (.jumpFalse off) = .ok (.cont fr st (if !b then pc + off else pc + 3)) := by
  simp [step, pushVal, objOf, popBool, popObj, pushObj, asBool, bind, Res.bind]

theorem step_jump (off : Int) : step f fr st pc (.jump off) = .ok (.cont fr st (pc + off)) := rfl

/-- the int instructions: `x op y` with both operands on the int stack -/
theorem step_intBin (x y : Int64) :
    step f fr (pushVal (.int y) (pushVal (.int x) st)) pc .add = .ok (.cont fr (pushVal (.int (x + y)) st) (pc + 1)) ∧
    step f fr (pushVal (.int y) (pushVal (.int x) st)) pc .sub = .ok (.cont fr (pushVal (.int (x - y)) st) (pc + 1)) ∧
    step f fr (pushVal (.int y) (pushVal (.int x) st)) pc .eqInt = .ok (.cont fr (pushVal (.bool (x == y)) st) (pc + 1)) ∧
    step f fr (pushVal (.int y) (pushVal (.int x) st)) pc .notEqInt = .ok (.cont fr (pushVal (.bool (x != y)) st) (pc + 1)) ∧
    step f fr (pushVal (.int y) (pushVal (.int x) st)) pc .ltInt = .ok (.cont fr (pushVal (.bool (decide (x < y))) st) (pc + 1)) ∧
    step f fr (pushVal (.int y) (pushVal (.int x) st)) pc .ltEqInt = .ok (.cont fr (pushVal (.bool (decide (x ≤ y))) st) (pc + 1)) ∧
    step f fr (pushVal (.int y) (pushVal (.int x) st)) pc .gtInt = .ok (.cont fr (pushVal (.bool (decide (x > y))) st) (pc + 1)) ∧
    step f fr (pushVal (.int y) (pushVal (.int x) st)) pc .gtEqInt = .ok (.cont fr (pushVal (.bool (decide (x ≥ y))) st) (pc + 1)) := by
  simp [step, pushVal, pushInt, pushObj, popInt2, cmpInt, objOf, bind, Res.bind]

theorem step_strBin (x y : Bytes) :
    step f fr (pushVal (.str y) (pushVal (.str x) st)) pc .concat = .ok (.cont fr (pushVal (.str (x ++ y)) st) (pc + 1)) ∧
    step f fr (pushVal (.str y) (pushVal (.str x) st)) pc .eqString = .ok (.cont fr (pushVal (.bool (x == y)) st) (pc + 1)) ∧
    step f fr (pushVal (.str y) (pushVal (.str x) st)) pc .notEqString = .ok (.cont fr (pushVal (.bool (x != y)) st) (pc + 1)) := by
  simp [step, pushVal, pushObj, pop2, asStr, objOf, bind, Res.bind]

theorem step_len (s : Bytes) :
    step f fr (pushVal (.str s) st) pc .stringLen = .ok (.cont fr (pushVal (.int (Int64.ofNat s.length)) st) (pc + 1)) := by
  simp [step, pushVal, pushObj, pushInt, popStr, popObj, asStr, objOf, lenInt, bind, Res.bind]

theorem step_slice (s : Bytes) (lo hi : Int64) :
    step f fr (pushVal (.int hi) (pushVal (.int lo) (pushVal (.str s) st))) pc .stringSlice =
      (match goSlice s lo.toInt hi.toInt with
       | .ok r => .ok (.cont fr (pushVal (.str r) st) (pc + 1))
       | .panic q => .panic q) := by
  simp [step, pushVal, pushObj, pushInt, popInt, popStr, popObj, asStr, objOf, strSlice, bind, Res.bind]
  generalize goSlice s _ _ = r; cases r <;> rfl

theorem step_sliceFrom (s : Bytes) (lo : Int64) :
    step f fr (pushVal (.int lo) (pushVal (.str s) st)) pc .stringSliceFrom =
      (match goSlice s lo.toInt (Int64.ofNat s.length).toInt with
       | .ok r => .ok (.cont fr (pushVal (.str r) st) (pc + 1))
       | .panic q => .panic q) := by
  simp [step, pushVal, pushObj, pushInt, popInt, popStr, popObj, asStr, objOf, strSlice, lenInt, bind, Res.bind]
  generalize goSlice s _ _ = r; cases r <;> rfl

theorem step_sliceTo (s : Bytes) (hi : Int64) :
    step f fr (pushVal (.int hi) (pushVal (.str s) st)) pc .stringSliceTo =
      (match goSlice s (0 : Int64).toInt hi.toInt with
       | .ok r => .ok (.cont fr (pushVal (.str r) st) (pc + 1))
       | .panic q => .panic q) := by
  simp [step, pushVal, pushObj, pushInt, popInt, popStr, popObj, asStr, objOf, strSlice, bind, Res.bind]
  generalize goSlice s _ _ = r; cases r <;> rfl

theorem binInstr_width {op ty ins} (h : binInstr op ty = some ins) : ins.width = 1 := by
  cases op <;> simp only [binInstr] at h <;> (try (split at h <;> try split at h)) <;> simp_all [Instr.width] <;>
    (subst h; rfl)

theorem binInstr_sound {op : BinOp} {ty : Ty} {ins : Instr} {a b r : Val} (h : binInstr op ty = some ins)
    (ht : tagOf a = ty) (hr : binVal op a b = .ok r) :
    step f fr (pushVal b (pushVal a st)) pc ins = .ok (.cont fr (pushVal r st) (pc + 1)) := by
  cases a <;> cases b <;> simp only [binVal] at hr <;> try (exact absurd hr (by simp))
  · -- int int
    subst ht
    have := @step_intBin f fr st pc
    rename_i x y
    obtain ⟨h1, h2, h3, h4, h5, h6, h7, h8⟩ := this x y
    cases op <;> simp [binInstr, isStr, isInt, tagOf] at h <;> subst h <;> simp [SpecC04.cmpOp] at hr <;> subst hr <;> assumption
  · subst ht
    rename_i x y
    obtain ⟨h1, h2, h3⟩ := @step_strBin f fr st pc x y
    cases op <;> simp [binInstr, isStr, isInt, tagOf] at h <;> subst h <;> simp at hr <;> subst hr <;> assumption

theorem step_nilCmp {op : BinOp} {v r : Val} (hop : op = .eql ∨ op = .neq) (h : SpecC04.nilCmp op v = .ok r) :
    step f fr (pushVal v st) pc (if op == .neq then .isNotNil else .isNil) = .ok (.cont fr (pushVal r st) (pc + 1)) := by
  rcases hop with rfl | rfl <;> cases v <;> simp [SpecC04.nilCmp] at h <;> subst h <;>
    simp [step, pushVal, objOf, pushObj, popObj, objIsNil, objIsNotNil, bind, Res.bind]

theorem isNilIdent_eq (e : Expr) : isNilIdent e = SpecC04.isNilE e := by cases e <;> rfl

end Q
