import Rg.Spec.C05
import Rg.Model.IRPrint
/-!
# `parseLit` inverts `flatten` (generic, syntax only)

`flatten` writes a literal tree as tokens; `parseLit` reads it back, for every canonical tree
(`canon`: `keyed` only as an element, qualified selectors, `tc = true` for an empty element list)
and every fuel above the number of tokens.
-/
namespace GoLit
open SpecC05 IR

def tyToks : Ty → List GTok
  | .named p n => if p == "" then [.ident n] else [.ident p, .dot, .ident n]
  | .slice t => [.lbrack, .rbrack] ++ tyToks t

def otyToks : Option Ty → List GTok
  | none => []
  | some t => tyToks t

mutual
def flatten : Lit → List GTok
  | .str b => [.str b]
  | .int n => intToks n
  | .conv t n => [.ident t, .lparen] ++ intToks n ++ [.rparen]
  | .sel p n => [.ident p, .dot, .ident n]
  | .comp ty es tc => otyToks ty ++ [.lbrace] ++ flatEl es tc ++ [.rbrace]
  | .keyed k v => [.ident k, .colon] ++ flatten v
/-- elements, each followed by a comma — except the last one when `tc = false` -/
def flatEl : List Lit → Bool → List GTok
  | [], _ => []
  | e :: es, tc => flatten e ++ (if es.isEmpty && !tc then [] else [.comma]) ++ flatEl es tc
end

mutual
/-- canonical operand (not an element) -/
def canon : Lit → Bool
  | .str _ => true
  | .int _ => true
  | .conv _ _ => true
  | .sel p _ => p != ""
  | .comp _ es tc => canonEl es && (!es.isEmpty || tc)
  | .keyed _ _ => false
/-- canonical element: `k: operand` or operand -/
def canonElem : Lit → Bool
  | .str _ => true
  | .int _ => true
  | .conv _ _ => true
  | .sel p _ => p != ""
  | .comp _ es tc => canonEl es && (!es.isEmpty || tc)
  | .keyed _ v => canon v
def canonEl : List Lit → Bool
  | [] => true
  | e :: es => canonElem e && canonEl es
end

def NoBrace (rest : List GTok) : Prop := ∀ r, rest ≠ .lbrace :: r

theorem intToks_length_pos (n : Int) : 0 < (intToks n).length := by
  unfold intToks; split <;> simp

theorem flatten_length_pos : ∀ l : Lit, 0 < (flatten l).length
  | .str _ => by simp [flatten]
  | .int n => by simp [flatten]; exact intToks_length_pos n
  | .conv _ _ => by simp [flatten]
  | .sel _ _ => by simp [flatten]
  | .comp _ _ _ => by simp [flatten]; omega
  | .keyed _ _ => by simp [flatten]

/-! ### computation rules of the parser (all by unfolding) -/

theorem pl_str (f : Nat) (b : Bytes) (r : List GTok) : parseLit (f+1) (.str b :: r) = some (.str b, r) := rfl
theorem pl_nat (f n : Nat) (r : List GTok) : parseLit (f+1) (.int n :: r) = some (.int (n : Int), r) := rfl
theorem pl_sub (f n : Nat) (r : List GTok) : parseLit (f+1) (.sub :: .int n :: r) = some (.int (-(n : Int)), r) := rfl
theorem pl_conv (f : Nat) (t : String) (r : List GTok) :
    parseLit (f+1) (.ident t :: .lparen :: r) = parseConvArg t r := rfl
theorem pl_lbrace (f : Nat) (r : List GTok) : parseLit (f+1) (.lbrace :: r) =
    (match parseElems f r with
     | some (es, tc, r') => some (.comp none es tc, r')
     | none => none) := rfl
theorem pca_nat (t : String) (n : Nat) (r : List GTok) :
    parseConvArg t (.int n :: .rparen :: r) = some (.conv t (n : Int), r) := rfl
theorem pca_sub (t : String) (n : Nat) (r : List GTok) :
    parseConvArg t (.sub :: .int n :: .rparen :: r) = some (.conv t (-(n : Int)), r) := rfl

/-! ### atoms -/

theorem parseLit_int (f : Nat) (n : Int) (rest : List GTok) :
    parseLit (f + 1) (intToks n ++ rest) = some (.int n, rest) := by
  unfold intToks
  by_cases h : n < 0
  · rw [if_pos h]
    show parseLit (f + 1) (.sub :: .int n.natAbs :: rest) = _
    rw [pl_sub]
    have : -((n.natAbs : Nat) : Int) = n := by omega
    rw [this]
  · rw [if_neg h]
    show parseLit (f + 1) (.int n.toNat :: rest) = _
    rw [pl_nat]
    have : ((n.toNat : Nat) : Int) = n := by omega
    rw [this]

theorem parseConvArg_int (t : String) (n : Int) (rest : List GTok) :
    parseConvArg t (intToks n ++ .rparen :: rest) = some (.conv t n, rest) := by
  unfold intToks
  by_cases h : n < 0
  · rw [if_pos h]
    show parseConvArg t (.sub :: .int n.natAbs :: .rparen :: rest) = _
    rw [pca_sub]
    have : -((n.natAbs : Nat) : Int) = n := by omega
    rw [this]
  · rw [if_neg h]
    show parseConvArg t (.int n.toNat :: .rparen :: rest) = _
    rw [pca_nat]
    have : ((n.toNat : Nat) : Int) = n := by omega
    rw [this]

theorem parseTy_tyToks : ∀ (t : Ty) (r : List GTok),
    parseTy (tyToks t ++ .lbrace :: r) = some (t, .lbrace :: r)
  | .named p n, r => by
    by_cases h : p = ""
    · subst h; simp [tyToks, parseTy]
    · have : (p == "") = false := by simpa using h
      simp [tyToks, this, parseTy]
  | .slice t, r => by
    have ih := parseTy_tyToks t r
    simp only [tyToks, List.cons_append, List.nil_append, parseTy]
    rw [ih]

/-! ### typed composite literal / qualified selector (the catch-all equation of `parseLit`) -/

theorem pl_typed (f : Nat) (t : Ty) (r : List GTok) :
    parseLit (f+1) (tyToks t ++ .lbrace :: r) =
      (match parseElems f r with
       | some (es, tc, r') => some (.comp (some t) es tc, r')
       | none => none) := by
  rw [parseLit.eq_7]
  · rw [parseTy_tyToks]
    cases t <;> rfl
  all_goals
    cases t with
    | named p n => by_cases h : (p == "") = true <;> simp [tyToks, h]
    | slice t => simp [tyToks]

theorem pl_sel (f : Nat) (p n : String) (rest : List GTok) (hp : (p != "") = true) (hr : NoBrace rest) :
    parseLit (f+1) (.ident p :: .dot :: .ident n :: rest) = some (.sel p n, rest) := by
  rw [parseLit.eq_7]
  · have hp' : (p == "") = false := by simpa using hp
    have : parseTy (.ident p :: .dot :: .ident n :: rest) = some (.named p n, rest) := rfl
    rw [this]
    cases rest with
    | nil => simp [hp']
    | cons t r =>
      cases t <;> first | (exact absurd rfl (hr r)) | simp [hp']
  all_goals simp

/-! ### one element followed by the rest of the element list -/

/-- the separator after an element -/
def sep (es : List Lit) (tc : Bool) : List GTok := if es.isEmpty && !tc then [] else [.comma]

theorem flatEl_cons (e : Lit) (es : List Lit) (tc : Bool) :
    flatEl (e :: es) tc = flatten e ++ sep es tc ++ flatEl es tc := by
  simp [flatEl, sep]

/-- what follows an element -/
def tailToks (es : List Lit) (tc : Bool) (rest : List GTok) : List GTok :=
  sep es tc ++ (flatEl es tc ++ .rbrace :: rest)

theorem flatEl_cons_append (e : Lit) (es : List Lit) (tc : Bool) (rest : List GTok) :
    flatEl (e :: es) tc ++ .rbrace :: rest = flatten e ++ tailToks es tc rest := by
  simp [flatEl_cons, tailToks]

theorem tailToks_cases (es : List Lit) (tc : Bool) (rest : List GTok) :
    (es = [] ∧ tc = false ∧ tailToks es tc rest = .rbrace :: rest) ∨
    (¬ (es = [] ∧ tc = false) ∧ tailToks es tc rest = .comma :: (flatEl es tc ++ .rbrace :: rest)) := by
  unfold tailToks sep
  by_cases h : (es.isEmpty && !tc) = true
  · left
    have he : es = [] := by
      cases es with
      | nil => rfl
      | cons _ _ => simp at h
    subst he
    have ht : tc = false := by simpa using h
    subst ht
    simp [flatEl]
  · right
    rw [if_neg h]
    refine ⟨?_, by simp⟩
    rintro ⟨rfl, rfl⟩
    simp at h

theorem noBrace_tail (es : List Lit) (tc : Bool) (rest : List GTok) : NoBrace (tailToks es tc rest) := by
  intro r
  rcases tailToks_cases es tc rest with ⟨_, _, h⟩ | ⟨_, h⟩ <;> rw [h] <;> simp

theorem sep_length_le (es : List Lit) (tc : Bool) : (sep es tc).length ≤ 1 := by
  unfold sep; split <;> simp

/-- elements that are operands do not look like `}` or `k:` -/
theorem start_unkeyed (e : Lit) (he : canon e = true) (X : List GTok) :
    (∀ r, flatten e ++ X ≠ .rbrace :: r) ∧ (∀ k r, flatten e ++ X ≠ .ident k :: .colon :: r) := by
  cases e with
  | str b => simp [flatten]
  | int n => unfold flatten intToks; split <;> simp
  | conv t n => simp [flatten]
  | sel p n => simp [flatten]
  | comp ty es tc =>
    cases ty with
    | none => simp [flatten, otyToks]
    | some t =>
      cases t with
      | named p n => by_cases h : (p == "") = true <;> simp [flatten, otyToks, tyToks, h]
      | slice t => simp [flatten, otyToks, tyToks]
  | keyed k v => simp [canon] at he

mutual
theorem parse_flatten : ∀ (l : Lit), canon l = true → ∀ (fuel : Nat) (rest : List GTok),
    (flatten l).length < fuel → NoBrace rest → parseLit fuel (flatten l ++ rest) = some (l, rest)
  | .str b, _, fuel, rest, hf, _ => by
    obtain ⟨f, rfl⟩ : ∃ f, fuel = f + 1 := ⟨fuel - 1, by omega⟩
    exact pl_str f b rest
  | .int n, _, fuel, rest, hf, _ => by
    obtain ⟨f, rfl⟩ : ∃ f, fuel = f + 1 := ⟨fuel - 1, by omega⟩
    exact parseLit_int f n rest
  | .conv t n, _, fuel, rest, hf, _ => by
    obtain ⟨f, rfl⟩ : ∃ f, fuel = f + 1 := ⟨fuel - 1, by omega⟩
    show parseLit (f + 1) (([.ident t, .lparen] ++ intToks n ++ [.rparen]) ++ rest) = _
    have : ([GTok.ident t, .lparen] ++ intToks n ++ [.rparen]) ++ rest
        = .ident t :: .lparen :: (intToks n ++ .rparen :: rest) := by simp
    rw [this, pl_conv, parseConvArg_int]
  | .sel p n, h, fuel, rest, hf, hr => by
    obtain ⟨f, rfl⟩ : ∃ f, fuel = f + 1 := ⟨fuel - 1, by omega⟩
    exact pl_sel f p n rest (by simpa [canon] using h) hr
  | .comp ty es tc, h, fuel, rest, hf, _ => by
    obtain ⟨f, rfl⟩ : ∃ f, fuel = f + 1 := ⟨fuel - 1, by omega⟩
    have hc : canonEl es = true ∧ (es = [] → tc = true) := by
      simp only [canon, Bool.and_eq_true, Bool.or_eq_true, Bool.not_eq_true'] at h
      refine ⟨h.1, ?_⟩
      intro he; subst he; simpa using h.2
    have hlen : (flatEl es tc).length + 1 < f := by
      simp [flatten] at hf; omega
    have ih := parseEl_flatEl es tc hc.1 hc.2 f rest hlen
    cases ty with
    | none =>
      show parseLit (f + 1) (([] ++ [.lbrace] ++ flatEl es tc ++ [.rbrace]) ++ rest) = _
      have : (([] : List GTok) ++ [.lbrace] ++ flatEl es tc ++ [.rbrace]) ++ rest
          = .lbrace :: (flatEl es tc ++ .rbrace :: rest) := by simp
      rw [this, pl_lbrace, ih]
    | some t =>
      show parseLit (f + 1) ((tyToks t ++ [.lbrace] ++ flatEl es tc ++ [.rbrace]) ++ rest) = _
      have : (tyToks t ++ [.lbrace] ++ flatEl es tc ++ [.rbrace]) ++ rest
          = tyToks t ++ .lbrace :: (flatEl es tc ++ .rbrace :: rest) := by simp
      rw [this, pl_typed, ih]
  | .keyed _ _, h, _, _, _, _ => by simp [canon] at h
theorem parseEl_flatEl : ∀ (es : List Lit) (tc : Bool), canonEl es = true → (es = [] → tc = true) →
    ∀ (fuel : Nat) (rest : List GTok), (flatEl es tc).length + 1 < fuel →
    parseElems fuel (flatEl es tc ++ .rbrace :: rest) = some (es, tc, rest)
  | [], tc, _, htc, fuel, rest, hf => by
    obtain ⟨f, rfl⟩ : ∃ f, fuel = f + 1 := ⟨fuel - 1, by omega⟩
    rw [htc rfl]
    exact parseElems.eq_2 f rest
  | e :: es, tc, h, _, fuel, rest, hf => by
    obtain ⟨f, rfl⟩ : ∃ f, fuel = f + 1 := ⟨fuel - 1, by omega⟩
    have hce : canonElem e = true ∧ canonEl es = true := by
      simpa [canonEl] using h
    have hlen : (flatten e).length + (sep es tc).length + (flatEl es tc).length + 1 < f + 1 := by
      simp [flatEl_cons] at hf; omega
    have hpos := flatten_length_pos e
    have hsep := sep_length_le es tc
    rw [flatEl_cons_append]
    -- the tail, once the element has been read
    have tail : ∀ (g : Lit) (w : Lit → Lit),
        (match (some (g, tailToks es tc rest) : Option (Lit × List GTok)) with
         | some (v, .comma :: r') =>
           (match parseElems f r' with
            | some (es', tc', r'') => some (w v :: es', tc', r'')
            | none => none)
         | some (v, .rbrace :: r') => some ([w v], false, r')
         | _ => none) = some (w g :: es, tc, rest) := by
      intro g w
      rcases tailToks_cases es tc rest with ⟨he, ht, hT⟩ | ⟨hne, hT⟩
      · subst he; subst ht; rw [hT]
      · rw [hT]
        have ih := parseEl_flatEl es tc hce.2
          (by intro he; cases tc with
              | true => rfl
              | false => exact absurd ⟨he, rfl⟩ hne) f rest (by omega)
        simp only [ih]
    cases e with
    | keyed k v =>
      have hv : canon v = true := by simpa [canonElem] using hce.1
      have hvl : (flatten v).length < f := by simp [flatten] at hlen; omega
      have ihv := parse_flatten v hv f (tailToks es tc rest) hvl (noBrace_tail es tc rest)
      show parseElems (f + 1) (([.ident k, .colon] ++ flatten v) ++ tailToks es tc rest) = _
      have : ([GTok.ident k, .colon] ++ flatten v) ++ tailToks es tc rest
          = .ident k :: .colon :: (flatten v ++ tailToks es tc rest) := by simp
      rw [this, parseElems.eq_3, ihv]
      exact tail v (Lit.keyed k)
    | str b =>
      have hc : canon (.str b) = true := rfl
      have ihe := parse_flatten (.str b) hc f (tailToks es tc rest) (by omega) (noBrace_tail es tc rest)
      obtain ⟨s1, s2⟩ := start_unkeyed (.str b) hc (tailToks es tc rest)
      rw [parseElems.eq_4 _ _ (fun r h => s1 r h) (fun k r h => s2 k r h), ihe]
      exact tail _ id
    | int n =>
      have hc : canon (.int n) = true := rfl
      have ihe := parse_flatten (.int n) hc f (tailToks es tc rest) (by omega) (noBrace_tail es tc rest)
      obtain ⟨s1, s2⟩ := start_unkeyed (.int n) hc (tailToks es tc rest)
      rw [parseElems.eq_4 _ _ (fun r h => s1 r h) (fun k r h => s2 k r h), ihe]
      exact tail _ id
    | conv t n =>
      have hc : canon (.conv t n) = true := rfl
      have ihe := parse_flatten (.conv t n) hc f (tailToks es tc rest) (by omega) (noBrace_tail es tc rest)
      obtain ⟨s1, s2⟩ := start_unkeyed (.conv t n) hc (tailToks es tc rest)
      rw [parseElems.eq_4 _ _ (fun r h => s1 r h) (fun k r h => s2 k r h), ihe]
      exact tail _ id
    | sel p n =>
      have hc : canon (.sel p n) = true := by simpa [canon, canonElem] using hce.1
      have ihe := parse_flatten (.sel p n) hc f (tailToks es tc rest) (by omega) (noBrace_tail es tc rest)
      obtain ⟨s1, s2⟩ := start_unkeyed (.sel p n) hc (tailToks es tc rest)
      rw [parseElems.eq_4 _ _ (fun r h => s1 r h) (fun k r h => s2 k r h), ihe]
      exact tail _ id
    | comp ty es' tc' =>
      have hc : canon (.comp ty es' tc') = true := by simpa [canon, canonElem] using hce.1
      have ihe := parse_flatten (.comp ty es' tc') hc f (tailToks es tc rest) (by omega) (noBrace_tail es tc rest)
      obtain ⟨s1, s2⟩ := start_unkeyed (.comp ty es' tc') hc (tailToks es tc rest)
      rw [parseElems.eq_4 _ _ (fun r h => s1 r h) (fun k r h => s2 k r h), ihe]
      exact tail _ id
end

end GoLit
