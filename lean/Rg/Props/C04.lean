import Rg.Props.C04Examples
import Rg.Proofs.QWf
/-!
# C04 — custom filter / Do functions run with Go semantics

Layers (see docs/CONVENTIONS.md):
* MODEL `Rg/Model/QCompile.lean` (byte-level transcription of compile.go: labels, back-patching, `lastOp` peephole,
  8-bit operands), `Rg/Model/QVM.lean` (eval.go and `quasigo.Call`: split stacks, frames, relative jumps, calls),
  `Rg/Model/QStruct.lean` (the same compiler in structured form — decoded instructions, offsets from sizes; the driver
  checks on every generated program that it yields the same bytes as the byte-level transcription, op `qstruct`);
  `Q.Fixes` selects the code as it is (`Fixes.asis`) or its repaired variants (`verif/fixes/*.diff`);
* SPEC `Rg/Spec/C04.lean`: fuelled big-step semantics of the source subset with Go's meaning (the harness checks
  it against `go run` of the same sources and evaluates it on the implementation's outputs);
* THEOREMS below.  The kernel-checked counterexamples against the code as it is are in `Rg/Props/C04Examples.lean`.

The full-strength statement holds for the repaired compiler and VM (`compile_correct`); for the code as it is the
property is false (D1, D2, D3, D20 and five further defects, see C04Examples), and `compile_correct_partial` names
a sufficient condition under which the unrepaired compiler is still correct.
-/
namespace C04
open Q SpecC04

/-- The regenerated opcode table (numbers, widths, frame size) is the one the model's encoder/decoder assumes. -/
theorem opcode_table_ok : OpcodeTableOK Opc.table = true := Q.opcode_table_ok

/-- decode ∘ encode: a list of instructions whose operands fit their fields is read back by the VM's decoder
exactly where it was put. -/
theorem decode_encode (is : List Instr) (h : ∀ i ∈ is, i.wf) (pre post : Bytes) :
    At (pre ++ (enc is ++ post)) (pre.length : Int) is := at_enc is h pre post

/-- More fuel never changes an outcome of the VM. -/
theorem vm_fuel_mono (fx : Fixes) (env : VEnv) (n : Nat) (f : CFunc) (fr : Frame) (pc : Int) (st : Stack)
    (K : Q.Out (CallResult × Stack)) (h : run fx env n f fr pc st = K) (hK : K ≠ .fuel) (k : Nat) :
    run fx env (n + k) f fr pc st = K := run_mono fx env n f fr pc st K h hK k

/-- **Fragment 1–3: expressions** (constants, parameters, locals, `!`, `+ - == != < <= > >=`, string `+ == !=`, nil
tests, `&&`, `||`, `len`, slicing, calls of user functions).  In a compiled program, wherever the compiler put the
code of `e`: running it from a stack whose base holds the frame pushes exactly the value the reference semantics
gives — on the int or the object stack, everything below untouched — and panics exactly when the semantics does. -/
theorem expr_correct (W : World) (j : Nat) (g : FuncDecl) (gc : CFunc) (hg : W.P.funcs[j]? = some g)
    (hgc : W.cfs[j]? = some gc) (fnc : CFn) (n : Nat) (env : Env) (e : Expr) (cs : SState) (is : List Instr) (cs' : SState)
    (hc : compE W.fx (W.cenv j) fnc e cs = some (is, cs'))
    (p : Int) (hat : At gc.code p is) (hpool : PoolOK cs' gc)
    (fr : Frame) (bO : List Obj) (bI : List Int64) (hF : FrameOK fnc cs.locals env fr bO bI)
    (st : Stack) (hB : BaseOf st bO bI) :
    EGoal (W.ctx j fnc gc) (evalExpr W.P n env e) fr p (p + isize is) st :=
  ((W.all n j g gc hg hgc).2 fnc).1 env e cs is cs' hc p hat hpool fr bO bI hF st hB

/-- **Fragment 4–5: statements** (`:=`, `=`, `++`, `--`, `if/else`, `for c {}`, `for {}`, `break`, `return`, call statements,
blocks): the compiled code of `s`, placed at `p` inside a loop whose exit lies `d` bytes behind it, started in a
frame that satisfies the invariant `Inv` (every visible variable is where the compiler's lookup order reads it),
ends behind `s` (or at the loop exit after `break`, or returns the function's result, or panics) exactly as the
reference semantics says, with the stacks as they were and the invariant re-established. -/
theorem stmt_correct (W : World) (j : Nat) (g : FuncDecl) (gc : CFunc) (hg : W.P.funcs[j]? = some g)
    (hgc : W.cfs[j]? = some gc) (fnc : CFn) (n : Nat) (env : Env) (s : Stmt) (inLoop : Bool) (cs : SState) (lu : Bool)
    (sis : List SI) (cs' : SState) (lu' : Bool)
    (hc : compS W.fx (W.cenv j) fnc inLoop s cs lu = some (sis, cs', lu'))
    (d : Nat) (p : Int) (hat : At gc.code p (resolve sis d)) (hpool : PoolOK cs' gc)
    (fr : Frame) (bO : List Obj) (bI : List Int64) (hI : Inv fnc cs.locals env fr bO bI)
    (st : Stack) (hB : BaseOf st bO bI) :
    SGoal (W.ctx j fnc gc) (execStmt W.P fnc.retVoid n env s) cs'.locals fr p (ssize sis) d st bO bI :=
  ((W.all n j g gc hg hgc).2 fnc).2.2.2.1 env s inLoop cs lu sis cs' lu' hc d p hat hpool fr bO bI hI st hB

/-- **Fragment 6: calls** — `call_leaves_stack`: a call expression evaluates receiver and arguments, runs the callee and
leaves the caller's stacks as they were plus the result (the arguments and everything the callee pushed are gone). -/
theorem call_leaves_stack (W : World) (j : Nat) (g : FuncDecl) (gc : CFunc) (hg : W.P.funcs[j]? = some g)
    (hgc : W.cfs[j]? = some gc) (fnc : CFn) (n : Nat) (env : Env) (ci : CallInfo) (recv args : List Expr)
    (cs : SState) (is : List Instr) (cs' : SState)
    (hc : compE W.fx (W.cenv j) fnc (.call ci recv args) cs = some (is, cs'))
    (p : Int) (hat : At gc.code p is) (hpool : PoolOK cs' gc)
    (fr : Frame) (bO : List Obj) (bI : List Int64) (hF : FrameOK fnc cs.locals env fr bO bI)
    (st : Stack) (hB : BaseOf st bO bI) :
    CGoal (W.ctx j fnc gc) (evalCall W.P n env ci recv args) fr p (p + isize is) st :=
  ((W.all n j g gc hg hgc).2 fnc).2.2.1 env ci recv args cs is cs' hc p hat hpool fr bO bI hF st hB

/-- **Compiler correctness (full strength, repaired code).**  Let the functions of a file be compiled in order by the
repaired compiler (`Compiled`: every function compiled by `structCompile` in the environment of the functions before it;
function names and parameter names distinct, fewer than 32768 functions, no natives).  Then for every function, all
arguments and every amount of source fuel: if the reference semantics returns a value, so does `quasigo.Call` on the
repaired VM (with enough fuel), and it is the same value; if the reference semantics panics, the VM panics the same
way.  (`fuel`/`stuck`/`unsup` outcomes of the reference semantics — not terminated yet, not a type-checked program of
the subset, native without a reference meaning — claim nothing.) -/
theorem compile_correct (K : Compiled) (j : Nat) (g : FuncDecl) (gc : CFunc) (hg : K.P.funcs[j]? = some g)
    (hgc : K.cfs[j]? = some gc) (fuel : Nat) (av : List Val) :
    match SpecC04.run K.P fuel j av with
    | .ok r => ∃ fuel', callFunc K.fx ⟨[], K.cfs⟩ fuel' gc (pushVals av {}) = .done (resOf r)
    | .panic q => ∃ fuel', callFunc K.fx ⟨[], K.cfs⟩ fuel' gc (pushVals av {}) = .panic q
    | _ => True :=
  K.toWorld.call_correct j g gc hg hgc fuel av

/-- The model meets the executable statement of the property that the harness evaluates on the implementation's
outputs (`SpecC04.run`, op `qsrc`): whenever that statement prescribes a result, the (repaired) model produces it. -/
theorem model_meets_spec (K : Compiled) (j : Nat) (g : FuncDecl) (gc : CFunc) (hg : K.P.funcs[j]? = some g)
    (hgc : K.cfs[j]? = some gc) (fuel : Nat) (av : List Val) (r : Option Val)
    (h : SpecC04.run K.P fuel j av = .ok r) :
    ∃ fuel', callFunc K.fx ⟨[], K.cfs⟩ fuel' gc (pushVals av {}) = .done (resOf r) := by
  have := compile_correct K j g gc hg hgc fuel av
  rw [h] at this; exact this

/-- **The code as it is: partial.**  Full statement (false, see C04Examples): `compile_correct` with `Fixes.asis` for `W.fx`.
What is proved: if only the VM repair is in force (`fx'.frame`: the callee frame is popped) and the unrepaired
compiler `fx'` produces, for every function of the program, the same code as the repaired one (i.e. the program avoids
the constructs the eight compile-time repairs touch — decidable for a given program), the result is correct.
Missing: programs without calls should not need `fx'.frame` either (not proved). -/
theorem compile_correct_partial (K : Compiled) (fx' : Fixes) (hframe : fx'.frame = true)
    (_hsame : ∀ j g, K.P.funcs[j]? = some g →
      structCompile fx' ⟨[], (K.P.funcs.take j).map (·.key)⟩ g = structCompile K.fx ⟨[], (K.P.funcs.take j).map (·.key)⟩ g)
    (j : Nat) (g : FuncDecl) (gc : CFunc) (hg : K.P.funcs[j]? = some g)
    (hgc : K.cfs[j]? = some gc) (fuel : Nat) (av : List Val) :
    match SpecC04.run K.P fuel j av with
    | .ok r => ∃ fuel', callFunc fx' ⟨[], K.cfs⟩ fuel' gc (pushVals av {}) = .done (resOf r)
    | .panic q => ∃ fuel', callFunc fx' ⟨[], K.cfs⟩ fuel' gc (pushVals av {}) = .panic q
    | _ => True := by
  have h := compile_correct K j g gc hg hgc fuel av
  have e : ∀ n, callFunc fx' ⟨[], K.cfs⟩ n gc (pushVals av {}) = callFunc K.fx ⟨[], K.cfs⟩ n gc (pushVals av {}) :=
    fun n => callFunc_congr_frame fx' K.fx (by rw [hframe, K.hfx.frame]) _ _ _ _
  cases hr : SpecC04.run K.P fuel j av with
  | ok r => simp only [hr] at h; obtain ⟨m, hm⟩ := h; exact ⟨m, by rw [e, hm]⟩
  | panic q => simp only [hr] at h; obtain ⟨m, hm⟩ := h; exact ⟨m, by rw [e, hm]⟩
  | _ => trivial

/-! ### non-vacuity: a concrete `World` and what the theorem says about it -/

/-- the compiled form of the D1 program `f(x) = x + 1; g() = f(1) + f(10)` under the repaired compiler -/
def d1Compiled : List CFunc :=
  match structCompile Fixes.all ⟨[], []⟩ d1f, structCompile Fixes.all ⟨[], [0]⟩ d1g with
  | some a, some b => [a.toCFunc, b.toCFunc]
  | _, _ => []

def d1K : Compiled where
  fx := Fixes.all
  hfx := FxOK.all
  P := ⟨[d1f, d1g], fun _ => none⟩
  hnat := fun _ => rfl
  cfs := d1Compiled
  keysNodup := by decide
  paramsNodup := by decide
  novoid := by decide
  small := by decide
  compiled := by
    intro j g hg
    match j, hg with
    | 0, hg => simp at hg; subst hg; exact ⟨_, rfl, by decide⟩
    | 1, hg => simp at hg; subst hg; exact ⟨_, rfl, by decide⟩
    | n + 2, hg => simp at hg

def d1World : World := d1K.toWorld

-- the hypotheses are met, the reference semantics prescribes 13, hence (by the theorem) the repaired VM returns 13 …
example : SpecC04.run d1K.P 100 1 [] = .ok (some (.int 13)) := by decide
example : ∃ fuel', callFunc Fixes.all ⟨[], d1Compiled⟩ fuel' d1Compiled[1]! (pushVals [] {}) = .done (resOf (some (.int 13))) :=
  model_meets_spec d1K 1 d1g d1Compiled[1]! rfl (by decide) 100 [] _ (by decide)
-- … which a direct evaluation confirms, while the code as it is returns 22 (C04Examples)
example : callFunc Fixes.all ⟨[], d1Compiled⟩ 100 d1Compiled[1]! {} = .done { scalar := 13 } := by decide
-- the structured compiler and the byte-level transcription agree on this program (in general: checked by the driver)
example : (structCompile Fixes.all ⟨[], [0]⟩ d1g).map SFunc.toCFunc = (match compileFunc Fixes.all ⟨[], [0]⟩ d1g with
    | .ok c => some c | _ => none) := by decide
example : FxOK Fixes.all := FxOK.all

end C04
