import Rg.Proofs.IRLoad
import Rg.Props.C06
/-!
# C05 — precompiled IR rules behave exactly like the source rules (loader half)

`Rg/Props/C05.lean` proves the IR half: printing an IR value and evaluating the printed literal gives the
value back, nil and empty slices identified (`roundtrip`).  This file composes it with the loader model of C06
and the converter model of C18/C06 (`Rg/Model/IRLoad.lean`):

```
 source ──irconv──▶ ir.File ──────────────────────────────────────────▶ LoadFile     (Engine.Load)
                       │                                                    ▲
                       └─irprint──▶ Go text ──compiler──▶ ir.File' ─────────┘        (precompile + LoadFromIR)
```

* `load_respects_normalize`        — the loader cannot tell a nil slice from an empty one (FULL; all IR values).
* `precompiled_load_eq_ir_load`    — for every IR value of the schema: print, read the literal back, load
                                     = load the value itself — same accepted alternatives with the same buckets,
                                     same located error, same panic (FULL for the printer after
                                     fixes/irprint-roundtrip.diff; `_partial` for the printer before it).
* `convertFile_schema`             — what the converter returns is a value of the schema (FULL on the modelled
                                     fragment), so the hypothesis of the previous theorem is discharged for
* `precompiled_eq_source_load`     — for every source file of the modelled fragment: `Engine.Load` and
                                     `precompile` + `LoadFromIR` have the same outcome (FULL on the fragment).
* `precompiled_load_total`, `precompiled_accepted_rules_bound` — C06's guarantees carry over to the
                                     precompiled path.
* `source_models_agree_partial`    — the IR-valued transcription of `convertRuleExpr` used here and the
                                     `Loader.Rule`-valued one of C06 (`Comp.convertFileG`) are the same function
                                     (for decodings that commute with the two string constructions of the converter).

What is *not* covered by these statements (see the header of `Rg/Model/IRLoad.lean` for the precise list):
the run-time half (equal reports: a consequence of equal rule sets only under the — unmodelled — fact that
the loader builds equal closures from equal IR), bundle imports' rule sets, quasigo compilation of custom
declarations (an oracle: `Env.compile`), per-group import tables, `Line`/`Src` of filter nodes on the source
side (zero in `Conv.convertG`; arbitrary in the theorems about IR values).
-/
namespace C05
open IR Comp Conv Loader

/-! ## (2) nil and empty slices -/

/-- the loader's view of an IR value does not contain the nil/empty bits -/
theorem toLoaderFile_normalize (dec : Bytes → String) (f : IR.File) :
    toLoaderFile dec (normalize f) = toLoaderFile dec f := Comp.toLoaderFile_normalize dec f

/-- **load_respects_normalize**: the loader cannot tell a nil slice from an empty one -/
theorem load_respects_normalize (o : Oracles) (tc : TagCfg) (dec : Bytes → String) (f : IR.File) :
    loadFile o tc (toLoaderFile dec (normalize f)) = loadFile o tc (toLoaderFile dec f) := by
  rw [toLoaderFile_normalize]

/-- … also through the stages in front of the rule groups (bundle imports, custom declarations) -/
theorem loadIR_respects_normalize (env : Env) (tc : TagCfg) (dec : Bytes → String) (f : IR.File) :
    loadIR env tc dec (normalize f) = loadIR env tc dec f := Comp.loadIR_normalize env tc dec f

/-! ## (3) precompiled load = IR load -/

/-- **precompiled_load_eq_ir_load**: for every IR value of the schema, loading what the printer printed
and the literal evaluator read back gives the loader the same outcome as loading the value itself. -/
theorem precompiled_load_eq_ir_load (o : Oracles) (tc : TagCfg) (dec : Bytes → String) (f : IR.File)
    (h : IR.wfFile f = true) :
    precompiledLoad o tc dec f = some (loadFile o tc (toLoaderFile dec f)) :=
  precompiledLoad_eq o tc dec f h

/-- the same statement spelled out: the printer does not panic, the text is an `ir.File` literal, and the
value it denotes loads like `f` -/
theorem precompiled_load_eq_ir_load_ex (o : Oracles) (tc : TagCfg) (dec : Bytes → String) (f : IR.File)
    (h : IR.wfFile f = true) :
    ∃ ts f', printFile f = .ok ts ∧ SpecC05.evalLit ts = some f' ∧
      loadFile o tc (toLoaderFile dec f') = loadFile o tc (toLoaderFile dec f) := by
  obtain ⟨ts, hp, he⟩ := IRProofs.roundtrip_fixed f h
  exact ⟨ts, normalize f, hp, he, load_respects_normalize o tc dec f⟩

/-- … with the custom declarations and bundle imports of the value that was read back -/
theorem precompiled_loadIR_eq (env : Env) (tc : TagCfg) (dec : Bytes → String) (f : IR.File)
    (h : IR.wfFile f = true) : precompiledLoadIR env tc dec f = some (loadIR env tc dec f) :=
  precompiledLoadIR_eq env tc dec f h

/-  Full statement for the printer as it was — FALSE (`C05.cexBundle`, `C05.cexZero`: the text is not a
    literal of the value):
      theorem precompiled_load_eq_ir_load_asis (h : wfFile f) :
        precompiledLoad_asis o tc dec f = some (loadFile o tc (toLoaderFile dec f))
-/
/-- the printer before fixes/irprint-roundtrip.diff: needs "no zero-valued slice element, no bundle imports" -/
theorem precompiled_load_eq_ir_load_partial (o : Oracles) (tc : TagCfg) (dec : Bytes → String) (f : IR.File)
    (h : IR.wfFile f = true) (hz : noZeroElemsFile f = true) (hb : f.bundleImports.elems = []) :
    precompiledLoad_asis o tc dec f = some (loadFile o tc (toLoaderFile dec f)) :=
  precompiledLoad_asis_eq o tc dec f h hz hb

/-! ## (4) source load = precompiled load -/

/-- **convertFile_schema**: the converter (after fixes/c06-*.diff) returns values of the IR schema -/
theorem convertFile_schema (s : SrcFile) (f : IR.File) (h : convertFileIR true s = .ok f) : IR.wfFile f = true :=
  convertFileIR_schema s f h

/-- **precompiled_eq_source_load**: for every source rules file of the modelled fragment that converts,
`LoadFromIR` of the printed text and `Load` of the source have the same outcome. -/
theorem precompiled_eq_source_load (o : Oracles) (tc : TagCfg) (dec : Bytes → String) (s : SrcFile) (f : IR.File)
    (h : convertFileIR true s = .ok f) :
    precompiledLoad o tc dec f = some (loadFile o tc (toLoaderFile dec f)) :=
  precompiled_load_eq_ir_load o tc dec f (convertFile_schema s f h)

/-- the same as one equation between the two pipelines (a conversion error is an error of both: `gorules
precompile` fails, `Load` returns it; the converter does not panic) -/
theorem precompiled_eq_source_load_pipelines (o : Oracles) (tc : TagCfg) (dec : Bytes → String) (s : SrcFile) :
    sourcePrecompiledLoad o tc dec s = (sourceLoad o tc dec s).map some ∧ ∀ p, convertFileIR true s ≠ .panic p := by
  refine ⟨?_, convertFileIR_noPanic s⟩
  unfold sourcePrecompiledLoad sourceLoad
  cases hc : convertFileIR true s with
  | ok f => simp only [CRes.map, precompiled_eq_source_load o tc dec s f hc]
  | err => rfl
  | panic p => rfl

/-- **precompiled_load_total**: a precompiled rules file loads without a panic (C06.load_total on the
value that was read back) -/
theorem precompiled_load_total (o : Oracles) (tc : TagCfg) (hs : o.strict = true) (hr : tagsInRange o tc)
    (dec : Bytes → String) (s : SrcFile) (f : IR.File) (h : convertFileIR true s = .ok f) :
    ∃ x, precompiledLoad o tc dec f = some x ∧ NoPanic x :=
  ⟨_, precompiled_eq_source_load o tc dec s f h,
    C06.load_total o tc _ hs hr (convertFileIR_loaderWf dec s f h)⟩

/-- **precompiled_accepted_rules_bound**: what the precompiled path accepts binds every variable its Where
and At() clauses mention -/
theorem precompiled_accepted_rules_bound (o : Oracles) (tc : TagCfg) (hs : o.strict = true)
    (dec : Bytes → String) (f : IR.File) (h : IR.wfFile f = true) (as : List Accepted)
    (hl : precompiledLoad o tc dec f = some (lok as)) : ∀ a ∈ as, sound a = true := by
  rw [precompiled_load_eq_ir_load o tc dec f h] at hl
  exact C06.accepted_rules_bound o tc _ hs as (Option.some.inj hl)

/-! ## the link to the C06 composition -/

/-  Full statement — for every decoding: not provable (and false for a decoding that does not map
    `"suggestion: " ++ s` to `"suggestion: " ++ dec s`): the C06 transcription builds two strings *after*
    decoding (`"suggestion: " + SuggestTemplate`, `ident.String()`), the IR-valued one before.
      theorem source_models_agree (ar dec s) :
        convertFileG ar dec (s.groups.map (·.toSrcGroup dec)) = (convertFileIR ar s).map (toLoaderFile dec)
-/
/-- **source_models_agree_partial**: the `Loader.File`-valued source model of the C06 composition
(`Comp.convertFileG`) factors through the IR value: it is `convertFileIR` followed by `toLoaderFile` —
so `C06.source_load_total` / `source_accepted_rules_bound` and the theorems above speak about the same loads.
Hypothesis: the decoding commutes with the converter's own two string constructions (`Comp.DecHom`;
`Comp.latin1_decHom`: the byte-per-character decoding does, on every chain whose `Do()` name is ASCII). -/
theorem source_models_agree_partial (ar : Bool) (dec : Bytes → String) (s : SrcFile)
    (hd : ∀ g ∈ s.groups, ∀ c ∈ g.chains, DecHom dec c) :
    convertFileG ar dec (s.groups.map (SrcRuleGroup.toSrcGroup dec)) = (convertFileIR ar s).map (toLoaderFile dec) :=
  convertFileG_eq ar dec s hd

/-! ## non-vacuity (kernel-checked): two groups, filters, a comment rule, an `At()`, a `Suggest()`-only rule,
a bare `//doc:tags` (empty non-nil slice), a group import -/
open C06 (an litS mx textMatches o1 genTags)

def chainWhere : Chain :=
  { line := 5, matchArgs := some [(5, litS [102, 40, 36, 120, 41]), (6, litS [103, 40, 36, 120, 41])], matchCommentArgs := none,
    whereArgs := some [textMatches [litS [97]]], suggestArgs := none, reportArgs := some [litS [114]],
    atArgs := some [mx], doArgs := none }
def chainComment : Chain :=
  { line := 8, matchArgs := none, matchCommentArgs := some [(8, litS [84, 79, 68, 79])], whereArgs := none,
    suggestArgs := none, reportArgs := some [litS [99]], atArgs := none, doArgs := none }
def notPure : CExpr := .unary an "!" (.sel an mx "Pure")
def chainSuggest : Chain :=
  { line := 13, matchArgs := some [(13, litS [102, 40, 36, 120, 41])], matchCommentArgs := none,
    whereArgs := some [notPure], suggestArgs := some [litS [103]], reportArgs := none,
    atArgs := none, doArgs := none }
def sampleSrc : SrcFile :=
  { pkgPath := [103], customDecls := [], bundleImports := [],
    groups := [
      { line := 4, name := [103, 49], matcherName := [109], docTags := Sl.nil, docSummary := [], docBefore := [], docAfter := [],
        docNote := [], imports := [], chains := [chainWhere, chainComment] },
      { line := 12, name := [103, 50], matcherName := [109], docTags := ⟨[], true⟩, docSummary := [115], docBefore := [],
        docAfter := [], docNote := [], imports := [⟨[105, 111], [105, 111]⟩], chains := [chainSuggest] }] }

theorem opn_Not : IR.opNamed "Not" = 1 := by decide
theorem opn_VarPure : IR.opNamed "VarPure" = 12 := by decide

theorem conv_notPure : convFilter true notPure = .ok (mkOp "Not" .nil [mkOp "VarPure" (.str [120]) []]) := by
  simp [convFilter, notPure, convertG, convertImplG, convertStructG, an, mx, litS, CExpr.ann, inspect,
    pathAt, pathUnder, unparen, toStringValue, selectorOps, List.lookup, C06.mkOp_op, opn_Not, opn_VarPure]

def fWhere : FilterExpr := mkOp "VarTextMatches" (.str [120]) [mkOp "String" (.str [97]) []]
def fNotPure : FilterExpr := mkOp "Not" .nil [mkOp "VarPure" (.str [120]) []]

def sampleIR : IR.File :=
  { pkgPath := [103], customDecls := Sl.nil, bundleImports := Sl.nil,
    ruleGroups := ⟨[
      { line := 4, name := [103, 49], matcherName := [109], docTags := Sl.nil, docSummary := [], docBefore := [], docAfter := [],
        docNote := [], imports := Sl.nil,
        rules := ⟨[
          { line := 5, syntaxPatterns := ⟨[⟨5, [102, 40, 36, 120, 41]⟩, ⟨6, [103, 40, 36, 120, 41]⟩], false⟩, commentPatterns := Sl.nil,
            reportTemplate := [114], suggestTemplate := [], doFuncName := [], whereExpr := fWhere, locationVar := [120] },
          { line := 8, syntaxPatterns := Sl.nil, commentPatterns := ⟨[⟨8, [84, 79, 68, 79]⟩], false⟩,
            reportTemplate := [99], suggestTemplate := [], doFuncName := [], whereExpr := FilterExpr.zero, locationVar := [] }], false⟩ },
      { line := 12, name := [103, 50], matcherName := [109], docTags := ⟨[], true⟩, docSummary := [115], docBefore := [],
        docAfter := [], docNote := [], imports := ⟨[⟨[105, 111], [105, 111]⟩], false⟩,
        rules := ⟨[
          { line := 13, syntaxPatterns := ⟨[⟨13, [102, 40, 36, 120, 41]⟩], false⟩, commentPatterns := Sl.nil,
            reportTemplate := suggPrefix ++ [103], suggestTemplate := [103], doFuncName := [], whereExpr := fNotPure,
            locationVar := [] }], false⟩ }], false⟩ }

theorem parse_litS (s : Bytes) : parseStringArg (litS s) = .ok s := by simp [parseStringArg, toStringValue, litS]

theorem sample_converts : convertFileIR true sampleSrc = .ok sampleIR := by
  have h1 : convFilter true (textMatches [litS [97]]) = .ok fWhere := C06.conv_textMatches
  simp [convertFileIR, sampleSrc, convertGroupIR, seqC, convertRuleIR, convertRuleIRW, chainWhere, chainComment, chainSuggest,
    h1, conv_notPure, parsePatternsIR, parse_litS, chainArg0, CRes.bind, mx, sampleIR, Sl.nil, fNotPure]

example : IR.wfFile sampleIR = true := convertFile_schema _ _ sample_converts
example : normalize sampleIR ≠ sampleIR := by decide

/-- the outcome both paths must have on the sample: four accepted alternatives -/
def outcomeOK (x : LRes (List Accepted)) : Bool :=
  match x with
  | .ok (.ok as) => as.map (fun a => (a.group, a.line, a.comment, a.whereVars, a.locationVar)) ==
      [("g1", 5, false, ["x"], "x"), ("g1", 6, false, ["x"], "x"), ("g1", 8, true, [], ""), ("g2", 13, false, ["x"], "")]
  | _ => false

def feW : FE := .mk 34 0 (.str "x") [.mk 46 0 (.str "a") []]
def feN : FE := .mk 1 0 .nil [.mk 12 0 (.str "x") []]
def sampleLF : Loader.File :=
  ⟨[⟨4, "g1", [
      { line := 5, syntaxPatterns := [⟨5, "f($x)"⟩, ⟨6, "g($x)"⟩], commentPatterns := [], reportTemplate := "r",
        suggestTemplate := "", doFuncName := "", whereExpr := feW, locationVar := "x" },
      { line := 8, syntaxPatterns := [], commentPatterns := [⟨8, "TODO"⟩], reportTemplate := "c",
        suggestTemplate := "", doFuncName := "", whereExpr := .mk 0 0 .nil [], locationVar := "" }]⟩,
    ⟨12, "g2", [
      { line := 13, syntaxPatterns := [⟨13, "f($x)"⟩], commentPatterns := [], reportTemplate := "suggestion: g",
        suggestTemplate := "g", doFuncName := "", whereExpr := feN, locationVar := "" }]⟩]⟩
theorem sampleLF_eq : toLoaderFile latin1 sampleIR = sampleLF := by rfl
theorem szW : feSize feW = 2 := by simp [feSize, feW]
theorem szN : feSize feN = 2 := by simp [feSize, feN]
theorem load_sample : outcomeOK (loadFile o1 genTags sampleLF) = true := by
  simp only [loadFile, sampleLF, seqL, loadGroup, loadRule, szW, szN]
  decide

/-- the sample satisfies the hypotheses of `source_models_agree_partial` -/
theorem sample_decHom : ∀ g ∈ sampleSrc.groups, ∀ c ∈ g.chains, DecHom latin1 c := by
  intro g hg c hc
  apply latin1_decHom
  simp only [sampleSrc, List.mem_cons, List.mem_nil_iff, or_false] at hg
  rcases hg with rfl | rfl <;> simp only [List.mem_cons, List.mem_nil_iff, or_false] at hc
  · rcases hc with rfl | rfl <;> simp [Chain.doName, chainWhere, chainComment]
  · subst hc; simp [Chain.doName, chainSuggest]

/-- both pipelines on the sample: the same four accepted alternatives -/
theorem sample_both :
    sourceLoad o1 genTags latin1 sampleSrc = .ok (loadFile o1 genTags sampleLF) ∧
    sourcePrecompiledLoad o1 genTags latin1 sampleSrc = .ok (some (loadFile o1 genTags sampleLF)) ∧
    outcomeOK (loadFile o1 genTags sampleLF) = true := by
  refine ⟨?_, ?_, load_sample⟩
  · simp only [sourceLoad, sample_converts, CRes.map, sampleLF_eq]
  · simp only [sourcePrecompiledLoad, sample_converts, CRes.map,
      precompiled_eq_source_load o1 genTags latin1 sampleSrc sampleIR sample_converts, sampleLF_eq]

-- the printer and the evaluator really run on the sample (not only through the theorem)
set_option maxRecDepth 1000000 in
example : SpecC05.specHolds sampleIR (printFile sampleIR) = true := by decide

-- a `Do()` chain: `m.Match("f($x)").Do(isOK)` converts, with the function name as Go bytes
def chainDo : Chain :=
  { line := 20, matchArgs := some [(20, litS [102, 40, 36, 120, 41])], matchCommentArgs := none, whereArgs := none,
    suggestArgs := none, reportArgs := none, atArgs := none, doArgs := some [.ident an "isOK"] }
example : (match convertRuleIR true chainDo with | .ok r => r.doFuncName == [105, 115, 79, 75] | _ => false) = true := by decide
example : DecHom latin1 chainDo := latin1_decHom _ (by
  intro n hn
  have : n = "isOK" := by simpa [Chain.doName, chainDo] using hn.symm
  subst this; decide)

/-! ### the printer as it was: both hypotheses of `precompiled_load_eq_ir_load_partial` are needed -/

/-- a zero-valued pattern in front of a real one: dropped by the printer as it was, so the loader sees one
alternative instead of two (with a gogrep oracle that accepts every string) -/
def cexZeroPat : IR.File :=
  ⟨[103], ⟨[⟨1, [103], [109], Sl.nil, [], [], [], [], Sl.nil,
    ⟨[⟨2, ⟨[⟨0, []⟩, ⟨3, [102, 40, 36, 120, 41]⟩], false⟩, Sl.nil, [114], [], [], FilterExpr.zero, []⟩], false⟩⟩], false⟩, Sl.nil, Sl.nil⟩

def nAccepted : Option (LRes (List Accepted)) → Nat
  | some (.ok (.ok as)) => as.length
  | _ => 99

example : IR.wfFile cexZeroPat = true ∧ noZeroElemsFile cexZeroPat = false ∧ cexZeroPat.bundleImports.elems = [] := by decide
set_option maxRecDepth 1000000 in
example : nAccepted (precompiledLoad_asis o1 genTags latin1 cexZeroPat) = 1 ∧
    nAccepted (some (loadFile o1 genTags (toLoaderFile latin1 cexZeroPat))) = 2 ∧
    nAccepted (precompiledLoad o1 genTags latin1 cexZeroPat) = 2 := by decide

/-- one bundle import: what the printer as it was writes is not an `ir.File` literal at all (D13) -/
def cexBundleLoad : IR.File := ⟨[103], Sl.nil, Sl.nil, ⟨[⟨3, [97, 47, 98], [112]⟩], false⟩⟩
example : IR.wfFile cexBundleLoad = true ∧ noZeroElemsFile cexBundleLoad = true := by decide
example : (precompiledLoad_asis o1 genTags latin1 cexBundleLoad).isNone = true ∧
    (precompiledLoad o1 genTags latin1 cexBundleLoad).isSome = true := by decide

/-- outside the schema the printer panics (`Value.(string)` of a one-line op), so there is nothing to load:
`wfFile` is a genuine hypothesis of `precompiled_load_eq_ir_load` -/
def cexAssertLoad : IR.File :=
  ⟨[], ⟨[⟨1, [], [], Sl.nil, [], [], [], [], Sl.nil,
    ⟨[⟨1, Sl.nil, Sl.nil, [], [], [], .mk 0 opString [] .nil [] false, []⟩], false⟩⟩], false⟩, Sl.nil, Sl.nil⟩
example : IR.wfFile cexAssertLoad = false ∧ (precompiledLoad o1 genTags latin1 cexAssertLoad).isNone = true := by decide

/-- `loadIR`: a failing bundle import ends the load before anything else is looked at; a nil and an empty
`CustomDecls` reach `compileFilterFuncs` as the same list -/
def envOK : Env := { bundles := fun bs => if bs.isEmpty then none else some ⟨3, "can't find imported bundle files"⟩,
                     compile := fun _ => .ok o1 }
example : (match loadIR envOK genTags latin1 cexBundleLoad with | .ok (.error e) => e.line == 3 | _ => false) = true := by decide
example : outcomeOK (loadIR envOK genTags latin1 sampleIR) = true := by
  show outcomeOK (loadFile o1 genTags (toLoaderFile latin1 sampleIR)) = true
  rw [sampleLF_eq]; exact load_sample

end C05
