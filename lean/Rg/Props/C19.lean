import Rg.Model.AdapterC19
import Rg.Spec.C19
/-!
# C19 — the go/analysis adapter relays the engine faithfully

Model: `Rg/Model/Adapter.lean`.  The engine (what `newEngine` answers for the flags, which reports a run
makes) is an input; the theorems are about what the adapter does with it, for every input.
-/
namespace C19
open AdM

/-! ## one diagnostic per report -/

/-- the reports the engine delivers before `runAnalyzer` stops: all files up to and including the first
one whose run returns an error -/
def delivered : List FileRun → List Report
  | [] => []
  | f :: fs => if f.err then f.reports else f.reports ++ delivered fs

/-- **One diagnostic per report**, in order, each the image of its report. -/
theorem one_diag_per_report (printLoc : Bool) : ∀ (files : List FileRun),
    (runFiles printLoc files).1 = (delivered files).map (diagOf printLoc)
  | [] => rfl
  | f :: fs => by
    unfold runFiles delivered
    split
    · rfl
    · simp only [List.map_append]
      rw [← one_diag_per_report printLoc fs]

theorem diag_count (printLoc : Bool) (files : List FileRun) :
    (runFiles printLoc files).1.length = (delivered files).length := by
  rw [one_diag_per_report]; simp

/-- without a failing run every report of every file is relayed -/
theorem all_reports_relayed (printLoc : Bool) (files : List FileRun) (h : ∀ f ∈ files, f.err = false) :
    runFiles printLoc files = ((files.flatMap (·.reports)).map (diagOf printLoc), false) := by
  induction files with
  | nil => rfl
  | cons f fs ih =>
    have hf := h f (List.mem_cons_self ..)
    have := ih (fun g hg => h g (List.mem_cons_of_mem _ hg))
    simp [runFiles, hf, this]

/-- position, message and prefix -/
theorem diag_position (printLoc : Bool) (r : Report) : (diagOf printLoc r).pos = r.pos := rfl

theorem diag_message_e (r : Report) : (diagOf false r).message = r.message := rfl

theorem diag_message_located (r : Report) :
    (diagOf true r).message =
      r.group ++ [58, 32] ++ r.message ++ [32, 40] ++ baseName r.filename ++ [58] ++ decimal r.line ++ [41] := rfl

/-- **The edit is the suggestion**: no suggestion, no fix; otherwise exactly one fix with exactly one
text edit, equal to the engine's suggestion. -/
theorem edit_is_suggestion (printLoc : Bool) (r : Report) :
    (r.suggestion = none → (diagOf printLoc r).fixes = []) ∧
    (∀ s, r.suggestion = some s →
      ∃ m, (diagOf printLoc r).fixes = [⟨m, [⟨s.from_, s.to, s.replacement⟩]⟩]) := by
  constructor
  · intro h; simp [diagOf, h]
  · intro s h; exact ⟨fixMessage, by simp [diagOf, h]⟩

/-- `%d` prints the number: the digits are ASCII digits and evaluate to `n` -/
def valueOf (ds : List UInt8) : Nat := ds.foldl (fun acc d => acc * 10 + (d.toNat - 48)) 0

theorem digits_value : ∀ (fuel n : Nat), n < fuel → valueOf (digits fuel n) = n ∧ ∀ d ∈ digits fuel n, 48 ≤ d.toNat ∧ d.toNat ≤ 57
  | 0, n, h => by omega
  | fuel + 1, n, h => by
    unfold digits
    split
    · rename_i hlt
      have h1 : (48 + n) % 256 = 48 + n := by omega
      constructor
      · simp [valueOf, UInt8.toNat_ofNat, h1]
      · intro d hd
        simp at hd; subst hd
        simp [UInt8.toNat_ofNat, h1]; omega
    · rename_i hge
      obtain ⟨ih1, ih2⟩ := digits_value fuel (n / 10) (by omega)
      have h1 : (48 + n % 10) % 256 = 48 + n % 10 := by omega
      constructor
      · unfold valueOf at ih1 ⊢
        rw [List.foldl_append, ih1]
        simp [UInt8.toNat_ofNat, h1]; omega
      · intro d hd
        rcases List.mem_append.1 hd with hd | hd
        · exact ih2 d hd
        · simp at hd; subst hd
          simp [UInt8.toNat_ofNat, h1]; omega

theorem decimal_value (n : Nat) : valueOf (decimal n) = n := (digits_value (n + 1) n (by omega)).1

/-- the model's diagnostics pass the executable statement -/
theorem model_meets_spec_diag (printLoc : Bool) (r : Report) : SpecC19.diagOK printLoc r (diagOf printLoc r) = true := by
  cases hs : r.suggestion with
  | none => cases printLoc <;> simp [SpecC19.diagOK, SpecC19.expectedMessage, diagOf, hs]
  | some s => cases printLoc <;> simp [SpecC19.diagOK, SpecC19.expectedMessage, diagOf, hs]

theorem model_meets_spec_pass (printLoc : Bool) : ∀ (rs : List Report),
    SpecC19.passOK printLoc rs (rs.map (diagOf printLoc)) = true
  | [] => rfl
  | r :: rs => by simp [SpecC19.passOK, model_meets_spec_diag, model_meets_spec_pass printLoc rs]

/-- for a pass that got the engine and a valid Go version, with no failing run -/
theorem model_meets_spec (printLoc : Bool) (files : List FileRun) (h : ∀ f ∈ files, f.err = false) :
    ∃ ds, runPass (Prep.engine ()) printLoc true files = .done ds ∧
      SpecC19.passOK printLoc (files.flatMap (·.reports)) ds = true := by
  refine ⟨(files.flatMap (·.reports)).map (diagOf printLoc), ?_, model_meets_spec_pass _ _⟩
  simp [runPass, all_reports_relayed printLoc files h]

/-! ## -enable / -disable -/

/-- **The filter is exact**: a group is loaded iff it is named by `-enable` (or `-enable` is `<all>`) and not
named by `-disable`, names being the comma-separated items with surrounding white space removed. -/
theorem filter_exact (enable disable name : Bytes) :
    groupFilter enable disable name = true ↔
      (enable = allLit ∨ name ∈ fields enable) ∧ name ∉ fields disable := by
  unfold groupFilter
  by_cases he : enable = allLit
  · subst he
    by_cases hd : name ∈ fields disable <;> simp [hd]
  · have hne : (enable == allLit) = false := by simpa using he
    have hne' : (enable != allLit) = true := by simp [bne, hne]
    by_cases hin : name ∈ fields enable <;> by_cases hd : name ∈ fields disable <;> simp [he, hne, hne', hin, hd]

theorem splitComma_eq_foldr : ∀ (s : Bytes), splitComma s =
    s.foldr (fun c acc => match acc with
      | [] => [[c]]
      | h :: t => if c == 44 then [] :: h :: t else (c :: h) :: t) [[]]
  | [] => rfl
  | c :: t => by
    simp only [splitComma, List.foldr_cons]
    rw [splitComma_eq_foldr t]
    rfl

theorem trimLeft_eq_dropWhile : ∀ (s : Bytes), trimLeft s = s.dropWhile isSpace
  | [] => rfl
  | c :: t => by
    simp only [trimLeft, List.dropWhile_cons]
    split <;> simp_all [trimLeft_eq_dropWhile t]

theorem fields_eq_names (s : Bytes) : fields s = SpecC19.names s := by
  unfold fields SpecC19.names
  rw [splitComma_eq_foldr]
  apply List.map_congr_left
  intro p _
  simp [trimSpace, trimLeft_eq_dropWhile]

/-- the model's filter is the executable statement's `wanted` -/
theorem model_meets_spec_filter (enable disable name : Bytes) :
    groupFilter enable disable name = SpecC19.wanted enable disable name := by
  unfold groupFilter SpecC19.wanted
  rw [← fields_eq_names, ← fields_eq_names]
  by_cases he : enable = allLit
  · subst he
    by_cases hd : (fields disable).contains name <;> simp [hd]
  · have hne : (enable == allLit) = false := by simpa using he
    have hne' : (enable != allLit) = true := by simp [bne, hne]
    by_cases hin : (fields enable).contains name <;> by_cases hd : (fields disable).contains name <;>
      simp [hne, hne', hin, hd]

/-! ## loaded once -/

theorem prepareN_cached {E : Type} (mk : Option E) (a : Adapter E) (e : E) (h : a.engine = some e) :
    ∀ n, prepareN false mk n a = (a, List.replicate n (.engine e))
  | 0 => rfl
  | n + 1 => by simp [prepareN, prepare, h, prepareN_cached mk a e h n, List.replicate_succ]

theorem prepareN_errored {E : Type} (mk : Option E) (a : Adapter E) (h1 : a.engine = none) (h2 : a.errored = true) :
    ∀ n, prepareN false mk n a = (a, List.replicate n .nothing)
  | 0 => rfl
  | n + 1 => by simp [prepareN, prepare, h1, h2, prepareN_errored mk a h1 h2 n, List.replicate_succ]

/-- **Loaded once.**  For every sequence of `prepareEngine` calls in a process (every schedule of passes:
the mutex serialises them), `newEngine` runs exactly once; when it succeeds every pass gets that engine;
when it fails exactly the first caller gets the error and every later caller gets (nil, nil). -/
theorem load_once {E : Type} (mk : Option E) (n : Nat) :
    (prepareN false mk (n + 1) Adapter.init).1.created = 1 ∧
    (∀ e, mk = some e → (prepareN false mk (n + 1) Adapter.init).2 = List.replicate (n + 1) (.engine e)) ∧
    (mk = none → (prepareN false mk (n + 1) Adapter.init).2 = .failed :: List.replicate n .nothing) := by
  cases mk with
  | none =>
    have := prepareN_errored (E := E) none ⟨none, true, 1⟩ rfl rfl n
    simp [prepareN, prepare, Adapter.init, this]
  | some e =>
    have := prepareN_cached (some e) ⟨some e, false, 1⟩ e rfl n
    simp [prepareN, prepare, Adapter.init, this, List.replicate_succ]

theorem never_loaded_without_a_pass {E : Type} (mk : Option E) :
    (prepareN false mk 0 Adapter.init).1.created = 0 := rfl

/-- the cache model passes the executable statement -/
theorem model_meets_spec_once {E : Type} [DecidableEq E] (mk : Option E) (n : Nat) :
    SpecC19.onceOK mk (prepareN false mk n Adapter.init).2 (prepareN false mk n Adapter.init).1.created = true := by
  cases n with
  | zero => rfl
  | succ n =>
    obtain ⟨hc, hok, herr⟩ := load_once mk n
    cases mk with
    | none =>
      rw [hc, herr rfl]
      simp [SpecC19.onceOK]
    | some e =>
      rw [hc, hok e rfl]
      simp [SpecC19.onceOK, List.replicate_succ]

/-- the test-only `ForceNewEngine` switch is outside the property: every pass loads again -/
example : (prepareN true (some ()) 3 Adapter.init).1.created = 3 := by decide

/-! ## non-vacuity -/

def g1 : Bytes := [103, 49]
def g2 : Bytes := [103, 50]
def list12 : Bytes := [32] ++ g1 ++ [32, 44, 9] ++ g2 ++ [32]      -- " g1 ,\tg2 "

example : fields list12 = [g1, g2] := by decide
example : groupFilter list12 g2 g1 = true ∧ groupFilter list12 g2 g2 = false := by decide
example : groupFilter allLit [] g1 = true ∧ groupFilter ([32] ++ allLit) [] g1 = false := by decide
example : decimal 0 = [48] ∧ decimal 1207 = [49, 50, 48, 55] := by decide
example : (diagOf true ⟨g1, [97, 47, 114, 46, 103, 111], 12, [109], 100, some ⟨100, 104, [120]⟩⟩) =
    ⟨100, g1 ++ [58, 32, 109, 32, 40, 114, 46, 103, 111, 58, 49, 50, 41], [⟨fixMessage, [⟨100, 104, [120]⟩]⟩]⟩ := by decide
example : (prepareN false (none : Option Unit) 3 Adapter.init) = (⟨none, true, 1⟩, [.failed, .nothing, .nothing]) := by decide
example : delivered [⟨[⟨g1, [], 1, [], 5, none⟩], true⟩, ⟨[⟨g2, [], 2, [], 6, none⟩], false⟩] = [⟨g1, [], 1, [], 5, none⟩] := by decide

end C19
