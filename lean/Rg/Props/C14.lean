import Rg.Model.XTypes
import Rg.Spec.C14
import Rg.Proofs.XTypes
import Rg.Proofs.XTypesSymm
import Rg.Proofs.XTypesImpl
import Rg.Proofs.XTypesTrans
/-!
# C14 — type identity / implements agree with go/types, across universes

`typeIdentical_asis` is `internal/xtypes.Identical` as it stands, `typeIdentical` the same function after
`fixes/xtypes-identical.diff` (`Rg/Model/XTypes.lean`).  `goIdentical` / `counterpart` are the spec
(`Rg/Spec/C14.lean`).  For the code as it stands the property is false (D16 and relatives): the `_partial`
theorems name the exact hypotheses under which it holds, the `example`s below them are kernel-checked
counterexamples showing that each hypothesis is needed, and the full-strength theorems are proved for the
repaired function.
-/

namespace C14
open XTypes SpecC14

/-! ## Reflexivity (both variants, all trees) -/

theorem x_refl (t : Ty) : typeIdentical t t = true := tid_refl true t
theorem x_refl_asis (t : Ty) : typeIdentical_asis t t = true := tid_refl false t

/-! ## Symmetry -/

/-- Repaired code: symmetric on all trees whose `exported` flags are a function `E` of the name
(`token.IsExported`). -/
theorem x_symm (E : String → Bool) (x y : Ty) (hx : flagsOK E x = true) (hy : flagsOK E y = true) :
    typeIdentical x y = typeIdentical y x :=
  tid_symm x y hx hy (by simp) (by simp)

/- Full statement for the code as it stands (FALSE): `∀ x y, typeIdentical_asis x y = typeIdentical_asis y x`. -/
/-- Code as it stands: symmetric on alias-free trees only (`case *types.Alias` looks through a left-hand
alias, a right-hand alias is compared as such). -/
theorem x_symm_partial (E : String → Bool) (x y : Ty) (hx : flagsOK E x = true) (hy : flagsOK E y = true)
    (hax : noAlias x = true) (hay : noAlias y = true) :
    typeIdentical_asis x y = typeIdentical_asis y x :=
  tid_symm x y hx hy (by simp [hax]) (by simp [hay])

/-! ## Transitivity -/

/-- Repaired code: transitive on all trees that are well-formed in the sense of `wfT` (flags are a function
of the name, one spelling per declaration object, array lengths known). -/
theorem x_trans (E : String → Bool) (D : Nat → Decl) (x y z : Ty)
    (hx : wfT E D x = true) (hy : wfT E D y = true) (hz : wfT E D z = true)
    (h1 : typeIdentical x y = true) (h2 : typeIdentical y z = true) : typeIdentical x z = true :=
  tid_trans x y z hx hy hz (by simp) (by simp) (by simp) h1 h2

/- Full statement for the code as it stands: as `x_trans` with `typeIdentical_asis`; not proved — the
   alias cases are missing (a right-hand alias is identical only to itself, so the relation is still
   transitive there, but the proof below goes through the alias-free normal form). -/
/-- Code as it stands: transitive on alias-free well-formed trees. -/
theorem x_trans_partial (E : String → Bool) (D : Nat → Decl) (x y z : Ty)
    (hx : wfT E D x = true) (hy : wfT E D y = true) (hz : wfT E D z = true)
    (hax : noAlias x = true) (hay : noAlias y = true) (haz : noAlias z = true)
    (h1 : typeIdentical_asis x y = true) (h2 : typeIdentical_asis y z = true) : typeIdentical_asis x z = true :=
  tid_trans x y z hx hy hz (by simp [hax]) (by simp [hay]) (by simp [haz]) h1 h2

/-! ## Agreement with go/types inside one universe, and with the counterpart relation across two -/

/-- Repaired code, one universe: on the fragment of the spec, for trees consistent with a declaration
table `D` (package-level declarations are determined by package path and name) and a universe
assignment `U`, `xtypes.Identical` *is* `go/types.Identical`. -/
theorem same_universe (D : Nat → Decl) (U : Option String → Nat) (hT : TableOK true D) (x y : Ty)
    (hpx : plain x = true) (hpy : plain y = true)
    (hox : ok true false D U x = true) (hoy : ok true false D U y = true) :
    typeIdentical x y = goIdentical x y :=
  agree hT x y hpx hpy hox hoy (by simp)

/-- Repaired code, two universes: a type is identical exactly to its counterparts (same construction
over the same declarations), for trees without function-local named types and type parameters. -/
theorem cross_universe (D : Nat → Decl) (hT : TableOK true D) (x y : Ty)
    (hpx : plain x = true) (hpy : plain y = true)
    (hox : ok true true D (fun _ => 0) x = true) (hoy : ok true true D (fun _ => 0) y = true) :
    typeIdentical x y = counterpart x y :=
  agree hT x y hpx hpy hox hoy (by simp)

/- Full statement for the code as it stands (FALSE, see the counterexamples below):
   `∀ x y, plain x → plain y → ok true false D U x → ok true false D U y → typeIdentical_asis x y = goIdentical x y`. -/
/-- Code as it stands, one universe.  Needed on top of `same_universe`: no alias anywhere in the right
operand (`noAlias y`), no struct tags and no type arguments (both part of `ok false …`), and a table in
which *no two declarations share a name* unless both are unexported and in different packages
(`TableOK false D`). -/
theorem same_universe_partial (D : Nat → Decl) (U : Option String → Nat) (hT : TableOK false D) (x y : Ty)
    (hpx : plain x = true) (hpy : plain y = true)
    (hox : ok false false D U x = true) (hoy : ok false false D U y = true) (ha : noAlias y = true) :
    typeIdentical_asis x y = goIdentical x y :=
  agree hT x y hpx hpy hox hoy (by simp [ha])

/-- Code as it stands, two universes, same extra hypotheses (function-local types are not excluded here:
the as-is rule identifies counterparts of local types — and, wrongly, much else, see `TableOK false`). -/
theorem cross_universe_partial (D : Nat → Decl) (hT : TableOK false D) (x y : Ty)
    (hpx : plain x = true) (hpy : plain y = true)
    (hox : ok false true D (fun _ => 0) x = true) (hoy : ok false true D (fun _ => 0) y = true)
    (ha : noAlias y = true) :
    typeIdentical_asis x y = counterpart x y :=
  agree hT x y hpx hpy hox hoy (by simp [ha])

/-- The executable statement the driver evaluates on the implementation's answers (`spec14`) holds of
the repaired model. -/
theorem model_meets_spec (cross : Bool) (D : Nat → Decl) (U : Option String → Nat) (hT : TableOK true D) (x y : Ty)
    (hpx : plain x = true) (hpy : plain y = true)
    (hox : ok true cross D U x = true) (hoy : ok true cross D U y = true) :
    specHolds cross x y (typeIdentical x y) = some true := by
  have h : typeIdentical x y = specId cross x y := agree hT x y hpx hpy hox hoy (by simp)
  simp [specHolds, hpx, hpy, h]

/-! ## Implements -/

/-- Repaired code: `xtypes.Implements` is `go/types.Implements` (method-set interfaces), one universe or
across two, given the `LookupFieldOrMethod` answers `ps` (an interface has no fields: `hvi`). -/
theorem implements_agree (cross : Bool) (D : Nat → Decl) (U : Option String → Nat) (hT : TableOK true D)
    (e vi : Bool) (ps : List Probe)
    (hwf : ∀ p ∈ ps, plain p.objTy = true ∧ plain p.mTy = true ∧
      ok true cross D U p.objTy = true ∧ ok true cross D U p.mTy = true)
    (hvi : vi = true → ∀ p ∈ ps, p.found ≠ .field) :
    implements true e vi ps = specImplements cross e (ps.map toSpecProbe) :=
  implements_eq true cross e vi ps
    (fun p hp => agree hT _ _ (hwf p hp).1 (hwf p hp).2.1 (hwf p hp).2.2.1 (hwf p hp).2.2.2 (by simp)) hvi

/-- Code as it stands: the same under the extra hypotheses of `same_universe_partial` on every probed pair
of method types. -/
theorem implements_agree_partial (cross : Bool) (D : Nat → Decl) (U : Option String → Nat) (hT : TableOK false D)
    (e vi : Bool) (ps : List Probe)
    (hwf : ∀ p ∈ ps, plain p.objTy = true ∧ plain p.mTy = true ∧
      ok false cross D U p.objTy = true ∧ ok false cross D U p.mTy = true ∧ noAlias p.mTy = true)
    (hvi : vi = true → ∀ p ∈ ps, p.found ≠ .field) :
    implements_asis e vi ps = specImplements cross e (ps.map toSpecProbe) :=
  implements_eq false cross e vi ps
    (fun p hp => agree hT _ _ (hwf p hp).1 (hwf p hp).2.1 (hwf p hp).2.2.1 (hwf p hp).2.2.2.1
      (by simp [(hwf p hp).2.2.2.2])) hvi

/-! ## Distinct named types -/

/-- Repaired code: two named types are identical only if their type arguments are pairwise identical and
they are the same object, or package-level declarations with the same name and the same package path.
In particular never two types that merely share a name, nor two instantiations of one generic type. -/
theorem named_distinct {u o : Nat} {p : Option String} {n : String} {ex l : Bool} {ts : List Ty}
    {u' o' : Nat} {p' : Option String} {n' : String} {ex' l' : Bool} {ts' : List Ty}
    (h : (tidList true ts ts' = false) ∨
         (¬ (u = u' ∧ o = o') ∧ ((p, n) ≠ (p', n') ∨ p = none ∨ l = true ∨ l' = true))) :
    typeIdentical (.named u o p n ex l ts) (.named u' o' p' n' ex' l' ts') = false := by
  cases hx : typeIdentical (.named u o p n ex l ts) (.named u' o' p' n' ex' l' ts') with
  | false => rfl
  | true =>
    obtain ⟨h1, h2⟩ := tid_named_fix hx
    rcases h with h | ⟨hne, h⟩
    · rw [h1] at h; cases h
    · rcases h2 with h2 | ⟨rfl, rfl, rfl, rfl, hp⟩
      · exact absurd h2 hne
      · simp at h; exact absurd h hp

/- Full statement for the code as it stands (FALSE): as `named_distinct` with `typeIdentical_asis`. -/
/-- Code as it stands: all that is guaranteed is that *differently spelt* names, or unexported names from
different packages, are told apart. -/
theorem named_distinct_partial {u o : Nat} {p : Option String} {n : String} {ex l : Bool} {ts : List Ty}
    {u' o' : Nat} {p' : Option String} {n' : String} {ex' l' : Bool} {ts' : List Ty}
    (hne : ¬ (u = u' ∧ o = o')) (h : n ≠ n' ∨ (ex = false ∧ samePkg p' p = false)) :
    typeIdentical_asis (.named u o p n ex l ts) (.named u' o' p' n' ex' l' ts') = false := by
  show tid false _ _ = false
  rw [tid_named_asis]
  have h1 : (u == u' && o == o') = false := by
    cases hb : (u == u' && o == o') with
    | false => rfl
    | true => simp at hb; exact absurd hb hne
  rw [h1, Bool.false_or]
  unfold sameID
  rcases h with h | ⟨rfl, h⟩
  · have : (n' != n) = true := by simpa [bne_iff_ne] using fun e => h e.symm
    simp [this]
  · split <;> simp_all

/-! ## Non-vacuity and kernel-checked counterexamples -/

def tTmpl : Ty := .named 1 10 (some "text/template") "Template" true false []
def hTmpl : Ty := .named 1 11 (some "html/template") "Template" true false []
def tTmpl2 : Ty := .named 2 10 (some "text/template") "Template" true false []
def boxInt : Ty := .named 1 12 (some "p") "Box" true false [.basic 2]
def boxStr : Ty := .named 1 12 (some "p") "Box" true false [.basic 17]
def boxInt2 : Ty := .named 2 12 (some "p") "Box" true false [.basic 2]
def locA : Ty := .named 1 13 (some "p") "t" false true []
def locB : Ty := .named 1 14 (some "p") "t" false true []
def aInt : Ty := .alias 1 15 (.basic 2)
def tagA : Ty := .struct [.field "A" (some "p") true false "json:\"a\"" (.basic 2)]
def tagB : Ty := .struct [.field "A" (some "p") true false "json:\"b\"" (.basic 2)]

/-- the declaration table of the examples -/
def Dex : Nat → Decl := fun o =>
  if o = 10 then ⟨some "text/template", "Template", true, false⟩
  else if o = 11 then ⟨some "html/template", "Template", true, false⟩
  else if o = 12 then ⟨some "p", "Box", true, false⟩
  else if o = 13 then ⟨some "p", "t", false, true⟩
  else if o = 14 then ⟨some "p", "t", false, true⟩
  else ⟨none, "", false, true⟩
def Uex : Option String → Nat := fun _ => 1

theorem Dex_loc {o : Nat} (h : (Dex o).loc = false) : o = 10 ∨ o = 11 ∨ o = 12 := by
  unfold Dex at h
  split at h; · left; assumption
  split at h; · right; left; assumption
  split at h; · right; right; assumption
  split at h; · simp at h
  split at h <;> simp at h

theorem Dex_ok : TableOK true Dex := by
  intro o o' h
  simp only [if_true] at h
  obtain ⟨h1, h2, _, h4, h5⟩ := h
  rcases Dex_loc h1 with rfl | rfl | rfl <;> rcases Dex_loc h2 with rfl | rfl | rfl <;>
    first | rfl | (exfalso; revert h4 h5; decide)

-- the hypotheses of `same_universe` / `cross_universe` are met by concrete trees, and the conclusions
-- are the intended ones
example : typeIdentical (.ptr tTmpl) (.ptr hTmpl) = goIdentical (.ptr tTmpl) (.ptr hTmpl) :=
  same_universe Dex Uex Dex_ok _ _ (by decide) (by decide) (by decide) (by decide)
example : goIdentical (.ptr tTmpl) (.ptr hTmpl) = false := by decide
example : typeIdentical (.slice boxInt) (.slice boxInt2) = counterpart (.slice boxInt) (.slice boxInt2) :=
  cross_universe Dex Dex_ok _ _ (by decide) (by decide) (by decide) (by decide)
example : counterpart (.slice boxInt) (.slice boxInt2) = true := by decide
example : typeIdentical boxInt boxStr = false := named_distinct (Or.inl (by decide))
example : typeIdentical tTmpl hTmpl = false := named_distinct (Or.inr ⟨by decide, Or.inl (by decide)⟩)

-- D16 and relatives: the code as it stands (each line is a hypothesis of a `_partial` theorem that cannot be dropped)
example : typeIdentical_asis (.ptr tTmpl) (.ptr hTmpl) = true ∧ goIdentical (.ptr tTmpl) (.ptr hTmpl) = false := by decide
example : typeIdentical_asis boxInt boxStr = true ∧ goIdentical boxInt boxStr = false := by decide
example : typeIdentical_asis locA locB = true ∧ goIdentical locA locB = false := by decide
example : typeIdentical_asis tagA tagB = true ∧ goIdentical tagA tagB = false := by decide
example : typeIdentical_asis (.basic 2) aInt = false ∧ goIdentical (.basic 2) aInt = true := by decide
example : typeIdentical_asis aInt (.basic 2) = true := by decide
-- symmetry fails as it stands (alias on one side), and so does Implements on a method that differs by package only
example : typeIdentical_asis aInt (.basic 2) ≠ typeIdentical_asis (.basic 2) aInt := by decide
example : typeIdentical aInt (.basic 2) = typeIdentical (.basic 2) aInt :=
  x_symm (fun _ => true) _ _ (by decide) (by decide)
def execSig (t : Ty) : Ty := .sig false [] (.tuple [.ptr t]) (.tuple [])
example : implements_asis false false [⟨.func, execSig hTmpl, execSig tTmpl⟩] = true ∧
    specImplements false false [(.func, execSig hTmpl, execSig tTmpl)] = false := by decide
example : implements true false false [⟨.func, execSig hTmpl, execSig tTmpl⟩] = false := by decide
-- `wfT` asks for known array lengths: an unknown length (type error upstream) is identical to every length,
-- in go/types as well, and that is not transitive
example : typeIdentical (.array 3 (.basic 2)) (.array (-1) (.basic 2)) = true ∧
    typeIdentical (.array (-1) (.basic 2)) (.array 4 (.basic 2)) = true ∧
    typeIdentical (.array 3 (.basic 2)) (.array 4 (.basic 2)) = false := by decide
example : typeIdentical (.slice boxInt) (.slice boxInt2) = true → typeIdentical (.slice boxInt2) (.slice boxInt) = true →
    typeIdentical (.slice boxInt) (.slice boxInt) = true :=
  x_trans (fun _ => true) Dex _ _ _ (by decide) (by decide) (by decide)
-- … all repaired:
example : typeIdentical (.ptr tTmpl) (.ptr hTmpl) = false ∧ typeIdentical boxInt boxStr = false ∧
    typeIdentical locA locB = false ∧ typeIdentical tagA tagB = false ∧ typeIdentical (.basic 2) aInt = true := by decide
-- not repaired (no cross-universe identity for type parameters and function-local types):
example : typeIdentical (.tparam 1 20) (.tparam 2 20) = false ∧ counterpart (.tparam 1 20) (.tparam 2 20) = true := by decide

end C14
