import Rg.Model.TextMatch
import Rg.Model.TextMatchTables
import Rg.Spec.C11
import Rg.Proofs.Regex
import Rg.Proofs.TextMatch
/-!
# C11 — regexp-taking predicates follow Go regexp semantics exactly

`fastpath_sound` : whenever `compileOptimized` (after `fixes/textmatch-foldcase.diff`) picks a matcher,
that matcher answers exactly like an unanchored regexp search of the same tree — every literal, every input.
`fastpath_sound_partial` : the same about the function as it stands, under `Plain re` (the literal it
looks at is case-sensitive and made of faithfully encodable runes); the two kernel-checked
counterexamples (`(?i)foo` on `foo`; `\x{FFFD}` on the byte `ff`) show the hypothesis is needed.
-/
namespace C11
open Rx Utf8 TM SpecC11

/-- What is assumed about the rune predicates, only when the pattern *string* is one of the two
special-cased ones: the parser produced `^[class]`, the predicate is membership in that class, and it
rejects U+FFFD (which `utf8.DecodeRune` returns for the empty input).  `predOK_tables` discharges it
for the regenerated tables. -/
def PredOK (P : Preds) (src : Bytes) (re : Re) : Prop :=
  (src = patUpper → ∃ fl rs a cls mn mx, re = .mk .concat fl rs [a, cls] mn mx ∧ isBegin a = true ∧
      cls.op = .charClass ∧ (∀ r, P.isUpper r = inClass cls.runes r) ∧ P.isUpper runeError = false) ∧
  (src = patLower → ∃ fl rs a cls mn mx, re = .mk .concat fl rs [a, cls] mn mx ∧ isBegin a = true ∧
      cls.op = .charClass ∧ (∀ r, P.isLower r = inClass cls.runes r) ∧ P.isLower runeError = false)

/-- the nodes `compileOptimized` applies `isLit` to: the root and its direct subs -/
def Plain (re : Re) : Prop := ∀ n, n ∈ re :: re.subs → isLitAsIs n = true → isLitFixed n = true

theorem pred_run {pred : Nat → Bool} {cls : Re} (hp : ∀ r, pred r = inClass cls.runes r)
    (he : pred runeError = false) (s : Bytes) :
    pred (decodeRune s).1 = true ↔ s ≠ [] ∧ inClass cls.runes (decodeRune s).1 = true := by
  cases s with
  | nil => simp [decodeRune, he]
  | cons b bs => simp [hp]

/-- generic in `isLit`: sound as soon as `isLit` only accepts plain literals on this tree -/
theorem fastpath_generic (isLit : Re → Bool) (P : Preds) (src : Bytes) (re : Re) (m : Matcher)
    (hup : ∀ n, n ∈ re :: re.subs → isLit n = true → isLitFixed n = true)
    (h : compileOptimizedWith isLit src re = .ok (some m)) (hp : PredOK P src re)
    (fold : Nat → List Nat) (s : Bytes) : m.run P s = true ↔ search fold re s := by
  rcases compileOptimizedWith_some h with ⟨h0, rfl⟩ | h1 | h2 | h3 | h4 | h5
  · exact (search_lit (hup re List.mem_cons_self h0) fold s).symm
  · obtain ⟨fl, rs, a, b, c, mn, mx, rfl, ha, hb, hc, rfl⟩ := tryContains3_some h1
    exact (search_contains3 ha (hup b (by simp [Re.subs]) hb) hc fold fl rs mn mx s).symm
  · obtain ⟨fl, rs, a, b, mn, mx, rfl, ha, hb, rfl⟩ := tryPrefix_some h2
    exact (search_prefix ha (hup b (by simp [Re.subs]) hb) fold fl rs mn mx s).symm
  · obtain ⟨fl, rs, a, b, mn, mx, rfl, ha, hb, rfl⟩ := trySuffix_some h3
    exact (search_suffix (hup a (by simp [Re.subs]) ha) hb fold fl rs mn mx s).symm
  · obtain ⟨fl, rs, a, b, c, mn, mx, rfl, ha, hb, hc, rfl⟩ := tryEq_some h4
    exact (search_eq ha (hup b (by simp [Re.subs]) hb) hc fold fl rs mn mx s).symm
  · rcases tryPred_some h5 with ⟨hs, rfl⟩ | ⟨hs, rfl⟩
    · obtain ⟨fl, rs, a, cls, mn, mx, rfl, ha, hc, hpr, he⟩ := hp.1 hs
      rw [search_pred ha hc]
      exact pred_run hpr he s
    · obtain ⟨fl, rs, a, cls, mn, mx, rfl, ha, hc, hpr, he⟩ := hp.2 hs
      rw [search_pred ha hc]
      exact pred_run hpr he s

/-- **Fast paths never change the answer** (function after the fix): for every pattern string, every
tree, every input byte string and every fold oracle, the matcher chosen by `compileOptimized` accepts
exactly when the regexp search does. -/
theorem fastpath_sound (P : Preds) (src : Bytes) (re : Re) (m : Matcher)
    (h : compileOptimized src re = .ok (some m)) (hp : PredOK P src re) (fold : Nat → List Nat) (s : Bytes) :
    m.run P s = true ↔ search fold re s :=
  fastpath_generic isLitFixed P src re m (fun _ _ hn => hn) h hp fold s

/- Full statement for the function as it stands (false, see the counterexamples below):
   compileOptimizedAsIs src re = .ok (some m) → PredOK P src re → ∀ fold s, m.run P s = true ↔ search fold re s -/
/-- the function as it stands, for trees whose inspected literals are plain -/
theorem fastpath_sound_partial (P : Preds) (src : Bytes) (re : Re) (m : Matcher)
    (h : compileOptimizedAsIs src re = .ok (some m)) (hplain : Plain re) (hp : PredOK P src re)
    (fold : Nat → List Nat) (s : Bytes) : m.run P s = true ↔ search fold re s :=
  fastpath_generic isLitAsIs P src re m hplain h hp fold s

/-- the executable search the driver evaluates is the declarative one (all trees, all inputs) -/
theorem search_decided (fold : Nat → List Nat) (re : Re) (s : Bytes) :
    searchB fold re s = true ↔ search fold re s := searchB_iff fold re s

/-- the model satisfies the executable statement of the property that the harness runs against the
implementation's answers -/
theorem model_meets_spec (P : Preds) (src : Bytes) (re : Re) (m : Matcher)
    (h : compileOptimized src re = .ok (some m)) (hp : PredOK P src re) (fold : Nat → List Nat) (s : Bytes) :
    specHolds fold re s (m.run P s) = true := by
  have h1 := fastpath_sound P src re m h hp fold s
  have h2 := searchB_iff fold re s
  unfold specHolds
  cases hs : searchB fold re s <;> cases hr : m.run P s <;> simp
  · exact absurd (h2.2 (h1.1 hr)) (by simp [hs])
  · exact absurd (h1.2 (h2.1 hs)) (by simp [hr])

theorem model_meets_spec_partial (P : Preds) (src : Bytes) (re : Re) (m : Matcher)
    (h : compileOptimizedAsIs src re = .ok (some m)) (hplain : Plain re) (hp : PredOK P src re)
    (fold : Nat → List Nat) (s : Bytes) : specHolds fold re s (m.run P s) = true := by
  have h1 := fastpath_sound_partial P src re m h hplain hp fold s
  have h2 := searchB_iff fold re s
  unfold specHolds
  cases hs : searchB fold re s <;> cases hr : m.run P s <;> simp
  · exact absurd (h2.2 (h1.1 hr)) (by simp [hs])
  · exact absurd (h1.2 (h2.1 hs)) (by simp [hr])

/-- `compile`: a specialised matcher when there is one, otherwise (and on a parse error) `regexp.Compile`'s
own result; so, given that the fallback's answer is the regexp search (`horacle`: the trusted library),
`textmatch.Compile(p).Match` is the regexp search. -/
theorem compile_sound (P : Preds) (src : Bytes) (re : Re) (pat : Pattern)
    (h : compile src (some re) = .ok pat) (hp : PredOK P src re) (fold : Nat → List Nat) (s : Bytes)
    (oracle : Bool) (horacle : oracle = true ↔ search fold re s) :
    pat.run P oracle s = true ↔ search fold re s := by
  unfold compile compileWith at h
  simp only at h
  cases hc : compileOptimizedWith isLitFixed src re with
  | panic p => simp [hc, Res.bind] at h
  | ok r =>
    simp only [hc, Res.bind] at h
    cases r with
    | none => simp only [Res.ok.injEq] at h; subst h; exact horacle
    | some m =>
      simp only [Res.ok.injEq] at h; subst h
      exact fastpath_sound P src re m hc hp fold s

/-- a pattern `syntax.Parse` rejects goes to `regexp.Compile` (which reports the error) -/
theorem fallback_on_parse_error (isLit : Re → Bool) (src : Bytes) : compileWith isLit src none = .ok .regexp := rfl

/-- `Sub[0]` is indexed unguarded, but on trees where every `*` node has an operand (all the parser
produces) `compileOptimized` cannot panic -/
def StarsHaveOperand (re : Re) : Prop := ∀ a, a ∈ re.subs → a.op = .star → a.subs ≠ []

theorem isAny_total {a : Re} (h : a.op = .star → a.subs ≠ []) : ∃ b, isAny a = .ok b := by
  unfold isAny
  by_cases ho : a.op = .star
  · rw [if_pos ho]
    cases hs : a.subs with
    | nil => exact absurd hs (h ho)
    | cons x xs => exact ⟨_, rfl⟩
  · rw [if_neg ho]; exact ⟨_, rfl⟩

theorem compileOptimized_total (isLit : Re → Bool) (src : Bytes) (re : Re) (hwf : StarsHaveOperand re) :
    ∃ r, compileOptimizedWith isLit src re = .ok r := by
  have h3 : ∃ r, tryContains3 isLit re = .ok r := by
    obtain ⟨op, fl, rs, subs, mn, mx⟩ := re
    unfold tryContains3
    simp only [Re.op, Re.subs]
    split
    · rename_i a b c
      obtain ⟨x, hx⟩ := isAny_total (hwf a (by simp [Re.subs]))
      obtain ⟨z, hz⟩ := isAny_total (hwf c (by simp [Re.subs]))
      simp only [hx, hz, Res.bind]
      split <;> exact ⟨_, rfl⟩
    · exact ⟨_, rfl⟩
  obtain ⟨r3, hr3⟩ := h3
  unfold compileOptimizedWith
  split
  · exact ⟨_, rfl⟩
  · simp only [hr3, Res.bind]
    split
    · exact ⟨_, rfl⟩
    · split
      · exact ⟨_, rfl⟩
      · split
        · exact ⟨_, rfl⟩
        · split <;> exact ⟨_, rfl⟩

/-! ## the regenerated tables satisfy `PredOK` -/

def flatPairs (t : List (Nat × Nat)) : List Nat := t.flatMap fun p => [p.1, p.2]

theorem inClass_flat (t : List (Nat × Nat)) (r : Nat) : inClass (flatPairs t) r = inTable t r := by
  induction t with
  | nil => rfl
  | cons p t ih => simp [flatPairs, inClass, inTable] at ih ⊢; rw [ih]

/-- the tree `syntax.Parse` returns for `^\p{Lu}` / `^\p{Ll}` (checked by `rgh extract` on every run) -/
def predTree (cls : List Nat) : Re := node .concat [leaf .beginText, .mk .charClass 0 cls [] 0 0]

set_option maxRecDepth 100000 in
theorem classLu_eq : Gen.Unicode.classLu = flatPairs Gen.Unicode.upperTable := by decide
set_option maxRecDepth 100000 in
theorem classLl_eq : Gen.Unicode.classLl = flatPairs Gen.Unicode.lowerTable := by decide
set_option maxRecDepth 100000 in
theorem upper_rejects_error : inTable Gen.Unicode.upperTable runeError = false := by decide
set_option maxRecDepth 100000 in
theorem lower_rejects_error : inTable Gen.Unicode.lowerTable runeError = false := by decide

set_option maxRecDepth 100000 in
/-- table obligation (re-checked against the regenerated `Rg/Gen/Unicode.lean` on every run): what
`unicode.IsUpper`/`IsLower` accept is exactly the class the parser builds for `\p{Lu}`/`\p{Ll}` -/
theorem predOK_tables :
    PredOK tablePreds patUpper (predTree Gen.Unicode.classLu) ∧ PredOK tablePreds patLower (predTree Gen.Unicode.classLl) := by
  constructor
  · constructor
    · intro _
      refine ⟨0, [], leaf .beginText, .mk .charClass 0 Gen.Unicode.classLu [] 0 0, 0, 0, rfl, rfl, rfl, ?_, upper_rejects_error⟩
      intro r; simp only [Re.runes, tablePreds, classLu_eq, inClass_flat]
    · intro h; exact absurd h (by decide)
  · constructor
    · intro h; exact absurd h (by decide)
    · intro _
      refine ⟨0, [], leaf .beginText, .mk .charClass 0 Gen.Unicode.classLl [] 0 0, 0, 0, rfl, rfl, rfl, ?_, lower_rejects_error⟩
      intro r; simp only [Re.runes, tablePreds, classLl_eq, inClass_flat]

/-! ## kernel-checked counterexamples for the function as it stands -/

/-- `(?i)foo` as `syntax.Parse` returns it: a FoldCase literal `FOO` -/
def reFoldFoo : Re := lit 213 [70, 79, 79]
/-- the fold orbits of `F` and `O` (what `unicode.SimpleFold` gives) -/
def foldFO : Nat → List Nat := fun r => if r = 70 then [70, 102] else if r = 79 then [79, 111] else []
def bytesFoo : Bytes := [102, 111, 111]

/-- D15: `(?i)foo` takes the case-sensitive `bytes.Contains(s, "FOO")` path: on the input `foo` the
matcher says no, the regexp search says yes. -/
theorem foldcase_counterexample :
    compileOptimizedAsIs [] reFoldFoo = .ok (some (.contains [70, 79, 79])) ∧
      (Matcher.contains [70, 79, 79]).run tablePreds bytesFoo = false ∧ search foldFO reFoldFoo bytesFoo := by
  refine ⟨by decide, by decide, ?_⟩
  rw [← searchB_iff]
  decide

/-- so the full-strength statement is false of `compileOptimizedAsIs` -/
theorem asis_not_sound :
    ¬ ∀ (P : Preds) (src : Bytes) (re : Re) (m : Matcher), compileOptimizedAsIs src re = .ok (some m) → PredOK P src re →
        ∀ fold s, m.run P s = true ↔ search fold re s := by
  intro hall
  obtain ⟨h1, h2, h3⟩ := foldcase_counterexample
  have hp : PredOK tablePreds [] reFoldFoo := ⟨fun h => absurd h (by decide), fun h => absurd h (by decide)⟩
  have := (hall tablePreds [] reFoldFoo _ h1 hp foldFO bytesFoo).2 h3
  rw [h2] at this
  exact Bool.false_ne_true this

/-- `\x{FFFD}`: the regexp machines read the ill-formed byte `ff` as U+FFFD and match; the fast path
looks for the three bytes `ef bf bd`. -/
theorem runeerror_counterexample :
    compileOptimizedAsIs [] (lit 212 [0xFFFD]) = .ok (some (.contains [0xEF, 0xBF, 0xBD])) ∧
      (Matcher.contains [0xEF, 0xBF, 0xBD]).run tablePreds [0xFF] = false ∧
      search (fun _ => []) (lit 212 [0xFFFD]) [0xFF] := by
  refine ⟨by decide, by decide, ?_⟩
  rw [← searchB_iff]
  decide

/-- `\x{D800}` (a surrogate): no input rune is ever a surrogate, so the regexp never matches; the
fast path encodes it as U+FFFD and finds it. -/
theorem surrogate_counterexample :
    compileOptimizedAsIs [] (lit 212 [0xD800]) = .ok (some (.contains [0xEF, 0xBF, 0xBD])) ∧
      (Matcher.contains [0xEF, 0xBF, 0xBD]).run tablePreds [0xEF, 0xBF, 0xBD] = true ∧
      ¬ search (fun _ => []) (lit 212 [0xD800]) [0xEF, 0xBF, 0xBD] := by
  refine ⟨by decide, by decide, ?_⟩
  rw [← searchB_iff]
  decide

/-- the repaired function declines all three -/
example : compileOptimized [] reFoldFoo = .ok none := by decide
example : compileOptimized [] (lit 212 [0xFFFD]) = .ok none := by decide
example : compileOptimized [] (lit 212 [0xD800]) = .ok none := by decide

/-- a hand-made tree outside the parser's image (a `*` without operand) makes the unguarded `Sub[0]` panic -/
example : compileOptimizedAsIs [] (node .concat [node .star [], lit 212 [102], node .star []]) = .panic .index := by decide

/-! ## non-vacuity: each branch is taken by a tree the parser produces, and the hypotheses are satisfiable -/

def reFoo : Re := lit 212 [102, 111, 111]
def anyStar : Re := node .star [leaf .anyCharNotNL 212] 212
example : compileOptimized [] reFoo = .ok (some (.contains bytesFoo)) := by decide
example : compileOptimized [] (node .concat [anyStar, reFoo, anyStar]) = .ok (some (.contains bytesFoo)) := by decide
example : compileOptimized [] (node .concat [leaf .beginText 212, reFoo]) = .ok (some (.hasPrefix bytesFoo)) := by decide
example : compileOptimized [] (node .concat [reFoo, leaf .endText 468]) = .ok (some (.hasSuffix bytesFoo)) := by decide
example : compileOptimized [] (node .concat [leaf .beginText 212, reFoo, leaf .endText 468]) = .ok (some (.eq bytesFoo)) := by decide
example : compileOptimized patUpper (predTree [65, 90]) = .ok (some (.runePred true)) := by decide
example : compileOptimizedAsIs [] reFoo = compileOptimized [] reFoo := by decide
example : Plain reFoo := by
  intro n hn _
  simp [Re.subs, reFoo, lit] at hn
  subst hn; decide
example : PredOK tablePreds [] reFoo := ⟨fun h => absurd h (by decide), fun h => absurd h (by decide)⟩
example : search (fun _ => []) reFoo [120, 102, 111, 111] := by rw [← searchB_iff]; decide
example : ¬ search (fun _ => []) reFoo [120, 102, 111] := by rw [← searchB_iff]; decide
example : StarsHaveOperand (node .concat [anyStar, reFoo, anyStar]) := by
  intro a ha hs
  simp [Re.subs, node] at ha
  rcases ha with rfl | rfl | rfl
  · simp [anyStar, node, Re.subs]
  · exact absurd hs (by decide)
  · simp [anyStar, node, Re.subs]

end C11
