import Rg.Model.Imports
import Rg.Spec.C20
import Rg.Proofs.Imports
import Rg.Gen.StdPaths
/-!
# C20 — qualified type names resolve through the documented import table

Model: `Rg/Model/Imports.lean` (`fixed = false`: the code as it is; `true`: after `verif/fixes/c20-*.diff`).
-/
namespace C20
open ImpM

/-- **Scope balance.**  Whatever happens to a group — skipped by the GroupFilter, loaded, or failing at any
rule — `loadRuleGroup` never panics on the table and hands it to the next group exactly as it found it. -/
theorem scope_balanced (fixed : Bool) (w : World) (t : Itab) (g : GroupReq) :
    ∃ out, loadGroup fixed w t g = .ok (t, out) := by
  unfold loadGroup
  split
  · exact ⟨_, rfl⟩
  · simp only [Itab.enter, loadAll_cons, Itab.leave]
    exact ⟨_, rfl⟩

/-- the outcome of a group, as a function of the group and the table it starts from -/
def outOf (fixed : Bool) (w : World) (t : Itab) (g : GroupReq) : GroupOut :=
  match loadGroup fixed w t g with
  | .ok (_, o) => o
  | .panic _ => .skipped

theorem loadGroup_eq (fixed : Bool) (w : World) (t : Itab) (g : GroupReq) :
    loadGroup fixed w t g = .ok (t, outOf fixed w t g) := by
  obtain ⟨o, h⟩ := scope_balanced fixed w t g
  simp [outOf, h]

/-- outcomes up to and including the first failing group -/
def cut : List GroupOut → List GroupOut
  | [] => []
  | .failed e :: _ => [.failed e]
  | o :: os => o :: cut os

/-- **Group isolation (1).**  Inside a group a package name means: the group's own Import()s, the latest
first; otherwise whatever the table meant when the group was entered. -/
theorem lookup_inside_group (t : Itab) (imports : List (Bytes × Bytes)) (name : Bytes) :
    ∃ t1, (t.enter).loadAll imports = .ok t1 ∧
      t1.lookup name = (match scopeGet imports.reverse name with | some p => some p | none => t.lookup name) := by
  refine ⟨(imports.reverse ++ []) :: t, ?_, lookup_in_group t imports name⟩
  simp [Itab.enter, loadAll_cons]

/-- **Group isolation (2).**  The outcome of every group of a file (what each of its names resolved to, or
its error) is a function of that group and the defaults alone: no other group — before or after it,
skipped, loaded or failing — has any influence, and the table ends as it started. -/
theorem group_isolation (fixed : Bool) (w : World) (t : Itab) : ∀ (gs : List GroupReq),
    loadGroups fixed w t gs = .ok (t, cut (gs.map (outOf fixed w t)))
  | [] => by simp [loadGroups, cut]
  | g :: gs => by
    unfold loadGroups
    rw [loadGroup_eq fixed w t g]
    cases ho : outOf fixed w t g with
    | failed e => simp [cut, ho]
    | skipped => simp [group_isolation fixed w t gs, cut, ho]
    | loaded ms => simp [group_isolation fixed w t gs, cut, ho]

/-- **Override.**  An Import() that rebinds a default (`template`, `io`, …) holds inside its group only:
there the name means the imported path, and the group after it sees the default again. -/
theorem override (fixed : Bool) (w : World) (base : Scope) (g : GroupReq) (name dflt path : Bytes)
    (hbase : scopeGet base name = some dflt) (himp : scopeGet g.imports.reverse name = some path) :
    (∃ t1, (Itab.enter [base]).loadAll g.imports = .ok t1 ∧ t1.lookup name = some path) ∧
    (∃ out t', loadGroup fixed w [base] g = .ok (t', out) ∧ t'.lookup name = some dflt) := by
  constructor
  · obtain ⟨t1, h1, h2⟩ := lookup_inside_group [base] g.imports name
    exact ⟨t1, h1, by rw [h2, himp]⟩
  · obtain ⟨out, h⟩ := scope_balanced fixed w [base] g
    exact ⟨out, [base], h, by simp [Itab.lookup, hbase]⟩

/-- **FQN split.**  `path.Name` is cut at its last dot: the object name never contains one, whatever dots
the path has (`gopkg.in/yaml.v2.Node`). -/
theorem fqn_split (path name : Bytes) (h : dot ∉ name) :
    splitFQN (path ++ [dot] ++ name) = some (path, name) := by
  unfold splitFQN
  have : path ++ [dot] ++ name = path ++ dot :: name := by simp
  rw [this, lastIndexOf_dot_split path name h]
  simp

/-- a string without a dot is not an FQN -/
theorem fqn_split_none (s : Bytes) (h : dot ∉ s) : splitFQN s = none := by
  unfold splitFQN; rw [lastIndexOf_dot_none s h]

/-- **Vendored copy = the package itself (repaired matcher).**  For every object path, what the matcher
compares with the pattern's package path is: the text after the *last* "/vendor/" when there is one, the
path without a leading "vendor/" otherwise. -/
theorem vendor_is_self (objPath : Bytes) :
    (∃ i, i ≤ objPath.length ∧ vendorSep.isPrefixOf (objPath.drop i) = true ∧
        (∀ j, i < j → j ≤ objPath.length → vendorSep.isPrefixOf (objPath.drop j) = false) ∧
        stripVendor true objPath = objPath.drop (i + vendorSep.length)) ∨
    ((∀ j, j ≤ objPath.length → vendorSep.isPrefixOf (objPath.drop j) = false) ∧
        stripVendor true objPath =
          if vendorPfx.isPrefixOf objPath then objPath.drop vendorPfx.length else objPath) := by
  cases h : lastIndexOf vendorSep objPath with
  | some i =>
    left
    obtain ⟨h1, h2, h3⟩ := lastIndexOf_some vendorSep objPath i h
    exact ⟨i, h1, h2, h3, by simp [stripVendor, h]⟩
  | none =>
    right
    exact ⟨lastIndexOf_none' vendorSep objPath h, by simp [stripVendor, h]⟩

/-- in particular `pre/vendor/p` is `p` whenever `p` is not itself vendored further -/
theorem vendor_is_self_concat (pre p : Bytes)
    (hp : ∀ j, 0 < j → j ≤ (vendorSep ++ p).length → vendorSep.isPrefixOf ((vendorSep ++ p).drop j) = false) :
    stripVendor true (pre ++ vendorSep ++ p) = p := by
  rcases vendor_is_self (pre ++ vendorSep ++ p) with ⟨i, hi, hpre, hlast, hs⟩ | ⟨hnone, _⟩
  · -- the last occurrence is the one at |pre|
    have hocc : vendorSep.isPrefixOf ((pre ++ vendorSep ++ p).drop pre.length) = true := by
      simp [List.append_assoc, List.isPrefixOf_iff_prefix]
    have hle : pre.length ≤ (pre ++ vendorSep ++ p).length := by simp
    have hi_ge : pre.length ≤ i := by
      by_cases hlt : pre.length ≤ i
      · exact hlt
      · exfalso
        have := hlast pre.length (by omega) hle
        rw [hocc] at this; cases this
    have hi_le : i ≤ pre.length := by
      by_cases hgt : i ≤ pre.length
      · exact hgt
      · exfalso
        have hj := hp (i - pre.length) (by omega) (by simp at hi ⊢; omega)
        have hd : (pre ++ vendorSep ++ p).drop i = (vendorSep ++ p).drop (i - pre.length) := by
          rw [List.append_assoc, List.drop_append]
          have : List.drop i pre = [] := List.drop_eq_nil_of_le (by omega)
          simp [this]
        rw [hd, hj] at hpre; cases hpre
    have : i = pre.length := by omega
    subst this
    rw [hs]
    simp [List.append_assoc, List.drop_append]
  · have hocc : vendorSep.isPrefixOf ((pre ++ vendorSep ++ p).drop pre.length) = true := by
      simp [List.append_assoc, List.isPrefixOf_iff_prefix]
    have := hnone pre.length (by simp)
    rw [hocc] at this; cases this

/-- **As is (partial):** the matcher strips to the *first* "/vendor/": it agrees with the repaired one
exactly when the first occurrence is also the last, or when there is none and no leading "vendor/". -/
theorem vendor_is_self_partial (objPath : Bytes)
    (h : (∃ i, indexOf vendorSep objPath = some i ∧ lastIndexOf vendorSep objPath = some i) ∨
         (indexOf vendorSep objPath = none ∧ lastIndexOf vendorSep objPath = none ∧
           vendorPfx.isPrefixOf objPath = false)) :
    stripVendor false objPath = stripVendor true objPath := by
  rcases h with ⟨i, h1, h2⟩ | ⟨h1, h2, h3⟩
  · simp [stripVendor, h1, h2]
  · simp [stripVendor, h1, h2, h3]

/-- **Unknown package names are load errors** in type strings … -/
theorem unknown_package_is_error (fixed : Bool) (w : World) (t : Itab) (s pkg name : Bytes)
    (hsel : splitSelector s = some (pkg, name)) (hun : t.lookup pkg = none)
    (hstar : ∀ rest, s ≠ 42 :: rest) (hbr : ∀ rest, s ≠ 91 :: 93 :: rest) :
    loadRule fixed w t ⟨.typeIs, s⟩ = .error .typeExpr := by
  have hp : parseType t (s.length + 1) s = none := by
    unfold parseType
    split <;> first
      | exact absurd rfl (hstar _)
      | exact absurd rfl (hbr _)
      | simp [hsel, hun]
  simp [loadRule, hp]

/-- … and in interface names, as is: when neither the FQN reading nor the table gives a package -/
theorem unknown_iface_package_is_error (w : World) (t : Itab) (s pkg name : Bytes)
    (hsel : splitSelector s = some (pkg, name)) (hun : t.lookup pkg = none)
    (hfqn : ∀ x, findType w s ≠ .ok x) :
    ∃ e, resolveIface false w t s = .error e := by
  unfold resolveIface
  simp only [Bool.false_eq_true, if_false]
  cases hf : findType w s with
  | ok x => exact absurd hf (hfqn x)
  | error e => simp [hsel, hun]

/-! ## The defaults (table regenerated from `stdinfo.PathByName` on every run) -/

/-- `path.Base` -/
def baseName (p : Bytes) : Bytes :=
  match lastIndexOf [slash] p with
  | some i => p.drop (i + 1)
  | none => p

def sTemplate : Bytes := [116, 101, 109, 112, 108, 97, 116, 101]
def sTextTemplate : Bytes := [116, 101, 120, 116, 47] ++ sTemplate
def sRand : Bytes := [114, 97, 110, 100]
def sMathRand : Bytes := [109, 97, 116, 104, 47] ++ sRand

/-- `template` means text/template and `rand` math/rand unless a group says otherwise -/
theorem defaults_documented :
    scopeGet Gen.stdPaths sTemplate = some sTextTemplate ∧ scopeGet Gen.stdPaths sRand = some sMathRand := by
  decide

/-- every default binds a name to a standard-library package *with that name* (no slash-less surprises),
and no name is bound twice -/
theorem defaults_consistent :
    Gen.stdPaths.all (fun x => baseName x.2 == x.1) = true ∧
    (Gen.stdPaths.map (·.1)).Nodup := by
  decide

/-! ## Concrete worlds: non-vacuity and kernel-checked counterexamples -/

def b (s : String) : Bytes := s.toUTF8.toList

def sIo : Bytes := [105, 111]
def sFoo : Bytes := [102, 111, 111]
def sT : Bytes := [84]
def sR : Bytes := [82]
def sP1 : Bytes := [112, 49, 47, 102, 111, 111]           -- "p1/foo"
def sP3 : Bytes := [112, 51, 47, 105, 111]                -- "p3/io"
def sFooT : Bytes := sFoo ++ [dot] ++ sT                  -- "foo.T"
def sFooX : Bytes := sFoo ++ [dot] ++ [88]                -- "foo.X"
def sIoR : Bytes := sIo ++ [dot] ++ sR                    -- "io.R"
def vend (pre : Bytes) : Bytes := pre ++ vendorSep ++ sP1

/-- stdlib `io` with interface R (implemented by target 3), `p1/foo` with T, `p3/io` with another R
(implemented by target 4); targets: p1/foo.T, a vendored copy, a nested vendored copy, two implementors -/
def world : World :=
  { pkgs := [⟨sIo, [⟨sR, .iface, [[77]], [3], [([77], [3])]⟩]⟩,
             ⟨sP1, [⟨sT, .other, [], [], []⟩]⟩,
             ⟨sP3, [⟨sR, .iface, [[78]], [4], [([78], [4])]⟩]⟩],
    targets := [.named sP1 sT, .named (vend [97]) sT, .named (vend ([97] ++ vendorSep ++ [98])) sT, .other, .other],
    underlying := [.other, .other, .other, .other, .other] }
def base : Scope := [(sIo, sIo)]
def gFoo (r : RuleReq) : GroupReq := ⟨1, false, [(sFoo, sP1)], [r]⟩
def gIo (r : RuleReq) : GroupReq := ⟨2, false, [(sIo, sP3)], [r]⟩
def gPlain (r : RuleReq) : GroupReq := ⟨3, false, [], [r]⟩
def gSkipped : GroupReq := ⟨4, true, [(sFoo, sP3)], [⟨.typeIs, sFooT⟩]⟩

-- non-vacuity of the hypotheses used above
example : dot ∉ sT := by decide
example : splitFQN (sP1 ++ [dot] ++ sT) = some (sP1, sT) := by decide
example : splitSelector (sFoo ++ [dot] ++ sT) = some (sFoo, sT) := by decide
example : scopeGet base sIo = some sIo ∧ scopeGet (gIo ⟨.typeIs, sIoR⟩).imports.reverse sIo = some sP3 := by decide
example : indexOf vendorSep (vend [97]) = some 1 ∧ lastIndexOf vendorSep (vend [97]) = some 1 := by decide

-- isolation: the binding of `foo` made by one group is invisible to the next, skipped groups leave no trace
example : (loadFile false world base [gFoo ⟨.typeIs, sFooT⟩, gSkipped, gPlain ⟨.typeIs, sFooT⟩]).isOk = true := by decide
example : loadFile false world base [gFoo ⟨.typeIs, sFooT⟩, gSkipped, gPlain ⟨.typeIs, sFooT⟩] =
    .ok ([base], [.loaded [[0, 1]], .skipped, .failed .typeExpr]) := by decide

-- D24: the nested vendored copy (target 2) is matched only by the repaired matcher
example : loadFile true world base [gFoo ⟨.typeIs, sFooT⟩] = .ok ([base], [.loaded [[0, 1, 2]]]) := by decide
example : stripVendor false (vend ([97] ++ vendorSep ++ [98])) ≠ sP1 := by decide
example : stripVendor true (vend ([97] ++ vendorSep ++ [98])) = sP1 := by decide
example : stripVendor false (vendorPfx ++ sP1) ≠ sP1 ∧ stripVendor true (vendorPfx ++ sP1) = sP1 := by decide

-- D19: an unknown *type* name of a known package is accepted and never matches (the statement wants an error)
example : loadFile false world base [gFoo ⟨.typeIs, sFooX⟩] = .ok ([base], [.loaded [[]]]) := by decide
example : SpecC20.violations world base [gFoo ⟨.typeIs, sFooX⟩] (.loaded [some [[]]]) =
    [(0, 0, .acceptedUnresolvable)] := by decide

-- Implements: as is, `io.R` is read as the FQN "io" + "R" although the group rebinds `io`
example : loadFile false world base [gIo ⟨.implements, sIoR⟩] = .ok ([base], [.loaded [[3]]]) := by decide
example : loadFile true world base [gIo ⟨.implements, sIoR⟩] = .ok ([base], [.loaded [[4]]]) := by decide
example : SpecC20.specHolds world base [gIo ⟨.implements, sIoR⟩] (.loaded [some [[4]]]) = true := by decide
example : SpecC20.specHolds world base [gIo ⟨.implements, sIoR⟩] (.loaded [some [[3]]]) = false := by decide

-- HasMethod: as is, the import table is never consulted
example : loadFile false world base [gIo ⟨.hasMethod, sIoR ++ [dot] ++ [78]⟩] = .ok ([base], [.failed .noMethod]) := by decide
example : loadFile true world base [gIo ⟨.hasMethod, sIoR ++ [dot] ++ [78]⟩] = .ok ([base], [.loaded [[4]]]) := by decide

end C20
