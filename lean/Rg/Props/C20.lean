import Rg.Model.Imports
import Rg.Spec.C20
import Rg.Proofs.Imports
import Rg.Gen.StdPaths
/-!
# C20 — qualified type names resolve through the documented import table

Model: `Rg/Model/Imports.lean` (`fixed = false`: the code as it is; `true`: after `verif/fixes/c20-*.diff`).
-/
namespace C20
open ImpM

/-- **Scope balance.**  Whatever happens to a group — skipped by the GroupFilter, loaded, or failing at any
rule — `loadRuleGroup` never panics on the table and hands it to the next group exactly as it found it. -/
theorem scope_balanced (fixed : Bool) (w : World) (t : Itab) (g : GroupReq) :
    ∃ out, loadGroup fixed w t g = .ok (t, out) := by
  unfold loadGroup
  split
  · exact ⟨_, rfl⟩
  · simp only [Itab.enter, loadAll_cons, Itab.leave]
    exact ⟨_, rfl⟩

/-- the outcome of a group, as a function of the group and the table it starts from -/
def outOf (fixed : Bool) (w : World) (t : Itab) (g : GroupReq) : GroupOut :=
  match loadGroup fixed w t g with
  | .ok (_, o) => o
  | .panic _ => .skipped

theorem loadGroup_eq (fixed : Bool) (w : World) (t : Itab) (g : GroupReq) :
    loadGroup fixed w t g = .ok (t, outOf fixed w t g) := by
  obtain ⟨o, h⟩ := scope_balanced fixed w t g
  simp [outOf, h]

/-- outcomes up to and including the first failing group -/
def cut : List GroupOut → List GroupOut
  | [] => []
  | .failed e :: _ => [.failed e]
  | o :: os => o :: cut os

/-- **Group isolation (1).**  Inside a group a package name means: the group's own Import()s, the latest
first; otherwise whatever the table meant when the group was entered. -/
theorem lookup_inside_group (t : Itab) (imports : List (Bytes × Bytes)) (name : Bytes) :
    ∃ t1, (t.enter).loadAll imports = .ok t1 ∧
      t1.lookup name = (match scopeGet imports.reverse name with | some p => some p | none => t.lookup name) := by
  refine ⟨(imports.reverse ++ []) :: t, ?_, lookup_in_group t imports name⟩
  simp [Itab.enter, loadAll_cons]

/-- **Group isolation (2).**  The outcome of every group of a file (what each of its names resolved to, or
its error) is a function of that group and the defaults alone: no other group — before or after it,
skipped, loaded or failing — has any influence, and the table ends as it started. -/
theorem group_isolation (fixed : Bool) (w : World) (t : Itab) : ∀ (gs : List GroupReq),
    loadGroups fixed w t gs = .ok (t, cut (gs.map (outOf fixed w t)))
  | [] => by simp [loadGroups, cut]
  | g :: gs => by
    unfold loadGroups
    rw [loadGroup_eq fixed w t g]
    cases ho : outOf fixed w t g with
    | failed e => simp [cut, ho]
    | skipped => simp [group_isolation fixed w t gs, cut, ho]
    | loaded ms => simp [group_isolation fixed w t gs, cut, ho]

/-- **Override.**  An Import() that rebinds a default (`template`, `io`, …) holds inside its group only:
there the name means the imported path, and the group after it sees the default again. -/
theorem override (fixed : Bool) (w : World) (base : Scope) (g : GroupReq) (name dflt path : Bytes)
    (hbase : scopeGet base name = some dflt) (himp : scopeGet g.imports.reverse name = some path) :
    (∃ t1, (Itab.enter [base]).loadAll g.imports = .ok t1 ∧ t1.lookup name = some path) ∧
    (∃ out t', loadGroup fixed w [base] g = .ok (t', out) ∧ t'.lookup name = some dflt) := by
  constructor
  · obtain ⟨t1, h1, h2⟩ := lookup_inside_group [base] g.imports name
    exact ⟨t1, h1, by rw [h2, himp]⟩
  · obtain ⟨out, h⟩ := scope_balanced fixed w [base] g
    exact ⟨out, [base], h, by simp [Itab.lookup, hbase]⟩

/-- **FQN split.**  `path.Name` is cut at its last dot: the object name never contains one, whatever dots
the path has (`gopkg.in/yaml.v2.Node`). -/
theorem fqn_split (path name : Bytes) (h : dot ∉ name) :
    splitFQN (path ++ [dot] ++ name) = some (path, name) := by
  unfold splitFQN
  have : path ++ [dot] ++ name = path ++ dot :: name := by simp
  rw [this, lastIndexOf_dot_split path name h]
  simp

/-- a string without a dot is not an FQN -/
theorem fqn_split_none (s : Bytes) (h : dot ∉ s) : splitFQN s = none := by
  unfold splitFQN; rw [lastIndexOf_dot_none s h]

/-- **Vendored copy = the package itself (repaired matcher).**  For every object path, what the matcher
compares with the pattern's package path is: the text after the *last* "/vendor/" when there is one, the
path without a leading "vendor/" otherwise. -/
theorem vendor_is_self (objPath : Bytes) :
    (∃ i, i ≤ objPath.length ∧ vendorSep.isPrefixOf (objPath.drop i) = true ∧
        (∀ j, i < j → j ≤ objPath.length → vendorSep.isPrefixOf (objPath.drop j) = false) ∧
        stripVendor true objPath = objPath.drop (i + vendorSep.length)) ∨
    ((∀ j, j ≤ objPath.length → vendorSep.isPrefixOf (objPath.drop j) = false) ∧
        stripVendor true objPath =
          if vendorPfx.isPrefixOf objPath then objPath.drop vendorPfx.length else objPath) := by
  cases h : lastIndexOf vendorSep objPath with
  | some i =>
    left
    obtain ⟨h1, h2, h3⟩ := lastIndexOf_some vendorSep objPath i h
    exact ⟨i, h1, h2, h3, by simp [stripVendor, h]⟩
  | none =>
    right
    exact ⟨lastIndexOf_none' vendorSep objPath h, by simp [stripVendor, h]⟩

/-- in particular `pre/vendor/p` is `p` whenever `p` is not itself vendored further -/
theorem vendor_is_self_concat (pre p : Bytes)
    (hp : ∀ j, 0 < j → j ≤ (vendorSep ++ p).length → vendorSep.isPrefixOf ((vendorSep ++ p).drop j) = false) :
    stripVendor true (pre ++ vendorSep ++ p) = p := by
  rcases vendor_is_self (pre ++ vendorSep ++ p) with ⟨i, hi, hpre, hlast, hs⟩ | ⟨hnone, _⟩
  · -- the last occurrence is the one at |pre|
    have hocc : vendorSep.isPrefixOf ((pre ++ vendorSep ++ p).drop pre.length) = true := by
      simp [List.append_assoc, List.isPrefixOf_iff_prefix]
    have hle : pre.length ≤ (pre ++ vendorSep ++ p).length := by simp
    have hi_ge : pre.length ≤ i := by
      by_cases hlt : pre.length ≤ i
      · exact hlt
      · exfalso
        have := hlast pre.length (by omega) hle
        rw [hocc] at this; cases this
    have hi_le : i ≤ pre.length := by
      by_cases hgt : i ≤ pre.length
      · exact hgt
      · exfalso
        have hj := hp (i - pre.length) (by omega) (by simp at hi ⊢; omega)
        have hd : (pre ++ vendorSep ++ p).drop i = (vendorSep ++ p).drop (i - pre.length) := by
          rw [List.append_assoc, List.drop_append]
          have : List.drop i pre = [] := List.drop_eq_nil_of_le (by omega)
          simp [this]
        rw [hd, hj] at hpre; cases hpre
    have : i = pre.length := by omega
    subst this
    rw [hs]
    simp [List.append_assoc, List.drop_append]
  · have hocc : vendorSep.isPrefixOf ((pre ++ vendorSep ++ p).drop pre.length) = true := by
      simp [List.append_assoc, List.isPrefixOf_iff_prefix]
    have := hnone pre.length (by simp)
    rw [hocc] at this; cases this

/-- **As is (partial):** the matcher strips to the *first* "/vendor/": it agrees with the repaired one
exactly when the first occurrence is also the last, or when there is none and no leading "vendor/". -/
theorem vendor_is_self_partial (objPath : Bytes)
    (h : (∃ i, indexOf vendorSep objPath = some i ∧ lastIndexOf vendorSep objPath = some i) ∨
         (indexOf vendorSep objPath = none ∧ lastIndexOf vendorSep objPath = none ∧
           vendorPfx.isPrefixOf objPath = false)) :
    stripVendor false objPath = stripVendor true objPath := by
  rcases h with ⟨i, h1, h2⟩ | ⟨h1, h2, h3⟩
  · simp [stripVendor, h1, h2]
  · simp [stripVendor, h1, h2, h3]

/-- **Unknown package names are load errors** in type strings … -/
theorem unknown_package_is_error (fixed : Bool) (w : World) (t : Itab) (s pkg name : Bytes)
    (hsel : splitSelector s = some (pkg, name)) (hun : t.lookup pkg = none)
    (hstar : ∀ rest, s ≠ 42 :: rest) (hbr : ∀ rest, s ≠ 91 :: 93 :: rest) :
    loadRule fixed w t ⟨.typeIs, s⟩ = .error .typeExpr := by
  have hp : parseType t (s.length + 1) s = none := by
    unfold parseType
    split <;> first
      | exact absurd rfl (hstar _)
      | exact absurd rfl (hbr _)
      | simp [hsel, hun]
  simp [loadRule, hp]

/-- … and in interface names, as is: when neither the FQN reading nor the table gives a package -/
theorem unknown_iface_package_is_error (w : World) (t : Itab) (s pkg name : Bytes)
    (hsel : splitSelector s = some (pkg, name)) (hun : t.lookup pkg = none)
    (hfqn : ∀ x, findType w s ≠ .ok x) :
    ∃ e, resolveIface false w t s = .error e := by
  unfold resolveIface
  simp only [Bool.false_eq_true, if_false]
  cases hf : findType w s with
  | ok x => exact absurd hf (hfqn x)
  | error e => simp [hsel, hun]

/-! ## The defaults (table regenerated from `stdinfo.PathByName` on every run) -/

/-- `path.Base` -/
def baseName (p : Bytes) : Bytes :=
  match lastIndexOf [slash] p with
  | some i => p.drop (i + 1)
  | none => p

def sTemplate : Bytes := [116, 101, 109, 112, 108, 97, 116, 101]
def sTextTemplate : Bytes := [116, 101, 120, 116, 47] ++ sTemplate
def sRand : Bytes := [114, 97, 110, 100]
def sMathRand : Bytes := [109, 97, 116, 104, 47] ++ sRand

/-- `template` means text/template and `rand` math/rand unless a group says otherwise -/
theorem defaults_documented :
    scopeGet Gen.stdPaths sTemplate = some sTextTemplate ∧ scopeGet Gen.stdPaths sRand = some sMathRand := by
  decide

/-- every default binds a name to a standard-library package *with that name* (no slash-less surprises),
and no name is bound twice -/
theorem defaults_consistent :
    Gen.stdPaths.all (fun x => baseName x.2 == x.1) = true ∧
    (Gen.stdPaths.map (·.1)).Nodup := by
  decide

/-! ## Concrete worlds: non-vacuity and kernel-checked counterexamples -/

def b (s : String) : Bytes := s.toUTF8.toList

def sIo : Bytes := [105, 111]
def sFoo : Bytes := [102, 111, 111]
def sT : Bytes := [84]
def sR : Bytes := [82]
def sP1 : Bytes := [112, 49, 47, 102, 111, 111]           -- "p1/foo"
def sP3 : Bytes := [112, 51, 47, 105, 111]                -- "p3/io"
def sFooT : Bytes := sFoo ++ [dot] ++ sT                  -- "foo.T"
def sFooX : Bytes := sFoo ++ [dot] ++ [88]                -- "foo.X"
def sIoR : Bytes := sIo ++ [dot] ++ sR                    -- "io.R"
def vend (pre : Bytes) : Bytes := pre ++ vendorSep ++ sP1

/-- stdlib `io` with interface R (implemented by target 3), `p1/foo` with T, `p3/io` with another R
(implemented by target 4); targets: p1/foo.T, a vendored copy, a nested vendored copy, two implementors -/
def world : World :=
  { pkgs := [⟨sIo, [⟨sR, .iface, [[77]], [3], [([77], [3])]⟩]⟩,
             ⟨sP1, [⟨sT, .other, [], [], []⟩]⟩,
             ⟨sP3, [⟨sR, .iface, [[78]], [4], [([78], [4])]⟩]⟩],
    targets := [.named sP1 sT, .named (vend [97]) sT, .named (vend ([97] ++ vendorSep ++ [98])) sT, .other, .other],
    underlying := [.other, .other, .other, .other, .other] }
def base : Scope := [(sIo, sIo)]
def gFoo (r : RuleReq) : GroupReq := ⟨1, false, [(sFoo, sP1)], [r]⟩
def gIo (r : RuleReq) : GroupReq := ⟨2, false, [(sIo, sP3)], [r]⟩
def gPlain (r : RuleReq) : GroupReq := ⟨3, false, [], [r]⟩
def gSkipped : GroupReq := ⟨4, true, [(sFoo, sP3)], [⟨.typeIs, sFooT⟩]⟩

-- non-vacuity of the hypotheses used above
example : dot ∉ sT := by decide
example : splitFQN (sP1 ++ [dot] ++ sT) = some (sP1, sT) := by decide
example : splitSelector (sFoo ++ [dot] ++ sT) = some (sFoo, sT) := by decide
example : scopeGet base sIo = some sIo ∧ scopeGet (gIo ⟨.typeIs, sIoR⟩).imports.reverse sIo = some sP3 := by decide
example : indexOf vendorSep (vend [97]) = some 1 ∧ lastIndexOf vendorSep (vend [97]) = some 1 := by decide

-- isolation: the binding of `foo` made by one group is invisible to the next, skipped groups leave no trace
example : (loadFile false world base [gFoo ⟨.typeIs, sFooT⟩, gSkipped, gPlain ⟨.typeIs, sFooT⟩]).isOk = true := by decide
example : loadFile false world base [gFoo ⟨.typeIs, sFooT⟩, gSkipped, gPlain ⟨.typeIs, sFooT⟩] =
    .ok ([base], [.loaded [[0, 1]], .skipped, .failed .typeExpr]) := by decide

-- D24: the nested vendored copy (target 2) is matched only by the repaired matcher
example : loadFile true world base [gFoo ⟨.typeIs, sFooT⟩] = .ok ([base], [.loaded [[0, 1, 2]]]) := by decide
example : stripVendor false (vend ([97] ++ vendorSep ++ [98])) ≠ sP1 := by decide
example : stripVendor true (vend ([97] ++ vendorSep ++ [98])) = sP1 := by decide
example : stripVendor false (vendorPfx ++ sP1) ≠ sP1 ∧ stripVendor true (vendorPfx ++ sP1) = sP1 := by decide

-- D19: an unknown *type* name of a known package is accepted and never matches (the statement wants an error)
example : loadFile false world base [gFoo ⟨.typeIs, sFooX⟩] = .ok ([base], [.loaded [[]]]) := by decide
example : SpecC20.violations world base [gFoo ⟨.typeIs, sFooX⟩] (.loaded [some [[]]]) =
    [(0, 0, .acceptedUnresolvable)] := by decide

-- Implements: as is, `io.R` is read as the FQN "io" + "R" although the group rebinds `io`
example : loadFile false world base [gIo ⟨.implements, sIoR⟩] = .ok ([base], [.loaded [[3]]]) := by decide
example : loadFile true world base [gIo ⟨.implements, sIoR⟩] = .ok ([base], [.loaded [[4]]]) := by decide
example : SpecC20.specHolds world base [gIo ⟨.implements, sIoR⟩] (.loaded [some [[4]]]) = true := by decide
example : SpecC20.specHolds world base [gIo ⟨.implements, sIoR⟩] (.loaded [some [[3]]]) = false := by decide

-- HasMethod: as is, the import table is never consulted
example : loadFile false world base [gIo ⟨.hasMethod, sIoR ++ [dot] ++ [78]⟩] = .ok ([base], [.failed .noMethod]) := by decide
example : loadFile true world base [gIo ⟨.hasMethod, sIoR ++ [dot] ++ [78]⟩] = .ok ([base], [.loaded [[4]]]) := by decide

/-! ## fully-qualified names: the package comes from the analysed program's own import graph -/

section Deps
open SpecC20

theorem findDep_sound (g : DGraph) (path : Bytes) : ∀ (fuel i d : Nat), findDep g path (fuel + 1) i = some d →
    (∃ p, g[d]? = some p ∧ p.path = path) ∧ ReachN g fuel i d := by
  intro fuel
  induction fuel with
  | zero =>
    intro i d h
    unfold findDep at h
    split at h
    · simp at h
    · rename_i p hp
      split at h
      · rename_i hpath
        have : i = d := by simpa using h
        subst this
        exact ⟨⟨p, hp, by simpa using hpath⟩, ReachN.here _ _ p hp⟩
      · obtain ⟨j, _, hf⟩ := List.exists_of_findSome?_eq_some h
        simp [findDep] at hf
  | succ n ih =>
    intro i d h
    unfold findDep at h
    split at h
    · simp at h
    · rename_i p hp
      split at h
      · rename_i hpath
        have : i = d := by simpa using h
        subst this
        exact ⟨⟨p, hp, by simpa using hpath⟩, ReachN.here _ _ p hp⟩
      · obtain ⟨j, hj, hf⟩ := List.exists_of_findSome?_eq_some h
        split at hf
        · rename_i d' hd'
          split at hf
          · have : d' = d := by simpa using hf
            subst this
            obtain ⟨hp', hr⟩ := ih j d' hd'
            exact ⟨hp', ReachN.step _ _ _ _ p hp hj hr⟩
          · simp at hf
        · simp at hf

/-- every package complete (what a host that type-checks dependencies from source delivers): a package of that
path within `fuel` import edges is found — indirect dependencies included -/
theorem findDep_complete (g : DGraph) (path : Bytes) (hc : ∀ p ∈ g, p.complete = true) :
    ∀ (fuel i k : Nat), ReachN g fuel i k → (∃ p, g[k]? = some p ∧ p.path = path) →
      ∃ d, findDep g path (fuel + 1) i = some d := by
  intro fuel
  induction fuel with
  | zero =>
    intro i k hr hk
    cases hr with
    | here _ _ p hp =>
      obtain ⟨p', hp', hpath⟩ := hk
      rw [hp] at hp'
      cases hp'
      exact ⟨i, by simp [findDep, hp, hpath]⟩
  | succ n ih =>
    intro i k hr hk
    cases hr with
    | here _ _ p hp =>
      obtain ⟨p', hp', hpath⟩ := hk
      rw [hp] at hp'
      cases hp'
      exact ⟨i, by simp [findDep, hp, hpath]⟩
    | step _ _ j _ p hp hj hr' =>
      unfold findDep
      simp only [hp]
      by_cases hpath : (p.path == path) = true
      · exact ⟨i, by simp [hpath]⟩
      · simp only [hpath]
        obtain ⟨d, hd⟩ := ih j k hr' hk
        have hcomp : g.isComplete d = true := by
          obtain ⟨⟨pd, hpd, _⟩, _⟩ := findDep_sound g path n j d hd
          have hmem : pd ∈ g := List.mem_of_getElem? hpd
          simp [DGraph.isComplete, hpd, hc pd hmem]
        have hne : (p.imports.findSome? fun j =>
            match findDep g path (n + 1) j with
            | some d => if g.isComplete d then some d else none
            | none => none) ≠ none := by
          intro hnone
          have := (List.findSome?_eq_none_iff.mp hnone) j hj
          simp [hd, hcomp] at this
        cases hfs : (p.imports.findSome? fun j =>
            match findDep g path (n + 1) j with
            | some d => if g.isComplete d then some d else none
            | none => none) with
        | none => exact absurd hfs hne
        | some d' => exact ⟨d', rfl⟩

theorem mem_reach_of_ReachN (g : DGraph) : ∀ (n i k : Nat), ReachN g n i k → k ∈ reach g n i := by
  intro n i k h
  induction h with
  | here n i p hp =>
    cases n with
    | zero => simp [reach, hp]
    | succ m => simp [reach, hp]
  | step n i j k p hp hj _ ih =>
    simp only [reach, hp]
    exact List.mem_cons_of_mem _ (List.mem_flatMap.mpr ⟨j, hj, ih⟩)

theorem ReachN_of_mem_reach (g : DGraph) : ∀ (n i k : Nat), k ∈ reach g n i → ReachN g n i k := by
  intro n
  induction n with
  | zero =>
    intro i k h
    unfold reach at h
    cases hg : g[i]? with
    | none => simp [hg] at h
    | some p =>
      simp [hg] at h
      subst h
      exact ReachN.here _ _ p hg
  | succ m ih =>
    intro i k h
    unfold reach at h
    cases hg : g[i]? with
    | none => simp [hg] at h
    | some p =>
      simp only [hg, List.mem_cons, List.mem_flatMap] at h
      rcases h with h | ⟨j, hj, hk⟩
      · subst h
        exact ReachN.here _ _ p hg
      · exact ReachN.step _ _ _ _ p hg hj (ih j k hk)

/-- **dependency_first.**  With every package of the analysed program complete, `findTypeNoCache` takes the package of a
fully-qualified name from the program's own import graph whenever a package of that path is within `g.length` import
edges of the analysed package (direct or indirect), and falls back to the engine's importer only otherwise. -/
theorem dependency_first (g : DGraph) (hc : ∀ p ∈ g, p.complete = true) (root : Nat) (path : Bytes) :
    depHolds g root path (pkgSource g root path) = true := by
  unfold pkgSource depHolds
  cases hf : findDep g path g.length.succ root with
  | some d =>
    obtain ⟨⟨p, hp, hpath⟩, hr⟩ := findDep_sound g path g.length root d hf
    have hmem := mem_reach_of_ReachN g _ _ _ hr
    have hpc : p.complete = true := hc p (List.mem_of_getElem? hp)
    simp only [List.contains_iff_mem, List.mem_filter]
    exact ⟨hmem, by simp [hp, hpath, hpc]⟩
  | none =>
    simp only [List.isEmpty_iff, List.filter_eq_nil_iff]
    intro d hd hpred
    have hr := ReachN_of_mem_reach g _ _ _ hd
    cases hg : g[d]? with
    | none => simp [hg] at hpred
    | some p =>
      simp only [hg, Bool.and_eq_true] at hpred
      obtain ⟨d', hd'⟩ := findDep_complete g path hc g.length root d hr ⟨p, hg, by simpa using hpred.1⟩
      rw [hf] at hd'
      cases hd'

/-- a → b → c: the indirect dependency is found, and the statement rejects the importer fallback for it -/
def chain : DGraph := [⟨[97], true, [1]⟩, ⟨[98], true, [2]⟩, ⟨[99], true, []⟩]
example : pkgSource chain 0 [99] = .graph 2 := by decide
example : depHolds chain 0 [99] (.graph 2) = true ∧ depHolds chain 0 [99] .importer = false := by decide
example : depHolds chain 0 [100] .importer = true := by decide
/-- the hypothesis matters: an incomplete indirect dependency is skipped (the code's `dep.Complete()`), the statement
then prescribes nothing but the importer -/
example : pkgSource [⟨[97], true, [1]⟩, ⟨[98], true, [2]⟩, ⟨[99], false, []⟩] 0 [99] = .importer := by decide

end Deps

end C20
