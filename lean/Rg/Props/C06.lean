import Rg.Proofs.Loader
import Rg.Gen.Buckets
/-!
# C06 — Load never crashes; accepted rules are structurally sound  (IR-level loader)

**Partial by construction**: the theorems are about `Loader.loadFile`, the model of
`ir_loader.go` from `ir.File` onwards.  The front half (go/parser, go/types, irconv's walk over the
rules file, gogrep/regexp/typematch compilation) is covered by the harness's differential and
mutation stream only, which is a search, not a proof.
-/
namespace C06
open Loader

/-- the tag configuration of the code (regenerated constants) -/
def genTags : TagCfg :=
  { numBuckets := Gen.tagNumBuckets, stmtList := Gen.tagStmtList, exprList := Gen.tagExprList,
    declList := Gen.tagDeclList, node := Gen.tagNode, unknown := Gen.tagUnknown,
    stmtDst := [Gen.tagBlockStmt, Gen.tagCaseClause, Gen.tagCommClause],
    exprDst := [Gen.tagCallExpr, Gen.tagCompositeLit, Gen.tagReturnStmt],
    declDst := [Gen.tagFile] }

theorem dstTags_noPanic (o : Oracles) (tc : TagCfg) (hr : tagsInRange o tc) (s : String) (tag : Nat) (vars : List String)
    (h : o.gogrep s = some (tag, vars)) :
    NoPanic (dstTags tc.numBuckets tc.stmtList tc.exprList tc.declList tc.node tc.unknown
      tc.stmtDst tc.exprDst tc.declDst tag) := by
  unfold dstTags
  have := hr s tag vars h
  split
  · exact ⟨_, rfl⟩
  · split
    · exact ⟨_, rfl⟩
    · split
      · exact ⟨_, rfl⟩
      · split
        · exact ⟨_, rfl⟩
        · split
          · exact ⟨_, rfl⟩
          · rename_i h1 h2 h3 h4 h5
            rcases this with h | h | h | h | h | h
            · exact absurd (Or.inl h) h1
            · exact absurd (Or.inr h) h1
            · exact absurd h h2
            · exact absurd h h3
            · exact absurd h h4
            · exact absurd h h5

theorem loadSyntaxRule_noPanic (o : Oracles) (tc : TagCfg) (hr : tagsInRange o tc) (g : String) (r : Rule)
    (wv : List String) (p : Pat) : NoPanic (loadSyntaxRule o tc g r wv p) := by
  unfold loadSyntaxRule
  cases hg : o.gogrep p.value with
  | none => exact ⟨_, rfl⟩
  | some tv =>
    obtain ⟨tag, pvars⟩ := tv
    simp only []
    split
    · exact ⟨_, rfl⟩
    · split
      · exact ⟨_, rfl⟩
      · obtain ⟨d, hd⟩ := dstTags_noPanic o tc hr p.value tag pvars hg
        rw [hd]
        cases d <;> exact ⟨_, rfl⟩

theorem loadCommentRule_noPanic (o : Oracles) (g : String) (r : Rule) (wv : List String) (p : Pat) :
    NoPanic (loadCommentRule o g r wv p) := by
  unfold loadCommentRule
  split
  · simp only []
    split
    · exact ⟨_, rfl⟩
    · split <;> exact ⟨_, rfl⟩
  · exact ⟨_, rfl⟩

theorem loadRule_noPanic (o : Oracles) (tc : TagCfg) (hs : o.strict = true) (hr : tagsInRange o tc)
    (g : String) (r : Rule) (hw : wfRule r = true) : NoPanic (loadRule o tc g r) := by
  unfold loadRule
  apply noPanic_lbind
  · split
    · obtain ⟨b, hb⟩ := getFunc_strict o hs r.doFuncName
      rw [hb]; cases b <;> exact ⟨_, rfl⟩
    · exact ⟨_, rfl⟩
  · intro _
    apply noPanic_lbind
    · split
      · rename_i hv
        apply newFilter_noPanic o hs
        simp only [wfRule, Bool.or_eq_true, decide_eq_true_eq] at hw
        rcases hw with h | h
        · exact absurd h hv
        · exact h
      · exact ⟨_, rfl⟩
    · intro wv
      apply noPanic_lbind (seqL_noPanic _ _ (fun p _ => loadSyntaxRule_noPanic o tc hr g r wv p))
      intro _
      apply noPanic_lbind (seqL_noPanic _ _ (fun p _ => loadCommentRule_noPanic o g r wv p))
      intro _; exact ⟨_, rfl⟩

/-- **load_total**: on IR of the shape `irconv` produces, with gogrep answering root tags in its
documented range, the loader returns — a rule set or a located error — and no partial operation
(`Args[i]`, `.Value.(string)`, `rulesByTag[tag]`, `userFuncs[id]`) fires. -/
theorem load_total (o : Oracles) (tc : TagCfg) (f : File) (hs : o.strict = true)
    (hr : tagsInRange o tc) (hw : wfFile f = true) : NoPanic (loadFile o tc f) := by
  unfold loadFile
  apply noPanic_lbind
  · apply seqL_noPanic
    intro g hg
    unfold loadGroup
    split
    · exact ⟨_, rfl⟩
    · apply noPanic_lbind
      · apply seqL_noPanic
        intro r hrm
        apply loadRule_noPanic o tc hs hr
        simp only [wfFile, List.all_eq_true] at hw
        exact hw g hg r hrm
      · intro _; exact ⟨_, rfl⟩
  · intro _; exact ⟨_, rfl⟩

/-- an accepted syntax alternative is sound -/
theorem loadSyntaxRule_sound (o : Oracles) (tc : TagCfg) (hs : o.strict = true) (g : String) (r : Rule)
    (wv : List String) (p : Pat) (a : Accepted) (h : loadSyntaxRule o tc g r wv p = lok a) : sound a = true := by
  unfold loadSyntaxRule at h
  cases hg : o.gogrep p.value with
  | none => simp [hg, lerr, lok] at h
  | some tv =>
    obtain ⟨tag, pvars⟩ := tv
    simp only [hg] at h
    split at h
    · simp [lerr, lok] at h
    · rename_i hfind
      split at h
      · simp [lerr, lok] at h
      · rename_i hloc
        split at h
        · simp [lok] at h
        · simp [lerr, lok] at h
        · simp only [lok, Res.ok.injEq, Except.ok.injEq] at h
          subst h
          simp only [sound, Bool.and_eq_true, List.all_eq_true, Bool.or_eq_true, beq_iff_eq]
          constructor
          · intro v hv
            have := List.find?_eq_none.mp hfind v hv
            simp only [Bool.and_eq_true, bne_iff_ne, ne_eq, Bool.not_eq_true', not_and,
              Bool.not_eq_false] at this
            by_cases hd : v = "$$"
            · exact Or.inl hd
            · exact Or.inr (this hd)
          · simp only [hs, Bool.true_and, Bool.and_eq_true, bne_iff_ne, ne_eq, Bool.not_eq_true',
              not_and, Bool.not_eq_false] at hloc
            by_cases h1 : r.locationVar = ""
            · exact Or.inl (Or.inl h1)
            · by_cases h2 : r.locationVar = "$$"
              · exact Or.inl (Or.inr h2)
              · exact Or.inr (hloc ⟨h1, h2⟩)

/-- an accepted comment alternative is sound (variables = named groups of its regexp) -/
theorem loadCommentRule_sound (o : Oracles) (hs : o.strict = true) (g : String) (r : Rule)
    (wv : List String) (p : Pat) (a : Accepted) (h : loadCommentRule o g r wv p = lok a) : sound a = true := by
  unfold loadCommentRule at h
  split at h
  · simp only [hs, Bool.true_and] at h
    split at h
    · simp [lerr, lok] at h
    · rename_i hany
      split at h
      · simp [lerr, lok] at h
      · rename_i hloc
        simp only [lok, Res.ok.injEq, Except.ok.injEq] at h
        subst h
        simp only [sound, Bool.and_eq_true, List.all_eq_true, Bool.or_eq_true, beq_iff_eq]
        constructor
        · intro v hv
          simp only [List.any_eq_true, Bool.and_eq_true, bne_iff_ne, ne_eq, Bool.not_eq_true',
            not_exists, not_and, Bool.not_eq_false] at hany
          by_cases hd : v = "$$"
          · exact Or.inl hd
          · exact Or.inr (hany v hv hd)
        · simp only [Bool.and_eq_true, bne_iff_ne, ne_eq, Bool.not_eq_true', not_and,
            Bool.not_eq_false] at hloc
          by_cases h1 : r.locationVar = ""
          · exact Or.inl (Or.inl h1)
          · by_cases h2 : r.locationVar = "$$"
            · exact Or.inl (Or.inr h2)
            · exact Or.inr (hloc ⟨h1, h2⟩)
  · simp [lerr, lok] at h

theorem lbind_ok {α β} {x : LRes α} {f : α → LRes β} {b : β} (h : lbind x f = lok b) :
    ∃ a, x = lok a ∧ f a = lok b := by
  cases x with
  | panic p => simp [lbind, lok] at h
  | ok r =>
    cases r with
    | error e => simp [lbind, lok] at h
    | ok a => exact ⟨a, rfl, h⟩

/-- **accepted_rules_bound**: if Load succeeds, every accepted alternative binds every variable its
Where and At() clauses mention (Report/Suggest names that no alternative binds are literal text by
design — `C03.render_total` shows they cannot fail either). -/
theorem accepted_rules_bound (o : Oracles) (tc : TagCfg) (f : File) (hs : o.strict = true)
    (as : List Accepted) (h : loadFile o tc f = lok as) : ∀ a ∈ as, sound a = true := by
  intro a ha
  unfold loadFile at h
  obtain ⟨xs, hxs, hfl⟩ := lbind_ok h
  simp only [lok, Res.ok.injEq, Except.ok.injEq] at hfl
  subst hfl
  obtain ⟨ys, hys, hay⟩ := List.mem_flatten.mp ha
  obtain ⟨g, _, hg⟩ := seqL_ok _ _ _ hxs ys hys
  unfold loadGroup at hg
  split at hg
  · simp only [lok, Res.ok.injEq, Except.ok.injEq] at hg; subst hg; simp at hay
  · obtain ⟨zs, hzs, hfl2⟩ := lbind_ok hg
    simp only [lok, Res.ok.injEq, Except.ok.injEq] at hfl2
    subst hfl2
    obtain ⟨ws, hws, haw⟩ := List.mem_flatten.mp hay
    obtain ⟨r, _, hr⟩ := seqL_ok _ _ _ hzs ws hws
    unfold loadRule at hr
    obtain ⟨_, _, hr⟩ := lbind_ok hr
    obtain ⟨wv, _, hr⟩ := lbind_ok hr
    obtain ⟨a1, ha1, hr⟩ := lbind_ok hr
    obtain ⟨a2, ha2, hr⟩ := lbind_ok hr
    simp only [lok, Res.ok.injEq, Except.ok.injEq] at hr
    subst hr
    rcases List.mem_append.mp haw with hm | hm
    · obtain ⟨p, _, hp⟩ := seqL_ok _ _ _ ha1 a hm
      exact loadSyntaxRule_sound o tc hs g.name r wv p a hp
    · obtain ⟨p, _, hp⟩ := seqL_ok _ _ _ ha2 a hm
      exact loadCommentRule_sound o hs g.name r wv p a hp

/-- **rejected_group_silent**: a group the GroupFilter rejects contributes nothing and is not even
validated (so it can neither report nor make Load fail). -/
theorem rejected_group_silent (o : Oracles) (tc : TagCfg) (g : Group) (h : o.groupAccepted g.name = false) :
    loadGroup o tc g = lok [] := by
  simp [loadGroup, h]

/-! ### the pinned code (strict = false): kernel-checked counterexamples -/

def o0 : Oracles :=
  { gogrep := fun _ => some (2, ["x"]), typematchOK := fun _ => true, textmatchOK := fun _ => true,
    regexpOK := fun _ => true, regexpGroups := fun _ => [], strict := false, typeFromString := fun _ => 0,
    nodeTagOK := fun _ => true, ifaceOK := fun _ => true, funcRef := fun _ => 0, goVersionOK := fun _ => true,
    funcKnown := fun _ => false, numFuncs := 0, groupAccepted := fun _ => true }

def ruleAt : Rule :=
  { line := 5, syntaxPatterns := [⟨5, "_ = $x"⟩], commentPatterns := [], reportTemplate := "c",
    suggestTemplate := "", doFuncName := "", whereExpr := .mk 0 0 .nil [], locationVar := "y" }

-- D10: `Match("_ = $x").At(m["y"])` is accepted by the pinned loader although `y` is unbound …
example : (match loadRule o0 genTags "g" ruleAt with
    | .ok (.ok [a]) => sound a | _ => true) = false := by decide
-- … and rejected by the repaired one
example : (match loadRule { o0 with strict := true } genTags "g" ruleAt with
    | .ok (.error e) => e.line == 5 && e.what == "At() refers to a non-existing var" | _ => false) = true := by
  decide
-- D29: `Do(nil)` / an unknown function name with an empty function table panics inside Load
example : (match loadRule o0 genTags "g" { ruleAt with locationVar := "", doFuncName := "nil" } with
    | .panic .index => true | _ => false) = true := by
  decide

-- non-vacuity of `load_total`'s hypotheses
example : o0.strict = false ∧ ({ o0 with strict := true } : Oracles).strict = true := by decide
example : wfFile ⟨[⟨1, "g", [{ ruleAt with whereExpr := .mk Gen.Op.fVarPure 5 (.str "x") [] }]⟩]⟩ = true := by
  decide
example : tagsInRange { o0 with strict := true } genTags := by
  intro s tag vars h
  simp [o0] at h
  obtain ⟨rfl, _⟩ := h
  right; right; right; right; right; decide

end C06
