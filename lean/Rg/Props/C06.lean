import Rg.Proofs.Loader
import Rg.Proofs.ConvWf
import Rg.Model.Macro
import Rg.Gen.Buckets
/-!
# C06 — Load never crashes; accepted rules are structurally sound  (IR-level loader)

Two models meet here: `Loader.loadFile` (`ir_loader.go` from `ir.File` onwards) and `Conv.convert` /
`Comp.convertRuleG` (`irconv.go`: `convertFilterExpr` outside helper bodies, and `convertRuleExpr`
after the chain walk).  `load_total` needs the IR to be well-formed (`wfFile`); `convert_wf` proves
that what the converter accepts is — so `source_load_total` has no such hypothesis left.
Still outside the proof (covered by the harness's differential, look-alike and mutation streams
only): go/parser, go/types, the chain walk itself, `localDefine`/`expandMacro` (helper calls: see
C18), doc comments, `Import`, custom declarations and their quasigo compilation, bundles.
-/
namespace C06
open Loader

/-- the tag configuration of the code (regenerated constants) -/
def genTags : TagCfg :=
  { numBuckets := Gen.tagNumBuckets, stmtList := Gen.tagStmtList, exprList := Gen.tagExprList,
    declList := Gen.tagDeclList, node := Gen.tagNode, unknown := Gen.tagUnknown,
    stmtDst := [Gen.tagBlockStmt, Gen.tagCaseClause, Gen.tagCommClause],
    exprDst := [Gen.tagCallExpr, Gen.tagCompositeLit, Gen.tagReturnStmt],
    declDst := [Gen.tagFile] }

theorem dstTags_noPanic (o : Oracles) (tc : TagCfg) (hr : tagsInRange o tc) (s : String) (tag : Nat) (vars : List String)
    (h : o.gogrep s = some (tag, vars)) :
    NoPanic (dstTags tc.numBuckets tc.stmtList tc.exprList tc.declList tc.node tc.unknown
      tc.stmtDst tc.exprDst tc.declDst tag) := by
  unfold dstTags
  have := hr s tag vars h
  split
  · exact ⟨_, rfl⟩
  · split
    · exact ⟨_, rfl⟩
    · split
      · exact ⟨_, rfl⟩
      · split
        · exact ⟨_, rfl⟩
        · split
          · exact ⟨_, rfl⟩
          · rename_i h1 h2 h3 h4 h5
            rcases this with h | h | h | h | h | h
            · exact absurd (Or.inl h) h1
            · exact absurd (Or.inr h) h1
            · exact absurd h h2
            · exact absurd h h3
            · exact absurd h h4
            · exact absurd h h5

theorem loadSyntaxRule_noPanic (o : Oracles) (tc : TagCfg) (hr : tagsInRange o tc) (g : String) (r : Rule)
    (wv : List String) (p : Pat) : NoPanic (loadSyntaxRule o tc g r wv p) := by
  unfold loadSyntaxRule
  cases hg : o.gogrep p.value with
  | none => exact ⟨_, rfl⟩
  | some tv =>
    obtain ⟨tag, pvars⟩ := tv
    simp only []
    split
    · exact ⟨_, rfl⟩
    · split
      · exact ⟨_, rfl⟩
      · obtain ⟨d, hd⟩ := dstTags_noPanic o tc hr p.value tag pvars hg
        rw [hd]
        cases d <;> exact ⟨_, rfl⟩

theorem loadCommentRule_noPanic (o : Oracles) (g : String) (r : Rule) (wv : List String) (p : Pat) :
    NoPanic (loadCommentRule o g r wv p) := by
  unfold loadCommentRule
  split
  · simp only []
    split
    · exact ⟨_, rfl⟩
    · split <;> exact ⟨_, rfl⟩
  · exact ⟨_, rfl⟩

theorem loadRule_noPanic (o : Oracles) (tc : TagCfg) (hs : o.strict = true) (hr : tagsInRange o tc)
    (g : String) (r : Rule) (hw : wfRule r = true) : NoPanic (loadRule o tc g r) := by
  unfold loadRule
  apply noPanic_lbind
  · split
    · obtain ⟨b, hb⟩ := getFunc_strict o hs r.doFuncName
      rw [hb]; cases b <;> exact ⟨_, rfl⟩
    · exact ⟨_, rfl⟩
  · intro _
    apply noPanic_lbind
    · split
      · rename_i hv
        apply newFilter_noPanic o hs
        simp only [wfRule, Bool.or_eq_true, decide_eq_true_eq] at hw
        rcases hw with h | h
        · exact absurd h hv
        · exact h
      · exact ⟨_, rfl⟩
    · intro wv
      apply noPanic_lbind (seqL_noPanic _ _ (fun p _ => loadSyntaxRule_noPanic o tc hr g r wv p))
      intro _
      apply noPanic_lbind (seqL_noPanic _ _ (fun p _ => loadCommentRule_noPanic o g r wv p))
      intro _; exact ⟨_, rfl⟩

/-- **load_total**: on IR of the shape `irconv` produces, with gogrep answering root tags in its
documented range, the loader returns — a rule set or a located error — and no partial operation
(`Args[i]`, `.Value.(string)`, `rulesByTag[tag]`, `userFuncs[id]`) fires. -/
theorem load_total (o : Oracles) (tc : TagCfg) (f : File) (hs : o.strict = true)
    (hr : tagsInRange o tc) (hw : wfFile f = true) : NoPanic (loadFile o tc f) := by
  unfold loadFile
  apply noPanic_lbind
  · apply seqL_noPanic
    intro g hg
    unfold loadGroup
    split
    · exact ⟨_, rfl⟩
    · apply noPanic_lbind
      · apply seqL_noPanic
        intro r hrm
        apply loadRule_noPanic o tc hs hr
        simp only [wfFile, List.all_eq_true] at hw
        exact hw g hg r hrm
      · intro _; exact ⟨_, rfl⟩
  · intro _; exact ⟨_, rfl⟩

/-- an accepted syntax alternative is sound -/
theorem loadSyntaxRule_sound (o : Oracles) (tc : TagCfg) (hs : o.strict = true) (g : String) (r : Rule)
    (wv : List String) (p : Pat) (a : Accepted) (h : loadSyntaxRule o tc g r wv p = lok a) : sound a = true := by
  unfold loadSyntaxRule at h
  cases hg : o.gogrep p.value with
  | none => simp [hg, lerr, lok] at h
  | some tv =>
    obtain ⟨tag, pvars⟩ := tv
    simp only [hg] at h
    split at h
    · simp [lerr, lok] at h
    · rename_i hfind
      split at h
      · simp [lerr, lok] at h
      · rename_i hloc
        split at h
        · simp [lok] at h
        · simp [lerr, lok] at h
        · simp only [lok, Res.ok.injEq, Except.ok.injEq] at h
          subst h
          simp only [sound, Bool.and_eq_true, List.all_eq_true, Bool.or_eq_true, beq_iff_eq]
          constructor
          · intro v hv
            have := List.find?_eq_none.mp hfind v hv
            simp only [Bool.and_eq_true, bne_iff_ne, ne_eq, Bool.not_eq_true', not_and,
              Bool.not_eq_false] at this
            by_cases hd : v = "$$"
            · exact Or.inl hd
            · exact Or.inr (this hd)
          · simp only [hs, Bool.true_and, Bool.and_eq_true, bne_iff_ne, ne_eq, Bool.not_eq_true',
              not_and, Bool.not_eq_false] at hloc
            by_cases h1 : r.locationVar = ""
            · exact Or.inl (Or.inl h1)
            · by_cases h2 : r.locationVar = "$$"
              · exact Or.inl (Or.inr h2)
              · exact Or.inr (hloc ⟨h1, h2⟩)

/-- an accepted comment alternative is sound (variables = named groups of its regexp) -/
theorem loadCommentRule_sound (o : Oracles) (hs : o.strict = true) (g : String) (r : Rule)
    (wv : List String) (p : Pat) (a : Accepted) (h : loadCommentRule o g r wv p = lok a) : sound a = true := by
  unfold loadCommentRule at h
  split at h
  · simp only [hs, Bool.true_and] at h
    split at h
    · simp [lerr, lok] at h
    · rename_i hany
      split at h
      · simp [lerr, lok] at h
      · rename_i hloc
        simp only [lok, Res.ok.injEq, Except.ok.injEq] at h
        subst h
        simp only [sound, Bool.and_eq_true, List.all_eq_true, Bool.or_eq_true, beq_iff_eq]
        constructor
        · intro v hv
          simp only [List.any_eq_true, Bool.and_eq_true, bne_iff_ne, ne_eq, Bool.not_eq_true',
            not_exists, not_and, Bool.not_eq_false] at hany
          by_cases hd : v = "$$"
          · exact Or.inl hd
          · exact Or.inr (hany v hv hd)
        · simp only [Bool.and_eq_true, bne_iff_ne, ne_eq, Bool.not_eq_true', not_and,
            Bool.not_eq_false] at hloc
          by_cases h1 : r.locationVar = ""
          · exact Or.inl (Or.inl h1)
          · by_cases h2 : r.locationVar = "$$"
            · exact Or.inl (Or.inr h2)
            · exact Or.inr (hloc ⟨h1, h2⟩)
  · simp [lerr, lok] at h

theorem lbind_ok {α β} {x : LRes α} {f : α → LRes β} {b : β} (h : lbind x f = lok b) :
    ∃ a, x = lok a ∧ f a = lok b := by
  cases x with
  | panic p => simp [lbind, lok] at h
  | ok r =>
    cases r with
    | error e => simp [lbind, lok] at h
    | ok a => exact ⟨a, rfl, h⟩

/-- **accepted_rules_bound**: if Load succeeds, every accepted alternative binds every variable its
Where and At() clauses mention (Report/Suggest names that no alternative binds are literal text by
design — `C03.render_total` shows they cannot fail either). -/
theorem accepted_rules_bound (o : Oracles) (tc : TagCfg) (f : File) (hs : o.strict = true)
    (as : List Accepted) (h : loadFile o tc f = lok as) : ∀ a ∈ as, sound a = true := by
  intro a ha
  unfold loadFile at h
  obtain ⟨xs, hxs, hfl⟩ := lbind_ok h
  simp only [lok, Res.ok.injEq, Except.ok.injEq] at hfl
  subst hfl
  obtain ⟨ys, hys, hay⟩ := List.mem_flatten.mp ha
  obtain ⟨g, _, hg⟩ := seqL_ok _ _ _ hxs ys hys
  unfold loadGroup at hg
  split at hg
  · simp only [lok, Res.ok.injEq, Except.ok.injEq] at hg; subst hg; simp at hay
  · obtain ⟨zs, hzs, hfl2⟩ := lbind_ok hg
    simp only [lok, Res.ok.injEq, Except.ok.injEq] at hfl2
    subst hfl2
    obtain ⟨ws, hws, haw⟩ := List.mem_flatten.mp hay
    obtain ⟨r, _, hr⟩ := seqL_ok _ _ _ hzs ws hws
    unfold loadRule at hr
    obtain ⟨_, _, hr⟩ := lbind_ok hr
    obtain ⟨wv, _, hr⟩ := lbind_ok hr
    obtain ⟨a1, ha1, hr⟩ := lbind_ok hr
    obtain ⟨a2, ha2, hr⟩ := lbind_ok hr
    simp only [lok, Res.ok.injEq, Except.ok.injEq] at hr
    subst hr
    rcases List.mem_append.mp haw with hm | hm
    · obtain ⟨p, _, hp⟩ := seqL_ok _ _ _ ha1 a hm
      exact loadSyntaxRule_sound o tc hs g.name r wv p a hp
    · obtain ⟨p, _, hp⟩ := seqL_ok _ _ _ ha2 a hm
      exact loadCommentRule_sound o hs g.name r wv p a hp

/-- **rejected_group_silent**: a group the GroupFilter rejects contributes nothing and is not even
validated (so it can neither report nor make Load fail). -/
theorem rejected_group_silent (o : Oracles) (tc : TagCfg) (g : Group) (h : o.groupAccepted g.name = false) :
    loadGroup o tc g = lok [] := by
  simp [loadGroup, h]

/-! ### the pinned code (strict = false): kernel-checked counterexamples -/

def o0 : Oracles :=
  { gogrep := fun _ => some (2, ["x"]), typematchOK := fun _ => true, textmatchOK := fun _ => true,
    regexpOK := fun _ => true, regexpGroups := fun _ => [], strict := false, typeFromString := fun _ => 0,
    nodeTagOK := fun _ => true, ifaceOK := fun _ => true, funcRef := fun _ => 0, goVersionOK := fun _ => true,
    funcKnown := fun _ => false, numFuncs := 0, groupAccepted := fun _ => true }

def ruleAt : Rule :=
  { line := 5, syntaxPatterns := [⟨5, "_ = $x"⟩], commentPatterns := [], reportTemplate := "c",
    suggestTemplate := "", doFuncName := "", whereExpr := .mk 0 0 .nil [], locationVar := "y" }

-- D10: `Match("_ = $x").At(m["y"])` is accepted by the pinned loader although `y` is unbound …
example : (match loadRule o0 genTags "g" ruleAt with
    | .ok (.ok [a]) => sound a | _ => true) = false := by decide
-- … and rejected by the repaired one
example : (match loadRule { o0 with strict := true } genTags "g" ruleAt with
    | .ok (.error e) => e.line == 5 && e.what == "At() refers to a non-existing var" | _ => false) = true := by
  decide
-- D29: `Do(nil)` / an unknown function name with an empty function table panics inside Load
example : (match loadRule o0 genTags "g" { ruleAt with locationVar := "", doFuncName := "nil" } with
    | .panic .index => true | _ => false) = true := by
  decide

-- non-vacuity of `load_total`'s hypotheses
example : o0.strict = false ∧ ({ o0 with strict := true } : Oracles).strict = true := by decide
example : wfFile ⟨[⟨1, "g", [{ ruleAt with whereExpr := .mk Gen.Op.fVarPure 5 (.str "x") [] }]⟩]⟩ = true := by
  decide
example : tagsInRange { o0 with strict := true } genTags := by
  intro s tag vars h
  simp [o0] at h
  obtain ⟨rfl, _⟩ := h
  right; right; right; right; right; decide

/-! ## the composition: source AST → (irconv) → IR → (ir_loader) → rules -/
section composition
open Conv Comp

/-- **tables_agree**: the two regenerated op tables the two models are written against
(`Gen/IROpNames.lean` for the converter, `Gen/FilterOps.lean` for the loader) number and flag the ops
identically — so `toFE` may carry op numbers over unchanged. -/
theorem tables_agree :
    Gen.irOpNames = (List.range Gen.Op.names.length).zip Gen.Op.names ∧
    Gen.irOpFlags = (List.range Gen.Op.flags.length).zip
      (Gen.Op.flags.map fun f => (if f.1 then 1 else 0) + (if f.2.1 then 2 else 0) + (if f.2.2 then 4 else 0)) :=
  Comp.tables_agree

/-- **convert_wf**: for every annotated source expression, whatever `convertFilterExpr` (with the arity
check of fixes/c06-predicate-arity.diff) accepts satisfies the loader's well-formedness predicate at
every fuel — in particular at the fuel `newFilter` is run with.  For every decoding of Go strings. -/
theorem convert_wf (dec : Bytes → String) (e : CExpr) (fe : IR.FilterExpr) (h : Conv.convert e = .ok fe) :
    ∀ n, wfFE n (toFE dec fe) = true :=
  (out_good dec fe (convertG_out e fe h)).1

/-- … and it is a well-formed operand of a comparison (what makes `convert_wf` compositional) -/
theorem convert_wf_operand (dec : Bytes → String) (e : CExpr) (fe : IR.FilterExpr) (h : Conv.convert e = .ok fe) :
    wfOperand (toFE dec fe) = true :=
  (out_good dec fe (convertG_out e fe h)).2

/-- **convert_total**: the converter itself answers with IR or a located error on every annotated
expression (before and after the arity repair: its own partial operations were guarded by 149f4cd) -/
theorem convert_total (ar : Bool) (e : CExpr) : ∀ p, convertG ar e ≠ .panic p := convertG_noPanic ar e

/-- **source_filter_load_total**: for every source filter expression the converter accepts, the
loader's `newFilter` on the converted IR does not panic. -/
theorem source_filter_load_total (o : Oracles) (hs : o.strict = true) (dec : Bytes → String)
    (e : CExpr) (fe : IR.FilterExpr) (h : Conv.convert e = .ok fe) :
    NoPanic (newFilter o (feSize (toFE dec fe) + 1) (toFE dec fe)) :=
  newFilter_noPanic o hs _ _ (convert_wf dec e fe h _)

/-- helper calls (`findLocalMacro`) are outside `Conv`: `expandMacro` builds a *source* expression —
`Macro.expand`, by `C18.macro_transparent` the helper's body with the arguments substituted — and
hands it to `convertFilterExpr` again.  So for a helper call the statement is `convert_wf` /
`source_filter_load_total` applied to the annotated tree `e'` of the expanded expression: nothing about
the expansion itself is needed beyond its totality (`C18.macro_total`). -/
theorem source_filter_load_total_expanded (o : Oracles) (hs : o.strict = true) (dec : Bytes → String)
    (annotate : Macro.GExpr → CExpr) (matcher : String) (params : List String) (args : List Macro.GExpr)
    (body expanded : Macro.GExpr) (_hexp : Macro.expand matcher params args body = .ok expanded)
    (fe : IR.FilterExpr) (h : Conv.convert (annotate expanded) = .ok fe) :
    NoPanic (newFilter o (feSize (toFE dec fe) + 1) (toFE dec fe)) :=
  source_filter_load_total o hs dec _ fe h

/-- **convertRule_total**: `convertRuleExpr` after fixes/c06-chain-arity.diff never panics, whatever
the clauses' argument lists are (a user type with methods named like the DSL's can call them with none) -/
theorem convertRule_total (dec : Bytes → String) (c : Chain) : ∀ p, convertRuleG true dec c ≠ .panic p :=
  convertRuleG_noPanic dec c

/-- **convertRule_wf**: the rule it appends is inside the loader's domain -/
theorem convertRule_wf (dec : Bytes → String) (c : Chain) (r : Rule) (h : convertRuleG true dec c = .ok r) :
    wfRule r = true := convertRuleG_wf dec c r h

/-- **source_rule_load_total**: a rule the converter produced loads without a panic -/
theorem source_rule_load_total (o : Oracles) (tc : TagCfg) (hs : o.strict = true) (hr : tagsInRange o tc)
    (dec : Bytes → String) (g : String) (c : Chain) (r : Rule) (h : convertRuleG true dec c = .ok r) :
    NoPanic (loadRule o tc g r) :=
  loadRule_noPanic o tc hs hr g r (convertRule_wf dec c r h)

/-- **source_load_total**: conversion of the rule groups followed by loading never panics — neither
half, and with no well-formedness hypothesis: either the converter reports a located error, or the
loader returns a rule set or a located error. -/
theorem source_load_total (o : Oracles) (tc : TagCfg) (hs : o.strict = true) (hr : tagsInRange o tc)
    (dec : Bytes → String) (gs : List SrcGroup) :
    (∀ p, convertFileG true dec gs ≠ .panic p) ∧
    (∀ f, convertFileG true dec gs = .ok f → NoPanic (loadFile o tc f)) :=
  ⟨convertFileG_noPanic dec gs, fun f h => load_total o tc f hs hr (convertFileG_wf dec gs f h)⟩

/-- **source_accepted_rules_bound**: the soundness of accepted rules carries over to rules files: every
alternative accepted from converted source binds every variable its Where and At() clauses mention. -/
theorem source_accepted_rules_bound (o : Oracles) (tc : TagCfg) (hs : o.strict = true)
    (dec : Bytes → String) (gs : List SrcGroup) (f : File) (_h : convertFileG true dec gs = .ok f)
    (as : List Accepted) (hl : loadFile o tc f = lok as) : ∀ a ∈ as, sound a = true :=
  accepted_rules_bound o tc f hs as hl

end composition

/-! ### non-vacuity and the defects of the converter as it was (kernel-checked) -/
section examples
open Conv Comp

def an : Ann := ⟨.none, false⟩
def litS (s : Bytes) : CExpr := .lit ⟨.str s, false⟩ true (some s)
/-- `m["x"]` -/
def mx : CExpr := .index an (.ident an "m") (litS [120])
/-- `m["x"].Text.Matches(args…)` — with `args = []` only a user type's look-alike method type-checks -/
def textMatches (args : List CExpr) : CExpr := .call an (.sel an (.sel an mx "Text") "Matches") args

theorem mkOp_op (n : String) (v : IR.Val) (a : List IR.FilterExpr) : (mkOp n v a).op = IR.opNamed n := rfl
theorem opn_String : IR.opNamed "String" = 46 := by decide
theorem opn_VarTextMatches : IR.opNamed "VarTextMatches" = 34 := by decide

/-- the repaired oracles of `o0` -/
def o1 : Oracles := { o0 with strict := true }

-- `Where(m["x"].Text.Matches("a"))`: accepted by the converter, inside the loader's domain, loaded
theorem conv_textMatches :
    Conv.convert (textMatches [litS [97]]) = .ok (mkOp "VarTextMatches" (.str [120]) [mkOp "String" (.str [97]) []]) := by
  simp [Conv.convert, textMatches, convertG, convertImplG, convertStructG, convertListG, an, mx, litS, CExpr.ann, inspect,
    pathAt, pathUnder, unparen, toStringValue, stringValueCalls, listCalls, argCalls, List.lookup, mkOp_op, opn_String,
    opn_VarTextMatches]
example : ∀ n, wfFE n (toFE latin1 (mkOp "VarTextMatches" (.str [120]) [mkOp "String" (.str [97]) []])) = true :=
  convert_wf latin1 _ _ conv_textMatches
example : (match newFilter o1 3 (toFE latin1 (mkOp "VarTextMatches" (.str [120]) [mkOp "String" (.str [97]) []])) with
    | .ok (.ok vs) => vs == ["x"] | _ => false) = true := by decide

-- defect 3 (before fixes/c06-predicate-arity.diff): `Where(v.Text.Matches())` is accepted with `Args: []` …
theorem asis_textMatches0 : Conv.convertAsIs (textMatches []) = .ok (mkOp "VarTextMatches" (.str [120]) []) := by
  simp [Conv.convertAsIs, textMatches, convertG, convertImplG, convertStructG, convertListG, an, mx, litS, CExpr.ann, inspect,
    pathAt, pathUnder, unparen, toStringValue, stringValueCalls, listCalls, argCalls, List.lookup, mkOp_op, opn_VarTextMatches]
-- … which is outside the loader's domain, and `newFilter` reads `filter.Args[0]`:
example : wfFE 2 (toFE latin1 (mkOp "VarTextMatches" (.str [120]) [])) = false := by decide
example : (match newFilter o1 2 (toFE latin1 (mkOp "VarTextMatches" (.str [120]) [])) with
    | .panic .index => true | _ => false) = true := by decide
-- after the repair it is a located error of the converter
example : Conv.convert (textMatches []) = .err := by
  simp [Conv.convert, textMatches, convertG, convertImplG, convertStructG, convertListG, an, mx, litS, CExpr.ann, inspect,
    pathAt, pathUnder, unparen, toStringValue, stringValueCalls, argCalls, List.lookup]

/-- `t.Match("x").At().Report("")` after the chain walk -/
def chainAt0 : Chain :=
  { line := 5, matchArgs := some [(5, litS [120])], matchCommentArgs := none, whereArgs := none, suggestArgs := none,
    reportArgs := some [litS []], atArgs := some [], doArgs := none }

-- defect 2 (before fixes/c06-chain-arity.diff): `(*atArgs)[0]` on an empty argument list; a located error after
example : (match convertRuleG false latin1 chainAt0 with | .panic .index => true | _ => false) = true := by decide
example : (match convertRuleG true latin1 chainAt0 with | .err => true | _ => false) = true := by decide
-- the same for Where(), Suggest(), Report(), Do() without arguments
example : ([{ chainAt0 with atArgs := none, whereArgs := some [] }, { chainAt0 with atArgs := none, suggestArgs := some [] },
    { chainAt0 with atArgs := none, reportArgs := some [] },
    { chainAt0 with atArgs := none, reportArgs := none, doArgs := some [] }].all fun c =>
      (match convertRuleG false latin1 c with | .panic .index => true | _ => false) &&
      (match convertRuleG true latin1 c with | .err => true | _ => false)) = true := by decide

-- non-vacuity of `source_load_total`: a group with `m.Match("x").At(m["x"]).Report("")` converts and loads
def chainOK : Chain := { chainAt0 with atArgs := some [mx] }
example : (match convertFileG true latin1 [⟨4, "g", [chainOK]⟩] with
    | .ok f => (match loadFile o1 genTags f with | .ok (.ok as) => as.length == 1 | _ => false) | _ => false) = true := by decide

end examples

end C06
