import Rg.Proofs.Loader
import Rg.Proofs.ConvWf
import Rg.Proofs.SrcGroup
import Rg.Model.Macro
import Rg.Gen.Buckets
/-!
# C06 — Load never crashes; accepted rules are structurally sound  (IR-level loader)

Two models meet here: `Loader.loadFile` (`ir_loader.go` from `ir.File` onwards) and the converter
(`irconv.go`): `Conv.convertG` (`convertFilterExpr`, local helper calls entering through its hook),
`Comp.convertRuleW` (`convertRuleExpr` after the chain walk) and `Grp.convertFileM` (Rg/Model/SrcGroup.lean:
`ConvertFile`'s declaration loop, `convertInitFunc`, `convertRuleGroup`'s statement loop with `localDefine`,
`Import()`, doc comments, the chain walk, `findLocalMacro`/`expandMacro` with Go's unbounded recursion made
explicit).  `load_total` needs the IR to be well-formed (`wfFile`); `convert_wf` proves that what the converter
accepts is — so `source_group_load_total` / `source_load_total` have no such hypothesis left.
Still outside the proof (covered by the harness's differential, look-alike and mutation streams only):
go/parser, go/types (the syntax arrives annotated and classified: `isMatcherFunc`, `isBoolResult`, constant
values, `ObjectOf`), `strconv.Unquote`, custom declarations and their quasigo compilation, bundles' contents.
-/
namespace C06
open Loader

/-- the tag configuration of the code (regenerated constants) -/
def genTags : TagCfg :=
  { numBuckets := Gen.tagNumBuckets, stmtList := Gen.tagStmtList, exprList := Gen.tagExprList,
    declList := Gen.tagDeclList, node := Gen.tagNode, unknown := Gen.tagUnknown,
    stmtDst := [Gen.tagBlockStmt, Gen.tagCaseClause, Gen.tagCommClause],
    exprDst := [Gen.tagCallExpr, Gen.tagCompositeLit, Gen.tagReturnStmt],
    declDst := [Gen.tagFile] }

theorem dstTags_noPanic (o : Oracles) (tc : TagCfg) (hr : tagsInRange o tc) (s : String) (tag : Nat) (vars : List String)
    (h : o.gogrep s = some (tag, vars)) :
    NoPanic (dstTags tc.numBuckets tc.stmtList tc.exprList tc.declList tc.node tc.unknown
      tc.stmtDst tc.exprDst tc.declDst tag) := by
  unfold dstTags
  have := hr s tag vars h
  split
  · exact ⟨_, rfl⟩
  · split
    · exact ⟨_, rfl⟩
    · split
      · exact ⟨_, rfl⟩
      · split
        · exact ⟨_, rfl⟩
        · split
          · exact ⟨_, rfl⟩
          · rename_i h1 h2 h3 h4 h5
            rcases this with h | h | h | h | h | h
            · exact absurd (Or.inl h) h1
            · exact absurd (Or.inr h) h1
            · exact absurd h h2
            · exact absurd h h3
            · exact absurd h h4
            · exact absurd h h5

theorem loadSyntaxRule_noPanic (o : Oracles) (tc : TagCfg) (hr : tagsInRange o tc) (g : String) (r : Rule)
    (wv : List String) (p : Pat) : NoPanic (loadSyntaxRule o tc g r wv p) := by
  unfold loadSyntaxRule
  cases hg : o.gogrep p.value with
  | none => exact ⟨_, rfl⟩
  | some tv =>
    obtain ⟨tag, pvars⟩ := tv
    simp only []
    split
    · exact ⟨_, rfl⟩
    · split
      · exact ⟨_, rfl⟩
      · obtain ⟨d, hd⟩ := dstTags_noPanic o tc hr p.value tag pvars hg
        rw [hd]
        cases d <;> exact ⟨_, rfl⟩

theorem loadCommentRule_noPanic (o : Oracles) (g : String) (r : Rule) (wv : List String) (p : Pat) :
    NoPanic (loadCommentRule o g r wv p) := by
  unfold loadCommentRule
  split
  · simp only []
    split
    · exact ⟨_, rfl⟩
    · split <;> exact ⟨_, rfl⟩
  · exact ⟨_, rfl⟩

theorem loadRule_noPanic (o : Oracles) (tc : TagCfg) (hs : o.strict = true) (hr : tagsInRange o tc)
    (g : String) (r : Rule) (hw : wfRule r = true) : NoPanic (loadRule o tc g r) := by
  unfold loadRule
  apply noPanic_lbind
  · split
    · obtain ⟨b, hb⟩ := getFunc_strict o hs r.doFuncName
      rw [hb]; cases b <;> exact ⟨_, rfl⟩
    · exact ⟨_, rfl⟩
  · intro _
    apply noPanic_lbind
    · split
      · rename_i hv
        apply newFilter_noPanic o hs
        simp only [wfRule, Bool.or_eq_true, decide_eq_true_eq] at hw
        rcases hw with h | h
        · exact absurd h hv
        · exact h
      · exact ⟨_, rfl⟩
    · intro wv
      apply noPanic_lbind (seqL_noPanic _ _ (fun p _ => loadSyntaxRule_noPanic o tc hr g r wv p))
      intro _
      apply noPanic_lbind (seqL_noPanic _ _ (fun p _ => loadCommentRule_noPanic o g r wv p))
      intro _; exact ⟨_, rfl⟩

/-- **load_total**: on IR of the shape `irconv` produces, with gogrep answering root tags in its
documented range, the loader returns — a rule set or a located error — and no partial operation
(`Args[i]`, `.Value.(string)`, `rulesByTag[tag]`, `userFuncs[id]`) fires. -/
theorem load_total (o : Oracles) (tc : TagCfg) (f : File) (hs : o.strict = true)
    (hr : tagsInRange o tc) (hw : wfFile f = true) : NoPanic (loadFile o tc f) := by
  unfold loadFile
  apply noPanic_lbind
  · apply seqL_noPanic
    intro g hg
    unfold loadGroup
    split
    · exact ⟨_, rfl⟩
    · apply noPanic_lbind
      · apply seqL_noPanic
        intro r hrm
        apply loadRule_noPanic o tc hs hr
        simp only [wfFile, List.all_eq_true] at hw
        exact hw g hg r hrm
      · intro _; exact ⟨_, rfl⟩
  · intro _; exact ⟨_, rfl⟩

/-- an accepted syntax alternative is sound -/
theorem loadSyntaxRule_sound (o : Oracles) (tc : TagCfg) (hs : o.strict = true) (g : String) (r : Rule)
    (wv : List String) (p : Pat) (a : Accepted) (h : loadSyntaxRule o tc g r wv p = lok a) : sound a = true := by
  unfold loadSyntaxRule at h
  cases hg : o.gogrep p.value with
  | none => simp [hg, lerr, lok] at h
  | some tv =>
    obtain ⟨tag, pvars⟩ := tv
    simp only [hg] at h
    split at h
    · simp [lerr, lok] at h
    · rename_i hfind
      split at h
      · simp [lerr, lok] at h
      · rename_i hloc
        split at h
        · simp [lok] at h
        · simp [lerr, lok] at h
        · simp only [lok, Res.ok.injEq, Except.ok.injEq] at h
          subst h
          simp only [sound, Bool.and_eq_true, List.all_eq_true, Bool.or_eq_true, beq_iff_eq]
          constructor
          · intro v hv
            have := List.find?_eq_none.mp hfind v hv
            simp only [Bool.and_eq_true, bne_iff_ne, ne_eq, Bool.not_eq_true', not_and,
              Bool.not_eq_false] at this
            by_cases hd : v = "$$"
            · exact Or.inl hd
            · exact Or.inr (this hd)
          · simp only [hs, Bool.true_and, Bool.and_eq_true, bne_iff_ne, ne_eq, Bool.not_eq_true',
              not_and, Bool.not_eq_false] at hloc
            by_cases h1 : r.locationVar = ""
            · exact Or.inl (Or.inl h1)
            · by_cases h2 : r.locationVar = "$$"
              · exact Or.inl (Or.inr h2)
              · exact Or.inr (hloc ⟨h1, h2⟩)

/-- an accepted comment alternative is sound (variables = named groups of its regexp) -/
theorem loadCommentRule_sound (o : Oracles) (hs : o.strict = true) (g : String) (r : Rule)
    (wv : List String) (p : Pat) (a : Accepted) (h : loadCommentRule o g r wv p = lok a) : sound a = true := by
  unfold loadCommentRule at h
  split at h
  · simp only [hs, Bool.true_and] at h
    split at h
    · simp [lerr, lok] at h
    · rename_i hany
      split at h
      · simp [lerr, lok] at h
      · rename_i hloc
        simp only [lok, Res.ok.injEq, Except.ok.injEq] at h
        subst h
        simp only [sound, Bool.and_eq_true, List.all_eq_true, Bool.or_eq_true, beq_iff_eq]
        constructor
        · intro v hv
          simp only [List.any_eq_true, Bool.and_eq_true, bne_iff_ne, ne_eq, Bool.not_eq_true',
            not_exists, not_and, Bool.not_eq_false] at hany
          by_cases hd : v = "$$"
          · exact Or.inl hd
          · exact Or.inr (hany v hv hd)
        · simp only [Bool.and_eq_true, bne_iff_ne, ne_eq, Bool.not_eq_true', not_and,
            Bool.not_eq_false] at hloc
          by_cases h1 : r.locationVar = ""
          · exact Or.inl (Or.inl h1)
          · by_cases h2 : r.locationVar = "$$"
            · exact Or.inl (Or.inr h2)
            · exact Or.inr (hloc ⟨h1, h2⟩)
  · simp [lerr, lok] at h

theorem lbind_ok {α β} {x : LRes α} {f : α → LRes β} {b : β} (h : lbind x f = lok b) :
    ∃ a, x = lok a ∧ f a = lok b := by
  cases x with
  | panic p => simp [lbind, lok] at h
  | ok r =>
    cases r with
    | error e => simp [lbind, lok] at h
    | ok a => exact ⟨a, rfl, h⟩

/-- **accepted_rules_bound**: if Load succeeds, every accepted alternative binds every variable its
Where and At() clauses mention (Report/Suggest names that no alternative binds are literal text by
design — `C03.render_total` shows they cannot fail either). -/
theorem accepted_rules_bound (o : Oracles) (tc : TagCfg) (f : File) (hs : o.strict = true)
    (as : List Accepted) (h : loadFile o tc f = lok as) : ∀ a ∈ as, sound a = true := by
  intro a ha
  unfold loadFile at h
  obtain ⟨xs, hxs, hfl⟩ := lbind_ok h
  simp only [lok, Res.ok.injEq, Except.ok.injEq] at hfl
  subst hfl
  obtain ⟨ys, hys, hay⟩ := List.mem_flatten.mp ha
  obtain ⟨g, _, hg⟩ := seqL_ok _ _ _ hxs ys hys
  unfold loadGroup at hg
  split at hg
  · simp only [lok, Res.ok.injEq, Except.ok.injEq] at hg; subst hg; simp at hay
  · obtain ⟨zs, hzs, hfl2⟩ := lbind_ok hg
    simp only [lok, Res.ok.injEq, Except.ok.injEq] at hfl2
    subst hfl2
    obtain ⟨ws, hws, haw⟩ := List.mem_flatten.mp hay
    obtain ⟨r, _, hr⟩ := seqL_ok _ _ _ hzs ws hws
    unfold loadRule at hr
    obtain ⟨_, _, hr⟩ := lbind_ok hr
    obtain ⟨wv, _, hr⟩ := lbind_ok hr
    obtain ⟨a1, ha1, hr⟩ := lbind_ok hr
    obtain ⟨a2, ha2, hr⟩ := lbind_ok hr
    simp only [lok, Res.ok.injEq, Except.ok.injEq] at hr
    subst hr
    rcases List.mem_append.mp haw with hm | hm
    · obtain ⟨p, _, hp⟩ := seqL_ok _ _ _ ha1 a hm
      exact loadSyntaxRule_sound o tc hs g.name r wv p a hp
    · obtain ⟨p, _, hp⟩ := seqL_ok _ _ _ ha2 a hm
      exact loadCommentRule_sound o hs g.name r wv p a hp

/-- **rejected_group_silent**: a group the GroupFilter rejects contributes nothing and is not even
validated (so it can neither report nor make Load fail). -/
theorem rejected_group_silent (o : Oracles) (tc : TagCfg) (g : Group) (h : o.groupAccepted g.name = false) :
    loadGroup o tc g = lok [] := by
  simp [loadGroup, h]

/-! ### the pinned code (strict = false): kernel-checked counterexamples -/

def o0 : Oracles :=
  { gogrep := fun _ => some (2, ["x"]), typematchOK := fun _ => true, textmatchOK := fun _ => true,
    regexpOK := fun _ => true, regexpGroups := fun _ => [], strict := false, typeFromString := fun _ => 0,
    nodeTagOK := fun _ => true, ifaceOK := fun _ => true, funcRef := fun _ => 0, goVersionOK := fun _ => true,
    funcKnown := fun _ => false, numFuncs := 0, groupAccepted := fun _ => true }

def ruleAt : Rule :=
  { line := 5, syntaxPatterns := [⟨5, "_ = $x"⟩], commentPatterns := [], reportTemplate := "c",
    suggestTemplate := "", doFuncName := "", whereExpr := .mk 0 0 .nil [], locationVar := "y" }

-- D10: `Match("_ = $x").At(m["y"])` is accepted by the pinned loader although `y` is unbound …
example : (match loadRule o0 genTags "g" ruleAt with
    | .ok (.ok [a]) => sound a | _ => true) = false := by decide
-- … and rejected by the repaired one
example : (match loadRule { o0 with strict := true } genTags "g" ruleAt with
    | .ok (.error e) => e.line == 5 && e.what == "At() refers to a non-existing var" | _ => false) = true := by
  decide
-- D29: `Do(nil)` / an unknown function name with an empty function table panics inside Load
example : (match loadRule o0 genTags "g" { ruleAt with locationVar := "", doFuncName := "nil" } with
    | .panic .index => true | _ => false) = true := by
  decide

-- non-vacuity of `load_total`'s hypotheses
example : o0.strict = false ∧ ({ o0 with strict := true } : Oracles).strict = true := by decide
example : wfFile ⟨[⟨1, "g", [{ ruleAt with whereExpr := .mk Gen.Op.fVarPure 5 (.str "x") [] }]⟩]⟩ = true := by
  decide
example : tagsInRange { o0 with strict := true } genTags := by
  intro s tag vars h
  simp [o0] at h
  obtain ⟨rfl, _⟩ := h
  right; right; right; right; right; decide

/-! ## the composition: source AST → (irconv) → IR → (ir_loader) → rules -/
section composition
open Conv Comp

/-- **tables_agree**: the two regenerated op tables the two models are written against
(`Gen/IROpNames.lean` for the converter, `Gen/FilterOps.lean` for the loader) number and flag the ops
identically — so `toFE` may carry op numbers over unchanged. -/
theorem tables_agree :
    Gen.irOpNames = (List.range Gen.Op.names.length).zip Gen.Op.names ∧
    Gen.irOpFlags = (List.range Gen.Op.flags.length).zip
      (Gen.Op.flags.map fun f => (if f.1 then 1 else 0) + (if f.2.1 then 2 else 0) + (if f.2.2 then 4 else 0)) :=
  Comp.tables_agree

/-- **convert_wf**: for every annotated source expression, whatever `convertFilterExpr` (with the arity
check of fixes/c06-predicate-arity.diff) accepts satisfies the loader's well-formedness predicate at
every fuel — in particular at the fuel `newFilter` is run with.  For every decoding of Go strings. -/
theorem convert_wf (dec : Bytes → String) (e : CExpr) (fe : IR.FilterExpr) (h : Conv.convert e = .ok fe) :
    ∀ n, wfFE n (toFE dec fe) = true :=
  (out_good dec fe (convertG_out e fe h)).1

/-- … and it is a well-formed operand of a comparison (what makes `convert_wf` compositional) -/
theorem convert_wf_operand (dec : Bytes → String) (e : CExpr) (fe : IR.FilterExpr) (h : Conv.convert e = .ok fe) :
    wfOperand (toFE dec fe) = true :=
  (out_good dec fe (convertG_out e fe h)).2

/-- **convert_total**: the converter itself answers with IR or a located error on every annotated
expression (before and after the arity repair: its own partial operations were guarded by 149f4cd) -/
theorem convert_total (ar : Bool) (e : CExpr) : ∀ p, convertG noHook ar e ≠ .panic p := convertG_noPanic ar e

/-- **source_filter_load_total**: for every source filter expression the converter accepts, the
loader's `newFilter` on the converted IR does not panic. -/
theorem source_filter_load_total (o : Oracles) (hs : o.strict = true) (dec : Bytes → String)
    (e : CExpr) (fe : IR.FilterExpr) (h : Conv.convert e = .ok fe) :
    NoPanic (newFilter o (feSize (toFE dec fe) + 1) (toFE dec fe)) :=
  newFilter_noPanic o hs _ _ (convert_wf dec e fe h _)

/-- helper calls (`findLocalMacro`) are outside `Conv`: `expandMacro` builds a *source* expression —
`Macro.expand`, by `C18.macro_transparent` the helper's body with the arguments substituted — and
hands it to `convertFilterExpr` again.  So for a helper call the statement is `convert_wf` /
`source_filter_load_total` applied to the annotated tree `e'` of the expanded expression: nothing about
the expansion itself is needed beyond its totality (`C18.macro_total`). -/
theorem source_filter_load_total_expanded (o : Oracles) (hs : o.strict = true) (dec : Bytes → String)
    (annotate : Macro.GExpr → CExpr) (matcher : String) (params : List String) (args : List Macro.GExpr)
    (body expanded : Macro.GExpr) (_hexp : Macro.expand matcher params args body = .ok expanded)
    (fe : IR.FilterExpr) (h : Conv.convert (annotate expanded) = .ok fe) :
    NoPanic (newFilter o (feSize (toFE dec fe) + 1) (toFE dec fe)) :=
  source_filter_load_total o hs dec _ fe h

/-- **convertRule_total**: `convertRuleExpr` after fixes/c06-chain-arity.diff never panics, whatever
the clauses' argument lists are (a user type with methods named like the DSL's can call them with none) -/
theorem convertRule_total (dec : Bytes → String) (c : Chain) : ∀ p, convertRuleG true dec c ≠ .panic p :=
  convertRuleG_noPanic dec c

/-- **convertRule_wf**: the rule it appends is inside the loader's domain -/
theorem convertRule_wf (dec : Bytes → String) (c : Chain) (r : Rule) (h : convertRuleG true dec c = .ok r) :
    wfRule r = true := convertRuleG_wf dec c r h

/-- **source_rule_load_total**: a rule the converter produced loads without a panic -/
theorem source_rule_load_total (o : Oracles) (tc : TagCfg) (hs : o.strict = true) (hr : tagsInRange o tc)
    (dec : Bytes → String) (g : String) (c : Chain) (r : Rule) (h : convertRuleG true dec c = .ok r) :
    NoPanic (loadRule o tc g r) :=
  loadRule_noPanic o tc hs hr g r (convertRule_wf dec c r h)

/-- **source_chains_load_total** (the statement over groups given as already-walked chains; `source_load_total`
below is the statement over source files): conversion of the rule groups followed by loading never panics — neither
half, and with no well-formedness hypothesis: either the converter reports a located error, or the
loader returns a rule set or a located error. -/
theorem source_chains_load_total (o : Oracles) (tc : TagCfg) (hs : o.strict = true) (hr : tagsInRange o tc)
    (dec : Bytes → String) (gs : List SrcGroup) :
    (∀ p, convertFileG true dec gs ≠ .panic p) ∧
    (∀ f, convertFileG true dec gs = .ok f → NoPanic (loadFile o tc f)) :=
  ⟨convertFileG_noPanic dec gs, fun f h => load_total o tc f hs hr (convertFileG_wf dec gs f h)⟩

/-- **source_accepted_rules_bound**: the soundness of accepted rules carries over to rules files: every
alternative accepted from converted source binds every variable its Where and At() clauses mention. -/
theorem source_accepted_rules_bound (o : Oracles) (tc : TagCfg) (hs : o.strict = true)
    (dec : Bytes → String) (gs : List SrcGroup) (f : File) (_h : convertFileG true dec gs = .ok f)
    (as : List Accepted) (hl : loadFile o tc f = lok as) : ∀ a ∈ as, sound a = true :=
  accepted_rules_bound o tc f hs as hl

end composition

/-! ### the front of the converter: whole rule-group bodies, whole files (Rg/Model/SrcGroup.lean) -/
section groups
open Conv Comp Grp

theorem loadGroup_noPanic (o : Oracles) (tc : TagCfg) (hs : o.strict = true) (hr : tagsInRange o tc) (g : Loader.Group)
    (hw : ∀ r ∈ g.rules, wfRule r = true) : NoPanic (loadGroup o tc g) := by
  unfold loadGroup
  split
  · exact ⟨_, rfl⟩
  · apply noPanic_lbind
    · apply seqL_noPanic
      intro r hrm
      exact loadRule_noPanic o tc hs hr g.name r (hw r hrm)
    · intro _; exact ⟨_, rfl⟩

/-- **walk_total**: the chain walk of `convertRuleExpr` answers with the collected clauses or a located error
on every nested call/selector expression — any receiver, any method names, any arities, any order -/
theorem walk_total (c : Chain) (e : RExpr) : ∀ p, walk c e ≠ .panic p := walk_noPanic c e

/-- **helper_conversion_wf**: with local helpers in scope, at every recursion depth, what `convertFilterExpr`
accepts is still inside the loader's domain (an expansion is converted by the same function) -/
theorem helper_conversion_wf (dec : Bytes → String) (cfg : Cfg) (har : cfg.ar = true) (fs : List MacroLit.MacroDef)
    (fuel : Nat) (active : List String) (e : CExpr) (fe : IR.FilterExpr) (h : convertM cfg fs fuel active e = .ok fe) :
    ∀ n, wfFE n (toFE dec fe) = true :=
  (out_good dec fe (convertM_out cfg har fs fuel active e fe h)).1

/-- **helper_recursion_bounded** (with the recursion guard of fixes/c06-helper-recursion.diff): `fuel ≥ number of
helpers` nested expansions are never exhausted, whatever the helper bodies call -/
theorem helper_recursion_bounded (cfg : Cfg) (hrg : cfg.rg = true) (fs : List MacroLit.MacroDef) (fuel : Nat)
    (hf : fs.length ≤ fuel) (e : CExpr) : ∀ p, convertM cfg fs fuel [] e ≠ .panic p :=
  convertM_noPanic_guard cfg hrg fs fuel [] List.nodup_nil (by intro a ha; cases ha) (by simpa using hf) e

/-- **helper_recursion_bounded_partial** (the code as it is): the same when the helper table is acyclic — every
bare-identifier call in a helper's body that names a recorded helper names an *earlier* one, and never a parameter -/
theorem helper_recursion_bounded_partial (cfg : Cfg) (fs : List MacroLit.MacroDef) (hac : acyclicAt fs = true) (fuel : Nat)
    (hf : fs.length ≤ fuel) (e : CExpr) : ∀ p, convertM cfg fs fuel [] e ≠ .panic p :=
  convertM_noPanic_acyclic cfg fs hac fuel [] e (fun _ _ j hj => Nat.lt_of_lt_of_le (idxOf_lt hj) hf)

/-- **doc_pragmas_total**: `convertDocComments` never reaches its `panic("unhandled 'doc' pragma")` -/
theorem doc_pragmas_total (ts : List Bytes) : ∀ p, docComments ts ≠ .panic p := docComments_noPanic ts

/-- the statement of `source_group_load_total` for one variant of the converter -/
def GroupLoadTotal (o : Oracles) (tc : TagCfg) (dec : Bytes → String) (env : Env) (fuel : Nat) (g : Grp.Group) : Prop :=
  (∀ p, convertGroupM dec env fuel g ≠ .panic p) ∧
  (∀ out, convertGroupM dec env fuel g = .ok out →
    (∀ r ∈ out.group.rules, wfRule r = true ∧ NoPanic (loadRule o tc out.group.name r)) ∧
    NoPanic (loadGroup o tc out.group))

theorem groupLoadTotal_of (o : Oracles) (tc : TagCfg) (hs : o.strict = true) (hr : tagsInRange o tc)
    (dec : Bytes → String) (env : Env) (har : env.ar = true) (fuel : Nat) (g : Grp.Group)
    (hfuel : g.body.length ≤ fuel) (htyped : g.importTyped = true) (hh : env.rg = true ∨ g.acyclic = true) :
    GroupLoadTotal o tc dec env fuel g := by
  refine ⟨convertGroupM_noPanic dec env har fuel g hfuel htyped hh, ?_⟩
  intro out h
  have hw := convertGroupM_wf dec env har fuel g out h
  exact ⟨fun r hrm => ⟨hw r hrm, loadRule_noPanic o tc hs hr _ r (hw r hrm)⟩, loadGroup_noPanic o tc hs hr _ hw⟩

/-- **source_group_load_total** (converter with the recursion guard of fixes/c06-helper-recursion.diff): for every
rule-group body — statements of any kind, helper definitions of any shape calling anything, call chains with any
receivers, names, arities and order — conversion never panics nor runs out of stack, and every rule it accepts is
inside the loader's domain and loads without a panic; so does the group.  `fuel ≥ number of statements` suffices.
`importTyped` is what go/types guarantees about `m.Import(…)` on the `dsl.Matcher` parameter (one argument). -/
theorem source_group_load_total (o : Oracles) (tc : TagCfg) (hs : o.strict = true) (hr : tagsInRange o tc)
    (dec : Bytes → String) (unq : String → Option Bytes) (fuel : Nat) (g : Grp.Group)
    (hfuel : g.body.length ≤ fuel) (htyped : g.importTyped = true) :
    GroupLoadTotal o tc dec { unq := unq, ar := true, rg := true } fuel g :=
  groupLoadTotal_of o tc hs hr dec _ rfl fuel g hfuel htyped (Or.inl rfl)

/-- **source_group_load_total_partial** (the converter as it is): the same for groups whose helper tables are
acyclic (`Group.acyclic`).  The hypothesis is necessary: `selfRecursive_diverges` below. -/
theorem source_group_load_total_partial (o : Oracles) (tc : TagCfg) (hs : o.strict = true) (hr : tagsInRange o tc)
    (dec : Bytes → String) (unq : String → Option Bytes) (fuel : Nat) (g : Grp.Group)
    (hfuel : g.body.length ≤ fuel) (htyped : g.importTyped = true) (hac : g.acyclic = true) :
    GroupLoadTotal o tc dec { unq := unq, ar := true, rg := false } fuel g :=
  groupLoadTotal_of o tc hs hr dec _ rfl fuel g hfuel htyped (Or.inr hac)

/-- what `source_load_total` needs of a file: fuel for every group, `Import` typed, and for the variants
without a repair the hypothesis that stands in for it -/
def FileOK (env : Env) (ifx : Bool) (fuel : Nat) (f : SrcFile) : Prop :=
  (∀ g, Decl.group g ∈ f.decls → g.body.length ≤ fuel ∧ g.importTyped = true ∧ (env.rg = true ∨ g.acyclic = true)) ∧
  (ifx = true ∨ ∀ dn, dslPkgname "dsl" f.imports = .ok dn → ∀ b, Decl.init b ∈ f.decls → initSafe dn b = true)

theorem convertFileM_noPanic (dec : Bytes → String) (env : Env) (har : env.ar = true) (ifx : Bool) (fuel : Nat) (f : SrcFile)
    (hok : FileOK env ifx fuel f) : ∀ p, convertFileM dec env ifx fuel f ≠ .panic p := by
  unfold convertFileM
  intro p h
  cases hdn : dslPkgname "dsl" f.imports with
  | panic q => exact dslPkgname_noPanic _ _ q hdn
  | err => rw [hdn] at h; simp [CRes.bind] at h
  | ok dn =>
    rw [hdn] at h
    simp only [CRes.bind] at h
    revert h
    apply bind_noPanic
    · apply declLoop_noPanic dec env ifx fuel dn f.decls
      · intro g hg
        obtain ⟨h1, h2, h3⟩ := hok.1 g hg
        exact convertGroupM_noPanic dec env har fuel g h1 h2 h3
      · intro b hb
        rcases hok.2 with hfx | hsafe
        · subst hfx; exact initStmts_noPanic_fixed dn b
        · cases ifx with
          | true => exact initStmts_noPanic_fixed dn b
          | false => exact initStmts_noPanic_asis dn b (hsafe dn hdn b hb)
    · intro out q; simp

theorem convertFileM_wf (dec : Bytes → String) (env : Env) (har : env.ar = true) (ifx : Bool) (fuel : Nat) (f : SrcFile)
    (out : FileOut) (h : convertFileM dec env ifx fuel f = .ok out) : wfFile out.file = true := by
  unfold convertFileM at h
  obtain ⟨dn, _, h⟩ := bind_ok h
  obtain ⟨o, ho, h⟩ := bind_ok h
  have := cres_ok_inj h; subst this
  simp only [wfFile, List.all_eq_true, List.mem_map, forall_exists_index, and_imp, forall_apply_eq_imp_iff₂]
  intro go hgo r hr
  obtain ⟨g, _, hg⟩ := declLoop_groups dec env ifx fuel dn f.decls o ho go hgo
  exact convertGroupM_wf dec env har fuel g go hg r hr

/-- the statement of `source_load_total` over source files, for one variant of the converter -/
def FileLoadTotal (o : Oracles) (tc : TagCfg) (dec : Bytes → String) (env : Env) (ifx : Bool) (fuel : Nat) (f : SrcFile) : Prop :=
  (∀ p, convertFileM dec env ifx fuel f ≠ .panic p) ∧
  (∀ out, convertFileM dec env ifx fuel f = .ok out → NoPanic (loadFile o tc out.file))

/-- **source_load_total** — restated over files made of rule-group *bodies*, `init`
functions and other declarations (converter with fixes/c06-helper-recursion.diff and fixes/c06-init-arity.diff):
`ConvertFile` followed by loading never panics: either the converter reports a located error, or the loader returns
a rule set or a located error.  Hypotheses: fuel for the longest body; go/types' guarantee about `m.Import`. -/
theorem source_load_total (o : Oracles) (tc : TagCfg) (hs : o.strict = true) (hr : tagsInRange o tc)
    (dec : Bytes → String) (unq : String → Option Bytes) (fuel : Nat) (f : SrcFile)
    (hg : ∀ g, Decl.group g ∈ f.decls → g.body.length ≤ fuel ∧ g.importTyped = true) :
    FileLoadTotal o tc dec { unq := unq, ar := true, rg := true } true fuel f :=
  ⟨convertFileM_noPanic dec _ rfl true fuel f ⟨fun g h => ⟨(hg g h).1, (hg g h).2, Or.inl rfl⟩, Or.inl rfl⟩,
   fun out h => load_total o tc out.file hs hr (convertFileM_wf dec _ rfl true fuel f out h)⟩

/-- **source_load_total_partial** (the converter as it is): the same for files whose groups have acyclic
helper tables and whose `init` functions call the real `dsl.ImportRules` (`initSafe`).  Both hypotheses are
necessary: `selfRecursive_diverges`, `importRules_noArgs_panics`, `importRules_universeMethod_panics` below. -/
theorem source_load_total_partial (o : Oracles) (tc : TagCfg) (hs : o.strict = true) (hr : tagsInRange o tc)
    (dec : Bytes → String) (unq : String → Option Bytes) (fuel : Nat) (f : SrcFile)
    (hg : ∀ g, Decl.group g ∈ f.decls → g.body.length ≤ fuel ∧ g.importTyped = true ∧ g.acyclic = true)
    (hi : ∀ dn, dslPkgname "dsl" f.imports = .ok dn → ∀ b, Decl.init b ∈ f.decls → initSafe dn b = true) :
    FileLoadTotal o tc dec { unq := unq, ar := true, rg := false } false fuel f :=
  ⟨convertFileM_noPanic dec _ rfl false fuel f ⟨fun g h => ⟨(hg g h).1, (hg g h).2.1, Or.inr (hg g h).2.2⟩, Or.inr hi⟩,
   fun out h => load_total o tc out.file hs hr (convertFileM_wf dec _ rfl false fuel f out h)⟩

/-! #### connection with C18's model of helper definitions (`MacroLit.groupLoop`, `Macro.expand`) -/

/-- **stmtLoop_is_groupLoop**: the statement loop of `convertRuleGroup`, run with name resolution in place of rule
conversion, returns what `MacroLit.groupLoop` returns on the same statements: C18's model of helper definitions is
an *instance* of this loop, and `C18.group_calls_see_go_binding` speaks about the tables rules are converted with -/
theorem stmtLoop_is_groupLoop (matcher : String) (stmts : List Grp.Stmt) (fs : List MacroLit.MacroDef) (seen : Bool)
    (out : List Bytes × List (List (Option MacroLit.MacroDef)))
    (h : stmtLoopG matcher resolveCalls fs seen stmts = .ok out) :
    MacroLit.groupLoop fs (stmts.map (toMacroStmt matcher)) = some out.2 :=
  stmtLoop_groupLoop matcher stmts fs seen out h

/-- **groupLoop_refuses_loop_refuses**: a body `MacroLit.groupLoop` refuses is refused by the loop whatever is done
with rule statements -/
theorem groupLoop_refuses_loop_refuses {ρ : Type} (matcher : String) (cr : List MacroLit.MacroDef → Nat → RExpr → CRes ρ)
    (stmts : List Grp.Stmt) (fs : List MacroLit.MacroDef) (seen : Bool)
    (h : MacroLit.groupLoop fs (stmts.map (toMacroStmt matcher)) = none) : ∀ out, stmtLoopG matcher cr fs seen stmts ≠ .ok out :=
  groupLoop_refusal matcher cr stmts fs seen h

/-- **expansion_is_macro_expand**: on arguments that are `types.Info` annotations of `gs`, the model's `expandMacro`
refuses exactly when `Macro.expand` does, and otherwise the expression it hands back to `convertFilterExpr` is an
annotation of `Macro.expand`'s result — the inlined body (`C18.macro_transparent`) -/
theorem expansion_is_macro_expand (unq : String → Option Bytes) (m : String) (d : MacroLit.MacroDef) (as : List CExpr)
    (gs : List Macro.GExpr) (h : ShapeL as gs) (e' : CExpr) (hok : expandC unq m d as = .ok e') :
    Macro.expand m d.params gs d.body = .ok (Macro.inline d.params gs d.body) ∧ Shape e' (Macro.inline d.params gs d.body) :=
  expandC_ok_shape unq m d h e' hok

theorem expansion_refused_iff (unq : String → Option Bytes) (m : String) (d : MacroLit.MacroDef) (as : List CExpr)
    (gs : List Macro.GExpr) (h : ShapeL as gs) :
    match Macro.checkArgs true m d.params gs 0 with
    | some _ => expandC unq m d as = .err
    | none => ∃ e', expandC unq m d as = .ok e' ∧ Shape e' (Macro.inline d.params gs d.body) :=
  expandC_shape unq m d h

/-- **source_accepted_rules_bound** over source files: every alternative accepted from a converted file binds every
variable its Where and At() clauses mention -/
theorem source_file_accepted_rules_bound (o : Oracles) (tc : TagCfg) (hs : o.strict = true) (dec : Bytes → String)
    (env : Env) (ifx : Bool) (fuel : Nat) (f : SrcFile) (out : FileOut) (_h : convertFileM dec env ifx fuel f = .ok out)
    (as : List Accepted) (hl : loadFile o tc out.file = lok as) : ∀ a ∈ as, sound a = true :=
  accepted_rules_bound o tc out.file hs as hl

end groups


/-! ### non-vacuity and the defects of the converter as it was (kernel-checked) -/
section examples
open Conv Comp

def an : Ann := ⟨.none, false⟩
def litS (s : Bytes) : CExpr := .lit ⟨.str s, false⟩ true (some s)
/-- `m["x"]` -/
def mx : CExpr := .index an (.ident an "m") (litS [120])
/-- `m["x"].Text.Matches(args…)` — with `args = []` only a user type's look-alike method type-checks -/
def textMatches (args : List CExpr) : CExpr := .call an (.sel an (.sel an mx "Text") "Matches") args

theorem mkOp_op (n : String) (v : IR.Val) (a : List IR.FilterExpr) : (mkOp n v a).op = IR.opNamed n := rfl
theorem opn_String : IR.opNamed "String" = 46 := by decide
theorem opn_VarTextMatches : IR.opNamed "VarTextMatches" = 34 := by decide

/-- the repaired oracles of `o0` -/
def o1 : Oracles := { o0 with strict := true }

-- `Where(m["x"].Text.Matches("a"))`: accepted by the converter, inside the loader's domain, loaded
theorem conv_textMatches :
    Conv.convert (textMatches [litS [97]]) = .ok (mkOp "VarTextMatches" (.str [120]) [mkOp "String" (.str [97]) []]) := by
  simp [Conv.convert, textMatches, convertG, convertImplG, convertStructG, convertListG, askHook, an, mx, litS, CExpr.ann, inspect,
    pathAt, pathUnder, unparen, toStringValue, stringValueCalls, listCalls, argCalls, List.lookup, mkOp_op, opn_String,
    opn_VarTextMatches]
example : ∀ n, wfFE n (toFE latin1 (mkOp "VarTextMatches" (.str [120]) [mkOp "String" (.str [97]) []])) = true :=
  convert_wf latin1 _ _ conv_textMatches
example : (match newFilter o1 3 (toFE latin1 (mkOp "VarTextMatches" (.str [120]) [mkOp "String" (.str [97]) []])) with
    | .ok (.ok vs) => vs == ["x"] | _ => false) = true := by decide

-- defect 3 (before fixes/c06-predicate-arity.diff): `Where(v.Text.Matches())` is accepted with `Args: []` …
theorem asis_textMatches0 : Conv.convertAsIs (textMatches []) = .ok (mkOp "VarTextMatches" (.str [120]) []) := by
  simp [Conv.convertAsIs, textMatches, convertG, convertImplG, convertStructG, convertListG, askHook, an, mx, litS, CExpr.ann, inspect,
    pathAt, pathUnder, unparen, toStringValue, stringValueCalls, listCalls, argCalls, List.lookup, mkOp_op, opn_VarTextMatches]
-- … which is outside the loader's domain, and `newFilter` reads `filter.Args[0]`:
example : wfFE 2 (toFE latin1 (mkOp "VarTextMatches" (.str [120]) [])) = false := by decide
example : (match newFilter o1 2 (toFE latin1 (mkOp "VarTextMatches" (.str [120]) [])) with
    | .panic .index => true | _ => false) = true := by decide
-- after the repair it is a located error of the converter
example : Conv.convert (textMatches []) = .err := by
  simp [Conv.convert, textMatches, convertG, convertImplG, convertStructG, convertListG, askHook, an, mx, litS, CExpr.ann, inspect,
    pathAt, pathUnder, unparen, toStringValue, stringValueCalls, argCalls, List.lookup]

/-- `t.Match("x").At().Report("")` after the chain walk -/
def chainAt0 : Chain :=
  { line := 5, matchArgs := some [(5, litS [120])], matchCommentArgs := none, whereArgs := none, suggestArgs := none,
    reportArgs := some [litS []], atArgs := some [], doArgs := none }

-- defect 2 (before fixes/c06-chain-arity.diff): `(*atArgs)[0]` on an empty argument list; a located error after
example : (match convertRuleG false latin1 chainAt0 with | .panic .index => true | _ => false) = true := by decide
example : (match convertRuleG true latin1 chainAt0 with | .err => true | _ => false) = true := by decide
-- the same for Where(), Suggest(), Report(), Do() without arguments
example : ([{ chainAt0 with atArgs := none, whereArgs := some [] }, { chainAt0 with atArgs := none, suggestArgs := some [] },
    { chainAt0 with atArgs := none, reportArgs := some [] },
    { chainAt0 with atArgs := none, reportArgs := none, doArgs := some [] }].all fun c =>
      (match convertRuleG false latin1 c with | .panic .index => true | _ => false) &&
      (match convertRuleG true latin1 c with | .err => true | _ => false)) = true := by decide

-- non-vacuity of `source_chains_load_total`: a group with `m.Match("x").At(m["x"]).Report("")` converts and loads
def chainOK : Chain := { chainAt0 with atArgs := some [mx] }
example : (match convertFileG true latin1 [⟨4, "g", [chainOK]⟩] with
    | .ok f => (match loadFile o1 genTags f with | .ok (.ok as) => as.length == 1 | _ => false) | _ => false) = true := by decide

end examples

/-! ### the front of the converter: non-vacuity, and the defects of the code as it is (kernel-checked) -/
section groupExamples
open Conv Comp Grp Macro MacroLit

def env0 : Env := { unq := fun _ => none, ar := true, rg := false }
def cfg0 : Cfg := env0.cfg "m"
/-- `h := func(v dsl.Var) bool { return h(v) }` — valid Go when a package-level `h` exists -/
def hSelf : MacroDef := ⟨"h", ["v"], .call (.ident "h") [.ident "v"]⟩
/-- `h := func(v dsl.Var) bool { return v.Pure }` -/
def hPure : MacroDef := ⟨"h", ["v"], .sel (.ident "v") "Pure"⟩
/-- `h(m["x"])` -/
def hcall : CExpr := .call an (.ident an "h") [mx]

theorem hcall_conv_panic (hk : Hook) (ar : Bool) (p : Panic) (h : hk "h" [mx] = some (.panic p)) :
    convertG hk ar hcall = .panic p := by
  simp [convertG, convertImplG, convertStructG, askHook, hcall, an, CExpr.ann, inspect, pathAt, Conv.unparen,
    stringValueCalls, List.lookup, h]

theorem hSelf_hook (act : List String) (conv : List String → CExpr → CRes IR.FilterExpr) :
    hookOf cfg0 [hSelf] act conv "h" [mx] = some (conv ("h" :: act) hcall) := by
  simp [hookOf, findMacro, hSelf, cfg0, env0, Env.cfg, expandC, checkArgsC, isSafeC, bindArgsC, inst, instList, mx, litS, an,
    Conv.unparen, hcall, noAnn, CRes.bind, List.lookup]

/-- **selfRecursive_diverges** — defect of the code as it is: the expansion of `h(m["x"])` is `h(m["x"])` again
(`findLocalMacro` finds the helper being expanded), so the conversion exhausts *every* fuel: Go's stack overflows
(fatal, not recoverable).  The hypothesis `acyclic` of `source_group_load_total_partial` is necessary. -/
theorem selfRecursive_diverges : ∀ (fuel : Nat) (act : List String), convertM cfg0 [hSelf] fuel act hcall = .panic .stack
  | 0, act => by
    rw [convertM]; exact hcall_conv_panic _ _ _ (hSelf_hook act _)
  | fuel + 1, act => by
    rw [convertM]
    exact hcall_conv_panic _ _ _ (by rw [hSelf_hook act _, selfRecursive_diverges fuel])

-- with the recursion guard the second expansion is a located error
example : (match convertM { cfg0 with rg := true } [hSelf] 1 [] hcall with | .err => true | _ => false) = true := by
  simp [convertM, convertG, convertImplG, convertStructG, askHook, hcall, an, CExpr.ann, inspect, pathAt, Conv.unparen,
    stringValueCalls, List.lookup, hookOf, findMacro, hSelf, cfg0, env0, Env.cfg, expandC, checkArgsC, isSafeC, bindArgsC, inst,
    instList, mx, litS, noAnn, CRes.bind]

theorem opn_VarPure : IR.opNamed "VarPure" = 12 := by decide

/-- a helper call is converted to the IR of the inlined body -/
theorem helper_call_converts : convertM cfg0 [hPure] 1 [] hcall = .ok (mkOp "VarPure" (.str [120]) []) := by
  simp [convertM, convertG, convertImplG, convertStructG, askHook, hcall, an, CExpr.ann, inspect, pathAt, pathUnder, Conv.unparen,
    toStringValue, stringValueCalls, selectorOps, List.lookup, hookOf, findMacro, hPure, cfg0, env0, Env.cfg, expandC, checkArgsC,
    isSafeC, bindArgsC, inst, mx, litS, noAnn, CRes.bind, mkOp_op, opn_VarPure]

/-- `m.Match("x").Where(w).Report("r")` as the statement at line `l` -/
def ruleStmt (l : Nat) (w : CExpr) : Grp.Stmt :=
  .expr l (.call (.sel (.call (.sel (.call (.sel (.ident "m") "Match") [(l, litS [120])]) "Where") [(l, w)]) "Report") [(l, litS [114])])
/-- `m.Match("x").Report("r")` -/
def plainRule (l : Nat) : Grp.Stmt :=
  .expr l (.call (.sel (.call (.sel (.ident "m") "Match") [(l, litS [120])]) "Report") [(l, litS [114])])
/-- `name := func(v dsl.Var) bool { return body }` -/
def defStmt (name : String) (body : GExpr) : Grp.Stmt :=
  .assign true [.ident name] [.funcLit true ["v"] [.ret [body]]]

/-- `//doc:tags a` + `func g(m dsl.Matcher) { h := func(v dsl.Var) bool { return v.Pure }; m.Import("x"); var …;
m.Match("x").Where(h(m["x"])).Report("r"); m.Match("x").Report("r") }` -/
def groupOK : Grp.Group :=
  { line := 3, name := "g", paramNames := ["m"], doc := some [docPrefix ++ pTags ++ [32, 97]],
    body := [defStmt "h" (.sel (.ident "v") "Pure"), .expr 5 (.call (.sel (.ident "m") "Import") [(5, litS [120])]), .decl,
             ruleStmt 6 hcall, plainRule 7] }

-- non-vacuity of the hypotheses of `source_group_load_total(_partial)`
example : groupOK.importTyped = true ∧ groupOK.acyclic = true ∧ groupOK.body.length ≤ 5 := by decide

-- … and of its conclusion: a group converts (one rule, one import, one doc pragma) and loads
def groupPlain : Grp.Group := { groupOK with body := [.expr 5 (.call (.sel (.ident "m") "Import") [(5, litS [120])]), .decl, plainRule 7] }
example : (match convertGroupM latin1 env0 3 groupPlain with
    | .ok out => out.imports == [[120]] && out.docs == [(pTags, [32, 97])] && out.group.rules.length == 1 &&
        (match loadGroup o1 genTags out.group with | .ok (.ok as) => as.length == 1 | _ => false)
    | _ => false) = true := by
  decide

/-- the group with `h := func(v dsl.Var) bool { return h(v) }` -/
def groupRec : Grp.Group := { groupOK with body := [defStmt "h" (.call (.ident "h") [.ident "v"]), ruleStmt 6 hcall] }

example : groupRec.acyclic = false ∧ groupRec.importTyped = true := by decide
/-- the defect at the level of `convertRuleGroup`: every fuel is exhausted -/
theorem groupRec_diverges (fuel : Nat) : convertGroupM latin1 env0 fuel groupRec = .panic .stack := by
  have h := selfRecursive_diverges fuel []
  simp only [cfg0, hSelf] at h
  simp [convertGroupM, groupRec, groupOK, docComments, docComment, hasPrefix, docPrefix, pTags, trimPrefix, knownPragmas,
    handledPragmas, pSummary, pBefore, pAfter, pNote, stmtLoopG, defStmt, localDefine, ruleStmt, RExpr.isCall,
    matcherMethodName, ruleExpr, walk, link, emptyChain, exprs, convertRuleW, parsePatterns, chainArg0, CRes.bind, parseStringArg,
    toStringValue, litS, h]

-- `m.Import()`: only go/types stands between the converter and `call.Args[0]`
def groupImp0 : Grp.Group := { groupOK with body := [.expr 5 (.call (.sel (.ident "m") "Import") [])] }
example : groupImp0.importTyped = false := by decide
example : (match convertGroupM latin1 env0 1 groupImp0 with | .panic .index => true | _ => false) = true := by decide

-- convertInitFunc: `dsl.ImportRules` is recognised by the two identifiers alone
def initNoArgs : IStmt := .call 7 (.sel (.ident "dsl") "ImportRules") []
def initOneArg : IStmt := .call 7 (.sel (.ident "dsl") "ImportRules") [⟨litS [112], .noObject⟩]
def initUniverse : IStmt :=
  .call 7 (.sel (.ident "dsl") "ImportRules") [⟨litS [112], .noObject⟩, ⟨.sel an (.ident an "e") "Error", .noPkg⟩]
def initReal : IStmt :=
  .call 7 (.sel (.ident "dsl") "ImportRules") [⟨litS [112], .noObject⟩, ⟨.sel an (.ident an "bundle") "Bundle", .pkg [98]⟩]

/-- defect: `var dsl T; func init() { dsl.ImportRules() }` — `call.Args[0]` -/
theorem importRules_noArgs_panics :
    (match initStmt false "dsl" initNoArgs with | .panic .index => true | _ => false) = true := by decide
/-- defect: `dsl.ImportRules("p")` — `call.Args[1]` -/
theorem importRules_oneArg_panics :
    (match initStmt false "dsl" initOneArg with | .panic .index => true | _ => false) = true := by decide
/-- defect: `dsl.ImportRules("p", e.Error)` — `bundleObj.Pkg().Path()` on the universe's `error.Error` -/
theorem importRules_universeMethod_panics :
    (match initStmt false "dsl" initUniverse with | .panic .nilDeref => true | _ => false) = true := by decide
-- located errors after fixes/c06-init-arity.diff
example : ([initNoArgs, initOneArg, initUniverse].all fun s =>
    match initStmt true "dsl" s with | .err => true | _ => false) = true := by decide
example : initSafe "dsl" [initNoArgs] = false ∧ initSafe "dsl" [initOneArg] = false ∧ initSafe "dsl" [initUniverse] = false ∧
    initSafe "dsl" [initReal] = true := by decide
example : (match initStmt false "dsl" initReal with | .ok b => b.line == 7 && b.pkgPath == [98] | _ => false) = true := by decide

-- non-vacuity of `source_load_total(_partial)`: imports, a non-function declaration, init, a group, a custom function
def fileOK : SrcFile := { imports := [⟨none, some dslPath⟩], decls := [.gen, .init [initReal], .group groupPlain, .custom] }
example : (match convertFileM latin1 env0 false 3 fileOK with
    | .ok out => out.bundles.length == 1 &&
        (match loadFile o1 genTags out.file with | .ok (.ok as) => as.length == 1 | _ => false)
    | _ => false) = true := by decide
example : initSafe "dsl" [initReal] = true ∧ groupPlain.acyclic = true ∧ groupPlain.importTyped = true := by decide

-- the walk: any receiver, links in any order, a repeated `Do` (the innermost wins), an unknown method
example : (match walk (emptyChain 1) (.call (.sel (.call (.sel (.call (.sel .other "Match") []) "Do") [(1, litS [97])]) "Do") []) with
    | .ok c => c.doArgs.isSome && (c.doArgs.getD []).length == 1 && c.matchArgs.isSome | _ => false) = true := by decide
example : (match walk (emptyChain 1) (.call (.sel (.call (.sel (.ident "m") "Match") []) "Foo") []) with
    | .err => true | _ => false) = true := by decide
example : (match walk (emptyChain 1) (.call (.sel (.call (.sel (.ident "m") "Match") []) "Match") []) with
    | .err => true | _ => false) = true := by decide

-- the connection theorems are not vacuous: the statements of `groupOK` through both loops; `m["x"]` and its shape
example : (match stmtLoopG "m" resolveCalls [] false groupOK.body with
    | .ok out => out.2 == [[some hPure], []] | _ => false) = true := by decide
example : MacroLit.groupLoop [] (groupOK.body.map (toMacroStmt "m")) = some [[some hPure], []] := by decide
example : ShapeL [mx] [.index (.ident "m") (.lit "STRING" "\"x\"")] :=
  .cons (.index _ (.ident _ _) (.lit _ _ _ _ _ rfl)) .nil

end groupExamples

end C06
