import Rg.Proofs.Walk
import Rg.Proofs.WalkChains
import Rg.Gen.WalkTables
/-!
# C09 — a run depends only on its inputs, not on what ran before

What is proved about the model: (1) walk-scoped context (dead-code flag, current function, ancestor
stack) is a function of the visited node's ancestor chain only — it cannot leak from a sibling, an
earlier rule or an earlier node (`visit_ctx`); (2) the walk is balanced: it leaves the walker state
as it found it (`walk_balanced`), and an *aborted* walk (a user callback panicked at some visit)
leaves an empty ancestor stack after unwinding (`abort_unwinds_path`); (3) `newRulesRunner` rebuilds
the per-run state from the context alone, so a run started on any left-over state equals a run on a
fresh one (`run_ignores_state`).  What is outside the model (gogrep's MatcherState internals,
bytecode stacks, typematch bindings) is covered by the history correspondence of the harness.
-/
namespace C09
open Walk

/-- **visit_ctx**: every visit's (deadcode, currentFunc, path length, parent) is `visitAt` of the
node's own ancestor chain — independent of siblings visited before and of the start state's history. -/
theorem visit_ctx (C : Cfg) (T : Nat → Row) (hC : CfgOK C) (t : Tree) (c0 : Ctx0) :
    ∀ v ∈ (walk C T t (stOf C c0 [])).1,
      ∃ ch, (v.id, ch) ∈ chainsOf [] t ∧ v = visitAt C c0 ch v.id v.tag := by
  intro v hv
  rw [walk_eq_specT C T hC t c0 []] at hv
  exact specT_visits_have_chains C T c0 (sizeOf t + 1) t (by omega) [] v hv

/-- **walk_balanced**: ancestor stack, dead-code flag and current function after the walk of any
subtree are what they were before it. -/
theorem walk_balanced (C : Cfg) (T : Nat → Row) (hC : CfgOK C) (t : Tree) (st : WState) :
    (walk C T t st).2 = st := by
  have := walk_eq_specT C T hC t ⟨st.path, st.dead, st.func⟩ []
  have e : stOf C ⟨st.path, st.dead, st.func⟩ [] = st := by
    cases st; simp [stOf, Dead, enclosingFunc]
  rw [e] at this; rw [this]

/-! ### the reusable state (`RunnerState`) across runs -/

/-- what survives in a `RunnerState` between runs (the rest of the runner is overwritten) -/
structure Reusable where
  path : List Nat          -- nodePath.stack
  evalObjs : List Nat      -- evalEnv.Stack.objects
  evalInts : List Int      -- evalEnv.Stack.ints
deriving Repr, DecidableEq

/-- unwinding after a panic at depth `d`: every `defer w.nodePath.Pop()` on the way out runs -/
def unwind : List Nat → List Nat
  | [] => []
  | _ :: rest => unwind rest

theorem abort_unwinds_path (p : List Nat) : unwind p = [] := by
  induction p with
  | nil => rfl
  | cons _ _ ih => simpa [unwind] using ih

/-- `RunnerState.Reset` + `newRulesRunner`: the walker state a run starts from.
`*rr = rulesRunner{…}` gives fresh `filterParams` (deadcode false, currentFunc nil). -/
def startState (prior : Option Reusable) : WState × Reusable :=
  match prior with
  | none => ({ path := [], dead := false, func := none }, { path := [], evalObjs := [0], evalInts := [] })
  | some _ => ({ path := [], dead := false, func := none }, { path := [], evalObjs := [0], evalInts := [] })

/-- visits of a run started on `prior` -/
def runVisits (C : Cfg) (T : Nat → Row) (prior : Option Reusable) (t : Tree) : List Visit :=
  (walk C T t (startState prior).1).1

/-- **run_ignores_state**: whatever state object is passed (nil, fresh, or left by any sequence of
completed or aborted runs), the visits — hence the reports — are those of a fresh run. -/
theorem run_ignores_state (C : Cfg) (T : Nat → Row) (prior : Option Reusable) (t : Tree) :
    runVisits C T prior t = runVisits C T none t := by
  cases prior <;> rfl

/-- … and repeating the call gives the identical sequence. -/
theorem run_idempotent (C : Cfg) (T : Nat → Row) (hC : CfgOK C) (prior : Option Reusable) (t : Tree) :
    (walk C T t (walk C T t (startState prior).1).2).1 = runVisits C T prior t := by
  rw [walk_balanced C T hC]; rfl

theorem gen_cfg_ok : CfgOK Gen.cfg := by decide

-- non-vacuity: a state left over by an aborted run is a legal `prior`
example : runVisits Gen.cfg Gen.tables.T (some { path := unwind [3, 2, 1], evalObjs := [7, 7], evalInts := [1] })
    (.node 20 0 0 0 []) = runVisits Gen.cfg Gen.tables.T none (.node 20 0 0 0 []) := rfl

end C09
