import Rg.Model.Filters
import Rg.Spec.C17
import Rg.Proofs.FiltersDispatch
import Rg.Proofs.FiltersQuiet
import Rg.Proofs.FiltersRun
/-!
# C17 — Where() connectives and comparisons form the expected algebra

Everything is stated about the model (`FIR.newFilter`, `FIR.evalFlt`, `FIR.runRule`) for every filter
expression, every match context and every list of matches.  `newFilter false` is the code as it
stands, `newFilter true` the code after `fixes/typesize-rhs-op-guard.diff`.
-/
namespace C17
open FIR SpecC17

/-- the rule whose filter is `f` reports the match `c` -/
def accepts (f : Flt) (c : Ctx) : Prop := evalFlt c f = .ok true
/-- the filter answers (does not panic) at `c` -/
def answers (f : Flt) (c : Ctx) : Prop := ∃ b, evalFlt c f = .ok b

/-! ## connectives -/

/-- `!F` is loaded as the negation of what `F` is loaded as (any operand, to any depth). -/
theorem not_loads (fx : Bool) (v : Val) (e : FE) (rest : List FE) :
    newFilter fx (.mk .not v (e :: rest)) = (do let x ← newFilter fx e; pure (Flt.not x)) := by
  simp [newFilter]

theorem and_loads (fx : Bool) (v : Val) (a b : FE) (rest : List FE) :
    newFilter fx (.mk .and v (a :: b :: rest)) =
      (do let l ← newFilter fx a; let r ← newFilter fx b; pure (Flt.and l r)) := by
  simp [newFilter]

theorem or_loads (fx : Bool) (v : Val) (a b : FE) (rest : List FE) :
    newFilter fx (.mk .or v (a :: b :: rest)) =
      (do let l ← newFilter fx a; let r ← newFilter fx b; pure (Flt.or l r)) := by
  simp [newFilter]

/-- `!F` accepts exactly the matches `F` rejects (at every match where `F` answers). -/
theorem not_complement (f : Flt) (c : Ctx) (h : answers f c) : accepts (.not f) c ↔ ¬ accepts f c := by
  obtain ⟨b, hb⟩ := h
  simp only [accepts, evalFlt_not, hb, notR]
  cases b <;> simp

/-- … and a panic of `F` is a panic of `!F`. -/
theorem not_panics (f : Flt) (c : Ctx) (p : Panic) (h : evalFlt c f = .panic p) :
    evalFlt c (.not f) = .panic p := by
  simp [evalFlt_not, h, notR]

/-- Report sets: the rule with `!F` reports exactly the matches the rule with `F` does not. -/
theorem not_reports (f : Flt) (ms : List Ctx) (h : ∀ c ∈ ms, answers f c) (j : Nat) (hj : j < ms.length) :
    j ∈ (runRule (.not f) ms).1 ↔ j ∉ (runRule f ms).1 := by
  have hn : ∀ c ∈ ms, ∃ b, evalFlt c (.not f) = .ok b := by
    intro c hc; obtain ⟨b, hb⟩ := h c hc; exact ⟨!b, by simp [evalFlt_not, hb, notR]⟩
  rw [mem_runRule hn, mem_runRule h]
  have := not_complement f ms[j] (h _ (List.getElem_mem hj))
  simp only [accepts] at this
  constructor
  · rintro ⟨_, he⟩ ⟨_, he'⟩; exact this.mp he he'
  · intro hne; exact ⟨hj, this.mpr (fun he => hne ⟨hj, he⟩)⟩

/-- `F && G` accepts exactly the matches both accept (no side condition: a panic on either side
that is reached is not an acceptance). -/
theorem and_inter (f g : Flt) (c : Ctx) : accepts (.and f g) c ↔ accepts f c ∧ accepts g c := by
  simp only [accepts, evalFlt_and, andR]
  cases evalFlt c f with
  | panic p => simp
  | ok b => cases b <;> simp

theorem and_reports (f g : Flt) (ms : List Ctx) (hf : ∀ c ∈ ms, answers f c) (hg : ∀ c ∈ ms, answers g c)
    (j : Nat) : j ∈ (runRule (.and f g) ms).1 ↔ j ∈ (runRule f ms).1 ∧ j ∈ (runRule g ms).1 := by
  have ha : ∀ c ∈ ms, ∃ b, evalFlt c (.and f g) = .ok b := by
    intro c hc; obtain ⟨b, hb⟩ := hf c hc; obtain ⟨b', hb'⟩ := hg c hc
    rw [evalFlt_and, hb, hb']; cases b <;> simp [andR]
  rw [mem_runRule ha, mem_runRule hf, mem_runRule hg]
  constructor
  · rintro ⟨hj, he⟩
    have := (and_inter f g ms[j]).mp he
    exact ⟨⟨hj, this.1⟩, ⟨hj, this.2⟩⟩
  · rintro ⟨⟨hj, h1⟩, ⟨_, h2⟩⟩
    exact ⟨hj, (and_inter f g ms[j]).mpr ⟨h1, h2⟩⟩

/-- `F || G` accepts the matches either accepts (where `F` answers; if `F` panics so does `F || G`). -/
theorem or_union (f g : Flt) (c : Ctx) (h : answers f c) : accepts (.or f g) c ↔ accepts f c ∨ accepts g c := by
  obtain ⟨b, hb⟩ := h
  simp only [accepts, evalFlt_or, hb, orR]
  cases b <;> simp

theorem or_reports (f g : Flt) (ms : List Ctx) (hf : ∀ c ∈ ms, answers f c) (hg : ∀ c ∈ ms, answers g c)
    (j : Nat) : j ∈ (runRule (.or f g) ms).1 ↔ j ∈ (runRule f ms).1 ∨ j ∈ (runRule g ms).1 := by
  have ho : ∀ c ∈ ms, ∃ b, evalFlt c (.or f g) = .ok b := by
    intro c hc; obtain ⟨b, hb⟩ := hf c hc; obtain ⟨b', hb'⟩ := hg c hc
    rw [evalFlt_or, hb, hb']; cases b <;> simp [orR]
  rw [mem_runRule ho, mem_runRule hf, mem_runRule hg]
  constructor
  · rintro ⟨hj, he⟩
    rcases (or_union f g ms[j] (hf _ (List.getElem_mem hj))).mp he with h1 | h2
    · exact .inl ⟨hj, h1⟩
    · exact .inr ⟨hj, h2⟩
  · rintro (⟨hj, h1⟩ | ⟨hj, h2⟩)
    · exact ⟨hj, (or_union f g ms[j] (hf _ (List.getElem_mem hj))).mpr (.inl h1)⟩
    · exact ⟨hj, (or_union f g ms[j] (hf _ (List.getElem_mem hj))).mpr (.inr h2)⟩

/-- Short circuit: when the left operand rejects, `&&` rejects whatever the right operand would do —
in particular when evaluating it would panic. -/
theorem and_short (l r : Flt) (c : Ctx) (h : evalFlt c l = .ok false) : evalFlt c (.and l r) = .ok false := by
  simp [evalFlt_and, h, andR]

theorem or_short (l r : Flt) (c : Ctx) (h : evalFlt c l = .ok true) : evalFlt c (.or l r) = .ok true := by
  simp [evalFlt_or, h, orR]

/-- … and when the left operand does not decide, the result is the right operand's, panic included. -/
theorem and_right (l r : Flt) (c : Ctx) (h : evalFlt c l = .ok true) : evalFlt c (.and l r) = evalFlt c r := by
  simp [evalFlt_and, h, andR]

theorem or_right (l r : Flt) (c : Ctx) (h : evalFlt c l = .ok false) : evalFlt c (.or l r) = evalFlt c r := by
  simp [evalFlt_or, h, orR]

/-- De Morgan, as equalities of verdicts (panics included, so also of report sets and of where a run aborts). -/
theorem de_morgan_and (a b : Flt) (c : Ctx) :
    evalFlt c (.not (.and a b)) = evalFlt c (.or (.not a) (.not b)) := by
  simp only [evalFlt_not, evalFlt_and, evalFlt_or]
  cases evalFlt c a with
  | panic p => rfl
  | ok x => cases x <;> simp [notR, andR, orR]

theorem de_morgan_or (a b : Flt) (c : Ctx) :
    evalFlt c (.not (.or a b)) = evalFlt c (.and (.not a) (.not b)) := by
  simp only [evalFlt_not, evalFlt_and, evalFlt_or]
  cases evalFlt c a with
  | panic p => rfl
  | ok x => cases x <;> simp [notR, andR, orR]

/-! ## comparisons -/

/-- the Go operator an IR comparison op stands for, on integers / on strings (byte-wise order) -/
def goInt : Op → Int → Int → Prop
  | .eq, a, b => a = b | .neq, a, b => a ≠ b | .lt, a, b => a < b
  | .ltEq, a, b => a ≤ b | .gt, a, b => a > b | .gtEq, a, b => a ≥ b
  | _, _, _ => False

def goStr : Op → Bytes → Bytes → Prop
  | .eq, a, b => a = b | .neq, a, b => a ≠ b | .lt, a, b => a < b
  | .ltEq, a, b => a ≤ b | .gt, a, b => a > b | .gtEq, a, b => a ≥ b
  | _, _, _ => False

theorem cmpInt_go {op : Op} {t : Tok} (ht : tokOf op = some t) (a b : Int) : cmpInt t a b = true ↔ goInt op a b := by
  cases op <;> simp [tokOf] at ht <;> subst ht <;> simp [cmpInt, goInt]

theorem cmpStr_go {op : Op} {t : Tok} (ht : tokOf op = some t) (a b : Bytes) : cmpStr t a b = true ↔ goStr op a b := by
  cases op <;> simp [tokOf] at ht <;> subst ht <;>
    simp [cmpStr, goStr, bytesLt_eq_decide, List.not_lt]

/-- `m[x].Line OP k` (k an integer literal) accepts iff `line(x) OP k` with Go's `OP`; the same op
table serves the other three value kinds. -/
theorem cmp_is_go_op_line (fx : Bool) (op : Op) (hop : op.isCmp = true) (c : Ctx) (x : Bytes) (k l : Int)
    (v : Val) (as bs : List FE) (hl : posLine c x = .ok l) :
    ∃ f, newFilter fx (.mk op v [.mk .varLine (.str x) as, .mk .int (.int k) bs]) = .ok f ∧
      (accepts f c ↔ goInt op l k) ∧ answers f c := by
  obtain ⟨t, ht⟩ := isCmp_tokOf hop
  refine ⟨.lineConst x t (.int k), ?_, ?_, ?_⟩
  · cases op <;> simp_all [newFilter, newCmp, swaps, newCmpCore, rhsValueOf, FE.op, FE.val, Op.isBasicLit, valString, Op.isCmp]
  · simp [accepts, evalFlt, hl, constCompare, cmpInt_go ht]
  · exact ⟨constCompare (.int l) t (.int k), by simp [evalFlt, hl]⟩

theorem cmp_is_go_op_text (fx : Bool) (op : Op) (hop : op.isCmp = true) (c : Ctx) (x : Bytes) (k s : Bytes)
    (v : Val) (as bs : List FE) (hl : nodeText c x = .ok s) :
    ∃ f, newFilter fx (.mk op v [.mk .varText (.str x) as, .mk .string (.str k) bs]) = .ok f ∧
      (accepts f c ↔ goStr op s k) ∧ answers f c := by
  obtain ⟨t, ht⟩ := isCmp_tokOf hop
  refine ⟨.textConst x t (.str k), ?_, ?_, ?_⟩
  · cases op <;> simp_all [newFilter, newCmp, swaps, newCmpCore, rhsValueOf, FE.op, FE.val, Op.isBasicLit, valString, Op.isCmp]
  · simp [accepts, evalFlt, hl, constCompare, cmpStr_go ht]
  · exact ⟨constCompare (.str s) t (.str k), by simp [evalFlt, hl]⟩

theorem cmp_is_go_op_size (fx : Bool) (op : Op) (hop : op.isCmp = true) (c : Ctx) (x : Bytes) (k s : Int)
    (v : Val) (as bs : List FE) (ln : Int) (tx : Bytes) (e : EF)
    (hl : c.lookup x = some (.node ln tx (some e))) (htp : e.tparam = false) (hs : e.size = some s) :
    ∃ f, newFilter fx (.mk op v [.mk .varTypeSize (.str x) as, .mk .int (.int k) bs]) = .ok f ∧
      (accepts f c ↔ goInt op s k) ∧ answers f c := by
  obtain ⟨t, ht⟩ := isCmp_tokOf hop
  refine ⟨.sizeConst x t (.int k), ?_, ?_, ?_⟩
  · cases op <;> simp_all [newFilter, newCmp, swaps, newCmpCore, rhsValueOf, FE.op, FE.val, Op.isBasicLit, valString, Op.isCmp]
  · simp [accepts, evalFlt, hl, subExprFacts, htp, sizeOfEF, hs, constCompare, cmpInt_go ht]
  · exact ⟨constCompare (.int s) t (.int k), by simp [evalFlt, hl, subExprFacts, htp, sizeOfEF, hs]⟩

theorem cmp_is_go_op_int (fx : Bool) (op : Op) (hop : op.isCmp = true) (c : Ctx) (x : Bytes) (k i : Int)
    (v : Val) (as bs : List FE) (ln : Int) (tx : Bytes) (e : EF)
    (hl : c.lookup x = some (.node ln tx (some e))) (hi : e.ival = some i) :
    ∃ f, newFilter fx (.mk op v [.mk .varValueInt (.str x) as, .mk .int (.int k) bs]) = .ok f ∧
      (accepts f c ↔ goInt op i k) ∧ answers f c := by
  obtain ⟨t, ht⟩ := isCmp_tokOf hop
  refine ⟨.intConst x t (.int k), ?_, ?_, ?_⟩
  · cases op <;> simp_all [newFilter, newCmp, swaps, newCmpCore, rhsValueOf, FE.op, FE.val, Op.isBasicLit, valString, Op.isCmp]
  · simp [accepts, evalFlt, hl, subExprFacts, hi, constCompare, cmpInt_go ht]
  · exact ⟨constCompare (.int i) t (.int k), by simp [evalFlt, hl, subExprFacts, hi]⟩

/-- `k == x` / `k != x` load as exactly the same filter as `x == k` / `x != k`, for every
well-formed literal `k` and every non-literal `x` (so the report sets coincide). -/
theorem eq_swap (fx : Bool) (op : Op) (hop : op = .eq ∨ op = .neq) (v v' : Val) (k x : FE)
    (hk : k.op.isBasicLit = true) (hv : k.val.isStrOrInt = true) (hx : x.op.isBasicLit = false) :
    newFilter fx (.mk op v [k, x]) = newFilter fx (.mk op v' [x, k]) := by
  have h1 : swaps op k x = true := by rcases hop with rfl | rfl <;> simp [swaps, hk, hv, hx]
  have h2 : swaps op x k = false := by simp [swaps, hx]
  rcases hop with rfl | rfl <;> simp [newFilter, Op.isCmp, newCmp, h1, h2]

/-- a swapped comparison is not swapped back: the recursion of `newBinaryExprFilter` ends after one step -/
theorem swap_once (op : Op) (a b : FE) (h : swaps op a b = true) : swaps op b a = false := swaps_swapped h

/-- `x < k` agrees with `!(x >= k)` (and likewise for the other five operators and their negations)
for Text on every capture and for Line whenever the line is known (a capture with a position) … -/
theorem lt_not_ge_line (c : Ctx) (x : Bytes) (t : Tok) (k : CV) (l : Int) (hl : posLine c x = .ok (some l)) :
    evalFlt c (.lineConst x t k) = evalFlt c (.not (.lineConst x t.neg k)) := by
  simp [evalFlt, hl, constCompare_neg (.int l) t k]

theorem lt_not_ge_text (c : Ctx) (x : Bytes) (t : Tok) (k : CV) :
    evalFlt c (.textConst x t k) = evalFlt c (.not (.textConst x t.neg k)) := by
  simp only [evalFlt]
  cases nodeText c x with
  | panic p => rfl
  | ok s => simp [constCompare_neg (.str s) t k]

/-- … and for Type.Size / Value.Int() whenever the value is known (a single expression that is not of
type-parameter type, resp. has a constant integer value). -/
theorem lt_not_ge_size (c : Ctx) (x : Bytes) (t : Tok) (k : CV) (ln : Int) (tx : Bytes) (e : EF) (s : Int)
    (hl : c.lookup x = some (.node ln tx (some e))) (htp : e.tparam = false) (hs : e.size = some s) :
    evalFlt c (.sizeConst x t k) = evalFlt c (.not (.sizeConst x t.neg k)) := by
  simp [evalFlt, hl, subExprFacts, htp, hs, constCompare_neg (.int s) t k]

theorem lt_not_ge_int (c : Ctx) (x : Bytes) (t : Tok) (k : CV) (ln : Int) (tx : Bytes) (e : EF) (i : Int)
    (hl : c.lookup x = some (.node ln tx (some e))) (hi : e.ival = some i) :
    evalFlt c (.intConst x t k) = evalFlt c (.not (.intConst x t.neg k)) := by
  simp [evalFlt, hl, subExprFacts, hi, constCompare_neg (.int i) t k]

/-- An unknown value rejects every comparison: `Value.Int()` of a non-constant, `Type.Size` of a
type parameter (so `x < k` and `!(x >= k)` differ there: see the examples below). -/
theorem unknown_rejects_int (c : Ctx) (x : Bytes) (t : Tok) (k : CV)
    (hn : ∀ l tx es, c.lookup x ≠ some (.list l tx es)) (hu : (subExprFacts c x).ival = none) :
    evalFlt c (.intConst x t k) = .ok false := by
  simp only [evalFlt]
  cases hlk : c.lookup x with
  | none => simp [hu]
  | some cap =>
    cases cap with
    | node l tx e => simp [hu]
    | list l tx es => exact absurd hlk (hn l tx es)

theorem unknown_rejects_int_var (c : Ctx) (x y : Bytes) (t : Tok)
    (hu : (subExprFacts c x).ival = none ∨ (subExprFacts c y).ival = none) :
    evalFlt c (.int x t y) = .ok false := by
  simp only [evalFlt]
  rcases hu with h | h
  · simp [h]
  · cases (subExprFacts c x).ival <;> simp [h]

theorem unknown_rejects_size (c : Ctx) (x : Bytes) (t : Tok) (k : CV)
    (hn : ∀ l tx es, c.lookup x ≠ some (.list l tx es)) (hu : (subExprFacts c x).tparam = true) :
    evalFlt c (.sizeConst x t k) = .ok false := by
  simp only [evalFlt]
  cases hlk : c.lookup x with
  | none => simp [hu]
  | some cap =>
    cases cap with
    | node l tx e => simp [hu]
    | list l tx es => exact absurd hlk (hn l tx es)

theorem unknown_rejects_size_var (c : Ctx) (x y : Bytes) (t : Tok)
    (hu : (subExprFacts c x).tparam = true ∨ (subExprFacts c y).tparam = true) :
    evalFlt c (.size x t y) = .ok false := by
  simp only [evalFlt]
  rcases hu with h | h <;> simp [h]

/-! ## the dispatch as a whole -/

/-- After the repair: whenever a filter expression loads, what it answers at a match is what the
expression denotes there (`SpecC17.sem`: complement / short-circuit conjunction and disjunction / the Go
operator on the underlying values, literal side irrelevant, unknown values rejecting). -/
theorem binary_dispatch_sound (c : Ctx) (e : FE) (f : Flt) (r : Res Bool)
    (hl : newFilter true e = .ok f) (hs : sem c e = some r) : evalFlt c f = r :=
  dispatch_sound c e f r hl hs

/-- The code as it stands: the same, provided every `Type.Size` on the left of a comparison faces a
literal or another `Type.Size` (`sizeGuarded`).
Full statement (false, see the counterexample below):
`newFilter false e = .ok f → sem c e = some r → evalFlt c f = r`. -/
theorem binary_dispatch_sound_partial (c : Ctx) (e : FE) (f : Flt) (r : Res Bool) (hg : sizeGuarded e = true)
    (hl : newFilter false e = .ok f) (hs : sem c e = some r) : evalFlt c f = r := by
  rw [newFilter_asis_eq e hg] at hl
  exact dispatch_sound c e f r hl hs

/-- The model meets the executable statement the driver evaluates on the implementation's verdicts,
at every calm match (no empty `$*xs` capture, `Sizeof` answers for every captured expression).
Full statement (false for both variants, see the counterexamples below): without `calm`. -/
theorem model_meets_spec_partial (c : Ctx) (e : FE) (f : Flt) (hc : calm c = true)
    (hl : newFilter true e = .ok f) : specHolds c e (evalFlt c f) = true := by
  unfold specHolds judge
  cases hs : sem c e with
  | some want => simp [dispatch_sound c e f want hl hs]
  | none =>
    by_cases hq : quiet c e = true
    · obtain ⟨b, hb⟩ := quiet_ok c true hc e f hl hq
      simp [hq, hb, Res.isOk]
    · simp [hq]

theorem model_meets_spec_asis_partial (c : Ctx) (e : FE) (f : Flt) (hc : calm c = true)
    (hg : sizeGuarded e = true) (hl : newFilter false e = .ok f) : specHolds c e (evalFlt c f) = true := by
  rw [newFilter_asis_eq e hg] at hl
  exact model_meets_spec_partial c e f hc hl

/-! ## non-vacuity and kernel-checked counterexamples -/

def vx : Bytes := [120]
def vy : Bytes := [121]
def vys : Bytes := [121, 115]

/-- a match of `probe($x, $y)`: x = `gi` (int, line 3), y = `7` (constant, line 4);
predicate 0 accepts, 1 rejects, 2 panics -/
def ctx1 : Ctx :=
  { atoms := [.ok true, .ok false, .panic .nilDeref],
    vars := [(vx, .node 3 [103, 105] (some ⟨false, some 8, none⟩)), (vy, .node 4 [55] (some ⟨false, some 8, some 7⟩))],
    invSize := 8 }

/-- a match inside a generic function: x has type-parameter type; ys is an empty `$*ys` -/
def ctx2 : Ctx :=
  { atoms := [.ok true],
    vars := [(vx, .node 9 [116] (some ⟨true, some 0, none⟩)), (vys, .list 0 [] [])],
    invSize := 8 }

/-- x = `nil` (untyped nil: `Sizeof` panics) -/
def ctx3 : Ctx :=
  { atoms := [], vars := [(vx, .node 5 [110, 105, 108] (some ⟨false, none, none⟩))], invSize := 8 }

def P (k : Nat) : FE := .mk (.pred k true) .none []
def line (v : Bytes) : FE := .mk .varLine (.str v) []
def size (v : Bytes) : FE := .mk .varTypeSize (.str v) []
def ival (v : Bytes) : FE := .mk .varValueInt (.str v) []
def lit (i : Int) : FE := .mk .int (.int i) []

-- the hypotheses of the theorems are met
example : answers (.atom 0) ctx1 ∧ ¬ accepts (.not (.atom 0)) ctx1 := ⟨⟨true, rfl⟩, by unfold accepts; decide⟩
example : calm ctx1 = true := by decide
example : posLine ctx1 vx = .ok (some 3) := by decide
example : sizeGuarded (.mk .and .none [P 0, .mk .lt .none [size vx, lit 9]]) = true := by decide
example : ∃ f r, newFilter true (.mk .and .none [P 0, .mk .lt .none [size vx, lit 9]]) = .ok f ∧
    sem ctx1 (.mk .and .none [P 0, .mk .lt .none [size vx, lit 9]]) = some r := ⟨_, _, rfl, rfl⟩
-- short circuit with a right operand that panics when evaluated
example : evalFlt ctx1 (.atom 2) = .panic .nilDeref ∧ evalFlt ctx1 (.and (.atom 1) (.atom 2)) = .ok false ∧
    evalFlt ctx1 (.or (.atom 0) (.atom 2)) = .ok true ∧ evalFlt ctx1 (.and (.atom 0) (.atom 2)) = .panic .nilDeref := by
  decide
-- literal on either side
example : newFilter false (.mk .eq .none [lit 3, line vx]) = .ok (.lineConst vx .eql (.int 3)) ∧
    newFilter false (.mk .eq .none [line vx, lit 3]) = .ok (.lineConst vx .eql (.int 3)) ∧
    newFilter false (.mk .lt .none [lit 3, line vx]) = .err .unsupportedBinary := by decide
-- unknown values: `x < 9` rejects and `!(x >= 9)` accepts
example : evalFlt ctx2 (.sizeConst vx .lss (.int 9)) = .ok false ∧
    evalFlt ctx2 (.not (.sizeConst vx .geq (.int 9))) = .ok true := by decide
example : evalFlt ctx1 (.intConst vx .lss (.int 9)) = .ok false ∧
    evalFlt ctx1 (.not (.intConst vx .geq (.int 9))) = .ok true := by decide
-- … and on an empty `$*ys` both `ys.Size < 9` and `ys.Size >= 9` accept
example : evalFlt ctx2 (.sizeConst vys .lss (.int 9)) = .ok true ∧
    evalFlt ctx2 (.sizeConst vys .geq (.int 9)) = .ok true := by decide

-- D17: the code as it stands loads `x.Type.Size == x.Line` and compares two sizes …
example : newFilter false (.mk .eq .none [size vx, line vx]) = .ok (.size vx .eql vx) := by decide
example : sizeGuarded (.mk .eq .none [size vx, line vx]) = false := by decide
-- … so it accepts a match where the size is 8 and the line 3, against what the expression denotes
example : evalFlt ctx1 (.size vx .eql vx) = .ok true ∧
    sem ctx1 (.mk .eq .none [size vx, line vx]) = some (.ok false) := by decide
example : specHolds ctx1 (.mk .eq .none [size vx, line vx]) (evalFlt ctx1 (.size vx .eql vx)) = false := by decide
-- the repaired loader refuses it
example : newFilter true (.mk .eq .none [size vx, line vx]) = .err .unsupportedBinary := by decide

-- `Line` of an empty `$*ys` capture is unknown: the filter rejects (the pinned code panicked in NodeSlice.Pos)
example : calm ctx2 = false := by decide
example : evalFlt ctx2 (.lineConst vys .gtr (.int 0)) = .ok false := by decide
-- `Type.Size` of an expression of untyped nil type is unknown: the filter rejects (the pinned code panicked
-- inside `Sizes.Sizeof`)
example : calm ctx3 = false := by decide
example : evalFlt ctx3 (.sizeConst vx .eql (.int 8)) = .ok false := by decide

end C17
