import Rg.Model.IR
import Rg.Model.IRPrint
import Rg.Spec.C05
import Rg.Proofs.IRCanon
import Rg.Proofs.IRAsIs
import Rg.Props.C05Load
/-!
# C05 — precompiled IR rules behave exactly like the source rules (IR half)

"Printing an IR value and evaluating the printed composite literal gives back an equal IR value."

* `roundtrip`          — for the printer after `fixes/irprint-roundtrip.diff` (`printFile`): every IR value of the
                         schema (`wfFile`) prints without panic and the tokens evaluate to `normalize f`.
* `roundtrip_partial`  — for the printer as it is (`printFile_asis`): the same, provided no slice holds a
                         zero-valued element and there are no bundle imports.  Both hypotheses are necessary
                         (kernel-checked counterexamples below: D13 and the dropped zero elements).
* `opName_injective`   — instance obligation on the regenerated op-name table.
* `model_meets_spec…`  — the models satisfy the executable statement the driver evaluates on the
                         implementation's tokens.

The loader half — the round trip composed with the loader model of C06 and the converter model of C18/C06:
`load_respects_normalize`, `precompiled_load_eq_ir_load`, `precompiled_eq_source_load`, … — is in
`Rg/Props/C05Load.lean` (same namespace).  Equal *reports* of `Load` and `LoadFromIR` engines (the run-time
half) are established differentially by the harness (suite `e2e`).
-/
namespace C05
open IR SpecC05 IRProofs

/-! ## the op-name table -/

theorem nodup_snd_inj {α β} : ∀ (l : List (α × β)), (l.map (·.2)).Nodup → ∀ a b n, (a, n) ∈ l → (b, n) ∈ l → a = b
  | [], _, _, _, _, h, _ => by simp at h
  | (x, m) :: l, hnd, a, b, n, ha, hb => by
    have hn := List.nodup_cons.mp hnd
    simp only [List.mem_cons, Prod.mk.injEq] at ha hb
    have notin : ∀ c, (c, m) ∈ l → False := fun c hc => hn.1 (List.mem_map.mpr ⟨(c, m), hc, rfl⟩)
    rcases ha with ⟨rfl, rfl⟩ | ha <;> rcases hb with ⟨rfl, hb'⟩ | hb
    · rfl
    · exact absurd hb (fun h => notin _ h)
    · subst hb'; exact absurd ha (fun h => notin _ h)
    · exact nodup_snd_inj l hn.2 a b n ha hb

/-- Two numbers of the table with the same name are the same number (so `ir.Filter<name>Op`
denotes one constant). -/
theorem opName_injective (a b : Nat) (ha : (Gen.irOpNames.lookup a).isSome = true)
    (hb : (Gen.irOpNames.lookup b).isSome = true) (h : opName a = opName b) : a = b := by
  obtain ⟨na, hna⟩ := Option.isSome_iff_exists.mp ha
  obtain ⟨nb, hnb⟩ := Option.isSome_iff_exists.mp hb
  unfold opName at h
  rw [hna, hnb] at h
  have : na = nb := by simpa using h
  subst this
  exact nodup_snd_inj _ opNames_nodup a b na (lookup_mem a na _ hna) (lookup_mem b na _ hnb)

/-- The identifier the printer writes for an op of the table evaluates back to that op. -/
theorem opIdent_evaluates (o : Nat) (h : (Gen.irOpNames.lookup o).isSome = true) :
    opOfIdent (opIdent o) = some o := asOp_opIdent o h

/-! ## round trip -/

/-- **Round trip (printer after the fix).**  For every IR value of the schema, `irprint` does not
panic and the printed literal evaluates to the value, nil and empty slices identified. -/
theorem roundtrip (f : File) (h : wfFile f = true) :
    ∃ ts, printFile f = .ok ts ∧ evalLit ts = some (normalize f) :=
  roundtrip_fixed f h

/-  Full statement for the printer as it is — FALSE (see the counterexamples at the end):
      theorem roundtrip_asis (f : File) (h : wfFile f = true) :
        ∃ ts, printFile_asis f = .ok ts ∧ evalLit ts = some (normalize f)
-/
/-- **Round trip (printer as it is), partial**: needs "no zero-valued slice element" and "no bundle imports". -/
theorem roundtrip_partial (f : File) (h : wfFile f = true) (hz : noZeroElemsFile f = true)
    (hb : f.bundleImports.elems = []) :
    ∃ ts, printFile_asis f = .ok ts ∧ evalLit ts = some (normalize f) := by
  rw [printFile_asis_eq f hz hb]
  exact roundtrip_fixed f h

/-- The fixed model satisfies the executable statement that the search evaluates on the implementation. -/
theorem model_meets_spec (f : File) (h : wfFile f = true) : specHolds f (printFile f) = true := by
  obtain ⟨ts, hp, he⟩ := roundtrip f h
  rw [hp]
  simp [specHolds, he]

theorem model_meets_spec_partial (f : File) (h : wfFile f = true) (hz : noZeroElemsFile f = true)
    (hb : f.bundleImports.elems = []) : specHolds f (printFile_asis f) = true := by
  obtain ⟨ts, hp, he⟩ := roundtrip_partial f h hz hb
  rw [hp]
  simp [specHolds, he]

/-- On values the two printers agree on, the fix changes nothing. -/
theorem fix_conservative (f : File) (hz : noZeroElemsFile f = true) (hb : f.bundleImports.elems = []) :
    printFile_asis f = printFile f := printFile_asis_eq f hz hb

/-! ## non-vacuity and counterexamples (kernel-checked) -/

def bytes (s : String) : Bytes := s.toUTF8.toList

def noSl {α} : Sl α := ⟨[], false⟩

/-- `m.Match("$x").Where(m["x"].Text == "a" && m["x"].Line > -3).Report("r")`, with empty doc tags and an import -/
def sampleWhere : FilterExpr :=
  .mk 5 2 [119] .nil
    [.mk 5 4 [] .nil [.mk 5 opVarText [] (.str [120]) [] false, .mk 0 opString [] (.str [97]) [] false] false,
     .mk 5 6 [] .nil [.mk 5 16 [] (.str [120]) [] false, .mk 0 47 [] (.int64 (-3)) [] true] false] false

def sampleRule : Rule := ⟨4, ⟨[⟨4, [36, 120]⟩], false⟩, noSl, [114], [], [], sampleWhere, []⟩

def sampleGroup : RuleGroup := ⟨3, [103], [109], ⟨[], true⟩, [], [], [], [], ⟨[⟨[105, 111], [105, 111]⟩], false⟩, ⟨[sampleRule], false⟩⟩

def sample : File := ⟨[103], ⟨[sampleGroup], false⟩, ⟨[[1, 2]], false⟩, ⟨[], true⟩⟩

example : wfFile sample = true ∧ noZeroElemsFile sample = true ∧ sample.bundleImports.elems = [] := by decide
set_option maxRecDepth 1000000 in
example : specHolds sample (printFile_asis sample) = true := by decide
example : normalize sample ≠ sample := by decide   -- the nil/empty identification is not vacuous here

/-- D13: one bundle import -/
def cexBundle : File := ⟨[103], noSl, noSl, ⟨[⟨3, [97, 47, 98], [112]⟩], false⟩⟩

example : wfFile cexBundle = true ∧ noZeroElemsFile cexBundle = true := by decide
example : specHolds cexBundle (printFile_asis cexBundle) = false := by decide
example : (match printFile_asis cexBundle with | .ok ts => evalLit ts | .panic _ => none) = none := by decide
example : specHolds cexBundle (printFile cexBundle) = true := by decide

/-- a zero-valued slice element: `DocTags: []string{"a", ""}` -/
def cexZero : File :=
  ⟨[103], ⟨[⟨1, [], [], ⟨[[97], []], false⟩, [], [], [], [], noSl, noSl⟩], false⟩, noSl, noSl⟩

example : wfFile cexZero = true ∧ cexZero.bundleImports.elems = [] ∧ noZeroElemsFile cexZero = false := by decide
example : specHolds cexZero (printFile_asis cexZero) = false := by decide
example : specHolds cexZero (printFile cexZero) = true := by decide

/-- outside the schema (`wfFile` false): a one-line op whose `Value` is not a string panics in both
variants (`v.Value.(string)`), which is why `wfFile` is a hypothesis of `roundtrip`. -/
def cexAssert : File :=
  ⟨[], ⟨[⟨1, [], [], noSl, [], [], [], [], noSl,
    ⟨[⟨1, noSl, noSl, [], [], [], .mk 0 opString [] .nil [] false, []⟩], false⟩⟩], false⟩, noSl, noSl⟩

example : wfFile cexAssert = false := by decide
example : printFile_asis cexAssert = .panic .typeAssert ∧ printFile cexAssert = .panic .typeAssert := by decide

end C05
