import Rg.Proofs.Sink
import Rg.Proofs.SinkFixed
/-!
# C02 — `m["$$"].SinkType.Is(T)`: the code's sink type is the type the context expects

* model: `Sink.findSink` / `Sink.sinkTypeIs` (`Rg/Model/Sink.lean`), a line-by-line transcription of
  `filters.go: makeRootSinkTypeIsFilter, findSinkRoot, findContainingFunc, findSinkType` over an abstract ancestor chain;
* definition: `SpecSink.specSink` (`Rg/Spec/Sink.lean`), the type the innermost context of the expression expects by the
  assignability rules of the Go specification, and the same as a relation, `SpecSink.Expects`;
* contract of the facts: `SpecSink.wf` (what go/parser and go/types guarantee; asserted by the harness on every site);
* `SpecSink.gap`: the syntactic classes of contexts where the code as it stands does **not** compute the sink type —
  each with a kernel-checked counterexample below and a witness of the real engine in `known_findings.json`.
-/
namespace C02
open Sink SpecSink SinkProofs

/-- FULL STATEMENT (false of the code as it stands, see the counterexamples): for every well-formed ancestor chain
`∃ t, findSink c = .ok t ∧ tyId t = specSink c`.

PARTIAL: it holds for every chain outside the eight listed gaps (`SpecSink.gap c = none`): the match is not itself a
parenthesised expression, is a value operand (not a declared name, a type expression, an index key or a field name), the
context is not a send statement, not a `{…}` standing for `&T{…}`, not an unkeyed map element, the operand counts of a
call / return agree with the signature, and a callee that is no signature is a type. -/
theorem sink_eq_spec_partial (c : Ctx) (hwf : wf c = true) (hgap : gap c = none) :
    ∃ t, findSink c = .ok t ∧ tyId t = specSink c := by
  unfold gap at hgap
  cases hp : c.matchIsParen with
  | true => simp [hp] at hgap
  | false =>
    simp [hp] at hgap
    rw [findSink_eq_sinkAt]
    exact agrees c _ rfl hp (wfFrames_context hwf) hgap

/-- no panic: under the facts contract neither the `.(ast.Expr)` assertion of `findSinkRoot`, nor `Underlying()` on a nil
type, nor `Results().At(i)`, `Lhs[i]`, `Params().At(Len()-1)`, nor the `.(*types.Slice)` assertion of the variadic case
fails — for every match (parenthesised or not) and every context (inside or outside the gaps) -/
theorem sink_total (c : Ctx) (hwf : wf c = true) : ∃ t, findSink c = .ok t := by
  rw [findSink_eq_sinkAt]
  exact sinkAt_total c _ rfl (wfFrames_context hwf)

/-- the filter itself (`makeRootSinkTypeIsFilter`, the op `c02sinkis` of the driver) against the executable statement the
driver evaluates on the engine's verdicts (`c02sinkspecis`) -/
theorem sinkTypeIs_eq_spec_partial (c : Ctx) (isT : Nat → Bool) (hwf : wf c = true) (hgap : gap c = none) :
    sinkTypeIs c isT = .ok (specSinkTypeIs c isT) := by
  obtain ⟨t, h1, h2⟩ := sink_eq_spec_partial c hwf hgap
  unfold sinkTypeIs specSinkTypeIs
  cases c.matchIsExpr with
  | false => simp
  | true =>
    simp only [h1, ← h2, Bool.true_and, if_true]
    cases t <;> simp [tyId]

theorem sinkTypeIs_total (c : Ctx) (isT : Nat → Bool) (hwf : wf c = true) : ∃ b, sinkTypeIs c isT = .ok b := by
  obtain ⟨t, h⟩ := sink_total c hwf
  unfold sinkTypeIs
  cases c.matchIsExpr with
  | false => exact ⟨false, by simp⟩
  | true => cases t <;> simp [h]

/-- the executable definition is the relation: one rule per assignability context of the Go specification -/
theorem sink_spec_iff_expects (c : Ctx) (n : Nat) : specSink c = some n ↔ Expects c.frames n :=
  (expects_iff c.frames n).symm

/-- parentheses around the match do not change its sink type -/
theorem sink_spec_paren (c : Ctx) : specSink { c with frames := .paren :: c.frames } = specSink c := rfl

/-- the sink type is unique -/
theorem expects_unique (fs : List Frame) (n m : Nat) (h1 : Expects fs n) (h2 : Expects fs m) : n = m := by
  have a := (expects_iff fs n).mp h1
  have b := (expects_iff fs m).mp h2
  rw [a] at b
  exact Option.some.inj b

/-- where the code finds no sink although there is one (the operand of a send statement, the elements of a literal whose
`&T` is elided): `SinkType.Is(T)` is false for every `T` there — false negatives only -/
theorem sink_gap_false_negative (c : Ctx) (isT : Nat → Bool) (hwf : wf c = true) (hp : c.matchIsParen = false)
    (hg : gap c = some .send ∨ gap c = some .elidedPointer) : sinkTypeIs c isT = .ok false := by
  have hctx : gapAt (context c.frames) = some .send ∨ gapAt (context c.frames) = some .elidedPointer := by
    simpa [gap, hp] using hg
  have hwf' := wfFrames_context hwf
  unfold sinkTypeIs
  rw [findSink_eq_sinkAt]
  generalize context c.frames = fs at hctx hwf'
  have key : sinkAt c fs = .ok .invalid := by
    unfold sinkAt
    cases fs with
    | nil => simp [gapAt] at hctx
    | cons f up =>
      cases f with
      | send v ct u => simp [findSinkRoot, findSinkType]
      | composite slot n lt u el =>
        simp only [wfFrames, frameOk, Bool.and_eq_true, bne_iff_ne, ne_eq] at hwf'
        cases slot <;> cases u <;> cases el <;> simp [gapAt] at hctx <;>
          simp [findSinkRoot, findSinkType, hwf'.1.1.1]
      | keyValue k id =>
        cases up with
        | nil => simp [gapAt] at hctx
        | cons g up =>
          cases g <;> simp [gapAt] at hctx
          rename_i slot n lt u el
          simp only [wfFrames, frameOk, Bool.and_eq_true, bne_iff_ne, ne_eq] at hwf'
          cases slot <;> cases u <;> cases el <;> cases k <;> simp at hctx <;>
            simp [findSinkRoot, Frame.isExpr, findSinkType, hwf'.2.1.1.1]
      | valueSpec slot dt => cases dt <;> cases slot <;> simp [gapAt] at hctx
      | ret b a =>
        simp only [gapAt] at hctx
        repeat' (first | (simp at hctx; done) | split at hctx)
      | call slot n fn ell =>
        cases fn with
        | sig s => cases slot <;> simp [gapAt] at hctx
        | notSig t isType => cases slot <;> cases isType <;> simp [gapAt] at hctx
      | _ => simp [gapAt] at hctx
  cases c.matchIsExpr <;> simp [key]

/-! ## The repaired code (`fixes/c02-sink-contexts.diff`, model `Sink.findSinkR`): full strength -/

/-- for every match (parenthesised or not) and every ancestor chain that satisfies the facts contract, the repaired
`findSinkRoot` + `findSinkType` answer the type the context expects, or no type where it expects none — and do not panic -/
theorem sink_eq_spec (c : Ctx) (hwf : wf c = true) : ∃ t, findSinkR c = .ok t ∧ tyId t = specSink c := by
  rw [findSinkR_eq_sinkAtR]
  exact agreesR c _ rfl (wfFrames_context hwf)

/-- the repaired filter against the executable statement -/
theorem sinkTypeIs_eq_spec (c : Ctx) (isT : Nat → Bool) (hwf : wf c = true) :
    sinkTypeIsR c isT = .ok (specSinkTypeIs c isT) := by
  obtain ⟨t, h1, h2⟩ := sink_eq_spec c hwf
  unfold sinkTypeIsR specSinkTypeIs
  cases c.matchIsExpr with
  | false => simp
  | true =>
    simp only [h1, ← h2, Bool.true_and, if_true]
    cases t <;> simp [tyId]

/-- the repair changes no verdict outside the gaps -/
theorem sink_repair_conservative (c : Ctx) (isT : Nat → Bool) (hwf : wf c = true) (hgap : gap c = none) :
    sinkTypeIsR c isT = sinkTypeIs c isT := by
  rw [sinkTypeIs_eq_spec c isT hwf, sinkTypeIs_eq_spec_partial c isT hwf hgap]

/-! ## Non-vacuity: one site per context of the definition (type ids: 0 int, 1 string, 2 int8, 3 []string, 4 interface{}, 5 uint8, 6 int16) -/

def fdecl (results : List Ty) : Frame := .funcDecl (some ⟨[], false, results⟩)
/-- the frames above a statement of a function body: block, declaration, file -/
def body (results : List Ty) : List Frame := [.other false, fdecl results, .other false]
def ok (c : Ctx) (n : Nat) : Bool :=
  wf c && gap c == none && findSink c == .ok (.id n) && specSink c == some n && sinkTypeIs c (· == n) == .ok true

-- `return 1, ((pv.(string)))` in `func() (int, string)`
example : ok ⟨true, false, [.paren, .paren, .ret 1 0] ++ body [.id 0, .id 1]⟩ 1 = true := by decide
-- `return pv.(int8)` inside a function literal inside `func() string`
example : ok ⟨true, false, [.ret 0 0, .other false, .funcLit (some ⟨[], false, [.id 2]⟩), .assign .assign true 0 [.nil] 1] ++ body [.id 1]⟩ 2 = true := by decide
-- `var a, b string = "x", pv.(string)`
example : ok ⟨true, false, [.valueSpec .value (some (.id 1)), .other false, .other false] ++ body []⟩ 1 = true := by decide
-- `gi, gs = 1, (pv.(string))`
example : ok ⟨true, false, [.paren, .assign .assign true 1 [.id 0, .id 1] 2] ++ body []⟩ 1 = true := by decide
-- `_ = gm[pv.(string)]`
example : ok ⟨true, false, [.index true (.id 7) (.map (.id 1) (.id 0)), .assign .assign true 0 [.nil] 1] ++ body []⟩ 1 = true := by decide
-- `sinkV(1, "a", pv.(string))` with `func sinkV(a int, bs ...string) int`: the variadic part; `sinkV(1, pv.([]string)...)`: the spread form
def sinkV : Sig := ⟨[⟨.id 0, none⟩, ⟨.id 3, some (.id 1)⟩], true, [.id 0]⟩
example : ok ⟨true, false, [.call (some 2) 3 (.sig sinkV) false, .other false] ++ body []⟩ 1 = true := by decide
example : ok ⟨true, false, [.call (some 0) 3 (.sig sinkV) false, .other false] ++ body []⟩ 0 = true := by decide
example : ok ⟨true, false, [.call (some 1) 2 (.sig sinkV) true, .other false] ++ body []⟩ 3 = true := by decide
-- `append(gbs, pv.(string)...)`: go/types records `func([]byte, string) []byte`, variadic, the last parameter no slice
def appendStr : Sig := ⟨[⟨.id 8, some (.id 5)⟩, ⟨.id 1, none⟩], true, [.id 8]⟩
example : ok ⟨true, false, [.call (some 1) 2 (.sig appendStr) true, .assign .assign true 0 [.id 8] 1] ++ body []⟩ 1 = true := by decide
-- `int64(pv.(int))`: a conversion (9 = int64)
example : ok ⟨true, false, [.call (some 0) 1 (.notSig (.id 9) true) false, .assign .assign true 0 [.nil] 1] ++ body []⟩ 9 = true := by decide
-- `[]int64{3: pv.(int64)}`, `map[string]float64{pv.(string): 1}`, `S1{1, pv.(int64)}`, `S1{b: pv.(int64)}` (names: 0 a, 1 b)
example : ok ⟨true, false, [.keyValue false none, .composite (some 0) 1 (.id 10) (.slice (.id 9)) false, .assign .assign true 0 [.nil] 1] ++ body []⟩ 9 = true := by decide
example : ok ⟨true, false, [.keyValue true none, .composite (some 0) 1 (.id 11) (.map (.id 1) (.id 12)) false, .assign .assign true 0 [.nil] 1] ++ body []⟩ 1 = true := by decide
example : ok ⟨true, false, [.composite (some 1) 2 (.id 13) (.strct [(0, .id 2), (1, .id 9)]) false, .assign .assign true 0 [.nil] 1] ++ body []⟩ 9 = true := by decide
example : ok ⟨true, false, [.keyValue false (some 1), .composite (some 0) 1 (.id 13) (.strct [(0, .id 2), (1, .id 9)]) false, .assign .assign true 0 [.nil] 1] ++ body []⟩ 9 = true := by decide
-- `[]S1{{1, pv.(int64)}}`: the inner literal's type is elided
example : ok ⟨true, false, [.composite (some 1) 2 (.id 13) (.strct [(0, .id 2), (1, .id 9)]) true, .composite (some 0) 1 (.id 14) (.slice (.id 13)) false,
    .assign .assign true 0 [.nil] 1] ++ body []⟩ 9 = true := by decide

-- no sink: `x := pv.(int)`, `gi += pv.(int)`, `_ = gsl[pv.(int)]`, `pv.(func(int) int)(1)`, `_ = pv.(int)` — model and definition agree on "none"
def none' (c : Ctx) : Bool := wf c && gap c == none && specSink c == none && sinkTypeIs c (fun _ => true) == .ok false
example : none' ⟨true, false, [.assign .define true 0 [.id 0] 1] ++ body []⟩ = true := by decide
example : none' ⟨true, false, [.assign .other true 0 [.id 0] 1] ++ body []⟩ = true := by decide
example : none' ⟨true, false, [.index true (.id 15) (.slice (.id 0)), .assign .assign true 0 [.nil] 1] ++ body []⟩ = true := by decide
example : none' ⟨true, false, [.call none 1 (.sig ⟨[⟨.id 0, none⟩], false, [.id 0]⟩) false, .other false] ++ body []⟩ = true := by decide
example : none' ⟨true, false, [.assign .assign true 0 [.nil] 1] ++ body []⟩ = true := by decide
-- the match is a statement, not an expression
example : sinkTypeIs ⟨false, false, body []⟩ (fun _ => true) = .ok false ∧ specSinkTypeIs ⟨false, false, body []⟩ (fun _ => true) = false := by decide

/-! ## Counterexamples: every gap is needed (kernel-checked; the witnesses of the real engine are in known_findings.json) -/

def differs (c : Ctx) (g : Gap) (model : Ty) (spec : Option Nat) : Bool :=
  wf c && gap c == some g && findSink c == .ok model && specSink c == spec && tyId model != spec

-- paren-match: `return (pv.(int))`, the match being `(pv.(int))`: no sink found
example : differs ⟨true, true, [.ret 0 0] ++ body [.id 0]⟩ .parenMatch .invalid (some 0) = true := by decide
-- paren-match: `map[interface{}]int{(pv.(int)): 1}`: the map's element type instead of its key type
example : differs ⟨true, true, [.keyValue true none, .composite (some 0) 1 (.id 16) (.map (.id 4) (.id 0)) false, .assign .assign true 0 [.nil] 1] ++ body []⟩
    .parenMatch (.id 0) (some 4) = true := by decide
-- type-slot: the name in `var pw int`; the type in `PSl{1, 2}` (type PSl []int16); the type in the conversion `PA(gi)`
example : differs ⟨true, false, [.valueSpec .name (some (.id 0)), .other false, .other false]⟩ .typeSlot (.id 0) none = true := by decide
example : differs ⟨true, false, [.composite none 2 (.id 17) (.slice (.id 6)) false, .assign .assign true 0 [.nil] 1] ++ body []⟩ .typeSlot (.id 6) none = true := by decide
example : differs ⟨true, false, [.call none 1 (.notSig (.id 6) true) false, .assign .assign true 0 [.nil] 1] ++ body []⟩ .typeSlot (.id 6) none = true := by decide
-- key-slot: `[4]string{pk: "a"}` (the constant index), `PT{pf: 1}` (the field name)
example : differs ⟨true, false, [.keyValue true (some 2), .composite (some 0) 1 (.id 18) (.array (.id 1)) false, .assign .assign true 0 [.nil] 1] ++ body []⟩
    .keySlot (.id 1) none = true := by decide
example : differs ⟨true, false, [.keyValue true (some 3), .composite (some 0) 1 (.id 19) (.strct [(3, .id 2), (4, .id 1)]) false, .assign .assign true 0 [.nil] 1] ++ body []⟩
    .keySlot (.id 2) none = true := by decide
-- unkeyed-map (not Go): the model would answer the element type
example : differs ⟨true, false, [.composite (some 0) 1 (.id 11) (.map (.id 1) (.id 12)) false]⟩ .unkeyedMap (.id 12) none = true := by decide
-- elided-pointer: `[]*S1{{a: pv.(int8)}}`
example : differs ⟨true, false, [.keyValue false (some 0), .composite (some 0) 1 (.id 20) (.pointer (.strct [(0, .id 2), (1, .id 9)])) true,
    .composite (some 0) 1 (.id 21) (.slice (.id 20)) false, .assign .assign true 0 [.nil] 1] ++ body []⟩ .elidedPointer .invalid (some 2) = true := by decide
-- send: `gch <- pv.(int)`
example : differs ⟨true, false, [.send true (.id 23) (.chan (.id 0))] ++ body []⟩ .send .invalid (some 0) = true := by decide
-- arity: `sinkT(ptup())`, `return ptup()` with `ptup() (int, string)`
example : differs ⟨true, false, [.call (some 0) 1 (.sig ⟨[⟨.id 0, none⟩, ⟨.id 1, none⟩], false, [.id 0]⟩) false, .other false] ++ body []⟩ .arity (.id 0) none = true := by decide
example : differs ⟨true, false, [.ret 0 0] ++ body [.id 0, .id 1]⟩ .arity (.id 0) none = true := by decide
-- callee-not-signature: `f(pv.(int))` with `f F`, `F` a type parameter constrained by `func(int) int` (22 = F)
example : differs ⟨true, false, [.call (some 0) 1 (.notSig (.id 22) false) false, .other false] ++ body []⟩ .calleeNotSig (.id 22) none = true := by decide

/-! ## Counterexamples: every panic of the code is reachable outside the facts contract -/

def panics (c : Ctx) (p : Panic) : Bool := !wf c && findSink c == .panic p
-- `findSinkRoot`: `NthParent(i + 1).(ast.Expr)` on a key-value pair without a parent, or whose parent is no expression
example : panics ⟨true, false, [.keyValue false none]⟩ .typeAssert = true := by decide
example : panics ⟨true, false, [.paren, .keyValue true none, .other false]⟩ .typeAssert = true := by decide
-- `TypeOf(parent.X).Underlying()` / `TypeOf(parent).Underlying()` on a nil type
example : panics ⟨true, false, [.index true .nil .other]⟩ .nilDeref = true := by decide
example : panics ⟨true, false, [.composite (some 0) 1 .nil .other false]⟩ .nilDeref = true := by decide
-- `sig.Results().At(i)`: more operands than results
example : panics ⟨true, false, [.ret 1 0] ++ body [.id 0]⟩ .index = true := by decide
-- the `.(*types.Slice)` assertion: the recorded signature of `append([]byte, s...)` read without the ellipsis
example : panics ⟨true, false, [.call (some 1) 2 (.sig appendStr) false]⟩ .typeAssert = true := by decide
-- `Params().At(Len() - 1)` on a variadic signature without parameters
example : panics ⟨true, false, [.call (some 0) 1 (.sig ⟨[], true, []⟩) false]⟩ .index = true := by decide

/-! ## The counterexamples above, after the repair: every gap is closed -/

def closed (c : Ctx) (g : Gap) : Bool :=
  wf c && gap c == some g && (match findSinkR c with | .ok t => tyId t == specSink c | .panic _ => false)

example : closed ⟨true, true, [.ret 0 0] ++ body [.id 0]⟩ .parenMatch = true := by decide
example : closed ⟨true, true, [.keyValue true none, .composite (some 0) 1 (.id 16) (.map (.id 4) (.id 0)) false, .assign .assign true 0 [.nil] 1] ++ body []⟩ .parenMatch = true := by decide
example : closed ⟨true, false, [.valueSpec .name (some (.id 0)), .other false, .other false]⟩ .typeSlot = true := by decide
example : closed ⟨true, false, [.composite none 2 (.id 17) (.slice (.id 6)) false, .assign .assign true 0 [.nil] 1] ++ body []⟩ .typeSlot = true := by decide
example : closed ⟨true, false, [.call none 1 (.notSig (.id 6) true) false, .assign .assign true 0 [.nil] 1] ++ body []⟩ .typeSlot = true := by decide
example : closed ⟨true, false, [.keyValue true (some 2), .composite (some 0) 1 (.id 18) (.array (.id 1)) false, .assign .assign true 0 [.nil] 1] ++ body []⟩ .keySlot = true := by decide
example : closed ⟨true, false, [.keyValue true (some 3), .composite (some 0) 1 (.id 19) (.strct [(3, .id 2), (4, .id 1)]) false, .assign .assign true 0 [.nil] 1] ++ body []⟩ .keySlot = true := by decide
example : closed ⟨true, false, [.composite (some 0) 1 (.id 11) (.map (.id 1) (.id 12)) false]⟩ .unkeyedMap = true := by decide
example : closed ⟨true, false, [.keyValue false (some 0), .composite (some 0) 1 (.id 20) (.pointer (.strct [(0, .id 2), (1, .id 9)])) true,
    .composite (some 0) 1 (.id 21) (.slice (.id 20)) false, .assign .assign true 0 [.nil] 1] ++ body []⟩ .elidedPointer = true := by decide
example : closed ⟨true, false, [.send true (.id 23) (.chan (.id 0))] ++ body []⟩ .send = true := by decide
example : closed ⟨true, false, [.call (some 0) 1 (.sig ⟨[⟨.id 0, none⟩, ⟨.id 1, none⟩], false, [.id 0]⟩) false, .other false] ++ body []⟩ .arity = true := by decide
example : closed ⟨true, false, [.ret 0 0] ++ body [.id 0, .id 1]⟩ .arity = true := by decide
example : closed ⟨true, false, [.call (some 0) 1 (.notSig (.id 22) false) false, .other false] ++ body []⟩ .calleeNotSig = true := by decide
-- and the sinks found before are found still: `[]*S1{{a: pv.(int8)}}` now answers int8, `gch <- (pv.(int))` int
example : findSinkR ⟨true, false, [.keyValue false (some 0), .composite (some 0) 1 (.id 20) (.pointer (.strct [(0, .id 2), (1, .id 9)])) true,
    .composite (some 0) 1 (.id 21) (.slice (.id 20)) false, .assign .assign true 0 [.nil] 1] ++ body []⟩ = .ok (.id 2) := by decide
example : findSinkR ⟨true, true, [.send true (.id 23) (.chan (.id 0))] ++ body []⟩ = .ok (.id 0) := by decide

end C02
