import Rg.Proofs.Walk
import Rg.Proofs.WalkChains
import Rg.Gen.WalkTables
/-!
# C16 — Deadcode() is true exactly inside statically dead branches

The walker's `IfStmt` case (flag save / set / flip / restore, `Rg/Model/Walk.lean`) against the
declarative statement `Walk.Dead`: some enclosing `if` has a false constant condition and the node is
in its Body, or a true constant condition and the node is in its Else.
-/
namespace C16
open Walk

def fresh : Ctx0 := { path := [], dead := false, func := none }

/-- `Dead` in the property's own words. -/
theorem dead_iff_enclosing_if (C : Cfg) (chain : List Anc) :
    Dead C chain = true ↔
      ∃ a ∈ chain, a.kind = C.ifKind ∧
        ((a.attr = 2 ∧ a.slot = C.ifBody) ∨ (a.attr ≠ 0 ∧ a.attr ≠ 2 ∧ a.slot = C.ifElse)) := by
  simp only [Dead, List.any_eq_true, deadBranch, Bool.and_eq_true, Bool.or_eq_true, beq_iff_eq, bne_iff_ne,
    and_assoc]

/-- **deadflag_iff**: every visit of a run (fresh walker, any tree, any table) sees the flag
`Deadcode()` reads set exactly when the visited node's own ancestor chain is `Dead`. -/
theorem deadflag_iff (C : Cfg) (T : Nat → Row) (hC : CfgOK C) (t : Tree) :
    ∀ v ∈ trace C T t, ∃ ch, (v.id, ch) ∈ chainsOf [] t ∧ v.dead = Dead C ch := by
  intro v hv
  have hw := walk_eq_specT C T hC t fresh []
  have htr : trace C T t = specT C T fresh [] t := by
    have e : stOf C fresh [] = { path := [], dead := false, func := none } := rfl
    rw [e] at hw; simp [trace, hw]
  rw [htr] at hv
  obtain ⟨ch, hch, hveq⟩ := specT_visits_have_chains C T fresh (sizeOf t + 1) t (by omega) [] v hv
  refine ⟨ch, hch, ?_⟩
  rw [hveq]; simp [visitAt, fresh]

/-- **walk_restores_flag**: whatever the subtree (nested constant ifs, else-if chains, function
literals), the walk leaves the dead-code flag — and the rest of the walker state — as it found it, so
code after an `if`, sibling statements and later declarations are unaffected. -/
theorem walk_restores_flag (C : Cfg) (T : Nat → Row) (hC : CfgOK C) (t : Tree) (st : WState) :
    (walk C T t st).2 = st := by
  have := walk_eq_specT C T hC t ⟨st.path, st.dead, st.func⟩ []
  have e : stOf C ⟨st.path, st.dead, st.func⟩ [] = st := by
    cases st; simp [stOf, Dead, enclosingFunc]
  rw [e] at this; rw [this]

/-- inside an already dead region everything is dead, whatever the inner conditions say -/
theorem dead_is_monotone (C : Cfg) (a : Anc) (chain : List Anc) (h : Dead C chain = true) :
    Dead C (a :: chain) = true := by
  simp only [Dead, List.any_cons, Bool.or_eq_true] at *
  exact Or.inr h

/-- Init and Cond of the `if` itself are not in its dead branch -/
theorem init_cond_not_dead (C : Cfg) (hC : CfgOK C) (attr : Nat) :
    deadBranch C C.ifKind attr C.ifInit = false ∧ deadBranch C C.ifKind attr C.ifCond = false := by
  obtain ⟨h1, h2, h3, h4, h5, h6, h7⟩ := hC
  constructor <;> simp [deadBranch, *]

/-- instance: the regenerated configuration (IfStmt's field numbers from go/ast) is well-formed -/
theorem gen_cfg_ok : CfgOK Gen.cfg := by decide
/-- instance: the walker's IfStmt row, as probed, descends Init, Cond, Body, Else in this order -/
theorem gen_if_row : (Gen.tables.T Gen.cfg.ifKind).order =
    [Gen.cfg.ifInit, Gen.cfg.ifCond, Gen.cfg.ifBody, Gen.cfg.ifElse] := by decide

-- non-vacuity: `if false { x } else { y }`: x is dead, y is not
example : Dead Gen.cfg [⟨Gen.cfg.ifKind, 0, 2, Gen.cfg.ifBody⟩] = true := by decide
example : Dead Gen.cfg [⟨Gen.cfg.ifKind, 0, 2, Gen.cfg.ifElse⟩] = false := by decide
example : Dead Gen.cfg [⟨Gen.cfg.ifKind, 0, 1, Gen.cfg.ifElse⟩] = true := by decide
example : Dead Gen.cfg [⟨Gen.cfg.ifKind, 0, 0, Gen.cfg.ifBody⟩] = false := by decide

end C16
