import Rg.Model.Comment
import Rg.Spec.C12
import Rg.Proofs.Comment
import Rg.Proofs.CommentSpec
/-!
# C12 — comment rules report the matched span and its named groups precisely

About the model of `runCommentRules` / `handleCommentMatch` / `regexpHasCaptureGroups`
(`Rg/Model/Comment.lean`), for every comment text, offset, file, rule list and every answer of the
regexp oracle:

* `first_accepting_rule_only` — one report at most, from the first rule that matches and accepts;
* `span_exact` / `span_exact_fast` — the node is `[off+lo₀, off+hi₀)` and the file's bytes there are the match
  (`_partial`: needs `NoCR`, the comment text being literally the file's bytes — false in CRLF files, see
  `cr_counterexample`);
* `group_text` — the captures are exactly the named groups, each with its submatch text (empty, at the
  comment's start, if it did not participate);
* `filters_see_texts`, `suggest_span`, `fastpath_equiv`, `hasCaptureGroups_iff`, `rule_line_fixed`.
-/
namespace C12
open CM Rx

/-- **first accepting rule only**: `runCommentRules` delivers at most one report per comment; it comes from
rule number `rep.rule`, whose regexp matched and whose filter accepted, and every earlier rule either did
not match or was rejected by its filter; no report means every rule is in that situation. -/
theorem first_accepting_rule_only (alt : Bool) (src : Bytes) (size : Nat) (cfg : Int) (off : Nat) (text : Bytes)
    (rules : List CRule) :
    (∀ rep, runCommentRules alt src size cfg off text rules = .ok (some rep) →
      ∃ pre r post m, rules = pre ++ r :: post ∧ rep.rule = pre.length ∧ buildMatch size off text r = .ok (some m) ∧
        handleCommentMatch alt src size cfg pre.length r m = .ok (some rep) ∧
        ∀ r', r' ∈ pre → Rejected alt src size cfg off text r') ∧
    (runCommentRules alt src size cfg off text rules = .ok none →
      ∀ r, r ∈ rules → Rejected alt src size cfg off text r) := by
  constructor
  · intro rep h
    obtain ⟨pre, r, post, m, he, hm, hh, hrej⟩ := runFrom_some alt src size cfg off text rules 0 rep h
    simp only [Nat.zero_add] at hh
    exact ⟨pre, r, post, m, he, (handle_some alt src size cfg _ r m rep hh).1, hm, hh, hrej⟩
  · exact runFrom_none alt src size cfg off text rules 0

/-- **span, submatch path**: the match node starts at `off+lo₀`, ends at `off+hi₀`, carries `text[lo₀:hi₀]`;
and (`NoCR`) those are the file's bytes at that span. -/
theorem span_exact_partial (src : Bytes) (size off : Nat) (text : Bytes) (r : CRule) (v : List Int) (lo hi : Int) (m : MatchD)
    (hcg : r.captureGroups = true) (hsub : r.sub = some v) (h0 : v[0]? = some lo) (h1 : v[1]? = some hi)
    (hin : InRange text lo hi) (hfit : off + text.length ≤ size) (hb : buildMatch size off text r = .ok (some m)) :
    m.node.pos = off + lo.toNat ∧ m.node.endPos = off + hi.toNat ∧ m.node.text = slice text lo.toNat hi.toNat ∧
      (NoCR src off text → slice src m.node.pos m.node.endPos = m.node.text) := by
  obtain ⟨hl0, hl1, hl2⟩ := hin
  unfold buildMatch at hb
  rw [if_pos hcg, hsub] at hb
  simp only at hb
  cases hc : capsLoop size off text v 0 r.names with
  | panic p => simp [hc, Res.bind] at hb
  | ok caps =>
    simp only [hc, Res.bind, h0, h1, mkNode_ok size off text lo hi hl0 hl1 hl2 hfit, Res.ok.injEq, Option.some.injEq] at hb
    subst hb
    have hlen : (slice text lo.toNat hi.toNat).length = hi.toNat - lo.toNat := slice_length text _ _ (by omega) (by omega)
    refine ⟨rfl, ?_, rfl, ?_⟩
    · simp only [Node.endPos, hlen]; omega
    · intro hno
      simp only [Node.endPos, hlen]
      have : off + lo.toNat + (hi.toNat - lo.toNat) = off + hi.toNat := by omega
      rw [this]
      exact span_bytes src text off lo.toNat hi.toNat hno (by omega) (by omega)

/-- **span, path without submatches** (`captureGroups = false`) -/
theorem span_exact_fast_partial (src : Bytes) (size off : Nat) (text : Bytes) (r : CRule) (lo hi : Int) (m : MatchD)
    (hcg : r.captureGroups = false) (hidx : r.idx = some (lo, hi))
    (hin : InRange text lo hi) (hfit : off + text.length ≤ size) (hb : buildMatch size off text r = .ok (some m)) :
    m.node.pos = off + lo.toNat ∧ m.node.endPos = off + hi.toNat ∧ m.node.text = slice text lo.toNat hi.toNat ∧ m.caps = [] ∧
      (NoCR src off text → slice src m.node.pos m.node.endPos = m.node.text) := by
  obtain ⟨hl0, hl1, hl2⟩ := hin
  unfold buildMatch at hb
  rw [if_neg (by simp [hcg]), hidx] at hb
  simp only [mkNode_ok size off text lo hi hl0 hl1 hl2 hfit, Res.bind, Res.ok.injEq, Option.some.injEq] at hb
  subst hb
  have hlen : (slice text lo.toNat hi.toNat).length = hi.toNat - lo.toNat := slice_length text _ _ (by omega) (by omega)
  refine ⟨rfl, ?_, rfl, rfl, ?_⟩
  · simp only [Node.endPos, hlen]; omega
  · intro hno
    simp only [Node.endPos, hlen]
    have : off + lo.toNat + (hi.toNat - lo.toNat) = off + hi.toNat := by omega
    rw [this]
    exact span_bytes src text off lo.toNat hi.toNat hno (by omega) (by omega)

/-- **the path without submatches loses nothing**: when the regexp has no named group (what
`regexpHasCaptureGroups = false` guarantees, `hasCaptureGroups_iff`) and the two regexp calls agree on the
whole match, both paths build the same match data. -/
theorem fastpath_equiv (size off : Nat) (text : Bytes) (r : CRule) (hn : ∀ n, n ∈ r.names → n = [])
    (hcons : match r.sub with
      | none => r.idx = none
      | some v => ∃ lo hi, v[0]? = some lo ∧ v[1]? = some hi ∧ r.idx = some (lo, hi)) :
    buildMatch size off text { r with captureGroups := true } = buildMatch size off text { r with captureGroups := false } := by
  unfold buildMatch
  simp only [if_true, Bool.false_eq_true, if_false]
  cases hs : r.sub with
  | none => rw [hs] at hcons; simp [hcons]
  | some v =>
    rw [hs] at hcons
    obtain ⟨lo, hi, h0, h1, hi'⟩ := hcons
    simp only [capsLoop_unnamed size off text v 0 r.names hn, Res.bind, h0, h1, hi']

/-- **`regexpHasCaptureGroups`** is true exactly when the tree contains a capture node (or did not parse) -/
theorem hasCaptureGroups_iff (re : Re) : hasCaptureGroups (some re) = anyCapture re := by
  simp [hasCaptureGroups, walkRe_eq]

theorem hasCaptureGroups_parse_error : hasCaptureGroups none = true := rfl

/-- **filters see the submatch texts**: when a report is delivered, every atom `m[v].Text ⋈ lit` of its
`Where` was evaluated on the node captured under `v`, and — the file holding that node's text at its span —
on exactly that node's text. -/
theorem filters_see_texts (alt : Bool) (src : Bytes) (size : Nat) (cfg : Int) (k : Nat) (r : CRule) (m : MatchD) (rep : Report)
    (h : handleCommentMatch alt src size cfg k r m = .ok (some rep)) (atoms : List Atom) (hf : r.filter = some atoms) :
    ∀ a, a ∈ atoms → ∃ n t, capturedByName m (atomVar a) = some n ∧ nodeText src size n = .ok t ∧ atomHolds a t = true ∧
      (n.endPos ≤ size → (n.endPos < src.length → slice src n.pos n.endPos = n.text) → t = n.text) := by
  intro a ha
  obtain ⟨n, t, hc, ht, hh⟩ := evalFilter_true src size m atoms ((handle_some alt src size cfg k r m rep h).2.2.2.2.2.2 atoms hf) a ha
  refine ⟨n, t, hc, ht, hh, ?_⟩
  intro hend hbytes
  rw [nodeText_exact src size n hend hbytes] at ht
  simp only [Res.ok.injEq] at ht
  exact ht.symm

/-- **a Suggest replaces exactly the reported node's span** (the whole match, or the `At` group) -/
theorem suggest_span (alt : Bool) (src : Bytes) (size : Nat) (cfg : Int) (k : Nat) (r : CRule) (m : MatchD) (rep : Report)
    (h : handleCommentMatch alt src size cfg k r m = .ok (some rep)) :
    rep.node = reportNode m r ∧
      (∀ f t repl, rep.sugg = some (f, t, repl) → ∃ n, rep.node = some n ∧ f = n.pos ∧ t = n.endPos ∧
        renderMessage src size cfg r.suggestion m false = .ok repl) ∧
      (rep.sugg = none ↔ r.suggestion = []) := by
  obtain ⟨_, _, hnode, _, hs0, hs1, _⟩ := handle_some alt src size cfg k r m rep h
  refine ⟨hnode, ?_, ?_⟩
  · intro f t repl hsg
    by_cases hs : r.suggestion = []
    · rw [hs0 hs] at hsg; simp at hsg
    · obtain ⟨n, repl', hn, hr, hsg'⟩ := hs1 hs
      rw [hsg'] at hsg
      simp only [Option.some.injEq, Prod.mk.injEq] at hsg
      obtain ⟨rfl, rfl, rfl⟩ := hsg
      exact ⟨n, hn, rfl, rfl, hr⟩
  · constructor
    · intro hnone
      by_cases hs : r.suggestion = []
      · exact hs
      · obtain ⟨n, repl', _, _, hsg'⟩ := hs1 hs
        rw [hsg'] at hnone; simp at hnone
    · exact hs0

/-- the repaired loader (`fixes/comment-rule-line.diff`) reports the line of the matching alternative;
the code as it stands reports the rule's line for every alternative (D12) -/
theorem rule_line (alt : Bool) (src : Bytes) (size : Nat) (cfg : Int) (k : Nat) (r : CRule) (m : MatchD) (rep : Report)
    (h : handleCommentMatch alt src size cfg k r m = .ok (some rep)) :
    rep.line = if alt then r.altLine else r.line :=
  (handle_some alt src size cfg k r m rep h).2.1

/-! ## named groups -/

/-- **group texts**: the captures the runner records are exactly `namedCaps`: every named group with
`text[lo:hi]` at `[off+lo, off+hi)`, a group that did not participate with the empty text; unnamed groups
and the whole match are not captures.  Byte arithmetic throughout: nothing depends on runes. -/
theorem group_text (size off : Nat) (text : Bytes) (v : List Int) (i : Nat) (names : List Bytes)
    (hwf : ∀ j, i ≤ j → j < i + names.length → WFGroup text v j) (hfit : off + text.length ≤ size) :
    capsLoop size off text v i names = .ok (namedCaps off text v i names) :=
  group_text_core size off text v i names hwf hfit

/-- `$name` / `m[name]` resolve to the leftmost capture of that name, `$$` to the whole match -/
theorem capturedByName_whole (m : MatchD) : capturedByName m dollarDollar = some m.node := by
  simp [capturedByName]

/-! ## the model meets the executable statement -/

/- Full statement (false of the code as it stands, see `cr_counterexample` and `rule_line_counterexample`; and not
   proved without `NamesOK`, although believed true):
   ∀ rules text off src, verdict cfg src off text (rules.map toSpecRule) ((run … rules).map observe) = [] -/
/-- **model meets spec**: for every comment, offset, file and rule list such that
* the regexp answers are what Go's regexp can return (`WFOracle`: index pairs in range or negative, `names[0] = ""`, the two
  calls agree, no named group when `captureGroups` is false),
* `Where`/`At` only mention `$$` or existing groups (`WFRule`), no group name is a prefix of another one (`NamesOK`),
* the comment text is literally the file's bytes at its offset (`NoCR` — the hypothesis that fails in CRLF files),
* the runner reads either nothing or that file, and reports the alternative's line (`alt`, or rules written on one line),
the model's outcome violates no clause of `SpecC12.verdict`: right rule, exact span, exact bytes, exact message
and suggestion texts, exact suggestion span, right line. -/
theorem model_meets_spec_partial (alt : Bool) (msrc src : Bytes) (size : Nat) (cfg : Int) (off : Nat) (text : Bytes)
    (rules : List CRule) (hs : SrcOK msrc src) (hno : NoCR src off text) (hfit : off + text.length ≤ size)
    (hrules : ∀ r, r ∈ rules → RuleOK text r) (hline : alt = true ∨ ∀ r, r ∈ rules → r.line = r.altLine) :
    ∃ out, runCommentRules alt msrc size cfg off text rules = .ok out ∧
      SpecC12.verdict cfg src off text (rules.map toSpecRule) (out.map observe) = [] := by
  have hrun := run_spec alt msrc src size cfg off text hs hno hfit rules 0 hrules
  unfold runCommentRules SpecC12.verdict
  rw [firstAccepting_eq text 0 rules]
  cases hfa : firstAcc text 0 rules with
  | none =>
    rw [hfa] at hrun
    exact ⟨none, hrun, rfl⟩
  | some x =>
    obtain ⟨k', r, v⟩ := x
    rw [hfa] at hrun
    obtain ⟨lo, hi, n, cx, hwr, hmem, hn, hrun⟩ := hrun
    refine ⟨_, hrun, ?_⟩
    have hloc : VarOK r.names (locVar r) := by
      unfold locVar
      rcases hwr.location with h | h
      · rw [if_pos h]; exact .inl rfl
      · by_cases he : r.location = []
        · rw [if_pos he]; exact .inl rfl
        · rw [if_neg he]; exact h
    obtain ⟨n', hn', htext, hspan, _, hbytes⟩ :=
      lookup_spec src off text r.names v lo hi cx.names0 cx.groups cx.h0 cx.h1 cx.inRange (locVar r) hloc
    rw [hn] at hn'
    simp only [Option.some.injEq] at hn'
    subst hn'
    have hl : (if alt = true then r.altLine else r.line) = r.altLine := by
      rcases hline with h | h
      · simp [h]
      · split
        · rfl
        · exact h r hmem
    have hlv : (if r.location = [] then ([36, 36] : Bytes) else r.location) = locVar r := rfl
    simp only [Option.map_some, observe, expectedReport, toSpecRule, hl, hlv, hspan, htext, Option.getD_some,
      ne_eq, not_true_eq_false, if_true, slice_eq, hbytes cx.noCR, List.append_nil, List.nil_append]
    by_cases hsg : r.suggestion = []
    · simp [hsg]
    · simp [hsg]

/-! ## kernel-checked counterexamples for the code as it stands -/

/-- `"package p\r\n/* a\r\n foo */\r\n"`: go/scanner delivers the comment text `/* a\n foo */` (carriage return
stripped) at offset 11; `foo` is at index 6..9 of the text but at offset 18..21 of the file. -/
def crSrc : Bytes := [112, 97, 99, 107, 97, 103, 101, 32, 112, 13, 10, 47, 42, 32, 97, 13, 10, 32, 102, 111, 111, 32, 42, 47, 13, 10]
def crText : Bytes := [47, 42, 32, 97, 10, 32, 102, 111, 111, 32, 42, 47]
def crRule : CRule :=
  { captureGroups := false, names := [[]], sub := some [6, 9], idx := some (6, 9), filter := none,
    msg := [36, 36], location := [], suggestion := [88], line := 5, altLine := 6 }

/-- the reported node `[17,20)` covers the bytes `"\n f"`, not `foo` (which is at `[18,21)`), the Suggest
would replace those bytes, and — the file being readable — the message shows them. -/
theorem cr_counterexample :
    runCommentRules false crSrc crSrc.length 0 11 crText [crRule] =
      .ok (some ⟨0, 5, some ⟨17, [102, 111, 111]⟩, [32, 102, 111], some (17, 20, [88])⟩) ∧
    slice crSrc 17 20 = [32, 102, 111] ∧ slice crSrc 18 21 = [102, 111, 111] ∧ ¬ NoCR crSrc 11 crText := by
  refine ⟨by decide, by decide, by decide, by unfold NoCR; decide⟩

/-- D12: with two alternatives on lines 6 and 7 of a rule starting on line 5, a match of the second
alternative is reported with line 5; the repaired variant reports 7 -/
def altRules : List CRule :=
  [{ captureGroups := false, names := [[]], sub := none, idx := none, filter := none, msg := [109], location := [],
     suggestion := [], line := 5, altLine := 6 },
   { captureGroups := false, names := [[]], sub := some [3, 6], idx := some (3, 6), filter := none, msg := [109],
     location := [], suggestion := [], line := 5, altLine := 7 }]

theorem rule_line_counterexample :
    (runCommentRules false [] 30 0 10 [47, 47, 32, 102, 111, 111] altRules).isOk = true ∧
    runCommentRules false [] 30 0 10 [47, 47, 32, 102, 111, 111] altRules =
      .ok (some ⟨1, 5, some ⟨13, [102, 111, 111]⟩, [109], none⟩) ∧
    runCommentRules true [] 30 0 10 [47, 47, 32, 102, 111, 111] altRules =
      .ok (some ⟨1, 7, some ⟨13, [102, 111, 111]⟩, [109], none⟩) := by
  refine ⟨by decide, by decide, by decide⟩

/-! ## non-vacuity -/

-- `(?P<x>collegue)|(commitee)` on `// commitee`: group x did not participate
def npRule : CRule :=
  { captureGroups := true, names := [[], [120], []], sub := some [3, 11, -1, -1, 3, 11], idx := some (3, 11), filter := none,
    msg := [120, 61, 91, 36, 120, 93, 32, 36, 36], location := [], suggestion := [], line := 5, altLine := 5 }
def npText : Bytes := [47, 47, 32, 99, 111, 109, 109, 105, 116, 101, 101]

example : runCommentRules false [] 40 0 10 npText [npRule] =
    .ok (some ⟨0, 5, some ⟨13, [99, 111, 109, 109, 105, 116, 101, 101]⟩,
      [120, 61, 91, 93, 32, 99, 111, 109, 109, 105, 116, 101, 101], none⟩) := by decide
example : WFGroup npText [3, 11, -1, -1, 3, 11] 1 := ⟨-1, -1, rfl, rfl, .inl (by decide)⟩
example : InRange npText 3 11 := by unfold InRange; decide
example : namedCaps 10 npText [3, 11, -1, -1, 3, 11] 0 [[], [120], []] = [⟨[120], ⟨10, []⟩⟩] := by decide
example : NoCR ([112, 10] ++ npText) 2 npText := by unfold NoCR; decide
example : hasCaptureGroups (some (node .concat [lit 0 [97], node .capture [lit 0 [98]]])) = true := by decide
example : hasCaptureGroups (some (node .concat [lit 0 [97], node .star [lit 0 [98]]])) = false := by decide

-- the hypotheses of `model_meets_spec_partial` are satisfiable: the rule `(?P<x>collegue)|(commitee)` on `// commitee`
example : RuleOK npText npRule where
  oracle := {
    names0 := ⟨_, rfl⟩
    groups := by
      intro v hv
      simp only [npRule, Option.some.injEq] at hv
      subst hv
      refine ⟨?_, 3, 11, rfl, rfl, by unfold InRange; decide, rfl⟩
      intro j hj
      simp only [npRule, List.length_cons, List.length_nil] at hj
      have : j = 0 ∨ j = 1 ∨ j = 2 := by omega
      rcases this with rfl | rfl | rfl
      · exact ⟨3, 11, rfl, rfl, .inr (.inr (by unfold InRange; decide))⟩
      · exact ⟨-1, -1, rfl, rfl, .inl (by decide)⟩
      · exact ⟨3, 11, rfl, rfl, .inr (.inr (by unfold InRange; decide))⟩
    noMatch := by intro h; simp [npRule] at h
    fast := by intro h; simp [npRule] at h }
  rule := {
    filterVars := by intro atoms h; simp [npRule] at h
    location := .inl rfl }
  namesOK := by
    intro j1 j2 a b h1 h2 ha hb _
    have k1 : j1 = 1 := by
      rcases j1 with _ | _ | _ | j1
      · simp [npRule] at h1; exact absurd h1 ha
      · rfl
      · simp [npRule] at h1; exact absurd h1 ha
      · simp [npRule] at h1
    have k2 : j2 = 1 := by
      rcases j2 with _ | _ | _ | j2
      · simp [npRule] at h2; exact absurd h2 hb
      · rfl
      · simp [npRule] at h2; exact absurd h2 hb
      · simp [npRule] at h2
    rw [k1, k2]
  noDollar := by decide

end C12
