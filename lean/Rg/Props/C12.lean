import Rg.Model.Comment
import Rg.Model.CommentAsIs
import Rg.Spec.C12
import Rg.Proofs.CommentSpan
import Rg.Proofs.Comment
import Rg.Proofs.CommentSpec
/-!
# C12 — comment rules report the matched span and its named groups precisely

About the model of `runCommentRules` / `commentPart` / `commentTextSpan` / `handleCommentMatch` /
`regexpHasCaptureGroups` (`Rg/Model/Comment.lean`, `Rg/Model/CommentSpan.lean`: the code after
`fixes/c12-cr-offsets.diff`), for every comment, offset, file, rule list and every answer of the regexp oracle:

* `scanner_strips_only_CR` — whatever bytes a comment consists of, the text go/scanner delivers for it is those
  bytes with some carriage returns removed (`CRText`); this is the only thing the theorems below assume about a file
  and a comment text, so CRLF files are covered;
* `span_in_comment`, `span_monotone`, `span_bytes`, `span_plain` — `commentTextSpan`: for all comment byte strings and
  all index pairs the translated span lies inside the comment, is monotone (disjoint pieces stay disjoint), and the
  file bytes of the span with the stripped carriage returns removed are exactly the matched bytes of the text; without
  carriage returns it is the plain arithmetic;
* `first_accepting_rule_only` — one report at most, from the first rule that matches and accepts;
* `span_exact` / `span_exact_fast` — the node's span is the file span of the whole match and the file's bytes there
  are the match (no "no carriage return" hypothesis any more);
* `group_text` — the captures are exactly the named groups, each with its submatch text (empty, at the
  comment's start, if it did not participate);
* `filters_see_texts`, `suggest_span`, `fastpath_equiv`, `hasCaptureGroups_iff`, `rule_line`;
* `model_meets_spec` — the model never violates the executable statement `SpecC12.verdict`;
* `cr_counterexample` — the code before the repair (`Rg/Model/CommentAsIs.lean`) on a CRLF block comment.
-/
namespace C12
open CM Rx

/-! ## carriage returns: the scanner and `commentTextSpan`, for all byte strings -/

/-- **go/scanner only removes carriage returns**: for every file `pre ++ raw ++ rest` in which `raw` are the source
bytes of a comment, the comment's text is the file's bytes from the comment's offset on with some carriage returns
removed — whichever ones `stripCR` decides to keep. -/
theorem scanner_strips_only_CR (pre raw rest : Bytes) : CRText (pre ++ raw ++ rest) pre.length (commentText raw) :=
  crtext_of_scan pre raw rest

/-- **the translated span is inside the comment**: for every comment source `raw` anywhere in a file and every index
pair `lo ≤ hi` into its text, `commentTextSpan` answers a span `[p, e)` with
`comment start + lo ≤ p ≤ e ≤ comment end`, at least as long as the piece of text. -/
theorem span_in_comment (pre raw rest : Bytes) (lo hi : Nat) (hle : lo ≤ hi) (hhi : hi ≤ (commentText raw).length) :
    ∃ p e, textSpan (pre ++ raw ++ rest) pre.length (commentText raw) lo hi = .ok (p, e) ∧
      pre.length + lo ≤ p ∧ p ≤ e ∧ e ≤ pre.length + raw.length ∧ hi - lo ≤ e - p := by
  have hdrop : (pre ++ raw ++ rest).drop pre.length = raw ++ rest := by rw [List.append_assoc, List.drop_left]
  obtain ⟨K, hK⟩ := crtext_after (crtext_of_scan pre raw rest)
  obtain ⟨a, b, he, hab, _, hla, _, hlen, hb, _⟩ := spanC_spec hK pre.length lo hi hle hhi
  refine ⟨pre.length + a, pre.length + b, ?_, by omega, by omega, ?_, by omega⟩
  · rw [textSpan_eq _ _ _ lo hi b hle hb, he]
  · obtain ⟨core, tail, hraw, hdel⟩ := del_commentText raw
    have hK' : after (core ++ (tail ++ rest)) (commentText raw) (commentText raw).length = some K := by
      rw [← List.append_assoc, ← hraw, ← hdrop]; exact hK
    have h1 := after_le_of_del hdel _ hK'
    obtain ⟨b', hb2, hb3⟩ := after_mono hK hi hhi
    rw [hb] at hb2
    simp only [Option.some.injEq] at hb2
    subst hb2
    have hlen : raw.length = core.length + tail.length := by rw [hraw]; simp
    omega

/-- **monotone**: a piece of the text that begins / ends later begins / ends later in the file, and pieces that do not
overlap in the text (one group after another) do not overlap in the file -/
theorem span_monotone (src : Bytes) (off : Nat) (text : Bytes) (hcr : CRText src off text) (lo hi lo' hi' : Nat)
    (h1 : lo ≤ hi) (h2 : lo' ≤ hi') (h3 : hi' ≤ text.length) (hlo : lo ≤ lo') (hhi : hi ≤ hi') :
    ∃ p e p' e', textSpan src off text lo hi = .ok (p, e) ∧ textSpan src off text lo' hi' = .ok (p', e') ∧
      p ≤ p' ∧ e ≤ e' ∧ (hi ≤ lo' → e ≤ p') := by
  obtain ⟨K, hK⟩ := crtext_after hcr
  obtain ⟨k, hk, _⟩ := after_mono hK hi (by omega)
  obtain ⟨k', hk', _⟩ := after_mono hK hi' h3
  obtain ⟨m1, m2, m3⟩ := spanC_mono hK off lo hi lo' hi' h1 h2 h3 hlo hhi
  exact ⟨_, _, _, _, textSpan_eq src off text lo hi k h1 hk, textSpan_eq src off text lo' hi' k' h2 hk', m1, m2, m3⟩

/-- **the bytes of the span are the matched bytes**: the file's bytes at the translated span are the piece of the text
with carriage returns put back (`Del`: the text piece is the span with some carriage returns removed), the span begins
with the piece's first byte and ends with its last byte (no stripped carriage return at either end, so a replacement of
the span leaves the line breaks around it alone); in particular, removing the carriage returns from the span gives
the piece with its carriage returns removed, and the piece itself when it contains none. -/
theorem span_bytes (src : Bytes) (off : Nat) (text : Bytes) (hcr : CRText src off text) (lo hi : Nat)
    (hle : lo ≤ hi) (hhi : hi ≤ text.length) :
    ∃ p e, textSpan src off text lo hi = .ok (p, e) ∧
      Del (SpecC12.slice src p e) (SpecC12.slice text lo hi) ∧
      (SpecC12.slice src p e).head? = (SpecC12.slice text lo hi).head? ∧
      (SpecC12.slice src p e).getLast? = (SpecC12.slice text lo hi).getLast? ∧
      (SpecC12.slice src p e).filter (· ≠ cr) = (SpecC12.slice text lo hi).filter (· ≠ cr) ∧
      (cr ∉ SpecC12.slice text lo hi → (SpecC12.slice src p e).filter (· ≠ cr) = SpecC12.slice text lo hi) := by
  obtain ⟨K, hK⟩ := crtext_after hcr
  obtain ⟨k, hk, _⟩ := after_mono hK hi hhi
  obtain ⟨a, b, he, _, _, _, _, _, _, hdel, hhead, hlast⟩ := spanC_spec hK off lo hi hle hhi
  rw [slice_drop, slice_text] at hdel hhead hlast
  have hfilter : ∀ {s t : Bytes}, Del s t → s.filter (· ≠ cr) = t.filter (· ≠ cr) := by
    intro s t h
    induction h with
    | nil => rfl
    | keep b _ ih => simp only [List.filter_cons]; rw [ih]
    | skip _ ih => simpa [List.filter_cons] using ih
  refine ⟨off + a, off + b, by rw [textSpan_eq src off text lo hi k hle hk, he], hdel, hhead, hlast, hfilter hdel, ?_⟩
  intro hno
  rw [hfilter hdel]
  apply List.filter_eq_self.2
  intro x hx
  simp only [ne_eq, decide_not, Bool.not_eq_eq_eq_not, Bool.not_true, decide_eq_false_iff_not]
  intro e; subst e; exact hno hx

/-- **no carriage return, no change**: when the comment's source has no carriage return (every comment of a file with
LF line endings) the text is the source and the span is the plain arithmetic `[off+lo, off+hi)` the code used before. -/
theorem span_plain (pre raw rest : Bytes) (hno : cr ∉ raw) (lo hi : Nat) (hle : lo ≤ hi) (hhi : hi ≤ raw.length) :
    commentText raw = raw ∧
      textSpan (pre ++ raw ++ rest) pre.length (commentText raw) lo hi = .ok (pre.length + lo, pre.length + hi) := by
  have ht := commentText_noCR raw hno
  refine ⟨ht, ?_⟩
  rw [ht]
  have hdrop : (pre ++ raw ++ rest).drop pre.length = raw ++ rest := by rw [List.append_assoc, List.drop_left]
  rw [textSpan_eq _ _ _ lo hi hi hle (by rw [hdrop]; exact after_prefix raw rest hi hhi), hdrop,
    spanC_prefix raw rest pre.length lo hi hle hhi]

/-- an unreadable file: the text is taken for an exact copy -/
theorem span_unreadable (off : Nat) (text : Bytes) (lo hi : Nat) (hle : lo ≤ hi) :
    textSpan [] off text lo hi = .ok (off + lo, off + hi) := textSpan_nosrc off text lo hi hle

/-! ## the runner -/

/-- **first accepting rule only**: `runCommentRules` delivers at most one report per comment; it comes from
rule number `rep.rule`, whose regexp matched and whose filter accepted, and every earlier rule either did
not match or was rejected by its filter; no report means every rule is in that situation. -/
theorem first_accepting_rule_only (alt : Bool) (src : Bytes) (size : Nat) (cfg : Int) (off : Nat) (text : Bytes)
    (rules : List CRule) :
    (∀ rep, runCommentRules alt src size cfg off text rules = .ok (some rep) →
      ∃ pre r post m, rules = pre ++ r :: post ∧ rep.rule = pre.length ∧ buildMatch src size off text r = .ok (some m) ∧
        handleCommentMatch alt cfg pre.length r m = .ok (some rep) ∧
        ∀ r', r' ∈ pre → Rejected alt src size cfg off text r') ∧
    (runCommentRules alt src size cfg off text rules = .ok none →
      ∀ r, r ∈ rules → Rejected alt src size cfg off text r) := by
  constructor
  · intro rep h
    obtain ⟨pre, r, post, m, he, hm, hh, hrej⟩ := runFrom_some alt src size cfg off text rules 0 rep h
    simp only [Nat.zero_add] at hh
    exact ⟨pre, r, post, m, he, (handle_some alt cfg _ r m rep hh).1, hm, hh, hrej⟩
  · exact runFrom_none alt src size cfg off text rules 0

/-- **span, submatch path** (full strength: CRLF files included): the match node carries `text[lo₀:hi₀]`, its span
`[pos, endPos)` is the file span of that piece (`SpecC12.fileSpan`: from the file offset of its first byte to just
after the file offset of its last byte), and the file's bytes there are the piece up to the carriage returns the
scanner removed, none of them at either end. -/
theorem span_exact {msrc src : Bytes} {size off : Nat} {text : Bytes} (vw : View msrc src size off text)
    (r : CRule) (v : List Int) (lo hi : Int) (m : MatchD)
    (hcg : r.captureGroups = true) (hsub : r.sub = some v) (h0 : v[0]? = some lo) (h1 : v[1]? = some hi)
    (hin : InRange text lo hi) (hb : buildMatch msrc size off text r = .ok (some m)) :
    (m.node.pos, m.node.endPos) = SpecC12.fileSpan src off text lo.toNat hi.toNat ∧
      m.node.text = SpecC12.slice text lo.toNat hi.toNat ∧
      off + lo.toNat ≤ m.node.pos ∧ m.node.pos ≤ m.node.endPos ∧ m.node.endPos ≤ size ∧
      SpecC12.spanBytesOK (SpecC12.slice src m.node.pos m.node.endPos) m.node.text = true ∧
      Del (SpecC12.slice src m.node.pos m.node.endPos) m.node.text := by
  obtain ⟨hl0, hl1, hl2⟩ := hin
  unfold buildMatch at hb
  rw [if_pos hcg, hsub] at hb
  simp only at hb
  cases hc : capsLoop msrc size off text v 0 r.names with
  | panic p => simp [hc, Res.bind] at hb
  | ok caps =>
    simp only [hc, Res.bind, h0, h1, mkNode_ok vw lo hi hl0 hl1 hl2, Res.ok.injEq, Option.some.injEq] at hb
    subst hb
    obtain ⟨K, hK⟩ := crtext_after vw.cr
    obtain ⟨a, b, he, _, _, hla, _, _, _, hdel, _⟩ := spanC_spec hK off lo.toNat hi.toNat (by omega) (by omega)
    have hfs := fileSpan_eq src off text lo.toNat hi.toNat K (by omega) (by omega) hK
    obtain ⟨_, f2, f3⟩ := fileSpan_le vw lo.toNat hi.toNat (by omega) (by omega)
    refine ⟨rfl, rfl, ?_, f2, f3, spanNode_bytes vw lo.toNat hi.toNat (by omega) (by omega), ?_⟩
    · simp only [spanNode, hfs, he]; omega
    · rw [slice_drop, slice_text] at hdel
      simp only [spanNode, hfs, he]
      exact hdel

/-- **span, path without submatches** (`captureGroups = false`), full strength -/
theorem span_exact_fast {msrc src : Bytes} {size off : Nat} {text : Bytes} (vw : View msrc src size off text)
    (r : CRule) (lo hi : Int) (m : MatchD)
    (hcg : r.captureGroups = false) (hidx : r.idx = some (lo, hi))
    (hin : InRange text lo hi) (hb : buildMatch msrc size off text r = .ok (some m)) :
    (m.node.pos, m.node.endPos) = SpecC12.fileSpan src off text lo.toNat hi.toNat ∧
      m.node.text = SpecC12.slice text lo.toNat hi.toNat ∧ m.caps = [] ∧
      SpecC12.spanBytesOK (SpecC12.slice src m.node.pos m.node.endPos) m.node.text = true := by
  obtain ⟨hl0, hl1, hl2⟩ := hin
  unfold buildMatch at hb
  rw [if_neg (by simp [hcg]), hidx] at hb
  simp only [mkNode_ok vw lo hi hl0 hl1 hl2, Res.bind, Res.ok.injEq, Option.some.injEq] at hb
  subst hb
  exact ⟨rfl, rfl, rfl, spanNode_bytes vw lo.toNat hi.toNat (by omega) (by omega)⟩

/-- **the path without submatches loses nothing**: when the regexp has no named group (what
`regexpHasCaptureGroups = false` guarantees, `hasCaptureGroups_iff`) and the two regexp calls agree on the
whole match, both paths build the same match data. -/
theorem fastpath_equiv (src : Bytes) (size off : Nat) (text : Bytes) (r : CRule) (hn : ∀ n, n ∈ r.names → n = [])
    (hcons : match r.sub with
      | none => r.idx = none
      | some v => ∃ lo hi, v[0]? = some lo ∧ v[1]? = some hi ∧ r.idx = some (lo, hi)) :
    buildMatch src size off text { r with captureGroups := true } = buildMatch src size off text { r with captureGroups := false } := by
  unfold buildMatch
  simp only [if_true, Bool.false_eq_true, if_false]
  cases hs : r.sub with
  | none => rw [hs] at hcons; simp [hcons]
  | some v =>
    rw [hs] at hcons
    obtain ⟨lo, hi, h0, h1, hi'⟩ := hcons
    simp only [capsLoop_unnamed src size off text v 0 r.names hn, Res.bind, h0, h1, hi']

/-- **`regexpHasCaptureGroups`** is true exactly when the tree contains a capture node (or did not parse) -/
theorem hasCaptureGroups_iff (re : Re) : hasCaptureGroups (some re) = anyCapture re := by
  simp [hasCaptureGroups, walkRe_eq]

theorem hasCaptureGroups_parse_error : hasCaptureGroups none = true := rfl

/-- **filters see the submatch texts**: when a report is delivered, every atom `m[v].Text ⋈ lit` of its
`Where` was evaluated on the text of the node captured under `v` — the submatch text, never bytes re-read from the
file — and found true. -/
theorem filters_see_texts (alt : Bool) (cfg : Int) (k : Nat) (r : CRule) (m : MatchD) (rep : Report)
    (h : handleCommentMatch alt cfg k r m = .ok (some rep)) (atoms : List Atom) (hf : r.filter = some atoms) :
    ∀ a, a ∈ atoms → ∃ n, capturedByName m (atomVar a) = some n ∧ atomHolds a n.text = true :=
  evalFilter_true m atoms ((handle_some alt cfg k r m rep h).2.2.2.2.2.2 atoms hf)

/-- **a Suggest replaces exactly the reported node's span** (the whole match, or the `At` group) -/
theorem suggest_span (alt : Bool) (cfg : Int) (k : Nat) (r : CRule) (m : MatchD) (rep : Report)
    (h : handleCommentMatch alt cfg k r m = .ok (some rep)) :
    rep.node = reportNode m r ∧
      (∀ f t repl, rep.sugg = some (f, t, repl) → ∃ n, rep.node = some n ∧ f = n.pos ∧ t = n.endPos ∧
        renderMessage cfg r.suggestion m false = .ok repl) ∧
      (rep.sugg = none ↔ r.suggestion = []) := by
  obtain ⟨_, _, hnode, _, hs0, hs1, _⟩ := handle_some alt cfg k r m rep h
  refine ⟨hnode, ?_, ?_⟩
  · intro f t repl hsg
    by_cases hs : r.suggestion = []
    · rw [hs0 hs] at hsg; simp at hsg
    · obtain ⟨n, repl', hn, hr, hsg'⟩ := hs1 hs
      rw [hsg'] at hsg
      simp only [Option.some.injEq, Prod.mk.injEq] at hsg
      obtain ⟨rfl, rfl, rfl⟩ := hsg
      exact ⟨n, hn, rfl, rfl, hr⟩
  · constructor
    · intro hnone
      by_cases hs : r.suggestion = []
      · exact hs
      · obtain ⟨n, repl', _, _, hsg'⟩ := hs1 hs
        rw [hsg'] at hnone; simp at hnone
    · exact hs0

/-- the loader after `fixes/comment-rule-line.diff` reports the line of the matching alternative;
the code before it reported the rule's line for every alternative (D12) -/
theorem rule_line (alt : Bool) (cfg : Int) (k : Nat) (r : CRule) (m : MatchD) (rep : Report)
    (h : handleCommentMatch alt cfg k r m = .ok (some rep)) :
    rep.line = if alt then r.altLine else r.line :=
  (handle_some alt cfg k r m rep h).2.1

/-! ## named groups -/

/-- **group texts**: the captures the runner records are exactly `namedCaps`: every named group with
`text[lo:hi]` at the file span of that piece, a group that did not participate with the empty text at the comment's
start; unnamed groups and the whole match are not captures.  Byte arithmetic throughout: nothing depends on runes. -/
theorem group_text {msrc src : Bytes} {size off : Nat} {text : Bytes} (vw : View msrc src size off text)
    (v : List Int) (i : Nat) (names : List Bytes)
    (hwf : ∀ j, i ≤ j → j < i + names.length → WFGroup text v j) :
    capsLoop msrc size off text v i names = .ok (namedCaps src off text v i names) :=
  group_text_core vw v i names hwf

/-- `$name` / `m[name]` resolve to the leftmost capture of that name, `$$` to the whole match -/
theorem capturedByName_whole (m : MatchD) : capturedByName m dollarDollar = some m.node := by
  simp [capturedByName]

/-! ## the model meets the executable statement -/

/- Not proved without `NamesOK` (no group name a prefix of another one), although believed true:
   the sorted-by-length search of `renderMessage` against the spec's "longest name". -/
/-- **model meets spec** (full strength: no "no carriage return" hypothesis): for every comment, offset, file and rule
list such that
* the comment text is the file's bytes at its offset up to carriage returns the scanner removed, the runner reads that
  file — or cannot read any, and then none was removed —, and the comment lies in the file (`View`; for every file
  and every comment in it `scanner_strips_only_CR` gives the first part),
* the regexp answers are what Go's regexp can return (`WFOracle`: index pairs in range or negative, `names[0] = ""`, the two
  calls agree, no named group when `captureGroups` is false),
* `Where`/`At` only mention `$$` or existing groups (`WFRule`), no group name is a prefix of another one (`NamesOK`),
* the alternative's line is reported (`alt`, or rules written on one line),
the model's outcome violates no clause of `SpecC12.verdict`: right rule, the exact span of the file the match stands
for, exact bytes there, exact message and suggestion texts, exact suggestion span, right line. -/
theorem model_meets_spec (alt : Bool) (msrc src : Bytes) (size : Nat) (cfg : Int) (off : Nat) (text : Bytes)
    (rules : List CRule) (vw : View msrc src size off text)
    (hrules : ∀ r, r ∈ rules → RuleOK text r) (hline : alt = true ∨ ∀ r, r ∈ rules → r.line = r.altLine) :
    ∃ out, runCommentRules alt msrc size cfg off text rules = .ok out ∧
      SpecC12.verdict cfg src off text (rules.map toSpecRule) (out.map observe) = [] := by
  have hrun := run_spec alt msrc src size cfg off text vw rules 0 hrules
  obtain ⟨K, hK⟩ := crtext_after vw.cr
  obtain ⟨os, hos, _⟩ := origins_after (src.drop off) text off K hK
  unfold runCommentRules SpecC12.verdict
  rw [hos, firstAccepting_eq text 0 rules]
  simp only [Option.isNone_some, Bool.false_eq_true, if_false]
  cases hfa : firstAcc text 0 rules with
  | none =>
    rw [hfa] at hrun
    exact ⟨none, hrun, rfl⟩
  | some x =>
    obtain ⟨k', r, v⟩ := x
    rw [hfa] at hrun
    obtain ⟨lo, hi, n, cx, hwr, hmem, hn, hrun⟩ := hrun
    refine ⟨_, hrun, ?_⟩
    have hloc : VarOK r.names (locVar r) := by
      unfold locVar
      rcases hwr.location with h | h
      · rw [if_pos h]; exact .inl rfl
      · by_cases he : r.location = []
        · rw [if_pos he]; exact .inl rfl
        · rw [if_neg he]; exact h
    obtain ⟨n', hn', htext, hspan, hbytes⟩ :=
      lookup_spec cx.view r.names v lo hi cx.names0 cx.groups cx.h0 cx.h1 cx.inRange (locVar r) hloc
    rw [hn] at hn'
    simp only [Option.some.injEq] at hn'
    subst hn'
    have hl : (if alt = true then r.altLine else r.line) = r.altLine := by
      rcases hline with h | h
      · simp [h]
      · split
        · rfl
        · exact h r hmem
    have hlv : (if r.location = [] then ([36, 36] : Bytes) else r.location) = locVar r := rfl
    have hbytes' : SpecC12.spanBytesOK (SpecC12.slice src n.pos n.endPos) n.text = true := hbytes
    simp only [Option.map_some, observe, expectedReport, toSpecRule, hl, hlv, hspan, htext, Option.getD_some,
      ne_eq, not_true_eq_false, if_true, hbytes', List.append_nil, List.nil_append]
    by_cases hsg : r.suggestion = []
    · simp [hsg]
    · simp [hsg]

/-! ## kernel-checked examples: a CRLF block comment, before and after the repair -/

/-- `"package p\r\n/* a\r\n foo */\r\n"`: go/scanner delivers the comment text `/* a\n foo */` (carriage return
stripped) at offset 11; `foo` is at index 6..9 of the text but at offset 18..21 of the file. -/
def crSrc : Bytes := [112, 97, 99, 107, 97, 103, 101, 32, 112, 13, 10, 47, 42, 32, 97, 13, 10, 32, 102, 111, 111, 32, 42, 47, 13, 10]
def crRaw : Bytes := [47, 42, 32, 97, 13, 10, 32, 102, 111, 111, 32, 42, 47]
def crText : Bytes := [47, 42, 32, 97, 10, 32, 102, 111, 111, 32, 42, 47]
def crRuleAsIs : CMAsIs.CRule :=
  { captureGroups := false, names := [[]], sub := some [6, 9], idx := some (6, 9), filter := none,
    msg := [36, 36], location := [], suggestion := [88], line := 5, altLine := 6 }
def crRule : CRule :=
  { captureGroups := false, names := [[]], sub := some [6, 9], idx := some (6, 9), filter := none,
    msg := [36, 36], location := [], suggestion := [88], line := 5, altLine := 6 }

/-- THE CODE BEFORE THE REPAIR (`CMAsIs`): the reported node `[17,20)` covers the bytes `"\n f"`, not `foo` (which is
at `[18,21)`), the Suggest would replace those bytes, and — the file being readable — the message shows them. -/
theorem cr_counterexample :
    CMAsIs.runCommentRules false crSrc crSrc.length 0 11 crText [crRuleAsIs] =
      .ok (some ⟨0, 5, some ⟨17, [102, 111, 111]⟩, [32, 102, 111], some (17, 20, [88])⟩) ∧
    slice crSrc 17 20 = [32, 102, 111] ∧ slice crSrc 18 21 = [102, 111, 111] ∧ ¬ NoCR crSrc 11 crText := by
  refine ⟨by decide, by decide, by decide, by unfold NoCR; decide⟩

/-- the code as it stands, same input: the node is `[18,21)`, the message shows `foo`, the Suggest replaces `foo`;
and the scanner model produces that comment text from the file's bytes -/
theorem cr_repaired :
    commentText crRaw = crText ∧
    runCommentRules false crSrc crSrc.length 0 11 crText [crRule] =
      .ok (some ⟨0, 5, some ⟨18, [102, 111, 111], 21⟩, [102, 111, 111], some (18, 21, [88])⟩) ∧
    SpecC12.verdict 0 crSrc 11 crText [toSpecRule { crRule with line := 6 }]
      (some ⟨6, some (18, 21), [102, 111, 111], some (18, 21, [88])⟩) = [] := by
  refine ⟨by decide, by decide, by decide⟩

/-- a match lying across a line break, `a\r\n foo` (text index 3..9): the span `[14,21)` takes the carriage return in;
an empty match at the end of the first line (`(?m)$`, index 4) sits before the carriage return, at 15; a match that ends
with the line's last byte (`a`, index 3..4) ends before the carriage return -/
example : textSpan crSrc 11 crText 3 9 = .ok (14, 21) := by decide
example : textSpan crSrc 11 crText 4 4 = .ok (15, 15) := by decide
example : textSpan crSrc 11 crText 3 4 = .ok (14, 15) := by decide
example : textSpan crSrc 11 crText 4 5 = .ok (16, 17) := by decide
example : textSpan crSrc 11 crText 0 12 = .ok (11, 24) := by decide
example : textSpan [] 11 crText 6 9 = .ok (17, 20) := by decide
-- `/* *\r\r/ */`: the scanner keeps the second carriage return; `*\r/` (text 3..6) is `*\r\r/` (file 3..7)
example : commentText [47, 42, 32, 42, 13, 13, 47, 32, 42, 47] = [47, 42, 32, 42, 13, 47, 32, 42, 47] := by decide
example : textSpan [47, 42, 32, 42, 13, 13, 47, 32, 42, 47] 0 [47, 42, 32, 42, 13, 47, 32, 42, 47] 3 6 = .ok (3, 7) := by decide
-- `// a\r` followed by `\n`: the final carriage return is not part of the text
example : commentText [47, 47, 32, 97, 13] = [47, 47, 32, 97] := by decide

/-- the hypothesis `View` of the theorems is satisfiable by a CRLF block comment, read from the file -/
theorem cr_view : View crSrc crSrc crSrc.length 11 crText where
  cr := by
    have h := crtext_of_scan [112, 97, 99, 107, 97, 103, 101, 32, 112, 13, 10] crRaw [13, 10]
    have e : commentText crRaw = crText := by decide
    rw [e] at h
    exact h
  seen := .inl rfl
  fit := by decide
  size := by decide

/-- D12: with two alternatives on lines 6 and 7 of a rule starting on line 5, a match of the second
alternative was reported with line 5 before `fixes/comment-rule-line.diff`; the code as it stands reports 7 -/
def altRules : List CRule :=
  [{ captureGroups := false, names := [[]], sub := none, idx := none, filter := none, msg := [109], location := [],
     suggestion := [], line := 5, altLine := 6 },
   { captureGroups := false, names := [[]], sub := some [3, 6], idx := some (3, 6), filter := none, msg := [109],
     location := [], suggestion := [], line := 5, altLine := 7 }]

theorem rule_line_counterexample :
    (runCommentRules false [] 30 0 10 [47, 47, 32, 102, 111, 111] altRules).isOk = true ∧
    runCommentRules false [] 30 0 10 [47, 47, 32, 102, 111, 111] altRules =
      .ok (some ⟨1, 5, some ⟨13, [102, 111, 111], 16⟩, [109], none⟩) ∧
    runCommentRules true [] 30 0 10 [47, 47, 32, 102, 111, 111] altRules =
      .ok (some ⟨1, 7, some ⟨13, [102, 111, 111], 16⟩, [109], none⟩) := by
  refine ⟨by decide, by decide, by decide⟩

/-! ## non-vacuity -/

-- `(?P<x>collegue)|(commitee)` on `// commitee`: group x did not participate
def npRule : CRule :=
  { captureGroups := true, names := [[], [120], []], sub := some [3, 11, -1, -1, 3, 11], idx := some (3, 11), filter := none,
    msg := [120, 61, 91, 36, 120, 93, 32, 36, 36], location := [], suggestion := [], line := 5, altLine := 5 }
def npText : Bytes := [47, 47, 32, 99, 111, 109, 109, 105, 116, 101, 101]

example : runCommentRules false [] 40 0 10 npText [npRule] =
    .ok (some ⟨0, 5, some ⟨13, [99, 111, 109, 109, 105, 116, 101, 101], 21⟩,
      [120, 61, 91, 93, 32, 99, 111, 109, 109, 105, 116, 101, 101], none⟩) := by decide
example : WFGroup npText [3, 11, -1, -1, 3, 11] 1 := ⟨-1, -1, rfl, rfl, .inl (by decide)⟩
example : InRange npText 3 11 := by unfold InRange; decide
example : namedCaps [] 10 npText [3, 11, -1, -1, 3, 11] 0 [[], [120], []] = [⟨[120], ⟨10, [], 10⟩⟩] := by decide
example : NoCR ([112, 10] ++ npText) 2 npText := by unfold NoCR; decide
example : hasCaptureGroups (some (node .concat [lit 0 [97], node .capture [lit 0 [98]]])) = true := by decide
example : hasCaptureGroups (some (node .concat [lit 0 [97], node .star [lit 0 [98]]])) = false := by decide

-- `(?s)(?P<x>a.*foo)` on the CRLF block comment `/* a\r\n foo */`: group x lies across the line break
def crossRule : CRule :=
  { captureGroups := true, names := [[], [120]], sub := some [3, 9, 3, 9], idx := some (3, 9), filter := some [.textEq [120] [97, 10, 32, 102, 111, 111]],
    msg := [36, 120], location := [120], suggestion := [36, 36, 33], line := 5, altLine := 5 }

/-- the Where sees the submatch text `a\n foo` (no carriage return), the node and the Suggest span are `[14,21)` =
`a\r\n foo` in the file, and the spec holds of that outcome -/
example : runCommentRules true crSrc crSrc.length 0 11 crText [crossRule] =
    .ok (some ⟨0, 5, some ⟨14, [97, 10, 32, 102, 111, 111], 21⟩, [97, 10, 32, 102, 111, 111],
      some (14, 21, [97, 10, 32, 102, 111, 111, 33])⟩) := by decide
example : SpecC12.verdict 0 crSrc 11 crText [toSpecRule crossRule]
    (some ⟨5, some (14, 21), [97, 10, 32, 102, 111, 111], some (14, 21, [97, 10, 32, 102, 111, 111, 33])⟩) = [] := by decide
example : SpecC12.verdict 0 crSrc 11 crText [toSpecRule crossRule]
    (some ⟨5, some (13, 19), [97, 10, 32, 102, 111, 111], some (13, 19, [97, 10, 32, 102, 111, 111, 33])⟩) = ["span", "span-bytes"] := by decide

-- the hypotheses of `model_meets_spec` are satisfiable with a CRLF file: `crossRule` on `cr_view`
example : RuleOK crText crossRule where
  oracle := {
    names0 := ⟨_, rfl⟩
    groups := by
      intro v hv
      simp only [crossRule, Option.some.injEq] at hv
      subst hv
      refine ⟨?_, 3, 9, rfl, rfl, by unfold InRange; decide, rfl⟩
      intro j hj
      simp only [crossRule, List.length_cons, List.length_nil] at hj
      have : j = 0 ∨ j = 1 := by omega
      rcases this with rfl | rfl
      · exact ⟨3, 9, rfl, rfl, .inr (.inr (by unfold InRange; decide))⟩
      · exact ⟨3, 9, rfl, rfl, .inr (.inr (by unfold InRange; decide))⟩
    noMatch := by intro h; simp [crossRule] at h
    fast := by intro h; simp [crossRule] at h }
  rule := {
    filterVars := by
      intro atoms h a ha
      simp only [crossRule, Option.some.injEq] at h
      subst h
      simp only [List.mem_singleton] at ha
      subst ha
      exact .inr ⟨by decide, by decide⟩
    location := .inr (.inr ⟨by decide, by decide⟩) }
  namesOK := by
    intro j1 j2 a b h1 h2 ha hb _
    have k1 : j1 = 1 := by
      rcases j1 with _ | _ | j1
      · simp [crossRule] at h1; exact absurd h1 ha
      · rfl
      · simp [crossRule] at h1
    have k2 : j2 = 1 := by
      rcases j2 with _ | _ | j2
      · simp [crossRule] at h2; exact absurd h2 hb
      · rfl
      · simp [crossRule] at h2
    rw [k1, k2]
  noDollar := by decide

-- … and with the rule `(?P<x>collegue)|(commitee)` on `// commitee` in an unreadable file
example : View [] ([112, 10] ++ npText) 13 2 npText where
  cr := crtext_of_noCR (by unfold NoCR; decide)
  seen := .inr ⟨rfl, by unfold NoCR; decide⟩
  fit := by decide
  size := by decide

example : RuleOK npText npRule where
  oracle := {
    names0 := ⟨_, rfl⟩
    groups := by
      intro v hv
      simp only [npRule, Option.some.injEq] at hv
      subst hv
      refine ⟨?_, 3, 11, rfl, rfl, by unfold InRange; decide, rfl⟩
      intro j hj
      simp only [npRule, List.length_cons, List.length_nil] at hj
      have : j = 0 ∨ j = 1 ∨ j = 2 := by omega
      rcases this with rfl | rfl | rfl
      · exact ⟨3, 11, rfl, rfl, .inr (.inr (by unfold InRange; decide))⟩
      · exact ⟨-1, -1, rfl, rfl, .inl (by decide)⟩
      · exact ⟨3, 11, rfl, rfl, .inr (.inr (by unfold InRange; decide))⟩
    noMatch := by intro h; simp [npRule] at h
    fast := by intro h; simp [npRule] at h }
  rule := {
    filterVars := by intro atoms h; simp [npRule] at h
    location := .inl rfl }
  namesOK := by
    intro j1 j2 a b h1 h2 ha hb _
    have k1 : j1 = 1 := by
      rcases j1 with _ | _ | _ | j1
      · simp [npRule] at h1; exact absurd h1 ha
      · rfl
      · simp [npRule] at h1; exact absurd h1 ha
      · simp [npRule] at h1
    have k2 : j2 = 1 := by
      rcases j2 with _ | _ | _ | j2
      · simp [npRule] at h2; exact absurd h2 hb
      · rfl
      · simp [npRule] at h2; exact absurd h2 hb
      · simp [npRule] at h2
    rw [k1, k2]
  noDollar := by decide

end C12
