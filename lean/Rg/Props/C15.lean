import Rg.Model.Trunc
import Rg.Proofs.Trunc
import Rg.Spec.C15
/-!
# C15 — interpolated text is shortened only when it exceeds TruncateLen

Property theorems (all lengths, all limits), non-vacuity examples, and the kernel-checked
counterexamples against the pre-fix function.
-/

namespace C15

/-- Text that fits is substituted unchanged. -/
theorem fits (s : Bytes) (cfg : Int) (h : (s.length : Int) ≤ effLen cfg) :
    interp true s cfg = .ok s := by
  simp only [interp, if_true]; exact trunc_fits s _ h

/-- Text that does not fit becomes prefix ++ "<...>" ++ suffix of total length exactly the limit
(for every limit that can hold the marker). -/
theorem elide (s : Bytes) (cfg : Int) (hL : 5 ≤ effLen cfg) (h : (s.length : Int) > effLen cfg) :
    ∃ p q, interp true s cfg = .ok (p ++ marker ++ q) ∧ p <+: s ∧ q <:+ s ∧
      ((p ++ marker ++ q).length : Int) = effLen cfg := by
  simp only [interp, if_true]; exact trunc_elide s _ hL h

/-- No limit whatsoever (negative, 1..4, huge) makes interpolation fail. -/
theorem total (b : Bool) (s : Bytes) (cfg : Int) : ∃ r, interp b s cfg = .ok r := by
  cases b
  · exact ⟨s, rfl⟩
  · simp only [interp, if_true]; exact trunc_total s _

/-- Suggestion text (truncate = false) is never shortened. -/
theorem suggest_never_truncated (s : Bytes) (cfg : Int) : interp false s cfg = .ok s := rfl

/-- The default applies exactly when the configured limit is zero. -/
theorem default_is_60 : effLen 0 = 60 ∧ ∀ c, c ≠ 0 → effLen c = c := by
  constructor
  · rfl
  · intro c h; simp [effLen, h]

/-- Even below the marker size the result is prefix ++ marker ++ suffix (with empty affixes). -/
theorem small_limit (s : Bytes) (cfg : Int) (hL : effLen cfg < 5) (h : (s.length : Int) > effLen cfg) :
    interp true s cfg = .ok marker := by
  simp only [interp, if_true]; exact trunc_small s _ hL h

/-- The model satisfies the executable statement of the property that the search runs against the
implementation. -/
theorem model_meets_spec (b : Bool) (s : Bytes) (cfg : Int) :
    SpecC15.specHolds b s cfg (interp b s cfg) = true := by
  cases b
  · simp [interp, SpecC15.specHolds]
  · have hlim : SpecC15.limit cfg = effLen cfg := rfl
    by_cases h : (s.length : Int) ≤ effLen cfg
    · rw [fits s cfg h]; simp [SpecC15.specHolds, hlim, h]
    · by_cases h5 : 5 ≤ effLen cfg
      · obtain ⟨p, q, hr, hp, hq, hlen⟩ := elide s cfg h5 (by omega)
        rw [hr]
        simp only [SpecC15.specHolds, hlim, h, h5, if_false, if_true, Bool.not_true,
          Bool.false_eq_true, Bool.and_eq_true, beq_iff_eq, List.any_eq_true, List.mem_range]
        refine ⟨hlen, p.length, by simp; omega, ?_⟩
        have hm : marker = SpecC15.marker := rfl
        simp [SpecC15.splitAt, hp, hq, ← hm, marker]
      · obtain ⟨r, hr⟩ := total true s cfg
        rw [hr]; simp [SpecC15.specHolds, hlim, h, h5]

-- non-vacuity: the hypotheses of `elide` and `fits` are met by concrete inputs
example : (5:Int) ≤ effLen 0 ∧ ((List.replicate 61 (120:UInt8)).length : Int) > effLen 0 := by decide
example : ((List.replicate 60 (120:UInt8)).length : Int) ≤ effLen 0 := by decide
example : interp true (List.replicate 61 120) 0 =
    .ok (List.replicate 27 120 ++ marker ++ List.replicate 28 120) := by decide

-- kernel-checked counterexamples for the function as it stood before the fix (D4)
example : truncAsIs (List.replicate 56 120) 60 ≠ .ok (List.replicate 56 120) := by decide
example : truncAsIs (List.replicate 10 120) 3 = .panic .slice := by decide

end C15
