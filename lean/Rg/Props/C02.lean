import Rg.Model.Preds
import Rg.Spec.C02
import Rg.Gen.FilterTables
import Rg.Proofs.Preds
/-!
# C02 — Where() predicates mean what the Go type system says they mean

Theorems about the model of the predicates' own logic (`PR.*`) against the documented meaning
(`SpecC02.*`), for every type shape, expression shape, object, node and version; obligations on the
tables regenerated from the code on every run (`Gen.FilterTables`).
`fixed = false` is the code as it stands, `fixed = true` the code after
`fixes/ofkind-untyped.diff`, `fixes/isglobal-nil-object.diff`, `fixes/alias-transparent-type-predicates.diff`.
-/
namespace C02
open PR

/-! ## regenerated tables -/

def lookup (k : String) : List (String × List String) → List String
  | [] => []
  | (a, b) :: r => if a == k then b else lookup k r

/-- the model's `stringToBasicKind` (the repaired variant: the code after `fix: Type.OfKind("untyped") …`) is what
the hook reads out of the code, name by name -/
theorem kind_table_tied :
    Gen.FilterTables.kindBits.all (fun p => stringToBasicKind true p.1 == p.2) = true := by decide

/-- the go/types constants the model hard-codes are those of the go/types package in use -/
theorem gotypes_consts_tied :
    Gen.FilterTables.goTypesConsts =
      [("kInt", kInt), ("kInt64", kInt + 4), ("kUint", kUint), ("kUint8", kUint8), ("kUint64", kUint + 4),
       ("kUintptr", kUint + 5), ("kString", kString), ("kUnsafePointer", kUnsafePointer),
       ("kUntypedString", kUntypedString), ("kUntypedNil", kUntypedNil),
       ("bInteger", bInteger), ("bUnsigned", bUnsigned), ("bFloat", bFloat), ("bComplex", bComplex),
       ("bUntyped", bUntyped), ("bNumeric", bNumeric)] := by decide

/-- the intended wiring of every documented predicate: DSL selector path, IR op, constructor -/
def expectedWiring : List (String × String × String) := [
  ("Pure", "FilterVarPureOp", "makePureFilter"),
  ("Const", "FilterVarConstOp", "makeConstFilter"),
  ("ConstSlice", "FilterVarConstSliceOp", "makeConstSliceFilter"),
  ("Addressable", "FilterVarAddressableOp", "makeAddressableFilter"),
  ("Comparable", "FilterVarComparableOp", "makeComparableFilter"),
  ("Type.Is", "FilterVarTypeIsOp", "makeTypeIsFilter"),
  ("Type.Underlying.Is", "FilterVarTypeUnderlyingIsOp", "makeTypeIsFilter"),
  ("Type.OfKind", "FilterVarTypeOfKindOp", "makeTypeOfKindFilter"),
  ("Type.OfKind", "FilterVarTypeOfKindOp", "makeTypeIsSignedFilter"),
  ("Type.OfKind", "FilterVarTypeOfKindOp", "makeTypeIsIntUintFilter"),
  ("Type.Underlying.OfKind", "FilterVarTypeUnderlyingOfKindOp", "makeTypeOfKindFilter"),
  ("Type.AssignableTo", "FilterVarTypeAssignableToOp", "makeTypeAssignableToFilter"),
  ("Type.ConvertibleTo", "FilterVarTypeConvertibleToOp", "makeTypeConvertibleToFilter"),
  ("Type.Implements", "FilterVarTypeImplementsOp", "makeTypeImplementsFilter"),
  ("Type.HasMethod", "FilterVarTypeHasMethodOp", "makeTypeHasMethodFilter"),
  ("Type.HasPointers", "FilterVarTypeHasPointersOp", "makeTypeHasPointersFilter"),
  ("Type.IdenticalTo", "FilterVarTypeIdenticalToOp", "makeTypesIdenticalFilter"),
  ("Object.Is", "FilterVarObjectIsOp", "makeObjectIsFilter"),
  ("Object.IsGlobal", "FilterVarObjectIsGlobalOp", "makeObjectIsGlobalFilter"),
  ("Object.IsVariadicParam", "FilterVarObjectIsVariadicParamOp", "makeObjectIsVariadicParamFilter"),
  ("Node.Is", "FilterVarNodeIsOp", "makeNodeIsFilter"),
  ("Node.Parent.Is", "FilterRootNodeParentIsOp", "makeRootParentNodeIsFilter"),
  ("SinkType.Is", "FilterRootSinkTypeIsOp", "makeRootSinkTypeIsFilter"),
  ("Text.Matches", "FilterVarTextMatchesOp", "makeTextMatchesFilter"),
  ("Contains", "FilterVarContainsOp", "makeVarContainsFilter"),
  ("File.Imports", "FilterFileImportsOp", "makeFileImportsFilter"),
  ("File.Name.Matches", "FilterFileNameMatchesOp", "makeFileNameMatchesFilter"),
  ("File.PkgPath.Matches", "FilterFilePkgPathMatchesOp", "makeFilePkgPathMatchesFilter"),
  ("GoVersion.Eq", "FilterGoVersionEqOp", "makeGoVersionFilter"),
  ("GoVersion.LessThan", "FilterGoVersionLessThanOp", "makeGoVersionFilter"),
  ("GoVersion.GreaterThan", "FilterGoVersionGreaterThanOp", "makeGoVersionFilter"),
  ("GoVersion.LessEqThan", "FilterGoVersionLessEqThanOp", "makeGoVersionFilter"),
  ("GoVersion.GreaterEqThan", "FilterGoVersionGreaterEqThanOp", "makeGoVersionFilter"),
  ("Deadcode", "FilterDeadcodeOp", "makeDeadcodeFilter")]

/-- irconv maps every documented selector path to its own op and newFilter maps that op to its own
constructor, in the code as extracted on this run; single-constructor ops call nothing else -/
theorem wiring_ok :
    expectedWiring.all (fun w =>
      (lookup w.1 Gen.FilterTables.pathToOp).contains w.2.1 &&
      (lookup w.2.1 Gen.FilterTables.opToCtor).contains w.2.2) = true := by decide

/-- no two documented paths share an op (each predicate has its own wire) -/
theorem wiring_injective :
    (Gen.FilterTables.pathToOp.all fun p => Gen.FilterTables.pathToOp.all fun q =>
      p.1 == q.1 || !(p.2.any fun o => o != "FilterStringOp" && q.2.contains o)) = true := by decide

/-! ## Type.OfKind / Type.Underlying().OfKind -/

/-- the documented kind → `BasicInfo` mask table (dsl.go) -/
def specKindBits : KindName → Nat
  | .integer => 2 | .unsigned => 4 | .float => 8 | .complex => 16 | .untyped => 64 | .numeric => 26
  | _ => 0

/-- after the repair `stringToBasicKind` is the documented table, for every string -/
theorem kind_table_spec (s : String) : stringToBasicKind true s = specKindBits (kindOfString s) := by
  unfold stringToBasicKind
  cases kindOfString s <;> rfl

/-- the code as it stands differs from it exactly on "untyped" -/
theorem kind_table_spec_partial (s : String) (h : kindOfString s ≠ .untyped) :
    stringToBasicKind false s = specKindBits (kindOfString s) := by
  unfold stringToBasicKind
  cases hk : kindOfString s <;> simp_all [basicKindOf, specKindBits, bInteger, bUnsigned, bFloat, bComplex, bNumeric]

/-- a kind the loader accepts is a documented kind and vice versa -/
theorem ofKind_loads_iff (u : Bool) (kind : String) :
    (PR.ofKind true u kind).isSome = (SpecC02.kindHolds (kindOfString kind) 0 0).isSome := by
  unfold PR.ofKind
  cases kindOfString kind <;> simp [PR.ofKindK, SpecC02.kindHolds, basicKindOf, bInteger, bUnsigned, bFloat, bComplex, bUntyped, bNumeric]

theorem ofKindK_eq_spec (u : Bool) (kind : KindName) (f : Ty → Bool) (t : Ty)
    (h : PR.ofKindK true u kind = some f) : SpecC02.ofKindK u kind t = some (f t) := by
  have hv := asBasic_spec u t
  unfold SpecC02.ofKindK
  cases hb : (if u = true then SpecC02.under t else SpecC02.unalias t) with
  | basic k i =>
    rw [hb] at hv
    cases kind <;> simp [PR.ofKindK, basicKindOf, bInteger, bUnsigned, bFloat, bComplex, bUntyped, bNumeric] at h <;>
      subst h <;>
      simp [SpecC02.kindHolds, typeIsSigned, typeIsIntUint, typeOfKind, hv, basicView, bInteger, bUnsigned, kInt, kUint] <;>
      (try rfl) <;> (cases h4 : (i &&& 4 == 0) <;> simp_all [bne])
  | _ =>
    rw [hb] at hv
    cases kind <;> simp [PR.ofKindK, basicKindOf, bInteger, bUnsigned, bFloat, bComplex, bUntyped, bNumeric] at h <;>
      subst h <;>
      simp [SpecC02.kindHolds, typeIsSigned, typeIsIntUint, typeOfKind, hv, basicView]

/-- After the repairs: `OfKind(kind)` accepts a type iff the documented fact holds (aliases transparent). -/
theorem ofKind_eq_spec (u : Bool) (kind : String) (f : Ty → Bool) (t : Ty)
    (h : PR.ofKind true u kind = some f) : SpecC02.ofKind u kind t = some (f t) :=
  ofKindK_eq_spec u (kindOfString kind) f t h

theorem ofKindK_asis (u : Bool) (kind : KindName) (f : Ty → Bool) (t : Ty)
    (hk : kind ≠ .untyped) (ha : noAlias t = true) (h : PR.ofKindK false u kind = some f) :
    ∃ g, PR.ofKindK true u kind = some g ∧ g t = f t := by
  have hb := asBasic_asis_eq u t ha
  cases kind <;> simp [PR.ofKindK, basicKindOf, bInteger, bUnsigned, bFloat, bComplex, bNumeric] at h hk ⊢ <;>
    subst h <;> simp [typeOfKind, typeIsSigned, typeIsIntUint, hb]

/-- The code as it stands: the same for every kind but "untyped", on types without alias nodes. -/
theorem ofKind_eq_spec_partial (u : Bool) (kind : String) (f : Ty → Bool) (t : Ty)
    (hk : kindOfString kind ≠ .untyped) (ha : noAlias t = true)
    (h : PR.ofKind false u kind = some f) : SpecC02.ofKind u kind t = some (f t) := by
  obtain ⟨g, hg, hgt⟩ := ofKindK_asis u (kindOfString kind) f t hk ha h
  rw [← hgt]
  exact ofKindK_eq_spec u (kindOfString kind) g t hg

/-! ## Type.HasPointers -/

/-- After the repair `HasPointers` is exactly "the layout contains a pointer word" (aliases transparent,
type parameters conservatively `true`). -/
theorem hasPointers_eq_spec (t : Ty) : typeHasPointers true t = SpecC02.containsPointer t :=
  hasPointers_fixed_eq t

/-- The code as it stands never answers `false` for a type that contains a pointer (the documented guarantee) … -/
theorem hasPointers_sound (t : Ty) (h : SpecC02.containsPointer t = true) : typeHasPointers false t = true :=
  hasPointers_asis_ge t (by rw [hasPointers_fixed_eq]; exact h)

/-- … and is exact on types without alias nodes. -/
theorem hasPointers_eq_spec_partial (t : Ty) (ha : noAlias t = true) :
    typeHasPointers false t = SpecC02.containsPointer t := by
  rw [hasPointers_asis_eq t ha, hasPointers_fixed_eq]

/-! ## Pure, ConstSlice -/

/-- `Pure` never accepts an expression that has a side effect … -/
theorem pure_sound (e : Ex) (h : isPure e = true) : SpecC02.pure e = true := isPure_sound e h

/-- … and accepts every side-effect-free expression built from the node kinds on its whitelist
(`plain`: no key-value element, slice expression, type assertion or type literal operand). -/
theorem pure_eq_spec_partial (e : Ex) (hp : plain e = true) : isPure e = SpecC02.pure e := by
  cases h : SpecC02.pure e with
  | true => exact isPure_complete e hp h
  | false =>
    cases h' : isPure e with
    | false => rfl
    | true => rw [isPure_sound e h'] at h; exact absurd h (by simp)

theorem constSlice_call (fn : Ex) (args : List Ex) (fbs : Bool) :
    isConstantSlice (.call fn args fbs) = SpecC02.constSlice (.call fn args fbs) := by
  cases args with
  | nil => simp [isConstantSlice, SpecC02.constSlice]
  | cons a rest =>
    cases rest with
    | cons b r => cases a <;> simp [isConstantSlice, SpecC02.constSlice]
    | nil =>
      cases a <;> simp [isConstantSlice, SpecC02.constSlice]
      rename_i b; cases b <;> simp

/-- every documented constant slice is accepted … -/
theorem constSlice_complete (e : Ex) (h : SpecC02.constSlice e = true) : isConstantSlice e = true := by
  cases e with
  | call fn args fbs => rw [constSlice_call]; exact h
  | composite elts cs sl => simp_all [SpecC02.constSlice, isConstantSlice]
  | _ => simp [SpecC02.constSlice] at h

/-- … and, among composite literals of slice or array type and calls, nothing else. -/
theorem constSlice_eq_spec_partial (e : Ex)
    (h : ∀ elts cs sl, e = .composite elts cs sl → sl = true) : isConstantSlice e = SpecC02.constSlice e := by
  cases e <;> (try exact constSlice_call _ _ _) <;> simp_all [SpecC02.constSlice, isConstantSlice]

/-! ## Object.Is / IsGlobal / IsVariadicParam -/

theorem objectIs_eq_spec (k : ObjKind) (e : Option Ex) : objectIs k e = SpecC02.objectIs k e := by
  cases e with
  | none => rfl
  | some e =>
    simp only [objectIs, SpecC02.objectIs, SpecC02.objectOf, identOf_eq]
    cases SpecC02.identOfExpr e with
    | none => rfl
    | some o => cases o <;> rfl

theorem objOf_eq (e : Option Ex) : objOf e = SpecC02.objectOf e := by
  cases e with
  | none => rfl
  | some e =>
    simp only [objOf, SpecC02.objectOf, identOf_eq]
    cases SpecC02.identOfExpr e <;> rfl

/-- After the repair `IsGlobal` answers (never panics) and is the documented fact. -/
theorem isGlobal_eq_spec (e : Option Ex) : objectIsGlobal true e = .ok (SpecC02.objectIsGlobal e) := by
  simp only [objectIsGlobal, SpecC02.objectIsGlobal, objOf_eq]
  cases SpecC02.objectOf e <;> rfl

/-- The code as it stands: only when the capture is an identifier (or selector) that has an object. -/
theorem isGlobal_eq_spec_partial (e : Option Ex) (h : (SpecC02.objectOf e).isSome = true) :
    objectIsGlobal false e = .ok (SpecC02.objectIsGlobal e) := by
  simp only [objectIsGlobal, SpecC02.objectIsGlobal, objOf_eq]
  cases ho : SpecC02.objectOf e with
  | none => simp [ho] at h
  | some o => rfl

/-- `IsVariadicParam` is the documented fact whenever the variadic parameters in sight are those of the
enclosing function declaration (not of a function literal). -/
theorem isVariadic_eq_spec_partial (cf : CurFunc) (e : Option Ex)
    (h : ∀ o, SpecC02.objectOf e = some o → o.variadicParam = (decide (cf = .decl true) && o.lastParamOfDecl)) :
    objectIsVariadicParam cf e = SpecC02.objectIsVariadicParam e := by
  unfold objectIsVariadicParam SpecC02.objectIsVariadicParam
  rw [objOf_eq]
  cases ho : SpecC02.objectOf e with
  | none => cases cf <;> simp <;> (rename_i v; cases v <;> simp)
  | some o =>
    have := h o ho
    cases cf <;> simp_all <;> (rename_i v; cases v <;> simp_all)

/-! ## Node.Is -/

theorem nodeIs_eq_spec (n : Option NodeF) (tag : String) : nodeIs n tag = SpecC02.nodeIs n tag := by
  unfold nodeIs SpecC02.nodeIs
  by_cases h3 : (tag == "Node") = true
  · have := eq_of_beq h3; subst this
    have e1 : ("Node" == "Expr") = false := by decide
    have e2 : ("Node" == "Stmt") = false := by decide
    cases n <;> simp [e1, e2]
  · by_cases h1 : (tag == "Expr") = true
    · have := eq_of_beq h1; subst this
      cases n <;> simp
    · by_cases h2 : (tag == "Stmt") = true
      · have := eq_of_beq h2; subst this
        cases n <;> simp
      · cases n with
        | none => simp [h1, h2, h3]
        | some f => simp only [h1, h2, h3]; simp [eq_comm, BEq.comm]

/-! ## GoVersion -/

theorem versionCompare_eq_spec (x y : GoVersion) (t : FIR.Tok) : versionCompare x t y = SpecC02.versionRel t x y := by
  cases t <;> simp [versionCompare, SpecC02.versionRel] <;> (try (rw [Bool.eq_iff_iff]; simp)) <;> (try omega)

theorem goVersion_eq_spec (target v : GoVersion) (t : FIR.Tok) :
    goVersionFilter target t v = SpecC02.goVersion target t v := by
  simp only [goVersionFilter, SpecC02.goVersion, versionCompare_eq_spec]
  by_cases h : target.major = 0 <;> simp [h]

/-- the order the filters compare with is a strict total order on (major, minor) -/
theorem version_trichotomy (x y : GoVersion) :
    versionCompare x .lss y = true ∨ x = y ∨ versionCompare y .lss x = true := by
  obtain ⟨a, b⟩ := x; obtain ⟨c, d⟩ := y
  simp only [versionCompare, GoVersion.mk.injEq]
  simp only [Bool.or_eq_true, Bool.and_eq_true, decide_eq_true_eq, beq_iff_eq]
  omega

theorem version_lt_irrefl (x : GoVersion) : versionCompare x .lss x = false := by
  simp [versionCompare]

theorem version_lt_trans (x y z : GoVersion) (h1 : versionCompare x .lss y = true) (h2 : versionCompare y .lss z = true) :
    versionCompare x .lss z = true := by
  simp only [versionCompare, Bool.or_eq_true, Bool.and_eq_true, decide_eq_true_eq, beq_iff_eq] at *
  omega

theorem version_ops_consistent (x y : GoVersion) :
    versionCompare x .leq y = (versionCompare x .lss y || versionCompare x .eql y) ∧
    versionCompare x .geq y = !versionCompare x .lss y ∧
    versionCompare x .gtr y = versionCompare y .lss x ∧
    versionCompare x .neq y = !versionCompare x .eql y := by
  refine ⟨?_, ?_, ?_, ?_⟩ <;> simp [versionCompare] <;> (try (rw [Bool.eq_iff_iff]; simp)) <;> omega

/-! ## delegated relations and `$*xs` -/

/-- the predicates that read `subExpr` are "the relation holds for the captured expression's type, for
every element of a list capture" … -/
theorem rel_eq_spec (r : Rel) (o : Oracle)
    (hr : r = .convertibleTo ∨ r = .assignableTo ∨ r = .implements ∨ r = .addressable ∨ r = .const) :
    relFilter r o = SpecC02.relHolds o := by
  rcases hr with rfl | rfl | rfl | rfl | rfl <;> simp [relFilter, SpecC02.relHolds, allElems] <;> rfl

/-- … those that read `subNode` agree when the capture is an expression (the two accessors coincide);
`HasMethod` / `IdenticalTo` in addition ignore expression lists. -/
theorem rel_eq_spec_partial (r : Rel) (o : Oracle) (h : o.onSubNode = o.onSubExpr)
    (hl : (r = .hasMethod ∨ r = .identicalTo) → o.onElems = none) :
    relFilter r o = SpecC02.relHolds o := by
  cases r <;> simp_all [relFilter, SpecC02.relHolds, allElems] <;> rfl

/-- list captures: the list-aware expression predicates are the conjunction over the elements -/
theorem exprList_forall (p : Option Ex → Bool) (es : List Ex) :
    exprFilter p (.list es) = es.all (fun e => p (some e)) := rfl

theorem pure_cap_sound (c : ExCap) (h : exprFilter pureOpt c = true) : SpecC02.onCap SpecC02.pureOpt c = true := by
  cases c with
  | one e => cases e <;> simp_all [exprFilter, SpecC02.onCap, pureOpt, SpecC02.pureOpt]; exact isPure_sound _ h
  | list es =>
    simp only [exprFilter, SpecC02.onCap, List.all_eq_true] at *
    intro e he
    exact isPure_sound e (h e he)

/-! ## non-vacuity and kernel-checked counterexamples -/

def tInt8 : Ty := .basic 3 2
def tUint8 : Ty := .basic 8 6
def tUntypedNil : Ty := .basic 25 64
def tAlias8 : Ty := .alias tInt8
def objVar (g lp vp : Bool) : Obj := ⟨.var, g, lp, vp⟩

example : ∃ f, PR.ofKind true false "untyped" = some f ∧ f tUntypedNil = true ∧ f tUint8 = false := ⟨_, rfl, by decide, by decide⟩
example : noAlias (.named (.strct [tInt8, .array tUint8])) = true := by decide
example : plain (.binary (.ident none) (.call (.ident (some ⟨.typeName, true, false, false⟩)) [.basicLit false] false)) = true := by decide
-- D7: the code as it stands maps "untyped" to the unsigned bit: it accepts uint8 and rejects untyped nil
example : ∃ f, PR.ofKind false false "untyped" = some f ∧ f tUint8 = true ∧ f tUntypedNil = false ∧
    SpecC02.ofKind false "untyped" tUint8 = some false ∧ SpecC02.ofKind false "untyped" tUntypedNil = some true :=
  ⟨_, rfl, by decide, by decide, by decide, by decide⟩
-- alias nodes (gotypesalias=1): `type A = int8` is not "integer" and "has pointers" for the code as it stands
example : ∃ f, PR.ofKind false false "integer" = some f ∧ f tAlias8 = false ∧ SpecC02.ofKind false "integer" tAlias8 = some true :=
  ⟨_, rfl, by decide, by decide⟩
example : typeHasPointers false tAlias8 = true ∧ SpecC02.containsPointer tAlias8 = false := by decide
example : typeHasPointers true tAlias8 = false := by decide
-- D8: IsGlobal on a capture that is not an identifier
example : objectIsGlobal false (some (.binary (.ident (some (objVar true false false))) (.basicLit false))) = .panic .nilDeref := by decide
example : objectIsGlobal true (some (.binary (.ident (some (objVar true false false))) (.basicLit false))) = .ok false := by decide
example : objectIsGlobal false (some (.paren (.ident (some (objVar true false false))))) = .ok true := by decide
-- IsVariadicParam: the `...T` parameter of a function literal inside a non-variadic declaration
example : objectIsVariadicParam (.decl false) (some (.ident (some (objVar false false true)))) = false ∧
    SpecC02.objectIsVariadicParam (some (.ident (some (objVar false false true)))) = true := by decide
-- Pure is conservative on node kinds outside its whitelist: S{a: 1}, s[1:2], x.(T)
example : isPure (.composite [.keyValue (.ident none) (.basicLit false)] [false] false) = false ∧
    SpecC02.pure (.composite [.keyValue (.ident none) (.basicLit false)] [false] false) = true := by decide
example : isPure (.slice (.ident none) [.basicLit false]) = false ∧ SpecC02.pure (.slice (.ident none) [.basicLit false]) = true := by decide
-- ConstSlice accepts a struct literal of constants
example : isConstantSlice (.composite [.basicLit false, .basicLit false] [true, true] false) = true ∧
    SpecC02.constSlice (.composite [.basicLit false, .basicLit false] [true, true] false) = false := by decide
-- versions
example : parseGoVersion [49, 46, 49, 54] = some ⟨1, 16⟩ ∧ parseGoVersion [49] = none ∧ parseGoVersion [] = some ⟨0, 0⟩ ∧
    parseGoVersion [49, 46, 120] = none := by decide
example : goVersionFilter ⟨0, 0⟩ .lss ⟨1, 16⟩ = true ∧ goVersionFilter ⟨1, 15⟩ .lss ⟨1, 16⟩ = true ∧
    goVersionFilter ⟨2, 0⟩ .lss ⟨1, 16⟩ = false := by decide

end C02
