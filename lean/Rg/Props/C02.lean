import Rg.Model.Preds
import Rg.Spec.C02
import Rg.Gen.FilterTables
import Rg.Proofs.Preds
import Rg.Props.C02Sink
/-!
# C02 — Where() predicates mean what the Go type system says they mean

Theorems about the model of the predicates' own logic (`PR.*`) against the documented meaning
(`SpecC02.*`), for every type shape, expression shape, object, node and version; obligations on the
tables regenerated from the code on every run (`Gen.FilterTables`).
Every repair is a flag of the model (`PR.Variant`): `base` = `fixes/ofkind-untyped.diff`,
`fixes/isglobal-nil-object.diff`, `fixes/alias-transparent-type-predicates.diff`; `lists` =
`fixes/c02-list-captures.diff`; `stmt` = `fixes/c02-typeof-exprstmt.diff`; `cslice` =
`fixes/c02-constslice-literal-type.diff`; `pure` = `fixes/c02-pure-whitelist.diff`; `flit` =
`fixes/c02-variadic-funclit.diff`.  The full-strength theorems are about the flags set (`Variant.repaired`, what the
correspondence compares the code with); the `_partial` ones and the kernel-checked counterexamples are about
the flags cleared (the code as it stood).  `pred_eq_spec` assembles everything over `PR.evalPred`, the
dispatch of `newFilter` the driver runs.
-/
namespace C02
open PR

/-! ## regenerated tables -/

def lookup (k : String) : List (String × List String) → List String
  | [] => []
  | (a, b) :: r => if a == k then b else lookup k r

/-- the model's `stringToBasicKind` (the repaired variant: the code after `fix: Type.OfKind("untyped") …`) is what
the hook reads out of the code, name by name -/
theorem kind_table_tied :
    Gen.FilterTables.kindBits.all (fun p => stringToBasicKind true p.1 == p.2) = true := by decide

/-- the go/types constants the model hard-codes are those of the go/types package in use -/
theorem gotypes_consts_tied :
    Gen.FilterTables.goTypesConsts =
      [("kInt", kInt), ("kInt64", kInt + 4), ("kUint", kUint), ("kUint8", kUint8), ("kUint64", kUint + 4),
       ("kUintptr", kUint + 5), ("kString", kString), ("kUnsafePointer", kUnsafePointer),
       ("kUntypedString", kUntypedString), ("kUntypedNil", kUntypedNil),
       ("bInteger", bInteger), ("bUnsigned", bUnsigned), ("bFloat", bFloat), ("bComplex", bComplex),
       ("bUntyped", bUntyped), ("bNumeric", bNumeric)] := by decide

/-- the intended wiring of every documented predicate: DSL selector path, IR op, constructor -/
def expectedWiring : List (String × String × String) := [
  ("Pure", "FilterVarPureOp", "makePureFilter"),
  ("Const", "FilterVarConstOp", "makeConstFilter"),
  ("ConstSlice", "FilterVarConstSliceOp", "makeConstSliceFilter"),
  ("Addressable", "FilterVarAddressableOp", "makeAddressableFilter"),
  ("Comparable", "FilterVarComparableOp", "makeComparableFilter"),
  ("Type.Is", "FilterVarTypeIsOp", "makeTypeIsFilter"),
  ("Type.Underlying.Is", "FilterVarTypeUnderlyingIsOp", "makeTypeIsFilter"),
  ("Type.OfKind", "FilterVarTypeOfKindOp", "makeTypeOfKindFilter"),
  ("Type.OfKind", "FilterVarTypeOfKindOp", "makeTypeIsSignedFilter"),
  ("Type.OfKind", "FilterVarTypeOfKindOp", "makeTypeIsIntUintFilter"),
  ("Type.Underlying.OfKind", "FilterVarTypeUnderlyingOfKindOp", "makeTypeOfKindFilter"),
  ("Type.AssignableTo", "FilterVarTypeAssignableToOp", "makeTypeAssignableToFilter"),
  ("Type.ConvertibleTo", "FilterVarTypeConvertibleToOp", "makeTypeConvertibleToFilter"),
  ("Type.Implements", "FilterVarTypeImplementsOp", "makeTypeImplementsFilter"),
  ("Type.HasMethod", "FilterVarTypeHasMethodOp", "makeTypeHasMethodFilter"),
  ("Type.HasPointers", "FilterVarTypeHasPointersOp", "makeTypeHasPointersFilter"),
  ("Type.IdenticalTo", "FilterVarTypeIdenticalToOp", "makeTypesIdenticalFilter"),
  ("Object.Is", "FilterVarObjectIsOp", "makeObjectIsFilter"),
  ("Object.IsGlobal", "FilterVarObjectIsGlobalOp", "makeObjectIsGlobalFilter"),
  ("Object.IsVariadicParam", "FilterVarObjectIsVariadicParamOp", "makeObjectIsVariadicParamFilter"),
  ("Node.Is", "FilterVarNodeIsOp", "makeNodeIsFilter"),
  ("Node.Parent.Is", "FilterRootNodeParentIsOp", "makeRootParentNodeIsFilter"),
  ("SinkType.Is", "FilterRootSinkTypeIsOp", "makeRootSinkTypeIsFilter"),
  ("Text.Matches", "FilterVarTextMatchesOp", "makeTextMatchesFilter"),
  ("Contains", "FilterVarContainsOp", "makeVarContainsFilter"),
  ("File.Imports", "FilterFileImportsOp", "makeFileImportsFilter"),
  ("File.Name.Matches", "FilterFileNameMatchesOp", "makeFileNameMatchesFilter"),
  ("File.PkgPath.Matches", "FilterFilePkgPathMatchesOp", "makeFilePkgPathMatchesFilter"),
  ("GoVersion.Eq", "FilterGoVersionEqOp", "makeGoVersionFilter"),
  ("GoVersion.LessThan", "FilterGoVersionLessThanOp", "makeGoVersionFilter"),
  ("GoVersion.GreaterThan", "FilterGoVersionGreaterThanOp", "makeGoVersionFilter"),
  ("GoVersion.LessEqThan", "FilterGoVersionLessEqThanOp", "makeGoVersionFilter"),
  ("GoVersion.GreaterEqThan", "FilterGoVersionGreaterEqThanOp", "makeGoVersionFilter"),
  ("Deadcode", "FilterDeadcodeOp", "makeDeadcodeFilter")]

/-- irconv maps every documented selector path to its own op and newFilter maps that op to its own
constructor, in the code as extracted on this run; single-constructor ops call nothing else -/
theorem wiring_ok :
    expectedWiring.all (fun w =>
      (lookup w.1 Gen.FilterTables.pathToOp).contains w.2.1 &&
      (lookup w.2.1 Gen.FilterTables.opToCtor).contains w.2.2) = true := by decide

/-- no two documented paths share an op (each predicate has its own wire) -/
theorem wiring_injective :
    (Gen.FilterTables.pathToOp.all fun p => Gen.FilterTables.pathToOp.all fun q =>
      p.1 == q.1 || !(p.2.any fun o => o != "FilterStringOp" && q.2.contains o)) = true := by decide

/-! ## Type.OfKind / Type.Underlying().OfKind -/

/-- the documented kind → `BasicInfo` mask table (dsl.go) -/
def specKindBits : KindName → Nat
  | .integer => 2 | .unsigned => 4 | .float => 8 | .complex => 16 | .untyped => 64 | .numeric => 26
  | _ => 0

/-- after the repair `stringToBasicKind` is the documented table, for every string -/
theorem kind_table_spec (s : String) : stringToBasicKind true s = specKindBits (kindOfString s) := by
  unfold stringToBasicKind
  cases kindOfString s <;> rfl

/-- the code as it stands differs from it exactly on "untyped" -/
theorem kind_table_spec_partial (s : String) (h : kindOfString s ≠ .untyped) :
    stringToBasicKind false s = specKindBits (kindOfString s) := by
  unfold stringToBasicKind
  cases hk : kindOfString s <;> simp_all [basicKindOf, specKindBits, bInteger, bUnsigned, bFloat, bComplex, bNumeric]

/-- a kind the loader accepts is a documented kind and vice versa -/
theorem ofKind_loads_iff (u : Bool) (kind : String) :
    (PR.ofKind true u kind).isSome = (SpecC02.kindHolds (kindOfString kind) 0 0).isSome := by
  unfold PR.ofKind
  cases kindOfString kind <;> simp [PR.ofKindK, SpecC02.kindHolds, basicKindOf, bInteger, bUnsigned, bFloat, bComplex, bUntyped, bNumeric]

theorem ofKindK_eq_spec (u : Bool) (kind : KindName) (f : Ty → Bool) (t : Ty)
    (h : PR.ofKindK true u kind = some f) : SpecC02.ofKindK u kind t = some (f t) := by
  have hv := asBasic_spec u t
  unfold SpecC02.ofKindK
  cases hb : (if u = true then SpecC02.under t else SpecC02.unalias t) with
  | basic k i =>
    rw [hb] at hv
    cases kind <;> simp [PR.ofKindK, basicKindOf, bInteger, bUnsigned, bFloat, bComplex, bUntyped, bNumeric] at h <;>
      subst h <;>
      simp [SpecC02.kindHolds, typeIsSigned, typeIsIntUint, typeOfKind, hv, basicView, bInteger, bUnsigned, kInt, kUint] <;>
      (try rfl) <;> (cases h4 : (i &&& 4 == 0) <;> simp_all [bne])
  | _ =>
    rw [hb] at hv
    cases kind <;> simp [PR.ofKindK, basicKindOf, bInteger, bUnsigned, bFloat, bComplex, bUntyped, bNumeric] at h <;>
      subst h <;>
      simp [SpecC02.kindHolds, typeIsSigned, typeIsIntUint, typeOfKind, hv, basicView]

/-- After the repairs: `OfKind(kind)` accepts a type iff the documented fact holds (aliases transparent). -/
theorem ofKind_eq_spec (u : Bool) (kind : String) (f : Ty → Bool) (t : Ty)
    (h : PR.ofKind true u kind = some f) : SpecC02.ofKind u kind t = some (f t) :=
  ofKindK_eq_spec u (kindOfString kind) f t h

theorem ofKindK_asis (u : Bool) (kind : KindName) (f : Ty → Bool) (t : Ty)
    (hk : kind ≠ .untyped) (ha : noAlias t = true) (h : PR.ofKindK false u kind = some f) :
    ∃ g, PR.ofKindK true u kind = some g ∧ g t = f t := by
  have hb := asBasic_asis_eq u t ha
  cases kind <;> simp [PR.ofKindK, basicKindOf, bInteger, bUnsigned, bFloat, bComplex, bNumeric] at h hk ⊢ <;>
    subst h <;> simp [typeOfKind, typeIsSigned, typeIsIntUint, hb]

/-- The code as it stands: the same for every kind but "untyped", on types without alias nodes. -/
theorem ofKind_eq_spec_partial (u : Bool) (kind : String) (f : Ty → Bool) (t : Ty)
    (hk : kindOfString kind ≠ .untyped) (ha : noAlias t = true)
    (h : PR.ofKind false u kind = some f) : SpecC02.ofKind u kind t = some (f t) := by
  obtain ⟨g, hg, hgt⟩ := ofKindK_asis u (kindOfString kind) f t hk ha h
  rw [← hgt]
  exact ofKindK_eq_spec u (kindOfString kind) g t hg

/-! ## Type.HasPointers -/

/-- After the repair `HasPointers` is exactly "the layout contains a pointer word" (aliases transparent,
type parameters conservatively `true`). -/
theorem hasPointers_eq_spec (t : Ty) : typeHasPointers true t = SpecC02.containsPointer t :=
  hasPointers_fixed_eq t

/-- The code as it stands never answers `false` for a type that contains a pointer (the documented guarantee) … -/
theorem hasPointers_sound (t : Ty) (h : SpecC02.containsPointer t = true) : typeHasPointers false t = true :=
  hasPointers_asis_ge t (by rw [hasPointers_fixed_eq]; exact h)

/-- … and is exact on types without alias nodes. -/
theorem hasPointers_eq_spec_partial (t : Ty) (ha : noAlias t = true) :
    typeHasPointers false t = SpecC02.containsPointer t := by
  rw [hasPointers_asis_eq t ha, hasPointers_fixed_eq]

/-! ## Pure, ConstSlice -/

/-- `Pure` never accepts an expression that has a side effect (either whitelist) … -/
theorem pure_sound (ext : Bool) (e : Ex) (h : isPure ext e = true) : SpecC02.pure e = true := isPure_sound ext e h

/-- … and with the extended whitelist (after the repair) it is exactly the documented meaning: it accepts an
expression iff it contains no call other than a conversion and no channel receive — for every
expression shape, by induction on the expression. -/
theorem pure_eq_spec (e : Ex) : isPure true e = SpecC02.pure e := isPure_ext_eq e

/-- The code as it stood accepts every side-effect-free expression built from the node kinds on its whitelist
(`plain`: no key-value element, slice expression, type assertion or type literal operand). -/
theorem pure_eq_spec_partial (e : Ex) (hp : plain e = true) : isPure false e = SpecC02.pure e := by
  cases h : SpecC02.pure e with
  | true => exact isPure_complete e hp h
  | false =>
    cases h' : isPure false e with
    | false => rfl
    | true => rw [isPure_sound false e h'] at h; exact absurd h (by simp)

theorem constSlice_call (fixed : Bool) (fn : Ex) (args : List Ex) (fbs : Bool) :
    isConstantSlice fixed (.call fn args fbs) = SpecC02.constSlice (.call fn args fbs) := by
  cases args with
  | nil => simp [isConstantSlice, SpecC02.constSlice]
  | cons a rest =>
    cases rest with
    | cons b r => cases a <;> simp [isConstantSlice, SpecC02.constSlice]
    | nil =>
      cases a <;> simp [isConstantSlice, SpecC02.constSlice]
      rename_i b; cases b <;> simp

/-- every documented constant slice is accepted (before and after the repair) … -/
theorem constSlice_complete (fixed : Bool) (e : Ex) (h : SpecC02.constSlice e = true) : isConstantSlice fixed e = true := by
  cases e with
  | call fn args fbs => rw [constSlice_call]; exact h
  | composite elts cs sl => simp_all [SpecC02.constSlice, isConstantSlice]
  | _ => simp [SpecC02.constSlice] at h

/-- … and after the repair nothing else: `ConstSlice` is exactly "a slice or array literal of constants, or
`[]byte("literal")`", for every expression. -/
theorem constSlice_eq_spec (e : Ex) : isConstantSlice true e = SpecC02.constSlice e := by
  cases e <;> (try exact constSlice_call _ _ _ _) <;> simp [SpecC02.constSlice, isConstantSlice]

/-- The code as it stood: only among composite literals of slice or array type, and calls. -/
theorem constSlice_eq_spec_partial (e : Ex)
    (h : ∀ elts cs sl, e = .composite elts cs sl → sl = true) : isConstantSlice false e = SpecC02.constSlice e := by
  cases e <;> (try exact constSlice_call _ _ _ _) <;> simp_all [SpecC02.constSlice, isConstantSlice]

/-! ## Object.Is / IsGlobal / IsVariadicParam -/

theorem objectIs_eq_spec (k : ObjKind) (e : Option Ex) : objectIs k e = SpecC02.objectIs k e := by
  cases e with
  | none => rfl
  | some e =>
    simp only [objectIs, SpecC02.objectIs, SpecC02.objectOf, identOf_eq]
    cases SpecC02.identOfExpr e with
    | none => rfl
    | some o => cases o <;> rfl

theorem objOf_eq (e : Option Ex) : objOf e = SpecC02.objectOf e := by
  cases e with
  | none => rfl
  | some e =>
    simp only [objOf, SpecC02.objectOf, identOf_eq]
    cases SpecC02.identOfExpr e <;> rfl

/-- After the repair `IsGlobal` answers (never panics) and is the documented fact. -/
theorem isGlobal_eq_spec (e : Option Ex) : objectIsGlobal true e = .ok (SpecC02.objectIsGlobal e) := by
  simp only [objectIsGlobal, SpecC02.objectIsGlobal, objOf_eq]
  cases SpecC02.objectOf e <;> rfl

/-- The code as it stands: only when the capture is an identifier (or selector) that has an object. -/
theorem isGlobal_eq_spec_partial (e : Option Ex) (h : (SpecC02.objectOf e).isSome = true) :
    objectIsGlobal false e = .ok (SpecC02.objectIsGlobal e) := by
  simp only [objectIsGlobal, SpecC02.objectIsGlobal, objOf_eq]
  cases ho : SpecC02.objectOf e with
  | none => simp [ho] at h
  | some o => rfl

/-- go/types scoping, as far as `IsVariadicParam` relies on it: an identifier that denotes the `...T`
parameter of a function lies inside that function — which is the enclosing declaration, or a function
literal on the node path of the match.  (A contract of the facts the harness supplies, checked on every
probe site; not a property of ruleguard's code.) -/
def ScopeOK (cf : CurFunc) (e : Option Ex) : Prop :=
  ∀ o, SpecC02.objectOf e = some o →
    o.variadicParam = ((decide (cf = .decl true) && o.lastParamOfDecl) || o.variadicOfLit)

/-- After the repair `IsVariadicParam` is the documented fact: the object is the variadic parameter of a
function, declared or literal. -/
theorem isVariadic_eq_spec (cf : CurFunc) (e : Option Ex) (h : ScopeOK cf e) :
    objectIsVariadicParam true cf e = SpecC02.objectIsVariadicParam e := by
  unfold objectIsVariadicParam SpecC02.objectIsVariadicParam
  rw [objOf_eq]
  cases ho : SpecC02.objectOf e with
  | none => simp
  | some o =>
    have := h o ho
    cases cf <;> simp_all <;> (rename_i v; cases v <;> simp_all)

/-- The code as it stood: only whenever the variadic parameters in sight are those of the enclosing function
declaration (not of a function literal). -/
theorem isVariadic_eq_spec_partial (cf : CurFunc) (e : Option Ex)
    (h : ∀ o, SpecC02.objectOf e = some o → o.variadicParam = (decide (cf = .decl true) && o.lastParamOfDecl)) :
    objectIsVariadicParam false cf e = SpecC02.objectIsVariadicParam e := by
  unfold objectIsVariadicParam SpecC02.objectIsVariadicParam
  rw [objOf_eq]
  cases ho : SpecC02.objectOf e with
  | none => cases cf <;> simp <;> (rename_i v; cases v <;> simp)
  | some o =>
    have := h o ho
    cases cf <;> simp_all <;> (rename_i v; cases v <;> simp_all)

/-! ## Node.Is -/

theorem nodeIs_eq_spec (n : Option NodeF) (tag : String) : nodeIs n tag = SpecC02.nodeIs n tag := by
  unfold nodeIs SpecC02.nodeIs
  by_cases h3 : (tag == "Node") = true
  · have := eq_of_beq h3; subst this
    have e1 : ("Node" == "Expr") = false := by decide
    have e2 : ("Node" == "Stmt") = false := by decide
    cases n <;> simp [e1, e2]
  · by_cases h1 : (tag == "Expr") = true
    · have := eq_of_beq h1; subst this
      cases n <;> simp
    · by_cases h2 : (tag == "Stmt") = true
      · have := eq_of_beq h2; subst this
        cases n <;> simp
      · cases n with
        | none => simp [h1, h2, h3]
        | some f => simp only [h1, h2, h3]; simp [BEq.comm]

/-! ## GoVersion -/

theorem versionCompare_eq_spec (x y : GoVersion) (t : FIR.Tok) : versionCompare x t y = SpecC02.versionRel t x y := by
  cases t <;> simp [versionCompare, SpecC02.versionRel] <;> (try (rw [Bool.eq_iff_iff]; simp)) <;> (try omega)

theorem goVersion_eq_spec (target v : GoVersion) (t : FIR.Tok) :
    goVersionFilter target t v = SpecC02.goVersion target t v := by
  simp only [goVersionFilter, SpecC02.goVersion, versionCompare_eq_spec]
  by_cases h : target.major = 0 <;> simp [h]

/-- the order the filters compare with is a strict total order on (major, minor) -/
theorem version_trichotomy (x y : GoVersion) :
    versionCompare x .lss y = true ∨ x = y ∨ versionCompare y .lss x = true := by
  obtain ⟨a, b⟩ := x; obtain ⟨c, d⟩ := y
  simp only [versionCompare, GoVersion.mk.injEq]
  simp only [Bool.or_eq_true, Bool.and_eq_true, decide_eq_true_eq, beq_iff_eq]
  omega

theorem version_lt_irrefl (x : GoVersion) : versionCompare x .lss x = false := by
  simp [versionCompare]

theorem version_lt_trans (x y z : GoVersion) (h1 : versionCompare x .lss y = true) (h2 : versionCompare y .lss z = true) :
    versionCompare x .lss z = true := by
  simp only [versionCompare, Bool.or_eq_true, Bool.and_eq_true, decide_eq_true_eq, beq_iff_eq] at *
  omega

theorem version_ops_consistent (x y : GoVersion) :
    versionCompare x .leq y = (versionCompare x .lss y || versionCompare x .eql y) ∧
    versionCompare x .geq y = !versionCompare x .lss y ∧
    versionCompare x .gtr y = versionCompare y .lss x ∧
    versionCompare x .neq y = !versionCompare x .eql y := by
  refine ⟨?_, ?_, ?_, ?_⟩ <;> simp [versionCompare] <;> (try (rw [Bool.eq_iff_iff]; simp)) <;> omega

/-! ## delegated relations and `$*xs` -/

/-- After the repair (`typeofNode` looks through expression statements) every list-aware delegating predicate
is "the relation holds for the captured expression's type, for every element of a list capture" —
whichever accessor it reads. -/
theorem rel_eq_spec (r : Rel) (o : Oracle) (hr : r ≠ .identicalTo) :
    relFilter true r o = SpecC02.relSpec r o := by
  cases r <;> simp_all [relFilter, SpecC02.relSpec, SpecC02.aboutNode, SpecC02.relHolds, allElems, Oracle.onNode] <;> rfl

/-- The code as it stood (`stmt = false`): the predicates that read `subNode` agree only when the capture is
an expression (the two accessors coincide).  Before and after: `IdenticalTo` ignores
expression lists (`HasMethod` did until 4160912). -/
theorem rel_eq_spec_partial (stmt : Bool) (r : Rel) (o : Oracle) (h : stmt = false → o.onSubNode = o.onSubExpr)
    (hl : r = .identicalTo → o.onElems = none) :
    relFilter stmt r o = SpecC02.relSpec r o := by
  cases stmt <;> cases r <;> simp_all [relFilter, SpecC02.relSpec, SpecC02.aboutNode, SpecC02.relHolds, allElems, Oracle.onNode] <;> rfl

/-- list captures: the list-aware expression predicates are the conjunction over the elements -/
theorem exprList_forall (p : Option Ex → Bool) (es : List Ex) :
    exprFilter p (.list es) = es.all (fun e => p (some e)) := rfl

/-- list captures, after the repair: so are the type predicates (`OfKind`, `HasPointers`) … -/
theorem tyList_forall (p : Ty → Bool) (ts : List Ty) : tyFilter true p (.list ts) = ts.all p := rfl

/-- … and the object predicates that had no list case (`IsGlobal`, `IsVariadicParam`), for every list -/
theorem exprListV_forall (p : Option Ex → Bool) (es : List Ex) :
    exprFilterV true (fun e => .ok (p e)) (.list es) = .ok (es.all fun e => p (some e)) :=
  allRes_ok _ es

theorem pure_cap_sound (ext : Bool) (c : ExCap) (h : exprFilter (pureOpt ext) c = true) :
    SpecC02.onCap SpecC02.pureOpt c = true := by
  cases c with
  | one e => cases e <;> simp_all [exprFilter, SpecC02.onCap, pureOpt, SpecC02.pureOpt]; exact isPure_sound ext _ h
  | list es =>
    simp only [exprFilter, SpecC02.onCap, List.all_eq_true] at *
    intro e he
    exact isPure_sound ext e (h e he)

/-! ## whole captures (single nodes and `$*xs` lists), after the repairs -/

theorem onCap_congr (p q : Option Ex → Bool) (h : ∀ e, p e = q e) (c : ExCap) :
    exprFilter p c = SpecC02.onCap q c := by
  cases c with
  | one e => exact h e
  | list es =>
    simp only [exprFilter, SpecC02.onCap]
    simp only [h]

theorem onTyCap_congr (p q : Ty → Bool) (h : ∀ t, p t = q t) (c : TyCap) :
    tyFilter true p c = SpecC02.onTyCap q c := by
  cases c with
  | one t => exact h t
  | list ts =>
    simp only [tyFilter, SpecC02.onTyCap, if_true]
    induction ts with
    | nil => rfl
    | cons a as ih => simp only [List.all_cons, h]; rw [ih]

/-- `Pure` on a capture: every element is side-effect-free -/
theorem pure_cap_eq_spec (c : ExCap) : exprFilter (pureOpt true) c = SpecC02.onCap SpecC02.pureOpt c :=
  onCap_congr _ _ (fun e => by cases e <;> simp [pureOpt, SpecC02.pureOpt, isPure_ext_eq]) c

/-- `ConstSlice` on a capture -/
theorem constSlice_cap_eq_spec (c : ExCap) :
    exprFilter (constSliceOpt true) c = SpecC02.onCap SpecC02.constSliceOpt c :=
  onCap_congr _ _ (fun e => by cases e <;> simp [constSliceOpt, SpecC02.constSliceOpt, constSlice_eq_spec]) c

/-- `Object.Is` on a capture -/
theorem objectIs_cap_eq_spec (k : ObjKind) (c : ExCap) :
    exprFilter (objectIs k) c = SpecC02.onCap (SpecC02.objectIs k) c :=
  onCap_congr _ _ (objectIs_eq_spec k) c

/-- `Type.HasPointers` on a capture: the layout of every element's type contains a pointer word -/
theorem hasPointers_cap_eq_spec (c : TyCap) :
    tyFilter true (typeHasPointers true) c = SpecC02.onTyCap SpecC02.containsPointer c :=
  onTyCap_congr _ _ hasPointers_eq_spec c

theorem mapM_some {α β : Type} (f : α → β) : ∀ l : List α, l.mapM (fun a => some (f a)) = some (l.map f)
  | [] => rfl
  | a :: as => by simp [List.mapM_cons, mapM_some f as]

/-- `Type.OfKind` / `Type.Underlying().OfKind` on a capture: the documented fact holds of every element's type -/
theorem ofKind_cap_eq_spec (u : Bool) (kind : String) (f : Ty → Bool) (c : TyCap)
    (h : PR.ofKind true u kind = some f) : SpecC02.ofKindCap u kind c = some (tyFilter true f c) := by
  cases c with
  | one t => exact ofKind_eq_spec u kind f t h
  | list ts =>
    have hf : SpecC02.ofKind u kind = fun t => some (f t) := funext fun t => ofKind_eq_spec u kind f t h
    simp only [SpecC02.ofKindCap, tyFilter, hf, mapM_some, Option.map_some, if_true]
    congr 1
    induction ts with
    | nil => rfl
    | cons a as ih => simp only [List.map_cons, List.all_cons, ih, id]

/-- `Object.IsGlobal` on a capture: never panics, and every element is declared in the package scope -/
theorem isGlobal_cap_eq_spec (c : ExCap) :
    exprFilterV true (objectIsGlobal true) c = .ok (SpecC02.onCap SpecC02.objectIsGlobal c) := by
  have hp : objectIsGlobal true = fun e => .ok (SpecC02.objectIsGlobal e) := funext isGlobal_eq_spec
  cases c with
  | one e => exact isGlobal_eq_spec e
  | list es => rw [hp]; exact allRes_ok _ es

def ScopeOKCap (cf : CurFunc) : ExCap → Prop
  | .one e => ScopeOK cf e
  | .list es => ∀ e ∈ es, ScopeOK cf (some e)

/-- `Object.IsVariadicParam` on a capture: every element is the variadic parameter of a function -/
theorem isVariadic_cap_eq_spec (cf : CurFunc) (c : ExCap) (h : ScopeOKCap cf c) :
    exprFilterV true (fun e => .ok (objectIsVariadicParam true cf e)) c =
      .ok (SpecC02.onCap SpecC02.objectIsVariadicParam c) := by
  cases c with
  | one e => simp only [exprFilterV, SpecC02.onCap]; rw [isVariadic_eq_spec cf e h]
  | list es =>
    simp only [exprFilterV, SpecC02.onCap, if_true]
    rw [allRes_ok]
    congr 1
    induction es with
    | nil => rfl
    | cons a as ih =>
      simp only [List.all_cons]
      rw [isVariadic_eq_spec cf (some a) (h a (List.mem_cons_self ..)), ih (fun e he => h e (List.mem_cons_of_mem _ he))]

/-! ## the dispatch: every predicate, every site -/

/-- **After the repairs, every modelled predicate the loader accepts gives, at every site (single capture or
`$*xs` list, expression or statement), exactly the verdict the property prescribes, and never panics.**
Hypotheses left: the go/types scoping contract for `IsVariadicParam` (`ScopeOKCap`), and that
`IdenticalTo` (which has no list case) is not asked about an expression list. -/
theorem pred_eq_spec (p : Pred) (f : Site → Option (Res Bool)) (s : Site)
    (h : evalPred .repaired p = some f)
    (hv : p = .isVariadic → ScopeOKCap s.cf s.ex)
    (hr : ∀ r o, p = .rel r → r = .identicalTo → s.oracle = some o → o.onElems = none) :
    f s = (SpecC02.specPred p s).map .ok := by
  cases p with
  | ofKind u kind =>
    simp only [evalPred, Variant.repaired] at h
    cases hk : PR.ofKind true u kind with
    | none => simp [hk] at h
    | some g =>
      simp only [hk, Option.some.injEq] at h
      subst h
      simp [SpecC02.specPred, ofKind_cap_eq_spec u kind g s.ty hk]
  | hasPointers =>
    simp only [evalPred, Variant.repaired, Option.some.injEq] at h; subst h
    simp [SpecC02.specPred, hasPointers_cap_eq_spec]
  | pure =>
    simp only [evalPred, Variant.repaired, Option.some.injEq] at h; subst h
    simp [SpecC02.specPred, pure_cap_eq_spec]
  | constSlice =>
    simp only [evalPred, Variant.repaired, Option.some.injEq] at h; subst h
    simp [SpecC02.specPred, constSlice_cap_eq_spec]
  | objectIs name =>
    simp only [evalPred] at h
    cases hk : objKindOfString name with
    | none => simp [hk] at h
    | some k =>
      simp only [hk, Option.some.injEq] at h; subst h
      simp [SpecC02.specPred, hk, objectIs_cap_eq_spec]
  | isGlobal =>
    simp only [evalPred, Variant.repaired, Option.some.injEq] at h; subst h
    simp [SpecC02.specPred, isGlobal_cap_eq_spec]
  | isVariadic =>
    simp only [evalPred, Variant.repaired, Option.some.injEq] at h; subst h
    simp [SpecC02.specPred, isVariadic_cap_eq_spec s.cf s.ex (hv rfl)]
  | nodeIs known tag =>
    cases known <;> simp only [evalPred, Option.some.injEq, if_true] at h
    · exact absurd h (by simp)
    · subst h; simp [SpecC02.specPred, nodeIs_eq_spec]
  | parentIs known tag =>
    cases known <;> simp only [evalPred, Option.some.injEq, if_true] at h
    · exact absurd h (by simp)
    · subst h; simp [SpecC02.specPred, nodeIs_eq_spec]
  | rel r =>
    simp only [evalPred, Variant.repaired, Option.some.injEq] at h; subst h
    simp only [SpecC02.specPred]
    cases ho : s.oracle with
    | none => rfl
    | some o =>
      simp only [Option.map_some]
      by_cases hm : r = .identicalTo
      · rw [rel_eq_spec_partial true r o (by simp) (fun _ => hr r o rfl hm ho)]
      · rw [rel_eq_spec r o hm]

/-! ## non-vacuity and kernel-checked counterexamples -/

def tInt8 : Ty := .basic 3 2
def tUint8 : Ty := .basic 8 6
def tString : Ty := .basic 17 32
def tUntypedNil : Ty := .basic 25 64
def tAlias8 : Ty := .alias tInt8
def objVar (g lp vp vl : Bool) : Obj := ⟨.var, g, lp, vp, vl⟩
def idVar (g lp vp vl : Bool) : Ex := .ident (some (objVar g lp vp vl))
def tyName : Ex := .ident (some ⟨.typeName, true, false, false, false⟩)
/-- a site: a single captured expression `e` of type `t`, inside a non-variadic declaration -/
def site1 (e : Ex) (t : Ty) (o : Option Oracle) : Site :=
  { ex := .one (some e), ty := .one t, node := some ⟨"Ident", true, false⟩, parent := some ⟨"CallExpr", true, false⟩, cf := .decl false, oracle := o }
/-- a site: a `$*xs` capture -/
def siteN (es : List Ex) (ts : List Ty) (o : Option Oracle) : Site :=
  { ex := .list es, ty := .list ts, node := some ⟨"NodeSlice", false, false⟩, parent := some ⟨"ExprStmt", false, true⟩, cf := .decl false, oracle := o }

example : ∃ f, PR.ofKind true false "untyped" = some f ∧ f tUntypedNil = true ∧ f tUint8 = false := ⟨_, rfl, by decide, by decide⟩
example : noAlias (.named (.strct [tInt8, .array tUint8])) = true := by decide
example : plain (.binary (.ident none) (.call tyName [.basicLit false] false)) = true := by decide
-- D7: the pinned code maps "untyped" to the unsigned bit: it accepts uint8 and rejects untyped nil
example : ∃ f, PR.ofKind false false "untyped" = some f ∧ f tUint8 = true ∧ f tUntypedNil = false ∧
    SpecC02.ofKind false "untyped" tUint8 = some false ∧ SpecC02.ofKind false "untyped" tUntypedNil = some true :=
  ⟨_, rfl, by decide, by decide, by decide, by decide⟩
-- alias nodes (gotypesalias=1): `type A = int8` is not "integer" and "has pointers" for the pinned code
example : ∃ f, PR.ofKind false false "integer" = some f ∧ f tAlias8 = false ∧ SpecC02.ofKind false "integer" tAlias8 = some true :=
  ⟨_, rfl, by decide, by decide⟩
example : typeHasPointers false tAlias8 = true ∧ SpecC02.containsPointer tAlias8 = false := by decide
example : typeHasPointers true tAlias8 = false := by decide
-- D8: IsGlobal on a capture that is not an identifier
example : objectIsGlobal false (some (.binary (idVar true false false false) (.basicLit false))) = .panic .nilDeref := by decide
example : objectIsGlobal true (some (.binary (idVar true false false false) (.basicLit false))) = .ok false := by decide
example : objectIsGlobal false (some (.paren (idVar true false false false))) = .ok true := by decide
-- IsVariadicParam: the `...T` parameter of a function literal inside a non-variadic declaration; before / after
example : objectIsVariadicParam false (.decl false) (some (idVar false false true true)) = false ∧
    SpecC02.objectIsVariadicParam (some (idVar false false true true)) = true := by decide
example : objectIsVariadicParam true (.decl false) (some (idVar false false true true)) = true := by decide
example : ScopeOK (.decl false) (some (idVar false false true true)) := by
  intro o ho; cases ho; decide
example : ScopeOK (.decl true) (some (.paren (idVar false true true false))) := by
  intro o ho; cases ho; decide
-- … a closure's own slice parameter that shadows nothing variadic stays `false`
example : objectIsVariadicParam true (.decl true) (some (idVar false false false false)) = false := by decide
-- Pure was conservative on node kinds outside its whitelist: S{a: 1}, s[1:2], x.(T), f[[]int]; before / after
example : isPure false (.composite [.keyValue (.ident none) (.basicLit false)] [false] false) = false ∧
    SpecC02.pure (.composite [.keyValue (.ident none) (.basicLit false)] [false] false) = true := by decide
example : isPure false (.slice (.ident none) [.basicLit false]) = false ∧ SpecC02.pure (.slice (.ident none) [.basicLit false]) = true := by decide
example : isPure false (.typeAssert (.ident none)) = false ∧ isPure false (.index (.ident none) .typeLit) = false := by decide
example : isPure true (.composite [.keyValue (.ident none) (.basicLit false)] [false] false) = true ∧
    isPure true (.slice (.ident none) [.basicLit false]) = true ∧ isPure true (.typeAssert (.ident none)) = true ∧
    isPure true (.index (.ident none) .typeLit) = true := by decide
-- … and still rejects what has an effect: s[f():], <-ch, f(x)
example : isPure true (.slice (.ident none) [.call (.ident none) [] false]) = false ∧ isPure true (.unary true (.ident none)) = false ∧
    isPure true (.keyValue (.ident none) (.call (.ident none) [.basicLit false] false)) = false := by decide
-- ConstSlice accepted a struct literal of constants; before / after
example : isConstantSlice false (.composite [.basicLit false, .basicLit false] [true, true] false) = true ∧
    SpecC02.constSlice (.composite [.basicLit false, .basicLit false] [true, true] false) = false := by decide
example : isConstantSlice true (.composite [.basicLit false, .basicLit false] [true, true] false) = false ∧
    isConstantSlice true (.composite [.basicLit false, .basicLit false] [true, true] true) = true ∧
    isConstantSlice true (.call (.typeLit) [.basicLit true] true) = true := by decide
-- `$*xs`: the pinned code read the list as a nil expression (invalid type, no object); before / after
example : tyFilter false (typeHasPointers true) (.list [tString]) = false ∧ SpecC02.onTyCap SpecC02.containsPointer (.list [tString]) = true := by decide
example : tyFilter true (typeHasPointers true) (.list [tInt8]) = false ∧ tyFilter true (typeHasPointers true) (.list [tInt8, tString]) = false ∧
    tyFilter true (typeHasPointers true) (.list [tString, tString]) = true ∧ tyFilter true (typeHasPointers true) (.list []) = true := by decide
example : ∃ f, PR.ofKind true false "integer" = some f ∧ tyFilter false f (.list [tInt8]) = false ∧ tyFilter true f (.list [tInt8]) = true ∧
    tyFilter true f (.list [tInt8, tString]) = false ∧ SpecC02.ofKindCap false "integer" (.list [tInt8]) = some true :=
  ⟨_, rfl, by decide, by decide, by decide, by decide⟩
example : exprFilterV false (objectIsGlobal true) (.list [idVar true false false false]) = .ok false ∧
    exprFilterV true (objectIsGlobal true) (.list [idVar true false false false]) = .ok true ∧
    exprFilterV true (objectIsGlobal true) (.list [idVar true false false false, .basicLit false]) = .ok false ∧
    SpecC02.onCap SpecC02.objectIsGlobal (.list [idVar true false false false]) = true := by decide
-- a list element on which the pinned IsGlobal panicked ends the list walk with that panic
example : exprFilterV true (objectIsGlobal false) (.list [idVar true false false false, .basicLit false, idVar true false false false]) = .panic .nilDeref := by decide
-- statement captures: `if mark { fn(gi) }`, Type.Is("int"): the relation holds of the call's type, the statement itself had none
example : relFilter false .typeIs ⟨false, true, none⟩ = false ∧ SpecC02.relHolds ⟨false, true, none⟩ = true ∧
    relFilter true .typeIs ⟨false, true, none⟩ = true ∧ relFilter true .comparable ⟨false, true, none⟩ = true := by decide
-- the dispatch: what the repaired loader/filters answer on concrete sites
example : ∃ f, evalPred .repaired (.ofKind false "integer") = some f ∧
    f (siteN [idVar true false false false] [tInt8] none) = some (.ok true) ∧
    f (site1 (idVar true false false false) tString none) = some (.ok false) := ⟨_, rfl, by decide, by decide⟩
example : evalPred .repaired (.ofKind false "nonsense") = none ∧ evalPred .repaired (.objectIs "Bogus") = none ∧
    evalPred .repaired (.nodeIs false "Bogus") = none ∧ (evalPred .repaired (.objectIs "Var")).isSome = true := by decide
example : ∃ f, evalPred .repaired (.rel .typeIs) = some f ∧ f (site1 (.basicLit false) tInt8 (some ⟨false, true, none⟩)) = some (.ok true) ∧
    f (site1 (.basicLit false) tInt8 none) = none := ⟨_, rfl, by decide, by decide⟩
-- the relations about the captured node itself (its sink, its source text): a `$*xs` capture is one node there —
-- `probeN()` with `Text.Matches("^$")`: the text of the empty list is "", regexp accepts it, so does the filter
example : ∃ f, evalPred .repaired (.rel .textMatches) = some f ∧ f (siteN [] [] (some ⟨true, true, none⟩)) = some (.ok true) ∧
    SpecC02.specPred (.rel .textMatches) (siteN [] [] (some ⟨true, true, none⟩)) = some true ∧
    SpecC02.specPred (.rel .typeIs) (siteN [] [] (some ⟨false, false, some []⟩)) = some true := ⟨_, rfl, by decide, by decide, by decide⟩
example : ∀ r o, SpecC02.aboutNode r = true → relFilter true r o = o.onSubNode := by
  intro r o h; cases r <;> simp_all [SpecC02.aboutNode, relFilter]
example : relFilter true .sinkTypeIs ⟨false, true, some [true]⟩ = false ∧ SpecC02.relSpec .sinkTypeIs ⟨false, true, some [true]⟩ = false := by decide
example : ScopeOKCap (.decl false) (.list [idVar false false true true, .basicLit false]) := by
  intro e he
  simp only [List.mem_cons, List.mem_nil_iff, or_false] at he
  rcases he with rfl | rfl <;> (intro o ho; cases ho) ; decide
-- versions
example : parseGoVersion [49, 46, 49, 54] = some ⟨1, 16⟩ ∧ parseGoVersion [49] = none ∧ parseGoVersion [] = some ⟨0, 0⟩ ∧
    parseGoVersion [49, 46, 120] = none := by decide
example : goVersionFilter ⟨0, 0⟩ .lss ⟨1, 16⟩ = true ∧ goVersionFilter ⟨1, 15⟩ .lss ⟨1, 16⟩ = true ∧
    goVersionFilter ⟨2, 0⟩ .lss ⟨1, 16⟩ = false := by decide

end C02
