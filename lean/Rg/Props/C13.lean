import Rg.Model.Loads
import Rg.Spec.C13
import Rg.Proofs.Loads
import Rg.Proofs.LoadsSpec
import Rg.Proofs.LoadsOwn
/-!
# C13 — loading composes rule sets as an ordered union and fails atomically

Model: `Rg/Model/Loads.lean` (`load false` = the code as it is, `load true` = the code after
`verif/fixes/c13-*.diff`, the last of which — `c13-own-funcs.diff` — makes a rule's `Do` / `Filter` names resolve among
the functions of the rule's own file only: `rule_funcs_are_own`, `foreign_name_is_error`).  All theorems below hold for *every* history of requests, both variants,
unless a hypothesis says otherwise; `EngineWF` is an invariant of reachable engines (`wf_reachable`), not
a restriction on inputs.

Abstractions (see the model's header): names are atoms; a prefixed group name is the pair
(prefix, name); what conversion / type-checking / pattern compilation answer for a file is an input.
-/
namespace C13
open LoadM SpecC13

/-- every engine reachable by Load/LoadFromIR calls satisfies the invariant
(function ids held by names, calls and rules are valid; calls go to smaller ids) -/
theorem wf_reachable (fixed : Bool) (hist : List Req) : EngineWF (finalEngine fixed Engine.new hist) :=
  finalEngine_wf EngineWF_new

/-- **Ordered union.**  After any history the engine's group list and its rule list (rule identity =
group, line, bucket, pattern key, message; per-bucket order is the order of this list) are exactly the
concatenation, in call order, of the filter-accepted groups of the calls that returned nil — own groups of
a file first, then those of its bundles.  Holds for the code as it is and for the repaired code. -/
theorem engine_is_ordered_union (fixed : Bool) (hist : List Req) :
    View (finalEngine fixed Engine.new hist) (unionFrom fixed Engine.new hist) := by
  have h := view_final (fixed := fixed) (hist := hist) (e := Engine.new) (u := []) (by simp [View, Engine.new])
  simpa using h

/-- the same, spelled out -/
theorem engine_is_ordered_union' (fixed : Bool) (hist : List Req) (rs : RuleSet)
    (h : (finalEngine fixed Engine.new hist).ruleSet = some rs) :
    rs.groups = infos (unionFrom fixed Engine.new hist) ∧
    rs.rules.map Rule.shape = shapes (unionFrom fixed Engine.new hist) := by
  have hv := engine_is_ordered_union fixed hist
  unfold View at hv; rw [h] at hv; exact hv

/-- **Atomicity.**  A call that does not return nil (error or panic) leaves the rule set, LoadedGroups and
the reports of every run (fresh RunnerState) exactly as they were; functions it registered get new ids and
no existing id changes. -/
theorem failed_load_is_noop (fixed : Bool) (e : Engine) (r : Req) (hw : EngineWF e)
    (hfail : okOut (load fixed e r).2 = false) :
    (load fixed e r).1.ruleSet = e.ruleSet ∧
    loadedGroups fixed (load fixed e r).1 = loadedGroups fixed e ∧
    (∀ probe, run (load fixed e r).1 probe = run e probe) ∧
    (∀ id, id < e.env.funcs.length → (load fixed e r).1.env.funcs[id]? = e.env.funcs[id]?) := by
  have hrs := load_ruleSet_of_not_ok hfail
  have hx := load_ext fixed e r
  refine ⟨hrs, ?_, fun probe => run_ext hw hrs hx probe, ?_⟩
  · unfold loadedGroups; rw [hrs]
  · intro id hid
    obtain ⟨more, hm⟩ := hx.1
    rw [hm, List.getElem?_append_left hid]

theorem accepted_not_rejected {r : Req} {g : SGroup} (hg : g ∈ accepted r) : g.info.name ∉ r.rejected := by
  simp only [accepted, acceptedOfUnit, List.mem_append, List.mem_map, List.mem_filter, List.mem_flatMap] at hg
  rcases hg with ⟨d, ⟨_, hd⟩, rfl⟩ | ⟨b, _, u, _, d, ⟨_, hd⟩, rfl⟩ <;> simpa using hd

/-- **Rejected groups neither report nor occupy their name.**  A name the GroupFilter rejected is in the
engine after the call only if it was there before (so a later file may define it), and no rule of the
call carries it. -/
theorem rejected_groups_free_their_name (fixed : Bool) (e : Engine) (u : List SGroup) (r : Req)
    (hv : View e u) (n : Nat × Nat) (hn : n ∈ r.rejected) :
    (∀ s ∈ shapes (accepted r), s.1 ≠ n) ∧
    (∀ rs, (load fixed e r).1.ruleSet = some rs → n ∈ rs.groups.map (·.name) → n ∈ (infos u).map (·.name)) := by
  constructor
  · intro s hs heq
    simp only [shapes, List.mem_flatMap, List.mem_map] at hs
    obtain ⟨g, hg, d, _, rfl⟩ := hs
    have : g.info.name = n := by simpa [declShape] using heq
    exact accepted_not_rejected hg (this ▸ hn)
  · intro rs hrs hmem
    have hv' := load_step_view (fixed := fixed) (r := r) hv
    unfold View at hv'
    rw [hrs] at hv'
    rw [hv'.1] at hmem
    split at hmem
    · simp only [infos_append, List.map_append, List.mem_append] at hmem
      rcases hmem with h | h
      · exact h
      · exfalso
        simp only [infos, List.map_map, List.mem_map] at h
        obtain ⟨g, hg, rfl⟩ := h
        exact accepted_not_rejected hg hn
    · simpa using hmem

/-- **Collision detection.**  Once a file has been converted and has loaded on its own (`loadFile`
returned a rule set), the call fails with the redefinition error exactly when one of its accepted names is
already in the engine, and succeeds otherwise. -/
theorem collision_detected_iff (fixed : Bool) (e : Engine) (u : List SGroup) (r : Req) (hv : View e u)
    (hconv : (!r.isIR && r.unit.convErr) = false)
    (env' : Env) (rset : RuleSet) (hf : loadFile fixed e.env r = (env', .ok rset)) (hsome : e.ruleSet.isSome) :
    ((load fixed e r).2 = .err .redef ↔ ∃ g ∈ accepted r, ∃ h ∈ u, h.info.name = g.info.name) ∧
    ((load fixed e r).2 = .ok () ↔ ¬ ∃ g ∈ accepted r, ∃ h ∈ u, h.info.name = g.info.name) := by
  obtain ⟨cur, hc⟩ := Option.isSome_iff_exists.1 hsome
  have hcur : cur.groups = infos u := by unfold View at hv; rw [hc] at hv; exact hv.1
  have hrg := (loadFile_ok hf).1
  have key : (rset.groups.any fun g => cur.groups.any fun h => h.name == g.name) = true ↔
      ∃ g ∈ accepted r, ∃ h ∈ u, h.info.name = g.info.name := by
    rw [hrg, hcur]; simp [infos]
  rcases merge_pair cur rset with ⟨hno, hm⟩ | ⟨hyes, hm⟩
  · have hl : (load fixed e r).2 = .ok () := by
      unfold load; simp [hconv, hf, hc, hm]
    have hnot : ¬ ∃ g ∈ accepted r, ∃ h ∈ u, h.info.name = g.info.name := by
      rw [← key, hno]; simp
    simp [hl, hnot]
  · have hl : (load fixed e r).2 = .err .redef := by
      unfold load; simp [hconv, hf, hc, hm]
    have hyes' : ∃ g ∈ accepted r, ∃ h ∈ u, h.info.name = g.info.name := key.1 hyes
    simp [hl, hyes']

/-- **LoadedGroups.**  When it returns, the list is sorted by name and is a permutation of the engine's
groups (hence, by `engine_is_ordered_union`, of the accepted groups of the successful calls); the repaired
variant returns the empty list for an engine without a successful call, the code as it is panics there. -/
theorem loadedGroups_sorted_exact (fixed : Bool) (e : Engine) (l : List GroupInfo)
    (h : loadedGroups fixed e = .ok l) :
    l.Pairwise GLe ∧
    (∀ rs, e.ruleSet = some rs → l.Perm rs.groups) ∧
    (e.ruleSet = none → fixed = true ∧ l = []) := by
  unfold loadedGroups at h
  cases hc : e.ruleSet with
  | none =>
    rw [hc] at h
    cases fixed
    · simp at h
    · simp at h; subst h
      exact ⟨List.Pairwise.nil, fun rs hrs => (by cases hrs), fun _ => ⟨rfl, rfl⟩⟩
  | some rs =>
    rw [hc] at h
    simp at h; subst h
    refine ⟨sortGroups_sorted _, ?_, fun hn => (by cases hn)⟩
    intro rs' hrs'
    cases hrs'
    exact sortGroups_perm _

/-- LoadedGroups after any history, in terms of the property: sorted permutation of the union -/
theorem loadedGroups_of_history (hist : List Req) :
    ∃ l, loadedGroups true (finalEngine true Engine.new hist) = .ok l ∧ l.Pairwise GLe ∧
      l.Perm (infos (unionFrom true Engine.new hist)) := by
  have hv := engine_is_ordered_union true hist
  unfold View at hv
  cases hc : (finalEngine true Engine.new hist).ruleSet with
  | none =>
    rw [hc] at hv
    exact ⟨[], by simp [loadedGroups, hc], List.Pairwise.nil, by rw [hv]; exact List.Perm.refl _⟩
  | some rs =>
    rw [hc] at hv
    refine ⟨sortGroups rs.groups, by simp [loadedGroups, hc], sortGroups_sorted _, ?_⟩
    rw [← hv.1]; exact sortGroups_perm _

/-- the link to the executable statement (groups aspect): at every step of every history the repaired
model's LoadedGroups is what `SpecC13.check` compares the implementation with -/
theorem model_meets_spec_groups (e : Engine) (u : List SGroup) (hv : View e u) :
    loadedGroups true e = .ok (sortedGroups u) := by
  unfold View at hv
  unfold loadedGroups sortedGroups
  cases hc : e.ruleSet with
  | none => rw [hc] at hv; subst hv; rfl
  | some rs => rw [hc] at hv; simp only; rw [hv.1]; rfl


/-! ## Behaviour: every rule runs the functions of its own file (repaired loader) -/

/-- **Rules behave as written.**  With the repaired loader, after any history of well-formed requests
(`ReqOK`: no function declared twice, every function a loaded rule needs declared in the rule's own file; any
`PkgPath`) every rule in the engine accepts and reports exactly as its own file says — calls
between custom functions resolved inside that file — whatever other files, successful or failed, were
loaded before or after it.
The code as it is does not have this property (`fA`, `fB` below); see `known_findings.json`. -/
theorem rules_behave_as_written (hist : List Req) (hok : ∀ r ∈ hist, ReqOK r) :
    Behaves (finalEngine true Engine.new hist) (unionFrom true Engine.new hist) := by
  have := behaves_final (hist := hist) (e := Engine.new) (u := []) EngineWF_new hok (by simp [Behaves, Engine.new])
  simpa using this

/-- the repaired loader never panics, on any engine state (rule functions are taken from a map that holds the
functions themselves; nothing is indexed) -/
theorem load_never_panics (e : Engine) (r : Req) : ∀ p, (load true e r).2 ≠ .panic p := by
  intro p h
  have := load_true_np e r
  rw [h] at this
  exact this

/-! ## A file's rules can only name the custom functions the file declares (repaired loader) -/

/-- the rules an engine holds -/
def rulesOfEngine (e : Engine) : List Rule :=
  match e.ruleSet with
  | none => []
  | some rs => rs.rules

/-- **rule_funcs_are_own (one call).**  Whatever state `e` the engine is in — i.e. after every history of accepted and
rejected calls — a call that returns nil appends rules each of which comes from a rule `rd` of a filter-accepted group
of one unit `u` of the call (the file itself or a bundle file), and every function it holds is the function compiled
from the declaration, in that same unit, of the name `rd` gives: the `i`-th declaration of `u`, at id `base + i` with
`base ≥` the size of the function table before the call.  No rule is ever bound to a function of an earlier call, of a
rejected call, or of another file of the same call. -/
theorem rule_funcs_are_own_step (e : Engine) (r : Req) (hok : (load true e r).2 = .ok ()) :
    ∃ new, rulesOfEngine (load true e r).1 = rulesOfEngine e ++ new ∧
      ∀ x ∈ new, ∃ pu ∈ unitsOf r, ∃ base, e.env.funcs.length ≤ base ∧
        RuleFrom (load true e r).1.env base pu.1 r.rejected pu.2 x := by
  rcases load_cases true e r with ⟨env', x, hl, hx⟩ | ⟨env', rset, hf, hn, hl⟩ | ⟨env', rset, cur, hf, hc, _, hl⟩
  · rw [hl] at hok; simp only at hok; rw [hok] at hx; simp [okOut] at hx
  · rw [hl]
    exact ⟨rset.rules, by simp [rulesOfEngine, hn], (loadFile_own hf).2⟩
  · rw [hl]
    exact ⟨rset.rules, by simp [rulesOfEngine, hc], (loadFile_own hf).2⟩

/-- every rule of `e` holds only functions compiled from declarations of the unit (of a call in `H`) it was loaded from -/
def OwnedBy (e : Engine) (H : List Req) : Prop :=
  ∀ x ∈ rulesOfEngine e, ∃ r ∈ H, ∃ pu ∈ unitsOf r, ∃ base, RuleFrom e.env base pu.1 r.rejected pu.2 x

theorem ownedBy_step {e : Engine} {H : List Req} (r : Req) (h : OwnedBy e H) :
    OwnedBy (load true e r).1 (H ++ [r]) := by
  have hx := load_ext true e r
  have old : ∀ x ∈ rulesOfEngine e, ∃ q ∈ H ++ [r], ∃ pu ∈ unitsOf q, ∃ base,
      RuleFrom (load true e r).1.env base pu.1 q.rejected pu.2 x := by
    intro x hxm
    obtain ⟨q, hq, pu, hpu, base, hr⟩ := h x hxm
    exact ⟨q, List.mem_append_left _ hq, pu, hpu, base, hr.ext hx⟩
  cases hout : (load true e r).2 with
  | ok u =>
    cases u
    obtain ⟨new, hnew, hown⟩ := rule_funcs_are_own_step e r hout
    intro x hxm
    rw [hnew, List.mem_append] at hxm
    rcases hxm with hxm | hxm
    · exact old x hxm
    · obtain ⟨pu, hpu, base, _, hr⟩ := hown x hxm
      exact ⟨r, by simp, pu, hpu, base, hr⟩
  | err x =>
    have hrs := load_ruleSet_of_not_ok (fixed := true) (e := e) (r := r) (by rw [hout]; rfl)
    intro x hxm
    have : rulesOfEngine (load true e r).1 = rulesOfEngine e := by unfold rulesOfEngine; rw [hrs]
    rw [this] at hxm
    exact old x hxm
  | panic p => exact absurd hout (load_never_panics e r p)

theorem ownedBy_final : ∀ (hist : List Req) (e : Engine) (H : List Req), OwnedBy e H →
    OwnedBy (finalEngine true e hist) (H ++ hist)
  | [], e, H, h => by simpa [finalEngine] using h
  | r :: rs, e, H, h => by
    have := ownedBy_final rs _ _ (ownedBy_step r h)
    simpa [finalEngine, List.append_assoc] using this

/-- **rule_funcs_are_own.**  After every history of Load / LoadFromIR calls (successful or not, in any order, with any
bundles and filters) every rule in the engine comes from a rule `rd` of an accepted group of one unit `u` of one call of
the history, and every function id it holds is the id of the function compiled from the declaration, in `u` itself, of
the name `rd` gives to `Do` / `Filter`.
The code as it is does not have this property (`fLeft` below). -/
theorem rule_funcs_are_own (hist : List Req) :
    ∀ x ∈ rulesOfEngine (finalEngine true Engine.new hist), ∃ r ∈ hist, ∃ pu ∈ unitsOf r, ∃ base,
      RuleFrom (finalEngine true Engine.new hist).env base pu.1 r.rejected pu.2 x := by
  have := ownedBy_final hist Engine.new [] (by intro x hx; simp [rulesOfEngine, Engine.new] at hx)
  simpa [OwnedBy] using this

/-- **foreign_name_is_error.**  A call one of whose rules (in a group the filter accepts; in the file itself or in a
bundle file) names a function that rule's own file does not declare fails with an error — on every engine state, hence
whatever files were accepted or rejected before and whatever they left in the engine-wide name table. -/
theorem foreign_name_is_error (e : Engine) (r : Req) (hf : ReqForeign r) : ∃ x, (load true e r).2 = .err x := by
  cases hout : (load true e r).2 with
  | err x => exact ⟨x, rfl⟩
  | panic p => exact absurd hout (load_never_panics e r p)
  | ok u =>
    exfalso
    cases u
    rcases load_cases true e r with ⟨env', x, hl, hx⟩ | ⟨env', rset, hfl, _, _⟩ | ⟨env', rset, cur, hfl, _, _, _⟩
    · rw [hl] at hout; simp only at hout; rw [hout] at hx; simp [okOut] at hx
    · exact (loadFile_own hfl).1 hf
    · exact (loadFile_own hfl).1 hf

/-- the rule itself is refused with "can't find a compiled version of …", independently of the engine-wide table -/
theorem foreign_rule_is_nofunc (env : Env) (own : List (Nat × Nat)) (pkg : Nat) (g : Nat × Nat) (rd : RuleDecl)
    (n : Nat) (hn : rd.doFn = some n ∨ rd.filtFn = some n) (hl : ownLookup own n = none) :
    loadRule true env own pkg g rd = .err .nofunc :=
  loadRule_foreign ⟨n, hn, hl⟩

/-- **foreign_name_is_nofunc.**  For a file without bundle imports whose declarations compile, whose accepted groups
have distinct names and no unloadable rule — nothing else is wrong with it — the error is the one that names the missing
function (`nofunc` = "can't find a compiled version of …"), on every engine state. -/
theorem foreign_name_is_nofunc (e : Engine) (r : Req) (hb : r.bundles = [])
    (hconv : (!r.isIR && r.unit.convErr) = false)
    (hc : (compileFilterFuncs true e.env r.unit).2 = .ok ())
    (hbad : ∀ g ∈ acceptedDecls 0 r.rejected r.unit.groups, ∀ rl ∈ g.rules, rl.bad = false)
    (hnd : (names (acceptedOfUnit 0 r.rejected r.unit)).Nodup) (hf : UnitForeign 0 r.rejected r.unit) :
    (load true e r).2 = .err .nofunc :=
  load_foreign_nofunc e r hb hconv hc hbad hnd hf

/-- a run of an engine that satisfies the invariant is the property's run over the union -/
theorem run_of_inv {e : Engine} {u : List SGroup} {al : Bool} (hi : Inv e u al) (probe : List (Nat × Nat)) :
    runOK al u probe (run e probe) = true := by
  unfold run runWith
  cases hrs : e.ruleSet with
  | none =>
    have : al = false := by rw [hi.loaded, hrs]; rfl
    simp [runOK, this]
  | some rs =>
    have hb := hi.beh
    unfold Behaves at hb
    rw [hrs] at hb
    simp only at hb
    rw [rules_of_allSome u hi.allSome] at hb
    simp only [runNodes_spec _ _ _ _ hb probe, runOK]
    simp

def okOf (o : StepObs) : Bool := match o.out with | .ok () => true | _ => false
def uNext (u : List SGroup) (r : Req) (o : StepObs) : List SGroup := if okOf o then u ++ accepted r else u
def vOutOf (u : List SGroup) (r : Req) (o : StepObs) : List Aspect :=
  match o.out with
  | .panic _ => [.loadPanic]
  | .ok () => (if collisionFree u (accepted r) then [] else [.collisionAccepted]) ++
      (if closed (accepted r) then [] else [.unresolvedAccepted])
  | .err .redef => if collisionFree u (accepted r) then [.spuriousRedef] else []
  | .err _ => []

theorem check_cons (probe : List (Nat × Nat)) (u : List SGroup) (al : Bool) (i : Nat) (r : Req) (o : StepObs)
    (rest : List (Req × StepObs)) :
    check probe u al i ((r, o) :: rest) =
      (vOutOf u r o ++ (if o.groups == .ok (sortedGroups (uNext u r o)) then [] else [Aspect.groups]) ++
        (if runOK (al || okOf o) (uNext u r o) probe o.run then [] else [Aspect.reports])).map (fun x => (i, x)) ++
      check probe (uNext u r o) (al || okOf o) (i + 1) rest := by
  rfl

/-- **The repaired model meets the executable statement** on every history of well-formed requests:
no call panics, a call that returns nil never collides and never carries an unresolved function, a
redefinition error is never spurious, after every call LoadedGroups is the sorted union and a run reports
exactly what the union's rules say. -/
theorem model_meets_spec_from (probe : List (Nat × Nat)) : ∀ (hist : List Req) (e : Engine) (u : List SGroup)
    (al : Bool) (i : Nat), Inv e u al → (∀ r ∈ hist, ReqOK r) →
    check probe u al i (hist.zip (runHist true probe e hist)) = []
  | [], _, _, _, _, _, _ => by simp [runHist, check]
  | r :: rs, e, u, al, i, hi, hok => by
    have hreq := hok r (List.mem_cons_self ..)
    have hstep := inv_step (r := r) hi hreq
    simp only [runHist, List.zip_cons_cons]
    rw [check_cons]
    have hokeq : okOf ⟨(load true e r).2, loadedGroups true (load true e r).1, run (load true e r).1 probe⟩ =
        okOut (load true e r).2 := by
      unfold okOf okOut
      cases (load true e r).2 with
      | ok x => cases x; rfl
      | err _ => rfl
      | panic _ => rfl
    have hu : uNext u r ⟨(load true e r).2, loadedGroups true (load true e r).1, run (load true e r).1 probe⟩ =
        (if okOut (load true e r).2 then u ++ accepted r else u) := by
      unfold uNext; rw [hokeq]
    rw [hu, hokeq]
    have hg : (loadedGroups true (load true e r).1 ==
        .ok (sortedGroups (if okOut (load true e r).2 then u ++ accepted r else u))) = true := by
      rw [model_meets_spec_groups _ _ hstep.view]; simp
    have hr := run_of_inv hstep probe
    have hout : vOutOf u r ⟨(load true e r).2, loadedGroups true (load true e r).1, run (load true e r).1 probe⟩ = [] := by
      unfold vOutOf
      simp only
      cases hout : (load true e r).2 with
      | panic p => exact absurd hout (load_never_panics e r p)
      | ok x =>
        cases x
        have hfree := ok_collisionFree (r := r) hi.view (by rw [hout]; rfl)
        have hcl := closed_of_allSome (reqOK_allSome hreq)
        simp [hfree, hcl]
      | err x =>
        cases x <;> simp
        exact redef_not_free hi.view hout
    simp only [hg, hr, hout, if_true, List.append_nil, List.map_nil, List.nil_append]
    exact model_meets_spec_from probe rs _ _ _ _ hstep (fun q hq => hok q (List.mem_cons_of_mem _ hq))

/-- **model_meets_spec**: from the empty engine, for every history of well-formed requests and every probe,
the observations of the repaired model satisfy the executable statement of C13 that the harness evaluates
on the implementation. -/
theorem model_meets_spec (probe : List (Nat × Nat)) (hist : List Req) (hok : ∀ r ∈ hist, ReqOK r) :
    specHolds probe (hist.zip (runHist true probe Engine.new hist)) = true := by
  unfold specHolds violations
  rw [model_meets_spec_from probe hist Engine.new [] false 0 inv_new hok]
  rfl

/-! ## Concrete histories: non-vacuity, and kernel-checked counterexamples for the code as it is -/

/-- file A: helper `hs_4`, Do function `do_6` calling it, one rule `c1()` → `Do(do_6)` in group 1 -/
def fA : Req :=
  ⟨false, 0, ⟨1, false, false, [⟨4, .str, 101, true, none, false⟩, ⟨6, .doF, 102, true, some 4, false⟩],
    [⟨1, 9, [⟨0, 1, false, 11, some 6, none, false, 10⟩]⟩]⟩, [], []⟩
/-- file B: the same names, but the helper is declared *after* the function that calls it -/
def fB : Req :=
  ⟨false, 0, ⟨2, false, false, [⟨6, .doF, 201, true, some 4, false⟩, ⟨4, .str, 202, true, none, false⟩],
    [⟨2, 9, [⟨0, 2, false, 21, some 6, none, false, 10⟩]⟩]⟩, [], []⟩
/-- file C: two plain groups, one of them rejected by the filter -/
def fC : Req :=
  ⟨false, 0, ⟨3, false, false, [], [⟨1, 5, [⟨0, 1, false, 31, none, none, false, 6⟩]⟩,
    ⟨3, 8, [⟨0, 2, false, 32, none, none, false, 9⟩]⟩]⟩, [], [(0, 1)]⟩
/-- precompiled IR whose rule names a function no file declares -/
def fDangling : Req :=
  ⟨true, 0, ⟨4, false, false, [], [⟨4, 3, [⟨0, 2, false, 41, some 38, none, false, 4⟩]⟩]⟩, [], []⟩
/-- precompiled IR listing group 5 twice -/
def fDup : Req :=
  ⟨true, 0, ⟨5, false, false, [], [⟨5, 3, []⟩, ⟨5, 3, []⟩]⟩, [], []⟩
/-- precompiled IR whose rule names `do_6` (declared by file A) without declaring it -/
def fLeft : Req :=
  ⟨true, 0, ⟨6, false, false, [], [⟨6, 3, [⟨0, 2, false, 61, some 6, none, false, 4⟩]⟩]⟩, [], []⟩
/-- a file that registers `do_6` and is then rejected: its second declaration does not compile -/
def fHalf : Req :=
  ⟨false, 0, ⟨7, false, false, [⟨6, .doF, 301, true, none, false⟩, ⟨8, .str, 302, true, none, true⟩],
    [⟨7, 9, [⟨0, 1, false, 71, some 6, none, false, 10⟩]⟩]⟩, [], []⟩
/-- `fLeft` importing a bundle whose file declares `do_6` -/
def fLeftB : Req :=
  ⟨true, 0, ⟨6, false, false, [], [⟨6, 3, [⟨0, 2, false, 61, some 6, none, false, 4⟩]⟩]⟩,
    [⟨1, false, [⟨8, false, false, [⟨6, .doF, 401, true, none, false⟩], []⟩]⟩], []⟩
/-- file A as precompiled IR with another `PkgPath` -/
def fPkg : Req := { fA with isIR := true, pkgPath := 1 }
def probe : List (Nat × Nat) := [(0, 1), (0, 2)]

def obs (fixed : Bool) (hist : List Req) : List (Req × StepObs) :=
  hist.zip (runHist fixed probe Engine.new hist)

-- non-vacuity: a history with a success, a collision and a filtered group; the repaired model meets the
-- executable statement, group 1 of C is rejected and so does not collide with A's group 1
example : (runHist true probe Engine.new [fA, fC, fA]).map (·.out) = [.ok (), .ok (), .err .redef] := by decide
example : specHolds probe (obs true [fA, fC, fA]) = true := by decide
example : specHolds probe (obs true [fA, fB]) = true := by decide
example : (unionFrom true Engine.new [fA, fC, fA]).map (·.info.name) = [(0, 1), (0, 3)] := by decide
example : okOut (load true (load true Engine.new fA).1 fA).2 = false := by decide
example : EngineWF Engine.new := EngineWF_new
-- the hypothesis of `rules_behave_as_written` / `model_meets_spec` is met by ordinary files, including B whose
-- helper is declared after its use (valid Go): the repaired loader refuses B instead of binding A's helper
example : ReqOK fA ∧ ReqOK fB ∧ ReqOK fC := by
  unfold ReqOK UnitOK UnitClosed; decide
example : ¬ ReqOK fDangling := by
  unfold ReqOK UnitOK UnitClosed; decide

-- D22: LoadedGroups before the first successful call
example : loadedGroups false Engine.new = .panic .nilDeref := by decide
example : loadedGroups true Engine.new = .ok [] := by decide
example : specHolds probe (obs false [fC]) = true := by decide
example : specHolds probe (obs false [fA, fA]) = true := by decide
example : specHolds probe (obs false [fB]) = false := by decide        -- B alone fails, then LoadedGroups panics

-- stale binding: after A, file B loads and its Do function runs A's helper (trace 201 > 101, not 201 > 202)
example : (runHist false probe Engine.new [fA, fB]).map (·.out) = [.ok (), .ok ()] := by decide
example : ((runHist false probe Engine.new [fA, fB]).map (·.run))[1]? =
    some (.reports [⟨0, 1, (0, 1), 10, .trace [102, 101]⟩, ⟨0, 2, (0, 2), 10, .trace [201, 101]⟩] none) := by decide
example : violations probe (obs false [fA, fB]) = [(1, .reports)] := by decide
example : (runHist true probe Engine.new [fA, fB]).map (·.out) = [.ok (), .err .compile] := by decide

-- D29: a dangling function name panics on an empty table and silently binds function 0 otherwise
example : (load false Engine.new fDangling).2 = .panic .index := by decide
example : (load false (load false Engine.new fA).1 fDangling).2 = .ok () := by decide
example : (load true Engine.new fDangling).2 = .err .nofunc := by decide
example : (load true (load true Engine.new fA).1 fDangling).2 = .err .nofunc := by decide

-- a name left over from another file (c13-own-funcs.diff): precompiled IR whose rule names `do_6` without declaring it
-- (`fLeft`), after file A — which declares `do_6` — was accepted; after a file that registered `do_6` and was then
-- rejected (`fHalf`: its second declaration does not compile); next to a bundle file that declares it (`fLeftB`)
example : (load false (load false Engine.new fA).1 fLeft).2 = .ok () := by decide            -- as is: accepted …
example : ((runHist false probe Engine.new [fA, fLeft]).map (·.run))[1]? =                        -- … and runs A's function
    some (.reports [⟨0, 1, (0, 1), 10, .trace [102, 101]⟩, ⟨0, 2, (0, 6), 4, .trace [102, 101]⟩] none) := by decide
example : violations probe (obs false [fA, fLeft]) = [(1, .unresolvedAccepted), (1, .reports)] := by decide
example : (load true (load true Engine.new fA).1 fLeft).2 = .err .nofunc := by decide
example : (load true Engine.new fHalf).2 = .err .compile := by decide
example : (load true Engine.new fHalf).1.env.lookup (gorules, 6) = some 0 := by decide          -- the name is still bound
example : (load false (load false Engine.new fHalf).1 fLeft).2 = .ok () := by decide
example : (load true (load true Engine.new fHalf).1 fLeft).2 = .err .nofunc := by decide
example : (load false Engine.new fLeftB).2 = .ok () := by decide
example : (load true Engine.new fLeftB).2 = .err .nofunc := by decide
example : specHolds probe (obs true [fA, fHalf, fLeft, fLeftB]) = true := by decide
-- the hypotheses of `foreign_name_is_error` / `foreign_name_is_nofunc` are met by `fLeft` (on every engine)
example : ReqForeign fLeft :=
  ⟨(0, fLeft.unit), List.mem_cons_self .., ⟨6, 3, [⟨0, 2, false, 61, some 6, none, false, 4⟩]⟩, by decide,
    ⟨0, 2, false, 61, some 6, none, false, 4⟩, by decide, 6, Or.inl rfl, by decide⟩
example (e : Engine) : (load true e fLeft).2 = .err .nofunc :=
  foreign_name_is_nofunc e fLeft rfl rfl rfl (by decide) (by decide)
    ⟨⟨6, 3, [⟨0, 2, false, 61, some 6, none, false, 4⟩]⟩, by decide,
      ⟨0, 2, false, 61, some 6, none, false, 4⟩, by decide, 6, Or.inl rfl, by decide⟩
example : ReqForeign fLeftB :=
  ⟨(0, fLeftB.unit), List.mem_cons_self .., ⟨6, 3, [⟨0, 2, false, 61, some 6, none, false, 4⟩]⟩, by decide,
    ⟨0, 2, false, 61, some 6, none, false, 4⟩, by decide, 6, Or.inl rfl, by decide⟩
-- `rule_funcs_are_own` is about something: after A and C the engine's rules hold A's function (id 1 = `do_6`) and
-- nothing else; a file that declares its functions loads under any `PkgPath` and binds its own `do_6` (the code as it
-- is binds function 0 of the engine, the string helper: D29)
example : (rulesOfEngine (finalEngine true Engine.new [fA, fHalf, fC])).map (·.doFn) = [some 1, none] := by decide
example : (load true Engine.new fPkg).2 = .ok () ∧ (load false Engine.new fPkg).2 = .ok () := by decide
example : (rulesOfEngine (load true Engine.new fPkg).1).map (·.doFn) = [some 1] := by decide
example : (rulesOfEngine (load false Engine.new fPkg).1).map (·.doFn) = [some 0] := by decide
example : ReqOK fPkg := by unfold ReqOK UnitOK UnitClosed; decide

-- duplicate group inside one IR file
example : (load false Engine.new fDup).2 = .panic .explicit := by decide
example : (load true Engine.new fDup).2 = .err .redef := by decide

-- D21: a RunnerState created before B was loaded (snapshot of 0 functions) panics on B's call
example : runWith 0 (load false Engine.new fA).1 probe = .reports [] (some .index) := by decide
example : run (load false Engine.new fA).1 probe = .reports [⟨0, 1, (0, 1), 10, .trace [102, 101]⟩] none := by decide

end C13
