import Rg.Model.Locks
import Rg.Spec.C08
import Rg.Proofs.Locks
import Rg.Model.FindType
import Rg.Proofs.FindType
import Rg.Model.Adapter
import Rg.Proofs.Adapter
import Rg.Gen.LockEvents
import Rg.Gen.WriteSites
/-!
# C08 — concurrent Run calls: lock discipline ⇒ no conflicting accesses, no deadlock; cache protocol

**Partial by nature**: a theorem cannot exhibit a race of the Go binary.  What is proved, for every
number of threads, every program satisfying the static discipline and *every schedule admitted by the
RW-lock semantics* (both with and without writer preference):

* `discipline_implies_no_conflict` — two accesses to the same guarded variable, at least one a write,
  are never simultaneously enabled;
* `no_write_write_conflict` — the same for write/write on variables that are only write-guarded;
* `no_deadlock` — whenever a thread is unfinished some thread can move (lock ranks strictly
  increase while nested; mutex id = rank, chosen by the extractor and *checked* here);
* the regenerated tables satisfy the discipline (`lock_table_ok`, `expected_vars_present`) and every
  memory write reachable from `(*Engine).Run` targets a guarded cache or per-run state
  (`write_sites_confined`) — `decide` obligations re-checked on every run.

The bridge "accesses ordered by a `sync.RWMutex` do not race" is the Go memory model (trusted).
-/
namespace C08
open Locks SpecC08

/-- the variables whose every access must be under the lock -/
def isGuarded (pol : Var → Policy) (v : Var) : Bool :=
  match pol v with
  | .guarded _ => true
  | _ => false

/-- the variables whose writes must be under the write lock -/
def isWriteGuarded (pol : Var → Policy) (v : Var) : Bool :=
  match pol v with
  | .free => false
  | _ => true

theorem head_step {t : Thread} {s : Step} (h : headOf t = some s) : ∃ r, t.rest = s :: r := by
  unfold headOf at h
  cases hr : t.rest with
  | nil => rw [hr] at h; cases h
  | cons a r => rw [hr] at h; simp at h; exact ⟨r, by rw [h]⟩

/-- Under the invariant, two distinct threads are never both at conflicting accesses of a variable
whose policy demands the write lock for writes and (`rd = true`) a lock for reads. -/
theorem inv_no_conflict {pol : Var → Policy} {st : State} (hI : Inv pol st)
    {i j : Nat} (hi : i < st.n) (hj : j < st.n) (hij : i ≠ j) {v : Var} {m : Mutex}
    (hw : headOf (st.th i) = some (.write v))
    (hpol : pol v = .guarded m ∨ pol v = .writeGuarded m) :
    headOf (st.th j) ≠ some (.write v) ∧ (pol v = .guarded m → headOf (st.th j) ≠ some (.read v)) := by
  obtain ⟨ri, hri⟩ := head_step hw
  have hpi := hI.path i hi
  rw [hri] at hpi
  obtain ⟨h', hs, _⟩ := path_step hpi
  have hWi : holdsW (st.th i).held m = true := by
    simp only [stepOK] at hs
    rcases hpol with hp | hp
    · rw [hp] at hs; simp only at hs
      by_cases hh : holdsW (st.th i).held m = true
      · exact hh
      · rw [if_neg hh] at hs; cases hs
    · rw [hp] at hs; simp only at hs
      by_cases hh : holdsW (st.th i).held m = true
      · exact hh
      · rw [if_neg hh] at hs; cases hs
  have hnot := hI.excl i j hi hj hij m hWi
  constructor
  · intro hwj
    obtain ⟨rj, hrj⟩ := head_step hwj
    have hpj := hI.path j hj
    rw [hrj] at hpj
    obtain ⟨h'', hs', _⟩ := path_step hpj
    have hWj : holdsW (st.th j).held m = true := by
      simp only [stepOK] at hs'
      rcases hpol with hp | hp
      · rw [hp] at hs'; simp only at hs'
        by_cases hh : holdsW (st.th j).held m = true
        · exact hh
        · rw [if_neg hh] at hs'; cases hs'
      · rw [hp] at hs'; simp only at hs'
        by_cases hh : holdsW (st.th j).held m = true
        · exact hh
        · rw [if_neg hh] at hs'; cases hs'
    rw [holdsW_holds hWj] at hnot; cases hnot
  · intro hp hrj'
    obtain ⟨rj, hrj⟩ := head_step hrj'
    have hpj := hI.path j hj
    rw [hrj] at hpj
    obtain ⟨h'', hs', _⟩ := path_step hpj
    simp only [stepOK] at hs'
    rw [hp] at hs'; simp only at hs'
    by_cases hh : holds (st.th j).held m = true
    · rw [hh] at hnot; cases hnot
    · rw [if_neg hh] at hs'; cases hs'

/-- **discipline_implies_no_conflict.**  `progs` are the threads' programs, each satisfying the static
discipline (`pathOK`: guarded accesses under their lock, ranks increasing, balanced).  In every
state reachable under the RW-lock semantics no two threads are simultaneously at a write and
another access of the same guarded variable. -/
theorem discipline_implies_no_conflict (pol : Var → Policy) (progs : List (List Step))
    (hd : ∀ p ∈ progs, pathOK pol p = true) (wp : Bool) (st : State)
    (hr : Reach wp (init progs) st) : RaceFreeAt (isGuarded pol) st := by
  have hI := (init_inv hd).reach hr
  intro i j v hi hj hij hsel hw
  cases hp : pol v with
  | guarded m =>
    have := inv_no_conflict hI hi hj hij hw (Or.inl hp)
    rintro (h | h)
    · exact this.1 h
    · exact this.2 hp h
  | writeGuarded m => simp [isGuarded, hp] at hsel
  | free => simp [isGuarded, hp] at hsel

/-- Two writes of the same write-guarded variable are never simultaneously enabled. -/
theorem no_write_write_conflict (pol : Var → Policy) (progs : List (List Step))
    (hd : ∀ p ∈ progs, pathOK pol p = true) (wp : Bool) (st : State)
    (hr : Reach wp (init progs) st) :
    ∀ i j v, i < st.n → j < st.n → i ≠ j → isWriteGuarded pol v = true →
      headOf (st.th i) = some (.write v) → headOf (st.th j) ≠ some (.write v) := by
  have hI := (init_inv hd).reach hr
  intro i j v hi hj hij hsel hw
  cases hp : pol v with
  | guarded m => exact (inv_no_conflict hI hi hj hij hw (Or.inl hp)).1
  | writeGuarded m => exact (inv_no_conflict hI hi hj hij hw (Or.inr hp)).1
  | free => simp [isWriteGuarded, hp] at hsel

/-- **no_deadlock.**  In every reachable state, if some thread has not finished then some thread can
take a step — with Go's writer preference (`wp = true`) as well as without. -/
theorem no_deadlock (pol : Var → Policy) (progs : List (List Step))
    (hd : ∀ p ∈ progs, pathOK pol p = true) (wp : Bool) (st : State)
    (hr : Reach wp (init progs) st) : DeadlockFreeAt wp st :=
  fun hne => ((init_inv hd).reach hr).progress wp hne

/-- **every_run_completes.**  From every reachable state some continuation finishes all threads, and no
schedule can go on forever: each step strictly decreases `measure` (remaining events, counting a
`Lock` as announce + acquire). -/
theorem every_run_completes (pol : Var → Policy) (progs : List (List Step))
    (hd : ∀ p ∈ progs, pathOK pol p = true) (wp : Bool) (st : State)
    (hr : Reach wp (init progs) st) :
    (∃ sched st', runSched wp st sched = some st' ∧ st'.done = true) ∧
    (∀ i, enabled wp st i = true → measure (fire st i) < measure st) := by
  have hI := (init_inv hd).reach hr
  exact ⟨hI.can_finish wp _ st (Nat.le_refl _), fun i he => hI.fire_measure he⟩

/-- A disciplined thread never releases a lock it does not hold and never re-acquires one it holds
(`sync` would throw / self-deadlock): an unfinished thread that is not waiting for a lock is enabled. -/
theorem only_lock_waits (pol : Var → Policy) (progs : List (List Step))
    (hd : ∀ p ∈ progs, pathOK pol p = true) (wp : Bool) (st : State)
    (hr : Reach wp (init progs) st) (i : Nat) (hi : i < st.n) (hne : (st.th i).rest ≠ [])
    (hstuck : enabled wp st i = false) : ∃ m, want (st.th i) = some m :=
  want_of_stuck ((init_inv hd).reach hr) hi hne hstuck

/-! ## Obligations on the regenerated tables (re-checked on every run) -/

/-- the policy of the extracted variables: the specification's expectations, by name -/
def tablePolicy : Var → Policy :=
  policyOf Gen.LockEvents.mutexNames Gen.LockEvents.varNames Gen.LockEvents.table

set_option maxRecDepth 8000 in
/-- every extracted function is exact (no approximation) and every entry function satisfies the
discipline on every control-flow path -/
theorem lock_table_ok : tableOK tablePolicy Gen.LockEvents.table = true := by decide

/-- the variables and mutexes the specification names still exist -/
theorem expected_vars_present :
    expectedVarsPresent Gen.LockEvents.mutexNames Gen.LockEvents.varNames Gen.LockEvents.table = true := by
  decide

set_option maxRecDepth 8000 in
/-- every memory write reachable from `(*Engine).Run` — an instruction of the repository, or a library method
with a pointer receiver called on an object kept by value in shared state — targets one of the two guarded
caches, per-run state, or a variable of a per-run closure, or is a lock operation on one of the two guard
mutexes -/
theorem write_sites_confined : Confined Gen.WriteSites.sites := by
  have h : Gen.WriteSites.sites.all siteOK = true := by decide
  intro w hw
  have := List.all_eq_true.1 h w hw
  simpa [siteOK] using this

/-- **extracted_threads_safe.**  The link from the regenerated table to the schedule theorems: let every
thread run any sequence of complete executions of entry functions of the extracted table, each
execution being any expansion of one of its extracted paths (loops and recursion any number of
times, nested calls any number of times).  Because the table checks (`lock_table_ok`, by `decide`)
every such program satisfies the discipline (`threadProg_ok`, soundness of the static check), hence
in every reachable state: no conflicting accesses to a guarded variable, no two writes to a
write-guarded variable, and no deadlock. -/
theorem extracted_threads_safe (progs : List (List Step))
    (hp : ∀ p ∈ progs, ThreadProg Gen.LockEvents.table p) (wp : Bool) (st : State)
    (hr : Reach wp (init progs) st) :
    RaceFreeAt (isGuarded tablePolicy) st ∧
    (∀ i j v, i < st.n → j < st.n → i ≠ j → isWriteGuarded tablePolicy v = true →
      headOf (st.th i) = some (.write v) → headOf (st.th j) ≠ some (.write v)) ∧
    DeadlockFreeAt wp st := by
  have hd : ∀ p ∈ progs, pathOK tablePolicy p = true := fun p h => threadProg_ok lock_table_ok (hp p h)
  exact ⟨discipline_implies_no_conflict _ progs hd wp st hr,
    no_write_write_conflict _ progs hd wp st hr, no_deadlock _ progs hd wp st hr⟩

/-! ## The FQN → type cache under every schedule -/

open FT in
/-- **findType_stable.**  Both variants of `FindType` (`rc = false`: as it stands, `rc = true`: with the
second look-up), any threads, any call lists, any schedule admitted by the lock (`wp` either way),
starting from a well-formed cache.  In every reachable state:
(1) every completed call `FindType(fqn)` returned a type *named* `fqn` (i.e. `resolve(fqn)` up to the
cross-universe equivalence of C14) exactly when the name resolves or was cached initially, and an
error otherwise; (2) every cache entry carries the name it is filed under; (3) once a name is
cached it stays cached in every later state — so all later calls return a type of that name. -/
theorem findType_stable (rc wp : Bool) (res : Fqn → Bool) (cache0 : List (Fqn × Val))
    (hwf : ∀ k v, lookup cache0 k = some v → v.name = k) (progs : List (List Call)) (st : FState)
    (hr : Reach rc wp res (init cache0 progs) st) :
    (∀ i, i < st.n → ∀ c o, (c, o) ∈ (st.th i).done → OutOK (keys cache0) res c o) ∧
    (∀ k v, lookup st.cache k = some v → v.name = k) ∧
    (∀ st', Reach rc wp res st st' → ∀ k, (lookup st.cache k).isSome = true →
      (lookup st'.cache k).isSome = true ∧ ∀ v', lookup st'.cache k = some v' → v'.name = k) := by
  have hI := (init_FInv (res := res) progs hwf).reach hr
  refine ⟨fun i hi c o h => ((hI.t i hi).done c o h).1, hI.c.name, ?_⟩
  intro st' hr' k hk
  exact ⟨cached_reach hr' hk, fun v' hv' => (hI.reach hr').c.name k v' hv'⟩

open FT in
/-- Failed look-ups are never cached, and nothing but requested, resolvable names is added. -/
theorem findType_caches_only_resolved (rc wp : Bool) (res : Fqn → Bool) (cache0 : List (Fqn × Val))
    (hwf : ∀ k v, lookup cache0 k = some v → v.name = k) (progs : List (List Call)) (st : FState)
    (hr : Reach rc wp res (init cache0 progs) st) (k : Fqn) (hk : (lookup st.cache k).isSome = true) :
    k ∈ keys cache0 ∨ (res k = true ∧ Req st k) :=
  ((init_FInv (res := res) progs hwf).reach hr).c.why k hk

open FT in
/-- **findType_pointer_stable** (repaired variant only): once a value is cached for a name, the cache
holds *that very value* (same universe) in every later state, and every call that completes later
with a hit returns it. -/
theorem findType_pointer_stable (wp : Bool) (res : Fqn → Bool) (cache0 : List (Fqn × Val))
    (progs : List (List Call)) (st st' : FState)
    (hr : Reach true wp res (init cache0 progs) st) (hr' : Reach true wp res st st')
    (k : Fqn) (v : Val) (h : lookup st.cache k = some v) : lookup st'.cache k = some v :=
  value_reach ((init_XInv cache0 progs).reach hr) hr' h

open FT in
/-- In the repaired variant at most one thread is inside the write section, and nobody reads then. -/
theorem findType_write_exclusive (wp : Bool) (res : Fqn → Bool) (cache0 : List (Fqn × Val))
    (progs : List (List Call)) (st : FState) (hr : Reach true wp res (init cache0 progs) st)
    (i j : Nat) (hi : i < st.n) (hj : j < st.n) (hij : i ≠ j) (hw : (st.th i).inW = true) :
    (st.th j).inW = false ∧ (st.th j).inR = false :=
  ((init_XInv cache0 progs).reach hr).excl i j hi hj hij hw

/-- what a lone sequential `FindType(c.fqn)` delivers, as a class: the type of that name, or an error -/
def expectedClass (res : FT.Fqn → Bool) (keys0 : List FT.Fqn) (c : FT.Call) : Option FT.Fqn :=
  if res c.fqn || keys0.contains c.fqn then some c.fqn else none

def outClass : FT.Out → Option FT.Fqn
  | .ok v => some v.name
  | .err => none

open FT in
/-- **findType_equals_sequential.**  When all threads have finished — whatever the number of threads, the
schedule, the variant — thread `i` has answered exactly its own calls, in order, and every answer
is, as a class (name of the returned type, or error), what a lone sequential call would have
delivered: it depends on the name only, not on what other goroutines did to the cache. -/
theorem findType_equals_sequential (rc wp : Bool) (res : Fqn → Bool) (cache0 : List (Fqn × Val))
    (hwf : ∀ k v, lookup cache0 k = some v → v.name = k) (progs : List (List Call)) (st : FState)
    (hr : Reach rc wp res (init cache0 progs) st) (hd : st.done = true) (i : Nat) (hi : i < st.n) :
    (st.th i).done.reverse.map (fun p => (p.1, outClass p.2)) =
      (progs.getD i []).map (fun c => (c, expectedClass res (keys cache0) c)) := by
  have hI := (init_FInv (res := res) progs hwf).reach hr
  have hH := (init_HistOK cache0 progs).reach hr i hi
  have hcalls : (st.th i).calls = [] := by
    simp only [FState.done, List.all_eq_true, List.mem_range] at hd
    simpa using hd i hi
  rw [hcalls, List.append_nil] at hH
  rw [← hH, List.map_map]
  apply List.map_congr_left
  intro p hp
  have hok := ((hI.t i hi).done p.1 p.2 (by simpa using hp)).1
  obtain ⟨c, o⟩ := p
  simp only [Function.comp, expectedClass]
  cases o with
  | ok v =>
    obtain ⟨hn, hw⟩ := hok
    have : (res c.fqn || (keys cache0).contains c.fqn) = true := by
      rcases hw with h | h <;> simp [h]
    rw [if_pos this]
    show (c, some v.name) = (c, some c.fqn)
    rw [hn]
  | err =>
    obtain ⟨h1, h2⟩ := hok
    have : ¬ (res c.fqn || (keys cache0).contains c.fqn) = true := by simp [h1, h2]
    rw [if_neg this]
    rfl

/-- the outcomes of a finished run in the vocabulary of the executable statement -/
def obsOf (st : FT.FState) : List CallObs :=
  st.allDone.map (fun p => { fqn := p.1.fqn, out := match p.2 with | .ok v => some v.name | .err => none })

theorem mem_allDone {st : FT.FState} {p : FT.Call × FT.Out} :
    p ∈ st.allDone ↔ ∃ i, i < st.n ∧ p ∈ (st.th i).done := by
  simp [FT.FState.allDone, List.mem_flatMap, List.mem_range]

theorem done_calls {st : FT.FState} (hd : st.done = true) {i : Nat} (hi : i < st.n) : (st.th i).calls = [] := by
  simp only [FT.FState.done, List.all_eq_true, List.mem_range] at hd
  simpa using hd i hi

open FT in
/-- **model_meets_spec.**  Whatever the schedule, when all threads have finished the model's outcomes
and final cache satisfy the executable statement `cacheSpecHolds` that the harness evaluates on the
implementation's outputs. -/
theorem model_meets_spec (rc wp : Bool) (res : Fqn → Bool) (cache0 : List (Fqn × Val))
    (hwf : ∀ k v, lookup cache0 k = some v → v.name = k) (progs : List (List Call)) (st : FState)
    (hr : Reach rc wp res (init cache0 progs) st) (hd : st.done = true) :
    cacheSpecHolds res (keys cache0) (obsOf st) (keys st.cache) = true := by
  have hI := (init_FInv (res := res) progs hwf).reach hr
  have hdone : ∀ p, p ∈ st.allDone → OutOK (keys cache0) res p.1 p.2 ∧
      ((res p.1.fqn = true ∨ p.1.fqn ∈ keys cache0) → (lookup st.cache p.1.fqn).isSome = true) := by
    intro p hp
    obtain ⟨i, hi, hm⟩ := mem_allDone.1 hp
    exact (hI.t i hi).done p.1 p.2 hm
  simp only [cacheSpecHolds, Bool.and_eq_true, List.all_eq_true]
  refine ⟨⟨⟨?_, ?_⟩, ?_⟩, ?_⟩
  · -- outcomes
    intro o ho
    obtain ⟨p, hp, rfl⟩ := List.mem_map.1 ho
    obtain ⟨hok, _⟩ := hdone p hp
    obtain ⟨c, out⟩ := p
    cases out with
    | ok v =>
      obtain ⟨hn, hw⟩ := hok
      have : (res c.fqn || (keys cache0).contains c.fqn) = true := by
        rcases hw with h | h
        · simp [h]
        · simp [h]
      simp only [this, if_true]
      simp [hn]
    | err =>
      obtain ⟨h1, h2⟩ := hok
      have : (res c.fqn || (keys cache0).contains c.fqn) = false := by simp [h1, h2]
      simp only [this]
      exact (by simp : ((none : Option Nat) == none) = true)
  · -- nothing dropped
    intro k hk
    have := hI.c.keep k hk
    simpa using (mem_keys st.cache k).2 this
  · -- cached exactly when resolvable (or initially there)
    intro o ho
    obtain ⟨p, hp, rfl⟩ := List.mem_map.1 ho
    obtain ⟨_, hc⟩ := hdone p hp
    simp only [beq_iff_eq]
    cases hq : (res p.1.fqn || (keys cache0).contains p.1.fqn) with
    | true =>
      have : res p.1.fqn = true ∨ p.1.fqn ∈ keys cache0 := by simpa using hq
      have := (mem_keys st.cache _).2 (hc this)
      simpa using this
    | false =>
      cases hin : (keys st.cache).contains p.1.fqn with
      | false => rfl
      | true =>
        have hmem : p.1.fqn ∈ keys st.cache := by simpa using hin
        rcases hI.c.why _ ((mem_keys st.cache _).1 hmem) with h | ⟨h, _⟩
        · simp [h] at hq
        · simp [h] at hq
  · -- nothing unasked for
    intro k hk
    have hmem : k ∈ keys st.cache := hk
    simp only [Bool.or_eq_true, List.any_eq_true, beq_iff_eq]
    rcases hI.c.why _ ((mem_keys st.cache _).1 hmem) with h | ⟨_, i, hi, hreq⟩
    · left; simpa using h
    · right
      simp only [reqOf, done_calls hd hi, List.map_nil, List.nil_append, List.mem_map] at hreq
      obtain ⟨p, hp, rfl⟩ := hreq
      exact ⟨_, List.mem_map.2 ⟨p, mem_allDone.2 ⟨i, hi, hp⟩, rfl⟩, rfl⟩

/-! ## The once-only engine of the analysis adapter: unguarded readers never meet the writer -/

/-- **adapter_publish_race_free.**  `globalEngine` and `runnerStatePool` are read without the mutex (by
`runAnalyzer` and by the pool's `New` closure) — the lock discipline only covers their writes
(`writeGuarded`).  In the protocol model of `prepareEngine` + `runAnalyzer`, for any number of
goroutines, any outcomes of `newEngine()` and any schedule: no state has one thread about to write
either variable while another is at an unguarded read; moreover readers always see both assigned. -/
theorem adapter_publish_race_free (n : Nat) (st : Adapter.St) (hr : Adapter.Reach (Adapter.init n) st) :
    (∀ i j, i < st.n → j < st.n → (st.pc i = .writeE ∨ st.pc i = .writeP) → (st.pc j).isUse = true → False) ∧
    (∀ j, j < st.n → (st.pc j).isUse = true → st.e = true ∧ st.p = true) := by
  have hI := (Adapter.init_AInv n).reach hr
  have huse : ∀ j, j < st.n → (st.pc j).isUse = true → st.e = true ∧ st.p = true := by
    intro j hj hu
    have := hI.loc j hj
    cases hp : st.pc j with
    | usePool q => rw [hp] at this; exact this
    | _ => rw [hp] at hu; simp [Adapter.Pc.isUse] at hu
  refine ⟨?_, huse⟩
  intro i j hi hj hw hu
  obtain ⟨he, hp⟩ := huse j hj hu
  have hl := hI.loc i hi
  rcases hw with hw | hw
  · rw [hw] at hl; simp only [Adapter.Loc] at hl; rw [he] at hl; cases hl
  · rw [hw] at hl; simp only [Adapter.Loc] at hl; rw [hp] at hl; cases hl.2

/-- the mutex serialises the critical sections of `prepareEngine` -/
theorem adapter_mutex_exclusive (n : Nat) (st : Adapter.St) (hr : Adapter.Reach (Adapter.init n) st)
    (i j : Nat) (hi : i < st.n) (hj : j < st.n) (hij : i ≠ j) (h : (st.pc i).holdsG = true) :
    (st.pc j).holdsG = false :=
  ((Adapter.init_AInv n).reach hr).excl i j hi hj hij h

/-! structural tie of the adapter model: the extracted paths of `analyzer.prepareEngine`, reduced to the
events on the mutex and the three variables (adjacent duplicates removed), are exactly the model's -/

def adapterEv (s : Step) : Option Adapter.Ev :=
  let mn (m : Mutex) := Gen.LockEvents.mutexNames[m]? == some "analyzer.globalEngineMu"
  let vn (v : Var) (name : String) := Gen.LockEvents.varNames[v]? == some name
  match s with
  | .lock m => if mn m then some .lock else none
  | .unlock m => if mn m then some .unlock else none
  | .read v => if vn v "analyzer.globalEngine" then some .readE
               else if vn v "analyzer.globalEngineErrored" then some .readB else none
  | .write v => if vn v "analyzer.globalEngine" then some .writeE
                else if vn v "analyzer.globalEngineErrored" then some .writeB
                else if vn v "analyzer.runnerStatePool" then some .writeP else none
  | _ => none

def dedupAdj : List Adapter.Ev → List Adapter.Ev
  | [] => []
  | [x] => [x]
  | x :: y :: r => if x = y then dedupAdj (y :: r) else x :: dedupAdj (y :: r)

def normPath (p : List Item) : List Adapter.Ev :=
  dedupAdj (p.filterMap (fun it => match it with | .step s => adapterEv s | _ => none))

def adapterPathsOK : Bool :=
  match Gen.LockEvents.table.fns.find? (fun f => f.name == "analyzer.prepareEngine") with
  | none => false
  | some f =>
    f.paths.all (fun p => Adapter.modelPaths.contains (normPath p)) &&
    Adapter.modelPaths.all (fun q => f.paths.any (fun p => normPath p == q))

set_option maxRecDepth 8000 in
theorem adapter_paths_as_modelled : adapterPathsOK = true := by decide

/-! ## Non-vacuity and kernel-checked counterexamples -/

/-- `FindType`'s miss path (extracted shape): a disciplined program -/
def exMiss : List Step := [.rlock 1, .read 3, .runlock 1, .lock 1, .read 3, .write 3, .unlock 1]
/-- the same with the read lock removed (the mutation "read the map outside the lock") -/
def exNoRLock : List Step := [.read 3, .lock 1, .read 3, .write 3, .unlock 1]
def exPol : Var → Policy := fun v => if v = 3 then .guarded 1 else .free

example : pathOK exPol exMiss = true := by decide
example : pathOK exPol exNoRLock = false := by decide
-- the hypotheses of the theorems are satisfiable: two disciplined threads, a reachable state
example : ∀ p ∈ [exMiss, exMiss], pathOK exPol p = true := by decide
example : (runSched true (init [exMiss, exMiss]) [0, 0, 0, 1, 1, 1, 0, 1, 0]).isSome = true := by decide
-- without the discipline the conflict state *is* reachable: thread 0 at `write 3` (holding the
-- write lock) while thread 1 is at its unguarded `read 3`
example : ((runSched true (init [exMiss, exNoRLock]) [0, 0, 0, 0, 0, 0]).map
    (fun st => (headOf (st.th 0), headOf (st.th 1)))) = some (some (.write 3), some (.read 3)) := by decide
-- the extracted table has entry functions with paths, so `ThreadProg` is inhabited beyond `nil`
example : (Gen.LockEvents.table.fns.any (fun f => f.entry && !f.paths.isEmpty)) = true := by decide
-- a lock-order inversion is rejected statically and does deadlock dynamically
def exAB : List Step := [.lock 1, .lock 2, .unlock 2, .unlock 1]
def exBA : List Step := [.lock 2, .lock 1, .unlock 1, .unlock 2]
example : pathOK exPol exAB = true ∧ pathOK exPol exBA = false := by decide
example : ((runSched false (init [exAB, exBA]) [0, 0, 1, 1, 0, 1]).map
    (fun st => (enabled false st 0, enabled false st 1, st.done))) = some (false, false, false) := by decide


/-! the cache protocol: two threads ask for the same name (7) from a cold cache, in universes 1 and 2 -/
def ftProgs : List (List FT.Call) := [[⟨7, 1⟩], [⟨7, 2⟩, ⟨7, 2⟩]]
def ftRes : FT.Fqn → Bool := fun k => k == 7
/-- both miss under the read lock, then fill one after the other -/
def ftSched : List Nat := [0, 0, 0, 1, 1, 1, 0, 0, 0, 0, 0, 1, 1, 1, 1, 1]

-- as it stands: the second fill overwrites the first; the cache entry changes from universe 1 to
-- universe 2 after it was set, and the two calls return different objects of the same name
example : ((FT.runSched false true ftRes (FT.init [] ftProgs) (ftSched.take 11)).map
    (fun st => FT.lookup st.cache 7)) = some (some ⟨7, 1⟩) := by decide
example : ((FT.runSched false true ftRes (FT.init [] ftProgs) ftSched).map
    (fun st => (FT.lookup st.cache 7, (st.th 0).done, (st.th 1).done))) =
    some (some ⟨7, 2⟩, [(⟨7, 1⟩, .ok ⟨7, 1⟩)], [(⟨7, 2⟩, .ok ⟨7, 2⟩)]) := by decide
-- repaired: the same schedule, the second thread re-checks, finds the entry and returns it
example : ((FT.runSched true true ftRes (FT.init [] ftProgs) ftSched).map
    (fun st => (FT.lookup st.cache 7, (st.th 0).done, (st.th 1).done))) =
    some (some ⟨7, 1⟩, [(⟨7, 1⟩, .ok ⟨7, 1⟩)], [(⟨7, 2⟩, .ok ⟨7, 1⟩)]) := by decide
-- non-vacuity of `model_meets_spec`: a complete run exists and satisfies the statement
example : ((FT.runSched false true ftRes (FT.init [] ftProgs)
    (ftSched ++ [1, 1, 1])).map (fun st => (st.done, cacheSpecHolds ftRes [] (obsOf st) (FT.keys st.cache)))) =
    some (true, true) := by decide
-- the statement is not trivially true: a cached failure or a wrong name is rejected
example : cacheSpecHolds ftRes [] [⟨7, some 7⟩, ⟨8, none⟩] [7] = true := by decide
example : cacheSpecHolds ftRes [] [⟨7, some 7⟩, ⟨8, none⟩] [7, 8] = false := by decide
example : cacheSpecHolds ftRes [] [⟨7, some 9⟩] [7] = false := by decide
example : cacheSpecHolds ftRes [] [⟨7, none⟩] [] = false := by decide

-- the adapter: three goroutines, the first creates the engine; a reachable state where it is between the
-- two assignments (e set, pool not yet) — nobody is at an unguarded read there
example : ((Adapter.runSched (Adapter.init 3) [(0, true, 2), (0, true, 2), (0, true, 2), (0, true, 2), (0, true, 2)]).map
    (fun st => (st.e, st.p, st.pc 0, st.pc 1))) = some (true, false, .writeP, .start) := by decide
example : ((Adapter.runSched (Adapter.init 2)
    [(0, true, 1), (0, true, 1), (0, true, 1), (0, true, 1), (0, true, 1), (0, true, 1), (0, true, 1),
     (1, true, 1), (1, true, 1), (1, true, 1)]).map
    (fun st => (st.pc 0, st.pc 1))) = some (.usePool 1, .usePool 1) := by decide

end C08
