import Rg.Model.RunSafe
import Rg.Props.C03
import Rg.Props.C15
import Rg.Props.C09
import Rg.Props.C02
/-!
# C07 — Run never crashes on type-checked code and reports are well-formed

What is proved about the model: the run-time consumers of a capture are total on every capture
shape (ordinary node, typed nil, empty `$*` list, unbound) — report location (`At()`), capture text,
line filters, message interpolation for every template and every `TruncateLen`, the walk itself — and
every delivered report lies inside the file when gogrep's match and captures do.  The predicates'
own totality is `pred_total` below, a corollary of C02's `pred_eq_spec` over the predicate model (`PR.evalPred`);
gogrep and go/types are trusted.  Whether the *Go code*
panics where the model does not is what the exhaustive product-space enumeration of the harness
checks (every capture shape × every predicate × payload clause × TruncateLen × GoVersion × state).
-/
namespace C07
open RunSafe Render

/-- **report_wf**: whatever the At() capture looks like, the reported node — and the suggestion
range, which is the same span — is the whole match or an ordinary capture, hence inside the file
whenever gogrep's match and captures are. -/
theorem report_wf (len : Int) (ms : Span) (loc : Option Capture) (hs : Bool)
    (hm : inFile len ms) (hc : ∀ sp, loc = some (.present sp) → inFile len sp) :
    inFile len (mkReport ms loc hs).node ∧
    ∀ s, (mkReport ms loc hs).suggestion = some s → inFile len s := by
  have hn : inFile len (reportNode ms loc) := by
    unfold reportNode
    cases loc with
    | none => exact hm
    | some c =>
      cases c with
      | present sp => exact hc sp rfl
      | typedNil => exact hm
      | emptySlice => exact hm
      | absent => exact hm
  refine ⟨hn, ?_⟩
  intro s h
  unfold mkReport at h
  cases hs <;> simp at h
  rw [← h]; exact hn

/-- **location_fallback**: a capture that matched nothing never becomes the reported node -/
theorem location_fallback (ms : Span) (c : Capture) (h : usable c = none) :
    reportNode ms (some c) = ms := by
  simp [reportNode, h]

/-- **text_total**: the text of any capture shape is defined (empty for typed nil / empty list /
unbound), for positions a parsed node can have (`pos ≤ end`). -/
theorem text_total (src : Bytes) (c : Capture) (fb : Bytes)
    (h : ∀ sp, c = .present sp → sp.pos ≤ sp.endp) : ∃ r, captureText src c fb = .ok r := by
  unfold captureText
  cases c with
  | present sp =>
    simp only [usable, nodeText]
    split
    · rename_i hb
      have := h sp rfl
      simp only [goSlice]
      have c2 : 0 ≤ sp.pos ∧ sp.pos ≤ sp.endp ∧ sp.endp ≤ (src.length : Int) := ⟨hb.1.1, this, hb.2.2⟩
      simp only [c2, and_self, if_true]; exact ⟨_, rfl⟩
    · exact ⟨_, rfl⟩
  | typedNil => exact ⟨_, rfl⟩
  | emptySlice => exact ⟨_, rfl⟩
  | absent => exact ⟨_, rfl⟩

/-- **line_filter_total**: Line comparisons are defined on every capture shape and reject the ones
without a position. -/
theorem line_filter_total (lineAt : Int → Nat) (c : Capture) (cmp : Nat → Bool) :
    ∃ b, lineConstFilter lineAt c cmp = .ok b ∧ (usable c = none → b = false) := by
  unfold lineConstFilter lineOf
  cases c <;> simp [usable]

/-- **message_total**: interpolation of any template with any captures under any TruncateLen
(negative, 1..4, default) is defined — C03.render_total over C15.total. -/
theorem message_total (msg : Bytes) (whole : Cap) (caps : List Cap) (t : Bool) (cfg : Int) :
    ∃ r, render msg whole caps t (effLen cfg) = .ok r :=
  C03.render_total msg whole caps t (effLen cfg)

/-- **walk_total_balanced**: the walk is a total function that leaves the ancestor stack as it found
it (so `run`'s "node path is not empty" panic cannot fire) — C09.walk_balanced. -/
theorem walk_total_balanced (C : Walk.Cfg) (T : Nat → Walk.Row) (hC : Walk.CfgOK C) (t : Walk.Tree) :
    (Walk.walk C T t { path := [], dead := false, func := none }).2.path = [] := by
  rw [C09.walk_balanced C T hC]

-- non-vacuity
example : inFile 10 ⟨2, 5⟩ := by unfold inFile; decide
example : (mkReport ⟨2, 5⟩ (some .typedNil) true).node = ⟨2, 5⟩ := by decide
example : (mkReport ⟨2, 5⟩ (some (.present ⟨3, 4⟩)) true).suggestion = some ⟨3, 4⟩ := by decide

/-- **pred_total**: no modelled Where() predicate the (repaired) loader accepts panics at any site — single
capture, typed nil, statement or `$*xs` list of any length: its outcome is a verdict or "not applicable".
Corollary of `C02.pred_eq_spec` (same two hypotheses: the go/types scoping contract for `IsVariadicParam`
and no expression list for `IdenticalTo`, which has no list case). -/
theorem pred_total (p : PR.Pred) (f : PR.Site → Option (Res Bool)) (s : PR.Site)
    (h : PR.evalPred .repaired p = some f)
    (hv : p = .isVariadic → C02.ScopeOKCap s.cf s.ex)
    (hr : ∀ r o, p = .rel r → r = .identicalTo → s.oracle = some o → o.onElems = none)
    (k : Panic) : f s ≠ some (.panic k) := by
  rw [C02.pred_eq_spec p f s h hv hr]
  cases SpecC02.specPred p s <;> simp

end C07
