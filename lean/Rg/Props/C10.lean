import Rg.Model.TypeMatch
import Rg.Spec.C10
import Rg.Proofs.TypeMatch
import Rg.Proofs.TypeMatchSound
import Rg.Proofs.TypeMatchK
import Rg.Proofs.TypeMatchKSound
import Rg.Proofs.TypeMatchKComplete
import Rg.Proofs.TypeMatchParse
import Rg.Proofs.TypeMatchLaws
import Rg.Proofs.TypeMatchKClosed
import Rg.Proofs.SpecC10
import Rg.Proofs.TypeMatchInst
/-!
# C10 — type patterns match exactly the types they denote

Model: `Rg/Model/TypeMatch.lean` — `parseExpr`; `matchK` / `matchFieldsK` / `matchTop`: the matcher as it is after
`fixes/c10-*.diff` (backtracking in continuation-passing style, bindings of a failed attempt deleted, aliases looked
through, variadic / generic signatures and function-local types rejected); `matchIdenticalAsIs` / `matchSubsAsIs` /
`matchTopAsIs`: the matcher before those repairs.  Spec: `Rg/Spec/C10.lean` (`Denotes` declaratively, `specMatch`
executably: complete backtracking).

For the repaired matcher both halves of the property are proved for **all** patterns and **all** types:

* `match_sound` — an answer `true` is witnessed by an assignment under which the pattern denotes the type;
* `match_complete` — if some assignment makes the pattern denote the type, the answer is `true`; `$*_`, repeated
  `$T` and `[$n]` included.  Needs: the pattern is well-formed (`Pat.wf`, which `parseExpr` guarantees:
  `parse_wf`), and `xtypes.Identical` is symmetric and transitive on the types involved (`IdLaws`; proved for the
  repaired `xtypes.Identical` on well-formed trees: `idLaws_xtypes`, from C14's `tid_symm` / `tid_trans`);
* `match_iff`, `match_iff_xtypes` — the two together; `match_iff_strict` — the same with the property's own reading
  `Rules.strict` on types without instantiated generic named types;
* `failed_attempt_restores` — a failed attempt leaves the binding tables as they were (what the old code got wrong);
* `specMatch_iff`, `model_meets_spec` — the executable spec `specMatch` decides the same existential, so the matcher
  *is* the complete backtracking matcher of the spec (reading `Rules.repaired`, identity `xtypes.Identical`);
* `closed_pattern` — on tame types a closed pattern is answered like the executable *strict* spec `specMatch … Rules.strict`.

"Denotes" is read with `Rules.repaired` and the identity `xtypes.Identical`: the property's own reading
(`Rules.strict`, Go-spec identity) differs in that `pkg.T` must not match an instantiation `T[…]` (open finding
`named:instantiated-generic`) and where `xtypes.Identical` differs from `go/types.Identical` (C14's open findings).
The statements about the old matcher (`…_asis`) and the kernel-checked counterexamples to its completeness are kept.
-/

namespace C10
open XTypes TypeMatch
open SpecC10 (Denotes DenotesSeq Rules specMatch)

/-! ## The repaired matcher -/

/-- Soundness, all patterns × all types: if `MatchIdentical` answers `true`, some assignment `σ` of the
`$`-variables makes the pattern denote the type — each `$*_` standing for a run of fields / parameters, each
occurrence of `$T` identical to `σ T`, each `[$n]` of length `σ n`. -/
theorem match_sound (fx : Bool) (p : Pat) (t : Ty) (h : matchTop fx p t = true) :
    ∃ σ, Denotes (tid fx) Rules.repaired σ p t := by
  unfold matchTop at h
  rcases hm : matchK fx p t MState.empty matchedK with ⟨b, fin⟩
  rw [hm] at h
  simp only at h
  subst h
  obtain ⟨s', _, _, _, hd⟩ := soundK (fx := fx) (W := fun _ => True) (P := fun _ => True) wclosed_true
    ⟨fun _ _ _ _ _ => trivial, fun _ _ _ _ => trivial⟩ p t matchedK MState.empty fin restoring_matched trivial trivial hm
  exact ⟨s', hd s' (MState.le_refl _)⟩

/-- A failed attempt leaves the binding tables exactly as they were: whatever the continuation, if it restores the
tables when it fails, so does the match in front of it (`delete(state.typeMatches, name)` /
`delete(state.int64Matches, v)` undo the bindings of the attempt). -/
theorem failed_attempt_restores (fx : Bool) (p : Pat) (t : Ty) (k : MState → Bool × MState) (hk : Restoring k)
    (st st' : MState) (h : matchK fx p t st k = (false, st')) : st' = st :=
  matchK_restores p t k hk st st' h

/-- Completeness, all well-formed patterns × all types, `$*_` and repeated variables included: if *some* assignment
`σ` makes the pattern denote the type, `MatchIdentical` answers `true`.  `W` is any set of types containing `t` and
the values of `σ`, closed under the matcher's steps, on which `xtypes.Identical` is symmetric and transitive. -/
theorem match_complete (fx : Bool) (W : Ty → Prop) (L : IdLaws fx W) (p : Pat) (t : Ty) (σ : MState)
    (hwf : p.wf = true) (hwt : W t) (hσ : ValuesIn W σ) (hd : Denotes (tid fx) Rules.repaired σ p t) :
    matchTop fx p t = true :=
  completeK L σ hσ p t matchedK MState.empty hwf hwt hd (compat_empty fx W σ) restoring_matched (fun _ _ => rfl)

/-- The biconditional of the property for the repaired matcher (reading `Rules.repaired`, identity `xtypes.Identical`). -/
theorem match_iff (fx : Bool) (W : Ty → Prop) (L : IdLaws fx W) (p : Pat) (t : Ty) (hwf : p.wf = true) (hwt : W t) :
    matchTop fx p t = true ↔ ∃ σ, ValuesIn W σ ∧ Denotes (tid fx) Rules.repaired σ p t := by
  constructor
  · intro h
    unfold matchTop at h
    rcases hm : matchK fx p t MState.empty matchedK with ⟨b, fin⟩
    rw [hm] at h
    simp only at h
    subst h
    obtain ⟨s', _, hp, _, hd⟩ := soundK (fx := fx) L.toWClosed (valuesIn_inv W) p t matchedK MState.empty fin
      restoring_matched hwt (fun x y hl => by simp [lookupT, MState.empty] at hl) hm
    exact ⟨s', hp, hd s' (MState.le_refl _)⟩
  · rintro ⟨σ, hσ, hd⟩
    exact match_complete fx W L p t σ hwf hwt hσ hd

/-- every pattern the loader accepts is well-formed -/
theorem parse_wf (errObj : Nat) (itab : Itab) (e : TExpr) (p : Pat) (h : parseExpr errObj itab e = some p) :
    p.wf = true :=
  parseExpr_wf errObj itab e p h

/-- The biconditional for the code as it is (repaired matcher, repaired `xtypes.Identical`): a pattern accepted by the
loader matches a well-formed type iff some assignment of well-formed types makes the pattern denote it.
`E` = `token.IsExported`, `D` = the declaration table (one spelling per declaration object). -/
theorem match_iff_xtypes (E : String → Bool) (D : Nat → Decl) (errObj : Nat) (itab : Itab) (e : TExpr) (p : Pat)
    (hp : parseExpr errObj itab e = some p) (t : Ty) (ht : WellFormed true E D t) :
    matchTop true p t = true ↔
      ∃ σ, ValuesIn (WellFormed true E D) σ ∧ Denotes typeIdentical Rules.repaired σ p t :=
  match_iff true _ (idLaws_xtypes true E D) p t (parse_wf errObj itab e p hp) ht

/-- The property in its own reading of types (`Rules.strict`): on types without instantiated generic named types
(`noInst`) the repaired matcher answers `true` iff some assignment makes the pattern denote the type — what separates
`match_iff` from the strict reading is exactly the open finding `named:instantiated-generic`. -/
theorem match_iff_strict (fx : Bool) (W : Ty → Prop) (L : IdLaws fx W) (p : Pat) (t : Ty) (hwf : p.wf = true) (hwt : W t)
    (hni : noInst t = true) :
    matchTop fx p t = true ↔ ∃ σ, ValuesIn W σ ∧ Denotes (tid fx) Rules.strict σ p t := by
  rw [match_iff fx W L p t hwf hwt]
  constructor
  · rintro ⟨σ, hσ, hd⟩; exact ⟨σ, hσ, denotes_strict_of_repaired p t hni hd⟩
  · rintro ⟨σ, hσ, hd⟩; exact ⟨σ, hσ, denotes_repaired_of_strict p t hd⟩

/-- … for the code as it is: pattern accepted by the loader, well-formed type without instantiations. -/
theorem match_iff_strict_xtypes (E : String → Bool) (D : Nat → Decl) (errObj : Nat) (itab : Itab) (e : TExpr) (p : Pat)
    (hp : parseExpr errObj itab e = some p) (t : Ty) (ht : WellFormed true E D t) (hni : noInst t = true) :
    matchTop true p t = true ↔
      ∃ σ, ValuesIn (WellFormed true E D) σ ∧ Denotes typeIdentical Rules.strict σ p t :=
  match_iff_strict true _ (idLaws_xtypes true E D) p t (parse_wf errObj itab e p hp) ht hni

/-! ### the executable spec the driver evaluates on the implementation's answers -/

/-- `specMatch` only says `true` when some assignment makes the pattern denote the type (any reflexive `I`). -/
theorem spec_sound (I : Ty → Ty → Bool) (R : Rules) (hrefl : ∀ t, I t t = true) (p : Pat) (t : Ty)
    (h : specMatch I R p t = true) : ∃ σ, Denotes I R σ p t := by
  unfold specMatch at h
  cases hl : SpecC10.specM I R MState.empty p t with
  | nil => simp [hl] at h
  | cons s' l =>
    obtain ⟨_, _, hd⟩ := specM_sound (I := I) (R := R) (W := fun _ => True) (P := fun _ => True) wclosed_true
      ⟨fun _ _ _ _ _ => trivial, fun _ _ _ _ => trivial⟩ hrefl p t MState.empty s' trivial trivial (by simp [hl])
    exact ⟨s', hd s' (MState.le_refl _)⟩

/-- `specMatch` decides "some assignment makes the pattern denote the type", for every reading `R` of types, with
`xtypes.Identical` as the identity, under the same hypotheses as `match_complete`. -/
theorem specMatch_iff (fx : Bool) (R : Rules) (W : Ty → Prop) (L : IdLaws fx W) (p : Pat) (t : Ty) (hwt : W t) :
    specMatch (tid fx) R p t = true ↔ ∃ σ, ValuesIn W σ ∧ Denotes (tid fx) R σ p t := by
  constructor
  · intro h
    unfold specMatch at h
    cases hl : SpecC10.specM (tid fx) R MState.empty p t with
    | nil => simp [hl] at h
    | cons s' l =>
      obtain ⟨_, hp, hd⟩ := specM_sound (I := tid fx) (R := R) L.toWClosed (valuesIn_inv W) (tid_refl fx) p t
        MState.empty s' hwt (fun x y hx => by simp [lookupT, MState.empty] at hx) (by simp [hl])
      exact ⟨s', hp, hd s' (MState.le_refl _)⟩
  · rintro ⟨σ, hσ, hd⟩
    obtain ⟨s', hs', _⟩ := specM_complete (R := R) L σ hσ p t MState.empty hwt hd (compat_empty fx W σ)
    unfold specMatch
    cases hl : SpecC10.specM (tid fx) R MState.empty p t with
    | nil => simp [hl] at hs'
    | cons _ _ => simp

/-- The model meets the executable spec: on every well-formed pattern and every type in `W` the repaired matcher
answers exactly what the complete backtracking matcher of the spec answers (same reading, same identity). -/
theorem model_meets_spec (fx : Bool) (W : Ty → Prop) (L : IdLaws fx W) (p : Pat) (t : Ty) (hwf : p.wf = true)
    (hwt : W t) : matchTop fx p t = specMatch (tid fx) Rules.repaired p t := by
  rw [Bool.eq_iff_iff, match_iff fx W L p t hwf hwt, specMatch_iff fx Rules.repaired W L p t hwt]

/-- … in particular for the code as it is, on patterns accepted by the loader and well-formed types. -/
theorem model_meets_spec_xtypes (E : String → Bool) (D : Nat → Decl) (errObj : Nat) (itab : Itab) (e : TExpr) (p : Pat)
    (hp : parseExpr errObj itab e = some p) (t : Ty) (ht : WellFormed true E D t) :
    matchTop true p t = specMatch typeIdentical Rules.repaired p t :=
  model_meets_spec true _ (idLaws_xtypes true E D) p t (parse_wf errObj itab e p hp) ht

/-- Closed patterns: for a pattern without named variables and without `$*_` whose builtin payloads are in
`bs`, and a type that is *tame* (no alias, no variadic or generic signature, no instantiated or function-local
named type, vendor-simple paths, and `I` agreeing with `xtypes.Identical` on the payloads at every subterm), the
matcher answers exactly `specMatch I Rules.strict` — in particular with `I = goIdentical`: "a pattern without
variables matches precisely the types identical to the one it spells". -/
theorem closed_pattern (fx : Bool) (I : Ty → Ty → Bool) (bs : List Ty) (p : Pat) (t : Ty)
    (hc : closedIn bs p = true) (ht : tame fx I bs t = true) :
    matchTop fx p t = specMatch I Rules.strict p t := by
  obtain ⟨b, h1, h2⟩ := closed_runK (fx := fx) (I := I) (bs := bs) p MState.empty t hc ht
  have h2' := h2 matchedK
  simp only at h2'
  unfold matchTop specMatch
  rw [h1, h2']
  cases b <;> simp [matchedK]

/-! ## The matcher before the repairs -/

/-- Soundness of the old matcher (stale bindings can only make later comparisons stricter). -/
theorem match_sound_asis (fx : Bool) (p : Pat) (t : Ty) (h : matchTopAsIs fx p t = true) :
    ∃ σ, Denotes (tid fx) Rules.code σ p t := by
  unfold matchTopAsIs at h
  rcases hm : matchIdenticalAsIs fx MState.empty p t with ⟨b, st'⟩
  rw [hm] at h
  simp only at h
  subst h
  exact ⟨st', (sound p MState.empty t true st' hm).2 rfl st' (MState.le_refl _)⟩

/-- The binding tables of the old matcher only grow during a match — also through a failed alternative (this is
what made stale bindings harmless for soundness and harmful for completeness). -/
theorem bindings_grow_asis (fx : Bool) (p : Pat) (st : MState) (t : Ty) :
    MState.le st (matchIdenticalAsIs fx st p t).2 :=
  (sound p st t _ _ rfl).1

theorem closed_pattern_asis (fx : Bool) (I : Ty → Ty → Bool) (bs : List Ty) (p : Pat) (t : Ty)
    (hc : closedIn bs p = true) (ht : tame fx I bs t = true) :
    matchTopAsIs fx p t = specMatch I Rules.strict p t := by
  obtain ⟨_, h2⟩ := closed_run (fx := fx) (I := I) (bs := bs) p MState.empty t hc ht
  unfold matchTopAsIs specMatch
  rw [h2]
  cases (matchIdenticalAsIs fx MState.empty p t).1 <;> simp

/- `match_complete` for the old matcher is FALSE (kernel-checked below):
     `(∃ σ, Denotes (tid fx) Rules.code σ p t) → matchTopAsIs fx p t = true`. -/

/-! ## Non-vacuity, the old counterexamples, and what the repaired matcher answers on them -/

def tInt : Ty := .basic 2
def tStr : Ty := .basic 17
def tBool : Ty := .basic 1
def sig (ps rs : List Ty) (variadic : Bool := false) : Ty := .sig variadic [] (.tuple ps) (.tuple rs)

-- `match_sound` / `closed_pattern` are exercised by concrete matches
example : matchTop true (.map (.var "t") (.var "t")) (.map tInt tInt) = true := by decide
example : matchTop true (.funcNoSeq [.builtin tInt, .slice (.builtin tStr)] []) (sig [tInt, .slice tStr] []) =
    specMatch SpecC14.goIdentical Rules.strict (.funcNoSeq [.builtin tInt, .slice (.builtin tStr)] [])
      (sig [tInt, .slice tStr] []) :=
  closed_pattern true SpecC14.goIdentical [tInt, tStr] _ _ (by decide) (by decide)

-- `match_complete` / `match_iff_xtypes` are not vacuous: the laws hold on the well-formed trees (`idLaws_xtypes`),
-- and here is a pattern with `$*_` and a repeated variable, a well-formed type and an assignment denoting it
def exD : Nat → Decl := fun _ => ⟨none, "", false, false⟩
def exPat : Pat := .func [.varSeq, .var "t", .var "t"] []
def exTy : Ty := sig [tInt, tStr, tStr] []
def exσ : MState := ⟨[("t", tStr)], []⟩
example : WellFormed true (fun _ => false) exD exTy := ⟨by decide, by decide, by decide⟩
example : ValuesIn (WellFormed true (fun _ => false) exD) exσ := by
  intro x y h
  have : x = "t" ∧ y = tStr := by
    by_cases hx : x = "t"
    · subst hx; simp [lookupT, exσ] at h; exact ⟨rfl, h.symm⟩
    · have : ("t" == x) = false := by simpa using fun e => hx e.symm
      simp [lookupT, exσ, List.find?, this] at h
  obtain ⟨rfl, rfl⟩ := this
  exact ⟨by decide, by decide, by decide⟩
example : Denotes typeIdentical Rules.repaired exσ exPat exTy :=
  .func _ _ _ false [] (.tuple [tInt, tStr, tStr]) (.tuple []) rfl (fun _ => rfl) (fun _ => rfl)
    (.run _ _ 1 (.cons _ _ _ _ (.var "t" tStr tStr rfl (by decide))
      (.cons _ _ _ _ (.var "t" tStr tStr rfl (by decide)) .nil)))
    .nil
example : matchTop true exPat exTy = true := by decide
example : matchTop true exPat exTy = specMatch typeIdentical Rules.repaired exPat exTy :=
  model_meets_spec true _ (idLaws_xtypes true (fun _ => false) exD) exPat exTy (by decide) ⟨by decide, by decide, by decide⟩
example : exPat.wf = true := by decide
example : noInst exTy = true := by decide

-- D14: `func($*_, int)` did not match `func(int, int)` (non-greedy look-ahead, no backtracking); now it does
example : matchTopAsIs false (.func [.varSeq, .builtin tInt] []) (sig [tInt, tInt] []) = false ∧
    specMatch SpecC14.goIdentical Rules.strict (.func [.varSeq, .builtin tInt] []) (sig [tInt, tInt] []) = true := by
  decide
example : matchTop true (.func [.varSeq, .builtin tInt] []) (sig [tInt, tInt] []) = true := by decide
-- … and `func($*_, map[$k]int, $k)` did not match `func(map[string]string, map[bool]int, bool)`: the failed
-- look-ahead on the first parameter left `$k = string` behind; now the binding is deleted again
example : matchTopAsIs false (.func [.varSeq, .map (.var "k") (.builtin tInt), .var "k"] [])
      (sig [.map tStr tStr, .map tBool tInt, tBool] []) = false ∧
    specMatch SpecC14.goIdentical Rules.strict (.func [.varSeq, .map (.var "k") (.builtin tInt), .var "k"] [])
      (sig [.map tStr tStr, .map tBool tInt, tBool] []) = true := by
  decide
example : matchTop true (.func [.varSeq, .map (.var "k") (.builtin tInt), .var "k"] [])
      (sig [.map tStr tStr, .map tBool tInt, tBool] []) = true := by decide
-- a split point chosen for the parameters is revised when the results do not fit: `func($*_, $t, $*_) $t` against
-- `func(int, string) string`; likewise across a nested pattern: `struct{ func($*_, $t, $*_); $t }`
example : matchTop true (.func [.varSeq, .var "t", .varSeq] [.var "t"]) (sig [tInt, tStr] [tStr]) = true ∧
    matchTopAsIs true (.func [.varSeq, .var "t", .varSeq] [.var "t"]) (sig [tInt, tStr] [tStr]) = false := by decide
example : matchTop true (.structNoSeq [.func [.varSeq, .var "t", .varSeq] [], .var "t"])
    (.struct [.field "f" none false false "" (sig [tInt, tStr] []), .field "s" none false false "" tStr]) = true := by
  decide
-- `[$n]` bound in a failed attempt is deleted as well: `func($*_, [$n]int, $*_) [$n]string`
example : matchTop true (.func [.varSeq, .arrayVar "n" (.builtin tInt), .varSeq] [.arrayVar "n" (.builtin tStr)])
    (sig [.array 2 tInt, .array 3 tInt] [.array 3 tStr]) = true := by decide
-- D23: the closed pattern `func(int, []string)` matched the variadic `func(int, ...string)`; now it does not
example : matchTopAsIs false (.funcNoSeq [.builtin tInt, .slice (.builtin tStr)] []) (sig [tInt, .slice tStr] [] true) = true ∧
    specMatch SpecC14.goIdentical Rules.strict (.funcNoSeq [.builtin tInt, .slice (.builtin tStr)] [])
      (sig [tInt, .slice tStr] [] true) = false := by
  decide
example : matchTop true (.funcNoSeq [.builtin tInt, .slice (.builtin tStr)] []) (sig [tInt, .slice tStr] [] true) = false ∧
    matchTop true (.func [.varSeq] [.varSeq]) (sig [tInt, .slice tStr] [] true) = false := by decide
-- a function pattern does not match the type of a generic function any more
example : matchTopAsIs true (.func [.varSeq] [.varSeq]) (.sig false [.iface true false [] []] (.tuple [.tparam 1 7]) (.tuple [])) = true ∧
    matchTop true (.func [.varSeq] [.varSeq]) (.sig false [.iface true false [] []] (.tuple [.tparam 1 7]) (.tuple [])) = false := by
  decide
-- D24 (repaired earlier): `c.T` (import path `c`) matches `a/vendor/c.T`, `a/vendor/b/vendor/c.T` and `vendor/c.T`;
-- the stripping of the pinned code (`vendorStripAsIs`, first `/vendor/` only) got the last two wrong
example : vendorStripAsIs "a/vendor/b/vendor/c" ≠ "c" ∧ vendorStripAsIs "vendor/c" ≠ "c" := by decide
example : matchTop true (.named "c" "T") (.named 1 1 (some "a/vendor/c") "T" true false []) = true ∧
    matchTop true (.named "c" "T") (.named 1 2 (some "a/vendor/b/vendor/c") "T" true false []) = true ∧
    matchTop true (.named "c" "T") (.named 1 3 (some "vendor/c") "T" true false []) = true ∧
    specMatch SpecC14.goIdentical Rules.strict (.named "c" "T") (.named 1 2 (some "a/vendor/b/vendor/c") "T" true false []) = true ∧
    specMatch SpecC14.goIdentical Rules.strict (.named "c" "T") (.named 1 3 (some "vendor/c") "T" true false []) = true := by
  decide
-- an alias-typed expression did not match the pattern of the type it denotes (gotypesalias=1); now it does
example : matchTopAsIs false (.ptr (.builtin tInt)) (.alias 1 5 (.ptr tInt)) = false ∧
    specMatch SpecC14.goIdentical Rules.strict (.ptr (.builtin tInt)) (.alias 1 5 (.ptr tInt)) = true := by decide
example : matchTop true (.ptr (.builtin tInt)) (.alias 1 5 (.ptr tInt)) = true ∧
    matchTop true .anyIface (.alias 0 9 (.iface true false [] [])) = true := by decide
-- `p.Template` matched a function-local `type Template`; now only the package-level one
example : matchTopAsIs true (.named "p" "Template") (.named 1 4 (some "p") "Template" true true []) = true ∧
    matchTop true (.named "p" "Template") (.named 1 4 (some "p") "Template" true true []) = false ∧
    matchTop true (.named "p" "Template") (.named 1 5 (some "p") "Template" true false []) = true := by decide
-- still open: `p.Box` matches the instantiation `Box[int]` (the one clause in which `Rules.repaired` is not `Rules.strict`)
example : matchTop true (.named "p" "Box") (.named 1 6 (some "p") "Box" true false [tInt]) = true ∧
    specMatch SpecC14.goIdentical Rules.strict (.named "p" "Box") (.named 1 6 (some "p") "Box" true false [tInt]) = false := by
  decide
-- a pattern that is not well-formed (never built by `parseExpr`) shows why `match_complete` asks for `Pat.wf`
example : Denotes typeIdentical Rules.repaired MState.empty (.funcNoSeq [.varSeq] []) (sig [tInt, tInt] []) ∧
    matchTop true (.funcNoSeq [.varSeq] []) (sig [tInt, tInt] []) = false :=
  ⟨.funcNoSeq _ _ _ false [] (.tuple [tInt, tInt]) (.tuple []) rfl (fun _ => rfl) (fun _ => rfl)
    (.run _ _ 2 .nil) .nil, by decide⟩

end C10
