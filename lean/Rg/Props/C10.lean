import Rg.Model.TypeMatch
import Rg.Spec.C10
import Rg.Proofs.TypeMatch
import Rg.Proofs.TypeMatchSound
/-!
# C10 — type patterns match exactly the types they denote

Model: `Rg/Model/TypeMatch.lean` (`parseExpr`, `matchIdentical`, `matchSubs` as they stand).  Spec:
`Rg/Spec/C10.lean` (`Denotes` declaratively, `specMatch` executably: complete backtracking).

The biconditional of the property is false of the code as it stands (D14, D23, D24 and relatives, all found by
the harness; kernel-checked below).  Proved here:

* `match_sound` — the "only if" half, for **all** patterns and types: an answer `true` is always witnessed by
  an assignment, under the code's own reading of types (`Rules.code`) and `xtypes.Identical`;
* `closed_pattern` — both halves for patterns without named variables and without `$*_`, on *tame* types
  (where the code's reading and the Go-spec reading coincide): the matcher computes `specMatch … Rules.strict`;
* the completeness half for patterns with `$*_` is false (`func($*_, int)` vs `func(int, int)`), see
  `match_complete` below for the statement and the counterexamples.
-/

namespace C10
open XTypes TypeMatch
open SpecC10 (Denotes DenotesSeq Rules specMatch)

/-- Soundness, all patterns × all types: if `MatchIdentical` (code as it stands, `fx = false`, or with the
repaired `xtypes.Identical`, `fx = true`) answers `true`, some assignment `σ` of the `$`-variables makes the
pattern denote the type — each `$*_` standing for a run of fields / parameters, each occurrence of `$T`
identical to `σ T`, each `[$n]` of length `σ n`. -/
theorem match_sound (fx : Bool) (p : Pat) (t : Ty) (h : matchTop fx p t = true) :
    ∃ σ, Denotes (tid fx) Rules.code σ p t := by
  unfold matchTop at h
  rcases hm : matchIdentical fx MState.empty p t with ⟨b, st'⟩
  rw [hm] at h
  simp only at h
  subst h
  exact ⟨st', (sound p MState.empty t true st' hm).2 rfl st' (MState.le_refl _)⟩

/-- The binding tables only grow during a match — also through a failed alternative (this is what makes
stale bindings harmless for soundness and harmful for completeness). -/
theorem bindings_grow (fx : Bool) (p : Pat) (st : MState) (t : Ty) :
    MState.le st (matchIdentical fx st p t).2 :=
  (sound p st t _ _ rfl).1

/-- Closed patterns: for a pattern without named variables and without `$*_` whose builtin payloads are in
`bs`, and a type that is *tame* (no alias, no variadic or generic signature, no instantiated named type,
vendor-simple paths, and `I` agreeing with `xtypes.Identical` on the payloads at every subterm), the matcher
answers exactly `specMatch I Rules.strict` — in particular with `I = goIdentical`: "a pattern without
variables matches precisely the types identical to the one it spells". -/
theorem closed_pattern (fx : Bool) (I : Ty → Ty → Bool) (bs : List Ty) (p : Pat) (t : Ty)
    (hc : closedIn bs p = true) (ht : tame fx I bs t = true) :
    matchTop fx p t = specMatch I Rules.strict p t := by
  obtain ⟨_, h2⟩ := closed_run (fx := fx) (I := I) (bs := bs) p MState.empty t hc ht
  unfold matchTop specMatch
  rw [h2]
  cases (matchIdentical fx MState.empty p t).1 <;> simp

/- `match_complete` (FALSE for the code as it stands, kernel-checked below):
     `(∃ σ, Denotes (tid fx) Rules.code σ p t) → matchTop fx p t = true`.
   What is proved of completeness is `closed_pattern` (patterns without `$T`, `[$n]`, `$*_`).  Missing for a
   `match_complete_partial` over patterns *with* variables but without `$*_`: an invariant relating the binding
   tables of the matcher to a given assignment σ (first-occurrence bindings are identical, not equal, to σ),
   which needs symmetry and transitivity of `xtypes.Identical` (C14.x_symm / x_trans) at every variable. -/

/-! ## Non-vacuity and kernel-checked counterexamples -/

def tInt : Ty := .basic 2
def tStr : Ty := .basic 17
def sig (ps rs : List Ty) (variadic : Bool := false) : Ty := .sig variadic [] (.tuple ps) (.tuple rs)

-- `match_sound` / `closed_pattern` are exercised by concrete matches
example : matchTop false (.map (.var "t") (.var "t")) (.map tInt tInt) = true := by decide
example : matchTop false (.funcNoSeq [.builtin tInt, .slice (.builtin tStr)] []) (sig [tInt, .slice tStr] []) =
    specMatch SpecC14.goIdentical Rules.strict (.funcNoSeq [.builtin tInt, .slice (.builtin tStr)] [])
      (sig [tInt, .slice tStr] []) :=
  closed_pattern false SpecC14.goIdentical [tInt, tStr] _ _ (by decide) (by decide)

-- D14: `func($*_, int)` does not match `func(int, int)` (non-greedy look-ahead, no backtracking) …
example : matchTop false (.func [.varSeq, .builtin tInt] []) (sig [tInt, tInt] []) = false ∧
    specMatch SpecC14.goIdentical Rules.strict (.func [.varSeq, .builtin tInt] []) (sig [tInt, tInt] []) = true := by
  decide
-- … and `func($*_, map[$k]int, $k)` does not match `func(map[string]string, map[bool]int, bool)`: the failed
-- look-ahead on the first parameter leaves `$k = string` behind
example : matchTop false (.func [.varSeq, .map (.var "k") (.builtin tInt), .var "k"] [])
      (sig [.map tStr tStr, .map (.basic 1) tInt, .basic 1] []) = false ∧
    specMatch SpecC14.goIdentical Rules.strict (.func [.varSeq, .map (.var "k") (.builtin tInt), .var "k"] [])
      (sig [.map tStr tStr, .map (.basic 1) tInt, .basic 1] []) = true := by
  decide
-- D23: the closed pattern `func(int, []string)` matches the variadic `func(int, ...string)`
example : matchTop false (.funcNoSeq [.builtin tInt, .slice (.builtin tStr)] []) (sig [tInt, .slice tStr] [] true) = true ∧
    specMatch SpecC14.goIdentical Rules.strict (.funcNoSeq [.builtin tInt, .slice (.builtin tStr)] [])
      (sig [tInt, .slice tStr] [] true) = false := by
  decide
-- D24 (repaired in /repo): `c.T` (import path `c`) matches `a/vendor/c.T`, `a/vendor/b/vendor/c.T` and `vendor/c.T`;
-- the stripping of the pinned code (`vendorStripAsIs`, first `/vendor/` only) got the last two wrong
example : vendorStripAsIs "a/vendor/b/vendor/c" ≠ "c" ∧ vendorStripAsIs "vendor/c" ≠ "c" := by decide
example : matchTop false (.named "c" "T") (.named 1 1 (some "a/vendor/c") "T" true false []) = true ∧
    matchTop false (.named "c" "T") (.named 1 2 (some "a/vendor/b/vendor/c") "T" true false []) = true ∧
    matchTop false (.named "c" "T") (.named 1 3 (some "vendor/c") "T" true false []) = true ∧
    specMatch SpecC14.goIdentical Rules.strict (.named "c" "T") (.named 1 2 (some "a/vendor/b/vendor/c") "T" true false []) = true ∧
    specMatch SpecC14.goIdentical Rules.strict (.named "c" "T") (.named 1 3 (some "vendor/c") "T" true false []) = true := by
  decide
-- an alias-typed expression does not match the pattern of the type it denotes (gotypesalias=1)
example : matchTop false (.ptr (.builtin tInt)) (.alias 1 5 (.ptr tInt)) = false ∧
    specMatch SpecC14.goIdentical Rules.strict (.ptr (.builtin tInt)) (.alias 1 5 (.ptr tInt)) = true := by decide

end C10
