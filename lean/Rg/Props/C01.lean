import Rg.Proofs.Walk
import Rg.Proofs.WalkOrder
import Rg.Proofs.Rules
import Rg.Gen.WalkTables
import Rg.Gen.Buckets
/-!
# C01 — every matching node of a file is reported exactly once, nothing else

Layers: `Walk.walk` (ast_walker.go, table regenerated from the code) → `Rules.runRules` per visit
(runner.go) over buckets filled by `Rules.loadAll` (ir_loader.go, gorule.go).
gogrep (does a pattern match a node, with how many callbacks) and filter verdicts are the oracle
input `cb : node id → Rule → List Bool`.
-/
namespace C01
open Walk Rules

def fresh : Ctx0 := { path := [], dead := false, func := none }

theorem stOf_fresh (C : Cfg) : stOf C fresh [] = { path := [], dead := false, func := none } := rfl

/-- The walker offers exactly the walker-shaped reference and ends with an empty ancestor stack. -/
theorem walk_is_specT (C : Cfg) (T : Nat → Row) (hC : CfgOK C) (t : Tree) :
    trace C T t = specT C T fresh [] t := by
  have := walk_eq_specT C T hC t fresh []
  rw [stOf_fresh] at this
  simp [trace, this]

/-- **Nothing skipped, nothing twice, source order** — generic in the table: if the walker's table
descends fields in `ast.Inspect` order (`hsub`, `hnd`) and the tree is `clean` (visited kinds carry
their own tag; fields that are not descended hold nothing taggable), the visits are exactly the
tagged nodes in source order with the context of their ancestor chain. -/
theorem walk_visits_source_order (C : Cfg) (T : Nat → Row) (A : Nat → List Nat) (G : Nat → Option Nat)
    (hC : CfgOK C) (hsub : ∀ k, (effOrder C T k).Sublist (A k)) (hnd : ∀ k, (A k).Nodup)
    (t : Tree) (hcl : clean C T G t = true) :
    trace C T t = specFull C A G fresh [] t := by
  rw [walk_is_specT C T hC, specT_eq_specFull C T A G fresh hsub hnd t [] hcl]

/-- The same for **every well-typed tree**, from the decidable check of the regenerated tables. -/
theorem walk_visits_source_order_of_tables (C : Cfg) (tb : Tables) (hC : CfgOK C)
    (hok : tableOK C tb = true) (hif : C.ifKind < tb.n) (hlen : tb.insp.length = tb.n)
    (t : Tree) (hwt : wellTyped tb t = true) :
    trace C tb.T t = specFull C tb.A tb.G fresh [] t :=
  walk_visits_source_order C tb.T tb.A tb.G hC
    (effOrder_sublist_of_tableOK hok hif) (nodup_of_tableOK hok hlen) t
    (clean_of_tableOK C tb hok (sizeOf t + 1) t (by omega) hwt)

/-! ### instance obligations on the tables regenerated from /repo by probing -/

theorem gen_cfg_ok : CfgOK Gen.cfg := by decide
theorem gen_sizes : Gen.cfg.ifKind < Gen.tables.n ∧ Gen.tables.insp.length = Gen.tables.n ∧
    Gen.tables.tags.length = Gen.tables.n ∧ Gen.tables.kinds.length = Gen.tables.n := by decide
theorem gen_probe_clean : Gen.probeProblems = [] ∧ Gen.nilCrashes = [] := by decide
theorem gen_tables_ok : tableOK Gen.cfg Gen.tables = true := by decide

/-- **The code's walker** (as probed on this run) offers every tagged node of every well-typed file
tree exactly once, in source order. -/
theorem walker_offers_every_node (t : Tree) (hwt : wellTyped Gen.tables t = true) :
    trace Gen.cfg Gen.tables.T t = specFull Gen.cfg Gen.tables.A Gen.tables.G fresh [] t :=
  walk_visits_source_order_of_tables Gen.cfg Gen.tables gen_cfg_ok gen_tables_ok
    gen_sizes.1 gen_sizes.2.1 t hwt

/-! ### rules: placement, merge, first-accepting-rule loop -/

/-- Buckets after any history of successful loads = all rules in load order filed under that tag
(StmtList/ExprList fan-out included via `dst`; merge preserves order). -/
theorem buckets_sound_complete (dst : Nat → List Nat) (hist : List (List Rule)) (t : Nat) :
    loadAll dst hist t = rulesFor dst hist t := by
  cases hist with
  | nil => simp [loadAll, rulesFor, allRules, emptyBuckets]
  | cons f fs =>
    simp [loadAll, rulesFor, allRules, foldl_merge, loadFile_apply, List.filter_append]

/-- Per node: the first accepting rule reports, once per accepted sub-match (all accepting rules for
multi-match tags) — for **every** callback sequence gogrep may produce, several sub-matches of a list
pattern with mixed verdicts included. -/
theorem runRules_first_accepting (multi : Bool) (cb : Rule → List Bool) (rules : List Rule) :
    runRules multi cb rules = pick multi cb rules :=
  runRules_eq_pick multi cb rules

/-- The pinned loop (`matched = rr.handleMatch(rule, m)`: the verdict of the *last* callback) met the
reference only for rules whose pattern makes gogrep call back at most once per node. -/
theorem runRules_first_accepting_partial (multi : Bool) (cb : Rule → List Bool) (rules : List Rule)
    (h : ∀ r ∈ rules, (cb r).length ≤ 1) : runRulesAsIs multi cb rules = pick multi cb rules := by
  rw [runRulesAsIs_single multi cb rules h]; exact runRules_eq_pick multi cb rules

/-- the excluded case of the pinned loop, kernel-checked (and replayed on the real engine: rules
`Match("$x, $x").Where(m["x"].Text == "1")` then `Match("f($*_)")` on `f(1, 1, 2, 2)`): a list pattern
accepted on its first sub-match and rejected on its last let a later rule report the same node too -/
example : runRulesAsIs false (fun r => if r.id = 0 then [true, false] else [true])
    [⟨0, 7⟩, ⟨1, 7⟩] = [0, 1] := by decide
example : pick false (fun r => if r.id = 0 then [true, false] else [true])
    [⟨0, 7⟩, ⟨1, 7⟩] = [0] := by decide
-- the repaired loop on the same input, and one with two accepted sub-matches of the first rule
example : runRules false (fun r => if r.id = 0 then [true, false] else [true])
    [⟨0, 7⟩, ⟨1, 7⟩] = [0] := by decide
example : runRules false (fun r => if r.id = 0 then [true, false, true] else [true])
    [⟨0, 7⟩, ⟨1, 7⟩] = [0, 0] := by decide

/-- a whole run: reports as (node id, rule id) in delivery order -/
def run (C : Cfg) (T : Nat → Row) (dst : Nat → List Nat) (multi : Nat → Bool)
    (hist : List (List Rule)) (cb : Nat → Rule → List Bool) (t : Tree) : List (Nat × Nat) :=
  runOver dst multi hist cb ((trace C T t).map fun v => (v.id, v.tag))

/-- the property's right-hand side -/
def specRun (C : Cfg) (A : Nat → List Nat) (G : Nat → Option Nat) (dst : Nat → List Nat)
    (multi : Nat → Bool) (hist : List (List Rule)) (cb : Nat → Rule → List Bool) (t : Tree) :
    List (Nat × Nat) :=
  specOver dst multi hist cb ((specFull C A G fresh [] t).map fun v => (v.id, v.tag))

/-- the rule loop over any visit sequence -/
theorem runOver_eq_specOver (dst : Nat → List Nat) (multi : Nat → Bool)
    (hist : List (List Rule)) (cb : Nat → Rule → List Bool) (visits : List (Nat × Nat)) :
    runOver dst multi hist cb visits = specOver dst multi hist cb visits := by
  unfold runOver specOver
  apply flatMap_congr'
  intro v _
  rw [buckets_sound_complete, runRules_eq_pick]

/-- **C01 for the model**: the reports of a run are exactly the (node, rule) pairs obtained by offering
every tagged node in source order to the rules in load order and taking the first accepting rule (all
accepting rules for multi-match tags), one report per accepted sub-match — for every well-typed file
tree, every load history and every answer of the gogrep / filter oracle. -/
theorem run_eq_spec (dst : Nat → List Nat) (multi : Nat → Bool)
    (hist : List (List Rule)) (cb : Nat → Rule → List Bool)
    (t : Tree) (hwt : wellTyped Gen.tables t = true) :
    run Gen.cfg Gen.tables.T dst multi hist cb t =
      specRun Gen.cfg Gen.tables.A Gen.tables.G dst multi hist cb t := by
  unfold run specRun
  rw [walker_offers_every_node t hwt]
  exact runOver_eq_specOver dst multi hist cb _

/-! ### the bucket table regenerated from `loadSyntaxRule` -/

/-- expected placement: an ordinary root tag goes to its own bucket; statement lists to every node
kind holding a statement list, expression lists to calls / composite literals / returns, declaration
lists to the file; `Node` (too general) and `Unknown` are load errors. -/
def expectedDst (t : Nat) : Option (List Nat) :=
  if t = Gen.tagUnknown ∨ t = Gen.tagNode then none
  else if t = Gen.tagStmtList then some [Gen.tagBlockStmt, Gen.tagCaseClause, Gen.tagCommClause]
  else if t = Gen.tagExprList then some [Gen.tagCallExpr, Gen.tagCompositeLit, Gen.tagReturnStmt]
  else if t = Gen.tagDeclList then some [Gen.tagFile]
  else if t < Gen.tagNumBuckets then some [t]
  else none

/-- the walker visits nodes with tag `b` (some kind carries it) -/
def walkerVisitsTag (b : Nat) : Bool := Gen.walkRows.any (fun r => r.tag == some b)

/-- instance obligations: no root tag makes Load panic; every producible root tag is either rejected
or filed under exactly the expected buckets, all of which are in range and visited by the walker;
multi-match tags are exactly the targets of list fan-out. -/
theorem gen_buckets_no_panic : Gen.dstPanics = [] := by decide
theorem gen_buckets_ok : Gen.dstRows.all (fun r => r.2 == expectedDst r.1) = true := by decide
theorem gen_buckets_visited :
    Gen.dstRows.all (fun r => match r.2 with
      | some bs => bs.all (fun b => decide (b < Gen.numBuckets) && walkerVisitsTag b)
      | none => true) = true := by decide
theorem gen_multimatch : Gen.multiMatchTags =
    [Gen.tagBlockStmt, Gen.tagCaseClause, Gen.tagCommClause, Gen.tagFile] := by decide
theorem gen_buckets_cover : (Gen.dstRows.map (·.1)).contains Gen.tagStmtList ∧
    (Gen.dstRows.map (·.1)).contains Gen.tagExprList ∧ (Gen.dstRows.map (·.1)).contains Gen.tagDeclList ∧
    40 ≤ Gen.dstRows.length := by decide

/-! ### non-vacuity -/

/-- `x = f(y)` as a tree: AssignStmt(1) [Lhs: Ident(30)] [Rhs: CallExpr(9) [Fun: Ident] [Args: Ident]] -/
def sample : Tree :=
  .node 1 0 0 0 [.node 30 1 0 0 [], .node 9 2 3 0 [.node 30 3 0 0 [], .node 30 4 2 0 []]]

-- the hypothesis of `walker_offers_every_node` / `run_eq_spec` is met by a concrete tree
example : wellTyped Gen.tables sample = true := by
  simp [sample, wellTyped]
  decide
-- … and the callback hypothesis by a concrete oracle
example : ∀ (n : Nat) (r : Rule), ((fun _ _ => [true] : Nat → Rule → List Bool) n r).length ≤ 1 := by
  intro _ _; simp

end C01
