import Rg.Model.Macro
import Rg.Model.IRConv
import Rg.Proofs.MacroLit
import Rg.Proofs.MacroGroup
/-!
# C18 — helper functions are transparent (macro half)

* `macro_transparent`          (after the fix) a successful expansion **is** the inlined body;
* `macro_total`                (after the fix) expansion never panics when every argument has a parameter name;
* `macro_transparent_partial`, `macro_total_partial` (code as it is) the same, provided no parameter
  name occurs as a selected field name in the body — the hypothesis is necessary: D18
  (`func(Text dsl.Var) bool { return Text.Text.Matches("1") }` panics) and the renamed selector
  (an identifier argument silently rewrites `X.Line` into `X.Const`) are kernel-checked below;
* `arity_panic` the code as it is indexes `macro.params[i]` without a bound check;
* `retype_int_is_go_value` the constant `expandMacro` re-creates for a copied integer literal (the `types.Info`
  patch: `strconv.ParseInt(text, 0, 64)`) is the value the Go language gives the literal, for every
  well-formed literal below 2^63 — legacy octal, `0b`/`0o`/`0x` in either case, decimal, `_` separators;
  `retype_int_folds`: so it folds to the IR of the same literal written inline; `retype_string`,
  `retype_other_never_folds` (rune, float, imaginary literals of a helper body are never folded: rejected);
* `group_calls_see_go_binding` on every group the statement loop accepts, the helper a call is expanded with
  (`findLocalMacro`: first recorded) is the value the function variable has in Go when the rule is reached
  (latest `:=` / `=`); `group_refuses_assign`: a plain `=` is refused — necessary: recorded like `:=` the
  first-match lookup would pick the old body (kernel-checked below).
-/
namespace C18
open Macro

theorem lookup_bind_mem : ∀ (ps : List String) (as : List GExpr) (n : String) (v : GExpr),
    lookupArg (bindArgs ps as) n = some v → n ∈ ps
  | [], _, n, v, h => by simp [bindArgs, lookupArg] at h
  | p :: ps, [], n, v, h => by simp [bindArgs, lookupArg] at h
  | p :: ps, a :: as, n, v, h => by
    unfold bindArgs lookupArg at h
    rw [List.lookup_append] at h
    cases hl : List.lookup n (bindArgs ps as) with
    | some w =>
      exact List.mem_cons_of_mem _ (lookup_bind_mem ps as n w hl)
    | none =>
      rw [hl] at h
      simp only [Option.none_or, List.lookup_cons] at h
      by_cases hn : (n == p) = true
      · have : n = p := by simpa using hn
        rw [this]; simp
      · have hn' : (n == p) = false := by simpa using hn
        rw [hn'] at h
        simp at h

theorem lookup_none_of_not_param (ps : List String) (as : List GExpr) (n : String) (h : n ∉ ps) :
    lookupArg (bindArgs ps as) n = none := by
  cases hl : lookupArg (bindArgs ps as) n with
  | none => rfl
  | some v => exact absurd (lookup_bind_mem ps as n v hl) h

mutual
theorem substAsIs_eq : ∀ (env : List (String × GExpr)) (e : GExpr),
    (∀ n ∈ selNames e, lookupArg env n = none) → substAsIs env e = .ok (subst env e)
  | env, .ident n, _ => by simp [substAsIs, subst]
  | env, .lit k t, _ => by simp [substAsIs, subst]
  | env, .paren x, h => by
    have ih := substAsIs_eq env x (fun n hn => h n (by simpa [selNames] using hn))
    simp [substAsIs, subst, ih]
  | env, .sel x m, h => by
    have ih := substAsIs_eq env x (fun n hn => h n (by simp [selNames, hn]))
    have hm := h m (by simp [selNames])
    simp [substAsIs, subst, ih, hm]
  | env, .index x i, h => by
    have ih1 := substAsIs_eq env x (fun n hn => h n (by simp [selNames, hn]))
    have ih2 := substAsIs_eq env i (fun n hn => h n (by simp [selNames, hn]))
    simp [substAsIs, subst, ih1, ih2]
  | env, .call f as, h => by
    have ih1 := substAsIs_eq env f (fun n hn => h n (by simp [selNames, hn]))
    have ih2 := substAsIsList_eq env as (fun n hn => h n (by simp [selNames, hn]))
    simp [substAsIs, subst, ih1, ih2]
  | env, .unary o x, h => by
    have ih := substAsIs_eq env x (fun n hn => h n (by simpa [selNames] using hn))
    simp [substAsIs, subst, ih]
  | env, .binary o x y, h => by
    have ih1 := substAsIs_eq env x (fun n hn => h n (by simp [selNames, hn]))
    have ih2 := substAsIs_eq env y (fun n hn => h n (by simp [selNames, hn]))
    simp [substAsIs, subst, ih1, ih2]
theorem substAsIsList_eq : ∀ (env : List (String × GExpr)) (es : List GExpr),
    (∀ n ∈ selNamesList es, lookupArg env n = none) → substAsIsList env es = .ok (substList env es)
  | env, [], _ => by simp [substAsIsList, substList]
  | env, a :: as, h => by
    have ih1 := substAsIs_eq env a (fun n hn => h n (by simp [selNamesList, hn]))
    have ih2 := substAsIsList_eq env as (fun n hn => h n (by simp [selNamesList, hn]))
    simp [substAsIsList, substList, ih1, ih2]
end

theorem checkArgs_fixed_irrelevant (matcher : String) : ∀ (ps : List String) (as : List GExpr) (i : Nat),
    as.length ≤ ps.length → checkArgs false matcher ps as i = checkArgs true matcher ps as i
  | _, [], _, _ => by simp [checkArgs]
  | [], _ :: _, _, h => by simp at h
  | _ :: ps, a :: as, i, h => by
    simp only [checkArgs]
    rw [checkArgs_fixed_irrelevant matcher ps as (i + 1) (by simpa using h)]

/-- The code as it is agrees with the fixed code on every helper whose parameter names are not used
as selected field names, called with no more arguments than it has parameter names. -/
theorem expandAsIs_eq_expand (matcher : String) (params : List String) (args : List GExpr) (body : GExpr)
    (harity : args.length ≤ params.length) (h : ∀ p ∈ params, p ∉ selNames body) :
    expandAsIs matcher params args body = expand matcher params args body := by
  unfold expandAsIs expand
  rw [checkArgs_fixed_irrelevant matcher params args 0 harity]
  cases checkArgs true matcher params args 0 with
  | some o => rfl
  | none =>
    have := substAsIs_eq (bindArgs params args) body
      (fun n hn => lookup_none_of_not_param params args n (fun hp => h n hp hn))
    simp [this]

theorem checkArgs_not_ok (fixed : Bool) (matcher : String) : ∀ (ps : List String) (as : List GExpr) (i : Nat) (o : Outcome),
    checkArgs fixed matcher ps as i = some o → ∀ e, o ≠ .ok e
  | _, [], _, _, h, _ => by simp [checkArgs] at h
  | [], _ :: _, _, o, h, e => by
    simp only [checkArgs, Option.some.injEq] at h
    subst h; cases fixed <;> simp
  | _ :: ps, a :: as, i, o, h, e => by
    simp only [checkArgs] at h
    split at h
    · exact checkArgs_not_ok fixed matcher ps as (i + 1) o h e
    · simp at h; subst h; simp

/-- **Transparency (after the fix)**: a successful expansion is the helper's body with the arguments
substituted for the parameters — so whatever is done with it (conversion, loading) is what is done with
the manually inlined group. -/
theorem macro_transparent (matcher : String) (params : List String) (args : List GExpr) (body e : GExpr)
    (h : expand matcher params args body = .ok e) : e = inline params args body := by
  unfold expand at h
  cases hc : checkArgs true matcher params args 0 with
  | some o =>
    rw [hc] at h
    have ho : o = .ok e := h
    exact absurd ho (checkArgs_not_ok true matcher params args 0 o hc e)
  | none =>
    rw [hc] at h
    simp only [Outcome.ok.injEq] at h
    exact h.symm

/-  Full statement for the code as it is — FALSE (see `renamed_selector` below):
      theorem macro_transparent_asis … (h : expandAsIs matcher params args body = .ok e) : e = inline params args body
-/
theorem macro_transparent_partial (matcher : String) (params : List String) (args : List GExpr) (body e : GExpr)
    (harity : args.length ≤ params.length) (hsel : ∀ p ∈ params, p ∉ selNames body)
    (h : expandAsIs matcher params args body = .ok e) : e = inline params args body := by
  rw [expandAsIs_eq_expand matcher params args body harity hsel] at h
  exact macro_transparent matcher params args body e h

theorem checkArgs_no_panic (matcher : String) : ∀ (ps : List String) (as : List GExpr) (i : Nat) (p : Panic),
    checkArgs true matcher ps as i ≠ some (.panic p)
  | _, [], _, p => by simp [checkArgs]
  | [], _ :: _, _, _ => by simp [checkArgs]
  | _ :: ps, a :: as, i, p => by
    simp only [checkArgs]
    split
    · exact checkArgs_no_panic matcher ps as (i + 1) p
    · simp

/-- **Totality (after the fix)**: expansion answers with an expression or a located error, never
with a panic — for every helper, every argument list. -/
theorem macro_total (matcher : String) (params : List String) (args : List GExpr) (body : GExpr) :
    ∀ p, expand matcher params args body ≠ .panic p := by
  intro p
  unfold expand
  cases hc : checkArgs true matcher params args 0 with
  | some o =>
    intro h
    have ho : o = .panic p := h
    exact checkArgs_no_panic matcher params args 0 p (by rw [hc, ho])
  | none => simp

/-  Full statement for the code as it is — FALSE (D18: `d18_panics`; arity: `arity_panic`). -/
theorem macro_total_partial (matcher : String) (params : List String) (args : List GExpr) (body : GExpr)
    (harity : args.length ≤ params.length) (hsel : ∀ p ∈ params, p ∉ selNames body) :
    ∀ p, expandAsIs matcher params args body ≠ .panic p := by
  rw [expandAsIs_eq_expand matcher params args body harity hsel]
  exact macro_total matcher params args body

/-- As it is: more arguments than recorded parameter names (a variadic or an unnamed parameter)
is an index-out-of-range panic in `macro.params[i]`; after the fix a located error. -/
theorem arity_panic (matcher : String) (body a : GExpr) :
    expandAsIs matcher [] [a] body = .panic .index ∧ expand matcher [] [a] body = .tooManyArgs := by
  constructor <;> rfl

/-! ## non-vacuity and counterexamples (kernel-checked) -/

def mx : GExpr := .index (.ident "m") (.lit "STRING" "\"x\"")

/-- `func(v dsl.Var) bool { return v.Const && v.Type.Is("int") }` called as `h(m["x"])` -/
def bodyOK : GExpr :=
  .binary "&&" (.sel (.ident "v") "Const") (.call (.sel (.sel (.ident "v") "Type") "Is") [.lit "STRING" "`int`"])

example : (∀ p ∈ ["v"], p ∉ selNames bodyOK) ∧ [mx].length ≤ ["v"].length := by decide
example : expandAsIs "m" ["v"] [mx] bodyOK =
    .ok (.binary "&&" (.sel mx "Const") (.call (.sel (.sel mx "Type") "Is") [.lit "STRING" "`int`"])) := by decide

/-- D18: `func(Text dsl.Var) bool { return Text.Text.Matches("1") }` called as `h(m["x"])` -/
def bodyD18 : GExpr := .call (.sel (.sel (.ident "Text") "Text") "Matches") [.lit "STRING" "\"1\""]

theorem d18_panics : expandAsIs "m" ["Text"] [mx] bodyD18 = .panic .explicit := by decide
example : expand "m" ["Text"] [mx] bodyD18 = .ok (.call (.sel (.sel mx "Text") "Matches") [.lit "STRING" "\"1\""]) := by decide

/-- an identifier argument renames the selector: `func(Line int) bool { return m["x"].Line == Line }`
called as `h(Const)` becomes `m["x"].Const == Const` -/
def bodyLine : GExpr := .binary "==" (.sel mx "Line") (.ident "Line")

theorem renamed_selector :
    expandAsIs "m" ["Line"] [.ident "Const"] bodyLine = .ok (.binary "==" (.sel mx "Const") (.ident "Const")) ∧
    inline ["Line"] [.ident "Const"] bodyLine = .binary "==" (.sel mx "Line") (.ident "Const") := by decide

example : expandAsIs "m" ["v"] [.unary "-" (.lit "INT" "1")] bodyOK = .unsafeArg 0 := by decide

/-! ## constants (outside helper bodies): folding happens before the structure is looked at -/
section consts
open Conv IR

/-- the annotation does not make `convertFilterExprImpl` fold the node -/
def noFold (a : Ann) : Prop := (∀ s, a.cv ≠ .str s) ∧ (∀ n, a.cv ≠ .int n)

theorem convertImplG_noFold (hk : Hook) (ar : Bool) (e : CExpr) (h : noFold e.ann) : convertImplG hk ar e = convertStructG hk ar e := by
  rw [convertImplG]
  obtain ⟨h1, h2⟩ := h
  cases hc : e.ann.cv with
  | str s => exact absurd hc (h1 s)
  | int n => exact absurd hc (h2 n)
  | none => rfl
  | intBig => rfl
  | other => rfl

theorem convertImpl_noFold (e : CExpr) (h : noFold e.ann) : convertImpl e = convertStruct e :=
  convertImplG_noFold noHook true e h

theorem convertG_fold_string (hk : Hook) (ar : Bool) (e : CExpr) (s : Bytes) (h : e.ann.cv = .str s) :
    convertG hk ar e = .ok (mkOp "String" (.str s) []) := by
  rw [convertG, convertImplG, h]
  rfl

theorem convertG_fold_int (hk : Hook) (ar : Bool) (e : CExpr) (n : Int) (h : e.ann.cv = .int n) :
    convertG hk ar e = .ok (mkOp "Int" (.int64 n) []) := by
  rw [convertG, convertImplG, h]
  rfl

/-- **const_fold (string)**: whatever its syntax — literal, named constant, concatenation,
parenthesised — an expression that go/types evaluates to the string `s` converts to `String s`. -/
theorem const_fold_string (e : CExpr) (s : Bytes) (h : e.ann.cv = .str s) :
    convert e = .ok (mkOp "String" (.str s) []) := convertG_fold_string noHook true e s h

/-- **const_fold (int)**: an expression that go/types evaluates to an integer with an exact int64
value converts to `Int n`, whatever its syntax. -/
theorem const_fold_int (e : CExpr) (n : Int) (h : e.ann.cv = .int n) :
    convert e = .ok (mkOp "Int" (.int64 n) []) := convertG_fold_int noHook true e n h

/-- hence two spellings of the same constant are interchangeable as filter operands -/
theorem const_spelling_irrelevant (e e' : CExpr) (h : e.ann.cv = e'.ann.cv)
    (hc : (∃ s, e.ann.cv = .str s) ∨ (∃ n, e.ann.cv = .int n)) : convert e = convert e' := by
  rcases hc with ⟨s, hs⟩ | ⟨n, hn⟩
  · rw [const_fold_string e s hs, const_fold_string e' s (h ▸ hs)]
  · rw [const_fold_int e n hn, const_fold_int e' n (h ▸ hn)]

/-- string-argument positions (`parseStringArg`: Match/Report/Suggest/At/Import/GoVersion/File…/Contains/
IdenticalTo/m[…]): a string literal gives its unquoted value … -/
theorem stringArg_literal (a : Ann) (s : Bytes) : parseStringArg (.lit a true (some s)) = .ok s := rfl

/-- … and any other expression of type `string` that go/types evaluates to `s` gives `s` too. -/
theorem stringArg_const (e : CExpr) (s : Bytes) (hl : ∀ a b u, e ≠ .lit a b u)
    (ht : e.ann.isString = true) (hv : e.ann.cv = .str s) : parseStringArg e = .ok s := by
  unfold parseStringArg
  cases e with
  | lit a b u => exact absurd rfl (hl a b u)
  | _ => simp_all [toStringValue, CExpr.ann]

/-- D28 (repaired in /repo): an expression of type `string` that is not a constant is a located error, not a
panic in `constant.StringVal`. -/
theorem stringArg_nonconst_is_error (a : Ann) (name : String) (ht : a.isString = true) (hv : a.cv = .none) :
    parseStringArg (.ident a name) = .err := by
  simp [parseStringArg, toStringValue, CExpr.ann, ht, hv]

/-- the connectives look at their operands only through `convert`: replacing an operand by anything
that converts to the same IR (in particular another spelling of a constant) changes nothing -/
theorem binary_congr (a a' : Ann) (op : String) (x y x' y' : CExpr) (ha : noFold a) (ha' : noFold a')
    (hx : convert x = convert x') (hy : convert y = convert y') :
    convert (.binary a op x y) = convert (.binary a' op x' y') := by
  have e1 := convertImplG_noFold noHook true (.binary a op x y) ha
  have e2 := convertImplG_noFold noHook true (.binary a' op x' y') ha'
  unfold convert at hx hy ⊢
  rw [convertG.eq_1 noHook true (.binary a op x y), convertG.eq_1 noHook true (.binary a' op x' y'), e1, e2, convertStructG, convertStructG, hx, hy]

theorem unary_congr (a a' : Ann) (op : String) (x x' : CExpr) (ha : noFold a) (ha' : noFold a')
    (hx : convert x = convert x') : convert (.unary a op x) = convert (.unary a' op x') := by
  have e1 := convertImplG_noFold noHook true (.unary a op x) ha
  have e2 := convertImplG_noFold noHook true (.unary a' op x') ha'
  unfold convert at hx ⊢
  rw [convertG.eq_1 noHook true (.unary a op x), convertG.eq_1 noHook true (.unary a' op x'), e1, e2, convertStructG, convertStructG, hx]

theorem paren_transparent (a : Ann) (x : CExpr) (ha : noFold a) : convertImpl (.paren a x) = convert x := by
  have e1 := convertImplG_noFold noHook true (.paren a x) ha
  unfold convertImpl convert
  rw [e1, convertStructG]

-- non-vacuity: `"a" + "b"` (a binary expression whose value is "ab") and the literal `"ab"`
def annS (s : Bytes) : Ann := ⟨.str s, true⟩
def concatAB : CExpr := .binary (annS [97, 98]) "+" (.lit (annS [97]) true (some [97])) (.lit (annS [98]) true (some [98]))
def litAB : CExpr := .lit (annS [97, 98]) true (some [97, 98])
example : concatAB.ann.cv = litAB.ann.cv ∧ ∃ s, concatAB.ann.cv = .str s := ⟨rfl, _, rfl⟩
example : parseStringArg concatAB = .ok [97, 98] ∧ parseStringArg litAB = .ok [97, 98] := ⟨rfl, rfl⟩
example : noFold ⟨.none, false⟩ := by
  constructor
  · intro s h; simp at h
  · intro n h; simp at h

end consts

/-! ## the `types.Info` patch for copied literals -/
section literals
open MacroLit Conv IR

/-- **The re-created constant of a copied integer literal is Go's value of the literal.** -/
theorem retype_int_is_go_value (f : LitForm) (hwf : f.wf) (hv : f.value < 2 ^ 63) (unq : Option Bytes) :
    retype "INT" f.text unq = .int (Int.ofNat f.value) := by
  have h : ("INT" == "STRING") = false := by decide
  simp [retype, h, parseInt0_is_go_value f hwf hv]

/-- … so the copied literal converts to the IR of the literal written inline (`const_fold_int`), whatever its spelling -/
theorem retype_int_folds (f : LitForm) (hwf : f.wf) (hv : f.value < 2 ^ 63) (isStr : Bool) (unq : Option Bytes) :
    convert (.lit ⟨retype "INT" f.text unq, false⟩ isStr unq) = .ok (mkOp "Int" (.int64 (Int.ofNat f.value)) []) :=
  const_fold_int _ _ (by simp [CExpr.ann, retype_int_is_go_value f hwf hv unq])

theorem retype_string (text : List Nat) (s : Bytes) : retype "STRING" text (some s) = .str s := by
  simp [retype]

/-- rune, float and imaginary literals in a helper body never get a foldable value -/
theorem retype_other_never_folds (kind : String) (text : List Nat) (unq : Option Bytes)
    (h1 : kind ≠ "STRING") (h2 : kind ≠ "INT") : noFold ⟨retype kind text unq, false⟩ := by
  have e1 : (kind == "STRING") = false := by simpa using h1
  have e2 : (kind == "INT") = false := by simpa using h2
  have e : retype kind text unq = if (kind == "FLOAT") = true then CV.other else CV.none := by
    simp [retype, e1, e2]
  constructor
  · intro s; show retype kind text unq ≠ _; rw [e]; split <;> simp
  · intro n; show retype kind text unq ≠ _; rw [e]; split <;> simp

-- non-vacuity, kernel-checked: `0777` is 511 (not 777), `0x_1F` is 31, `1_000` is 1000, `0b101` is 5, `0O17` is 15;
-- `08`, `0x`, `1__0`, `1_` and 2^63 are not integers (no entry: the expansion is rejected)
example : retype "INT" [48, 55, 55, 55] none = .int 511 := by decide
example : retype "INT" [48, 120, 95, 49, 70] none = .int 31 := by decide
example : retype "INT" [49, 95, 48, 48, 48] none = .int 1000 := by decide
example : retype "INT" [48, 98, 49, 48, 49] none = .int 5 := by decide
example : retype "INT" [48, 79, 49, 55] none = .int 15 := by decide
example : retype "INT" [48, 95, 55] none = .int 7 := by decide
example : retype "INT" [48] none = .int 0 := by decide
example : retype "INT" [48, 56] none = .none := by decide
example : retype "INT" [48, 120] none = .none := by decide
example : retype "INT" [49, 95, 95, 48] none = .none := by decide
example : retype "INT" [49, 95] none = .none := by decide
example : retype "INT" [57, 50, 50, 51, 51, 55, 50, 48, 51, 54, 56, 53, 52, 55, 55, 53, 56, 48, 56] none = .none := by decide
example : retype "INT" [57, 50, 50, 51, 51, 55, 50, 48, 51, 54, 56, 53, 52, 55, 55, 53, 56, 48, 55] none = .int 9223372036854775807 := by decide
example : retype "CHAR" [39, 97, 39] none = .none := by decide
example : (LitForm.legacyOctal [some (7, false), some (7, false), some (7, false)]).text = [48, 55, 55, 55] ∧
    (LitForm.legacyOctal [some (7, false), some (7, false), some (7, false)]).value = 511 := by decide
example : (LitForm.legacyOctal [some (7, false), some (7, false), some (7, false)]).wf := by
  refine ⟨?_, by decide⟩
  intro d u h
  simp at h
  omega
example : (LitForm.prefixed 16 88 [none, some (1, false), some (15, true)]).text = [48, 88, 95, 49, 70] ∧
    (LitForm.prefixed 16 88 [none, some (1, false), some (15, true)]).value = 31 := by decide

end literals

/-! ## the statement loop -/
section group
open MacroLit Macro

/-- **Every call of a helper is expanded with the binding Go gives the variable at that rule** — on every group
the loop accepts, provided no name is defined twice with `:=` (Go's type checker refuses that). -/
theorem group_calls_see_go_binding (stmts : List Stmt) (out : List (List (Option MacroDef)))
    (hnd : (defNames stmts).Nodup) (h : groupLoop [] stmts = some out) : out = goGroup [] stmts :=
  groupLoop_is_go stmts [] out rfl (by simpa using hnd) h

/-- a plain `=` of a helper is not a recognised statement: the group is refused -/
theorem group_refuses_assign (fs : List MacroDef) (n : String) (ps : List String) (b : GExpr) (rest : List Stmt) :
    groupLoop fs (.assign n ps b :: rest) = none := rfl

/-- the refusal is necessary: were `=` recorded like `:=`, `h := A; rule(h); h = B; rule(h)` would expand the
second rule with `A`, while Go calls `B` -/
def reassigned : List Stmt :=
  [.define "h" ["v"] (.sel (.ident "v") "Const"), .rule ["h"], .assign "h" ["w"] (.sel (.ident "w") "Pure"), .rule ["h"]]

example : groupLoop [] reassigned = none := by decide
example : groupLoopCapturingAssign [] reassigned ≠ some (goGroup [] reassigned) := by decide
example : goGroup [] reassigned =
    [[some ⟨"h", ["v"], .sel (.ident "v") "Const"⟩], [some ⟨"h", ["w"], .sel (.ident "w") "Pure"⟩]] := by decide
-- non-vacuity of `group_calls_see_go_binding`
example : groupLoop [] [.define "h" ["v"] (.ident "v"), .decl, .rule ["h", "g"], .define "g" [] (.ident "m"), .rule ["g"]] =
    some [[some ⟨"h", ["v"], .ident "v"⟩, none], [some ⟨"g", [], .ident "m"⟩]] := by decide

end group

end C18
