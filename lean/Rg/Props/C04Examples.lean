import Rg.Model.QVM
import Rg.Spec.C04
/-!
# C04 — kernel-checked counterexamples against the code as it is

Each block is a small source program on which the as-is model (`Fixes.asis`: the transcription of
compile.go/eval.go that the harness shows to agree byte for byte with the real code) returns something
else than the reference semantics `SpecC04`, while the repaired model (`Fixes.all`) returns the
reference answer or rejects the program.  All are `decide`d by the kernel.
-/
namespace C04
open Q

/-- compile a file with the model and call function `idx` on a prepared stack -/
def runModel (fx : Fixes) (fs : List FuncDecl) (idx : Nat) (st : Stack) : Out CallResult :=
  match compileProgram fx [] fs [] [] with
  | .ok cfs =>
    match cfs[idx]? with
    | some f => callFunc fx { natives := [], funcs := cfs } 1000 f st
    | none => .unsup
  | _ => .unsup

def accepts (fx : Fixes) (fs : List FuncDecl) : Bool :=
  match compileProgram fx [] fs [] [] with
  | .ok _ => true
  | _ => false

def spec (fs : List FuncDecl) (idx : Nat) (args : List SpecC04.Val) : SpecC04.Out (Option SpecC04.Val) :=
  SpecC04.run { funcs := fs, nat := fun _ => none } 1000 idx args

def userCall (key : Nat) (res : Ty) (args : List Expr) : Expr :=
  .call { key := key, nativeOnly := false, sigVariadic := false, variadic := 0, tupleArg := 0, res := res, argTys := [] } [] args

/-! ### D1 — the callee's frame is never popped: `f(1) + f(10)` with `f(x) = x + 1` -/
def d1f : FuncDecl := ⟨0, [(0, .int)], [.int], .block [.ret .int (.bin .add .int (.ident 0 .int) (.cint 1))]⟩
def d1g : FuncDecl := ⟨1, [], [.int], .block [.ret .int (.bin .add .int (userCall 0 .int [.cint 1]) (userCall 0 .int [.cint 10]))]⟩

example : spec [d1f, d1g] 1 [] = .ok (some (.int 13)) := by decide
example : runModel Fixes.asis [d1f, d1g] 1 {} = .done { scalar := 22 } := by decide
example : runModel Fixes.all [d1f, d1g] 1 {} = .done { scalar := 13 } := by decide
example : runModel { Fixes.asis with frame := true } [d1f, d1g] 1 {} = .done { scalar := 13 } := by decide

/-! ### D2 — `if a { if b { return 1 } } else { return 2 }; return 3` on (true, false) -/
def d2 : FuncDecl := ⟨0, [(0, .bool), (1, .bool)], [.int], .block [
  .ifElse (.ident 0 .bool)
    (.block [.ifThen (.ident 1 .bool) (.block [.ret .int (.cint 1)])])
    (.block [.ret .int (.cint 2)]),
  .ret .int (.cint 3)]⟩
def d2args : Stack := { objs := [.bool false, .bool true] }

example : spec [d2] 0 [.bool true, .bool false] = .ok (some (.int 3)) := by decide
example : runModel Fixes.asis [d2] 0 d2args = .done { scalar := 2 } := by decide
example : runModel Fixes.all [d2] 0 d2args = .done { scalar := 3 } := by decide
example : runModel { Fixes.asis with ifJump := true } [d2] 0 d2args = .done { scalar := 3 } := by decide

/-! the same peephole, then-branch ending in a `for { … break }` loop -/
def d2b : FuncDecl := ⟨0, [(0, .bool)], [.int], .block [
  .ifElse (.ident 0 .bool)
    (.block [.forEver (.block [.brk])])
    (.block [.ret .int (.cint 2)]),
  .ret .int (.cint 3)]⟩
example : spec [d2b] 0 [.bool true] = .ok (some (.int 3)) := by decide
example : runModel Fixes.asis [d2b] 0 { objs := [.bool true] } = .done { scalar := 2 } := by decide
example : runModel Fixes.all [d2b] 0 { objs := [.bool true] } = .done { scalar := 3 } := by decide

/-! ### D3 — `||` leaves the duplicated operand below its result: `"s" + b2(f || t, "x")` -/
def d3b2 : FuncDecl := ⟨0, [(0, .bool), (1, .str)], [.str], .block [
  .ifThen (.ident 0 .bool) (.block [.ret .str (.bin .add .str (.cstr [84]) (.ident 1 .str))]),
  .ret .str (.bin .add .str (.cstr [70]) (.ident 1 .str))]⟩
def d3 : FuncDecl := ⟨1, [(0, .bool), (1, .bool)], [.str], .block [
  .ret .str (.bin .add .str (.cstr [115])
    (userCall 0 .str [.bin .lor .bool (.ident 0 .bool) (.ident 1 .bool), .cstr [120]]))]⟩
def d3args : Stack := { objs := [.bool true, .bool false] }

example : spec [d3b2, d3] 1 [.bool false, .bool true] = .ok (some (.str [115, 84, 120])) := by decide   -- "sTx"
example : runModel Fixes.asis [d3b2, d3] 1 d3args = .done { value := .str [84, 120, 84, 120] } := by decide  -- "TxTx"
example : runModel Fixes.all [d3b2, d3] 1 d3args = .done { value := .str [115, 84, 120] } := by decide

/-! ### a local that shadows a parameter is read as the parameter -/
def shadow : FuncDecl := ⟨0, [(0, .int)], [.int], .block [
  .ifThen (.bin .gtr .int (.ident 0 .int) (.cint 0))
    (.block [.assign true [(0, .int)] (.cint 5), .ret .int (.ident 0 .int)]),
  .ret .int (.cint 0)]⟩
example : spec [shadow] 0 [.int 3] = .ok (some (.int 5)) := by decide
example : runModel Fixes.asis [shadow] 0 { ints := [3] } = .done { scalar := 3 } := by decide
example : accepts Fixes.all [shadow] = false := by decide

/-! ### `for ; c; post { … }` is compiled as `for { … }` -/
def forClause : FuncDecl := ⟨0, [], [.int], .block [
  .assign true [(0, .int)] (.cint 0),
  .assign true [(1, .int)] (.cint 0),
  .forClause false true true (.block []) (.bin .lss .int (.ident 0 .int) (.cint 2)) (.incdec true 0)
    (.block [.incdec true 1, .ifThen (.bin .gtr .int (.ident 1 .int) (.cint 5)) (.block [.brk])]),
  .ret .int (.ident 1 .int)]⟩
example : spec [forClause] 0 [] = .ok (some (.int 2)) := by decide
example : runModel Fixes.asis [forClause] 0 {} = .done { scalar := 6 } := by decide
example : accepts Fixes.all [forClause] = false := by decide

/-! ### `x += e` is compiled as `x = e` -/
def assignOp : FuncDecl := ⟨0, [], [.int], .block [
  .assign true [(0, .int)] (.cint 40),
  .assignOp .add 0 .int (.cint 2),
  .ret .int (.ident 0 .int)]⟩
example : spec [assignOp] 0 [] = .ok (some (.int 42)) := by decide
example : runModel Fixes.asis [assignOp] 0 {} = .done { scalar := 2 } := by decide
example : accepts Fixes.all [assignOp] = false := by decide

/-! ### the init statement of `if x = 5; c { … }` is dropped -/
def ifInit : FuncDecl := ⟨0, [(0, .bool)], [.int], .block [
  .assign true [(1, .int)] (.cint 1),
  .ifInit (.assign false [(1, .int)] (.cint 5)) (.ifThen (.ident 0 .bool) (.block [])),
  .ret .int (.ident 1 .int)]⟩
example : spec [ifInit] 0 [.bool false] = .ok (some (.int 5)) := by decide
example : runModel Fixes.asis [ifInit] 0 { objs := [.bool false] } = .done { scalar := 1 } := by decide
example : accepts Fixes.all [ifInit] = false := by decide

/-! ### D20 — 8-bit operands wrap: the 257th constant of a function is read as the first one
(a complete 258-arm program is too large for kernel evaluation; the harness's stress stream reports the concrete
program, here the defect is pinned at the instruction that is emitted for the 257th constant) -/
set_option maxRecDepth 20000
def pool256 : List Bytes := (List.range 256).map fun k => [UInt8.ofNat k]

example : compileExpr Fixes.asis ⟨[], []⟩ ⟨false, [], []⟩ (.cstr [1, 0]) { consts := pool256 } =
    .ok { consts := pool256 ++ [[1, 0]], code := [byte Opc.PushConst, 0], lastOp := Opc.PushConst } := by decide
-- … and the VM then pushes constant 0, the string "\x00", instead of "\x01\x00"
example : (match step { code := [], consts := pool256 ++ [[1, 0]], intConsts := [], numObjectParams := 0, numIntParams := 0 }
    (newFrame 0 0) {} 0 (.pushConst 0) with
    | .ok (.cont _ st _) => st.objs
    | _ => []) = [.str [0]] := by decide
-- the repaired compiler rejects the function instead
example : compileExpr Fixes.all ⟨[], []⟩ ⟨false, [], []⟩ (.cstr [1, 0]) { consts := pool256 } = .err := by decide

end C04
