import Rg.Proofs.Render
/-!
# C03 — report payload: message, location, quick-fix text

Model: `Rg/Model/Render.lean` (renderMessage, fixedText, nodeText offsets, handleMatch payload);
reference: `Rg/Spec/C03.lean` (interpolation by longest bound name, edit application).
-/
namespace C03
open Render SpecC03

/-- capture names are pairwise distinct (gogrep binds each variable once) -/
def NamesDistinct (caps : List Cap) : Prop :=
  ∀ a ∈ caps.filter (fun c => !c.typedNil), ∀ b ∈ caps.filter (fun c => !c.typedNil), a.name = b.name → a = b

/-- **render_eq_spec**: for every template, any number of captures (names that are prefixes of one
another included), every limit: the sort-then-first-prefix loop of `renderMessage` substitutes, at
every `$`, the *longest* bound name — i.e. equals the reference interpolation. -/
theorem render_eq_spec (msg : Bytes) (whole : Cap) (caps : List Cap) (truncate : Bool) (limit : Int)
    (hnd : NamesDistinct caps) (hd : msg.contains dollar = true) :
    render msg whole caps truncate limit = specRender msg whole caps truncate limit := by
  unfold render specRender
  simp only [hd, Bool.not_true, Bool.false_eq_true, if_false]
  apply loop_eq_specLoop
  intro rest
  split
  · exact find_sorted_eq_pickLongest _ rest hnd
  · rename_i h; exact find_eq_pickLongest_small _ rest h

/-- a template without `$` is the message -/
theorem render_no_dollar (msg : Bytes) (whole : Cap) (caps : List Cap) (truncate : Bool) (limit : Int)
    (hd : msg.contains dollar = false) : render msg whole caps truncate limit = .ok msg := by
  unfold render; rw [hd]; rfl

theorem subst_untruncated (limit₁ limit₂ : Int) (c : Cap) (f : Bytes) :
    subst false limit₁ c f = subst false limit₂ c f := rfl

theorem loop_untruncated (l1 l2 : Int) (whole : Cap) (caps : List Cap) :
    ∀ fuel msg, loop false l1 whole caps fuel msg = loop false l2 whole caps fuel msg := by
  intro fuel
  induction fuel with
  | zero => intro _; rfl
  | succ n ih =>
    intro msg
    cases msg with
    | nil => rfl
    | cons c rest => simp only [loop, ih, subst_untruncated l1 l2]

/-- **suggest_untruncated**: the Suggest text (truncate = false) does not depend on TruncateLen and
contains every capture text unshortened. -/
theorem suggest_untruncated (msg : Bytes) (whole : Cap) (caps : List Cap) (l1 l2 : Int) :
    render msg whole caps false l1 = render msg whole caps false l2 := by
  unfold render; split
  · rfl
  · exact loop_untruncated l1 l2 whole _ _ _

theorem subst_total (t : Bool) (limit : Int) (c : Cap) (f : Bytes) : ∃ r, subst t limit c f = .ok r := by
  unfold subst
  split
  · exact trunc_total _ _
  · exact ⟨_, rfl⟩

theorem loop_total (t : Bool) (limit : Int) (whole : Cap) (caps : List Cap) :
    ∀ fuel msg, ∃ r, loop t limit whole caps fuel msg = .ok r := by
  intro fuel
  induction fuel with
  | zero => intro _; exact ⟨_, rfl⟩
  | succ n ih =>
    intro msg
    cases msg with
    | nil => exact ⟨_, rfl⟩
    | cons c rest =>
      simp only [loop]
      split
      · obtain ⟨r, hr⟩ := ih rest; exact ⟨c :: r, by simp [hr]⟩
      · split
        · obtain ⟨a, ha⟩ := subst_total t limit whole rest.tail
          obtain ⟨r, hr⟩ := ih rest.tail
          exact ⟨a ++ r, by simp [ha, hr]⟩
        · split
          · rename_i k _
            obtain ⟨a, ha⟩ := subst_total t limit k (rest.drop k.name.length)
            obtain ⟨r, hr⟩ := ih (rest.drop k.name.length)
            exact ⟨a ++ r, by simp [ha, hr]⟩
          · obtain ⟨r, hr⟩ := ih rest; exact ⟨dollar :: r, by simp [hr]⟩

/-- **render_total**: interpolation never fails, whatever the template, captures and limit. -/
theorem render_total (msg : Bytes) (whole : Cap) (caps : List Cap) (t : Bool) (limit : Int) :
    ∃ r, render msg whole caps t limit = .ok r := by
  unfold render; split
  · exact ⟨_, rfl⟩
  · exact loop_total _ _ _ _ _ _

/-- **nodeText_is_slice**: a node whose offsets lie in the file — including one that ends exactly at
EOF — is rendered as exactly the file bytes `[from, to)`, never as the printer fallback. -/
theorem nodeText_is_slice (src : Bytes) (f t : Nat) (fb : Bytes) (h1 : f ≤ t) (h2 : t ≤ src.length)
    (h3 : f < src.length) :
    nodeText src f t fb = .ok ((src.drop f).take (t - f)) := by
  have c : ((0:Int) ≤ (f:Int) ∧ (f:Int) < (src.length:Int)) ∧ ((0:Int) ≤ (t:Int) ∧ (t:Int) ≤ (src.length:Int)) := by omega
  have c2 : (0:Int) ≤ (f:Int) ∧ (f:Int) ≤ (t:Int) ∧ (t:Int) ≤ (src.length:Int) := by omega
  simp only [nodeText, c, and_self, if_true, goSlice, c2]
  congr 2
  omega

-- the pre-fix function sent a node ending at EOF to the printer fallback (D11), kernel-checked:
example : nodeTextAsIs [1, 2, 3] 1 3 [9] = .ok [9] := by decide
example : nodeText [1, 2, 3] 1 3 [9] = .ok [2, 3] := by decide

/-- **suggest_self_identity**: replacing a span by its own source text leaves the file unchanged
(so suggesting a pattern's own text leaves the AST unchanged). -/
theorem suggest_self_identity (src : Bytes) (f t : Nat) (h1 : f ≤ t) (_h2 : t ≤ src.length) :
    applyEdit src f t ((src.drop f).take (t - f)) = src := by
  unfold applyEdit
  have e : src.drop t = (src.drop f).drop (t - f) := by
    rw [List.drop_drop]; congr 1; omega
  rw [e, List.append_assoc, List.take_append_drop, List.take_append_drop]

/-- **payload_location**: the reported node is the At() capture if given, else the whole match; a
suggestion replaces exactly the reported node's span with the untruncated Suggest interpolation;
the line is the matched alternative's. -/
theorem payload_location (msgT suggT : Bytes) (whole : Cap) (caps : List Cap) (limit : Int)
    (ms : Span) (at? : Option Span) (line : Nat) (p : Payload)
    (h : payload msgT suggT whole caps limit ms at? line = .ok p) :
    p.node = at?.getD ms ∧ p.line = line ∧
    render msgT whole caps true limit = .ok p.message ∧
    (∀ sp txt, p.suggestion = some (sp, txt) →
      sp = p.node ∧ render suggT whole caps false 0 = .ok txt) := by
  unfold payload at h
  obtain ⟨m, hm⟩ := render_total msgT whole caps true limit
  simp only [hm, bind, Res.bind] at h
  by_cases he : suggT.isEmpty = true
  · simp only [he, if_true, pure] at h
    injection h with h; subst h
    exact ⟨rfl, rfl, hm, by intro _ _ h; simp at h⟩
  · obtain ⟨s, hs⟩ := render_total suggT whole caps false limit
    simp only [he, Bool.false_eq_true, if_false, hs, pure, bind, Res.bind] at h
    injection h with h; subst h
    refine ⟨rfl, rfl, hm, ?_⟩
    intro sp txt hsug
    simp only at hsug
    split at hsug
    · simp at hsug
    · injection hsug with hsug
      injection hsug with h1 h2
      subst h1; subst h2
      exact ⟨rfl, by rw [← hs]; exact suggest_untruncated _ _ _ _ _⟩

-- non-vacuity: prefix-related names `x`, `xy`; `$xy` must take `xy`, not `x` followed by "y"
def capX : Cap := { name := [120], typedNil := false, amp := false, text := [65] }
def capXY : Cap := { name := [120, 121], typedNil := false, amp := false, text := [66] }
example : NamesDistinct [capX, capXY] := by
  intro a ha b hb; simp [capX, capXY] at ha hb
  rcases ha with rfl | rfl <;> rcases hb with rfl | rfl <;> simp
example : render [36, 120, 121] capX [capX, capXY] false 0 = .ok [66] := by decide
example : specRender [36, 120, 121] capX [capX, capXY] false 0 = .ok [66] := by decide

end C03
